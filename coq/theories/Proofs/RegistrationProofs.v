(* Proofs/RegistrationProofs.v — least-squares line, pulse-echo selection and the
   registration move (C19).  Exact arithmetic (NumR).  numpy.polyfit is a Section-free
   hypothesis `is_ls_minimiser fit` on the function argument of `move_probe`. *)
From Coq Require Import Reals ZArith List Bool Lra Lia Permutation.
From Flocq Require Import Core.Raux.
From Arim Require Import Base.Num Base.NumR Model.Registration.
Import ListNotations.

(* ------------------------------------------------------------------------- *)
(* list facts (nat / Permutation), before R_scope is opened                   *)
(* ------------------------------------------------------------------------- *)
Lemma filter_perm {A} (f : A -> bool) (l l' : list A) :
  Permutation l l' -> Permutation (filter f l) (filter f l').
Proof.
  intros HP. induction HP as [| x l l' HP IH | x y l | l l' l'' HP1 IH1 HP2 IH2]; cbn [filter].
  - constructor.
  - destruct (f x); [constructor|]; exact IH.
  - destruct (f x), (f y); try apply perm_swap; apply Permutation_refl.
  - eapply perm_trans; eassumption.
Qed.

Lemma existsb_perm {A} (f : A -> bool) (l l' : list A) :
  Permutation l l' -> existsb f l = existsb f l'.
Proof.
  intros HP. destruct (existsb f l) eqn:E1; symmetry.
  - apply existsb_exists in E1. destruct E1 as [x [Hin Hf]]. apply existsb_exists. exists x. split; [|exact Hf].
    eapply Permutation_in; eassumption.
  - destruct (existsb f l') eqn:E2; [|reflexivity]. apply existsb_exists in E2. destruct E2 as [x [Hin Hf]].
    assert (existsb f l = true) as E3.
    { apply existsb_exists. exists x. split; [|exact Hf]. eapply Permutation_in; [apply Permutation_sym|]; eassumption. }
    congruence.
Qed.

Lemma forallb_perm {A} (f : A -> bool) (l l' : list A) :
  Permutation l l' -> forallb f l = forallb f l'.
Proof.
  intros HP. induction HP as [| x l l' HP IH | x y l | l l' l'' HP1 IH1 HP2 IH2]; cbn [forallb].
  - reflexivity.
  - rewrite IH. reflexivity.
  - destruct (f x), (f y); reflexivity.
  - congruence.
Qed.

Lemma map_fst_combine {A B} (l : list A) (l' : list B) :
  length l = length l' -> map fst (combine l l') = l.
Proof.
  revert l'. induction l as [| a l IH]; intros [| b l'] HL; cbn in *; try reflexivity; try discriminate.
  f_equal. apply IH. lia.
Qed.

Lemma map_snd_combine {A B} (l : list A) (l' : list B) :
  length l = length l' -> map snd (combine l l') = l'.
Proof.
  revert l'. induction l as [| a l IH]; intros [| b l'] HL; cbn in *; try reflexivity; try discriminate.
  f_equal. apply IH. lia.
Qed.

Lemma combine_map_same {A B C} (f : A -> B) (h : A -> C) (l : list A) :
  combine (map f l) (map h l) = map (fun a => (f a, h a)) l.
Proof. induction l as [| a l IH]; cbn; [reflexivity | rewrite IH; reflexivity]. Qed.

Local Open Scope R_scope.

(* ------------------------------------------------------------------------- *)
(* sums                                                                       *)
(* ------------------------------------------------------------------------- *)
Fixpoint rsum (l : list R) : R := match l with [] => 0 | x :: l' => x + rsum l' end.

Lemma fold_left_Rplus_acc (l : list R) (a : R) : fold_left Rplus l a = a + rsum l.
Proof.
  revert a. induction l as [| x l IH]; intro a; cbn [fold_left rsum]; [ring | rewrite IH; ring].
Qed.

Lemma nsum_rsum (l : list R) : nsum NumR l = rsum l.
Proof. unfold nsum. cbn [nadd n0 NumR]. rewrite fold_left_Rplus_acc. ring. Qed.

Lemma rsum_perm (l l' : list R) : Permutation l l' -> rsum l = rsum l'.
Proof.
  intros HP. induction HP as [| x l l' HP IH | x y l | l l' l'' HP1 IH1 HP2 IH2]; cbn [rsum];
    [reflexivity | rewrite IH; reflexivity | ring | congruence].
Qed.

Lemma rsum_nonneg (l : list R) : (forall x, In x l -> 0 <= x) -> 0 <= rsum l.
Proof.
  induction l as [| x l IH]; intro H; cbn [rsum]; [lra|].
  assert (0 <= x) by (apply H; left; reflexivity).
  assert (0 <= rsum l) by (apply IH; intros y Hy; apply H; right; exact Hy). lra.
Qed.

Lemma rsum_ge_term (l : list R) (x : R) : (forall y, In y l -> 0 <= y) -> In x l -> x <= rsum l.
Proof.
  induction l as [| y l IH]; intros Hpos Hin; [destruct Hin|]. cbn [rsum].
  assert (0 <= y) by (apply Hpos; left; reflexivity).
  assert (0 <= rsum l) by (apply rsum_nonneg; intros z Hz; apply Hpos; right; exact Hz).
  destruct Hin as [-> | Hin]; [lra|].
  assert (x <= rsum l) by (apply IH; [intros z Hz; apply Hpos; right; exact Hz | exact Hin]). lra.
Qed.

Lemma rsum_zero_all (l : list R) : (forall y, In y l -> 0 <= y) -> rsum l = 0 -> forall x, In x l -> x = 0.
Proof.
  intros Hpos H0 x Hin. pose proof (rsum_ge_term l x Hpos Hin). pose proof (Hpos x Hin). lra.
Qed.

(* ------------------------------------------------------------------------- *)
(* least squares on a list of (abscissa, ordinate) pairs                      *)
(* ------------------------------------------------------------------------- *)
Definition Sn (ps : list (R * R)) : R := INR (length ps).
Definition Sx (ps : list (R * R)) : R := rsum (map fst ps).
Definition Sy (ps : list (R * R)) : R := rsum (map snd ps).
Definition Sxx (ps : list (R * R)) : R := rsum (map (fun p => fst p * fst p) ps).
Definition Sxy (ps : list (R * R)) : R := rsum (map (fun p => fst p * snd p) ps).
Definition Syy (ps : list (R * R)) : R := rsum (map (fun p => snd p * snd p) ps).
Definition Den (ps : list (R * R)) : R := Sn ps * Sxx ps - Sx ps * Sx ps.

(* sum of squared residuals of the line d = a x + b *)
Definition sse_pairs (ps : list (R * R)) (a b : R) : R :=
  rsum (map (fun p => (snd p - (a * fst p + b)) * (snd p - (a * fst p + b))) ps).
Definition sse (xs ds : list R) (a b : R) : R := sse_pairs (combine xs ds) a b.

(* what numpy.polyfit(x, d, 1) is trusted to return: (slope, intercept) minimising sse *)
Definition is_ls_minimiser (fit : list R -> list R -> R * R) : Prop :=
  forall xs ds a b, length xs = length ds ->
    sse xs ds (fst (fit xs ds)) (snd (fit xs ds)) <= sse xs ds a b.

Definition fit_pairs (ps : list (R * R)) : R * R :=
  let p1 := (Sn ps * Sxy ps - Sx ps * Sy ps) / Den ps in
  (p1, (Sy ps - p1 * Sx ps) / Sn ps).

Lemma sse_pairs_nonneg ps a b : 0 <= sse_pairs ps a b.
Proof.
  unfold sse_pairs. apply rsum_nonneg. intros x Hx. apply in_map_iff in Hx.
  destruct Hx as [p [<- _]]. apply Rle_0_sqr.
Qed.

Lemma sse_expand ps a b :
  sse_pairs ps a b = Syy ps - 2 * a * Sxy ps - 2 * b * Sy ps + a * a * Sxx ps + 2 * a * b * Sx ps + Sn ps * (b * b).
Proof.
  unfold sse_pairs, Syy, Sxy, Sy, Sxx, Sx, Sn.
  induction ps as [| p ps IH]; [cbn; ring|].
  cbn [map rsum length]. rewrite S_INR. rewrite IH. ring.
Qed.

Lemma sum_sq_dev ps m :
  rsum (map (fun p => (fst p - m) * (fst p - m)) ps) = Sxx ps - 2 * m * Sx ps + Sn ps * (m * m).
Proof.
  unfold Sxx, Sx, Sn. induction ps as [| p ps IH]; [cbn; ring|].
  cbn [map rsum length]. rewrite S_INR. rewrite IH. ring.
Qed.

Lemma Sn_pos ps : ps <> [] -> 0 < Sn ps.
Proof. intro H. unfold Sn. destruct ps; [congruence|]. apply lt_0_INR. cbn. lia. Qed.

Lemma den_pos ps x1 x2 :
  In x1 (map fst ps) -> In x2 (map fst ps) -> x1 <> x2 -> 0 < Den ps.
Proof.
  intros H1 H2 Hne.
  assert (ps <> []) as Hnil by (destruct ps; [destruct H1 | discriminate]).
  pose proof (Sn_pos ps Hnil) as Hn.
  set (m := Sx ps / Sn ps).
  assert (Den ps = Sn ps * rsum (map (fun p => (fst p - m) * (fst p - m)) ps)) as ->.
  { rewrite sum_sq_dev. unfold Den, m. field. lra. }
  apply Rmult_lt_0_compat; [exact Hn|].
  assert (forall y, In y (map (fun p => (fst p - m) * (fst p - m)) ps) -> 0 <= y) as Hpos.
  { intros y Hy. apply in_map_iff in Hy. destruct Hy as [p [<- _]]. apply Rle_0_sqr. }
  assert (forall x, In x (map fst ps) -> (x - m) * (x - m) <= rsum (map (fun p => (fst p - m) * (fst p - m)) ps)) as Hterm.
  { intros x Hx. apply rsum_ge_term; [exact Hpos|]. apply in_map_iff in Hx. destruct Hx as [p [<- Hp]].
    apply in_map_iff. exists p. split; [reflexivity | exact Hp]. }
  destruct (Req_dec x1 m) as [E1 | E1].
  - assert (x2 <> m) as E2 by congruence. pose proof (Hterm x2 H2).
    assert (0 < (x2 - m) * (x2 - m)) by (apply Rsqr_pos_lt; lra). lra.
  - pose proof (Hterm x1 H1). assert (0 < (x1 - m) * (x1 - m)) by (apply Rsqr_pos_lt; lra). lra.
Qed.

(* the excess of any line over the closed-form line is a positive quadratic form *)
Lemma sse_excess ps a b : 0 < Sn ps -> Den ps <> 0 ->
  sse_pairs ps a b - sse_pairs ps (fst (fit_pairs ps)) (snd (fit_pairs ps))
  = Sxx ps * ((a - fst (fit_pairs ps)) * (a - fst (fit_pairs ps)))
    + 2 * Sx ps * (a - fst (fit_pairs ps)) * (b - snd (fit_pairs ps))
    + Sn ps * ((b - snd (fit_pairs ps)) * (b - snd (fit_pairs ps))).
Proof.
  intros Hn Hd. rewrite !sse_expand. unfold fit_pairs. cbn [fst snd]. unfold Den in *. field. split; lra.
Qed.

Lemma fit_pairs_minimises ps a b : 0 < Den ps -> ps <> [] ->
  sse_pairs ps (fst (fit_pairs ps)) (snd (fit_pairs ps)) <= sse_pairs ps a b.
Proof.
  intros Hd Hnil. pose proof (Sn_pos ps Hnil) as Hn.
  pose proof (sse_excess ps a b Hn ltac:(lra)) as HE.
  set (da := a - fst (fit_pairs ps)) in *. set (db := b - snd (fit_pairs ps)) in *.
  assert (Sn ps * (Sxx ps * (da * da) + 2 * Sx ps * da * db + Sn ps * (db * db))
          = (Sn ps * db + Sx ps * da) * (Sn ps * db + Sx ps * da) + Den ps * (da * da)) as HQ
      by (unfold Den; ring).
  assert (0 <= (Sn ps * db + Sx ps * da) * (Sn ps * db + Sx ps * da)) by apply Rle_0_sqr.
  assert (0 <= Den ps * (da * da)) by (apply Rmult_le_pos; [lra | apply Rle_0_sqr]).
  assert (0 <= Sxx ps * (da * da) + 2 * Sx ps * da * db + Sn ps * (db * db)) as HF.
  { apply Rmult_le_reg_l with (Sn ps); [exact Hn|]. rewrite HQ. lra. }
  lra.
Qed.

Lemma fit_pairs_unique ps a b : 0 < Den ps -> ps <> [] ->
  sse_pairs ps a b <= sse_pairs ps (fst (fit_pairs ps)) (snd (fit_pairs ps)) ->
  (a, b) = fit_pairs ps.
Proof.
  intros Hd Hnil Hle. pose proof (Sn_pos ps Hnil) as Hn.
  pose proof (sse_excess ps a b Hn ltac:(lra)) as HE.
  set (da := a - fst (fit_pairs ps)) in *. set (db := b - snd (fit_pairs ps)) in *.
  assert (Sn ps * (Sxx ps * (da * da) + 2 * Sx ps * da * db + Sn ps * (db * db))
          = (Sn ps * db + Sx ps * da) * (Sn ps * db + Sx ps * da) + Den ps * (da * da)) as HQ
      by (unfold Den; ring).
  assert (0 <= (Sn ps * db + Sx ps * da) * (Sn ps * db + Sx ps * da)) as Hs1 by apply Rle_0_sqr.
  assert (0 <= da * da) as Hs2 by apply Rle_0_sqr.
  assert (Sn ps * (Sxx ps * (da * da) + 2 * Sx ps * da * db + Sn ps * (db * db)) <= 0) as HF.
  { rewrite <- (Rmult_0_r (Sn ps)). apply Rmult_le_compat_l; lra. }
  rewrite HQ in HF.
  assert (0 <= Den ps * (da * da)) as Hs3 by (apply Rmult_le_pos; lra).
  assert (Den ps * (da * da) = 0) as Z1 by lra.
  assert ((Sn ps * db + Sx ps * da) * (Sn ps * db + Sx ps * da) = 0) as Z2 by lra.
  assert (da = 0) as Zda.
  { apply Rmult_integral in Z1. destruct Z1 as [Z1 | Z1]; [lra|]. apply Rmult_integral in Z1. tauto. }
  assert (db = 0) as Zdb.
  { apply Rmult_integral in Z2. assert (Sn ps * db + Sx ps * da = 0) as Z3 by tauto.
    rewrite Zda in Z3. assert (Sn ps * db = 0) as Z4 by lra. apply Rmult_integral in Z4. destruct Z4; lra. }
  unfold da, db in *. destruct (fit_pairs ps) as [p1 p0]. cbn [fst snd] in *. f_equal; lra.
Qed.

(* collinear data have zero residual, hence the closed form returns the line *)
Lemma sse_collinear xs a b :
  sse_pairs (map (fun x => (x, a * x + b)) xs) a b = 0.
Proof.
  unfold sse_pairs. induction xs as [| x xs IH]; [reflexivity|].
  cbn [map rsum fst snd] in *. rewrite IH. ring.
Qed.

Lemma fit_pairs_exact xs a b x1 x2 : In x1 xs -> In x2 xs -> x1 <> x2 ->
  fit_pairs (map (fun x => (x, a * x + b)) xs) = (a, b).
Proof.
  intros H1 H2 Hne. set (ps := map (fun x => (x, a * x + b)) xs).
  assert (map fst ps = xs) as Hf.
  { unfold ps. rewrite map_map. cbn [fst]. apply map_id. }
  assert (0 < Den ps) as Hd by (apply (den_pos ps x1 x2); [rewrite Hf; exact H1 | rewrite Hf; exact H2 | exact Hne]).
  assert (ps <> []) as Hnil by (unfold ps; destruct xs; [destruct H1 | discriminate]).
  symmetry. apply fit_pairs_unique; [exact Hd | exact Hnil|].
  unfold ps at 1. rewrite sse_collinear. apply sse_pairs_nonneg.
Qed.

(* ---- the model's closed form is fit_pairs ---------------------------------- *)
Lemma fit_line_pairs xs ds : length xs = length ds -> fit_line NumR xs ds = fit_pairs (combine xs ds).
Proof.
  intro HL. unfold fit_line, fit_pairs, Den, Sn, Sx, Sy, Sxx, Sxy.
  cbn [nadd nsub nmul ndiv nofZ NumR]. rewrite !nsum_rsum.
  rewrite (map_fst_combine xs ds HL), (map_snd_combine xs ds HL).
  rewrite combine_length, <- HL, Nat.min_id, <- INR_IZR_INZ.
  replace (rsum (map (fun p : R * R => fst p * fst p) (combine xs ds))) with (rsum (map (fun x : R => x * x) xs)).
  - reflexivity.
  - rewrite <- (map_fst_combine xs ds HL) at 1. rewrite map_map. reflexivity.
Qed.

Lemma combine_nil_iff {A B} (l : list A) (l' : list B) : length l = length l' -> l <> [] -> combine l l' <> [].
Proof. destruct l, l'; cbn; intros; try congruence; discriminate. Qed.

(* any least-squares oracle agrees with the closed form when two abscissae differ *)
Lemma oracle_is_closed_form fit xs ds x1 x2 :
  is_ls_minimiser fit -> length xs = length ds -> In x1 xs -> In x2 xs -> x1 <> x2 ->
  fit xs ds = fit_line NumR xs ds.
Proof.
  intros Hfit HL H1 H2 Hne. rewrite (fit_line_pairs xs ds HL).
  set (ps := combine xs ds).
  assert (map fst ps = xs) as Hf by (apply map_fst_combine; exact HL).
  assert (0 < Den ps) as Hd by (apply (den_pos ps x1 x2); [rewrite Hf; exact H1 | rewrite Hf; exact H2 | exact Hne]).
  assert (ps <> []) as Hnil by (apply combine_nil_iff; [exact HL | destruct xs; [destruct H1 | discriminate]]).
  rewrite (surjective_pairing (fit xs ds)). apply fit_pairs_unique; [exact Hd | exact Hnil|].
  apply (Hfit xs ds _ _ HL).
Qed.

Lemma fit_line_is_minimiser xs ds a b x1 x2 :
  length xs = length ds -> In x1 xs -> In x2 xs -> x1 <> x2 ->
  sse xs ds (fst (fit_line NumR xs ds)) (snd (fit_line NumR xs ds)) <= sse xs ds a b.
Proof.
  intros HL H1 H2 Hne. rewrite (fit_line_pairs xs ds HL). unfold sse.
  set (ps := combine xs ds).
  assert (map fst ps = xs) as Hf by (apply map_fst_combine; exact HL).
  apply fit_pairs_minimises.
  - apply (den_pos ps x1 x2); [rewrite Hf; exact H1 | rewrite Hf; exact H2 | exact Hne].
  - apply combine_nil_iff; [exact HL | destruct xs; [destruct H1 | discriminate]].
Qed.

Lemma fit_line_exact xs a b x1 x2 : In x1 xs -> In x2 xs -> x1 <> x2 ->
  fit_line NumR xs (map (fun x => a * x + b) xs) = (a, b).
Proof.
  intros H1 H2 Hne. rewrite fit_line_pairs by (rewrite map_length; reflexivity).
  replace (combine xs (map (fun x => a * x + b) xs)) with (map (fun x => (x, a * x + b)) xs).
  - apply (fit_pairs_exact xs a b x1 x2 H1 H2 Hne).
  - rewrite <- (map_id xs) at 2. rewrite combine_map_same. reflexivity.
Qed.

Lemma fit_pairs_perm ps ps' : Permutation ps ps' -> fit_pairs ps = fit_pairs ps'.
Proof.
  intro HP. unfold fit_pairs, Den, Sn, Sx, Sy, Sxx, Sxy.
  rewrite (Permutation_length HP).
  rewrite (rsum_perm _ _ (Permutation_map fst HP)), (rsum_perm _ _ (Permutation_map snd HP)),
    (rsum_perm _ _ (Permutation_map (fun p => fst p * fst p) HP)),
    (rsum_perm _ _ (Permutation_map (fun p => fst p * snd p) HP)).
  reflexivity.
Qed.

(* ------------------------------------------------------------------------- *)
(* the numeric tests of the model, over R                                     *)
(* ------------------------------------------------------------------------- *)
Lemma nabs_R a : nabs NumR a = Rabs a.
Proof.
  unfold nabs. cbn [nltb nopp n0 NumR]. destruct (Rlt_bool_spec a 0) as [H | H].
  - rewrite Rabs_left; [reflexivity | exact H].
  - rewrite Rabs_right; [reflexivity | lra].
Qed.

Lemma nmin_R a b : nmin NumR a b = Rmin a b.
Proof.
  unfold nmin. cbn [nltb NumR]. destruct (Rlt_bool_spec b a) as [H | H].
  - rewrite Rmin_right; [reflexivity | lra].
  - rewrite Rmin_left; [reflexivity | exact H].
Qed.

Lemma nmax_R a b : nmax NumR a b = Rmax a b.
Proof.
  unfold nmax. cbn [nltb NumR]. destruct (Rlt_bool_spec a b) as [H | H].
  - rewrite Rmax_right; [reflexivity | lra].
  - rewrite Rmax_left; [reflexivity | exact H].
Qed.

Definition tolA : R := 1 / 100000000.
Definition tolR : R := 1 / 100000.

Lemma isclose_R a b : isclose NumR a b = Rle_bool (Rabs (a - b)) (tolA + tolR * Rabs b).
Proof. unfold isclose, atol8, rtol5. rewrite !nabs_R. reflexivity. Qed.

Lemma isclose_refl a : isclose NumR a a = true.
Proof.
  rewrite isclose_R. apply Rle_bool_true. replace (a - a) with 0 by ring. rewrite Rabs_R0.
  pose proof (Rabs_pos a). unfold tolA, tolR. nra.
Qed.

Lemma isclose_false_neq a b : isclose NumR a b = false -> a <> b.
Proof. intros H E. subst. rewrite isclose_refl in H. discriminate. Qed.

Lemma isclose_false_iff a b : isclose NumR a b = false <-> tolA + tolR * Rabs b < Rabs (a - b).
Proof.
  rewrite isclose_R. destruct (Rle_bool_spec (Rabs (a - b)) (tolA + tolR * Rabs b)) as [H | H]; split; intro H'; try lra; try discriminate; reflexivity.
Qed.

Lemma cs_isclose_gcs : cs_isclose NumR (gcs NumR) (gcs NumR) = true.
Proof.
  assert (forall a, isclose_abs NumR a a = true) as H.
  { intro a. unfold isclose_abs, atol8. rewrite nabs_R. cbn [nsub nleb ndiv n1 nofZ NumR].
    apply Rle_bool_true. replace (a - a) with 0 by ring. rewrite Rabs_R0. lra. }
  unfold cs_isclose, v3_close_abs, gcs, vx, vy, vz. cbn [fst snd]. rewrite !H. reflexivity.
Qed.

Lemma from_gcs_gcs (p : @V3 R) : from_gcs NumR (gcs NumR) p = p.
Proof.
  destruct p as [[x y] z]. unfold from_gcs, gcs, v3dot, v3cross, v3add, v3opp, vx, vy, vz.
  cbn [fst snd nadd nsub nmul nopp n0 n1 NumR]. f_equal; [f_equal|]; ring.
Qed.

(* ---- np.min / np.max ------------------------------------------------------- *)
Lemma fold_min_spec l a :
  In (fold_left (nmin NumR) l a) (a :: l) /\ forall x, In x (a :: l) -> fold_left (nmin NumR) l a <= x.
Proof.
  revert a. induction l as [| y l IH]; intro a; cbn [fold_left].
  - split; [left; reflexivity|]. intros x [<- | []]. lra.
  - destruct (IH (nmin NumR a y)) as [Hin Hle]. rewrite nmin_R in *.
    assert (Rmin a y = a \/ Rmin a y = y) as Hc by (unfold Rmin; destruct (Rle_dec a y); tauto).
    split.
    + destruct Hin as [E | Hin]; [| right; right; exact Hin].
      rewrite <- E. destruct Hc as [Hc | Hc]; rewrite Hc; [left | right; left]; reflexivity.
    + intros x Hx. assert (fold_left (nmin NumR) l (Rmin a y) <= Rmin a y) as H0 by (apply Hle; left; reflexivity).
      destruct Hx as [<- | [<- | Hx]].
      * pose proof (Rmin_l a y). lra.
      * pose proof (Rmin_r a y). lra.
      * apply Hle. right. exact Hx.
Qed.

Lemma fold_max_spec l a :
  In (fold_left (nmax NumR) l a) (a :: l) /\ forall x, In x (a :: l) -> x <= fold_left (nmax NumR) l a.
Proof.
  revert a. induction l as [| y l IH]; intro a; cbn [fold_left].
  - split; [left; reflexivity|]. intros x [<- | []]. lra.
  - destruct (IH (nmax NumR a y)) as [Hin Hle]. rewrite nmax_R in *.
    assert (Rmax a y = a \/ Rmax a y = y) as Hc by (unfold Rmax; destruct (Rle_dec a y); tauto).
    split.
    + destruct Hin as [E | Hin]; [| right; right; exact Hin].
      rewrite <- E. destruct Hc as [Hc | Hc]; rewrite Hc; [left | right; left]; reflexivity.
    + intros x Hx. assert (Rmax a y <= fold_left (nmax NumR) l (Rmax a y)) as H0 by (apply Hle; left; reflexivity).
      destruct Hx as [<- | [<- | Hx]].
      * pose proof (Rmax_l a y). lra.
      * pose proof (Rmax_r a y). lra.
      * apply Hle. right. exact Hx.
Qed.

Lemma lmin_spec l : l <> [] -> In (lmin NumR l) l /\ forall x, In x l -> lmin NumR l <= x.
Proof. destruct l as [| a l]; [congruence|]. intros _. apply fold_min_spec. Qed.

Lemma lmax_spec l : l <> [] -> In (lmax NumR l) l /\ forall x, In x l -> x <= lmax NumR l.
Proof. destruct l as [| a l]; [congruence|]. intros _. apply fold_max_spec. Qed.

Lemma perm_nil_iff {A} (l l' : list A) : Permutation l l' -> l = [] -> l' = [].
Proof. intros HP ->. apply Permutation_nil. exact HP. Qed.

Lemma lmin_perm l l' : Permutation l l' -> lmin NumR l = lmin NumR l'.
Proof.
  intro HP. destruct l as [| a l].
  - apply Permutation_nil in HP. subst. reflexivity.
  - assert (l' <> []) as Hn'.
    { intro E. subst. apply Permutation_sym, Permutation_nil in HP. discriminate. }
    destruct (lmin_spec (a :: l) ltac:(discriminate)) as [I1 L1].
    destruct (lmin_spec l' Hn') as [I2 L2].
    assert (lmin NumR (a :: l) <= lmin NumR l') by (apply L1; eapply Permutation_in; [apply Permutation_sym; exact HP | exact I2]).
    assert (lmin NumR l' <= lmin NumR (a :: l)) by (apply L2; eapply Permutation_in; [exact HP | exact I1]).
    lra.
Qed.

Lemma lmax_perm l l' : Permutation l l' -> lmax NumR l = lmax NumR l'.
Proof.
  intro HP. destruct l as [| a l].
  - apply Permutation_nil in HP. subst. reflexivity.
  - assert (l' <> []) as Hn'.
    { intro E. subst. apply Permutation_sym, Permutation_nil in HP. discriminate. }
    destruct (lmax_spec (a :: l) ltac:(discriminate)) as [I1 L1].
    destruct (lmax_spec l' Hn') as [I2 L2].
    assert (lmax NumR l' <= lmax NumR (a :: l)) by (apply L1; eapply Permutation_in; [apply Permutation_sym; exact HP | exact I2]).
    assert (lmax NumR (a :: l) <= lmax NumR l') by (apply L2; eapply Permutation_in; [exact HP | exact I1]).
    lra.
Qed.

(* not close => two different members *)
Lemma not_close_two_distinct l : isclose NumR (lmin NumR l) (lmax NumR l) = false ->
  In (lmin NumR l) l /\ In (lmax NumR l) l /\ lmin NumR l <> lmax NumR l.
Proof.
  intro H. pose proof (isclose_false_neq _ _ H) as Hne.
  destruct l as [| a l]; [exfalso; apply Hne; reflexivity|].
  destruct (lmin_spec (a :: l) ltac:(discriminate)) as [I1 _].
  destruct (lmax_spec (a :: l) ltac:(discriminate)) as [I2 _]. tauto.
Qed.

(* a sufficient, readable condition for the `assert not isclose(xA, xB)` of the code:
   two selected abscissae further apart than atol + rtol * (a bound of all |x|) *)
Lemma spread_not_close l x1 x2 X :
  In x1 l -> In x2 l -> (forall x, In x l -> Rabs x <= X) -> tolA + tolR * X < Rabs (x1 - x2) ->
  isclose NumR (lmin NumR l) (lmax NumR l) = false.
Proof.
  intros H1 H2 HX Hs. assert (l <> []) as Hn by (destruct l; [destruct H1 | discriminate]).
  destruct (lmin_spec l Hn) as [I1 L1]. destruct (lmax_spec l Hn) as [I2 L2].
  apply isclose_false_iff.
  pose proof (HX _ I2) as HB. pose proof (L1 _ H1). pose proof (L1 _ H2). pose proof (L2 _ H1). pose proof (L2 _ H2).
  assert (Rabs (x1 - x2) <= Rabs (lmin NumR l - lmax NumR l)).
  { unfold Rabs at 1 2. destruct (Rcase_abs (x1 - x2)), (Rcase_abs (lmin NumR l - lmax NumR l)); lra. }
  unfold tolR in *. nra.
Qed.

(* ---- numpy indexing -------------------------------------------------------- *)
Definition valid_idx (n : nat) (i : Z) : bool :=
  match py_index (Z.of_nat n) i with Some _ => true | None => false end.
Definition getx (locs : list (@V3 R)) (i : Z) : R :=
  match py_index (Z.of_nat (length locs)) i with Some k => vx (nth k locs (0, 0, 0)) | None => 0 end.

Lemma lookup_all_char locs idx :
  lookup_all NumR locs idx
  = if forallb (valid_idx (length locs)) idx then Some (map (getx locs) idx) else None.
Proof.
  induction idx as [| i idx IH]; [reflexivity|].
  cbn [lookup_all forallb map]. rewrite IH.
  assert (valid_idx (length locs) i = match py_index (Z.of_nat (length locs)) i with Some _ => true | None => false end) as -> by reflexivity.
  assert (getx locs i = match py_index (Z.of_nat (length locs)) i with Some k => vx (nth k locs (0, 0, 0)) | None => 0 end) as -> by reflexivity.
  cbn [n0 NumR].
  destruct (py_index (Z.of_nat (length locs)) i); cbn [andb]; [|reflexivity].
  destruct (forallb (valid_idx (length locs)) idx); reflexivity.
Qed.

Lemma py_index_in_range n i : (0 <= i < n)%Z -> py_index n i = Some (Z.to_nat i).
Proof.
  intro H. unfold py_index. replace (0 <=? i)%Z with true by (symmetry; apply Z.leb_le; lia).
  replace (i <? n)%Z with true by (symmetry; apply Z.ltb_lt; lia). reflexivity.
Qed.

(* ------------------------------------------------------------------------- *)
(* move_probe, factored through the selected timetraces                       *)
(* ------------------------------------------------------------------------- *)
Definition move_tail (fit : list R -> list R -> R * R) (pcs : @CS R) (locs : list (@V3 R))
           (npe : nat) (lenok : bool) (sel : list (@Trace R)) : reg_error + @move_result R :=
  if negb (cs_isclose NumR pcs (gcs NumR)) then inl E_PcsNotGcs else
  if (npe <? 2)%nat then inl E_TooFewPulseEcho else
  if negb lenok then inl E_Shape else
  let sd := map tr_d sel in
  if existsb (fun d => Rlt_bool d 0) sd then inl E_NegativeDistance else
  let locs_pcs := map (from_gcs NumR pcs) locs in
  if negb (forallb (fun p => isclose NumR (Rabs (vx p)) (norm3 NumR p)) locs_pcs) then inl E_NotOnOx else
  if negb (forallb (valid_idx (length locs_pcs)) (map tr_tx sel)) then inl E_Index else
  let sx := map (getx locs_pcs) (map tr_tx sel) in
  if isclose NumR (lmin NumR sx) (lmax NumR sx) then inl E_Degenerate else
  let p := fit sx sd in
  if Rle_bool (- 1) (fst p) && Rle_bool (fst p) 1 then
    inr (mkMove (- snd p) (asin (fst p))
                (map (fun q => v3add NumR (rot_y NumR (asin (fst p)) q) (0, 0, - snd p)) locs)
                (cs_translate NumR (0, 0, - snd p) (cs_rot_y NumR (asin (fst p)) pcs)))
  else inl E_NoSolution.

Definition npe_of (dead : list bool) (tx rx : list Z) : nat :=
  length (filter (fun p => pulse_echo dead (fst p) (snd p)) (combine tx rx)).

Lemma move_probe_factor fit pcs tx rx dead locs ds :
  move_probe NumR fit pcs tx rx dead locs ds
  = move_tail fit pcs locs (npe_of dead tx rx) (length ds =? length tx)%nat (selected dead tx rx ds).
Proof.
  unfold move_probe, move_tail, npe_of. cbv zeta.
  destruct (negb (cs_isclose NumR pcs (gcs NumR))); [reflexivity|].
  destruct (_ <? 2)%nat; [reflexivity|].
  destruct (negb (length ds =? length tx)%nat); [reflexivity|].
  cbn [nltb n0 NumR].
  destruct (existsb _ _); [reflexivity|].
  replace (fun p : @V3 R => isclose NumR (nabs NumR (vx p)) (norm3 NumR p))
    with (fun p : @V3 R => isclose NumR (Rabs (vx p)) (norm3 NumR p)).
  2:{ apply FunctionalExtensionality.functional_extensionality. intro p. rewrite nabs_R. reflexivity. }
  destruct (negb (forallb _ _)); [reflexivity|].
  rewrite lookup_all_char.
  destruct (forallb (valid_idx _) _); [|reflexivity]. cbn [negb].
  destruct (isclose _ _ _); reflexivity.
Qed.

(* every least-squares oracle gives the closed-form answer, on ALL inputs: when the fit is
   reached, the `assert not isclose(xA, xB)` guarantees two different abscissae *)
Lemma move_tail_oracle fit pcs locs npe lenok sel :
  is_ls_minimiser fit ->
  move_tail fit pcs locs npe lenok sel = move_tail (fit_line NumR) pcs locs npe lenok sel.
Proof.
  intro Hfit. unfold move_tail. cbv zeta.
  destruct (negb (cs_isclose NumR pcs (gcs NumR))); [reflexivity|].
  destruct (npe <? 2)%nat; [reflexivity|].
  destruct (negb lenok); [reflexivity|].
  destruct (existsb _ _); [reflexivity|].
  destruct (negb (forallb _ (map (from_gcs NumR pcs) locs))); [reflexivity|].
  destruct (negb (forallb (valid_idx _) _)); [reflexivity|].
  destruct (isclose _ _ _) eqn:EC; [reflexivity|].
  destruct (not_close_two_distinct _ EC) as [I1 [I2 Hne]].
  assert (length (map (getx (map (from_gcs NumR pcs) locs)) (map tr_tx sel)) = length (map tr_d sel)) as HL
      by (rewrite !map_length; reflexivity).
  rewrite (oracle_is_closed_form fit _ _ _ _ Hfit HL I1 I2 Hne).
  reflexivity.
Qed.

Lemma move_probe_oracle fit pcs tx rx dead locs ds :
  is_ls_minimiser fit ->
  move_probe NumR fit pcs tx rx dead locs ds = move_probe NumR (fit_line NumR) pcs tx rx dead locs ds.
Proof. intro H. rewrite !move_probe_factor. apply move_tail_oracle. exact H. Qed.

(* ---- invariance under permutation of the selected timetraces ---------------- *)
Lemma move_tail_perm pcs locs npe lenok sel sel' :
  Permutation sel sel' ->
  move_tail (fit_line NumR) pcs locs npe lenok sel = move_tail (fit_line NumR) pcs locs npe lenok sel'.
Proof.
  intro HP. unfold move_tail. cbv zeta.
  destruct (negb (cs_isclose NumR pcs (gcs NumR))); [reflexivity|].
  destruct (npe <? 2)%nat; [reflexivity|].
  destruct (negb lenok); [reflexivity|].
  rewrite (existsb_perm _ _ _ (Permutation_map tr_d HP)).
  destruct (existsb _ _); [reflexivity|].
  destruct (negb (forallb _ (map (from_gcs NumR pcs) locs))); [reflexivity|].
  rewrite (forallb_perm _ _ _ (Permutation_map tr_tx HP)).
  destruct (negb (forallb (valid_idx _) _)); [reflexivity|].
  set (lp := map (from_gcs NumR pcs) locs).
  assert (Permutation (map (getx lp) (map tr_tx sel)) (map (getx lp) (map tr_tx sel'))) as HPx
      by (apply Permutation_map, Permutation_map; exact HP).
  rewrite (lmin_perm _ _ HPx), (lmax_perm _ _ HPx).
  destruct (isclose _ _ _); [reflexivity|].
  assert (fit_line NumR (map (getx lp) (map tr_tx sel)) (map tr_d sel)
          = fit_line NumR (map (getx lp) (map tr_tx sel')) (map tr_d sel')) as ->.
  { rewrite !fit_line_pairs by (rewrite !map_length; reflexivity).
    rewrite !map_map, !combine_map_same. apply fit_pairs_perm, Permutation_map. exact HP. }
  reflexivity.
Qed.

Lemma combine_length_eq {A B} (l : list A) (l' : list B) : length l = length l' -> length (combine l l') = length l.
Proof. intro H. rewrite combine_length, <- H. apply Nat.min_id. Qed.

Lemma filter_map_comm {A B} (f : A -> B) (g : B -> bool) (l : list A) :
  map f (filter (fun a => g (f a)) l) = filter g (map f l).
Proof.
  induction l as [| a l IH]; [reflexivity|]. cbn [filter map]. destruct (g (f a)); cbn [map]; rewrite IH; reflexivity.
Qed.

Lemma selected_fst dead tx rx (ds : list R) : length tx = length rx -> length ds = length tx ->
  map fst (selected dead tx rx ds) = filter (fun p => pulse_echo dead (fst p) (snd p)) (combine tx rx).
Proof.
  intros H1 H2. unfold selected, tr_tx, tr_rx.
  rewrite (filter_map_comm fst (fun p => pulse_echo dead (fst p) (snd p))).
  rewrite map_fst_combine; [reflexivity|]. rewrite combine_length_eq; congruence.
Qed.

Lemma selected_length dead tx rx (ds : list R) : length tx = length rx -> length ds = length tx ->
  length (selected dead tx rx ds) = npe_of dead tx rx.
Proof. intros H1 H2. unfold npe_of. rewrite <- (selected_fst dead tx rx ds H1 H2), map_length. reflexivity. Qed.

Lemma move_probe_perm fit pcs dead locs tx rx ds tx' rx' ds' :
  is_ls_minimiser fit ->
  length tx = length rx -> length ds = length tx -> length tx' = length rx' -> length ds' = length tx' ->
  Permutation (combine (combine tx rx) ds) (combine (combine tx' rx') ds') ->
  move_probe NumR fit pcs tx rx dead locs ds = move_probe NumR fit pcs tx' rx' dead locs ds'.
Proof.
  intros Hfit L1 L2 L1' L2' HP.
  rewrite !(move_probe_oracle fit) by exact Hfit. rewrite !move_probe_factor.
  assert (Permutation (selected dead tx rx ds) (selected dead tx' rx' ds')) as HS by (apply filter_perm; exact HP).
  rewrite <- (selected_length dead tx rx ds L1 L2), <- (selected_length dead tx' rx' ds' L1' L2').
  rewrite (Permutation_length HS).
  replace (length ds =? length tx)%nat with true by (symmetry; apply Nat.eqb_eq; exact L2).
  replace (length ds' =? length tx')%nat with true by (symmetry; apply Nat.eqb_eq; exact L2').
  apply move_tail_perm. exact HS.
Qed.

(* ---- values on non-pulse-echo timetraces are never read ---------------------- *)
Lemma selected_indep dead tx rx ds1 ds2 :
  length ds1 = length ds2 ->
  (forall i, pulse_echo dead (nth i tx 0%Z) (nth i rx 0%Z) = true -> nth i ds1 0 = nth i ds2 0) ->
  selected dead tx rx ds1 = selected dead tx rx ds2.
Proof.
  unfold selected. revert rx ds1 ds2.
  induction tx as [| t tx IH]; intros rx ds1 ds2 HL Hag; [reflexivity|].
  destruct rx as [| r rx]; [reflexivity|].
  destruct ds1 as [| d1 ds1], ds2 as [| d2 ds2]; try discriminate; [reflexivity|].
  cbn [combine filter tr_tx tr_rx fst snd].
  rewrite (IH rx ds1 ds2); [| cbn in HL; lia | intros i Hi; apply (Hag (S i)); exact Hi].
  destruct (pulse_echo dead t r) eqn:E; [|reflexivity].
  f_equal. f_equal. apply (Hag O). exact E.
Qed.

Lemma move_probe_indep fit pcs dead locs tx rx ds1 ds2 :
  length ds1 = length ds2 ->
  (forall i, pulse_echo dead (nth i tx 0%Z) (nth i rx 0%Z) = true -> nth i ds1 0 = nth i ds2 0) ->
  move_probe NumR fit pcs tx rx dead locs ds1 = move_probe NumR fit pcs tx rx dead locs ds2.
Proof.
  intros HL Hag. rewrite !move_probe_factor, (selected_indep dead tx rx ds1 ds2 HL Hag), HL. reflexivity.
Qed.

(* ------------------------------------------------------------------------- *)
(* registration recovers the pose                                             *)
(* ------------------------------------------------------------------------- *)
(* a linear probe lying on Ox in its PCS *)
Definition on_axis (xs : list R) : list (@V3 R) := map (fun x => (x, 0, 0)) xs.
(* abscissa of the transmitter of a timetrace *)
Definition trace_x (xs : list R) (t : @Trace R) : R := nth (Z.to_nat (tr_tx t)) xs 0.

Lemma on_axis_length xs : length (on_axis xs) = length xs.
Proof. apply map_length. Qed.

Lemma getx_on_axis xs i : (0 <= i < Z.of_nat (length xs))%Z -> getx (on_axis xs) i = nth (Z.to_nat i) xs 0.
Proof.
  intro H. unfold getx. rewrite on_axis_length, (py_index_in_range _ _ H). unfold on_axis.
  change (0, 0, 0) with ((fun x : R => (x, 0, 0)) 0). rewrite map_nth. reflexivity.
Qed.

Lemma on_axis_is_on_Ox xs :
  forallb (fun p : @V3 R => isclose NumR (Rabs (vx p)) (norm3 NumR p)) (on_axis xs) = true.
Proof.
  apply forallb_forall. intros p Hp. unfold on_axis in Hp. apply in_map_iff in Hp. destruct Hp as [x [<- _]].
  unfold norm3, vx, vy, vz. cbn [fst snd nsqrt nadd nmul NumR].
  replace (x * x + 0 * 0 + 0 * 0) with (Rsqr x) by (unfold Rsqr; ring).
  rewrite sqrt_Rsqr_abs. apply isclose_refl.
Qed.

Lemma move_probe_recovers_closed xs th z0 dead tx rx ds :
  - (PI / 2) <= th <= PI / 2 ->
  length tx = length rx -> length ds = length tx ->
  (2 <= length (selected dead tx rx ds))%nat ->
  (forall t, In t (selected dead tx rx ds) ->
     (0 <= tr_tx t < Z.of_nat (length xs))%Z /\ tr_d t = sin th * trace_x xs t - z0 /\ 0 <= tr_d t) ->
  isclose NumR (lmin NumR (map (trace_x xs) (selected dead tx rx ds)))
               (lmax NumR (map (trace_x xs) (selected dead tx rx ds))) = false ->
  move_probe NumR (fit_line NumR) (gcs NumR) tx rx dead (on_axis xs) ds
  = inr (mkMove z0 th
                (map (fun x => (cos th * x, 0, - (sin th * x - z0))) xs)
                ((0, 0, z0), (cos th, 0, - sin th), (0, 1, 0))).
Proof.
  intros Hth L1 L2 Hn Hsel Hspread.
  rewrite move_probe_factor.
  rewrite <- (selected_length dead tx rx ds L1 L2).
  set (sel := selected dead tx rx ds) in *.
  unfold move_tail. cbv zeta.
  rewrite cs_isclose_gcs. cbn [negb].
  replace (length sel <? 2)%nat with false by (symmetry; apply Nat.ltb_ge; exact Hn).
  replace (length ds =? length tx)%nat with true by (symmetry; apply Nat.eqb_eq; exact L2). cbn [negb].
  assert (existsb (fun d => Rlt_bool d 0) (map tr_d sel) = false) as ->.
  { destruct (existsb _ _) eqn:E; [|reflexivity]. apply existsb_exists in E. destruct E as [d [Hin Hlt]].
    apply in_map_iff in Hin. destruct Hin as [t [<- Hin]]. destruct (Hsel t Hin) as [_ [_ Hpos]].
    destruct (Rlt_bool_spec (tr_d t) 0); [lra | discriminate]. }
  assert (map (from_gcs NumR (gcs NumR)) (on_axis xs) = on_axis xs) as ->.
  { rewrite (map_ext _ (fun p => p) from_gcs_gcs). apply map_id. }
  rewrite on_axis_is_on_Ox. cbn [negb].
  assert (forallb (valid_idx (length (on_axis xs))) (map tr_tx sel) = true) as ->.
  { apply forallb_forall. intros i Hi. apply in_map_iff in Hi. destruct Hi as [t [<- Hin]].
    destruct (Hsel t Hin) as [Hr _]. unfold valid_idx. rewrite on_axis_length, (py_index_in_range _ _ Hr). reflexivity. }
  cbn [negb].
  assert (map (getx (on_axis xs)) (map tr_tx sel) = map (trace_x xs) sel) as ->.
  { rewrite map_map. apply map_ext_in. intros t Hin. destruct (Hsel t Hin) as [Hr _]. apply getx_on_axis. exact Hr. }
  rewrite Hspread.
  assert (map tr_d sel = map (fun x => sin th * x + - z0) (map (trace_x xs) sel)) as ->.
  { rewrite map_map. apply map_ext_in. intros t Hin. destruct (Hsel t Hin) as [_ [Hd _]]. rewrite Hd. ring. }
  destruct (not_close_two_distinct _ Hspread) as [I1 [I2 Hne]].
  rewrite (fit_line_exact _ (sin th) (- z0) _ _ I1 I2 Hne). cbn [fst snd].
  pose proof (SIN_bound th) as [Hs1 Hs2].
  rewrite (Rle_bool_true _ _ Hs1), (Rle_bool_true _ _ Hs2). cbn [andb].
  rewrite (asin_sin th Hth).
  f_equal. f_equal.
  - ring.
  - unfold on_axis. rewrite map_map. apply map_ext. intro x.
    unfold v3add, rot_y, vx, vy, vz. cbn [fst snd nadd nmul nopp nsin ncos n0 n1 NumR].
    f_equal; [f_equal|]; ring.
  - unfold cs_translate, cs_rot_y, gcs, v3add, v3sub, rot_y, vx, vy, vz.
    cbn [fst snd nadd nsub nmul nopp nsin ncos n0 n1 NumR].
    repeat match goal with |- (_, _) = (_, _) => f_equal end; ring.
Qed.

Lemma move_probe_recovers fit xs th z0 dead tx rx ds :
  is_ls_minimiser fit ->
  - (PI / 2) <= th <= PI / 2 ->
  length tx = length rx -> length ds = length tx ->
  (2 <= length (selected dead tx rx ds))%nat ->
  (forall t, In t (selected dead tx rx ds) ->
     (0 <= tr_tx t < Z.of_nat (length xs))%Z /\ tr_d t = sin th * trace_x xs t - z0 /\ 0 <= tr_d t) ->
  isclose NumR (lmin NumR (map (trace_x xs) (selected dead tx rx ds)))
               (lmax NumR (map (trace_x xs) (selected dead tx rx ds))) = false ->
  move_probe NumR fit (gcs NumR) tx rx dead (on_axis xs) ds
  = inr (mkMove z0 th
                (map (fun x => (cos th * x, 0, - (sin th * x - z0))) xs)
                ((0, 0, z0), (cos th, 0, - sin th), (0, 1, 0))).
Proof.
  intros Hfit Hth L1 L2 Hn Hsel Hspread. rewrite (move_probe_oracle fit) by exact Hfit.
  apply move_probe_recovers_closed; assumption.
Qed.

(* ------------------------------------------------------------------------- *)
(* the oracle hypothesis is satisfiable: a total least-squares minimiser       *)
(* ------------------------------------------------------------------------- *)
Definition fit_total (xs ds : list R) : R * R :=
  let ps := combine xs ds in
  if Req_bool (Den ps) 0 then (0, Sy ps / Sn ps) else fit_pairs ps.

Lemma all_same_sums ps m : (forall p, In p ps -> fst p = m) ->
  Sx ps = Sn ps * m /\ Sxx ps = Sn ps * (m * m) /\ Sxy ps = m * Sy ps.
Proof.
  unfold Sx, Sxx, Sxy, Sy, Sn. induction ps as [| p ps IH]; intro H; cbn [map rsum length].
  - cbn. repeat split; ring.
  - rewrite S_INR. destruct IH as [E1 [E2 E3]]; [intros q Hq; apply H; right; exact Hq|].
    rewrite E1, E2, E3, (H p (or_introl eq_refl)). repeat split; ring.
Qed.

Lemma fit_total_is_ls_minimiser : is_ls_minimiser fit_total.
Proof.
  intros xs ds a b HL. unfold sse, fit_total. set (ps := combine xs ds).
  destruct (Req_bool_spec (Den ps) 0) as [HD | HD].
  - cbn [fst snd]. destruct ps as [| p0 ps'] eqn:Eps.
    + unfold sse_pairs. cbn. lra.
    + rewrite <- Eps in *. assert (ps <> []) as Hnil by (rewrite Eps; discriminate).
      pose proof (Sn_pos ps Hnil) as Hn.
      set (m := Sx ps / Sn ps).
      assert (forall p, In p ps -> fst p = m) as Hsame.
      { assert (Sn ps * rsum (map (fun p => (fst p - m) * (fst p - m)) ps) = 0) as HZ.
        { rewrite sum_sq_dev. rewrite <- HD. unfold Den, m. field. lra. }
        apply Rmult_integral in HZ. destruct HZ as [HZ | HZ]; [lra|].
        intros p Hp.
        assert ((fst p - m) * (fst p - m) = 0) as Hsq.
        { apply (rsum_zero_all _ ltac:(intros y Hy; apply in_map_iff in Hy; destruct Hy as [q [<- _]]; apply Rle_0_sqr) HZ).
          apply in_map_iff. exists p. split; [reflexivity | exact Hp]. }
        apply Rmult_integral in Hsq. lra. }
      destruct (all_same_sums ps m Hsame) as [E1 [E2 E3]].
      rewrite !sse_expand, E1, E2, E3.
      assert (Syy ps - 2 * a * (m * Sy ps) - 2 * b * Sy ps + a * a * (Sn ps * (m * m)) + 2 * a * b * (Sn ps * m) + Sn ps * (b * b)
              - (Syy ps - 2 * 0 * (m * Sy ps) - 2 * (Sy ps / Sn ps) * Sy ps + 0 * 0 * (Sn ps * (m * m))
                 + 2 * 0 * (Sy ps / Sn ps) * (Sn ps * m) + Sn ps * (Sy ps / Sn ps * (Sy ps / Sn ps)))
              = Sn ps * ((a * m + b - Sy ps / Sn ps) * (a * m + b - Sy ps / Sn ps))) as HE by (field; lra).
      assert (0 <= Sn ps * ((a * m + b - Sy ps / Sn ps) * (a * m + b - Sy ps / Sn ps)))
        by (apply Rmult_le_pos; [lra | apply Rle_0_sqr]).
      lra.
  - assert (ps <> []) as Hnil.
    { intro E. apply HD. rewrite E. unfold Den, Sn, Sx, Sxx. cbn. ring. }
    pose proof (Sn_pos ps Hnil) as Hn.
    assert (0 <= Den ps) as Hge.
    { set (m := Sx ps / Sn ps).
      assert (Den ps = Sn ps * rsum (map (fun p => (fst p - m) * (fst p - m)) ps)) as ->
          by (rewrite sum_sq_dev; unfold Den, m; field; lra).
      apply Rmult_le_pos; [lra|]. apply rsum_nonneg. intros y Hy. apply in_map_iff in Hy.
      destruct Hy as [q [<- _]]. apply Rle_0_sqr. }
    apply fit_pairs_minimises; [lra | exact Hnil].
Qed.

Lemma ls_minimiser_exists : exists fit, is_ls_minimiser fit.
Proof. exists fit_total. exact fit_total_is_ls_minimiser. Qed.

(* non-degeneracy of the normal equations, on the abscissae alone *)
Lemma den_pos_xs xs x1 x2 : In x1 xs -> In x2 xs -> x1 <> x2 ->
  0 < INR (length xs) * rsum (map (fun x => x * x) xs) - rsum xs * rsum xs.
Proof.
  intros H1 H2 Hne. set (ps := map (fun x : R => (x, 0)) xs).
  assert (map fst ps = xs) as Hf by (unfold ps; rewrite map_map; apply map_id).
  pose proof (den_pos ps x1 x2 ltac:(rewrite Hf; exact H1) ltac:(rewrite Hf; exact H2) Hne) as HD.
  unfold Den, Sn, Sx, Sxx in HD. rewrite Hf in HD. unfold ps in HD. rewrite map_length, map_map in HD. exact HD.
Qed.

(* ------------------------------------------------------------------------- *)
(* uniform linear array, any reference point                                  *)
(* ------------------------------------------------------------------------- *)
(* element k of an n-element array of the given pitch whose PCS origin (x = 0) lies
   rho pitches after element 0: rho = r for reference element r, (n-1)/2 for 'mean' *)
Definition linear_array (n : nat) (pitch rho : R) : list R :=
  map (fun k => (INR k - rho) * pitch) (seq 0 n).

Lemma linear_array_length n pitch rho : length (linear_array n pitch rho) = n.
Proof. unfold linear_array. rewrite map_length, seq_length. reflexivity. Qed.

Lemma linear_array_nth n pitch rho k : (k < n)%nat -> nth k (linear_array n pitch rho) 0 = (INR k - rho) * pitch.
Proof.
  intro Hk. unfold linear_array.
  rewrite (nth_indep _ 0 ((fun k => (INR k - rho) * pitch) O)) by (rewrite map_length, seq_length; exact Hk).
  rewrite (map_nth (fun k => (INR k - rho) * pitch)), seq_nth by exact Hk. reflexivity.
Qed.

Lemma move_probe_recovers_linear_array fit n pitch rho th z0 dead tx rx ds t1 t2 :
  is_ls_minimiser fit ->
  - (PI / 2) <= th <= PI / 2 ->
  length tx = length rx -> length ds = length tx ->
  (forall t, In t (selected dead tx rx ds) ->
     (0 <= tr_tx t < Z.of_nat n)%Z /\
     tr_d t = sin th * ((IZR (tr_tx t) - rho) * pitch) - z0 /\ 0 <= tr_d t) ->
  In t1 (selected dead tx rx ds) -> In t2 (selected dead tx rx ds) -> tr_tx t1 <> tr_tx t2 ->
  tolA + tolR * ((INR n + Rabs rho) * Rabs pitch) < Rabs pitch ->
  move_probe NumR fit (gcs NumR) tx rx dead (on_axis (linear_array n pitch rho)) ds
  = inr (mkMove z0 th
                (map (fun x => (cos th * x, 0, - (sin th * x - z0))) (linear_array n pitch rho))
                ((0, 0, z0), (cos th, 0, - sin th), (0, 1, 0))).
Proof.
  intros Hfit Hth L1 L2 Hsel I1 I2 Hne Hpitch.
  set (xs := linear_array n pitch rho).
  assert (forall t, In t (selected dead tx rx ds) -> trace_x xs t = (IZR (tr_tx t) - rho) * pitch) as Hx.
  { intros t Ht. destruct (Hsel t Ht) as [Hr _]. unfold trace_x, xs.
    rewrite linear_array_nth by lia. rewrite INR_IZR_INZ, Z2Nat.id by lia. reflexivity. }
  apply move_probe_recovers; try assumption.
  - destruct (in_split _ _ I1) as [l1 [l2 E]]. rewrite E in I2 |- *.
    apply in_app_or in I2. rewrite app_length. cbn [length].
    destruct I2 as [I2 | [I2 | I2]].
    + destruct l1; [destruct I2 | cbn [length]; lia].
    + congruence.
    + destruct l2; [destruct I2 | cbn [length]; lia].
  - intros t Ht. destruct (Hsel t Ht) as [Hr [Hd Hp]]. unfold xs. rewrite linear_array_length.
    split; [exact Hr|]. split; [|exact Hp]. fold xs. rewrite (Hx t Ht). exact Hd.
  - apply (spread_not_close _ (trace_x xs t1) (trace_x xs t2) ((INR n + Rabs rho) * Rabs pitch)).
    + apply in_map. exact I1.
    + apply in_map. exact I2.
    + intros x Hin. apply in_map_iff in Hin. destruct Hin as [t [<- Ht]]. rewrite (Hx t Ht).
      destruct (Hsel t Ht) as [Hr _]. rewrite Rabs_mult. apply Rmult_le_compat_r; [apply Rabs_pos|].
      assert (0 <= IZR (tr_tx t) <= INR n) as Hb.
      { rewrite INR_IZR_INZ. split; apply IZR_le; lia. }
      unfold Rminus. eapply Rle_trans; [apply Rabs_triang|]. rewrite Rabs_Ropp, (Rabs_right (IZR (tr_tx t))) by lra. lra.
    + rewrite (Hx t1 I1), (Hx t2 I2).
      replace ((IZR (tr_tx t1) - rho) * pitch - (IZR (tr_tx t2) - rho) * pitch)
        with (IZR (tr_tx t1 - tr_tx t2) * pitch) by (rewrite minus_IZR; ring).
      rewrite Rabs_mult.
      assert (1 <= Rabs (IZR (tr_tx t1 - tr_tx t2))) as H1.
      { rewrite <- abs_IZR. apply (IZR_le 1). lia. }
      pose proof (Rabs_pos pitch). nra.
Qed.
