(* Proofs/TfmGlueRealProofs.v — lemmas about Model/TfmGlue.v (C12) over the reals:
   re-ordering the timetraces (with their weights) leaves every image unchanged; default weights
   on a complete frame are no weights; TfmResult.maximum_intensity_in_rectbox is the maximum of
   |pixel| over the grid points of the box, and scales with the image (HMC vs FMC). *)
From Coq Require Import List Reals Lra Lia ZArith Bool Arith Permutation.
From Flocq Require Import Core.Raux.
From Arim Require Import Base.Num Base.NumR Model.MinPlus Model.Fermat Model.Das Model.Frame Model.Tfm Model.TfmGlue.
From Arim Require Import Proofs.DasProofs Proofs.FrameProofs Proofs.FrameOpsProofs Proofs.TfmProofs
                         Proofs.TfmViewProofs Proofs.TfmGlueProofs.
Import ListNotations.

(* ==========================================================================
   Part H: permutation of the timetraces *)
Section Perm.
  Context {D : Type} (V : Data R D) (L : DataLaws V).

  Lemma delay_and_sum_perm sc ns dt t0 fill w w' ltx lrx amps (ss ss' : list (scan D)) :
    weights_ok w ss = true -> weights_ok w' ss' = true ->
    Permutation (combine ss (eff_weights NumR w (length ss))) (combine ss' (eff_weights NumR w' (length ss'))) ->
    delay_and_sum NumR V sc ns dt t0 fill w ltx lrx amps ss
    = delay_and_sum NumR V sc ns dt t0 fill w' ltx lrx amps ss'.
  Proof.
    intros Hw Hw' HP. unfold delay_and_sum. destruct (focal_rows ltx lrx amps) as [rows|]; [|reflexivity].
    destruct amps; [now apply (das_amp_perm V L)|now apply (das_noamp_perm V L)].
  Qed.

  Lemma memp_perm p l l' : Permutation l l' -> memp p l = memp p l'.
  Proof.
    intros HP. destruct (memp p l) eqn:E1, (memp p l') eqn:E2; try reflexivity.
    - apply memp_In in E1. apply (Permutation_in _ HP), memp_In in E1. congruence.
    - apply memp_In in E2. apply (Permutation_in _ (Permutation_sym HP)), memp_In in E2. congruence.
  Qed.

  (* the weight default_timetrace_weights gives to the timetrace s of a frame whose pairs are l *)
  Definition wdef (l : list (nat * nat)) (s : scan D) : R :=
    IZR (Z.of_nat (if memp (swap (s_tx s, s_rx s)) l then 1 else 2)).

  Lemma default_weights_map (ss : list (scan D)) : default_weights NumR ss = map (wdef (frame_pairs ss)) ss.
  Proof.
    unfold default_weights, default_timetrace_weights, frame_pairs at 2. rewrite !map_map. reflexivity.
  Qed.

  (* the default weights travel with the timetraces *)
  Lemma default_weights_perm (ss ss' : list (scan D)) : Permutation ss ss' ->
    Permutation (combine ss (default_weights NumR ss)) (combine ss' (default_weights NumR ss')).
  Proof.
    intros HP. rewrite !default_weights_map, !tg_combine_map_r.
    rewrite (map_ext (fun s => (s, wdef (frame_pairs ss') s)) (fun s => (s, wdef (frame_pairs ss) s))).
    - now apply Permutation_map.
    - intros s. unfold wdef. f_equal. f_equal. f_equal.
      rewrite (memp_perm _ (frame_pairs ss) (frame_pairs ss')); [reflexivity|].
      unfold frame_pairs. now apply Permutation_map.
  Qed.

  (* contact TFM, default weights: any storage order of the frame gives the same image *)
  Lemma contact_tfm_perm_default sc ns dt t0 fill grid probe v amps (ss ss' : list (scan D)) :
    Permutation ss ss' ->
    contact_tfm NumR V sc ns dt t0 fill WDefault grid probe v amps ss
    = contact_tfm NumR V sc ns dt t0 fill WDefault grid probe v amps ss'.
  Proof.
    intros HP. unfold contact_tfm. cbn [resolve_weights].
    apply delay_and_sum_perm; try apply default_weights_ok.
    cbn [eff_weights]. now apply default_weights_perm.
  Qed.

  (* explicit weights, one per timetrace, re-ordered together with the timetraces *)
  Lemma contact_tfm_perm_given sc ns dt t0 fill grid probe v amps (ss ss' : list (scan D)) w w' :
    length w = length ss -> length w' = length ss' ->
    Permutation (combine ss w) (combine ss' w') ->
    contact_tfm NumR V sc ns dt t0 fill (WGiven w) grid probe v amps ss
    = contact_tfm NumR V sc ns dt t0 fill (WGiven w') grid probe v amps ss'.
  Proof.
    intros Hl Hl' HP. unfold contact_tfm. cbn [resolve_weights].
    apply delay_and_sum_perm; cbn [weights_ok eff_weights]; try (apply Nat.eqb_eq; assumption). exact HP.
  Qed.

  Lemma contact_tfm_perm_none sc ns dt t0 fill grid probe v amps (ss ss' : list (scan D)) :
    Permutation ss ss' ->
    contact_tfm NumR V sc ns dt t0 fill WNone grid probe v amps ss
    = contact_tfm NumR V sc ns dt t0 fill WNone grid probe v amps ss'.
  Proof.
    intros HP. unfold contact_tfm. cbn [resolve_weights].
    apply delay_and_sum_perm; try reflexivity. now apply perm_noweights.
  Qed.

  Lemma tfm_for_view_perm sc ns dt t0 fill p rtx rrx amps (ss ss' : list (scan D)) :
    Permutation ss ss' ->
    tfm_for_view NumR V sc ns dt t0 fill p rtx rrx amps ss
    = tfm_for_view NumR V sc ns dt t0 fill p rtx rrx amps ss'.
  Proof.
    intros HP. unfold tfm_for_view. apply delay_and_sum_perm; try reflexivity. now apply perm_noweights.
  Qed.

  (* ---- weights all equal to one are no weights; default weights on a complete frame ---- *)
  Lemma delay_and_sum_ones sc ns dt t0 fill ltx lrx amps (ss : list (scan D)) :
    delay_and_sum NumR V sc ns dt t0 fill (Some (repeat 1%R (length ss))) ltx lrx amps ss
    = delay_and_sum NumR V sc ns dt t0 fill None ltx lrx amps ss.
  Proof.
    unfold delay_and_sum. destruct (focal_rows ltx lrx amps) as [rows|]; [|reflexivity].
    destruct amps.
    - rewrite !(das_amp_spec_gen V L). cbn [weights_ok]. now rewrite repeat_length, Nat.eqb_refl.
    - rewrite !(das_noamp_spec_gen V L). cbn [weights_ok]. now rewrite repeat_length, Nat.eqb_refl.
  Qed.

  Lemma keys_entries_of_scans (ss : list (scan D)) : keys (map entry_of_scan ss) = frame_pairs ss.
  Proof. unfold keys, frame_pairs. rewrite map_map. reflexivity. Qed.

  Lemma default_weights_complete (ss : list (scan D)) :
    frame_complete ss = true -> default_weights NumR ss = repeat 1%R (length ss).
  Proof.
    unfold frame_complete. intros H. apply weights_complete in H.
    rewrite keys_entries_of_scans, map_length in H. unfold default_weights. rewrite H.
    cbn [NumR nofZ]. clear. induction (length ss) as [|n IH]; [reflexivity|]. cbn [repeat map]. now rewrite IH.
  Qed.

  (* a frame complete under reciprocity (FMC, an expanded frame, ...): "default" = None *)
  Lemma contact_tfm_default_complete sc ns dt t0 fill grid probe v amps (ss : list (scan D)) :
    frame_complete ss = true ->
    contact_tfm NumR V sc ns dt t0 fill WDefault grid probe v amps ss
    = contact_tfm NumR V sc ns dt t0 fill WNone grid probe v amps ss.
  Proof.
    intros H. unfold contact_tfm. cbn [resolve_weights].
    rewrite (default_weights_complete ss H). apply delay_and_sum_ones.
  Qed.
End Perm.

(* ==========================================================================
   Part F: TfmResult.maximum_intensity_in_rectbox *)
Local Open Scope R_scope.

Definition no_nan : R -> bool := fun _ => false.

Lemma nmax_R a b : nmax NumR a b = Rmax a b.
Proof.
  unfold nmax. cbn [NumR nltb]. unfold Rmax. destruct (Rlt_bool_spec a b) as [H|H]; destruct (Rle_dec a b); lra.
Qed.

Lemma fold_max_spec r y :
  In (fold_left (nmax NumR) r y) (y :: r) /\ forall x, In x (y :: r) -> x <= fold_left (nmax NumR) r y.
Proof.
  revert y. induction r as [|a r IH]; intros y; cbn [fold_left].
  - split; [now left|]. intros x [<-|[]]. lra.
  - destruct (IH (nmax NumR y a)) as [Hin Hub]. rewrite nmax_R in *. split.
    + destruct Hin as [E|Hin]; [|right; now right]. rewrite <- E.
      unfold Rmax. destruct (Rle_dec y a); [right; now left|now left].
    + intros x [<-|[<-|Hx]].
      * apply Rle_trans with (Rmax y a); [apply Rmax_l|]. apply Hub. now left.
      * apply Rle_trans with (Rmax y a); [apply Rmax_r|]. apply Hub. now left.
      * apply Hub. now right.
Qed.

Lemma filter_no_nan (l : list R) : filter (fun v => negb (no_nan v)) l = l.
Proof.
  induction l as [|a l IH]; [reflexivity|].
  change (filter (fun v => negb (no_nan v)) (a :: l)) with (a :: filter (fun v => negb (no_nan v)) l).
  now rewrite IH.
Qed.

Lemma nanmax_none l : nanmax NumR no_nan l = None <-> l = [].
Proof.
  unfold nanmax. destruct l as [|x l]; [tauto|]. rewrite filter_no_nan. split; discriminate.
Qed.

(* the value returned is the greatest element *)
Lemma nanmax_spec l M : nanmax NumR no_nan l = Some M <-> In M l /\ forall x, In x l -> x <= M.
Proof.
  unfold nanmax. destruct l as [|y r].
  - split; [discriminate|intros [[] _]].
  - rewrite filter_no_nan. destruct (fold_max_spec r y) as [Hin Hub]. split.
    + intros H. injection H as <-. now split.
    + intros [HM HubM]. f_equal. apply Rle_antisym; [now apply HubM|now apply Hub].
Qed.

Lemma lower_ok_spec b x : lower_ok NumR b x = true <-> forall m, b = Some m -> m <= x.
Proof.
  destruct b as [m|]; cbn [lower_ok NumR nleb].
  - split.
    + intros H m' E. injection E as <-. destruct (Rle_bool_spec m x); [assumption|discriminate].
    + intros H. apply Rle_bool_true. now apply H.
  - split; [intros _ m E; discriminate|reflexivity].
Qed.

Lemma upper_ok_spec b x : upper_ok NumR b x = true <-> forall m, b = Some m -> x <= m.
Proof.
  destruct b as [m|]; cbn [upper_ok NumR nleb].
  - split.
    + intros H m' E. injection E as <-. destruct (Rle_bool_spec x m); [assumption|discriminate].
    + intros H. apply Rle_bool_true. now apply H.
  - split; [intros _ m E; discriminate|reflexivity].
Qed.

(* closed box, each missing bound = unbounded side *)
Lemma in_rectbox_spec b x y z :
  in_rectbox NumR b (x, y, z) = true <->
  (forall m, b_xmin b = Some m -> m <= x) /\ (forall m, b_xmax b = Some m -> x <= m) /\
  (forall m, b_ymin b = Some m -> m <= y) /\ (forall m, b_ymax b = Some m -> y <= m) /\
  (forall m, b_zmin b = Some m -> m <= z) /\ (forall m, b_zmax b = Some m -> z <= m).
Proof.
  unfold in_rectbox. rewrite !andb_true_iff, !lower_ok_spec, !upper_ok_spec. tauto.
Qed.

Lemma in_combine_nth {A B} (l : list A) (m : list B) a b :
  In (a, b) (combine l m) <-> exists k, nth_error l k = Some a /\ nth_error m k = Some b.
Proof.
  split.
  - intros H. apply In_nth_error in H as [k Hk]. exists k. rewrite tg_nth_error_combine in Hk.
    destruct (nth_error l k), (nth_error m k); try discriminate. now injection Hk as -> ->.
  - intros (k & Ha & Hb). apply (nth_error_In _ k). now rewrite tg_nth_error_combine, Ha, Hb.
Qed.

Section MaxIntensity.
  Context {D : Type} (dabs : D -> R).

  Lemma mask_select_In (f : R * R * R -> bool) (res : list D) (grid : list (R * R * R)) v :
    In v (mask_select res (map f grid))
    <-> exists k q, nth_error grid k = Some q /\ nth_error res k = Some v /\ f q = true.
  Proof.
    unfold mask_select.
    assert (E : combine res (map f grid) = map (fun rq => (fst rq, f (snd rq))) (combine res grid)).
    { clear. revert grid. induction res as [|r res IH]; intros [|g grid]; cbn [combine map fst snd]; try reflexivity.
      now rewrite IH. }
    rewrite E, in_map_iff. split.
    - intros ([v' m] & <- & Hin). apply filter_In in Hin as [Hin Hm]. cbn [snd fst] in *. subst m.
      apply in_map_iff in Hin as ([r q] & E' & Hin). cbn [fst snd] in E'. injection E' as <- Hq.
      apply in_combine_nth in Hin as (k & Hr & Hg). exists k, q. auto.
    - intros (k & q & Hg & Hr & Hf). exists (v, true). split; [reflexivity|]. apply filter_In. split; [|reflexivity].
      apply in_map_iff. exists (v, q). cbn [fst snd]. rewrite Hf. split; [reflexivity|].
      apply in_combine_nth. now exists k.
  Qed.

  (* maximum_intensity_in_rectbox = the greatest |pixel| among the grid points of the box *)
  Lemma max_intensity_spec (grid : list (R * R * R)) (res : list D) b M :
    maximum_intensity_in_rectbox NumR no_nan dabs grid res b = Some M <->
    (exists k q v, nth_error grid k = Some q /\ nth_error res k = Some v /\ in_rectbox NumR b q = true /\ dabs v = M) /\
    (forall k q v, nth_error grid k = Some q -> nth_error res k = Some v -> in_rectbox NumR b q = true -> dabs v <= M).
  Proof.
    unfold maximum_intensity_in_rectbox, maximum_intensity_in_area. rewrite nanmax_spec. split.
    - intros [Hin Hub]. apply in_map_iff in Hin as (v & <- & Hv). apply mask_select_In in Hv as (k & q & Hg & Hr & Hf).
      split; [exists k, q, v; auto|]. intros k' q' v' Hg' Hr' Hf'. apply Hub. apply in_map.
      apply mask_select_In. now exists k', q'.
    - intros [(k & q & v & Hg & Hr & Hf & <-) Hub]. split.
      + apply in_map. apply mask_select_In. now exists k, q.
      + intros x Hx. apply in_map_iff in Hx as (v' & <- & Hv'). apply mask_select_In in Hv' as (k' & q' & Hg' & Hr' & Hf').
        now apply (Hub k' q' v').
  Qed.

  (* ValueError exactly when no grid point (with a pixel) is inside the box *)
  Lemma max_intensity_none (grid : list (R * R * R)) (res : list D) b :
    maximum_intensity_in_rectbox NumR no_nan dabs grid res b = None <->
    (forall k q v, nth_error grid k = Some q -> nth_error res k = Some v -> in_rectbox NumR b q = false).
  Proof.
    unfold maximum_intensity_in_rectbox, maximum_intensity_in_area. rewrite nanmax_none. split.
    - intros E k q v Hg Hr. destruct (in_rectbox NumR b q) eqn:Ef; [|reflexivity]. exfalso.
      assert (Hin : In (dabs v) (map dabs (mask_select res (map (in_rectbox NumR b) grid)))).
      { apply in_map. apply mask_select_In. now exists k, q. }
      now rewrite E in Hin.
    - intros H. destruct (map dabs _) as [|x l] eqn:E; [reflexivity|]. exfalso.
      assert (Hin : In x (map dabs (mask_select res (map (in_rectbox NumR b) grid)))) by (rewrite E; now left).
      apply in_map_iff in Hin as (v & _ & Hv). apply mask_select_In in Hv as (k & q & Hg & Hr & Hf).
      rewrite (H k q v Hg Hr) in Hf. discriminate.
  Qed.

  (* the whole image: every bound None *)
  Lemma in_rectbox_unbounded q : in_rectbox NumR (mkBox None None None None None None) q = true.
  Proof. now destruct q as [[x y] z]. Qed.

  (* ---- scaling the image scales the maximum intensity --------------------------- *)
  Lemma fold_max_scale c r y : 0 <= c ->
    fold_left (nmax NumR) (map (Rmult c) r) (c * y) = c * fold_left (nmax NumR) r y.
  Proof.
    intros Hc. revert y. induction r as [|a r IH]; intros y; cbn [map fold_left]; [reflexivity|].
    rewrite <- IH. f_equal. rewrite !nmax_R. now apply RmaxRmult.
  Qed.

  Lemma nanmax_scale c l : 0 <= c -> nanmax NumR no_nan (map (Rmult c) l) = option_map (Rmult c) (nanmax NumR no_nan l).
  Proof.
    intros Hc. unfold nanmax. destruct l as [|y r]; [reflexivity|]. cbn [map]. rewrite !filter_no_nan.
    cbn [option_map]. f_equal. now apply fold_max_scale.
  Qed.

  Lemma mask_select_map {A B} (f : A -> B) (l : list A) mask : mask_select (map f l) mask = map f (mask_select l mask).
  Proof.
    unfold mask_select. revert mask. induction l as [|a l IH]; intros [|m mask]; cbn [map combine filter]; try reflexivity.
    destruct m; cbn [snd map fst]; now rewrite IH.
  Qed.

  Lemma max_intensity_scale (V : Data R D) (c : R) res area :
    (forall v, dabs (dscale V c v) = Rabs c * dabs v) ->
    maximum_intensity_in_area NumR no_nan dabs (map (dscale V c) res) area
    = option_map (Rmult (Rabs c)) (maximum_intensity_in_area NumR no_nan dabs res area).
  Proof.
    intros Hs. unfold maximum_intensity_in_area.
    assert (E : forall l, map dabs (map (dscale V c) l) = map (Rmult (Rabs c)) (map dabs l)).
    { intros l. rewrite !map_map. apply map_ext. apply Hs. }
    destruct area as [m|].
    - rewrite mask_select_map, E. apply nanmax_scale. apply Rabs_pos.
    - rewrite E. apply nanmax_scale. apply Rabs_pos.
  Qed.
End MaxIntensity.

(* np.abs on real and complex samples satisfies the scaling law *)
Lemma abs_real_R x : abs_real NumR x = Rabs x.
Proof.
  unfold abs_real, nabs. cbn [NumR nltb n0 nopp]. unfold Rabs.
  destruct (Rlt_bool_spec x 0); destruct (Rcase_abs x); lra.
Qed.

Lemma abs_real_scale c v : abs_real NumR (dscale (DataReal NumR) c v) = Rabs c * abs_real NumR v.
Proof. rewrite !abs_real_R. cbn [DataReal dscale NumR nmul]. apply Rabs_mult. Qed.

Lemma abs_cplx_scale c v : abs_cplx NumR (dscale (DataCplx NumR) c v) = Rabs c * abs_cplx NumR v.
Proof.
  destruct v as [a b]. unfold abs_cplx. cbn [DataCplx dscale NumR nmul nadd nsqrt fst snd].
  replace (c * a * (c * a) + c * b * (c * b)) with (Rsqr c * (a * a + b * b)) by (unfold Rsqr; ring).
  rewrite sqrt_mult_alt by apply Rle_0_sqr. now rewrite sqrt_Rsqr_abs.
Qed.

(* ---- HMC vs FMC: N_hmc * max|I_hmc| = N_fmc * max|I_fmc| over any area ------------- *)
Lemma hmc_fmc_max_intensity {D} (V : Data R D) (dabs : D -> R) (Ih If : list D) (nh nf : nat) area :
  (forall c v, dabs (dscale V c v) = Rabs c * dabs v) ->
  map (dscale V (IZR (Z.of_nat nh))) Ih = map (dscale V (IZR (Z.of_nat nf))) If ->
  option_map (Rmult (INR nh)) (maximum_intensity_in_area NumR no_nan dabs Ih area)
  = option_map (Rmult (INR nf)) (maximum_intensity_in_area NumR no_nan dabs If area).
Proof.
  intros Hs E.
  assert (Habs : forall n, Rabs (IZR (Z.of_nat n)) = INR n).
  { intros n. rewrite <- INR_IZR_INZ. apply Rabs_right. apply Rle_ge, pos_INR. }
  rewrite <- (Habs nh), <- (Habs nf), <- !(max_intensity_scale dabs V) by (intros v; apply Hs).
  now rewrite E.
Qed.

(* ... through the pipeline: contact TFM of the half-matrix and of the full-matrix frame of reciprocal
   data, default weights, fill value 0; any area (None = whole image, or a boolean mask) *)
Lemma hmc_fmc_max_intensity_contact {D} (V : Data R D) (L : DataLaws V) (dabs : D -> R)
      sc ns dt t0 grid probe v (g : nat -> nat -> list D) n area :
  (forall c x, dabs (dscale V c x) = Rabs c * dabs x) ->
  (forall i j, g i j = g j i) ->
  exists Ih If,
    contact_tfm NumR V sc ns dt t0 (dzero V) WDefault grid probe v None (frame_of g (hmc n)) = Some Ih /\
    contact_tfm NumR V sc ns dt t0 (dzero V) WDefault grid probe v None (frame_of g (fmc n)) = Some If /\
    option_map (Rmult (INR (length (hmc n)))) (maximum_intensity_in_area NumR no_nan dabs Ih area)
    = option_map (Rmult (INR (n * n))) (maximum_intensity_in_area NumR no_nan dabs If area).
Proof.
  intros Hs Hg. destruct (hmc_eq_fmc_contact V L sc ns dt t0 grid probe v g n Hg) as (Ih & If & H1 & H2 & H3).
  exists Ih, If. split; [exact H1|]. split; [exact H2|]. now apply (hmc_fmc_max_intensity V dabs).
Qed.
