(* Proofs/DftProofs.v — shift theorem for the finite Fourier sum (C11). *)
From Coq Require Import Reals List ZArith Lra Lia.
From Coquelicot Require Import Complex.
From Arim Require Import Model.Dft.
Import ListNotations.
Local Open Scope R_scope.

Lemma cis_add a b : cis (a + b) = Cmult (cis a) (cis b).
Proof. unfold cis, Cmult. simpl. rewrite cos_plus, sin_plus. f_equal; ring. Qed.

Lemma cis_period x (k : nat) : cis (x + 2 * INR k * PI) = cis x.
Proof. unfold cis. rewrite cos_period, sin_period. reflexivity. Qed.

Lemma csum_ext f g n : (forall k, (k < n)%nat -> f k = g k) -> csum f n = csum g n.
Proof.
  unfold csum. intros H.
  assert (forall l, (forall k, In k l -> f k = g k) ->
          fold_right (fun k acc => Cplus (f k) acc) (RtoC 0) l = fold_right (fun k acc => Cplus (g k) acc) (RtoC 0) l) as G.
  { induction l as [|a l IH]; intros Hl; simpl; [reflexivity|].
    rewrite Hl by (left; reflexivity). rewrite IH; [reflexivity|]. intros k Hk. apply Hl. right. exact Hk. }
  apply G. intros k Hk. apply H. apply in_seq in Hk. lia.
Qed.

(* multiplying the spectrum by exp(-2 pi i f_k * delay) and transforming back gives
   the (band-limited, periodic) signal evaluated at time (j*dt - delay); for a whole
   number m of samples, delay = m*dt, this is sample j - m *)
Lemma shift_whole_samples X n dt (m j : Z) : (0 < n)%nat -> dt <> 0 ->
  idft (shift_spectrum X n dt (IZR m * dt)) n j = idft X n (j - m).
Proof.
  intros Hn Hdt. unfold idft. f_equal. apply csum_ext. intros k Hk.
  unfold shift_spectrum. rewrite (Cmult_comm (cis _) (X k)). rewrite <- Cmult_assoc.
  f_equal. rewrite <- cis_add. f_equal. rewrite minus_IZR.
  assert (INR n <> 0) by (apply not_0_INR; lia). field. split; assumption.
Qed.

(* periodic extension: shifting the index by the length n changes nothing, so the
   whole-sample delay is a CIRCULAR shift of the n stored samples *)
Lemma idft_periodic X n (j : Z) : (0 < n)%nat -> idft X n (j + Z.of_nat n) = idft X n j.
Proof.
  intros Hn. unfold idft. f_equal. apply csum_ext. intros k Hk. f_equal.
  rewrite plus_IZR, <- INR_IZR_INZ.
  assert (INR n <> 0) by (apply not_0_INR; lia).
  replace (2 * PI * (IZR j + INR n) * INR k / INR n) with (2 * PI * IZR j * INR k / INR n + 2 * INR k * PI)
    by (field; assumption).
  apply cis_period.
Qed.

Lemma shift_zero X n dt : (forall k, shift_spectrum X n dt 0 k = X k).
Proof.
  intros k. unfold shift_spectrum. replace (-2 * PI * (INR k / (INR n * dt)) * 0) with 0 by ring.
  unfold cis. rewrite cos_0, sin_0. apply Cmult_1_l.
Qed.
