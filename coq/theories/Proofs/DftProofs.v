(* Proofs/DftProofs.v — shift theorem for the finite Fourier sum (C11). *)
From Coq Require Import Reals List ZArith Lra Lia.
From Coquelicot Require Import Complex.
From Arim Require Import Model.Dft.
Import ListNotations.
Local Open Scope R_scope.

Lemma cis_add a b : cis (a + b) = Cmult (cis a) (cis b).
Proof. unfold cis, Cmult. simpl. rewrite cos_plus, sin_plus. f_equal; ring. Qed.

Lemma cis_period x (k : nat) : cis (x + 2 * INR k * PI) = cis x.
Proof. unfold cis. rewrite cos_period, sin_period. reflexivity. Qed.

Lemma csum_ext f g n : (forall k, (k < n)%nat -> f k = g k) -> csum f n = csum g n.
Proof.
  unfold csum. intros H.
  assert (forall l, (forall k, In k l -> f k = g k) ->
          fold_right (fun k acc => Cplus (f k) acc) (RtoC 0) l = fold_right (fun k acc => Cplus (g k) acc) (RtoC 0) l) as G.
  { induction l as [|a l IH]; intros Hl; simpl; [reflexivity|].
    rewrite Hl by (left; reflexivity). rewrite IH; [reflexivity|]. intros k Hk. apply Hl. right. exact Hk. }
  apply G. intros k Hk. apply H. apply in_seq in Hk. lia.
Qed.

(* multiplying the spectrum by exp(-2 pi i f_k * delay) and transforming back gives
   the (band-limited, periodic) signal evaluated at time (j*dt - delay); for a whole
   number m of samples, delay = m*dt, this is sample j - m *)
Lemma shift_whole_samples X n dt (m j : Z) : (0 < n)%nat -> dt <> 0 ->
  idft (shift_spectrum X n dt (IZR m * dt)) n j = idft X n (j - m).
Proof.
  intros Hn Hdt. unfold idft. f_equal. apply csum_ext. intros k Hk.
  unfold shift_spectrum. rewrite (Cmult_comm (cis _) (X k)). rewrite <- Cmult_assoc.
  f_equal. rewrite <- cis_add. f_equal. rewrite minus_IZR.
  assert (INR n <> 0) by (apply not_0_INR; lia). field. split; assumption.
Qed.

(* periodic extension: shifting the index by the length n changes nothing, so the
   whole-sample delay is a CIRCULAR shift of the n stored samples *)
Lemma idft_periodic X n (j : Z) : (0 < n)%nat -> idft X n (j + Z.of_nat n) = idft X n j.
Proof.
  intros Hn. unfold idft. f_equal. apply csum_ext. intros k Hk. f_equal.
  rewrite plus_IZR, <- INR_IZR_INZ.
  assert (INR n <> 0) by (apply not_0_INR; lia).
  replace (2 * PI * (IZR j + INR n) * INR k / INR n) with (2 * PI * IZR j * INR k / INR n + 2 * INR k * PI)
    by (field; assumption).
  apply cis_period.
Qed.

Lemma shift_zero X n dt : (forall k, shift_spectrum X n dt 0 k = X k).
Proof.
  intros k. unfold shift_spectrum. replace (-2 * PI * (INR k / (INR n * dt)) * 0) with 0 by ring.
  unfold cis. rewrite cos_0, sin_0. apply Cmult_1_l.
Qed.

(* ---- two-dimensional shift (rotate_matrix) -------------------------------- *)
Lemma cis_period_Z x (k : Z) : cis (x + 2 * IZR k * PI) = cis x.
Proof.
  destruct k as [|p|p].
  - simpl. f_equal. ring.
  - replace (IZR (Z.pos p)) with (INR (Pos.to_nat p)) by (rewrite INR_IZR_INZ, positive_nat_Z; reflexivity).
    apply cis_period.
  - replace x with ((x + 2 * IZR (Z.neg p) * PI) + 2 * INR (Pos.to_nat p) * PI) at 2.
    + rewrite cis_period. reflexivity.
    + rewrite INR_IZR_INZ, positive_nat_Z. change (Z.neg p) with (- Z.pos p)%Z. rewrite opp_IZR. ring.
Qed.

Lemma fftfreq_idx_cases n k : fftfreq_idx n k = Z.of_nat k \/ fftfreq_idx n k = (Z.of_nat k - Z.of_nat n)%Z.
Proof. unfold fftfreq_idx. destruct (_ <? _)%nat; auto. Qed.

(* for a whole number m of grid steps the signed index and the plain index give the same phase *)
Lemma rotate_phase_index n k (m : Z) : (0 < n)%nat ->
  cis (- 2 * PI * (IZR (fftfreq_idx n k) / (2 * PI)) * (IZR m * (2 * PI / INR n)))
  = cis (- 2 * PI * IZR m * INR k / INR n).
Proof.
  intros Hn. assert (Hn0 : INR n <> 0) by (apply not_0_INR; lia).
  pose proof PI_neq0 as Hpi.
  destruct (fftfreq_idx_cases n k) as [E|E]; rewrite E.
  - rewrite <- INR_IZR_INZ. f_equal. field. split; assumption.
  - rewrite minus_IZR, <- !INR_IZR_INZ.
    replace (-2 * PI * ((INR k - INR n) / (2 * PI)) * (IZR m * (2 * PI / INR n)))
      with (-2 * PI * IZR m * INR k / INR n + 2 * IZR m * PI) by (field; split; assumption).
    apply cis_period_Z.
Qed.

Lemma rotate_whole_steps X n (m j1 j2 : Z) : (0 < n)%nat ->
  idft2 (rotate_spectrum X n (IZR m * (2 * PI / INR n))) n j1 j2 = idft2 X n (j1 - m) (j2 - m).
Proof.
  intros Hn. assert (Hn0 : INR n <> 0) by (apply not_0_INR; lia).
  unfold idft2. f_equal. apply csum_ext. intros k1 Hk1. apply csum_ext. intros k2 Hk2.
  unfold rotate_spectrum.
  replace (-2 * PI * (IZR (fftfreq_idx n k1) / (2 * PI) + IZR (fftfreq_idx n k2) / (2 * PI)) * (IZR m * (2 * PI / INR n)))
    with (-2 * PI * (IZR (fftfreq_idx n k1) / (2 * PI)) * (IZR m * (2 * PI / INR n))
          + -2 * PI * (IZR (fftfreq_idx n k2) / (2 * PI)) * (IZR m * (2 * PI / INR n))) by ring.
  rewrite cis_add, !rotate_phase_index by assumption.
  rewrite !minus_IZR.
  replace (2 * PI * (IZR j1 - IZR m) * INR k1 / INR n)
    with (-2 * PI * IZR m * INR k1 / INR n + 2 * PI * IZR j1 * INR k1 / INR n) by (field; assumption).
  replace (2 * PI * (IZR j2 - IZR m) * INR k2 / INR n)
    with (-2 * PI * IZR m * INR k2 / INR n + 2 * PI * IZR j2 * INR k2 / INR n) by (field; assumption).
  rewrite !cis_add. ring.
Qed.

Lemma idft2_periodic X n (j1 j2 : Z) : (0 < n)%nat ->
  idft2 X n (j1 + Z.of_nat n) j2 = idft2 X n j1 j2 /\ idft2 X n j1 (j2 + Z.of_nat n) = idft2 X n j1 j2.
Proof.
  intros Hn. assert (Hn0 : INR n <> 0) by (apply not_0_INR; lia).
  unfold idft2. split; f_equal; apply csum_ext; intros k1 Hk1; apply csum_ext; intros k2 Hk2; f_equal; f_equal.
  - rewrite plus_IZR, <- INR_IZR_INZ.
    replace (2 * PI * (IZR j1 + INR n) * INR k1 / INR n) with (2 * PI * IZR j1 * INR k1 / INR n + 2 * INR k1 * PI)
      by (field; assumption).
    apply cis_period.
  - rewrite plus_IZR, <- INR_IZR_INZ.
    replace (2 * PI * (IZR j2 + INR n) * INR k2 / INR n) with (2 * PI * IZR j2 * INR k2 / INR n + 2 * INR k2 * PI)
      by (field; assumption).
    apply cis_period.
Qed.

(* ===== inversion: the inverse transform of the forward transform is the signal ===== *)
Lemma csum_S f n : csum f (S n) = Cplus (csum f n) (f n).
Proof.
  unfold csum. rewrite seq_S, fold_right_app. simpl.
  generalize (seq 0 n). intros l. induction l as [|a l IH]; simpl.
  - ring.
  - rewrite IH. ring.
Qed.

Lemma csum_0 f : csum f 0 = RtoC 0. Proof. reflexivity. Qed.

Lemma csum_plus f g n : csum (fun k => Cplus (f k) (g k)) n = Cplus (csum f n) (csum g n).
Proof. induction n as [|n IH]; [unfold csum; simpl; ring|]. rewrite !csum_S, IH. ring. Qed.

Lemma csum_scal c f n : csum (fun k => Cmult c (f k)) n = Cmult c (csum f n).
Proof. induction n as [|n IH]; [unfold csum; simpl; ring|]. rewrite !csum_S, IH. ring. Qed.

Lemma csum_swap (f : nat -> nat -> C) n1 n2 :
  csum (fun k => csum (fun m => f k m) n2) n1 = csum (fun m => csum (fun k => f k m) n1) n2.
Proof.
  induction n1 as [|n1 IH].
  - rewrite csum_0. induction n2 as [|n2 IH2]; [reflexivity|]. rewrite csum_S, <- IH2, csum_0. ring.
  - rewrite csum_S, IH. rewrite <- csum_plus. apply csum_ext. intros m _. rewrite csum_S. reflexivity.
Qed.

Lemma cis_0 : cis 0 = RtoC 1. Proof. unfold cis. rewrite cos_0, sin_0. reflexivity. Qed.

(* geometric sum of the powers of cis a *)
Lemma geometric_cis a n :
  Cmult (Cminus (RtoC 1) (cis a)) (csum (fun k => cis (INR k * a)) n) = Cminus (RtoC 1) (cis (INR n * a)).
Proof.
  induction n as [|n IH].
  - rewrite csum_0. simpl. rewrite Rmult_0_l, cis_0. ring.
  - rewrite csum_S. rewrite Cmult_plus_distr_l, IH.
    rewrite S_INR. replace ((INR n + 1) * a) with (INR n * a + a) by ring. rewrite cis_add. ring.
Qed.

Lemma cos_lt_1_open x : 0 < x < 2 * PI -> cos x < 1.
Proof.
  intros H. replace x with (2 * (x / 2)) by field. rewrite cos_2a_sin.
  assert (0 < sin (x / 2)) by (apply sin_gt_0; lra). nra.
Qed.

Lemma cis_neq_1 x : (0 < x < 2 * PI) \/ (- (2 * PI) < x < 0) -> cis x <> RtoC 1.
Proof.
  intros H E. unfold cis, RtoC in E. inversion E as [[Ec Es]].
  destruct H as [H|H].
  - pose proof (cos_lt_1_open x H). lra.
  - pose proof (cos_lt_1_open (- x) ltac:(lra)) as Hc. rewrite cos_neg in Hc. lra.
Qed.

(* orthogonality of the roots of unity *)
Lemma roots_sum (n : nat) (d : Z) : (0 < n)%nat ->
  csum (fun k => cis (2 * PI * IZR d * INR k / INR n)) n
  = if (d mod Z.of_nat n =? 0)%Z then RtoC (INR n) else RtoC 0.
Proof.
  intros Hn. assert (Hn0 : INR n <> 0) by (apply not_0_INR; lia).
  assert (Hnpos : 0 < INR n) by (apply lt_0_INR; assumption).
  pose proof (Z.div_mod d (Z.of_nat n) ltac:(lia)) as Hdm.
  pose proof (Z.mod_pos_bound d (Z.of_nat n) ltac:(lia)) as Hr.
  set (q := (d / Z.of_nat n)%Z) in *. set (r := (d mod Z.of_nat n)%Z) in *.
  (* every term only depends on r *)
  assert (Eterm : forall k, cis (2 * PI * IZR d * INR k / INR n) = cis (INR k * (2 * PI * IZR r / INR n))).
  { intros k. rewrite Hdm, plus_IZR, mult_IZR, <- INR_IZR_INZ.
    replace (2 * PI * (INR n * IZR q + IZR r) * INR k / INR n)
      with (INR k * (2 * PI * IZR r / INR n) + 2 * IZR (q * Z.of_nat k) * PI).
    - apply cis_period_Z.
    - rewrite mult_IZR, <- INR_IZR_INZ. field. assumption. }
  rewrite (csum_ext _ (fun k => cis (INR k * (2 * PI * IZR r / INR n)))) by (intros; apply Eterm).
  destruct (Z.eqb_spec r 0) as [E0|E0].
  - rewrite E0. rewrite (csum_ext _ (fun _ => RtoC 1)).
    + clear. induction n as [|n IH]; [reflexivity|]. rewrite csum_S, IH, S_INR. unfold RtoC, Cplus. simpl. f_equal; ring.
    + intros k _. replace (INR k * (2 * PI * 0 / INR n)) with 0 by (field; assumption). apply cis_0.
  - set (a := 2 * PI * IZR r / INR n).
    pose proof (geometric_cis a n) as G.
    assert (Ena : cis (INR n * a) = RtoC 1).
    { unfold a. replace (INR n * (2 * PI * IZR r / INR n)) with (0 + 2 * IZR r * PI) by (field; assumption).
      rewrite cis_period_Z. apply cis_0. }
    rewrite Ena in G. replace (Cminus (RtoC 1) (RtoC 1)) with (RtoC 0) in G by (unfold RtoC, Cminus, Cplus, Copp; simpl; f_equal; ring).
    assert (Hne : Cminus (RtoC 1) (cis a) <> RtoC 0).
    { intro E. apply (cis_neq_1 a).
      - left. unfold a. assert (0 < IZR r) by (apply IZR_lt; lia).
        assert (IZR r < INR n) by (rewrite INR_IZR_INZ; apply IZR_lt; lia).
        split.
        + apply Rdiv_lt_0_compat; [|assumption]. pose proof PI_RGT_0. nra.
        + apply Rmult_lt_reg_r with (INR n); [assumption|]. unfold Rdiv. rewrite Rmult_assoc, Rinv_l, Rmult_1_r by assumption.
          pose proof PI_RGT_0. nra.
      - replace (cis a) with (Cminus (RtoC 1) (Cminus (RtoC 1) (cis a))) by ring. rewrite E. ring. }
    set (A := Cminus (RtoC 1) (cis a)) in *. set (S := csum (fun k => cis (INR k * a)) n) in *.
    replace S with (Cmult (Cinv A) (Cmult A S)).
    + rewrite G. ring.
    + rewrite Cmult_assoc, Cinv_l by exact Hne. ring.
Qed.

(* the forward transform: X[k] = sum_m x[m] exp(-2 pi i m k / n) *)
Definition dft (x : nat -> C) (n : nat) (k : nat) : C :=
  csum (fun m => Cmult (x m) (cis (- 2 * PI * INR m * INR k / INR n))) n.

Lemma delta_sum (x : nat -> C) (c : C) j n :
  csum (fun m => Cmult (x m) (if Nat.eqb j m then c else RtoC 0)) n
  = if Nat.ltb j n then Cmult c (x j) else RtoC 0.
Proof.
  induction n as [|n IH]; [reflexivity|].
  rewrite csum_S, IH.
  destruct (Nat.ltb_spec j n) as [H|H]; destruct (Nat.ltb_spec j (S n)) as [H'|H']; try lia.
  - replace (Nat.eqb j n) with false by (symmetry; apply Nat.eqb_neq; lia). ring.
  - assert (j = n) by lia. subst j. rewrite Nat.eqb_refl. ring.
  - replace (Nat.eqb j n) with false by (symmetry; apply Nat.eqb_neq; lia). ring.
Qed.

(* inversion: idft (dft x) = x on the stored samples *)
Lemma idft_dft (x : nat -> C) n (j : nat) : (j < n)%nat ->
  idft (dft x n) n (Z.of_nat j) = x j.
Proof.
  intros Hj. assert (Hn : (0 < n)%nat) by lia. assert (Hn0 : INR n <> 0) by (apply not_0_INR; lia).
  unfold idft, dft.
  (* move the phase inside, swap the two sums *)
  rewrite (csum_ext _ (fun k => csum (fun m => Cmult (x m)
             (cis (2 * PI * IZR (Z.of_nat j - Z.of_nat m) * INR k / INR n))) n)).
  2:{ intros k _. rewrite Cmult_comm, <- csum_scal. apply csum_ext. intros m _.
      rewrite Cmult_assoc, (Cmult_comm _ (x m)), <- Cmult_assoc. f_equal. rewrite <- cis_add. f_equal.
      rewrite minus_IZR, <- !INR_IZR_INZ. field. assumption. }
  rewrite csum_swap.
  rewrite (csum_ext _ (fun m => Cmult (x m) (if Nat.eqb j m then RtoC (INR n) else RtoC 0))).
  2:{ intros m Hm. rewrite csum_scal. f_equal. rewrite roots_sum by assumption.
      destruct (Nat.eqb_spec j m) as [E|E].
      - subst m. rewrite Z.sub_diag. rewrite Zmod_0_l. reflexivity.
      - replace ((Z.of_nat j - Z.of_nat m) mod Z.of_nat n =? 0)%Z with false; [reflexivity|].
        symmetry. apply Z.eqb_neq. intro E0.
        apply Z.mod_divide in E0; [|lia]. destruct E0 as [q Eq].
        assert (Hb : (- Z.of_nat n < Z.of_nat j - Z.of_nat m < Z.of_nat n)%Z) by lia.
        assert (q = 0)%Z by nia. subst q. lia. }
  rewrite delta_sum. replace (Nat.ltb j n) with true by (symmetry; apply Nat.ltb_lt; assumption).
  rewrite Cmult_assoc. replace (Cmult (RtoC (/ INR n)) (RtoC (INR n))) with (RtoC 1).
  - ring.
  - unfold RtoC, Cmult. simpl. f_equal; field; assumption.
Qed.

(* hence: shifting the spectrum of x by m whole samples and transforming back gives x
   delayed circularly by m samples *)
Lemma shift_delays_signal (x : nat -> C) n dt (m : Z) (j : nat) : (j < n)%nat -> dt <> 0 ->
  idft (shift_spectrum (dft x n) n dt (IZR m * dt)) n (Z.of_nat j)
  = x (Z.to_nat ((Z.of_nat j - m) mod Z.of_nat n)).
Proof.
  intros Hj Hdt. assert (Hn : (0 < n)%nat) by lia.
  rewrite shift_whole_samples by assumption.
  pose proof (Z.div_mod (Z.of_nat j - m) (Z.of_nat n) ltac:(lia)) as Hdm.
  pose proof (Z.mod_pos_bound (Z.of_nat j - m) (Z.of_nat n) ltac:(lia)) as Hr.
  set (r := ((Z.of_nat j - m) mod Z.of_nat n)%Z) in *. set (q := ((Z.of_nat j - m) / Z.of_nat n)%Z) in *.
  rewrite Hdm.
  (* periodicity q times *)
  assert (P : forall (q : Z) t, idft (dft x n) n (Z.of_nat n * q + t) = idft (dft x n) n t).
  { intros q0 t. destruct q0 as [|p|p].
    - f_equal. lia.
    - induction p as [|p IH] using Pos.peano_ind.
      + replace (Z.of_nat n * 1 + t)%Z with (t + Z.of_nat n)%Z by ring. apply idft_periodic. assumption.
      + replace (Z.of_nat n * Z.pos (Pos.succ p) + t)%Z with ((Z.of_nat n * Z.pos p + t) + Z.of_nat n)%Z by lia.
        rewrite idft_periodic by assumption. exact IH.
    - induction p as [|p IH] using Pos.peano_ind.
      + rewrite <- (idft_periodic _ n (Z.of_nat n * -1 + t)) by assumption. f_equal. ring.
      + rewrite <- (idft_periodic _ n (Z.of_nat n * Z.neg (Pos.succ p) + t)) by assumption.
        replace (Z.of_nat n * Z.neg (Pos.succ p) + t + Z.of_nat n)%Z with (Z.of_nat n * Z.neg p + t)%Z by lia.
        exact IH. }
  rewrite P. rewrite <- (Z2Nat.id r) at 1 by lia. apply idft_dft. lia.
Qed.
