(* Proofs/DftProofs.v — shift theorem for the finite Fourier sum (C11). *)
From Coq Require Import Reals List ZArith Lra Lia.
From Coquelicot Require Import Complex.
From Arim Require Import Model.Dft.
Import ListNotations.
Local Open Scope R_scope.

Lemma cis_add a b : cis (a + b) = Cmult (cis a) (cis b).
Proof. unfold cis, Cmult. simpl. rewrite cos_plus, sin_plus. f_equal; ring. Qed.

Lemma cis_period x (k : nat) : cis (x + 2 * INR k * PI) = cis x.
Proof. unfold cis. rewrite cos_period, sin_period. reflexivity. Qed.

Lemma csum_ext f g n : (forall k, (k < n)%nat -> f k = g k) -> csum f n = csum g n.
Proof.
  unfold csum. intros H.
  assert (forall l, (forall k, In k l -> f k = g k) ->
          fold_right (fun k acc => Cplus (f k) acc) (RtoC 0) l = fold_right (fun k acc => Cplus (g k) acc) (RtoC 0) l) as G.
  { induction l as [|a l IH]; intros Hl; simpl; [reflexivity|].
    rewrite Hl by (left; reflexivity). rewrite IH; [reflexivity|]. intros k Hk. apply Hl. right. exact Hk. }
  apply G. intros k Hk. apply H. apply in_seq in Hk. lia.
Qed.

(* multiplying the spectrum by exp(-2 pi i f_k * delay) and transforming back gives
   the (band-limited, periodic) signal evaluated at time (j*dt - delay); for a whole
   number m of samples, delay = m*dt, this is sample j - m *)
Lemma shift_whole_samples X n dt (m j : Z) : (0 < n)%nat -> dt <> 0 ->
  idft (shift_spectrum X n dt (IZR m * dt)) n j = idft X n (j - m).
Proof.
  intros Hn Hdt. unfold idft. f_equal. apply csum_ext. intros k Hk.
  unfold shift_spectrum. rewrite (Cmult_comm (cis _) (X k)). rewrite <- Cmult_assoc.
  f_equal. rewrite <- cis_add. f_equal. rewrite minus_IZR.
  assert (INR n <> 0) by (apply not_0_INR; lia). field. split; assumption.
Qed.

(* periodic extension: shifting the index by the length n changes nothing, so the
   whole-sample delay is a CIRCULAR shift of the n stored samples *)
Lemma idft_periodic X n (j : Z) : (0 < n)%nat -> idft X n (j + Z.of_nat n) = idft X n j.
Proof.
  intros Hn. unfold idft. f_equal. apply csum_ext. intros k Hk. f_equal.
  rewrite plus_IZR, <- INR_IZR_INZ.
  assert (INR n <> 0) by (apply not_0_INR; lia).
  replace (2 * PI * (IZR j + INR n) * INR k / INR n) with (2 * PI * IZR j * INR k / INR n + 2 * INR k * PI)
    by (field; assumption).
  apply cis_period.
Qed.

Lemma shift_zero X n dt : (forall k, shift_spectrum X n dt 0 k = X k).
Proof.
  intros k. unfold shift_spectrum. replace (-2 * PI * (INR k / (INR n * dt)) * 0) with 0 by ring.
  unfold cis. rewrite cos_0, sin_0. apply Cmult_1_l.
Qed.

(* ---- two-dimensional shift (rotate_matrix) -------------------------------- *)
Lemma cis_period_Z x (k : Z) : cis (x + 2 * IZR k * PI) = cis x.
Proof.
  destruct k as [|p|p].
  - simpl. f_equal. ring.
  - replace (IZR (Z.pos p)) with (INR (Pos.to_nat p)) by (rewrite INR_IZR_INZ, positive_nat_Z; reflexivity).
    apply cis_period.
  - replace x with ((x + 2 * IZR (Z.neg p) * PI) + 2 * INR (Pos.to_nat p) * PI) at 2.
    + rewrite cis_period. reflexivity.
    + rewrite INR_IZR_INZ, positive_nat_Z. change (Z.neg p) with (- Z.pos p)%Z. rewrite opp_IZR. ring.
Qed.

Lemma fftfreq_idx_cases n k : fftfreq_idx n k = Z.of_nat k \/ fftfreq_idx n k = (Z.of_nat k - Z.of_nat n)%Z.
Proof. unfold fftfreq_idx. destruct (_ <? _)%nat; auto. Qed.

(* for a whole number m of grid steps the signed index and the plain index give the same phase *)
Lemma rotate_phase_index n k (m : Z) : (0 < n)%nat ->
  cis (- 2 * PI * (IZR (fftfreq_idx n k) / (2 * PI)) * (IZR m * (2 * PI / INR n)))
  = cis (- 2 * PI * IZR m * INR k / INR n).
Proof.
  intros Hn. assert (Hn0 : INR n <> 0) by (apply not_0_INR; lia).
  pose proof PI_neq0 as Hpi.
  destruct (fftfreq_idx_cases n k) as [E|E]; rewrite E.
  - rewrite <- INR_IZR_INZ. f_equal. field. split; assumption.
  - rewrite minus_IZR, <- !INR_IZR_INZ.
    replace (-2 * PI * ((INR k - INR n) / (2 * PI)) * (IZR m * (2 * PI / INR n)))
      with (-2 * PI * IZR m * INR k / INR n + 2 * IZR m * PI) by (field; split; assumption).
    apply cis_period_Z.
Qed.

Lemma rotate_whole_steps X n (m j1 j2 : Z) : (0 < n)%nat ->
  idft2 (rotate_spectrum X n (IZR m * (2 * PI / INR n))) n j1 j2 = idft2 X n (j1 - m) (j2 - m).
Proof.
  intros Hn. assert (Hn0 : INR n <> 0) by (apply not_0_INR; lia).
  unfold idft2. f_equal. apply csum_ext. intros k1 Hk1. apply csum_ext. intros k2 Hk2.
  unfold rotate_spectrum.
  replace (-2 * PI * (IZR (fftfreq_idx n k1) / (2 * PI) + IZR (fftfreq_idx n k2) / (2 * PI)) * (IZR m * (2 * PI / INR n)))
    with (-2 * PI * (IZR (fftfreq_idx n k1) / (2 * PI)) * (IZR m * (2 * PI / INR n))
          + -2 * PI * (IZR (fftfreq_idx n k2) / (2 * PI)) * (IZR m * (2 * PI / INR n))) by ring.
  rewrite cis_add, !rotate_phase_index by assumption.
  rewrite !minus_IZR.
  replace (2 * PI * (IZR j1 - IZR m) * INR k1 / INR n)
    with (-2 * PI * IZR m * INR k1 / INR n + 2 * PI * IZR j1 * INR k1 / INR n) by (field; assumption).
  replace (2 * PI * (IZR j2 - IZR m) * INR k2 / INR n)
    with (-2 * PI * IZR m * INR k2 / INR n + 2 * PI * IZR j2 * INR k2 / INR n) by (field; assumption).
  rewrite !cis_add. ring.
Qed.

Lemma idft2_periodic X n (j1 j2 : Z) : (0 < n)%nat ->
  idft2 X n (j1 + Z.of_nat n) j2 = idft2 X n j1 j2 /\ idft2 X n j1 (j2 + Z.of_nat n) = idft2 X n j1 j2.
Proof.
  intros Hn. assert (Hn0 : INR n <> 0) by (apply not_0_INR; lia).
  unfold idft2. split; f_equal; apply csum_ext; intros k1 Hk1; apply csum_ext; intros k2 Hk2; f_equal; f_equal.
  - rewrite plus_IZR, <- INR_IZR_INZ.
    replace (2 * PI * (IZR j1 + INR n) * INR k1 / INR n) with (2 * PI * IZR j1 * INR k1 / INR n + 2 * INR k1 * PI)
      by (field; assumption).
    apply cis_period.
  - rewrite plus_IZR, <- INR_IZR_INZ.
    replace (2 * PI * (IZR j2 + INR n) * INR k2 / INR n) with (2 * PI * IZR j2 * INR k2 / INR n + 2 * INR k2 * PI)
      by (field; assumption).
    apply cis_period.
Qed.
