(* Proofs/FrameOpsProofs.v — lemmas about Model/Frame.v, part 2: the Frame operations
   (duplicate check, get_timetrace, expand, subframe, subframe_from_probe_elements,
   Probe.subprobe) and chains of them (C15).  Axiom-free. *)
From Coq Require Import Arith List Bool Lia Permutation Sorted.
From Arim Require Import Model.Frame Proofs.FrameProofs.
Import ListNotations.

(* ---------- generic ------------------------------------------------------ *)
Lemma mapM_Forall2 {A B} (g : A -> option B) (l : list A) (r : list B) :
  mapM g l = Some r <-> Forall2 (fun x y => g x = Some y) l r.
Proof.
  revert r. induction l as [|x l IH]; intros r; simpl.
  - split; intros H; inversion H; auto; constructor.
  - destruct (g x) as [y|] eqn:E.
    + destruct (mapM g l) as [r'|] eqn:E'.
      * split; intros H.
        -- inversion H; subst. constructor; auto. apply IH. reflexivity.
        -- inversion H as [|? y' ? r'' H1 H2]; subst. apply IH in H2. rewrite E in H1.
           inversion H1; inversion H2; subst; reflexivity.
      * split; intros H; [discriminate|]. inversion H as [|? y' ? r'' H1 H2]; subst.
        apply IH in H2. discriminate.
    + split; intros H; [discriminate|]. inversion H; subst. congruence.
Qed.

Lemma mapM_total {A B} (g : A -> option B) (l : list A) :
  (forall x, In x l -> exists y, g x = Some y) -> exists r, mapM g l = Some r.
Proof.
  induction l as [|x l IH]; intros H; simpl; [eauto|].
  destruct (H x) as [y Hy]; [simpl; auto|]. destruct IH as [r Hr]; [intros z Hz; apply H; simpl; auto|].
  rewrite Hy, Hr. eauto.
Qed.

Lemma Forall2_In_r {A B} (R : A -> B -> Prop) l r y :
  Forall2 R l r -> In y r -> exists x, In x l /\ R x y.
Proof.
  induction 1 as [|x y' l r HR HF IH]; simpl; [contradiction|].
  intros [->|H]; [eauto|]. destruct (IH H) as (x' & Hx & HR'). eauto.
Qed.

Lemma Forall2_In_l {A B} (R : A -> B -> Prop) l r x :
  Forall2 R l r -> In x l -> exists y, In y r /\ R x y.
Proof.
  induction 1 as [|x' y l r HR HF IH]; simpl; [contradiction|].
  intros [->|H]; [eauto|]. destruct (IH H) as (y' & Hy & HR'). eauto.
Qed.

Lemma Forall2_impl_In {A B} (R R' : A -> B -> Prop) l r :
  Forall2 R l r -> (forall x y, In x l -> In y r -> R x y -> R' x y) -> Forall2 R' l r.
Proof.
  induction 1 as [|x y l r HR HF IH]; intros H; constructor.
  - apply H; simpl; auto.
  - apply IH. intros x' y' Hx Hy. apply H; simpl; auto.
Qed.

Lemma Forall2_nth_error {A B} (R : A -> B -> Prop) l r k x :
  Forall2 R l r -> nth_error l k = Some x -> exists y, nth_error r k = Some y /\ R x y.
Proof.
  intros H. revert k. induction H as [|x' y l r HR HF IH]; intros k Hk.
  - destruct k; discriminate.
  - destruct k as [|k]; simpl in *.
    + inversion Hk; subst. eauto.
    + apply IH. exact Hk.
Qed.

Lemma Forall2_map_eq {A B C} (f : A -> C) (g : B -> C) l r :
  Forall2 (fun x y => g y = f x) l r -> map g r = map f l.
Proof. induction 1; simpl; congruence. Qed.

Lemma NoDup_snoc {A} (l : list A) x : NoDup (l ++ [x]) -> NoDup l /\ ~ In x l.
Proof.
  intros H. pose proof (NoDup_remove_1 _ _ _ H) as H1. pose proof (NoDup_remove_2 _ _ _ H) as H2.
  rewrite app_nil_r in *. auto.
Qed.

(* ---------- the tuple order and sorted(set(.)) ------------------------- *)
Definition pair_lt (a b : nat * nat) : Prop := pair_ltb a b = true.

Lemma pair_ltb_spec a b :
  pair_ltb a b = true <-> fst a < fst b \/ (fst a = fst b /\ snd a < snd b).
Proof. unfold pair_ltb. rewrite orb_true_iff, andb_true_iff, !Nat.ltb_lt, Nat.eqb_eq. tauto. Qed.

Lemma pair_ltb_false a b :
  pair_ltb a b = false <-> ~ (fst a < fst b \/ (fst a = fst b /\ snd a < snd b)).
Proof. rewrite <- pair_ltb_spec. destruct (pair_ltb a b); split; intros H; try congruence. Qed.

Lemma pair_lt_trans a b c : pair_lt a b -> pair_lt b c -> pair_lt a c.
Proof. unfold pair_lt. rewrite !pair_ltb_spec. lia. Qed.

Lemma pair_lt_irrefl a : ~ pair_lt a a.
Proof. unfold pair_lt. rewrite pair_ltb_spec. lia. Qed.

Lemma pair_trichotomy p q : pair_ltb p q = false -> pair_eqb p q = false -> pair_lt q p.
Proof.
  intros H1 H2. apply pair_ltb_false in H1. apply pair_eqb_neq in H2. unfold pair_lt.
  apply pair_ltb_spec. destruct p as [p1 p2], q as [q1 q2]. simpl in *.
  assert (p1 <> q1 \/ p2 <> q2).
  { destruct (Nat.eq_dec p1 q1); [|auto]. destruct (Nat.eq_dec p2 q2); [|auto]. subst. congruence. }
  lia.
Qed.

Lemma In_insert_u p q l : In q (insert_u p l) <-> q = p \/ In q l.
Proof.
  induction l as [|x l IH]; simpl.
  - split; intros [H|H]; auto; contradiction.
  - destruct (pair_ltb p x).
    + simpl. split; intros H; intuition auto.
    + destruct (pair_eqb p x) eqn:E.
      * apply pair_eqb_eq in E. subst. simpl. split; intros H; intuition auto.
      * simpl. rewrite IH. split; intros H; intuition auto.
Qed.

Lemma In_sorted_set q l : In q (sorted_set l) <-> In q l.
Proof.
  unfold sorted_set. induction l as [|x l IH]; simpl; [tauto|].
  rewrite In_insert_u, IH. split; intros [H|H]; auto.
Qed.

Lemma insert_u_sorted p l : StronglySorted pair_lt l -> StronglySorted pair_lt (insert_u p l).
Proof.
  induction l as [|a l IH]; intros H; simpl.
  - constructor; constructor.
  - inversion H as [|? ? Hs Hf]; subst. destruct (pair_ltb p a) eqn:E1.
    + constructor; auto. constructor; auto.
      rewrite Forall_forall in *. intros x Hx. apply (pair_lt_trans p a x); auto.
    + destruct (pair_eqb p a) eqn:E2; auto. constructor.
      * apply IH; auto.
      * rewrite Forall_forall in *. intros x Hx. apply In_insert_u in Hx as [->|Hx]; auto.
        apply pair_trichotomy; auto.
Qed.

Lemma sorted_set_sorted l : StronglySorted pair_lt (sorted_set l).
Proof.
  unfold sorted_set. induction l as [|x l IH]; simpl; [constructor|]. apply insert_u_sorted. exact IH.
Qed.

Lemma sorted_NoDup l : StronglySorted pair_lt l -> NoDup l.
Proof.
  induction 1 as [|a l Hs IH Hf]; constructor; auto.
  intros Hin. rewrite Forall_forall in Hf. apply (pair_lt_irrefl a). apply Hf. exact Hin.
Qed.

Lemma sorted_set_NoDup l : NoDup (sorted_set l).
Proof. apply sorted_NoDup. apply sorted_set_sorted. Qed.

(* a strictly increasing list is determined by its elements: "the sorted union" is unique *)
Lemma sorted_unique l1 l2 :
  StronglySorted pair_lt l1 -> StronglySorted pair_lt l2 -> (forall p, In p l1 <-> In p l2) -> l1 = l2.
Proof.
  intros H1. revert l2. induction H1 as [|a l1 Hs1 IH Hf1]; intros l2 H2 Hin.
  - destruct l2 as [|b l2]; auto. exfalso. apply (Hin b). simpl; auto.
  - destruct H2 as [|b l2 Hs2 Hf2].
    + exfalso. apply (Hin a). simpl; auto.
    + rewrite Forall_forall in Hf1, Hf2.
      assert (a = b).
      { destruct (proj1 (Hin a) (or_introl eq_refl)) as [E|Ha]; auto.
        destruct (proj2 (Hin b) (or_introl eq_refl)) as [E|Hb]; auto.
        exfalso. apply (pair_lt_irrefl a). apply (pair_lt_trans a b a); auto. }
      subst b. f_equal. apply IH; auto. intros p. split; intros Hp.
      * destruct (proj1 (Hin p) (or_intror Hp)) as [E|H]; auto. subst p.
        exfalso. apply (pair_lt_irrefl a). apply Hf1. exact Hp.
      * destruct (proj2 (Hin p) (or_intror Hp)) as [E|H]; auto. subst p.
        exfalso. apply (pair_lt_irrefl a). apply Hf2. exact Hp.
Qed.

Section Ops.
  Variable P : Type.
  Notation frame := (frame P).
  Notation entry := (entry P).

  (* ---------- constructor, get_timetrace ------------------------------- *)
  Lemma mk_frame_Some (f g : frame) : mk_frame f = Some g <-> g = f /\ NoDup (keys f).
  Proof.
    unfold mk_frame. destruct (nodupb (keys f)) eqn:E.
    - apply nodupb_NoDup in E. split; [intros H; inversion H; subst; split; auto | intros [-> _]; reflexivity].
    - split; [discriminate|]. intros [_ H]. apply nodupb_NoDup in H. congruence.
  Qed.

  Lemma mk_frame_None (f : frame) : mk_frame f = None <-> ~ NoDup (keys f).
  Proof.
    unfold mk_frame. destruct (nodupb (keys f)) eqn:E.
    - apply nodupb_NoDup in E. split; [discriminate | contradiction].
    - split; auto. intros _ H. apply nodupb_NoDup in H. congruence.
  Qed.

  Lemma filter_key_NoDup (f : frame) (q : entry -> bool) :
    NoDup (keys f) -> NoDup (keys (filter q f)).
  Proof.
    unfold keys. induction f as [|e f IH]; simpl; intros H; auto.
    inversion H as [|? ? Hn Hd]; subst. destruct (q e); simpl; auto. constructor; auto.
    intros Hin. apply Hn. apply in_map_iff in Hin as (x & Ex & Hx). apply filter_In in Hx as [Hx _].
    apply in_map_iff. eauto.
  Qed.

  Lemma get_timetrace_spec (f : frame) t r p :
    NoDup (keys f) -> (get_timetrace f t r = Some p <-> In (t, r, p) f).
  Proof.
    unfold get_timetrace. induction f as [|e f IH]; simpl; intros Hn.
    - split; [discriminate | contradiction].
    - unfold keys in Hn. simpl in Hn. inversion Hn as [|? ? Hna Hnd]; subst.
      assert (Hnone : forall k, ~ In k (map key f) -> filter (fun e0 : entry => pair_eqb (key e0) k) f = []).
      { clear. intros k. induction f as [|x f IH]; simpl; auto. intros H.
        destruct (pair_eqb (key x) k) eqn:E.
        - apply pair_eqb_eq in E. exfalso. apply H. auto.
        - apply IH. intros H1. apply H. auto. }
      destruct (pair_eqb (key e) (t, r)) eqn:E.
      + apply pair_eqb_eq in E. rewrite Hnone by (rewrite <- E; exact Hna). split.
        * intros H. inversion H; subst. left. destruct e as [k p']. unfold key, payload in *. simpl in *. congruence.
        * intros [H|H].
          -- subst e. reflexivity.
          -- exfalso. apply Hna. rewrite E. apply in_map_iff. exists (t, r, p). auto.
      + rewrite (IH Hnd). apply pair_eqb_neq in E. split; auto. intros [H|H]; auto.
        subst e. exfalso. apply E. reflexivity.
  Qed.

  (* ---------- is_complete ------------------------------------------------ *)
  Lemma is_complete_spec (f : frame) :
    is_complete f = true <-> (forall k, In k (keys f) <-> In (swap k) (keys f)).
  Proof.
    unfold is_complete. rewrite set_eqb_spec. split; intros H k; specialize (H k).
    - rewrite in_map_swap in H. exact H.
    - rewrite in_map_swap. exact H.
  Qed.

  (* ---------- the dict of expand ------------------------------------------ *)
  Lemma lookup_last_snoc (f : frame) e k :
    lookup_last (f ++ [e]) k = if pair_eqb (key e) k then Some (payload e) else lookup_last f k.
  Proof. unfold lookup_last. rewrite fold_left_app. reflexivity. Qed.

  Lemma lookup_last_In (f : frame) k p : lookup_last f k = Some p -> In (k, p) f.
  Proof.
    induction f as [|x f IH] using rev_ind.
    - discriminate.
    - rewrite lookup_last_snoc. destruct (pair_eqb (key x) k) eqn:E.
      + intros H. inversion H; subst. apply pair_eqb_eq in E. apply in_or_app. right. left.
        destruct x as [k' p']. unfold key, payload in *. simpl in *. subst. reflexivity.
      + intros H. apply in_or_app. left. auto.
  Qed.

  Lemma lookup_last_None (f : frame) k : lookup_last f k = None <-> ~ In k (keys f).
  Proof.
    induction f as [|x f IH] using rev_ind.
    - simpl. split; auto.
    - rewrite lookup_last_snoc. unfold keys in *. rewrite map_app, in_app_iff. simpl.
      destruct (pair_eqb (key x) k) eqn:E.
      + apply pair_eqb_eq in E. split; [discriminate|]. intros H. exfalso. apply H. right. left. auto.
      + apply pair_eqb_neq in E. rewrite IH. split; intros H.
        * intros [H1|[H1|[]]]; auto.
        * intros H1. apply H. auto.
  Qed.

  Lemma lookup_last_NoDup (f : frame) k p : NoDup (keys f) -> In (k, p) f -> lookup_last f k = Some p.
  Proof.
    induction f as [|x f IH] using rev_ind; [contradiction|]. intros Hn Hin.
    unfold keys in Hn. rewrite map_app in Hn. simpl in Hn. apply NoDup_snoc in Hn as [Hn1 Hn2].
    rewrite lookup_last_snoc. apply in_app_or in Hin. destruct Hin as [Hin|[Hin|[]]].
    - destruct (pair_eqb (key x) k) eqn:E.
      + apply pair_eqb_eq in E. exfalso. apply Hn2. rewrite E. apply in_map_iff. exists (k, p). auto.
      + apply IH; auto.
    - subst x. unfold key, payload. simpl. rewrite pair_eqb_refl. reflexivity.
  Qed.

  (* ---------- expand_frame_assuming_reciprocity ---------------------------- *)
  Definition union_keys (f : frame) : list (nat * nat) := keys f ++ map swap (keys f).

  Lemma In_union_keys (f : frame) k : In k (union_keys f) <-> In k (keys f) \/ In (swap k) (keys f).
  Proof. unfold union_keys. rewrite in_app_iff, in_map_swap. tauto. Qed.

  Lemma expand_entry_key (f : frame) k e : expand_entry f k = Some e -> key e = k.
  Proof.
    unfold expand_entry. destruct (lookup_last f k); [intros H; inversion H; reflexivity|].
    destruct (lookup_last f (swap k)); intros H; inversion H; reflexivity.
  Qed.

  (* the data of the new row (a, b) is a recorded row (a, b); only if there is none,
     a recorded row (b, a) *)
  Lemma expand_entry_src (f : frame) k e : expand_entry f k = Some e ->
    In (k, payload e) f \/ (~ In k (keys f) /\ In (swap k, payload e) f).
  Proof.
    unfold expand_entry. destruct (lookup_last f k) as [p|] eqn:E1.
    - intros H. inversion H; subst. left. apply lookup_last_In. exact E1.
    - destruct (lookup_last f (swap k)) as [p|] eqn:E2; intros H; inversion H; subst.
      right. split; [apply lookup_last_None; exact E1 | apply lookup_last_In; exact E2].
  Qed.

  Lemma expand_entry_total (f : frame) k :
    In k (keys f) \/ In (swap k) (keys f) -> exists e, expand_entry f k = Some e.
  Proof.
    intros H. unfold expand_entry. destruct (lookup_last f k) eqn:E1; eauto.
    destruct (lookup_last f (swap k)) eqn:E2; eauto.
    apply lookup_last_None in E1. apply lookup_last_None in E2. tauto.
  Qed.

  Lemma expand_when_complete (f : frame) : is_complete f = true -> expand f = Some f.
  Proof. intros H. unfold expand. rewrite H. reflexivity. Qed.

  Lemma expand_when_incomplete (f : frame) : is_complete f = false ->
    exists g, expand f = Some g /\ keys g = sorted_set (union_keys f) /\
      (forall e, In e g -> In (key e, payload e) f \/
                           (~ In (key e) (keys f) /\ In (swap (key e), payload e) f)).
  Proof.
    intros Hc. unfold expand. rewrite Hc. fold (union_keys f).
    destruct (mapM_total (expand_entry f) (sorted_set (union_keys f))) as [r Hr].
    { intros k Hk. apply expand_entry_total. apply In_union_keys. apply In_sorted_set. exact Hk. }
    rewrite Hr. apply mapM_Forall2 in Hr.
    assert (Hk : keys r = sorted_set (union_keys f)).
    { unfold keys. rewrite <- (map_id (sorted_set (union_keys f))). apply Forall2_map_eq.
      eapply Forall2_impl_In; [exact Hr|]. intros k e _ _ H. apply expand_entry_key in H. exact H. }
    exists r. split; [|split; auto].
    - apply mk_frame_Some. split; auto. rewrite Hk. apply sorted_set_NoDup.
    - intros e He. destruct (Forall2_In_r _ _ _ _ Hr He) as (k & _ & Hke).
      pose proof (expand_entry_key _ _ _ Hke) as E. rewrite E. apply expand_entry_src. exact Hke.
  Qed.

  Lemma expand_total (f : frame) : exists g, expand f = Some g.
  Proof.
    destruct (is_complete f) eqn:E.
    - exists f. apply expand_when_complete. exact E.
    - destruct (expand_when_incomplete f E) as (g & H & _). eauto.
  Qed.

  Lemma expand_keys (f g : frame) : expand f = Some g ->
    forall k, In k (keys g) <-> In k (keys f) \/ In (swap k) (keys f).
  Proof.
    intros H k. destruct (is_complete f) eqn:E.
    - rewrite expand_when_complete in H by exact E. inversion H; subst.
      rewrite is_complete_spec in E. rewrite <- E. tauto.
    - destruct (expand_when_incomplete f E) as (g' & H' & Hk & _). rewrite H in H'. inversion H'; subst g'.
      rewrite Hk, In_sorted_set. apply In_union_keys.
  Qed.

  Lemma expand_src (f g : frame) : expand f = Some g ->
    forall e, In e g -> In (key e, payload e) f \/ (~ In (key e) (keys f) /\ In (swap (key e), payload e) f).
  Proof.
    intros H e He. destruct (is_complete f) eqn:E.
    - rewrite expand_when_complete in H by exact E. inversion H; subst. left.
      destruct e as [k p]. exact He.
    - destruct (expand_when_incomplete f E) as (g' & H' & _ & Hs). rewrite H in H'. inversion H'; subst g'.
      apply Hs. exact He.
  Qed.

  Lemma expand_NoDup (f g : frame) : NoDup (keys f) -> expand f = Some g -> NoDup (keys g).
  Proof.
    intros Hn H. destruct (is_complete f) eqn:E.
    - rewrite expand_when_complete in H by exact E. inversion H; subst. exact Hn.
    - destruct (expand_when_incomplete f E) as (g' & H' & Hk & _). rewrite H in H'. inversion H'; subst g'.
      rewrite Hk. apply sorted_set_NoDup.
  Qed.

  Lemma expand_is_complete (f g : frame) : expand f = Some g -> is_complete g = true.
  Proof.
    intros H. apply is_complete_spec. intros k.
    rewrite !(expand_keys f g H), swap_swap. tauto.
  Qed.

  Lemma expand_idem (f g : frame) : expand f = Some g -> expand g = Some g.
  Proof. intros H. apply expand_when_complete. apply (expand_is_complete f g H). Qed.

  (* everything about expand in one statement *)
  Lemma expand_full_spec (f : frame) : NoDup (keys f) ->
    exists g, expand f = Some g /\
      NoDup (keys g) /\
      (forall k, In k (keys g) <-> In k (keys f) \/ In (swap k) (keys f)) /\
      (is_complete f = true -> g = f) /\
      (is_complete f = false -> StronglySorted pair_lt (keys g)) /\
      (forall k p, In (k, p) g -> In (k, p) f \/ (~ In k (keys f) /\ In (swap k, p) f)).
  Proof.
    intros Hn. destruct (expand_total f) as [g Hg]. exists g. split; auto.
    split; [eapply expand_NoDup; eauto|]. split; [apply expand_keys; exact Hg|].
    split; [|split].
    - intros E. rewrite expand_when_complete in Hg by exact E. congruence.
    - intros E. destruct (expand_when_incomplete f E) as (g' & H' & Hk & _). rewrite Hg in H'.
      inversion H'; subst g'. rewrite Hk. apply sorted_set_sorted.
    - intros k p Hin. apply (expand_src f g Hg (k, p) Hin).
  Qed.

  (* ---------- subframe ----------------------------------------------------- *)
  Lemma subframe_spec (f g : frame) idx :
    subframe f idx = Some g <->
    Forall2 (fun i e => nth_error f i = Some e) idx g /\ NoDup (keys g).
  Proof.
    unfold subframe. destruct (mapM (nth_error f) idx) as [r|] eqn:E.
    - apply mapM_Forall2 in E. rewrite mk_frame_Some. split.
      + intros [-> H]. auto.
      + intros [H1 H2]. apply mapM_Forall2 in H1. apply mapM_Forall2 in E.
        assert (g = r) by congruence. subst. auto.
    - split; [discriminate|]. intros [H _]. apply mapM_Forall2 in H. congruence.
  Qed.

  Lemma subframe_In (f g : frame) idx e : subframe f idx = Some g -> In e g -> In e f.
  Proof.
    intros H He. apply subframe_spec in H as [H _].
    destruct (Forall2_In_r _ _ _ _ H He) as (i & _ & Hi). apply nth_error_In in Hi. exact Hi.
  Qed.

  (* ---------- the mapper array ---------------------------------------------- *)
  Lemma set_nth_length m i v : length (set_nth m i v) = length m.
  Proof. revert i. induction m as [|x m IH]; intros [|i]; simpl; auto. Qed.

  Lemma nth_error_set_nth_eq m i v : i < length m -> nth_error (set_nth m i v) i = Some v.
  Proof. revert i. induction m as [|x m IH]; intros [|i]; simpl; intros H; try lia; auto. apply IH. lia. Qed.

  Lemma nth_error_set_nth_neq m i j v : i <> j -> nth_error (set_nth m i v) j = nth_error m j.
  Proof.
    revert i j. induction m as [|x m IH]; intros [|i] [|j] H; simpl; auto; try congruence.
  Qed.

  Lemma mapper_snoc numel E x : mapper numel (E ++ [x]) = set_nth (mapper numel E) x (length E).
  Proof.
    unfold mapper. rewrite app_length. simpl length. rewrite Nat.add_1_r, seq_S.
    rewrite fr_combine_app by apply seq_length. rewrite fold_left_app. reflexivity.
  Qed.

  Lemma mapper_length numel E : length (mapper numel E) = numel.
  Proof.
    induction E as [|x E IH] using rev_ind.
    - unfold mapper. simpl. apply repeat_length.
    - rewrite mapper_snoc, set_nth_length. exact IH.
  Qed.

  (* E[mapper[e]] = e for every retained element (also when E has repeated entries) *)
  Lemma mapper_spec numel E e : In e E -> e < numel ->
    exists k, nth_error (mapper numel E) e = Some k /\ nth_error E k = Some e.
  Proof.
    induction E as [|x E IH] using rev_ind; [contradiction|]. intros Hin He.
    rewrite mapper_snoc. destruct (Nat.eq_dec x e) as [->|Hne].
    - exists (length E). split.
      + apply nth_error_set_nth_eq. rewrite mapper_length. exact He.
      + rewrite nth_error_app2 by lia. rewrite Nat.sub_diag. reflexivity.
    - apply in_app_or in Hin as [Hin|[Hin|[]]]; [|congruence].
      destruct (IH Hin He) as (k & H1 & H2). exists k. split.
      + rewrite nth_error_set_nth_neq by exact Hne. exact H1.
      + rewrite nth_error_app1; auto. apply nth_error_Some. congruence.
  Qed.

  Lemma isin_In x E : isin x E = true <-> In x E.
  Proof.
    unfold isin. rewrite existsb_exists. split.
    - intros (y & Hy & E'). apply Nat.eqb_eq in E'. subst. exact Hy.
    - intros H. exists x. split; auto. apply Nat.eqb_refl.
  Qed.

  Lemma retained_spec E (e : entry) :
    retained E e = true <-> In (fst (key e)) E /\ In (snd (key e)) E.
  Proof. unfold retained. rewrite andb_true_iff, !isin_In. tauto. Qed.

  (* ---------- subframe_from_probe_elements, Probe.subprobe ------------------ *)
  Section WithProbe.
    Variable L : Type.
    Notation probe := (list L).

    Lemma subprobe_spec (pr sp : probe) E :
      subprobe pr E = Some sp <-> Forall2 (fun e x => nth_error pr e = Some x) E sp.
    Proof. unfold subprobe. apply mapM_Forall2. Qed.

    (* new element k of the sub-probe is the old element E[k] *)
    Lemma subprobe_nth (pr sp : probe) E k e :
      subprobe pr E = Some sp -> nth_error E k = Some e ->
      nth_error sp k = nth_error pr e /\ nth_error sp k <> None.
    Proof.
      intros H Hk. apply subprobe_spec in H.
      destruct (Forall2_nth_error _ _ _ _ _ H Hk) as (y & Hy & HR). rewrite Hy, HR. split; congruence.
    Qed.

    Definition renumbered (E : list nat) (e e' : entry) : Prop :=
      payload e' = payload e /\
      nth_error E (fst (key e')) = Some (fst (key e)) /\
      nth_error E (snd (key e')) = Some (snd (key e)).

    Lemma sub_elements_noprobe (pr pr' : probe) (f g : frame) E :
      subframe_from_probe_elements pr f E false = Some (pr', g) ->
      pr' = pr /\ g = filter (retained E) f /\ NoDup (keys g).
    Proof.
      unfold subframe_from_probe_elements. destruct (forallb _ E); [|discriminate].
      destruct (mk_frame (filter (retained E) f)) as [g'|] eqn:Em; simpl; [|discriminate].
      intros H. inversion H; subst. apply mk_frame_Some in Em as [-> Hn]. auto.
    Qed.

    Lemma sub_elements_subprobe (pr sp : probe) (f g : frame) E :
      subframe_from_probe_elements pr f E true = Some (sp, g) ->
      subprobe pr E = Some sp /\
      Forall2 (renumbered E) (filter (retained E) f) g /\ NoDup (keys g).
    Proof.
      unfold subframe_from_probe_elements. destruct (forallb _ E) eqn:Eb; [|discriminate].
      destruct (subprobe pr E) as [sp'|] eqn:Es; [|discriminate].
      destruct (mapM (remap (mapper (length pr) E)) (filter (retained E) f)) as [g0|] eqn:Em; [|discriminate].
      destruct (mk_frame g0) as [g'|] eqn:Ek; simpl; [|discriminate].
      intros H. inversion H; subst. apply mk_frame_Some in Ek as [-> Hn].
      split; auto. split; auto.
      apply mapM_Forall2 in Em. eapply Forall2_impl_In; [exact Em|].
      intros e e' He _ Hr. apply filter_In in He as [_ He]. apply retained_spec in He as [Ht Hrx].
      rewrite forallb_forall in Eb.
      assert (Ht' : fst (key e) < length pr) by (apply Nat.ltb_lt; apply Eb; exact Ht).
      assert (Hr' : snd (key e) < length pr) by (apply Nat.ltb_lt; apply Eb; exact Hrx).
      destruct (mapper_spec (length pr) E _ Ht Ht') as (a & Ha1 & Ha2).
      destruct (mapper_spec (length pr) E _ Hrx Hr') as (b & Hb1 & Hb2).
      unfold remap in Hr. rewrite Ha1, Hb1 in Hr. inversion Hr; subst.
      unfold renumbered, key, payload. simpl. auto.
    Qed.

    (* with a sub-probe: the kept rows are the retained ones, in order, with their data, and
       each new index designates an element with the attributes (location ...) of the old one *)
    Lemma sub_elements_locations (pr sp : probe) (f g : frame) E :
      subframe_from_probe_elements pr f E true = Some (sp, g) ->
      Forall2 (fun e e' => payload e' = payload e /\
                 nth_error sp (fst (key e')) = nth_error pr (fst (key e)) /\
                 nth_error sp (snd (key e')) = nth_error pr (snd (key e)) /\
                 nth_error sp (fst (key e')) <> None /\ nth_error sp (snd (key e')) <> None)
              (filter (retained E) f) g.
    Proof.
      intros H. apply sub_elements_subprobe in H as (Hsp & Hg & _).
      eapply Forall2_impl_In; [exact Hg|]. intros e e' _ _ (Hp & Ht & Hr).
      destruct (subprobe_nth _ _ _ _ _ Hsp Ht) as [Ea Na].
      destruct (subprobe_nth _ _ _ _ _ Hsp Hr) as [Eb Nb]. auto.
    Qed.

    (* no spurious error: valid elements and a duplicate-free frame always give a result *)
    Lemma sub_elements_total (pr : probe) (f : frame) E mk :
      (forall e, In e E -> e < length pr) -> NoDup (keys f) ->
      exists s, subframe_from_probe_elements pr f E mk = Some s.
    Proof.
      intros HE Hn. unfold subframe_from_probe_elements.
      replace (forallb (fun e => e <? length pr) E) with true
        by (symmetry; apply forallb_forall; intros e He; apply Nat.ltb_lt; auto).
      pose proof (filter_key_NoDup f (retained E) Hn) as Hnk.
      destruct mk.
      - destruct (mapM_total (nth_error pr) E) as [sp Hsp].
        { intros e He. destruct (nth_error pr e) eqn:E1; eauto. apply nth_error_None in E1. specialize (HE e He). lia. }
        unfold subprobe. rewrite Hsp.
        destruct (mapM_total (remap (mapper (length pr) E)) (filter (retained E) f)) as [g0 Hg0].
        { intros e He. apply filter_In in He as [_ He]. apply retained_spec in He as [Ht Hr].
          destruct (mapper_spec (length pr) E _ Ht (HE _ Ht)) as (a & Ha & _).
          destruct (mapper_spec (length pr) E _ Hr (HE _ Hr)) as (b & Hb & _).
          unfold remap. rewrite Ha, Hb. eauto. }
        rewrite Hg0.
        assert (Hnd : NoDup (keys g0)).
        { apply mapM_Forall2 in Hg0.
          apply (NoDup_map_inv (fun k => (nth (fst k) E 0, nth (snd k) E 0))).
          replace (map (fun k => (nth (fst k) E 0, nth (snd k) E 0)) (keys g0)) with (keys (filter (retained E) f)); auto.
          unfold keys. rewrite map_map. symmetry. apply Forall2_map_eq.
          eapply Forall2_impl_In; [exact Hg0|]. intros e e' He _ Hr.
          apply filter_In in He as [_ He]. apply retained_spec in He as [Ht Hrx].
          destruct (mapper_spec (length pr) E _ Ht (HE _ Ht)) as (a & Ha1 & Ha2).
          destruct (mapper_spec (length pr) E _ Hrx (HE _ Hrx)) as (b & Hb1 & Hb2).
          unfold remap in Hr. rewrite Ha1, Hb1 in Hr. inversion Hr; subst. unfold key. simpl.
          rewrite (nth_error_nth _ _ 0 Ha2), (nth_error_nth _ _ 0 Hb2). destruct e as [[t r] p]. reflexivity. }
        apply nodupb_NoDup in Hnd. unfold mk_frame. rewrite Hnd. simpl. eauto.
      - apply nodupb_NoDup in Hnk. unfold mk_frame. rewrite Hnk. simpl. eauto.
    Qed.

    (* ---------- chains: the attribution invariant --------------------------- *)
    Variable rec : P -> L * L.     (* the physical (tx, rx) elements a row was recorded with *)

    Definition attributed (s : state P L) : Prop :=
      forall t r p, In (t, r, p) (snd s) ->
        exists lt lr, nth_error (fst s) t = Some lt /\ nth_error (fst s) r = Some lr /\ rec p = (lt, lr).

    (* after an expansion by reciprocity a row may carry the data of the mirrored pair *)
    Definition attributed_sym (s : state P L) : Prop :=
      forall t r p, In (t, r, p) (snd s) ->
        exists lt lr, nth_error (fst s) t = Some lt /\ nth_error (fst s) r = Some lr /\
                      (rec p = (lt, lr) \/ rec p = (lr, lt)).

    Definition filter_ok (o : op P) : Prop :=
      match o with OpFilter g => forall p, rec (g p) = rec p | _ => True end.

    Definition not_expand (o : op P) : Prop := match o with OpExpand => False | _ => True end.

    Lemma attributed_weaken s : attributed s -> attributed_sym s.
    Proof. intros H t r p Hin. destruct (H t r p Hin) as (lt & lr & H1 & H2 & H3). exists lt, lr. auto. Qed.

    Lemma step_elements_inv (Q : L -> L -> P -> Prop) (s s' : state P L) E mk :
      (forall t r p, In (t, r, p) (snd s) ->
         exists lt lr, nth_error (fst s) t = Some lt /\ nth_error (fst s) r = Some lr /\ Q lt lr p) ->
      subframe_from_probe_elements (fst s) (snd s) E mk = Some s' ->
      (forall t r p, In (t, r, p) (snd s') ->
         exists lt lr, nth_error (fst s') t = Some lt /\ nth_error (fst s') r = Some lr /\ Q lt lr p).
    Proof.
      intros Hs Hstep. destruct s as [pr f], s' as [pr' g]. simpl in *. destruct mk.
      - apply sub_elements_subprobe in Hstep as (Hsp & Hg & _).
        intros t r p Hin. destruct (Forall2_In_r _ _ _ _ Hg Hin) as (e & He & Hp & Ht & Hr).
        apply filter_In in He as [He _]. destruct e as [[t0 r0] p0]. unfold key, payload in *. simpl in *. subst p.
        destruct (Hs t0 r0 p0 He) as (lt & lr & H1 & H2 & H3).
        destruct (subprobe_nth _ _ _ _ _ Hsp Ht) as [Ea _].
        destruct (subprobe_nth _ _ _ _ _ Hsp Hr) as [Eb _].
        exists lt, lr. rewrite Ea, Eb. auto.
      - apply sub_elements_noprobe in Hstep as (-> & -> & _).
        intros t r p Hin. apply filter_In in Hin as [Hin _]. apply Hs. exact Hin.
    Qed.

    Lemma step_preserves_sym o s s' :
      filter_ok o -> attributed_sym s -> step o s = Some s' -> attributed_sym s'.
    Proof.
      intros Hok Hs Hstep. destruct o as [idx|E mk| |g]; simpl in Hstep.
      - destruct (subframe (snd s) idx) as [g|] eqn:Eg; [|discriminate]. inversion Hstep; subst. simpl.
        intros t r p Hin. simpl in *. apply Hs. eapply subframe_In; eauto.
      - unfold attributed_sym.
        apply (step_elements_inv (fun lt lr p => rec p = (lt, lr) \/ rec p = (lr, lt)) s s' E mk); auto.
      - destruct (expand (snd s)) as [g|] eqn:Eg; [|discriminate]. inversion Hstep; subst. simpl.
        intros t r p Hin. simpl in *.
        destruct (expand_src _ _ Eg _ Hin) as [H|[_ H]]; unfold key, payload, swap in H; simpl in H.
        + apply Hs. exact H.
        + destruct (Hs r t p H) as (lt & lr & H1 & H2 & H3). exists lr, lt. tauto.
      - unfold apply_filter in Hstep.
        destruct (mk_frame (map (fun e => (key e, g (payload e))) (snd s))) as [f'|] eqn:Ef; [|discriminate].
        inversion Hstep; subst. apply mk_frame_Some in Ef as [-> _]. simpl.
        intros t r p Hin. simpl in *. apply in_map_iff in Hin as ([[t0 r0] p0] & E & Hin).
        unfold key, payload in E. simpl in E. inversion E; subst.
        destruct (Hs t r p0 Hin) as (lt & lr & H1 & H2 & H3). exists lt, lr. rewrite Hok. auto.
    Qed.

    Lemma step_preserves o s s' :
      filter_ok o -> not_expand o -> attributed s -> step o s = Some s' -> attributed s'.
    Proof.
      intros Hok Hne Hs Hstep. destruct o as [idx|E mk| |g]; simpl in Hstep.
      - destruct (subframe (snd s) idx) as [g|] eqn:Eg; [|discriminate]. inversion Hstep; subst. simpl.
        intros t r p Hin. simpl in *. apply Hs. eapply subframe_In; eauto.
      - unfold attributed.
        apply (step_elements_inv (fun lt lr p => rec p = (lt, lr)) s s' E mk); auto.
      - contradiction.
      - unfold apply_filter in Hstep.
        destruct (mk_frame (map (fun e => (key e, g (payload e))) (snd s))) as [f'|] eqn:Ef; [|discriminate].
        inversion Hstep; subst. apply mk_frame_Some in Ef as [-> _]. simpl.
        intros t r p Hin. simpl in *. apply in_map_iff in Hin as ([[t0 r0] p0] & E & Hin).
        unfold key, payload in E. simpl in E. inversion E; subst.
        destruct (Hs t r p0 Hin) as (lt & lr & H1 & H2 & H3). exists lt, lr. rewrite Hok. auto.
    Qed.

    Lemma run_preserves_sym ops s s' :
      Forall filter_ok ops -> attributed_sym s -> run ops s = Some s' -> attributed_sym s'.
    Proof.
      revert s. induction ops as [|o ops IH]; intros s Hok Hs Hrun; simpl in Hrun.
      - inversion Hrun; subst. exact Hs.
      - inversion Hok; subst. destruct (step o s) as [s1|] eqn:E; [|discriminate].
        apply (IH s1); auto. eapply step_preserves_sym; eauto.
    Qed.

    Lemma run_preserves ops s s' :
      Forall filter_ok ops -> Forall not_expand ops -> attributed s -> run ops s = Some s' -> attributed s'.
    Proof.
      revert s. induction ops as [|o ops IH]; intros s Hok Hne Hs Hrun; simpl in Hrun.
      - inversion Hrun; subst. exact Hs.
      - inversion Hok; inversion Hne; subst. destruct (step o s) as [s1|] eqn:E; [|discriminate].
        apply (IH s1); auto. eapply step_preserves; eauto.
    Qed.

    (* nothing is invented: every row of the result carries the record of a row of the input *)
    Lemma step_provenance o (s s' : state P L) : filter_ok o -> step o s = Some s' ->
      forall t r p, In (t, r, p) (snd s') -> exists t0 r0 p0, In (t0, r0, p0) (snd s) /\ rec p = rec p0.
    Proof.
      intros Hok Hstep t r p Hin. destruct o as [idx|E mk| |g]; simpl in Hstep.
      - destruct (subframe (snd s) idx) as [g|] eqn:Eg; [|discriminate]. inversion Hstep; subst. simpl in *.
        exists t, r, p. split; auto. eapply subframe_In; eauto.
      - destruct s as [pr f], s' as [pr' g]. simpl in *. destruct mk.
        + apply sub_elements_subprobe in Hstep as (_ & Hg & _).
          destruct (Forall2_In_r _ _ _ _ Hg Hin) as (e & He & Hp & _).
          apply filter_In in He as [He _]. destruct e as [[t0 r0] p0]. unfold payload in Hp. simpl in Hp. subst.
          exists t0, r0, p0. auto.
        + apply sub_elements_noprobe in Hstep as (_ & -> & _). apply filter_In in Hin as [Hin _].
          exists t, r, p. auto.
      - destruct (expand (snd s)) as [g|] eqn:Eg; [|discriminate]. inversion Hstep; subst. simpl in *.
        destruct (expand_src _ _ Eg _ Hin) as [H|[_ H]]; unfold key, payload, swap in H; simpl in H.
        + exists t, r, p. auto.
        + exists r, t, p. auto.
      - unfold apply_filter in Hstep.
        destruct (mk_frame (map (fun e => (key e, g (payload e))) (snd s))) as [f'|] eqn:Ef; [|discriminate].
        inversion Hstep; subst. apply mk_frame_Some in Ef as [-> _]. simpl in *.
        apply in_map_iff in Hin as ([[t0 r0] p0] & E & Hin).
        unfold key, payload in E. simpl in E. inversion E; subst. exists t, r, p0. split; auto.
    Qed.

    Lemma run_provenance ops (s s' : state P L) : Forall filter_ok ops -> run ops s = Some s' ->
      forall t r p, In (t, r, p) (snd s') -> exists t0 r0 p0, In (t0, r0, p0) (snd s) /\ rec p = rec p0.
    Proof.
      revert s. induction ops as [|o ops IH]; intros s Hok Hrun t r p Hin; simpl in Hrun.
      - inversion Hrun; subst. exists t, r, p. auto.
      - inversion Hok; subst. destruct (step o s) as [s1|] eqn:E; [|discriminate].
        destruct (IH s1 H2 Hrun t r p Hin) as (t1 & r1 & p1 & Hin1 & E1).
        destruct (step_provenance o s s1 H1 E t1 r1 p1 Hin1) as (t0 & r0 & p0 & Hin0 & E0).
        exists t0, r0, p0. split; auto. congruence.
    Qed.
  End WithProbe.
End Ops.

(* ---------- the statements of Props/C15.v, assembled ---------------------- *)
Lemma sub_elements_full : forall P L (pr : list L) (f : frame P) (E : list nat),
  (forall e : entry P, retained E e = true <-> In (fst (key e)) E /\ In (snd (key e)) E) /\
  (forall sp g, subframe_from_probe_elements pr f E true = Some (sp, g) ->
     subprobe pr E = Some sp /\
     Forall2 (fun e x => nth_error pr e = Some x) E sp /\
     Forall2 (renumbered P E) (filter (retained E) f) g /\
     Forall2 (fun e e' => payload e' = payload e /\
                nth_error sp (fst (key e')) = nth_error pr (fst (key e)) /\
                nth_error sp (snd (key e')) = nth_error pr (snd (key e)) /\
                nth_error sp (fst (key e')) <> None /\ nth_error sp (snd (key e')) <> None)
             (filter (retained E) f) g /\
     NoDup (keys g)) /\
  (forall pr' g, subframe_from_probe_elements pr f E false = Some (pr', g) ->
     pr' = pr /\ g = filter (retained E) f /\ NoDup (keys g)) /\
  ((forall e, In e E -> e < length pr) -> NoDup (keys f) ->
     forall mk, exists s, subframe_from_probe_elements pr f E mk = Some s).
Proof.
  intros P L pr f E.
  exact (conj (retained_spec P E)
        (conj (fun sp g H =>
                 match sub_elements_subprobe P L pr sp f g E H with
                 | conj Hs (conj Hg Hn) =>
                     conj Hs (conj (proj1 (subprobe_spec L pr sp E) Hs)
                       (conj Hg (conj (sub_elements_locations P L pr sp f g E H) Hn)))
                 end)
        (conj (fun pr' g H => sub_elements_noprobe P L pr pr' f g E H)
              (fun HE Hn mk => sub_elements_total P L pr f E mk HE Hn)))).
Qed.

Lemma chain_full : forall P L (rec : P -> L * L) (ops : list (op P)) (s s' : state P L),
  Forall (filter_ok P L rec) ops -> run ops s = Some s' ->
  (attributed_sym P L rec s -> attributed_sym P L rec s') /\
  (Forall (not_expand P) ops -> attributed P L rec s -> attributed P L rec s') /\
  (forall t r p, In (t, r, p) (snd s') -> exists t0 r0 p0, In (t0, r0, p0) (snd s) /\ rec p = rec p0).
Proof.
  intros P L rec ops s s' Hok Hrun.
  exact (conj (fun Hs => run_preserves_sym P L rec ops s s' Hok Hs Hrun)
        (conj (fun Hne Hs => run_preserves P L rec ops s s' Hok Hne Hs Hrun)
              (run_provenance P L rec ops s s' Hok Hrun))).
Qed.

(* ---------- odds and ends ---------------------------------------------------- *)
Lemma hmc_unordered_once n a b : a < n -> b < n ->
  (In (a, b) (hmc n) \/ In (b, a) (hmc n)) /\ (a <> b -> ~ (In (a, b) (hmc n) /\ In (b, a) (hmc n))).
Proof. intros Ha Hb. rewrite !hmc_In. lia. Qed.

(* the last state listed by `trace` is the result of `run` *)
Lemma trace_last P L (ops : list (op P)) (s s' : state P L) :
  ops <> [] -> run ops s = Some s' -> last (trace ops s) None = Some s'.
Proof.
  revert s. induction ops as [|o ops IH]; intros s Hne Hrun; [congruence|].
  simpl in *. destruct (step o s) as [s1|] eqn:E; [|discriminate].
  destruct ops as [|o' ops'].
  - simpl in *. congruence.
  - specialize (IH s1 ltac:(discriminate) Hrun).
    remember (trace (o' :: ops') s1) as tr. destruct tr as [|x tr].
    + simpl in Heqtr. destruct (step o' s1); discriminate.
    + exact IH.
Qed.

From Coq Require Import ZArith.
(* integers of an integer-list index: i and i + n (for negative i) designate the same
   position; anything outside [-n, n) raises *)
Lemma resolve_index_spec n i k : resolve_index n i = Some k ->
  k < n /\ ((0 <= i)%Z /\ Z.of_nat k = i \/ (i < 0)%Z /\ Z.of_nat k = (i + Z.of_nat n)%Z).
Proof.
  unfold resolve_index. destruct (i <? 0)%Z eqn:E.
  - apply Z.ltb_lt in E.
    destruct ((0 <=? i + Z.of_nat n)%Z && (i + Z.of_nat n <? Z.of_nat n)%Z) eqn:E2; [|discriminate].
    apply andb_true_iff in E2 as [A B]. apply Z.leb_le in A. apply Z.ltb_lt in B.
    intros H. inversion H; subst. split; [lia|]. right. split; auto. rewrite Z2Nat.id; lia.
  - apply Z.ltb_ge in E.
    destruct ((0 <=? i)%Z && (i <? Z.of_nat n)%Z) eqn:E2; [|discriminate].
    apply andb_true_iff in E2 as [A B]. apply Z.leb_le in A. apply Z.ltb_lt in B.
    intros H. inversion H; subst. split; [lia|]. left. split; auto. rewrite Z2Nat.id; lia.
Qed.

Lemma resolve_index_None n i : resolve_index n i = None <-> (i < - Z.of_nat n \/ Z.of_nat n <= i)%Z.
Proof.
  unfold resolve_index. destruct (i <? 0)%Z eqn:E.
  - apply Z.ltb_lt in E.
    destruct ((0 <=? i + Z.of_nat n)%Z && (i + Z.of_nat n <? Z.of_nat n)%Z) eqn:E2.
    + apply andb_true_iff in E2 as [A B]. apply Z.leb_le in A. apply Z.ltb_lt in B. split; [discriminate|lia].
    + apply andb_false_iff in E2 as [A|B]; [apply Z.leb_gt in A | apply Z.ltb_ge in B]; split; auto; lia.
  - apply Z.ltb_ge in E.
    destruct ((0 <=? i)%Z && (i <? Z.of_nat n)%Z) eqn:E2.
    + apply andb_true_iff in E2 as [A B]. apply Z.leb_le in A. apply Z.ltb_lt in B. split; [discriminate|lia].
    + apply andb_false_iff in E2 as [A|B]; [apply Z.leb_gt in A | apply Z.ltb_ge in B]; split; auto; lia.
Qed.

(* a duplicate-free frame is a function from pairs to data *)
Lemma keys_functional P (f : frame P) k p p' :
  NoDup (keys f) -> In (k, p) f -> In (k, p') f -> p = p'.
Proof.
  unfold keys. induction f as [|e f IH]; simpl; intros Hn H1 H2; [contradiction|].
  inversion Hn as [|? ? Hna Hnd]; subst.
  destruct H1 as [H1|H1], H2 as [H2|H2].
  - congruence.
  - subst e. exfalso. apply Hna. apply in_map_iff. exists (k, p'). auto.
  - subst e. exfalso. apply Hna. apply in_map_iff. exists (k, p). auto.
  - apply IH; auto.
Qed.

(* expansion keeps every recorded row as it is *)
Lemma expand_keeps_recorded P (f g : frame P) k p :
  NoDup (keys f) -> expand f = Some g -> In (k, p) f -> In (k, p) g.
Proof.
  intros Hn Hg Hin.
  assert (Hk : In k (keys g)).
  { apply (expand_keys P f g Hg). left. apply in_map_iff. exists (k, p). auto. }
  apply in_map_iff in Hk as ([k' p'] & E & Hin'). unfold key in E. simpl in E. subst k'.
  destruct (expand_src P f g Hg _ Hin') as [H|[Hno _]]; unfold key, payload in *; simpl in *.
  - rewrite (keys_functional P f k p p' Hn Hin H). exact Hin'.
  - exfalso. apply Hno. apply in_map_iff. exists (k, p). auto.
Qed.

(* on a frame that is complete assuming reciprocity (e.g. any expanded frame) all default
   weights are 1 *)
Lemma weights_complete P (f : frame P) :
  is_complete f = true -> default_timetrace_weights (keys f) = repeat 1 (length f).
Proof.
  intros Hc. rewrite is_complete_spec in Hc. unfold default_timetrace_weights.
  rewrite (map_ext_in _ (fun _ => 1)).
  - unfold keys. rewrite map_map. clear. induction f; simpl; auto. f_equal. auto.
  - intros k Hk. apply Hc in Hk. apply memp_In in Hk. rewrite Hk. reflexivity.
Qed.
