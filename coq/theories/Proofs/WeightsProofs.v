(* Proofs/WeightsProofs.v — lemmas about Model/Weights.v (C07, C08, C03). *)
From Coq Require Import List ZArith Bool Lia.
From Arim Require Import Base.Num Model.Interface Model.Weights.
Import ListNotations.

(* ===== C07: reverse transmission/reflection = direct one on the reversed path ===== *)
Section RevTransrefl.
  Context {K : Type} (N : Num K).
  (* the coefficients are multiplied in a commutative, associative structure (complex
     numbers: see the instances at the end of Proofs/InterfaceProofs.v) *)
  Hypothesis mul_comm : forall a b : K, nmul N a b = nmul N b a.
  Hypothesis mul_assoc : forall a b c : K, nmul N (nmul N a b) c = nmul N a (nmul N b c).

  (* factor by factor, the reverse coefficient IS the forward coefficient of the reversed
     interface evaluated at the angle the reverse function derives by Snell's law *)
  Lemma tr_reverse_is_forward_of_reversed u (x : iface (K:=K)) :
    tr_reverse N u x = tr_forward N u (iface_reverse x (reverse_angle N x)).
  Proof. unfold tr_reverse, tr_forward, iface_reverse, reverse_angle. destruct (i_trans x); reflexivity. Qed.

  (* product_of as a plain product of a list of options *)
  Fixpoint all_some (l : list (option K)) : option (list K) :=
    match l with
    | [] => Some []
    | None :: _ => None
    | Some t :: l => match all_some l with Some r => Some (t :: r) | None => None end
    end.

  Definition prod_list (l : list K) : option K :=
    match l with [] => None | t :: l => Some (fold_left (nmul N) l t) end.

  Lemma product_of_acc (f : iface (K:=K) -> option K) l : forall acc,
    fold_left (fun acc x => match acc, f x with
                            | Some None, Some t => Some (Some t)
                            | Some (Some a), Some t => Some (Some (nmul N a t))
                            | _, _ => None end) l (Some (Some acc))
    = match all_some (map f l) with
      | Some r => Some (Some (fold_left (nmul N) r acc))
      | None => None
      end.
  Proof.
    induction l as [|x l IH]; intros acc; simpl; [reflexivity|].
    destruct (f x) as [t|].
    - rewrite IH. destruct (all_some (map f l)); reflexivity.
    - clear IH. induction l as [|y l IHl]; simpl; [reflexivity|]. exact IHl.
  Qed.

  Lemma product_of_spec (f : iface (K:=K) -> option K) l :
    product_of N f l = match all_some (map f l) with Some r => Some (prod_list r) | None => None end.
  Proof.
    unfold product_of. destruct l as [|x l]; simpl; [reflexivity|].
    destruct (f x) as [t|].
    - rewrite product_of_acc. destruct (all_some (map f l)); reflexivity.
    - induction l as [|y l IHl]; simpl; [reflexivity|]. exact IHl.
  Qed.

  Lemma fold_mul_shift l : forall a b, fold_left (nmul N) l (nmul N a b) = nmul N a (fold_left (nmul N) l b).
  Proof. induction l as [|x l IH]; intros a b; simpl; [reflexivity|]. rewrite mul_assoc. apply IH. Qed.

  Lemma prod_list_app_single l t : l <> [] ->
    prod_list (l ++ [t]) = match prod_list l with Some p => Some (nmul N p t) | None => None end.
  Proof.
    destruct l as [|a l]; intros H; [congruence|]. simpl. rewrite fold_left_app. reflexivity.
  Qed.

  Lemma prod_list_rev l : prod_list (rev l) = prod_list l.
  Proof.
    induction l as [|a l IH]; [reflexivity|]. simpl rev.
    destruct l as [|b l]; [reflexivity|].
    rewrite prod_list_app_single by (simpl; intro E; apply app_eq_nil in E; destruct E; discriminate).
    rewrite IH. simpl. f_equal. rewrite mul_comm. symmetry. apply fold_mul_shift.
  Qed.

  Lemma all_some_app l1 l2 :
    all_some (l1 ++ l2) = match all_some l1, all_some l2 with Some a, Some b => Some (a ++ b) | _, _ => None end.
  Proof.
    induction l1 as [|[t|] l1 IH]; simpl.
    - destruct (all_some l2); reflexivity.
    - rewrite IH. destruct (all_some l1), (all_some l2); reflexivity.
    - reflexivity.
  Qed.

  Lemma all_some_rev l : all_some (rev l) = match all_some l with Some r => Some (rev r) | None => None end.
  Proof.
    induction l as [|[t|] l IH]; simpl; [reflexivity| |].
    - rewrite all_some_app, IH. simpl. destruct (all_some l); reflexivity.
    - rewrite all_some_app. simpl. destruct (all_some (rev l)); reflexivity.
  Qed.

  (* the theorem: with the reversed path's incidence angles being the Snell images used by
     the reverse function, reverse_transrefl(p) = transrefl(reverse p), in both units *)
  Lemma rev_transrefl_eq_gen u (l : list (iface (K:=K))) :
    reverse_transrefl_for_path N u l
    = transrefl_for_path N u (path_reverse l (map (reverse_angle N) (rev l))).
  Proof.
    unfold reverse_transrefl_for_path, transrefl_for_path. rewrite !product_of_spec.
    unfold path_reverse.
    assert (E : map (tr_forward N u)
                  (map (fun xt => iface_reverse (fst xt) (snd xt)) (combine (rev l) (map (reverse_angle N) (rev l))))
                = rev (map (tr_reverse N u) l)).
    { rewrite <- map_rev. generalize (rev l) as m. intros m.
      induction m as [|x m IHm]; simpl; [reflexivity|].
      rewrite IHm. f_equal. symmetry. apply tr_reverse_is_forward_of_reversed. }
    rewrite E, all_some_rev. destruct (all_some (map (tr_reverse N u) l)) as [r|]; [|reflexivity].
    rewrite prod_list_rev. reflexivity.
  Qed.
End RevTransrefl.

(* instance: complex numbers as pairs of reals *)
From Coq Require Import Reals.
From Arim Require Import Base.NumR Proofs.InterfaceProofs.

Lemma NumC_R_mul_comm : forall a b : R * R, nmul (NumC NumR) a b = nmul (NumC NumR) b a.
Proof. intros [a1 a2] [b1 b2]. unfold NumC, cmul; cbn [nmul NumR fst snd nsub nadd]. f_equal; ring. Qed.

Lemma NumC_R_mul_assoc : forall a b c : R * R,
  nmul (NumC NumR) (nmul (NumC NumR) a b) c = nmul (NumC NumR) a (nmul (NumC NumR) b c).
Proof. intros [a1 a2] [b1 b2] [c1 c2]. unfold NumC, cmul; cbn [nmul NumR fst snd nsub nadd]. f_equal; ring. Qed.

Lemma rev_transrefl_eq_C u (l : list (iface (K := R * R))) :
  reverse_transrefl_for_path (NumC NumR) u l
  = transrefl_for_path (NumC NumR) u (path_reverse l (map (reverse_angle (NumC NumR)) (rev l))).
Proof. apply rev_transrefl_eq_gen; [exact NumC_R_mul_comm | exact NumC_R_mul_assoc]. Qed.
