(* Proofs/RayGeomProofs.v — lemmas about Model/RayGeom.v (C05), part 1:
   index resolution, gathering, the values of the leg quantities, path reversal.
   Everything here holds for ANY numeric instance (no real-number reasoning). *)
From Coq Require Import List ZArith Bool Arith Lia.
From Arim Require Import Base.Num Model.Vec3 Model.RayGeom.
Import ListNotations.

(* ---- Python index resolution ------------------------------------------------ *)
Lemma resolve_spec n idx a :
  resolve n idx = Some a <->
  a < n /\ (idx = Z.of_nat a \/ idx = (Z.of_nat a - Z.of_nat n)%Z).
Proof.
  unfold resolve.
  destruct (Z.leb_spec 0 idx) as [H0|H0].
  - destruct (Z.ltb_spec idx (Z.of_nat n)) as [H1|H1].
    + split.
      * intros E. injection E as <-. split; [lia|]. left. lia.
      * intros [Ha [E|E]]; [subst idx; f_equal; lia | lia].
    + split; [discriminate|]. intros [Ha [E|E]]; lia.
  - destruct (Z.leb_spec (- Z.of_nat n) idx) as [H1|H1].
    + split.
      * intros E. injection E as <-. split; [lia|]. right. lia.
      * intros [Ha [E|E]]; [lia | subst idx; f_equal; lia].
    + split; [discriminate|]. intros [Ha [E|E]]; lia.
Qed.

Lemma resolve_lt n idx a : resolve n idx = Some a -> a < n.
Proof. intros H. apply resolve_spec in H. tauto. Qed.

Lemma resolve_of_nat n a : a < n -> resolve n (Z.of_nat a) = Some a.
Proof. intros H. apply resolve_spec. auto. Qed.

Lemma resolve_negative n a : a < n -> resolve n (Z.of_nat a - Z.of_nat n) = Some a.
Proof. intros H. apply resolve_spec. auto. Qed.

Lemma resolve_pred n idx a : resolve n idx = Some (S a) -> resolve n (idx - 1) = Some a.
Proof.
  intros H. apply resolve_spec in H. destruct H as [Ha H]. apply resolve_spec. split; [lia|].
  destruct H as [E|E]; [left | right]; lia.
Qed.

Lemma resolve_succ n idx a : resolve n idx = Some a -> S a < n -> resolve n (idx + 1) = Some (S a).
Proof.
  intros H Hs. apply resolve_spec in H. destruct H as [Ha H]. apply resolve_spec. split; [lia|].
  destruct H as [E|E]; [left | right]; lia.
Qed.

Lemma resolve_none n idx : (idx < - Z.of_nat n \/ Z.of_nat n <= idx)%Z -> resolve n idx = None.
Proof.
  intros H. destruct (resolve n idx) as [a|] eqn:E; [|reflexivity].
  apply resolve_spec in E. lia.
Qed.

(* ---- gathering ---------------------------------------------------------------- *)
Section Gather.
  Context {T : Type} (N : Num T).
  Variable ifs : list (iface (T:=T)).
  Variable ray : list nat.
  Hypothesis Hlen : length ray = length ifs.

  Lemma gather_resolved {X} (field : iface -> list X) idx a :
    resolve (length ifs) idx = Some a ->
    gather ifs ray field idx =
    of_opt (match nth_error ifs a, nth_error ray a with
            | Some f, Some p => nth_error (field f) p
            | _, _ => None
            end).
  Proof.
    intros H. unfold gather, numinterfaces. rewrite H, Hlen, H. cbn [of_opt rbind].
    destruct (nth_error ifs a) as [f|] eqn:Ef.
    - cbn [of_opt rbind]. destruct (nth_error ray a) as [p|]; reflexivity.
    - apply nth_error_None in Ef. apply resolve_lt in H. lia.
  Qed.

  Lemma leg_points_resolved idx a : resolve (length ifs) idx = Some a ->
    leg_points ifs ray idx = of_opt (ray_point ifs ray a).
  Proof. intros H. unfold leg_points, ray_point. apply gather_resolved. exact H. Qed.

  Lemma orientations_resolved idx a : resolve (length ifs) idx = Some a ->
    orientations_of_legs_points ifs ray idx = of_opt (ray_frame ifs ray a).
  Proof. intros H. unfold orientations_of_legs_points, ray_frame. apply gather_resolved. exact H. Qed.

  Lemma gather_out_of_range {X} (field : iface -> list X) idx :
    resolve (length ifs) idx = None -> gather ifs ray field idx = IndexErr.
  Proof. intros H. unfold gather, numinterfaces. rewrite H. reflexivity. Qed.

  (* ---- values of the incoming-leg quantities at interface S a ------------------ *)
  Section IncAt.
    Variables (idx : Z) (a : nat) (s e : vec3 T) (B : mat3 T).
    Hypothesis Hidx : resolve (length ifs) idx = Some (S a).
    Hypothesis Hs : ray_point ifs ray a = Some s.
    Hypothesis He : ray_point ifs ray (S a) = Some e.
    Hypothesis HB : ray_frame ifs ray (S a) = Some B.

    Lemma inc_leg_size_value : inc_leg_size N ifs ray idx = Val (norm2_acc N (vsub N s e)).
    Proof.
      unfold inc_leg_size, guarded, numinterfaces. rewrite Hidx. cbn [Nat.eqb].
      rewrite (leg_points_resolved _ a (resolve_pred _ _ _ Hidx)), (leg_points_resolved _ _ Hidx), Hs, He.
      reflexivity.
    Qed.

    Lemma inc_leg_cartesian_value : inc_leg_cartesian N ifs ray idx = Val (from_gcs N s B e).
    Proof.
      unfold inc_leg_cartesian, guarded, numinterfaces, leg_local. rewrite Hidx. cbn [Nat.eqb].
      rewrite (leg_points_resolved _ a (resolve_pred _ _ _ Hidx)), (leg_points_resolved _ _ Hidx),
        (orientations_resolved _ _ Hidx), Hs, He, HB.
      reflexivity.
    Qed.

    Lemma inc_leg_radius_value : inc_leg_radius N ifs ray idx = Val (sph_r N (from_gcs N s B e)).
    Proof. unfold inc_leg_radius. rewrite inc_leg_cartesian_value. reflexivity. Qed.

    Lemma inc_leg_polar_value :
      inc_leg_polar N ifs ray idx =
      Val (sph_theta N (vz (from_gcs N s B e)) (sph_r N (from_gcs N s B e))).
    Proof. unfold inc_leg_polar. rewrite inc_leg_radius_value, inc_leg_cartesian_value. reflexivity. Qed.

    Lemma inc_leg_azimuth_value :
      inc_leg_azimuth N ifs ray idx = Val (sph_phi N (vx (from_gcs N s B e)) (vy (from_gcs N s B e))).
    Proof. unfold inc_leg_azimuth. rewrite inc_leg_cartesian_value. reflexivity. Qed.
  End IncAt.

  (* ---- values of the outgoing-leg quantities at interface a (a + 1 exists) ------ *)
  Section OutAt.
    Variables (idx : Z) (a : nat) (s e : vec3 T) (B : mat3 T).
    Hypothesis Hidx : resolve (length ifs) idx = Some a.
    Hypothesis Hnext : S a < length ifs.
    Hypothesis Hs : ray_point ifs ray a = Some s.
    Hypothesis He : ray_point ifs ray (S a) = Some e.
    Hypothesis HB : ray_frame ifs ray a = Some B.

    Lemma not_last : Nat.eqb a (last_interface ifs) = false.
    Proof. unfold last_interface, numinterfaces. apply Nat.eqb_neq. lia. Qed.

    Lemma out_leg_cartesian_value : out_leg_cartesian N ifs ray idx = Val (from_gcs N e B s).
    Proof.
      unfold out_leg_cartesian, guarded, leg_local. unfold numinterfaces at 1. rewrite Hidx, not_last.
      rewrite (leg_points_resolved _ _ (resolve_succ _ _ _ Hidx Hnext)), (leg_points_resolved _ _ Hidx),
        (orientations_resolved _ _ Hidx), Hs, He, HB.
      reflexivity.
    Qed.

    Lemma out_leg_radius_value : out_leg_radius N ifs ray idx = Val (sph_r N (from_gcs N e B s)).
    Proof. unfold out_leg_radius. rewrite out_leg_cartesian_value. reflexivity. Qed.

    Lemma out_leg_polar_value :
      out_leg_polar N ifs ray idx =
      Val (sph_theta N (vz (from_gcs N e B s)) (sph_r N (from_gcs N e B s))).
    Proof. unfold out_leg_polar. rewrite out_leg_radius_value, out_leg_cartesian_value. reflexivity. Qed.

    Lemma out_leg_azimuth_value :
      out_leg_azimuth N ifs ray idx = Val (sph_phi N (vx (from_gcs N e B s)) (vy (from_gcs N e B s))).
    Proof. unfold out_leg_azimuth. rewrite out_leg_cartesian_value. reflexivity. Qed.
  End OutAt.

  (* ---- None at the ends, IndexError outside --------------------------------------- *)
  Lemma inc_first_is_none idx : resolve (length ifs) idx = Some 0 ->
    inc_leg_size N ifs ray idx = NoLeg /\ inc_leg_cartesian N ifs ray idx = NoLeg /\
    inc_leg_radius N ifs ray idx = NoLeg /\ inc_leg_polar N ifs ray idx = NoLeg /\
    inc_leg_azimuth N ifs ray idx = NoLeg /\ inc_angle N ifs ray idx = NoLeg /\
    signed_inc_angle N ifs ray idx = NoLeg /\ conventional_inc_angle N ifs ray idx = NoLeg.
  Proof.
    intros H.
    assert (Hc : inc_leg_cartesian N ifs ray idx = NoLeg)
      by (unfold inc_leg_cartesian, guarded, numinterfaces; rewrite H; reflexivity).
    unfold inc_angle, signed_inc_angle, inc_leg_azimuth, inc_leg_polar, inc_leg_radius.
    rewrite Hc. cbn [rbind rmap].
    repeat split; try reflexivity.
    - unfold inc_leg_size, guarded, numinterfaces. rewrite H. reflexivity.
    - unfold conventional_inc_angle, numinterfaces. rewrite H. reflexivity.
  Qed.

  Lemma out_last_is_none idx : resolve (length ifs) idx = Some (length ifs - 1) ->
    out_leg_cartesian N ifs ray idx = NoLeg /\
    out_leg_radius N ifs ray idx = NoLeg /\ out_leg_polar N ifs ray idx = NoLeg /\
    out_leg_azimuth N ifs ray idx = NoLeg /\ out_angle N ifs ray idx = NoLeg /\
    signed_out_angle N ifs ray idx = NoLeg /\ conventional_out_angle N ifs ray idx = NoLeg.
  Proof.
    intros H.
    assert (Hc : out_leg_cartesian N ifs ray idx = NoLeg).
    { unfold out_leg_cartesian, guarded, last_interface, numinterfaces. rewrite H, Nat.eqb_refl. reflexivity. }
    unfold out_angle, signed_out_angle, out_leg_azimuth, out_leg_polar, out_leg_radius.
    rewrite Hc. cbn [rbind rmap].
    repeat split; try reflexivity.
    unfold conventional_out_angle, last_interface, numinterfaces. rewrite H, Nat.eqb_refl. reflexivity.
  Qed.

  Lemma out_of_range_is_index_error idx : resolve (length ifs) idx = None ->
    leg_points ifs ray idx = IndexErr /\ orientations_of_legs_points ifs ray idx = IndexErr /\
    inc_leg_size N ifs ray idx = IndexErr /\ inc_leg_cartesian N ifs ray idx = IndexErr /\
    inc_leg_radius N ifs ray idx = IndexErr /\ inc_leg_polar N ifs ray idx = IndexErr /\
    inc_leg_azimuth N ifs ray idx = IndexErr /\ inc_angle N ifs ray idx = IndexErr /\
    signed_inc_angle N ifs ray idx = IndexErr /\ conventional_inc_angle N ifs ray idx = IndexErr /\
    out_leg_cartesian N ifs ray idx = IndexErr /\
    out_leg_radius N ifs ray idx = IndexErr /\ out_leg_polar N ifs ray idx = IndexErr /\
    out_leg_azimuth N ifs ray idx = IndexErr /\ out_angle N ifs ray idx = IndexErr /\
    signed_out_angle N ifs ray idx = IndexErr /\ conventional_out_angle N ifs ray idx = IndexErr.
  Proof.
    intros H.
    assert (Hi : inc_leg_cartesian N ifs ray idx = IndexErr)
      by (unfold inc_leg_cartesian, guarded, numinterfaces; rewrite H; reflexivity).
    assert (Ho : out_leg_cartesian N ifs ray idx = IndexErr)
      by (unfold out_leg_cartesian, guarded, numinterfaces; rewrite H; reflexivity).
    unfold inc_angle, signed_inc_angle, inc_leg_azimuth, inc_leg_polar, inc_leg_radius,
      out_angle, signed_out_angle, out_leg_azimuth, out_leg_polar, out_leg_radius.
    rewrite Hi, Ho. cbn [rbind rmap].
    repeat split; try reflexivity.
    - apply gather_out_of_range; exact H.
    - apply gather_out_of_range; exact H.
    - unfold inc_leg_size, guarded, numinterfaces. rewrite H. reflexivity.
    - unfold conventional_inc_angle, numinterfaces. rewrite H. reflexivity.
    - unfold conventional_out_angle, numinterfaces. rewrite H. reflexivity.
  Qed.
End Gather.

(* ---- negative indices --------------------------------------------------------------- *)
(* every method answers the same for idx and idx' when both resolve to the same interface:
   enough to show it for the non-negative / negative spellings *)
Section NegativeIndex.
  Context {T : Type} (N : Num T).
  Variable ifs : list (iface (T:=T)).
  Variable ray : list nat.
  Hypothesis Hlen : length ray = length ifs.
  Variables (idx idx' : Z) (a : nat).
  Hypothesis H1 : resolve (length ifs) idx = Some a.
  Hypothesis H2 : resolve (length ifs) idx' = Some a.

  Lemma gather_same {X} (field : iface -> list X) : gather ifs ray field idx = gather ifs ray field idx'.
  Proof. rewrite (gather_resolved ifs ray Hlen field idx a H1), (gather_resolved ifs ray Hlen field idx' a H2). reflexivity. Qed.

  Lemma gather_pred_same {X} (field : iface -> list X) : a <> 0 ->
    gather ifs ray field (idx - 1) = gather ifs ray field (idx' - 1).
  Proof.
    intros Ha. destruct a as [|b]; [contradiction|].
    rewrite (gather_resolved ifs ray Hlen field _ b (resolve_pred _ _ _ H1)),
      (gather_resolved ifs ray Hlen field _ b (resolve_pred _ _ _ H2)). reflexivity.
  Qed.

  Lemma gather_succ_same {X} (field : iface -> list X) : S a < length ifs ->
    gather ifs ray field (idx + 1) = gather ifs ray field (idx' + 1).
  Proof.
    intros Ha.
    rewrite (gather_resolved ifs ray Hlen field _ _ (resolve_succ _ _ _ H1 Ha)),
      (gather_resolved ifs ray Hlen field _ _ (resolve_succ _ _ _ H2 Ha)). reflexivity.
  Qed.

  Lemma inc_leg_cartesian_same : inc_leg_cartesian N ifs ray idx = inc_leg_cartesian N ifs ray idx'.
  Proof.
    unfold inc_leg_cartesian, guarded, numinterfaces. rewrite H1, H2.
    destruct (Nat.eqb_spec a 0) as [E|E]; [reflexivity|].
    unfold leg_local, leg_points, orientations_of_legs_points.
    rewrite (gather_pred_same if_points E), (gather_same if_points), (gather_same if_orient). reflexivity.
  Qed.

  Lemma inc_leg_size_same : inc_leg_size N ifs ray idx = inc_leg_size N ifs ray idx'.
  Proof.
    unfold inc_leg_size, guarded, numinterfaces. rewrite H1, H2.
    destruct (Nat.eqb_spec a 0) as [E|E]; [reflexivity|].
    unfold leg_points. rewrite (gather_pred_same if_points E), (gather_same if_points). reflexivity.
  Qed.

  Lemma out_leg_cartesian_same : out_leg_cartesian N ifs ray idx = out_leg_cartesian N ifs ray idx'.
  Proof.
    unfold out_leg_cartesian, guarded, numinterfaces. rewrite H1, H2.
    destruct (Nat.eqb_spec a (last_interface ifs)) as [E|E]; [reflexivity|].
    assert (Ha : S a < length ifs).
    { unfold last_interface, numinterfaces in E. pose proof (resolve_lt _ _ _ H1). lia. }
    unfold leg_local, leg_points, orientations_of_legs_points.
    rewrite (gather_succ_same if_points Ha), (gather_same if_points), (gather_same if_orient). reflexivity.
  Qed.

  Lemma all_methods_same :
    leg_points ifs ray idx = leg_points ifs ray idx' /\
    orientations_of_legs_points ifs ray idx = orientations_of_legs_points ifs ray idx' /\
    inc_leg_size N ifs ray idx = inc_leg_size N ifs ray idx' /\
    inc_leg_cartesian N ifs ray idx = inc_leg_cartesian N ifs ray idx' /\
    inc_leg_radius N ifs ray idx = inc_leg_radius N ifs ray idx' /\
    inc_leg_polar N ifs ray idx = inc_leg_polar N ifs ray idx' /\
    inc_leg_azimuth N ifs ray idx = inc_leg_azimuth N ifs ray idx' /\
    inc_angle N ifs ray idx = inc_angle N ifs ray idx' /\
    signed_inc_angle N ifs ray idx = signed_inc_angle N ifs ray idx' /\
    conventional_inc_angle N ifs ray idx = conventional_inc_angle N ifs ray idx' /\
    out_leg_cartesian N ifs ray idx = out_leg_cartesian N ifs ray idx' /\
    out_leg_radius N ifs ray idx = out_leg_radius N ifs ray idx' /\
    out_leg_polar N ifs ray idx = out_leg_polar N ifs ray idx' /\
    out_leg_azimuth N ifs ray idx = out_leg_azimuth N ifs ray idx' /\
    out_angle N ifs ray idx = out_angle N ifs ray idx' /\
    signed_out_angle N ifs ray idx = signed_out_angle N ifs ray idx' /\
    conventional_out_angle N ifs ray idx = conventional_out_angle N ifs ray idx'.
  Proof.
    pose proof inc_leg_cartesian_same as Hi. pose proof out_leg_cartesian_same as Ho.
    unfold inc_angle, signed_inc_angle, conventional_inc_angle, inc_leg_azimuth, inc_leg_polar, inc_leg_radius,
      out_angle, signed_out_angle, conventional_out_angle, out_leg_azimuth, out_leg_polar, out_leg_radius,
      numinterfaces.
    rewrite Hi, Ho, H1, H2.
    repeat split; try reflexivity.
    - apply (gather_same if_points).
    - apply (gather_same if_orient).
    - apply inc_leg_size_same.
  Qed.
End NegativeIndex.

(* ---- reversal ------------------------------------------------------------------------- *)
Section Reverse.
  Context {T : Type} (N : Num T).
  Variable ifs : list (iface (T:=T)).
  Variable ray : list nat.
  Hypothesis Hlen : length ray = length ifs.

  Lemma path_reverse_length : length (path_reverse ifs) = length ifs.
  Proof. unfold path_reverse. rewrite rev_length, map_length. reflexivity. Qed.

  Lemma nth_error_rev {A} (l : list A) k : k < length l ->
    nth_error (rev l) (length l - 1 - k) = nth_error l k.
  Proof.
    intros Hk. revert k Hk. induction l as [|x l IH]; intros k Hk; [cbn in Hk; lia|].
    cbn [rev length]. destruct k as [|k].
    - rewrite nth_error_app2 by (rewrite rev_length; lia).
      rewrite rev_length. replace (S (length l) - 1 - 0 - length l) with 0 by lia. reflexivity.
    - cbn [nth_error]. cbn [length] in Hk.
      rewrite nth_error_app1 by (rewrite rev_length; lia).
      replace (S (length l) - 1 - S k) with (length l - 1 - k) by lia. apply IH. lia.
  Qed.

  Lemma nth_error_path_reverse k : k < length ifs ->
    nth_error (path_reverse ifs) (length ifs - 1 - k) = option_map iface_reverse (nth_error ifs k).
  Proof.
    intros Hk. unfold path_reverse.
    rewrite <- (map_length iface_reverse ifs) at 1.
    rewrite nth_error_rev by (rewrite map_length; exact Hk).
    apply nth_error_map.
  Qed.

  Lemma ray_point_reverse k : k < length ifs ->
    ray_point (path_reverse ifs) (rev ray) (length ifs - 1 - k) = ray_point ifs ray k.
  Proof.
    intros Hk. unfold ray_point. rewrite nth_error_path_reverse by exact Hk.
    assert (E : nth_error (rev ray) (length ifs - 1 - k) = nth_error ray k)
      by (rewrite <- Hlen; apply nth_error_rev; lia).
    rewrite E. destruct (nth_error ifs k); reflexivity.
  Qed.

  Lemma ray_frame_reverse k : k < length ifs ->
    ray_frame (path_reverse ifs) (rev ray) (length ifs - 1 - k) = ray_frame ifs ray k.
  Proof.
    intros Hk. unfold ray_frame. rewrite nth_error_path_reverse by exact Hk.
    assert (E : nth_error (rev ray) (length ifs - 1 - k) = nth_error ray k)
      by (rewrite <- Hlen; apply nth_error_rev; lia).
    rewrite E. destruct (nth_error ifs k); reflexivity.
  Qed.

  Lemma rev_ray_length : length (rev ray) = length (path_reverse ifs).
  Proof. rewrite rev_length, path_reverse_length. exact Hlen. Qed.

  (* the incoming cartesian leg at k is the outgoing cartesian leg at n-1-k of the
     reversed path with the reversed ray, whatever spelling (non-negative / negative) of
     the two interface indices is used *)
  Lemma inc_cartesian_is_out_of_reverse idx idx' k :
    resolve (length ifs) idx = Some k ->
    resolve (length ifs) idx' = Some (length ifs - 1 - k) ->
    inc_leg_cartesian N ifs ray idx = out_leg_cartesian N (path_reverse ifs) (rev ray) idx'.
  Proof.
    intros H1 H2. pose proof (resolve_lt _ _ _ H1) as Hk.
    pose proof path_reverse_length as HL.
    unfold inc_leg_cartesian, out_leg_cartesian, guarded, last_interface, numinterfaces.
    rewrite HL, H1, H2.
    destruct k as [|k].
    - replace (length ifs - 1 - 0) with (length ifs - 1) by lia. rewrite !Nat.eqb_refl. reflexivity.
    - cbn [Nat.eqb].
      destruct (Nat.eqb_spec (length ifs - 1 - S k) (length ifs - 1)) as [E|E]; [lia|].
      unfold leg_local.
      assert (H2' : resolve (length (path_reverse ifs)) idx' = Some (length ifs - 1 - S k)) by (rewrite HL; exact H2).
      assert (H2s : resolve (length (path_reverse ifs)) (idx' + 1) = Some (length ifs - 1 - k)).
      { replace (length ifs - 1 - k) with (S (length ifs - 1 - S k)) by lia.
        apply resolve_succ; [exact H2' | rewrite HL; lia]. }
      rewrite (leg_points_resolved ifs ray Hlen _ _ (resolve_pred _ _ _ H1)),
        (leg_points_resolved ifs ray Hlen _ _ H1), (orientations_resolved ifs ray Hlen _ _ H1).
      rewrite (leg_points_resolved _ _ rev_ray_length _ _ H2s),
        (leg_points_resolved _ _ rev_ray_length _ _ H2'), (orientations_resolved _ _ rev_ray_length _ _ H2').
      rewrite !ray_point_reverse, ray_frame_reverse by lia.
      reflexivity.
  Qed.

  Lemma inc_is_out_of_reverse_all idx idx' k :
    resolve (length ifs) idx = Some k ->
    resolve (length ifs) idx' = Some (length ifs - 1 - k) ->
    inc_leg_cartesian N ifs ray idx = out_leg_cartesian N (path_reverse ifs) (rev ray) idx' /\
    inc_leg_radius N ifs ray idx = out_leg_radius N (path_reverse ifs) (rev ray) idx' /\
    inc_leg_polar N ifs ray idx = out_leg_polar N (path_reverse ifs) (rev ray) idx' /\
    inc_leg_azimuth N ifs ray idx = out_leg_azimuth N (path_reverse ifs) (rev ray) idx' /\
    inc_angle N ifs ray idx = out_angle N (path_reverse ifs) (rev ray) idx' /\
    signed_inc_angle N ifs ray idx = signed_out_angle N (path_reverse ifs) (rev ray) idx' /\
    conventional_inc_angle N ifs ray idx = conventional_out_angle N (path_reverse ifs) (rev ray) idx'.
  Proof.
    intros H1 H2. pose proof (inc_cartesian_is_out_of_reverse idx idx' k H1 H2) as Hc.
    pose proof (resolve_lt _ _ _ H1) as Hk. pose proof path_reverse_length as HL.
    unfold inc_angle, signed_inc_angle, inc_leg_azimuth, inc_leg_polar, inc_leg_radius,
      out_angle, signed_out_angle, out_leg_azimuth, out_leg_polar, out_leg_radius.
    rewrite Hc. repeat split; try reflexivity.
    unfold conventional_inc_angle, conventional_out_angle, last_interface, numinterfaces.
    rewrite HL, H1, H2.
    destruct k as [|k].
    - replace (length ifs - 1 - 0) with (length ifs - 1) by lia. rewrite !Nat.eqb_refl. reflexivity.
    - cbn [Nat.eqb].
      destruct (Nat.eqb_spec (length ifs - 1 - S k) (length ifs - 1)) as [E|E]; [lia|].
      rewrite nth_error_path_reverse by lia.
      destruct (nth_error ifs (S k)) as [f|]; [|reflexivity].
      cbn [option_map of_opt rbind iface_reverse if_out].
      unfold inc_leg_polar, out_leg_polar, inc_leg_radius, out_leg_radius. rewrite Hc. reflexivity.
  Qed.

  (* reversing twice gives the path back *)
  Lemma iface_reverse_involutive (f : iface (T:=T)) : iface_reverse (iface_reverse f) = f.
  Proof. destruct f; reflexivity. Qed.

  Lemma path_reverse_involutive : path_reverse (path_reverse ifs) = ifs.
  Proof.
    unfold path_reverse. rewrite map_rev, rev_involutive, map_map.
    rewrite <- (map_id ifs) at 2. apply map_ext. apply iface_reverse_involutive.
  Qed.
End Reverse.

(* ---- ray index arrays: the column (j, i) of the reversed rays is the reversed column (i, j) *)
Section Tables.
  Context {A : Type}.

  Lemma transpose_length p (t : list (list A)) :
    (forall row, In row t -> length row = p) -> length (transpose p t) = p.
  Proof.
    induction t as [|row t IH]; intros H; cbn [transpose].
    - apply repeat_length.
    - rewrite map_length, combine_length, IH by (intros r Hr; apply H; right; exact Hr).
      rewrite (H row) by (left; reflexivity). apply Nat.min_id.
  Qed.

  Lemma get2_transpose p (t : list (list A)) i j :
    (forall row, In row t -> length row = p) -> i < length t -> j < p ->
    get2 (transpose p t) j i = get2 t i j.
  Proof.
    revert i. induction t as [|row t IH]; intros i H Hi Hj; [cbn in Hi; lia|].
    assert (Ht : forall r, In r t -> length r = p) by (intros r Hr; apply H; right; exact Hr).
    assert (Hrow : length row = p) by (apply H; left; reflexivity).
    pose proof (transpose_length p t Ht) as HL.
    unfold get2. cbn [transpose].
    destruct (nth_error row j) as [x|] eqn:Ex; [|apply nth_error_None in Ex; lia].
    destruct (nth_error (transpose p t) j) as [col|] eqn:Ec; [|apply nth_error_None in Ec; lia].
    assert (Hc : nth_error (combine row (transpose p t)) j = Some (x, col)).
    { clear - Ex Ec. revert j Ex Ec. generalize (transpose p t) as cols.
      induction row as [|y row IHr]; intros cols j Ex Ec; [destruct j; discriminate|].
      destruct cols as [|c cols]; [destruct j; discriminate|].
      destruct j as [|j]; cbn in *.
      - injection Ex as <-. injection Ec as <-. reflexivity.
      - apply IHr; assumption. }
    rewrite nth_error_map, Hc. cbn [option_map fst snd].
    destruct i as [|i]; cbn [nth_error].
    - exact (eq_sym Ex).
    - cbn [length] in Hi. specialize (IH i Ht ltac:(lia) Hj). unfold get2 in IH. rewrite Ec in IH. exact IH.
  Qed.

  Lemma all_some_map_Some (l : list A) : all_some (map Some l) = Some l.
  Proof. induction l as [|x l IH]; cbn; [reflexivity | rewrite IH; reflexivity]. Qed.

  Lemma all_some_app (l1 l2 : list (option A)) :
    all_some (l1 ++ l2) =
    match all_some l1, all_some l2 with Some a, Some b => Some (a ++ b) | _, _ => None end.
  Proof.
    induction l1 as [|[x|] l1 IH]; cbn [app all_some].
    - destruct (all_some l2); reflexivity.
    - rewrite IH. destruct (all_some l1), (all_some l2); reflexivity.
    - reflexivity.
  Qed.

  Lemma all_some_rev (l : list (option A)) : all_some (rev l) = option_map (@rev A) (all_some l).
  Proof.
    induction l as [|[x|] l IH]; cbn [rev all_some]; [reflexivity| |].
    - rewrite all_some_app, IH. destruct (all_some l); reflexivity.
    - rewrite all_some_app. destruct (all_some (rev l)); reflexivity.
  Qed.
End Tables.

Lemma get2_tab {A} n m (f : nat -> nat -> A) i j : i < n -> j < m -> get2 (tab n m f) i j = Some (f i j).
Proof.
  intros Hi Hj. unfold get2, tab.
  rewrite nth_error_map.
  assert (E : nth_error (seq 0 n) i = Some i).
  { rewrite (nth_error_nth' _ 0) by (rewrite seq_length; exact Hi). rewrite seq_nth by exact Hi. reflexivity. }
  rewrite E. cbn [option_map]. rewrite nth_error_map.
  assert (E' : nth_error (seq 0 m) j = Some j).
  { rewrite (nth_error_nth' _ 0) by (rewrite seq_length; exact Hj). rewrite seq_nth by exact Hj. reflexivity. }
  rewrite E'. reflexivity.
Qed.

(* shape (d, n, m) of the interior index array *)
Definition interior_shape (n m : nat) (interior : list (list (list nat))) : Prop :=
  forall lay, In lay interior -> length lay = n /\ forall row, In row lay -> length row = m.

Lemma ray_column_make_indices n m interior i j : i < n -> j < m ->
  ray_column (make_indices n m interior) i j =
  option_map (fun mid => i :: mid ++ [j]) (all_some (map (fun lay => get2 lay i j) interior)).
Proof.
  intros Hi Hj. unfold ray_column, make_indices.
  rewrite !map_app. cbn [map app all_some]. rewrite !get2_tab by assumption.
  rewrite all_some_app. cbn [all_some].
  destruct (all_some (map (fun lay => get2 lay i j) interior)); reflexivity.
Qed.

Lemma rays_reverse_column n m interior i j :
  interior_shape n m interior -> i < n -> j < m ->
  ray_column (make_indices m n (rays_reverse_interior m interior)) j i =
  option_map (@rev nat) (ray_column (make_indices n m interior) i j).
Proof.
  intros Hs Hi Hj. rewrite !ray_column_make_indices by assumption.
  unfold rays_reverse_interior. rewrite map_rev, map_map.
  assert (E : map (fun lay => get2 (transpose m lay) j i) interior = map (fun lay => get2 lay i j) interior).
  { apply map_ext_in. intros lay Hl. destruct (Hs lay Hl) as [Hn Hr].
    apply get2_transpose; [exact Hr | lia | exact Hj]. }
  rewrite E, all_some_rev.
  destruct (all_some (map (fun lay => get2 lay i j) interior)) as [mid|]; [|reflexivity].
  cbn [option_map]. f_equal. cbn [rev]. rewrite rev_app_distr. reflexivity.
Qed.

Lemma ray_column_length n m interior i j r : i < n -> j < m ->
  ray_column (make_indices n m interior) i j = Some r -> length r = length interior + 2.
Proof.
  intros Hi Hj. rewrite ray_column_make_indices by assumption.
  destruct (all_some (map (fun lay => get2 lay i j) interior)) as [mid|] eqn:E; [|discriminate].
  cbn [option_map]. intros H. injection H as <-.
  assert (Hl : length mid = length interior).
  { clear - E. revert mid E. induction interior as [|lay t IH]; intros mid E; cbn in E.
    - injection E as <-. reflexivity.
    - destruct (get2 lay i j); [|discriminate]. destruct (all_some _) eqn:E2; [|discriminate].
      injection E as <-. cbn. f_equal. apply IH. reflexivity. }
  cbn [length]. rewrite app_length. cbn [length]. lia.
Qed.

(* ---- reversal, stated on the objects: interfaces + index arrays of the rays ------------ *)
Lemma inc_is_out_of_reverse_rays {T} (N : Num T) (ifs : list (iface (T:=T))) n m interior i j idx idx' k r :
  length interior + 2 = length ifs -> interior_shape n m interior -> i < n -> j < m ->
  ray_column (make_indices n m interior) i j = Some r ->
  resolve (length ifs) idx = Some k -> resolve (length ifs) idx' = Some (length ifs - 1 - k) ->
  exists r', ray_column (make_indices m n (rays_reverse_interior m interior)) j i = Some r' /\
    inc_leg_cartesian N ifs r idx = out_leg_cartesian N (path_reverse ifs) r' idx' /\
    inc_leg_radius N ifs r idx = out_leg_radius N (path_reverse ifs) r' idx' /\
    inc_leg_polar N ifs r idx = out_leg_polar N (path_reverse ifs) r' idx' /\
    inc_leg_azimuth N ifs r idx = out_leg_azimuth N (path_reverse ifs) r' idx' /\
    inc_angle N ifs r idx = out_angle N (path_reverse ifs) r' idx' /\
    signed_inc_angle N ifs r idx = signed_out_angle N (path_reverse ifs) r' idx' /\
    conventional_inc_angle N ifs r idx = conventional_out_angle N (path_reverse ifs) r' idx'.
Proof.
  intros Hd Hs Hi Hj Hr H1 H2.
  exists (rev r). split.
  - rewrite (rays_reverse_column n m interior i j Hs Hi Hj), Hr. reflexivity.
  - apply inc_is_out_of_reverse_all with (k := k); [|exact H1|exact H2].
    rewrite (ray_column_length n m interior i j r Hi Hj Hr). exact Hd.
Qed.

(* ---- statements bundled for Props/C05.v ---------------------------------------------------- *)
Lemma leg_cartesian_local {T} (N : Num T) (ifs : list (iface (T:=T))) ray :
  length ray = length ifs -> forall idx a s e,
  ray_point ifs ray a = Some s -> ray_point ifs ray (S a) = Some e ->
  (forall B, resolve (length ifs) idx = Some (S a) -> ray_frame ifs ray (S a) = Some B ->
     inc_leg_cartesian N ifs ray idx = Val (mvec N B (vsub N s e))) /\
  (forall B, resolve (length ifs) idx = Some a -> S a < length ifs -> ray_frame ifs ray a = Some B ->
     out_leg_cartesian N ifs ray idx = Val (mvec N B (vsub N e s))).
Proof.
  intros Hlen idx a s e Hs He. split.
  - intros B Hidx HB. exact (inc_leg_cartesian_value N ifs ray Hlen idx a s e B Hidx Hs He HB).
  - intros B Hidx Hn HB. exact (out_leg_cartesian_value N ifs ray Hlen idx a s e B Hidx Hn Hs He HB).
Qed.

Lemma out_of_range_index_error_Z {T} (N : Num T) (ifs : list (iface (T:=T))) ray idx :
  (idx < - Z.of_nat (length ifs) \/ Z.of_nat (length ifs) <= idx)%Z ->
  leg_points ifs ray idx = IndexErr /\ orientations_of_legs_points ifs ray idx = IndexErr /\
  inc_leg_size N ifs ray idx = IndexErr /\ inc_leg_cartesian N ifs ray idx = IndexErr /\
  inc_leg_radius N ifs ray idx = IndexErr /\ inc_leg_polar N ifs ray idx = IndexErr /\
  inc_leg_azimuth N ifs ray idx = IndexErr /\ inc_angle N ifs ray idx = IndexErr /\
  signed_inc_angle N ifs ray idx = IndexErr /\ conventional_inc_angle N ifs ray idx = IndexErr /\
  out_leg_cartesian N ifs ray idx = IndexErr /\
  out_leg_radius N ifs ray idx = IndexErr /\ out_leg_polar N ifs ray idx = IndexErr /\
  out_leg_azimuth N ifs ray idx = IndexErr /\ out_angle N ifs ray idx = IndexErr /\
  signed_out_angle N ifs ray idx = IndexErr /\ conventional_out_angle N ifs ray idx = IndexErr.
Proof. intros H. apply out_of_range_is_index_error. apply resolve_none. exact H. Qed.
