(* Proofs/InterfaceProofs.v — lemmas about Model/Interface.v (C04).

   Part A  relations that hold in ANY field (Stokes relations, normal incidence):
           proved once in a Section over an abstract `Num K` whose operations form
           a field; instantiated for the reals (NumR) and for complex numbers as
           pairs of reals (NumC NumR), so they hold for complex angles too.
   Part B  the field instances.
   Part C  energy conservation over the reals (sub-critical, all angles real).
   Part D  Snell's law for snell_angles (real branch, complex branch, round trip),
           and the bridge between the _ang, _sc layers of the model.
   Part E  the dispatch tables of the two per-interface helpers. *)
Set Warnings "-notation-overridden".
From Coq Require Import Reals Field Lra Nsatz Psatz ZArith.
From Flocq Require Import Core.Raux.
From Arim Require Import Base.Num Base.NumR Model.Interface.

(* ========================================================================= *)
(* Part A: any field                                                          *)
Section AbstractField.
  Context {K : Type} (N : Num K).
  Hypothesis Fth : field_theory (n0 N) (n1 N) (nadd N) (nmul N) (nsub N) (nopp N) (ndiv N)
                     (fun x => ndiv N (n1 N) x) (@eq K).
  Hypothesis two_def : nofZ N 2%Z = nadd N (n1 N) (n1 N).
  Add Field KF : Fth.
  Local Notation "a + b" := (nadd N a b).
  Local Notation "a - b" := (nsub N a b).
  Local Notation "a * b" := (nmul N a b).
  Local Notation "a / b" := (ndiv N a b).
  Local Notation "- a" := (nopp N a).
  Local Notation zero := (n0 N).
  Local Notation one := (n1 N).

  Ltac open_k :=
    unfold fluid_solid_n_sc, solid_l_fluid_sc, solid_t_fluid_sc, fluid_solid_sc,
           solid_l_fluid_k, solid_t_fluid_k, fluid_solid_k, fst3, snd3, thd3;
    cbn [fst snd].

  (* T_{l->f} = T_{f->l} (z_f cos a_l) / (z_l cos a_f) *)
  Lemma stokes_fl_F : forall sf cf sl cl st ct rho_f rho_s v_f v_l v_t,
    cf <> zero -> rho_s <> zero -> v_l <> zero ->
    fluid_solid_n_sc N sf cf sl cl st ct rho_f rho_s v_f v_l v_t <> zero ->
    thd3 (solid_l_fluid_sc N sf cf sl cl st ct rho_f rho_s v_f v_l v_t)
    = snd3 (fluid_solid_sc N sf cf sl cl st ct rho_f rho_s v_f v_l v_t)
      * ((rho_f * v_f * cl) / (rho_s * v_l * cf)).
  Proof.
    intros sf cf sl cl st ct rho_f rho_s v_f v_l v_t Hcf Hrs Hvl. open_k.
    generalize (fluid_solid_n_k N cf cl (sin2 N sl cl) (sin2 N st ct) (cos2 N st ct) rho_f rho_s v_f v_l v_t).
    intros n Hn. rewrite ?two_def. field. auto.
  Qed.

  (* T_{t->f} = - T_{f->t} (z_f cos a_t) / (z_t cos a_f); uses Snell between L and T *)
  Lemma stokes_ft_F : forall sf cf sl cl st ct rho_f rho_s v_f v_l v_t,
    cf <> zero -> rho_s <> zero -> v_l <> zero -> v_t <> zero ->
    sl * v_t = st * v_l ->
    fluid_solid_n_sc N sf cf sl cl st ct rho_f rho_s v_f v_l v_t <> zero ->
    thd3 (solid_t_fluid_sc N sf cf sl cl st ct rho_f rho_s v_f v_l v_t)
    = - (thd3 (fluid_solid_sc N sf cf sl cl st ct rho_f rho_s v_f v_l v_t))
      * ((rho_f * v_f * ct) / (rho_s * v_t * cf)).
  Proof.
    intros sf cf sl cl st ct rho_f rho_s v_f v_l v_t Hcf Hrs Hvl Hvt Hsn. open_k.
    generalize (fluid_solid_n_k N cf cl (sin2 N sl cl) (sin2 N st ct) (cos2 N st ct) rho_f rho_s v_f v_l v_t).
    intros n Hn. unfold sin2. rewrite ?two_def.
    assert (E : st = sl * v_t / v_l) by (rewrite Hsn; field; auto).
    rewrite E. field. auto.
  Qed.

  (* R_{t->l} = - R_{l->t} (z_l cos a_t) / (z_t cos a_l) *)
  Lemma stokes_lt_F : forall sf cf sl cl st ct rho_f rho_s v_f v_l v_t,
    cl <> zero -> rho_s <> zero -> v_l <> zero -> v_t <> zero ->
    sl * v_t = st * v_l ->
    fluid_solid_n_sc N sf cf sl cl st ct rho_f rho_s v_f v_l v_t <> zero ->
    fst3 (solid_t_fluid_sc N sf cf sl cl st ct rho_f rho_s v_f v_l v_t)
    = - (snd3 (solid_l_fluid_sc N sf cf sl cl st ct rho_f rho_s v_f v_l v_t))
      * ((rho_s * v_l * ct) / (rho_s * v_t * cl)).
  Proof.
    intros sf cf sl cl st ct rho_f rho_s v_f v_l v_t Hcl Hrs Hvl Hvt Hsn. open_k.
    generalize (fluid_solid_n_k N cf cl (sin2 N sl cl) (sin2 N st ct) (cos2 N st ct) rho_f rho_s v_f v_l v_t).
    intros n Hn. unfold sin4, sin2. rewrite ?two_def.
    assert (E : st = sl * v_t / v_l) by (rewrite Hsn; field; auto).
    rewrite E. field. auto.
  Qed.

  (* the three functions use the same N for the same three angles *)
  Lemma same_n_F : forall cf cl s2l s2t c2t s4t rho_f rho_s v_f v_l v_t,
    let n := fluid_solid_n_k N cf cl s2l s2t c2t rho_f rho_s v_f v_l v_t in
    snd3 (fluid_solid_k N cf cl s2l s2t c2t rho_f rho_s v_f v_l v_t) = nofZ N 2%Z * c2t / n /\
    snd3 (solid_l_fluid_k N cf cl s2l s2t c2t rho_f rho_s v_f v_l v_t)
      = nofZ N 2%Z * ((v_t * v_t) / (v_l * v_l)) * s2l * c2t / n /\
    fst3 (solid_t_fluid_k N cf cl s2l s2t c2t s4t rho_f rho_s v_f v_l v_t) = - s4t / n.
  Proof. intros. repeat split. Qed.

  (* normal incidence: sin = 0, cos = 1 for the three angles *)
  Lemma normal_fluid_solid_F : forall rho_f rho_s v_f v_l v_t,
    rho_s <> zero -> v_l <> zero -> rho_s * v_l + rho_f * v_f <> zero ->
    let zf := rho_f * v_f in let zl := rho_s * v_l in
    let r := fluid_solid_sc N zero one zero one zero one rho_f rho_s v_f v_l v_t in
    fst3 r = (zl - zf) / (zl + zf) /\ snd3 r = nofZ N 2%Z * zl / (zl + zf) /\ thd3 r = zero.
  Proof.
    intros rho_f rho_s v_f v_l v_t Hrs Hvl Hz. cbv zeta. open_k.
    unfold fluid_solid_n_k, sin2, cos2. rewrite ?two_def.
    repeat split; field; repeat split; auto.
    all: first [ exact (F_1_neq_0 Fth)
               | intro E; apply Hz;
                 transitivity ((one / v_l) * (v_l * v_l * rho_s + rho_f * v_f * v_l));
                 [ field; auto | rewrite E; ring ] ].
  Qed.

  Lemma normal_solid_l_F : forall rho_f rho_s v_f v_l v_t,
    rho_s <> zero -> v_l <> zero -> rho_s * v_l + rho_f * v_f <> zero ->
    let zf := rho_f * v_f in let zl := rho_s * v_l in
    let r := solid_l_fluid_sc N zero one zero one zero one rho_f rho_s v_f v_l v_t in
    fst3 r = (zf - zl) / (zl + zf) /\ snd3 r = zero /\ thd3 r = nofZ N 2%Z * zf / (zl + zf).
  Proof.
    intros rho_f rho_s v_f v_l v_t Hrs Hvl Hz. cbv zeta. open_k.
    unfold fluid_solid_n_k, sin2, cos2. rewrite ?two_def.
    repeat split; field; repeat split; auto.
    all: first [ exact (F_1_neq_0 Fth)
               | intro E; apply Hz;
                 transitivity ((one / v_l) * (v_l * v_l * rho_s + rho_f * v_f * v_l));
                 [ field; auto | rewrite E; ring ] ].
  Qed.

  Lemma normal_solid_t_F : forall rho_f rho_s v_f v_l v_t,
    rho_s <> zero -> v_l <> zero -> rho_s * v_l + rho_f * v_f <> zero ->
    let r := solid_t_fluid_sc N zero one zero one zero one rho_f rho_s v_f v_l v_t in
    fst3 r = zero /\ snd3 r = - one /\ thd3 r = zero.
  Proof.
    intros rho_f rho_s v_f v_l v_t Hrs Hvl Hz. cbv zeta. open_k.
    unfold fluid_solid_n_k, sin4, sin2, cos2. rewrite ?two_def.
    repeat split; field; repeat split; auto.
    all: first [ exact (F_1_neq_0 Fth)
               | intro E; apply Hz;
                 transitivity ((one / v_l) * (v_l * v_l * rho_s + rho_f * v_f * v_l));
                 [ field; auto | rewrite E; ring ] ].
  Qed.
End AbstractField.

(* ========================================================================= *)
(* Part B: the two field instances                                            *)
Local Open Scope R_scope.

Lemma NumR_field : field_theory (n0 NumR) (n1 NumR) (nadd NumR) (nmul NumR) (nsub NumR)
                     (nopp NumR) (ndiv NumR) (fun x => ndiv NumR (n1 NumR) x) (@eq R).
Proof.
  cbn [NumR n0 n1 nadd nmul nsub nopp ndiv].
  constructor.
  - exact RTheory.
  - exact R1_neq_R0.
  - intros p q. unfold Rdiv. ring.
  - intros p Hp. field. exact Hp.
Qed.

Lemma NumR_two : nofZ NumR 2%Z = nadd NumR (n1 NumR) (n1 NumR).
Proof. cbn [NumR nofZ nadd n1]. lra. Qed.

(* complex numbers as pairs of reals *)
Lemma pair_eq : forall (a b c d : R), a = c -> b = d -> (a, b) = (c, d).
Proof. intros; subst; reflexivity. Qed.

Lemma NumC_R_field :
  field_theory (n0 (NumC NumR)) (n1 (NumC NumR)) (nadd (NumC NumR)) (nmul (NumC NumR))
               (nsub (NumC NumR)) (nopp (NumC NumR)) (ndiv (NumC NumR))
               (fun x => ndiv (NumC NumR) (n1 (NumC NumR)) x) (@eq (R * R)).
Proof.
  cbn [NumC n0 n1 nadd nmul nsub nopp ndiv].
  constructor.
  - constructor; intros; repeat match goal with z : (R * R)%type |- _ => destruct z end;
      unfold cadd, cmul, csub, copp, cre; cbn [fst snd NumR nadd nmul nsub nopp n0 n1];
      apply pair_eq; ring.
  - unfold cre. cbn [NumR n0 n1]. intro E. injection E as E. lra.
  - intros [a b] [c d]. unfold cdiv, cmul, cre. cbn [fst snd NumR nadd nmul nsub ndiv n0 n1 neqb].
    destruct (Req_bool_spec d 0) as [D|D]; cbn [fst snd]; apply pair_eq; unfold Rdiv; ring.
  - intros [a b] Hp. unfold cdiv, cmul, cre. cbn [fst snd NumR nadd nmul nsub ndiv n0 n1 neqb].
    destruct (Req_bool_spec b 0) as [B|B]; cbn [fst snd].
    + subst b. assert (A : a <> 0) by (intro E; apply Hp; subst; reflexivity).
      apply pair_eq; field; exact A.
    + assert (D : a * a + b * b <> 0) by nra.
      apply pair_eq; field; exact D.
Qed.

Lemma NumC_R_two : nofZ (NumC NumR) 2%Z = nadd (NumC NumR) (n1 (NumC NumR)) (n1 (NumC NumR)).
Proof. cbn [NumC nofZ nadd n1]. unfold cre, cadd. cbn [fst snd NumR nofZ nadd n1 n0]. apply pair_eq; lra. Qed.

(* ========================================================================= *)
(* Part C: energy conservation over the reals                                  *)

Lemma n_expand : forall sf cf sl cl st ct rho_f rho_s v_f v_l v_t,
  fluid_solid_n_sc NumR sf cf sl cl st ct rho_f rho_s v_f v_l v_t
  = (v_t * v_t) / (v_l * v_l) * (2 * sl * cl) * (2 * st * ct) + (ct * ct - st * st) * (ct * ct - st * st)
    + rho_f * v_f / (rho_s * v_l) * cl / cf.
Proof. reflexivity. Qed.

(* N > 0 below every critical angle *)
Lemma n_pos : forall sf cf sl cl st ct rho_f rho_s v_f v_l v_t,
  0 < rho_f -> 0 < rho_s -> 0 < v_f -> 0 < v_l -> 0 < v_t ->
  0 < cf -> 0 <= sl -> 0 < cl -> 0 <= st -> 0 < ct ->
  0 < fluid_solid_n_sc NumR sf cf sl cl st ct rho_f rho_s v_f v_l v_t.
Proof.
  intros sf cf sl cl st ct rho_f rho_s v_f v_l v_t Hrf Hrs Hvf Hvl Hvt Hcf Hsl Hcl Hst Hct.
  rewrite n_expand.
  assert (K1 : 0 < v_t * v_t / (v_l * v_l)) by (apply Rdiv_lt_0_compat; nra).
  assert (T1 : 0 <= v_t * v_t / (v_l * v_l) * (2 * sl * cl) * (2 * st * ct)).
  { apply Rmult_le_pos; [apply Rmult_le_pos|]; [lra| |]; apply Rmult_le_pos; nra. }
  assert (T2 : 0 <= (ct * ct - st * st) * (ct * ct - st * st)) by (exact (Rle_0_sqr _)).
  assert (T3 : 0 < rho_f * v_f / (rho_s * v_l) * cl / cf).
  { apply Rdiv_lt_0_compat; [|lra]. apply Rmult_lt_0_compat; [|lra].
    apply Rdiv_lt_0_compat; nra. }
  lra.
Qed.

Ltac open_r :=
  unfold fluid_solid_sc, solid_l_fluid_sc, solid_t_fluid_sc, fluid_solid_k, solid_l_fluid_k,
         solid_t_fluid_k, fst3, snd3, thd3; cbn [fst snd];
  unfold fluid_solid_n_k, sin4, sin2, cos2; cbn [NumR nadd nsub nmul ndiv nopp nofZ].

(* side condition left by field_simplify_eq: a cleared-denominator form of N *)
Ltac n_side Hn rho_s v_l cf :=
  let E := fresh "E" in
  intro E; apply Hn;
  apply Rmult_eq_reg_r with (v_l * v_l * rho_s * cf);
  [ rewrite Rmult_0_l; rewrite <- E; field; repeat split; lra
  | repeat apply Rmult_integral_contrapositive_currified; lra ].

Lemma energy_fluid_solid_alg : forall sf cf sl cl st ct rho_f rho_s v_f v_l v_t,
  0 < rho_f -> 0 < rho_s -> 0 < v_f -> 0 < v_l -> 0 < v_t ->
  cf <> 0 ->
  sl * v_f = v_l * sf -> st * v_f = v_t * sf ->
  sf * sf + cf * cf = 1 -> sl * sl + cl * cl = 1 -> st * st + ct * ct = 1 ->
  fluid_solid_n_sc NumR sf cf sl cl st ct rho_f rho_s v_f v_l v_t <> 0 ->
  let r := fluid_solid_sc NumR sf cf sl cl st ct rho_f rho_s v_f v_l v_t in
  fst3 r * fst3 r
  + snd3 r * snd3 r * ((rho_f * v_f * cl) / (rho_s * v_l * cf))
  + thd3 r * thd3 r * ((rho_f * v_f * ct) / (rho_s * v_t * cf)) = 1.
Proof.
  intros sf cf sl cl st ct rho_f rho_s v_f v_l v_t Hrf Hrs Hvf Hvl Hvt Hcf Hsl Hst Pf Pl Pt Hn.
  assert (Hlt : v_t * sl = v_l * st).
  { apply Rmult_eq_reg_r with v_f; [|lra]. nsatz. }
  rewrite n_expand in Hn. cbv zeta. open_r.
  field_simplify_eq; [| repeat split; try lra; try exact Hn].
  - cbn [Rpow_def.pow]. nsatz.
  - n_side Hn rho_s v_l cf.
Qed.

Lemma energy_solid_l_alg : forall sf cf sl cl st ct rho_f rho_s v_f v_l v_t,
  0 < rho_f -> 0 < rho_s -> 0 < v_f -> 0 < v_l -> 0 < v_t ->
  cf <> 0 -> cl <> 0 ->
  sl * v_f = v_l * sf -> st * v_f = v_t * sf ->
  sf * sf + cf * cf = 1 -> sl * sl + cl * cl = 1 -> st * st + ct * ct = 1 ->
  fluid_solid_n_sc NumR sf cf sl cl st ct rho_f rho_s v_f v_l v_t <> 0 ->
  let r := solid_l_fluid_sc NumR sf cf sl cl st ct rho_f rho_s v_f v_l v_t in
  fst3 r * fst3 r
  + snd3 r * snd3 r * ((rho_s * v_l * ct) / (rho_s * v_t * cl))
  + thd3 r * thd3 r * ((rho_s * v_l * cf) / (rho_f * v_f * cl)) = 1.
Proof.
  intros sf cf sl cl st ct rho_f rho_s v_f v_l v_t Hrf Hrs Hvf Hvl Hvt Hcf Hcl Hsl Hst Pf Pl Pt Hn.
  assert (Hlt : v_t * sl = v_l * st).
  { apply Rmult_eq_reg_r with v_f; [|lra]. nsatz. }
  rewrite n_expand in Hn. cbv zeta. open_r.
  field_simplify_eq; [| repeat split; try lra; try exact Hn].
  - cbn [Rpow_def.pow]. nsatz.
  - n_side Hn rho_s v_l cf.
Qed.

Lemma energy_solid_t_alg : forall sf cf sl cl st ct rho_f rho_s v_f v_l v_t,
  0 < rho_f -> 0 < rho_s -> 0 < v_f -> 0 < v_l -> 0 < v_t ->
  cf <> 0 -> ct <> 0 ->
  sl * v_f = v_l * sf -> st * v_f = v_t * sf ->
  sf * sf + cf * cf = 1 -> sl * sl + cl * cl = 1 -> st * st + ct * ct = 1 ->
  fluid_solid_n_sc NumR sf cf sl cl st ct rho_f rho_s v_f v_l v_t <> 0 ->
  let r := solid_t_fluid_sc NumR sf cf sl cl st ct rho_f rho_s v_f v_l v_t in
  fst3 r * fst3 r * ((rho_s * v_t * cl) / (rho_s * v_l * ct))
  + snd3 r * snd3 r
  + thd3 r * thd3 r * ((rho_s * v_t * cf) / (rho_f * v_f * ct)) = 1.
Proof.
  intros sf cf sl cl st ct rho_f rho_s v_f v_l v_t Hrf Hrs Hvf Hvl Hvt Hcf Hct Hsl Hst Pf Pl Pt Hn.
  assert (Hlt : v_t * sl = v_l * st).
  { apply Rmult_eq_reg_r with v_f; [|lra]. nsatz. }
  rewrite n_expand in Hn. cbv zeta. open_r.
  field_simplify_eq; [| repeat split; try lra; try exact Hn].
  - cbn [Rpow_def.pow]. nsatz.
  - n_side Hn rho_s v_l cf.
Qed.

(* ========================================================================= *)
(* Part D: Snell's law; the _ang layer over the reals                          *)

(* the Snell angle of a sub-critical real incidence *)
Lemma snell_real_facts : forall alpha a b,
  0 <= alpha < PI / 2 -> 0 < a -> 0 < b -> b / a * sin alpha < 1 ->
  let beta := snell_angles NumR alpha a b in
  sin beta * a = b * sin alpha /\ 0 <= sin beta /\ 0 < cos beta /\
  sin beta * sin beta + cos beta * cos beta = 1.
Proof.
  intros alpha a b Ha Hpa Hpb Hsub. cbv zeta.
  unfold snell_angles, snell_sin. cbn [NumR nasin nsin nmul ndiv].
  assert (S0 : 0 <= sin alpha) by (apply sin_ge_0; [lra| pose proof PI_RGT_0; lra]).
  assert (X0 : 0 <= b / a * sin alpha).
  { apply Rmult_le_pos; [|exact S0]. apply Rlt_le, Rdiv_lt_0_compat; lra. }
  rewrite sin_asin by lra.
  repeat split.
  - field. lra.
  - exact X0.
  - destruct (asin_bound_lt (b / a * sin alpha)) as [L U]; [lra|]. apply cos_gt_0; assumption.
  - pose proof (sin2_cos2 (asin (b / a * sin alpha))) as P. unfold Rsqr in P.
    rewrite sin_asin in P by lra. exact P.
Qed.

(* real dtype: sin(snell_angles a c1 c2) * c1 = c2 * sin a up to and including
   the critical angle *)
Lemma snell_law_R : forall alpha a b,
  a <> 0 -> -1 <= b / a * sin alpha <= 1 ->
  sin (snell_angles NumR alpha a b) * a = b * sin alpha.
Proof.
  intros alpha a b Ha Hs. unfold snell_angles, snell_sin. cbn [NumR nasin nsin nmul ndiv].
  rewrite sin_asin by exact Hs. field. exact Ha.
Qed.

Lemma snell_roundtrip_R : forall alpha a b,
  - (PI / 2) <= alpha <= PI / 2 -> a <> 0 -> b <> 0 -> -1 <= b / a * sin alpha <= 1 ->
  snell_angles NumR (snell_angles NumR alpha a b) b a = alpha.
Proof.
  intros alpha a b Hal Ha Hb Hs. unfold snell_angles, snell_sin. cbn [NumR nasin nsin nmul ndiv].
  rewrite sin_asin by exact Hs.
  replace (a / b * (b / a * sin alpha)) with (sin alpha) by (field; split; assumption).
  apply asin_sin. exact Hal.
Qed.

(* complex dtype *)
Lemma rcosh_0 : rcosh NumR 0 = 1.
Proof. unfold rcosh. cbn [NumR nexp nadd nopp ndiv nofZ]. rewrite Ropp_0, exp_0. lra. Qed.
Lemma rexpm1_R : forall y, rexpm1 NumR y = exp y - 1.
Proof.
  intro y. unfold rexpm1. cbn [NumR nexp neqb n1 nsub nmul ndiv nln].
  destruct (Req_bool_spec (exp y) 1) as [E|E].
  - assert (y = 0) by (apply exp_inv; rewrite exp_0; exact E). subst. rewrite exp_0. lra.
  - rewrite ln_exp. field. intro Y. apply E. subst. apply exp_0.
Qed.

Lemma rsinh_R : forall y, rsinh NumR y = (exp y - exp (- y)) / 2.
Proof.
  intro y. unfold rsinh. rewrite rexpm1_R. cbn [NumR nadd ndiv n1 nofZ].
  rewrite exp_Ropp. pose proof (exp_pos y). field. lra.
Qed.

Lemma rsinh_0 : rsinh NumR 0 = 0.
Proof. rewrite rsinh_R. rewrite Ropp_0, exp_0. lra. Qed.

Lemma rlog1p_R : forall t, -1 < t -> rlog1p NumR t = ln (1 + t).
Proof.
  intros t Ht. unfold rlog1p. cbn [NumR nadd neqb n1 nsub nmul ndiv nln].
  destruct (Req_bool_spec (1 + t) 1) as [E|E].
  - assert (t = 0) by lra. subst. rewrite Rplus_0_r, ln_1. reflexivity.
  - field. lra.
Qed.

Lemma racosh_R : forall s, 1 <= s -> racosh NumR s = ln (s + sqrt ((s - 1) * (s + 1))).
Proof.
  intros s Hs. unfold racosh. cbn [NumR nsub nadd nmul nsqrt n1].
  pose proof (sqrt_pos ((s - 1) * (s + 1))) as Q0.
  rewrite rlog1p_R by lra. f_equal. ring.
Qed.

Lemma csin_real : forall x, csin NumR (x, 0) = (sin x, 0).
Proof.
  intro x. unfold csin. cbn [fst snd]. rewrite rcosh_0, rsinh_0.
  cbn [NumR nsin ncos nmul]. apply pair_eq; ring.
Qed.

(* cosh (acosh s) = s for s >= 1 *)
Lemma rcosh_racosh : forall s, 1 <= s -> rcosh NumR (racosh NumR s) = s.
Proof.
  intros s Hs. rewrite racosh_R by exact Hs. unfold rcosh. cbn [NumR nexp nadd nopp ndiv nofZ].
  set (q := sqrt ((s - 1) * (s + 1))).
  assert (Q0 : 0 <= q) by apply sqrt_pos.
  assert (QQ : q * q = (s - 1) * (s + 1)) by (apply sqrt_sqrt; nra).
  assert (U : 0 < s + q) by lra.
  rewrite exp_Ropp, exp_ln by exact U.
  assert (I : / (s + q) = s - q).
  { apply Rmult_eq_reg_l with (s + q); [|lra]. rewrite Rinv_r by lra.
    replace ((s + q) * (s - q)) with (s * s - q * q) by ring. rewrite QQ. ring. }
  rewrite I. lra.
Qed.

Lemma snell_sin_C_real : forall alpha a b, a <> 0 ->
  snell_sin (NumC NumR) (csin NumR (alpha, 0)) (cre NumR a) (cre NumR b) = (b / a * sin alpha, 0).
Proof.
  intros alpha a b Ha. rewrite csin_real. unfold snell_sin, cre.
  cbn [NumC nmul ndiv]. unfold cmul, cdiv. cbn [fst snd NumR nadd nsub nmul ndiv n0 neqb].
  rewrite (Req_bool_true 0 0 eq_refl). cbn [fst snd].
  apply pair_eq; field; exact Ha.
Qed.

(* the sine of numpy's complex arcsin of a real number s (+0i) is s, on every branch *)
Lemma csin_carcsin_real : forall s, csin NumR (carcsin NumR (s, 0)) = (s, 0).
Proof.
  intro s. unfold carcsin. cbn [fst snd NumR neqb nltb n0 n1 nopp npi ndiv nofZ nasin].
  assert (E0 : Req_bool 0 0 = true) by (apply Req_bool_true; reflexivity).
  rewrite E0.
  destruct (Rlt_bool_spec 1 s) as [H1|H1].
  - unfold csin. cbn [fst snd NumR nsin ncos nmul]. rewrite sin_PI2, cos_PI2, rcosh_racosh by lra.
    apply pair_eq; ring.
  - destruct (Rlt_bool_spec s (Ropp 1)) as [H2|H2].
    + unfold csin. cbn [fst snd NumR nsin ncos nmul].
      rewrite sin_neg, cos_neg, sin_PI2, cos_PI2, rcosh_racosh by lra. apply pair_eq; ring.
    + rewrite csin_real, sin_asin by lra. reflexivity.
Qed.

(* Snell's law for the complex dtype, below AND beyond the critical angle *)
Lemma snell_law_C : forall alpha a b, a <> 0 ->
  nmul (NumC NumR) (nsin (NumC NumR) (snell_angles (NumC NumR) (alpha, 0) (cre NumR a) (cre NumR b)))
       (cre NumR a)
  = nmul (NumC NumR) (cre NumR b) (nsin (NumC NumR) (alpha, 0)).
Proof.
  intros alpha a b Ha. unfold snell_angles. cbn [NumC nsin nasin].
  rewrite snell_sin_C_real by exact Ha. rewrite csin_carcsin_real, csin_real.
  cbn [NumC nmul]. unfold cmul, cre. cbn [fst snd NumR nsub nadd nmul n0].
  apply pair_eq; field; exact Ha.
Qed.

(* beyond the critical angle the refracted angle is pi/2 + i acosh(s), s > 1 *)
Lemma snell_angles_C_post : forall alpha a b, a <> 0 -> 1 < b / a * sin alpha ->
  snell_angles (NumC NumR) (alpha, 0) (cre NumR a) (cre NumR b)
  = (PI / 2, ln (b / a * sin alpha + sqrt ((b / a * sin alpha - 1) * (b / a * sin alpha + 1)))).
Proof.
  intros alpha a b Ha Hs. unfold snell_angles. cbn [NumC nsin nasin].
  rewrite snell_sin_C_real by exact Ha. unfold carcsin.
  cbn [fst snd NumR neqb nltb n0 n1 nopp npi ndiv nofZ nasin].
  rewrite (Req_bool_true 0 0 eq_refl). rewrite Rlt_bool_true by exact Hs.
  rewrite racosh_R by lra. reflexivity.
Qed.

Lemma snell_angles_C_pre : forall alpha a b, a <> 0 -> -1 <= b / a * sin alpha <= 1 ->
  snell_angles (NumC NumR) (alpha, 0) (cre NumR a) (cre NumR b)
  = (snell_angles NumR alpha a b, 0).
Proof.
  intros alpha a b Ha Hs. unfold snell_angles at 1. cbn [NumC nsin nasin].
  rewrite snell_sin_C_real by exact Ha. unfold carcsin.
  cbn [fst snd NumR neqb nltb n0 n1 nopp npi ndiv nofZ nasin].
  rewrite (Req_bool_true 0 0 eq_refl).
  rewrite Rlt_bool_false by lra. rewrite Rlt_bool_false by lra. reflexivity.
Qed.

(* bridge: the functions called with angles are the _sc functions on (sin, cos) *)
Lemma sin_4a : forall x, sin (4 * x) = 2 * (2 * sin x * cos x) * (cos x * cos x - sin x * sin x).
Proof. intro x. replace (4 * x) with (2 * (2 * x)) by ring. rewrite sin_2a, sin_2a, cos_2a. reflexivity. Qed.

Lemma ang_sc_fluid_solid : forall a_f a_l a_t rho_f rho_s v_f v_l v_t,
  fluid_solid_ang NumR a_f a_l a_t rho_f rho_s v_f v_l v_t
  = fluid_solid_sc NumR (sin a_f) (cos a_f) (sin a_l) (cos a_l) (sin a_t) (cos a_t) rho_f rho_s v_f v_l v_t.
Proof.
  intros. unfold fluid_solid_ang, fluid_solid_sc, sin2, cos2.
  cbn [NumR nsin ncos nmul nsub nofZ]. rewrite !sin_2a, cos_2a. reflexivity.
Qed.
Lemma ang_sc_solid_l : forall a_f a_l a_t rho_f rho_s v_f v_l v_t,
  solid_l_fluid_ang NumR a_f a_l a_t rho_f rho_s v_f v_l v_t
  = solid_l_fluid_sc NumR (sin a_f) (cos a_f) (sin a_l) (cos a_l) (sin a_t) (cos a_t) rho_f rho_s v_f v_l v_t.
Proof.
  intros. unfold solid_l_fluid_ang, solid_l_fluid_sc, sin2, cos2.
  cbn [NumR nsin ncos nmul nsub nofZ]. rewrite !sin_2a, cos_2a. reflexivity.
Qed.
Lemma ang_sc_solid_t : forall a_f a_l a_t rho_f rho_s v_f v_l v_t,
  solid_t_fluid_ang NumR a_f a_l a_t rho_f rho_s v_f v_l v_t
  = solid_t_fluid_sc NumR (sin a_f) (cos a_f) (sin a_l) (cos a_l) (sin a_t) (cos a_t) rho_f rho_s v_f v_l v_t.
Proof.
  intros. unfold solid_t_fluid_ang, solid_t_fluid_sc, sin4, sin2, cos2.
  cbn [NumR nsin ncos nmul nsub nofZ]. rewrite sin_4a, !sin_2a, cos_2a. reflexivity.
Qed.

(* sin/cos facts of a real incidence angle in [0, pi/2) *)
Lemma inc_real_facts : forall alpha, 0 <= alpha < PI / 2 ->
  0 <= sin alpha /\ 0 < cos alpha /\ sin alpha * sin alpha + cos alpha * cos alpha = 1.
Proof.
  intros alpha Ha. repeat split.
  - apply sin_ge_0; [lra| pose proof PI_RGT_0; lra].
  - apply cos_gt_0; lra.
  - pose proof (sin2_cos2 alpha) as P. unfold Rsqr in P. exact P.
Qed.

(* ---- the energy theorems -------------------------------------------------- *)
Lemma energy_fluid_solid_sc : forall sf cf sl cl st ct rho_f rho_s v_f v_l v_t,
  0 < rho_f -> 0 < rho_s -> 0 < v_f -> 0 < v_l -> 0 < v_t ->
  0 < cf -> 0 <= sl -> 0 < cl -> 0 <= st -> 0 < ct ->
  sl * v_f = v_l * sf -> st * v_f = v_t * sf ->
  sf * sf + cf * cf = 1 -> sl * sl + cl * cl = 1 -> st * st + ct * ct = 1 ->
  let r := fluid_solid_sc NumR sf cf sl cl st ct rho_f rho_s v_f v_l v_t in
  fst3 r * fst3 r
  + snd3 r * snd3 r * ((rho_f * v_f * cl) / (rho_s * v_l * cf))
  + thd3 r * thd3 r * ((rho_f * v_f * ct) / (rho_s * v_t * cf)) = 1.
Proof.
  intros. apply energy_fluid_solid_alg; try assumption; try lra.
  apply Rgt_not_eq, Rlt_gt, n_pos; assumption.
Qed.

Lemma energy_solid_l_sc : forall sf cf sl cl st ct rho_f rho_s v_f v_l v_t,
  0 < rho_f -> 0 < rho_s -> 0 < v_f -> 0 < v_l -> 0 < v_t ->
  0 < cf -> 0 <= sl -> 0 < cl -> 0 <= st -> 0 < ct ->
  sl * v_f = v_l * sf -> st * v_f = v_t * sf ->
  sf * sf + cf * cf = 1 -> sl * sl + cl * cl = 1 -> st * st + ct * ct = 1 ->
  let r := solid_l_fluid_sc NumR sf cf sl cl st ct rho_f rho_s v_f v_l v_t in
  fst3 r * fst3 r
  + snd3 r * snd3 r * ((rho_s * v_l * ct) / (rho_s * v_t * cl))
  + thd3 r * thd3 r * ((rho_s * v_l * cf) / (rho_f * v_f * cl)) = 1.
Proof.
  intros. apply energy_solid_l_alg; try assumption; try lra.
  apply Rgt_not_eq, Rlt_gt, n_pos; assumption.
Qed.

Lemma energy_solid_t_sc : forall sf cf sl cl st ct rho_f rho_s v_f v_l v_t,
  0 < rho_f -> 0 < rho_s -> 0 < v_f -> 0 < v_l -> 0 < v_t ->
  0 < cf -> 0 <= sl -> 0 < cl -> 0 <= st -> 0 < ct ->
  sl * v_f = v_l * sf -> st * v_f = v_t * sf ->
  sf * sf + cf * cf = 1 -> sl * sl + cl * cl = 1 -> st * st + ct * ct = 1 ->
  let r := solid_t_fluid_sc NumR sf cf sl cl st ct rho_f rho_s v_f v_l v_t in
  fst3 r * fst3 r * ((rho_s * v_t * cl) / (rho_s * v_l * ct))
  + snd3 r * snd3 r
  + thd3 r * thd3 r * ((rho_s * v_t * cf) / (rho_f * v_f * ct)) = 1.
Proof.
  intros. apply energy_solid_t_alg; try assumption; try lra.
  apply Rgt_not_eq, Rlt_gt, n_pos; assumption.
Qed.

(* ... and for the functions as called, Snell angles computed on the fly *)
Lemma energy_fluid_solid_auto : forall alpha rho_f rho_s v_f v_l v_t,
  0 < rho_f -> 0 < rho_s -> 0 < v_f -> 0 < v_l -> 0 < v_t ->
  0 <= alpha < PI / 2 -> v_l / v_f * sin alpha < 1 -> v_t / v_f * sin alpha < 1 ->
  let a_l := snell_angles NumR alpha v_f v_l in
  let a_t := snell_angles NumR alpha v_f v_t in
  let r := fluid_solid_auto NumR alpha rho_f rho_s v_f v_l v_t in
  fst3 r * fst3 r
  + snd3 r * snd3 r * ((rho_f * v_f * cos a_l) / (rho_s * v_l * cos alpha))
  + thd3 r * thd3 r * ((rho_f * v_f * cos a_t) / (rho_s * v_t * cos alpha)) = 1.
Proof.
  intros alpha rho_f rho_s v_f v_l v_t Hrf Hrs Hvf Hvl Hvt Ha HL HT. cbv zeta.
  unfold fluid_solid_auto. rewrite ang_sc_fluid_solid.
  destruct (snell_real_facts alpha v_f v_l Ha Hvf Hvl HL) as (SL & SL0 & CL & PL).
  destruct (snell_real_facts alpha v_f v_t Ha Hvf Hvt HT) as (ST & ST0 & CT & PT).
  destruct (inc_real_facts alpha Ha) as (S0 & C0 & P0).
  apply energy_fluid_solid_sc; assumption.
Qed.

Lemma energy_solid_l_auto : forall alpha rho_f rho_s v_f v_l v_t,
  0 < rho_f -> 0 < rho_s -> 0 < v_f -> 0 < v_l -> 0 < v_t ->
  0 <= alpha < PI / 2 -> v_f / v_l * sin alpha < 1 -> v_t / v_l * sin alpha < 1 ->
  let a_f := snell_angles NumR alpha v_l v_f in
  let a_t := snell_angles NumR alpha v_l v_t in
  let r := solid_l_fluid_auto NumR alpha rho_f rho_s v_f v_l v_t in
  fst3 r * fst3 r
  + snd3 r * snd3 r * ((rho_s * v_l * cos a_t) / (rho_s * v_t * cos alpha))
  + thd3 r * thd3 r * ((rho_s * v_l * cos a_f) / (rho_f * v_f * cos alpha)) = 1.
Proof.
  intros alpha rho_f rho_s v_f v_l v_t Hrf Hrs Hvf Hvl Hvt Ha HF HT. cbv zeta.
  unfold solid_l_fluid_auto. rewrite ang_sc_solid_l.
  destruct (snell_real_facts alpha v_l v_f Ha Hvl Hvf HF) as (SF & SF0 & CF & PF).
  destruct (snell_real_facts alpha v_l v_t Ha Hvl Hvt HT) as (ST & ST0 & CT & PT).
  destruct (inc_real_facts alpha Ha) as (S0 & C0 & P0).
  apply energy_solid_l_sc; try assumption.
  - rewrite (Rmult_comm v_l), SF. ring.
  - apply Rmult_eq_reg_r with v_l; [|lra].
    rewrite (Rmult_assoc v_t), SF.
    replace (sin (snell_angles NumR alpha v_l v_t) * v_f * v_l)
      with (sin (snell_angles NumR alpha v_l v_t) * v_l * v_f) by ring.
    rewrite ST. ring.
Qed.

Lemma energy_solid_t_auto : forall alpha rho_f rho_s v_f v_l v_t,
  0 < rho_f -> 0 < rho_s -> 0 < v_f -> 0 < v_l -> 0 < v_t ->
  0 <= alpha < PI / 2 -> v_f / v_t * sin alpha < 1 -> v_l / v_t * sin alpha < 1 ->
  let a_f := snell_angles NumR alpha v_t v_f in
  let a_l := snell_angles NumR alpha v_t v_l in
  let r := solid_t_fluid_auto NumR alpha rho_f rho_s v_f v_l v_t in
  fst3 r * fst3 r * ((rho_s * v_t * cos a_l) / (rho_s * v_l * cos alpha))
  + snd3 r * snd3 r
  + thd3 r * thd3 r * ((rho_s * v_t * cos a_f) / (rho_f * v_f * cos alpha)) = 1.
Proof.
  intros alpha rho_f rho_s v_f v_l v_t Hrf Hrs Hvf Hvl Hvt Ha HF HL. cbv zeta.
  unfold solid_t_fluid_auto. rewrite ang_sc_solid_t.
  destruct (snell_real_facts alpha v_t v_f Ha Hvt Hvf HF) as (SF & SF0 & CF & PF).
  destruct (snell_real_facts alpha v_t v_l Ha Hvt Hvl HL) as (SL & SL0 & CL & PL).
  destruct (inc_real_facts alpha Ha) as (S0 & C0 & P0).
  apply energy_solid_t_sc; try assumption.
  - apply Rmult_eq_reg_r with v_t; [|lra].
    rewrite (Rmult_assoc v_l), SF.
    replace (sin (snell_angles NumR alpha v_t v_l) * v_f * v_t)
      with (sin (snell_angles NumR alpha v_t v_l) * v_t * v_f) by ring.
    rewrite SL. ring.
  - rewrite (Rmult_comm v_t), SF. ring.
Qed.

(* normal incidence for the functions as called: alpha = 0 *)
Lemma snell_angles_0 : forall a b, snell_angles NumR 0 a b = 0.
Proof.
  intros a b. unfold snell_angles, snell_sin. cbn [NumR nasin nsin nmul ndiv].
  rewrite sin_0, Rmult_0_r. apply asin_0.
Qed.

Lemma normal_fluid_solid_auto : forall rho_f rho_s v_f v_l v_t,
  0 < rho_f -> 0 < rho_s -> 0 < v_f -> 0 < v_l ->
  let zf := rho_f * v_f in let zl := rho_s * v_l in
  fluid_solid_auto NumR 0 rho_f rho_s v_f v_l v_t = ((zl - zf) / (zl + zf), 2 * zl / (zl + zf), 0).
Proof.
  intros rho_f rho_s v_f v_l v_t Hrf Hrs Hvf Hvl. cbv zeta.
  unfold fluid_solid_auto. rewrite !snell_angles_0, ang_sc_fluid_solid, sin_0, cos_0.
  destruct (normal_fluid_solid_F NumR NumR_field NumR_two rho_f rho_s v_f v_l v_t) as (A & B & C).
  1-3: cbn [NumR n0 nadd nmul]; nra.
  cbn [NumR n0 n1 nadd nsub nmul ndiv nofZ] in A, B, C.
  rewrite (surjective_pairing (fluid_solid_sc NumR 0 1 0 1 0 1 rho_f rho_s v_f v_l v_t)).
  rewrite (surjective_pairing (fst (fluid_solid_sc NumR 0 1 0 1 0 1 rho_f rho_s v_f v_l v_t))).
  unfold fst3, snd3, thd3 in A, B, C. rewrite A, B, C. reflexivity.
Qed.

Lemma normal_solid_l_auto : forall rho_f rho_s v_f v_l v_t,
  0 < rho_f -> 0 < rho_s -> 0 < v_f -> 0 < v_l ->
  let zf := rho_f * v_f in let zl := rho_s * v_l in
  solid_l_fluid_auto NumR 0 rho_f rho_s v_f v_l v_t = ((zf - zl) / (zl + zf), 0, 2 * zf / (zl + zf)).
Proof.
  intros rho_f rho_s v_f v_l v_t Hrf Hrs Hvf Hvl. cbv zeta.
  unfold solid_l_fluid_auto. rewrite !snell_angles_0, ang_sc_solid_l, sin_0, cos_0.
  destruct (normal_solid_l_F NumR NumR_field NumR_two rho_f rho_s v_f v_l v_t) as (A & B & C).
  1-3: cbn [NumR n0 nadd nmul]; nra.
  cbn [NumR n0 n1 nadd nsub nmul ndiv nofZ] in A, B, C.
  rewrite (surjective_pairing (solid_l_fluid_sc NumR 0 1 0 1 0 1 rho_f rho_s v_f v_l v_t)).
  rewrite (surjective_pairing (fst (solid_l_fluid_sc NumR 0 1 0 1 0 1 rho_f rho_s v_f v_l v_t))).
  unfold fst3, snd3, thd3 in A, B, C. rewrite A, B, C. reflexivity.
Qed.

Lemma normal_solid_t_auto : forall rho_f rho_s v_f v_l v_t,
  0 < rho_f -> 0 < rho_s -> 0 < v_f -> 0 < v_l ->
  solid_t_fluid_auto NumR 0 rho_f rho_s v_f v_l v_t = (0, -1, 0).
Proof.
  intros rho_f rho_s v_f v_l v_t Hrf Hrs Hvf Hvl.
  unfold solid_t_fluid_auto. rewrite !snell_angles_0, ang_sc_solid_t, sin_0, cos_0.
  destruct (normal_solid_t_F NumR NumR_field NumR_two rho_f rho_s v_f v_l v_t) as (A & B & C).
  1-3: cbn [NumR n0 nadd nmul]; nra.
  cbn [NumR n0 n1 nopp] in A, B, C.
  rewrite (surjective_pairing (solid_t_fluid_sc NumR 0 1 0 1 0 1 rho_f rho_s v_f v_l v_t)).
  rewrite (surjective_pairing (fst (solid_t_fluid_sc NumR 0 1 0 1 0 1 rho_f rho_s v_f v_l v_t))).
  unfold fst3, snd3, thd3 in A, B, C. rewrite A, B, C. reflexivity.
Qed.

(* ========================================================================= *)
(* Part E: the dispatch tables, for every numeric instance                     *)
Definition in_unit {K : Type} (N : Num K) (u : cunit) (x ratio : K) : K :=
  match u with Stress => x | Displacement => nmul N x ratio end.

Lemma transmission_select : forall (K : Type) (N : Num K) (fluid solid : material K) (alpha : K) (u : cunit),
  let rf := m_rho fluid in let vf := m_vl fluid in
  let rs := m_rho solid in let vl := m_vl solid in let vt := m_vt solid in
  let fs := fluid_solid_auto N alpha rf rs vf vl vt in
  let lf := solid_l_fluid_auto N alpha rf rs vf vl vt in
  let tf := solid_t_fluid_auto N alpha rf rs vf vl vt in
  transmission_at_interface N FluidSolid fluid solid ModeL ModeL alpha u
    = Some (in_unit N u (snd3 fs) (ndiv N (nmul N rf vf) (nmul N rs vl))) /\
  transmission_at_interface N FluidSolid fluid solid ModeL ModeT alpha u
    = Some (in_unit N u (thd3 fs) (ndiv N (nmul N rf vf) (nmul N rs vt))) /\
  transmission_at_interface N SolidFluid solid fluid ModeL ModeL alpha u
    = Some (in_unit N u (thd3 lf) (ndiv N (nmul N rs vl) (nmul N rf vf))) /\
  transmission_at_interface N SolidFluid solid fluid ModeT ModeL alpha u
    = Some (in_unit N u (thd3 tf) (ndiv N (nmul N rs vt) (nmul N rf vf))) /\
  (forall m, transmission_at_interface N FluidSolid fluid solid ModeT m alpha u = None) /\
  (forall m, transmission_at_interface N SolidFluid solid fluid m ModeT alpha u = None).
Proof.
  intros K N fluid solid alpha u. cbv zeta.
  repeat split; try (destruct u; reflexivity); intro m; destruct m; reflexivity.
Qed.

Lemma reflection_select : forall (K : Type) (N : Num K) (fluid solid : material K) (alpha : K) (u : cunit),
  let rf := m_rho fluid in let vf := m_vl fluid in
  let rs := m_rho solid in let vl := m_vl solid in let vt := m_vt solid in
  let fs := fluid_solid_auto N alpha rf rs vf vl vt in
  let lf := solid_l_fluid_auto N alpha rf rs vf vl vt in
  let tf := solid_t_fluid_auto N alpha rf rs vf vl vt in
  reflection_at_interface N SolidFluid solid fluid ModeL ModeL alpha u
    = Some (in_unit N u (fst3 lf) (ndiv N vl vl)) /\
  reflection_at_interface N SolidFluid solid fluid ModeL ModeT alpha u
    = Some (in_unit N u (snd3 lf) (ndiv N vl vt)) /\
  reflection_at_interface N SolidFluid solid fluid ModeT ModeL alpha u
    = Some (in_unit N u (fst3 tf) (ndiv N vt vl)) /\
  reflection_at_interface N SolidFluid solid fluid ModeT ModeT alpha u
    = Some (in_unit N u (snd3 tf) (ndiv N vt vt)) /\
  reflection_at_interface N FluidSolid fluid solid ModeL ModeL alpha u
    = Some (in_unit N u (fst3 fs) (ndiv N vf vf)) /\
  reflection_at_interface N FluidSolid fluid solid ModeT ModeL alpha u = None /\
  reflection_at_interface N FluidSolid fluid solid ModeL ModeT alpha u = None /\
  reflection_at_interface N FluidSolid fluid solid ModeT ModeT alpha u = None.
Proof.
  intros K N fluid solid alpha u. cbv zeta.
  repeat split; destruct u; reflexivity.
Qed.
