(* Proofs/FermatGlueProofs.v — lemmas about Model/FermatGlue.v, parts A (FermatPath as a tuple),
   B (_solve on the tuple) and C (dict / iterables / solver object / ray_tracing_for_paths /
   ray_tracing).  Axiom-free. *)
From Coq Require Import Arith List Bool ZArith Lia.
From Arim Require Import Base.ListX Model.MinPlus Model.Fermat Model.FermatGlue
                         Proofs.MinPlusProofs Proofs.FermatProofs.
Import ListNotations.

(* ---------- generic list facts ---------- *)
Lemma list_ind2 {A} (P : list A -> Prop) :
  P [] -> (forall x, P [x]) -> (forall x y l, P l -> P (x :: y :: l)) -> forall l, P l.
Proof.
  intros H0 H1 H2. fix IH 1. intros [|x [|y l]]; [exact H0 | apply H1 | apply H2, IH].
Qed.

Lemma forallb_rev {A} (f : A -> bool) l : forallb f (rev l) = forallb f l.
Proof.
  destruct (forallb f l) eqn:E.
  - apply forallb_forall. intros x Hx. apply in_rev in Hx. eapply forallb_forall in E; eauto.
  - destruct (forallb f (rev l)) eqn:E'; [|reflexivity].
    rewrite <- E. symmetry. apply forallb_forall. intros x Hx. apply in_rev in Hx.
    eapply forallb_forall in E'; eauto.
Qed.

Lemma forallb_map' {A B} (f : B -> bool) (g : A -> B) l : forallb f (map g l) = forallb (fun x => f (g x)) l.
Proof. induction l; simpl; congruence. Qed.

Lemma last_cons_cons {A} (x y : A) l d : last (x :: y :: l) d = last (y :: l) d.
Proof. reflexivity. Qed.

Lemma last_nonempty_indep {A} (l : list A) : forall y d d', last (y :: l) d = last (y :: l) d'.
Proof.
  induction l as [|z l IH]; intros y d d'; [reflexivity|].
  rewrite !(last_cons_cons y z). apply IH.
Qed.

Lemma last_cons_default {A} (x : A) l d : last (x :: l) d = last l x.
Proof.
  destruct l as [|y l]; [reflexivity|]. rewrite last_cons_cons. apply last_nonempty_indep.
Qed.

Lemma all_some_Forall2 {A B} (f : A -> option B) l rl :
  all_some (map f l) = Some rl -> Forall2 (fun a r => f a = Some r) l rl.
Proof.
  revert rl; induction l as [|a l IH]; intros rl; simpl.
  - intros [= <-]. constructor.
  - destruct (f a) as [r|] eqn:E; [|discriminate].
    destruct (all_some (map f l)) as [rl'|]; [|discriminate]. intros [= <-].
    constructor; auto.
Qed.

Lemma Forall2_length {A B} {R : A -> B -> Prop} {l l'} : Forall2 R l l' -> length l = length l'.
Proof. induction 1; simpl; auto. Qed.

Lemma all_some_None_ex {A B} (f : A -> option B) l :
  all_some (map f l) = None <-> exists a, In a l /\ f a = None.
Proof.
  induction l as [|a l IH]; simpl.
  - split; [discriminate | intros (a & [] & _)].
  - destruct (f a) as [r|] eqn:E.
    + destruct (all_some (map f l)) as [rl|].
      * split; [discriminate|]. intros (a' & [<-|Hin] & Ha'); [congruence|].
        destruct IH as [_ IH]. discriminate IH. eauto.
      * split; [|reflexivity]. intros _. destruct IH as [IH _].
        destruct (IH eq_refl) as (a' & Hin & Ha'). eauto.
    + split; [|reflexivity]. intros _. eauto.
Qed.

Lemma all_some_map_ext_in {A B} (f g : A -> option B) l :
  (forall a, In a l -> f a = g a) -> all_some (map f l) = all_some (map g l).
Proof. intros H. f_equal. now apply map_ext_in. Qed.

Lemma all_some_option_map {A B C} (g : A -> option B) (f : B -> C) l :
  all_some (map (fun a => option_map f (g a)) l) = option_map (map f) (all_some (map g l)).
Proof.
  induction l as [|a l IH]; [reflexivity|]. simpl. destruct (g a) as [b|]; [|reflexivity]. simpl.
  rewrite IH. destruct (all_some (map g l)); reflexivity.
Qed.

(* ======================= Part A ======================= *)
Section TupleProofs.
  Variables V PS : Type.
  Variable v_finite : V -> bool.
  Variable size : PS -> nat.
  Notation fpath := (fpath V PS).
  Notation item := (item V PS).
  Notation fp_new := (fp_new v_finite).

  Definition item2 (vp : V * PS) : list item := [IV (fst vp); IP (snd vp)].

  Fixpoint legs_of (p : fpath) : list (V * PS) :=
    match p with Start _ => [] | Leg h v P => legs_of h ++ [(v, P)] end.

  Lemma unparse_legs (p : fpath) : unparse p = IP (startp p) :: flat_map item2 (legs_of p).
  Proof.
    induction p as [P|h IH v P]; [reflexivity|]. cbn [unparse legs_of startp].
    rewrite IH, flat_map_app. reflexivity.
  Qed.

  Lemma mk_path_snoc P0 legs v P : mk_path P0 (legs ++ [(v, P)]) = Leg (mk_path P0 legs) v P :> fpath.
  Proof. unfold mk_path. now rewrite fold_left_app. Qed.

  Lemma mk_path_legs (p : fpath) : mk_path (startp p) (legs_of p) = p.
  Proof. induction p as [P|h IH v P]; [reflexivity|]. cbn [legs_of startp]. now rewrite mk_path_snoc, IH. Qed.

  Lemma legs_of_mk P0 legs : legs_of (mk_path P0 legs) = legs /\ startp (mk_path P0 legs : fpath) = P0.
  Proof.
    induction legs as [|[v P] legs IH] using rev_ind; [split; reflexivity|].
    rewrite mk_path_snoc. cbn [legs_of startp]. destruct IH as [-> ->]. auto.
  Qed.

  Lemma unparse_mk_path P0 legs : unparse (mk_path P0 legs) = IP P0 :: flat_map item2 legs.
  Proof. rewrite unparse_legs. destruct (legs_of_mk P0 legs) as [-> ->]. reflexivity. Qed.

  Lemma unparse_prepend P0 v (q : fpath) : unparse (prepend P0 v q) = IP P0 :: IV v :: unparse q.
  Proof. induction q as [P|h IH v' P]; [reflexivity|]. cbn [prepend unparse]. now rewrite IH. Qed.

  Lemma unparse_length (p : fpath) : length (unparse p) = 2 * nlegs p + 1.
  Proof. induction p as [P|h IH v P]; [reflexivity|]. cbn [unparse nlegs]. rewrite app_length, IH. simpl. lia. Qed.

  Lemma unparse_hd (p : fpath) : exists s, unparse p = IP (startp p) :: s.
  Proof. rewrite unparse_legs. eauto. Qed.

  (* ---- parse / unparse: alternating tuples are exactly the fpaths ---- *)
  Fixpoint graft (h0 : fpath) (p : fpath) : fpath :=
    match p with Start _ => h0 | Leg h v P => Leg (graft h0 h) v P end.

  Lemma graft_start (p : fpath) : graft (Start (startp p)) p = p.
  Proof. induction p as [P|h IH v P]; [reflexivity|]. cbn [graft startp]. now rewrite IH. Qed.

  Lemma parse_legs_flat (p : fpath) : forall h0 rest,
    parse_legs h0 (flat_map item2 (legs_of p) ++ rest) = parse_legs (graft h0 p) rest.
  Proof.
    induction p as [P|h IH v P]; intros h0 rest; [reflexivity|].
    cbn [legs_of graft]. rewrite flat_map_app, <- app_assoc. cbn [flat_map item2 fst snd app].
    rewrite IH. reflexivity.
  Qed.

  Theorem parse_unparse (p : fpath) : parse (unparse p) = Some p.
  Proof.
    rewrite unparse_legs. cbn [parse].
    rewrite <- (app_nil_r (flat_map item2 (legs_of p))), parse_legs_flat. cbn. now rewrite graft_start.
  Qed.

  Lemma parse_legs_sound : forall (s : list item) (h p : fpath), parse_legs h s = Some p -> unparse p = unparse h ++ s.
  Proof.
    induction s as [| x | x y s IH] using list_ind2; intros h p.
    - cbn. intros [= <-]. now rewrite app_nil_r.
    - destruct x; discriminate.
    - destruct x as [|v]; [discriminate|]. destruct y as [P|]; [|discriminate]. cbn [parse_legs].
      intros H. rewrite (IH _ _ H). cbn [unparse]. now rewrite <- app_assoc.
  Qed.

  Theorem unparse_parse (s : list item) (p : fpath) : parse s = Some p -> s = unparse p.
  Proof.
    destruct s as [|[P|v] s]; try discriminate. cbn [parse]. intros H.
    now rewrite (parse_legs_sound _ _ _ H).
  Qed.

  (* ---- self[0::2], self[1::2] ---- *)
  Lemma evens_cons2 (x y : item) s : evens (x :: y :: s) = x :: evens s.
  Proof. reflexivity. Qed.

  Lemma flat_item2_cons v P legs : flat_map item2 ((v, P) :: legs) = IV v :: IP P :: flat_map item2 legs.
  Proof. reflexivity. Qed.

  Lemma evens_flat P0 legs :
    evens (IP P0 :: flat_map item2 legs) = IP P0 :: map (fun vp => IP (snd vp)) legs.
  Proof.
    revert P0; induction legs as [|[v P] legs IH]; intros P0; [reflexivity|].
    rewrite flat_item2_cons, evens_cons2, IH. reflexivity.
  Qed.

  Lemma evens_flat' legs :
    evens (flat_map item2 legs) = map (fun vp => IV (fst vp)) legs.
  Proof.
    induction legs as [|[v P] legs IH]; [reflexivity|].
    rewrite flat_item2_cons, evens_cons2, IH. reflexivity.
  Qed.

  Lemma odds_flat P0 legs :
    odds (IP P0 :: flat_map item2 legs) = map (fun vp => IV (fst vp)) legs.
  Proof. unfold odds. cbn [tl]. apply evens_flat'. Qed.

  Lemma legs_points (p : fpath) : path_points p = startp p :: map snd (legs_of p).
  Proof.
    induction p as [P|h IH v P]; [reflexivity|]. cbn [path_points legs_of startp].
    rewrite IH, map_app. reflexivity.
  Qed.

  Lemma legs_velocities (p : fpath) : path_velocities p = map fst (legs_of p).
  Proof.
    induction p as [P|h IH v P]; [reflexivity|]. cbn [path_velocities legs_of].
    rewrite IH, map_app. reflexivity.
  Qed.

  Theorem fp_points_unparse (p : fpath) : fp_points (unparse p) = map IP (path_points p).
  Proof.
    unfold fp_points. rewrite unparse_legs, evens_flat, legs_points. cbn [map]. now rewrite map_map.
  Qed.

  Theorem fp_velocities_unparse (p : fpath) : fp_velocities (unparse p) = map IV (path_velocities p).
  Proof.
    unfold fp_velocities. rewrite unparse_legs, odds_flat, legs_velocities. now rewrite map_map.
  Qed.

  Lemma path_points_length (p : fpath) : length (path_points p) = S (nlegs p).
  Proof. induction p as [P|h IH v P]; [reflexivity|]. cbn [path_points nlegs]. rewrite app_length, IH. simpl. lia. Qed.

  Lemma path_velocities_length (p : fpath) : length (path_velocities p) = nlegs p.
  Proof. induction p as [P|h IH v P]; [reflexivity|]. cbn [path_velocities nlegs]. rewrite app_length, IH. simpl. lia. Qed.

  Theorem fp_num_points_sets_unparse (p : fpath) : fp_num_points_sets (unparse p) = S (nlegs p).
  Proof.
    unfold fp_num_points_sets. rewrite unparse_length.
    replace (2 * nlegs p + 1) with (1 + nlegs p * 2) by lia.
    rewrite Nat.div_add by lia. simpl. lia.
  Qed.

  (* ---- __new__ ---- *)
  Definition vel_finite (p : fpath) : bool := forallb v_finite (path_velocities p).

  Theorem fp_new_unparse (p : fpath) :
    fp_new (unparse p)
    = if nlegs p =? 0 then inl ValueError
      else if vel_finite p then inr (unparse p) else inl AssertionError.
  Proof.
    unfold FermatGlue.fp_new. rewrite unparse_length.
    replace (Nat.even (2 * nlegs p + 1)) with false.
    2:{ symmetry. rewrite Nat.add_1_r, Nat.even_succ, <- Nat.negb_even, Nat.even_mul. reflexivity. }
    cbn [orb].
    destruct (nlegs p) as [|k] eqn:En; [reflexivity|].
    replace (2 * S k + 1 <? 3) with false by (symmetry; apply Nat.ltb_ge; lia).
    cbn [Nat.eqb].
    change (odds (unparse p)) with (fp_velocities (unparse p)). rewrite fp_velocities_unparse.
    replace (existsb is_IP (map IV (path_velocities p))) with false.
    2:{ symmetry. induction (path_velocities p); simpl; auto. }
    unfold vel_finite. rewrite forallb_map'. reflexivity.
  Qed.

  (* a path with a single point set cannot be built; a path with >= 1 leg and finite velocities can *)
  Corollary fp_new_single (P : PS) : fp_new (unparse (Start P : fpath)) = inl ValueError.
  Proof. now rewrite fp_new_unparse. Qed.

  Corollary fp_new_ok (p : fpath) : 1 <= nlegs p -> vel_finite p = true -> fp_new (unparse p) = inr (unparse p).
  Proof.
    intros Hn Hf. rewrite fp_new_unparse, Hf. destruct (nlegs p); [lia | reflexivity].
  Qed.

  (* ---- reverse ---- *)
  Theorem unparse_reverse (p : fpath) : rev (unparse p) = unparse (path_reverse p).
  Proof.
    induction p as [P|h IH v P]; [reflexivity|].
    cbn [unparse path_reverse]. rewrite rev_app_distr. cbn [rev app]. rewrite IH, unparse_prepend.
    reflexivity.
  Qed.

  Lemma points_prepend P0 v (q : fpath) : path_points (prepend P0 v q) = P0 :: path_points q.
  Proof. induction q as [P|h IH v' P]; [reflexivity|]. cbn [prepend path_points]. now rewrite IH. Qed.

  Lemma velocities_prepend P0 v (q : fpath) : path_velocities (prepend P0 v q) = v :: path_velocities q.
  Proof. induction q as [P|h IH v' P]; [reflexivity|]. cbn [prepend path_velocities]. now rewrite IH. Qed.

  Lemma points_reverse (p : fpath) : path_points (path_reverse p) = rev (path_points p).
  Proof.
    induction p as [P|h IH v P]; [reflexivity|]. cbn [path_reverse path_points].
    rewrite points_prepend, IH, rev_app_distr. reflexivity.
  Qed.

  Lemma velocities_reverse (p : fpath) : path_velocities (path_reverse p) = rev (path_velocities p).
  Proof.
    induction p as [P|h IH v P]; [reflexivity|]. cbn [path_reverse path_velocities].
    rewrite velocities_prepend, IH, rev_app_distr. reflexivity.
  Qed.

  Lemma vel_finite_reverse (p : fpath) : vel_finite (path_reverse p) = vel_finite p.
  Proof. unfold vel_finite. now rewrite velocities_reverse, forallb_rev. Qed.

  Theorem fp_reverse_unparse (p : fpath) : 1 <= nlegs p -> vel_finite p = true ->
    fp_reverse v_finite (unparse p) = inr (unparse (path_reverse p)).
  Proof.
    intros Hn Hf. unfold fp_reverse. rewrite unparse_reverse. apply fp_new_ok.
    - now rewrite nlegs_reverse.
    - now rewrite vel_finite_reverse.
  Qed.

  (* ---- split_queue / split_head ---- *)
  Lemma vel_finite_leg h v P : vel_finite (Leg h v P) = vel_finite h && v_finite v.
  Proof. unfold vel_finite. cbn [path_velocities]. rewrite forallb_app. simpl. now rewrite andb_true_r. Qed.

  Theorem fp_split_queue_unparse h' v' Pm v P :
    vel_finite (Leg (Leg h' v' Pm) v P) = true ->
    fp_split_queue v_finite (unparse (Leg (Leg h' v' Pm) v P))
    = inr (unparse (Leg h' v' Pm), unparse (Leg (Start Pm) v P)).
  Proof.
    intros Hf. unfold fp_split_queue.
    pose proof (unparse_length (Leg (Leg h' v' Pm) v P)) as HL. cbn [nlegs] in HL.
    replace (length (unparse (Leg (Leg h' v' Pm) v P)) <? 5) with false by (symmetry; apply Nat.ltb_ge; lia).
    rewrite vel_finite_leg in Hf. apply andb_prop in Hf as [Hf1 Hf2].
    assert (E1 : firstn (length (unparse (Leg (Leg h' v' Pm) v P)) - 2) (unparse (Leg (Leg h' v' Pm) v P))
                 = unparse (Leg h' v' Pm)).
    { cbn [unparse]. rewrite !app_length. cbn [length].
      replace (length (unparse h') + 2 + 2 - 2) with (length (unparse h' ++ [IV v'; IP Pm]) + 0)
        by (rewrite app_length; simpl; lia).
      rewrite firstn_app_2. cbn. now rewrite app_nil_r. }
    assert (E2 : skipn (length (unparse (Leg (Leg h' v' Pm) v P)) - 3) (unparse (Leg (Leg h' v' Pm) v P))
                 = unparse (Leg (Start Pm) v P)).
    { cbn [unparse]. rewrite !app_length. cbn [length].
      replace ((unparse h' ++ [IV v'; IP Pm]) ++ [IV v; IP P])
        with ((unparse h' ++ [IV v']) ++ [IP Pm; IV v; IP P]) by (rewrite <- !app_assoc; reflexivity).
      replace (length (unparse h') + 2 + 2 - 3) with (length (unparse h' ++ [IV v'])) by (rewrite app_length; simpl; lia).
      rewrite skipn_app, Nat.sub_diag, skipn_all. reflexivity. }
    rewrite E1, E2. rewrite (fp_new_ok (Leg h' v' Pm)) by (cbn [nlegs]; auto; lia).
    rewrite (fp_new_ok (Leg (Start Pm) v P)).
    - reflexivity.
    - cbn; lia.
    - rewrite vel_finite_leg. now rewrite Hf2.
  Qed.

  Theorem fp_split_short (p : fpath) : nlegs p <= 1 ->
    fp_split_queue v_finite (unparse p) = inl ValueError /\ fp_split_head v_finite (unparse p) = inl ValueError.
  Proof.
    intros Hn. unfold fp_split_queue, fp_split_head. rewrite unparse_length.
    replace (2 * nlegs p + 1 <? 5) with true by (symmetry; apply Nat.ltb_lt; lia). auto.
  Qed.

  Lemma vel_finite_prepend P0 v (q : fpath) : vel_finite (prepend P0 v q) = v_finite v && vel_finite q.
  Proof. unfold vel_finite. now rewrite velocities_prepend. Qed.

  Theorem fp_split_head_unparse P0 v (q : fpath) :
    1 <= nlegs q -> vel_finite (prepend P0 v q) = true ->
    fp_split_head v_finite (unparse (prepend P0 v q))
    = inr (unparse (Leg (Start P0) v (startp q)), unparse q).
  Proof.
    intros Hn Hf. unfold fp_split_head. rewrite unparse_length, nlegs_prepend.
    replace (2 * S (nlegs q) + 1 <? 5) with false by (symmetry; apply Nat.ltb_ge; lia).
    rewrite unparse_prepend. destruct (unparse_hd q) as [s Hs]. rewrite Hs.
    cbn [firstn skipn]. rewrite <- Hs.
    rewrite vel_finite_prepend in Hf. apply andb_prop in Hf as [Hf1 Hf2].
    change [IP P0; IV v; IP (startp q)] with (unparse (Leg (Start P0) v (startp q))).
    rewrite (fp_new_ok (Leg (Start P0) v (startp q))).
    - now rewrite (fp_new_ok q).
    - cbn; lia.
    - rewrite vel_finite_leg. now rewrite Hf1.
  Qed.

  (* every path with >= 1 leg is (P0, v0, *rest) *)
  Lemma prepend_drop_first (p : fpath) : 1 <= nlegs p ->
    exists v, p = prepend (startp p) v (drop_first p).
  Proof.
    induction p as [P|h IH v P]; [simpl; lia|]. intros _.
    destruct h as [P0|h' v' Pm].
    - exists v. reflexivity.
    - destruct IH as [v0 IH]; [cbn; lia|]. exists v0.
      change (drop_first (Leg (Leg h' v' Pm) v P)) with (Leg (drop_first (Leg h' v' Pm)) v P).
      cbn [startp prepend]. cbn [startp] in IH. now rewrite <- IH.
  Qed.

  (* ---- len_largest_interface ---- *)
  Theorem fp_len_largest_unparse (p : fpath) :
    fp_len_largest_interface size (unparse p)
    = Some (fold_right Nat.max 0 (map size (removelast (tl (path_points p))))).
  Proof.
    unfold fp_len_largest_interface. rewrite fp_points_unparse.
    assert (E : removelast (tl (map IP (path_points p))) = map (@IP V PS) (removelast (tl (path_points p)))).
    { generalize (path_points p). intros l. destruct l as [|x l]; [reflexivity|]. cbn [tl map].
      induction l as [|y l IH]; [reflexivity|]. cbn [map]. destruct l; [reflexivity|].
      cbn [removelast map] in *. now rewrite IH. }
    rewrite E, map_map. cbn [item_len].
    rewrite (all_some_map_Some size). reflexivity.
  Qed.

  (* ---- from_path ---- *)
  Lemma from_path_pieces : forall (vs : list V) (P0 : PS) (rest : list PS), length vs = length rest ->
    flat_map (fun pv : PS * V => [IP (fst pv); IV (snd pv)]) (combine (P0 :: rest) vs) ++ [IP (last rest P0)]
    = IP P0 :: flat_map item2 (combine vs rest).
  Proof.
    induction vs as [|v vs IH]; intros P0 rest HL.
    - destruct rest; [reflexivity | discriminate].
    - destruct rest as [|P1 rest]; [discriminate|]. injection HL as HL.
      change (combine (P0 :: P1 :: rest) (v :: vs)) with ((P0, v) :: combine (P1 :: rest) vs).
      change (combine (v :: vs) (P1 :: rest)) with ((v, P1) :: combine vs rest).
      rewrite last_cons_default, flat_item2_cons. cbn [flat_map fst snd app].
      rewrite (IH P1 rest HL). reflexivity.
  Qed.

  (* a Path object (numinterfaces = numlegs + 1, as Path.__init__ asserts) gives the tuple
     (P0, v0, P1, ..., Pn) *)
  Theorem fp_from_path_wf P0 rest vs : length vs = length rest ->
    fp_from_path v_finite (P0 :: rest) vs = fp_new (unparse (mk_path P0 (combine vs rest) : fpath)).
  Proof.
    intros HL. unfold fp_from_path. rewrite (from_path_pieces vs P0 rest HL), unparse_mk_path. reflexivity.
  Qed.

  Lemma mk_path_points_vels : forall vs P0 rest, length vs = length rest ->
    path_points (mk_path P0 (combine vs rest) : fpath) = P0 :: rest
    /\ path_velocities (mk_path P0 (combine vs rest) : fpath) = vs.
  Proof.
    intros vs P0 rest HL. rewrite legs_points, legs_velocities.
    destruct (legs_of_mk P0 (combine vs rest)) as [-> ->]. split.
    - f_equal. revert rest HL; induction vs as [|v vs IH]; intros [|P rest] HL; try discriminate; [reflexivity|].
      injection HL as HL. cbn. now rewrite IH.
    - revert rest HL; induction vs as [|v vs IH]; intros [|P rest] HL; try discriminate; [reflexivity|].
      injection HL as HL. cbn. now rewrite IH.
  Qed.

  Lemma path_eq_by_lists (p q : fpath) :
    path_points p = path_points q -> path_velocities p = path_velocities q -> p = q.
  Proof.
    revert q; induction p as [P|h IH v P]; intros [Q|h' v' Q] Hp Hv.
    - cbn in Hp. now injection Hp as <-.
    - cbn in Hv. destruct (path_velocities h'); discriminate.
    - cbn in Hv. destruct (path_velocities h); discriminate.
    - cbn [path_points path_velocities] in *.
      apply app_inj_tail in Hp as [Hp <-]. apply app_inj_tail in Hv as [Hv <-].
      now rewrite (IH h' Hp Hv).
  Qed.

  (* Path.reverse() (reversed interfaces with the same Points, reversed materials and modes)
     gives the reversed FermatPath *)
  Theorem fp_from_path_reverse (ifs : list PS) (vs : list V) (s : list item) : length ifs = S (length vs) ->
    fp_from_path v_finite ifs vs = inr s ->
    fp_from_path v_finite (rev ifs) (rev vs) = inr (rev s).
  Proof.
    intros HL H. destruct ifs as [|P0 rest]; [discriminate|]. injection HL as HL.
    rewrite (fp_from_path_wf P0 rest vs) in H by lia.
    set (p := mk_path P0 (combine vs rest) : fpath) in *.
    assert (Hs : s = unparse p /\ 1 <= nlegs p /\ vel_finite p = true).
    { rewrite fp_new_unparse in H. destruct (nlegs p); [discriminate|]. cbn in H.
      destruct (vel_finite p); [|discriminate]. injection H as <-. repeat split; lia. }
    destruct Hs as (-> & Hn & Hf).
    destruct (mk_path_points_vels vs P0 rest (eq_sym HL)) as [Hpts Hvel]. fold p in Hpts, Hvel.
    destruct (rev (P0 :: rest)) as [|Q0 rest2] eqn:Er.
    { apply (f_equal (@length PS)) in Er. rewrite rev_length in Er. discriminate. }
    assert (HL2 : length (rev vs) = length rest2).
    { apply (f_equal (@length PS)) in Er. rewrite rev_length in Er. cbn in Er. rewrite rev_length. lia. }
    rewrite (fp_from_path_wf Q0 rest2 (rev vs) HL2).
    destruct (mk_path_points_vels (rev vs) Q0 rest2 HL2) as [Hpts2 Hvel2].
    assert (E : mk_path Q0 (combine (rev vs) rest2) = path_reverse p).
    { apply path_eq_by_lists.
      - now rewrite Hpts2, points_reverse, Hpts, Er.
      - now rewrite Hvel2, velocities_reverse, Hvel. }
    rewrite E, unparse_reverse. apply fp_new_ok.
    - now rewrite nlegs_reverse.
    - now rewrite vel_finite_reverse.
  Qed.

  Lemma seq_end_unparse (p : fpath) : seq_end (unparse p) = Some (endp p).
  Proof. unfold seq_end. destruct p as [P|h v P]; [reflexivity|]. cbn [unparse]. now rewrite rev_app_distr. Qed.
End TupleProofs.

Arguments vel_finite {V PS}.
Arguments legs_of {V PS}.

(* ======================= Part B ======================= *)
Section SeqSolverProofs.
  Variables T D V PS : Type.
  Variable ltb : T -> T -> bool.
  Variable add : T -> T -> T.
  Variable v_finite : V -> bool.
  Variable size : PS -> nat.
  Variable dtab : PS -> PS -> list (list D).
  Variable divv : D -> V -> T.
  Notation fpath := (fpath V PS).
  Notation solve_pure := (solve_pure ltb add size dtab divv).
  Notation solve_seq := (solve_seq ltb add v_finite size dtab divv).

  Lemma unparse_long h' v' Pm v P :
    exists a b c d e rest, unparse (Leg (Leg h' v' Pm : fpath) v P) = a :: b :: c :: d :: e :: rest.
  Proof.
    pose proof (unparse_length V PS (Leg (Leg h' v' Pm) v P)) as HL. cbn [nlegs] in HL.
    destruct (unparse (Leg (Leg h' v' Pm) v P)) as [|a [|b [|c [|d [|e rest]]]]]; simpl in HL; try lia.
    repeat eexists.
  Qed.

  (* a tuple of length >= 5 is not the special case len(path) == 3 *)
  Lemma solve_seq_long f a b c d e rest :
    solve_seq (S f) (a :: b :: c :: d :: e :: rest)
    = match fp_split_queue v_finite (a :: b :: c :: d :: e :: rest) with
      | inl _ => None
      | inr (head, tail) =>
          match solve_seq f head, solve_seq f tail with
          | Some rh, Some rt =>
              match seq_end head, seq_end tail with
              | Some Pm, Some P =>
                  match find_minimum_times ltb add (size Pm) (r_times rh)
                          (transpose (size P) (r_times rt)) with
                  | None => None
                  | Some ti => Some (mkRays (fst ti) (expand_rays (r_int rh) (snd ti)))
                  end
              | _, _ => None
              end
          | _, _ => None
          end
      end.
  Proof. destruct a; [destruct b; [reflexivity | destruct c; reflexivity] | reflexivity]. Qed.

  Lemma solve_pure_step' h' v' Pm v P :
    solve_pure (Leg (Leg h' v' Pm) v P)
    = match solve_pure (Leg h' v' Pm) with
      | None => None
      | Some rh =>
          match find_minimum_times ltb add (size Pm) (r_times rh)
                  (transpose (size P) (leg_times divv (dtab Pm P) v)) with
          | None => None
          | Some ti => Some (mkRays (fst ti) (expand_rays (r_int rh) (snd ti)))
          end
      end.
  Proof. reflexivity. Qed.

  (* the recursion of _solve over split_queue on the tuple IS the structural recursion of
     Model/Fermat.solve_pure over the snoc structure *)
  Theorem solve_seq_correct (p : fpath) : forall fuel,
    1 <= nlegs p -> nlegs p <= fuel -> vel_finite v_finite p = true ->
    solve_seq fuel (unparse p) = solve_pure p.
  Proof.
    induction p as [P0|h IH v P]; intros fuel Hn Hfuel Hf; [simpl in Hn; lia|].
    destruct fuel as [|f]; [simpl in Hfuel; lia|].
    destruct h as [P0|h' v' Pm].
    - reflexivity.
    - destruct (unparse_long h' v' Pm v P) as (a & b & c & d & e & rest & Es).
      rewrite Es, solve_seq_long, <- Es.
      rewrite (fp_split_queue_unparse V PS v_finite h' v' Pm v P Hf).
      pose proof Hf as Hf'. rewrite vel_finite_leg in Hf'. apply andb_prop in Hf' as [Hf1 Hf2].
      cbn [nlegs] in Hfuel.
      rewrite (IH f) by (cbn [nlegs]; auto; lia).
      rewrite solve_pure_step'.
      destruct (solve_pure (Leg h' v' Pm)) as [rh|]; [|reflexivity].
      destruct f as [|f']; [lia|].
      change (FermatGlue.solve_seq ltb add v_finite size dtab divv (S f') (unparse (Leg (Start Pm) v P)))
        with (Some (two_interfaces (leg_times divv (dtab Pm P) v))).
      rewrite !seq_end_unparse. reflexivity.
  Qed.
End SeqSolverProofs.

(* ======================= Part C ======================= *)
Section AssemblyProofs.
  Variables T D V PS : Type.
  Variable ltb : T -> T -> bool.
  Variable add : T -> T -> T.
  Variable ps_eqb : PS -> PS -> bool.
  Variable v_eqb : V -> V -> bool.
  Variable v_finite : V -> bool.
  Variable size : PS -> nat.
  Variable dtab : PS -> PS -> list (list D).
  Variable divv : D -> V -> T.
  (* identity of Points objects decides equality of the objects; == on (finite) velocities
     decides equality of the values *)
  Hypothesis ps_eqb_spec : forall a b, ps_eqb a b = true <-> a = b.
  Hypothesis v_eqb_spec : forall a b, v_eqb a b = true <-> a = b.

  Notation fpath := (fpath V PS).
  Notation solve_pure := (solve_pure ltb add size dtab divv).
  Notation eqb := (fpath_eqb ps_eqb v_eqb).
  Notation dget := (dict_get ps_eqb v_eqb).
  Notation dset := (dict_set ps_eqb v_eqb).
  Notation inv := (inv T D V PS ltb add ps_eqb v_eqb size dtab divv).
  Notation solve_loop := (solve_loop ltb add ps_eqb v_eqb size dtab divv).
  Notation solver_init := (@solver_init T D V PS).
  Notation solver_solve_obj := (solver_solve_obj ltb add ps_eqb v_eqb size dtab divv).
  Notation solver_solve_times := (solver_solve_times ltb add ps_eqb v_eqb size dtab divv).

  Lemma v_eqb_sound : forall a b, v_eqb a b = true -> a = b.
  Proof. intros a b. apply v_eqb_spec. Qed.

  Lemma eqb_eq (a b : fpath) : eqb a b = true <-> a = b.
  Proof.
    split; [apply (fpath_eqb_eq V PS ps_eqb v_eqb ps_eqb_spec v_eqb_sound)|].
    intros <-. induction a as [P|h IH v P]; simpl.
    - now apply ps_eqb_spec.
    - rewrite IH. cbn [andb]. rewrite (proj2 (v_eqb_spec v v) eq_refl), (proj2 (ps_eqb_spec P P) eq_refl).
      reflexivity.
  Qed.

  Lemma eqb_refl (a : fpath) : eqb a a = true.
  Proof. now apply eqb_eq. Qed.

  Lemma eqb_neq (a b : fpath) : a <> b -> eqb a b = false.
  Proof. intros H. destruct (eqb a b) eqn:E; [|reflexivity]. apply eqb_eq in E. contradiction. Qed.

  Lemma eqb_false_neq (a b : fpath) : eqb a b = false -> a <> b.
  Proof. intros E ->. rewrite eqb_refl in E. discriminate. Qed.

  (* ---- the dict ---- *)
  Lemma dget_set_same {X} k (x : X) d : dget k (dset k x d) = Some x.
  Proof.
    induction d as [|[k' x'] d IH]; simpl.
    - now rewrite eqb_refl.
    - destruct (eqb k k') eqn:E; simpl; rewrite E; auto.
  Qed.

  Lemma dget_set_other {X} k k' (x : X) d : k <> k' -> dget k' (dset k x d) = dget k' d.
  Proof.
    intros Hne. induction d as [|[k0 x0] d IH]; simpl.
    - rewrite eqb_neq; auto.
    - destruct (eqb k k0) eqn:E; simpl.
      + apply eqb_eq in E. subst k0. rewrite eqb_neq by auto. reflexivity.
      + destruct (eqb k' k0); auto.
  Qed.

  Lemma dset_idem {X} k (x : X) d : dget k d = Some x -> dset k x d = d.
  Proof.
    induction d as [|[k0 x0] d IH]; simpl; [discriminate|].
    destruct (eqb k k0) eqn:E.
    - intros [= ->]. reflexivity.
    - intros H. now rewrite IH.
  Qed.

  Lemma dset_keys_in {X} k (x : X) d k0 :
    In k0 (map fst (dset k x d)) -> In k0 (map fst d) \/ k0 = k.
  Proof.
    induction d as [|[k' x'] d IH]; simpl.
    - intros [<-|[]]. auto.
    - destruct (eqb k k'); simpl.
      + intros [<-|H]; auto.
      + intros [<-|H]; auto. destruct (IH H); auto.
  Qed.

  Lemma dset_keys_nodup {X} k (x : X) d : NoDup (map fst d) -> NoDup (map fst (dset k x d)).
  Proof.
    induction d as [|[k' x'] d IH]; simpl; intros Hnd.
    - constructor; [intros []|constructor].
    - inversion Hnd as [|? ? Hnin Hnd']; subst. destruct (eqb k k') eqn:E; simpl.
      + constructor; assumption.
      + constructor; [|auto]. intros Hin. apply dset_keys_in in Hin as [Hin|Heq]; [contradiction|].
        subst k'. rewrite eqb_refl in E. discriminate.
  Qed.

  Lemma dget_in_keys {X} k (x : X) d : dget k d = Some x -> In k (map fst d).
  Proof.
    induction d as [|[k' x'] d IH]; simpl; [discriminate|].
    destruct (eqb k k') eqn:E; [|auto]. apply eqb_eq in E. subst. auto.
  Qed.

  Lemma dget_map_values {X Y} (f : X -> Y) k d :
    dget k (dict_map_values f d) = option_map f (dget k d).
  Proof.
    induction d as [|[k' x'] d IH]; simpl; [reflexivity|]. destruct (eqb k k'); auto.
  Qed.

  (* ---- solve_no_clean ---- *)
  Definition set_all (l : list (fpath * rays T)) (d : list (fpath * rays T)) : list (fpath * rays T) :=
    fold_left (fun d pr => dset (fst pr) (snd pr) d) l d.

  Lemma solve_loop_closed ps : forall st rs, inv st ->
    match solve_loop ps st rs with
    | Some (rs', st') => inv st' /\ exists rl, all_some (map solve_pure ps) = Some rl
                                              /\ rs' = set_all (combine ps rl) rs
    | None => all_some (map solve_pure ps) = None
    end.
  Proof.
    induction ps as [|p ps IH]; intros st rs Hinv.
    - simpl. split; [assumption|]. exists []. auto.
    - cbn [FermatGlue.solve_loop map all_some].
      pose proof (solve_st_ok T D V PS ltb add ps_eqb v_eqb size dtab divv ps_eqb_spec v_eqb_sound p st Hinv) as H.
      destruct (solve_st ltb add ps_eqb v_eqb size dtab divv p st) as [[r st1]|].
      + destruct H as [H1 Hinv1]. rewrite H1. specialize (IH st1 (dset p r rs) Hinv1).
        destruct (solve_loop ps st1 (dset p r rs)) as [[rs' st']|].
        * destruct IH as (Hinv' & rl & E & ->). split; [assumption|]. exists (r :: rl). rewrite E. auto.
        * now rewrite IH.
      + now rewrite H.
  Qed.

  Definition consistent (d : list (fpath * rays T)) : Prop :=
    forall k x, dget k d = Some x -> solve_pure k = Some x.

  Lemma consistent_set k x d : consistent d -> solve_pure k = Some x -> consistent (dset k x d).
  Proof.
    intros Hc Hk k2 x2. destruct (eqb k k2) eqn:E.
    - apply eqb_eq in E. subst k2. rewrite dget_set_same. now intros [= <-].
    - rewrite dget_set_other by now apply eqb_false_neq. apply Hc.
  Qed.

  Lemma set_all_consistent ps : forall rl d, Forall2 (fun p r => solve_pure p = Some r) ps rl ->
    consistent d -> consistent (set_all (combine ps rl) d).
  Proof.
    induction ps as [|p ps IH]; intros rl d HF Hc; inversion HF; subst; [exact Hc|].
    cbn [combine set_all fold_left fst snd]. apply IH; [assumption|]. now apply consistent_set.
  Qed.

  Lemma set_all_defined_mono l : forall d k, (exists x, dget k d = Some x) -> exists x, dget k (set_all l d) = Some x.
  Proof.
    induction l as [|[p r] l IH]; intros d k H; [exact H|].
    cbn [set_all fold_left fst snd]. apply IH. destruct (eqb p k) eqn:E.
    - apply eqb_eq in E. subst. rewrite dget_set_same. eauto.
    - rewrite dget_set_other by now apply eqb_false_neq. exact H.
  Qed.

  Lemma set_all_defined ps : forall rl d p, length ps = length rl -> In p ps ->
    exists x, dget p (set_all (combine ps rl) d) = Some x.
  Proof.
    induction ps as [|p0 ps IH]; intros rl d p HL Hin; [destruct Hin|].
    destruct rl as [|r rl]; [discriminate|]. injection HL as HL.
    cbn [combine set_all fold_left fst snd]. destruct Hin as [<-|Hin].
    - apply set_all_defined_mono. rewrite dget_set_same. eauto.
    - now apply IH.
  Qed.

  Lemma set_all_idem l : forall d, (forall p r, In (p, r) l -> dget p d = Some r) -> set_all l d = d.
  Proof.
    induction l as [|[p r] l IH]; intros d H; [reflexivity|].
    cbn [set_all fold_left fst snd]. rewrite dset_idem by (apply H; left; reflexivity).
    apply IH. intros p' r' Hin. apply H. now right.
  Qed.

  Lemma set_all_keys l : forall d k, In k (map fst (set_all l d)) -> In k (map fst d) \/ In k (map fst l).
  Proof.
    induction l as [|[p r] l IH]; intros d k H; [auto|].
    cbn [set_all fold_left fst snd] in H. apply IH in H as [H|H].
    - apply dset_keys_in in H as [H| ->]; [auto|]. right. left. reflexivity.
    - right. now right.
  Qed.

  Lemma set_all_nodup l : forall d, NoDup (map fst d) -> NoDup (map fst (set_all l d)).
  Proof.
    induction l as [|[p r] l IH]; intros d H; [exact H|].
    cbn [set_all fold_left fst snd]. apply IH. now apply dset_keys_nodup.
  Qed.

  Lemma consistent_nil : consistent [].
  Proof. intros k x H. discriminate. Qed.

  (* FermatSolver(paths).solve() for a re-iterable `paths`, in closed form *)
  Lemma solver_solve_first (l : list fpath) b :
    solver_solve_obj (solver_init (Reiterable l) b)
    = match all_some (map solve_pure l) with
      | None => None
      | Some rl => Some (mkSolver (Reiterable l) (set_all (combine l rl) []) ([], []) (default_bits b),
                         set_all (combine l rl) [])
      end.
  Proof.
    unfold FermatGlue.solver_solve_obj, solver_solve_no_clean, FermatGlue.solver_init.
    cbn [iterate so_paths so_state so_res so_bits fst snd].
    pose proof (solve_loop_closed l ([], []) [] (inv_empty T D V PS ltb add ps_eqb v_eqb size dtab divv)) as H.
    destruct (solve_loop l ([], []) []) as [[rs' st']|].
    - destruct H as (_ & rl & E & ->). rewrite E. reflexivity.
    - now rewrite H.
  Qed.

  Lemma set_all_lookup l rl p :
    all_some (map solve_pure l) = Some rl -> In p l ->
    dget p (set_all (combine l rl) []) = solve_pure p.
  Proof.
    intros E Hin. pose proof (all_some_Forall2 _ _ _ E) as HF.
    destruct (set_all_defined l rl [] p (Forall2_length HF) Hin) as [x Hx].
    rewrite Hx. symmetry. exact (set_all_consistent l rl [] HF consistent_nil p x Hx).
  Qed.

  (* the dict returned by solve(): every path handed over (duplicates, equal tuples built
     separately, any order) is a key whose value is ITS stand-alone solution; there are no other
     keys and no two equal keys; an exception iff some stand-alone solve raises *)
  Theorem solver_object_solve (l : list fpath) b :
    match solver_solve_obj (solver_init (Reiterable l) b) with
    | Some (s', rs) =>
        so_res s' = rs /\ so_paths s' = Reiterable l /\ so_state s' = ([], [])
        /\ (forall p, In p l -> exists r, solve_pure p = Some r /\ dget p rs = Some r)
        /\ (forall k, In k (map fst rs) -> In k l)
        /\ NoDup (map fst rs)
    | None => exists p, In p l /\ solve_pure p = None
    end.
  Proof.
    rewrite solver_solve_first. destruct (all_some (map solve_pure l)) as [rl|] eqn:E.
    - cbn [so_res so_paths so_state]. repeat split; auto.
      + intros p Hin. pose proof (set_all_lookup l rl p E Hin) as H.
        pose proof (all_some_Forall2 _ _ _ E) as HF.
        destruct (set_all_defined l rl [] p (Forall2_length HF) Hin) as [x Hx].
        exists x. split; [now rewrite <- H|exact Hx].
      + intros k Hk. apply set_all_keys in Hk as [[]|Hk].
        apply in_map_iff in Hk as ([a r] & <- & Hk). apply in_combine_l in Hk. exact Hk.
      + apply set_all_nodup. constructor.
    - now apply all_some_None_ex.
  Qed.

  (* FermatSolver(iterator).solve(): __init__ exhausts the iterator (hash check), solve finds
     nothing left: an EMPTY dict and no exception *)
  Theorem solver_oneshot_empty (l : list fpath) b :
    solver_solve_obj (solver_init (OneShot l) b)
    = Some (mkSolver (OneShot []) [] ([], []) (default_bits b), []).
  Proof. reflexivity. Qed.

  (* history: solve() called again (any number of times) on the same solver gives the same dict *)
  Theorem solver_solve_repeat (l : list fpath) b s1 rs :
    solver_solve_obj (solver_init (Reiterable l) b) = Some (s1, rs) ->
    forall k, solver_solve_times k s1 = Some (s1, rs).
  Proof.
    rewrite solver_solve_first. destruct (all_some (map solve_pure l)) as [rl|] eqn:E; [|discriminate].
    intros [= <- <-]. induction k as [|k IH]; [reflexivity|].
    cbn [FermatGlue.solver_solve_times].
    assert (E1 : solver_solve_obj
                   (mkSolver (Reiterable l) (set_all (combine l rl) []) ([], []) (default_bits b))
                 = Some (mkSolver (Reiterable l) (set_all (combine l rl) []) ([], []) (default_bits b),
                         set_all (combine l rl) [])).
    { unfold FermatGlue.solver_solve_obj, solver_solve_no_clean.
      cbn [iterate so_paths so_state so_res so_bits fst snd].
      pose proof (solve_loop_closed l ([], []) (set_all (combine l rl) [])
                    (inv_empty T D V PS ltb add ps_eqb v_eqb size dtab divv)) as H.
      destruct (solve_loop l ([], []) (set_all (combine l rl) [])) as [[rs' st']|].
      - destruct H as (_ & rl' & E' & ->). rewrite E in E'. injection E' as <-.
        rewrite set_all_idem; [reflexivity|].
        intros p r Hin. pose proof (all_some_Forall2 _ _ _ E) as HF.
        assert (Hp : In p l) by (apply in_combine_l in Hin; exact Hin).
        rewrite (set_all_lookup l rl p E Hp).
        clear - HF Hin. induction HF as [|p0 r0 l rl H0 HF IH]; [destruct Hin|].
        destruct Hin as [[= <- <-]|Hin]; auto.
      - rewrite E in H. discriminate. }
    rewrite E1. exact IH.
  Qed.

  (* ---- ray_tracing_for_paths ---- *)
  Notation to_fermat := (to_fermat v_finite).
  Notation ray_tracing_for_paths := (ray_tracing_for_paths ltb add ps_eqb v_eqb v_finite size dtab divv).

  (* for ANY iterable (list, tuple, set, dict view, generator, iterator), with duplicates and
     with distinct Path objects giving equal FermatPaths: the attribute writes are, in order,
     each Path object with the stand-alone solution of ITS OWN FermatPath (and the requested
     memory order); an exception iff from_path or some stand-alone solve raises *)
  Theorem ray_tracing_for_paths_spec (it : iterable (pathobj V PS)) (fortran : bool) :
    ray_tracing_for_paths it fortran
    = match all_some (map to_fermat (fst (iterate it))) with
      | None => None
      | Some fps =>
          match all_some (map solve_pure fps) with
          | None => None
          | Some rl => Some (combine (map fst (fst (iterate it))) (map (fun r => (r, fortran)) rl))
          end
      end.
  Proof.
    unfold FermatGlue.ray_tracing_for_paths.
    destruct (all_some (map to_fermat (fst (iterate it)))) as [fps|]; [|reflexivity].
    rewrite solver_solve_first.
    destruct (all_some (map solve_pure fps)) as [rl|] eqn:E; [|reflexivity].
    assert (E1 : all_some (map (fun fp => dget fp (set_all (combine fps rl) [])) fps) = Some rl).
    { rewrite <- E. apply all_some_map_ext_in. intros p Hp. now apply set_all_lookup. }
    rewrite E1.
    rewrite (all_some_map_ext_in _ (fun fp => option_map (fun r => (r, fortran)) (dget fp (set_all (combine fps rl) [])))).
    2:{ intros p _. apply dget_map_values. }
    rewrite all_some_option_map, E1. reflexivity.
  Qed.

  (* in particular a one-shot iterable is consumed once: same result as the list of its items *)
  Corollary ray_tracing_for_paths_oneshot (l : list (pathobj V PS)) fortran :
    ray_tracing_for_paths (OneShot l) fortran = ray_tracing_for_paths (Reiterable l) fortran.
  Proof. now rewrite !ray_tracing_for_paths_spec. Qed.

  Lemma last_write_combine {X} (R : pathobj V PS -> X -> Prop) (l : list (pathobj V PS)) (xs : list X) :
    Forall2 R l xs ->
    forall id y, last_write id (combine (map fst l) xs) = Some y -> exists o, In o l /\ fst o = id /\ R o y.
  Proof.
    induction 1 as [|o x l xs Hox HF IH]; intros id y; [discriminate|].
    cbn [map combine last_write].
    destruct (last_write id (combine (map fst l) xs)) as [y'|] eqn:E.
    - intros [= <-]. destruct (IH id y' E) as (o' & Hin & Hid & HR). exists o'. split; [now right|auto].
    - destruct (Z.eqb id (fst o)) eqn:Ei; [|discriminate]. intros [= <-].
      apply Z.eqb_eq in Ei. exists o. split; [now left|auto].
  Qed.

  Lemma last_write_some {X} (l : list (pathobj V PS)) (xs : list X) o :
    length l = length xs -> In o l -> exists y, last_write (fst o) (combine (map fst l) xs) = Some y.
  Proof.
    revert xs; induction l as [|o0 l IH]; intros xs HL Hin; [destruct Hin|].
    destruct xs as [|x xs]; [discriminate|]. injection HL as HL. cbn [map combine last_write].
    destruct Hin as [<-|Hin].
    - destruct (last_write (fst o0) (combine (map fst l) xs)); [eauto|]. rewrite Z.eqb_refl. eauto.
    - destruct (IH xs HL Hin) as [y Hy]. rewrite Hy. eauto.
  Qed.

  (* after the call every Path object of the group holds the rays of its own FermatPath
     (Path objects are told apart by identity: the same identity means the same object) *)
  Theorem path_rays_attr (it : iterable (pathobj V PS)) fortran ws :
    (forall o o', In o (fst (iterate it)) -> In o' (fst (iterate it)) -> fst o = fst o' -> o = o') ->
    ray_tracing_for_paths it fortran = Some ws ->
    forall o, In o (fst (iterate it)) ->
      exists fp r, to_fermat o = Some fp /\ solve_pure fp = Some r
                   /\ last_write (fst o) ws = Some (r, fortran).
  Proof.
    intros Hid. rewrite ray_tracing_for_paths_spec. set (l := fst (iterate it)) in *.
    destruct (all_some (map to_fermat l)) as [fps|] eqn:E1; [|discriminate].
    destruct (all_some (map solve_pure fps)) as [rl|] eqn:E2; [|discriminate].
    intros [= <-] o Hin.
    pose proof (all_some_Forall2 _ _ _ E1) as HF1. pose proof (all_some_Forall2 _ _ _ E2) as HF2.
    set (R := fun (o : pathobj V PS) (y : rays T * bool) =>
                exists fp r, to_fermat o = Some fp /\ solve_pure fp = Some r /\ y = (r, fortran)).
    assert (HF : Forall2 R l (map (fun r => (r, fortran)) rl)).
    { clear - HF1 HF2. revert rl HF2. induction HF1 as [|o fp l fps Ho HF1 IH]; intros rl HF2.
      - inversion HF2. constructor.
      - inversion HF2 as [|? r ? rl' Hr HF2']; subst. cbn [map]. constructor; [|auto].
        exists fp, r. auto. }
    destruct (last_write_some l (map (fun r => (r, fortran)) rl) o) as [y Hy].
    { apply Forall2_length in HF. exact HF. }
    { exact Hin. }
    destruct (last_write_combine R l _ HF (fst o) y Hy) as (o' & Hin' & Hid' & (fp & r & H1 & H2 & ->)).
    assert (o' = o) by (apply Hid; auto). subst o'. exists fp, r. auto.
  Qed.

  (* ---- ray_tracing(views) ---- *)
  Notation ray_tracing := (ray_tracing ltb add ps_eqb v_eqb v_finite size dtab divv).

  (* whatever the iteration order of the set of tx / rx Path objects (any enumeration `enum`
     with the same elements): every tx and every rx path of every view gets its own rays *)
  Theorem ray_tracing_views (enum : list (pathobj V PS) -> list (pathobj V PS))
          (views : list (pathobj V PS * pathobj V PS)) fortran ws :
    let src := map fst views ++ map snd views in
    (forall o, In o (enum src) <-> In o src) ->
    (forall o o', In o src -> In o' src -> fst o = fst o' -> o = o') ->
    ray_tracing enum views fortran = Some ws ->
    forall v, In v views ->
      (exists fp r, to_fermat (fst v) = Some fp /\ solve_pure fp = Some r
                    /\ last_write (fst (fst v)) ws = Some (r, fortran))
      /\ (exists fp r, to_fermat (snd v) = Some fp /\ solve_pure fp = Some r
                       /\ last_write (fst (snd v)) ws = Some (r, fortran)).
  Proof.
    intros src Henum Hid Hrt v Hv. unfold FermatGlue.ray_tracing in Hrt. fold src in Hrt.
    assert (Hid' : forall o o', In o (fst (iterate (Reiterable (enum src)))) ->
                                In o' (fst (iterate (Reiterable (enum src)))) -> fst o = fst o' -> o = o').
    { cbn. intros o o' H1 H2. apply Hid; now apply Henum. }
    split; apply (path_rays_attr (Reiterable (enum src)) fortran ws Hid' Hrt); cbn; apply Henum; unfold src;
      apply in_or_app; [left | right]; now apply in_map.
  Qed.

  (* ray_tracing = ray_tracing_for_paths on list(paths_set) *)
  Theorem ray_tracing_is_for_paths enum (views : list (pathobj V PS * pathobj V PS)) fortran :
    ray_tracing enum views fortran
    = ray_tracing_for_paths (Reiterable (enum (map fst views ++ map snd views))) fortran.
  Proof. reflexivity. Qed.

  (* the first-occurrence order is one such enumeration *)
  Lemma dedup_ids_in (l : list (pathobj V PS)) : forall seen o,
    In o (dedup_ids seen l) -> In o l /\ ~ In (fst o) seen.
  Proof.
    induction l as [|o0 l IH]; intros seen o; [intros []|]. cbn [dedup_ids].
    destruct (existsb (Z.eqb (fst o0)) seen) eqn:E.
    - intros H. destruct (IH _ _ H). auto with datatypes.
    - intros [<-|H].
      + split; [now left|]. intros Hin.
        assert (existsb (Z.eqb (fst o0)) seen = true) by (apply existsb_exists; exists (fst o0); split; [auto|apply Z.eqb_refl]).
        congruence.
      + destruct (IH _ _ H) as [H1 H2]. split; [now right|]. intros Hin. apply H2. now right.
  Qed.

  Lemma dedup_ids_complete (l : list (pathobj V PS)) :
    (forall o o', In o l -> In o' l -> fst o = fst o' -> o = o') ->
    forall seen o, In o l -> ~ In (fst o) seen -> In o (dedup_ids seen l).
  Proof.
    induction l as [|o0 l IH]; intros Hid seen o Hin Hns; [destruct Hin|]. cbn [dedup_ids].
    assert (Hid' : forall a a', In a l -> In a' l -> fst a = fst a' -> a = a').
    { intros a a' Ha Ha'. apply Hid; now right. }
    destruct (existsb (Z.eqb (fst o0)) seen) eqn:E.
    - destruct Hin as [<-|Hin].
      + apply existsb_exists in E as (z & Hz & Ez). apply Z.eqb_eq in Ez. subst z. contradiction.
      + now apply IH.
    - destruct Hin as [<-|Hin]; [now left|].
      destruct (Z.eq_dec (fst o) (fst o0)) as [Heq|Hne].
      + left. symmetry. apply Hid; [now right | now left | exact Heq].
      + right. apply IH; auto. intros [H|H]; [congruence|contradiction].
  Qed.

  Theorem dedup_ids_enum (l : list (pathobj V PS)) :
    (forall o o', In o l -> In o' l -> fst o = fst o' -> o = o') ->
    (forall o, In o (dedup_ids [] l) <-> In o l) /\ NoDup (map fst (dedup_ids [] l)).
  Proof.
    intros Hid. split.
    - intros o. split; [intros H; now apply dedup_ids_in in H|].
      intros H. apply dedup_ids_complete; auto.
    - generalize (@nil Z). clear Hid. induction l as [|o0 l IH]; intros seen; [constructor|].
      cbn [dedup_ids]. destruct (existsb (Z.eqb (fst o0)) seen); [apply IH|].
      cbn [map]. constructor; [|apply IH].
      intros Hin. apply in_map_iff in Hin as (o & Ho & Hin). apply dedup_ids_in in Hin as [_ Hn].
      apply Hn. left. now symmetry.
  Qed.
End AssemblyProofs.
