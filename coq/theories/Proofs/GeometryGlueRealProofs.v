(* Proofs/GeometryGlueRealProofs.v — Model/GeometryGlue.v over the reals (C17):
   box selector entry by entry on any shape, the whole Grid object for every combination of
   degenerate axes (plain and centred), CoordinateSystem histories that keep an orthonormal
   frame, convert_from_gcs_pairwise, distance tables of a set against itself, closest_point. *)
From Coq Require Import Nsatz.
From Coq Require Import List Reals Lra Lia ZArith Bool Arith.
From Flocq Require Import Core.Raux.
From Arim Require Import Base.Num Base.NumR Model.Vec3 Model.Geometry Model.GeometryGlue
  Proofs.Vec3Proofs Proofs.GeometryProofs Proofs.GeometryGridProofs Proofs.GeometryGlueProofs.
Import ListNotations.
Local Open Scope R_scope.

(* ====================================================================================== *)
(* box selector                                                                            *)
(* ====================================================================================== *)
Definition box_spec (xmin xmax ymin ymax zmin zmax : option R) (p : vec3 R) : Prop :=
  lower_spec xmin (vx p) /\ upper_spec xmax (vx p) /\ lower_spec ymin (vy p) /\ upper_spec ymax (vy p) /\
  lower_spec zmin (vz p) /\ upper_spec zmax (vz p).

(* Points method, any shape: the mask has the shape of the points and, at every multi-index,
   is true exactly when the point there satisfies every supplied bound *)
Lemma rectbox_points_entry_R (P : points R) xmin xmax ymin ymax zmin zmax :
  nd_wf P ->
  exists M, rectbox_points NumR P xmin xmax ymin ymax zmin zmax = inr M /\ nd_shape M = nd_shape P /\ nd_wf M /\
    forall idx, in_bounds (nd_shape P) idx = true ->
      exists p b, nd_get P idx = Some p /\ nd_get M idx = Some b /\
                  (b = true <-> box_spec xmin xmax ymin ymax zmin zmax p).
Proof.
  intros W. eexists. split; [apply rectbox_points_pointwise; exact W|]. split; [reflexivity|].
  split; [apply nd_map_wf; exact W|]. intros idx Hb.
  destruct (nd_get_some P idx W Hb) as [p Hp]. exists p, (in_rectbox NumR xmin xmax ymin ymax zmin zmax p).
  split; [exact Hp|]. split; [rewrite nd_get_map, Hp; reflexivity|]. apply in_rectbox_spec.
Qed.

(* the free function on three coordinate arrays of one (any) shape *)
Lemma rectbox_free_entry_R (x y z : nd R) xmin xmax ymin ymax zmin zmax :
  nd_wf x -> nd_wf y -> nd_wf z -> nd_shape y = nd_shape x -> nd_shape z = nd_shape x ->
  exists M, rectbox_free NumR x y z xmin xmax ymin ymax zmin zmax = inr M /\ nd_shape M = nd_shape x /\
    forall idx, in_bounds (nd_shape x) idx = true ->
      exists a b c m, nd_get x idx = Some a /\ nd_get y idx = Some b /\ nd_get z idx = Some c /\
                      nd_get M idx = Some m /\ (m = true <-> box_spec xmin xmax ymin ymax zmin zmax (a, b, c)).
Proof.
  intros Wx Wy Wz Sy Sz. eexists. split; [apply rectbox_free_pointwise; assumption|]. split; [reflexivity|].
  intros idx Hb.
  destruct (nd_get_some x idx Wx Hb) as [a Ha].
  destruct (nd_get_some y idx Wy ltac:(rewrite Sy; exact Hb)) as [b Hb'].
  destruct (nd_get_some z idx Wz ltac:(rewrite Sz; exact Hb)) as [c Hc].
  exists a, b, c, (in_rectbox NumR xmin xmax ymin ymax zmin zmax (a, b, c)).
  split; [exact Ha|]. split; [exact Hb'|]. split; [exact Hc|]. split; [|apply in_rectbox_spec].
  unfold nd_get in *. cbn [nd_shape nd_data]. rewrite Sy in Hb'. rewrite Sz in Hc. rewrite Hb in *.
  rewrite nth_error_map. rewrite (zip3v_nth_error _ _ _ _ a b c Ha Hb' Hc). reflexivity.
Qed.

(* ====================================================================================== *)
(* Grid                                                                                    *)
(* ====================================================================================== *)
(* what a caller may ask of one axis: degenerate, or a positive pixel size not exceeding its length *)
Definition axis_okR (lo hi d : R) : Prop := lo = hi \/ (0 < d /\ d <= Rabs (hi - lo)).
Definition axis_count (lo hi d : R) : nat :=
  if Req_bool lo hi then 1%nat else Z.to_nat (grid_numpoints NumR lo hi d).
Definition axis_coord (lo hi d : R) (i : nat) : R :=
  if Req_bool lo hi then lo else lo + INR i * ((hi - lo) / IZR (grid_numpoints NumR lo hi d - 1)).

Lemma vect_max_nth (v : list R) : v <> [] -> vect_max v = inr (nth (length v - 1)%nat v 0).
Proof.
  intros Hv. unfold vect_max. destruct (rev v) as [|a r] eqn:E.
  - apply (f_equal (@length R)) in E. rewrite rev_length in E. destruct v; [contradiction | discriminate].
  - f_equal. assert (Hl : (0 < length v)%nat) by (destruct v; [contradiction | simpl; lia]).
    pose proof (@rev_nth R v 0 0%nat Hl) as H. rewrite E in H. cbn [nth] in H. exact H.
Qed.

Lemma grid_axis_err_R lo hi d : axis_okR lo hi d ->
  exists v, grid_axis_err NumR lo hi d = inr v /\ length v = axis_count lo hi d /\
    (forall i, (i < length v)%nat -> nth i v 0 = axis_coord lo hi d i) /\
    vect_min v = inr lo /\ vect_max v = inr hi.
Proof.
  intros Hok. unfold axis_count, axis_coord. destruct (Req_bool_spec lo hi) as [E|Hne].
  - subst hi. exists [lo]. unfold grid_axis_err. cbn [NumR neqb].
    destruct (Req_bool_spec lo lo) as [_|H]; [|contradiction]. repeat split.
    intros i Hi. cbn [length] in Hi. replace i with 0%nat by lia. reflexivity.
  - destruct Hok as [E|[Hd HL]]; [contradiction|].
    destruct (grid_axis_regular lo hi d Hne Hd HL) as (Hn & xs & Hx & Hlen & Hnth & H0 & Hlast).
    rewrite grid_axis_err_option in Hx. destruct (grid_axis_err NumR lo hi d) as [e|v]; [discriminate|].
    injection Hx as ->. exists xs. split; [reflexivity|]. split; [exact Hlen|].
    split; [intros i Hi; apply Hnth; lia|]. split.
    + destruct xs as [|a xs]; [cbn [length] in Hlen; lia|]. cbn [nth] in H0. subst a. reflexivity.
    + rewrite vect_max_nth by (intros ->; cbn [length] in Hlen; lia). rewrite Hlen, Hlast. reflexivity.
Qed.

Lemma axis_warning_R a lo hi : axis_warning NumR a lo hi = if Rlt_bool hi lo then [a] else [].
Proof.
  unfold axis_warning. cbn [NumR neqb nltb]. destruct (Req_bool_spec lo hi) as [E|Hne]; [|reflexivity].
  destruct (Rlt_bool_spec hi lo); [lra | reflexivity].
Qed.

(* THE WHOLE OBJECT, for every one of the 8 combinations of degenerate / non-degenerate axes
   and per-axis pixel sizes: it is built, has shape (numx, numy, numz) with the count of each
   axis computed from ITS bounds and ITS pixel size, holds at (ix, iy, iz) the point
   (x_ix, y_iy, z_iz), its axis vectors start and end on the bounds, and it warns exactly for
   the axes given in decreasing order *)
Lemma grid_init_R xmin xmax ymin ymax zmin zmax dx dy dz :
  axis_okR xmin xmax dx -> axis_okR ymin ymax dy -> axis_okR zmin zmax dz ->
  exists g, grid_init NumR xmin xmax ymin ymax zmin zmax (PxSeq [dx; dy; dz]) = inr g /\
    nd_shape (go_points g) = [axis_count xmin xmax dx; axis_count ymin ymax dy; axis_count zmin zmax dz] /\
    nd_wf (go_points g) /\
    (go_numx g = axis_count xmin xmax dx /\ go_numy g = axis_count ymin ymax dy /\
     go_numz g = axis_count zmin zmax dz) /\
    (forall ix iy iz, (ix < axis_count xmin xmax dx)%nat -> (iy < axis_count ymin ymax dy)%nat ->
                      (iz < axis_count zmin zmax dz)%nat ->
       nd_get (go_points g) [ix; iy; iz]
       = Some (axis_coord xmin xmax dx ix, axis_coord ymin ymax dy iy, axis_coord zmin zmax dz iz)) /\
    (vect_min (go_xvect g) = inr xmin /\ vect_max (go_xvect g) = inr xmax /\
     vect_min (go_yvect g) = inr ymin /\ vect_max (go_yvect g) = inr ymax /\
     vect_min (go_zvect g) = inr zmin /\ vect_max (go_zvect g) = inr zmax) /\
    go_warnings g = (if Rlt_bool xmax xmin then [AxX] else []) ++ (if Rlt_bool ymax ymin then [AxY] else [])
                    ++ (if Rlt_bool zmax zmin then [AxZ] else []).
Proof.
  intros Hx Hy Hz.
  destruct (grid_axis_err_R _ _ _ Hx) as (xs & Ex & Lx & Nx & Mx & MMx).
  destruct (grid_axis_err_R _ _ _ Hy) as (ys & Ey & Ly & Ny & My & MMy).
  destruct (grid_axis_err_R _ _ _ Hz) as (zs & Ez & Lz & Nz & Mz & MMz).
  unfold grid_init, unpack_pixel. rewrite Ex, Ey, Ez. eexists. split; [reflexivity|].
  cbn [go_points go_xvect go_yvect go_zvect go_warnings nd_shape]. unfold go_numx, go_numy, go_numz.
  cbn [go_xvect go_yvect go_zvect]. rewrite Lx, Ly, Lz. split; [reflexivity|]. split.
  { unfold nd_wf. cbn [nd_data nd_shape size fold_right]. rewrite flatten_meshgrid_length. rewrite Lx, Ly, Lz. lia. }
  split; [repeat split|]. split.
  { intros ix iy iz Hix Hiy Hiz. rewrite <- Lx, <- Ly, <- Lz.
    rewrite (grid_points_get xs ys zs ix iy iz 0) by lia.
    rewrite Nx, Ny, Nz by lia. reflexivity. }
  split; [repeat split; assumption|]. rewrite !axis_warning_R. reflexivity.
Qed.

(* resample(new_pixel_size) = Grid(the same six bounds, new_pixel_size).
   REPAIR: the bounds reach the constructor as numpy scalars, so a zero pixel size on a non-degenerate
   axis ends in OverflowError (round(inf)) instead of ZeroDivisionError: the error kind goes through
   np_zero_err; a successful resampling and every other error kind are those of the constructor *)
Lemma grid_resample_R xmin xmax ymin ymax zmin zmax dx dy dz g px :
  axis_okR xmin xmax dx -> axis_okR ymin ymax dy -> axis_okR zmin zmax dz ->
  grid_init NumR xmin xmax ymin ymax zmin zmax (PxSeq [dx; dy; dz]) = inr g ->
  grid_resample NumR g px = match grid_init NumR xmin xmax ymin ymax zmin zmax px with
                            | inl e => inl (np_zero_err e)
                            | inr r => inr r
                            end.
Proof.
  intros Hx Hy Hz Hg. destruct (grid_init_R _ _ _ _ _ _ _ _ _ Hx Hy Hz) as (g' & Hg' & _ & _ & _ & _ & Hm & _).
  rewrite Hg in Hg'. injection Hg' as <-. destruct Hm as (A & B & C & D & E & F).
  unfold grid_resample. rewrite A, B, C, D, E, F. reflexivity.
Qed.

(* ... in particular: a resampling that the constructor accepts is the constructor's grid, and a zero
   pixel size on a non-degenerate first axis is an OverflowError *)
Lemma grid_resample_ok_R xmin xmax ymin ymax zmin zmax dx dy dz g px r :
  axis_okR xmin xmax dx -> axis_okR ymin ymax dy -> axis_okR zmin zmax dz ->
  grid_init NumR xmin xmax ymin ymax zmin zmax (PxSeq [dx; dy; dz]) = inr g ->
  grid_init NumR xmin xmax ymin ymax zmin zmax px = inr r -> grid_resample NumR g px = inr r.
Proof. intros Hx Hy Hz Hg Hr. rewrite (grid_resample_R _ _ _ _ _ _ _ _ _ _ px Hx Hy Hz Hg), Hr. reflexivity. Qed.

Lemma grid_resample_zero_R xmin xmax ymin ymax zmin zmax dx dy dz g px :
  axis_okR xmin xmax dx -> axis_okR ymin ymax dy -> axis_okR zmin zmax dz ->
  grid_init NumR xmin xmax ymin ymax zmin zmax (PxSeq [dx; dy; dz]) = inr g ->
  grid_init NumR xmin xmax ymin ymax zmin zmax px = inl ZeroDivisionError ->
  grid_resample NumR g px = inl OverflowError.
Proof. intros Hx Hy Hz Hg Hr. rewrite (grid_resample_R _ _ _ _ _ _ _ _ _ _ px Hx Hy Hz Hg), Hr. reflexivity. Qed.

(* ---- grid_centred_at_point ------------------------------------------------------------------ *)
Lemma grid_centred_obj_cases cx cy cz sx sy sz px :
  (sx < 0 \/ sy < 0 \/ sz < 0 -> grid_centred_obj NumR cx cy cz sx sy sz px = inl AssertionError) /\
  (0 <= sx -> 0 <= sy -> 0 <= sz -> px = 0 -> grid_centred_obj NumR cx cy cz sx sy sz px = inl ZeroDivisionError) /\
  (0 <= sx -> 0 <= sy -> 0 <= sz -> px <> 0 ->
   grid_centred_obj NumR cx cy cz sx sy sz px
   = grid_init NumR (cx - sx / 2) (cx + sx / 2) (cy - sy / 2) (cy + sy / 2) (cz - sz / 2) (cz + sz / 2)
       (PxSeq [centred_step NumR sx (centred_numpoints NumR sx px);
               centred_step NumR sy (centred_numpoints NumR sy px);
               centred_step NumR sz (centred_numpoints NumR sz px)])).
Proof.
  unfold grid_centred_obj. cbn [NumR nleb neqb n0 nofZ nsub nadd ndiv].
  destruct (Rle_bool_spec 0 sx) as [Hx|Hx]; cbn [negb].
  2:{ repeat split; intros; try lra; reflexivity. }
  destruct (Rle_bool_spec 0 sy) as [Hy|Hy]; cbn [negb].
  2:{ repeat split; intros; try lra; reflexivity. }
  destruct (Rle_bool_spec 0 sz) as [Hz|Hz]; cbn [negb].
  2:{ repeat split; intros; try lra; reflexivity. }
  destruct (Req_bool_spec px 0) as [Hp|Hp].
  - repeat split; intros; try lra; try contradiction; reflexivity.
  - repeat split; intros; try lra; try contradiction; reflexivity.
Qed.

Definition centred_count (s p : R) : nat :=
  if Req_bool s 0 then 1%nat else Z.to_nat (centred_numpoints NumR s p).
Definition centred_mid (s p : R) : nat :=
  if Req_bool s 0 then 0%nat else Z.to_nat ((centred_numpoints NumR s p - 1) / 2).

Lemma centred_axis_err_R c s p : 0 <= s -> 0 < p ->
  exists v, grid_axis_err NumR (c - s / 2) (c + s / 2) (centred_step NumR s (centred_numpoints NumR s p)) = inr v /\
    length v = centred_count s p /\ (centred_mid s p < centred_count s p)%nat /\
    nth (centred_mid s p) v 0 = c /\ Z.odd (Z.of_nat (centred_count s p)) = true.
Proof.
  intros Hs Hp. unfold centred_count, centred_mid. destruct (Req_bool_spec s 0) as [E|Hne].
  - subst s. destruct (centred_axis_degenerate c p) as [H1 H2].
    rewrite grid_axis_err_option in H1.
    destruct (grid_axis_err NumR (c - 0 / 2) (c + 0 / 2) (centred_step NumR 0 (centred_numpoints NumR 0 p))) as [e|v];
      [discriminate|]. injection H1 as ->. eexists. split; [reflexivity|]. repeat split; [lia | exact H2].
  - assert (Hs' : 0 < s) by lra.
    destruct (centred_numpoints_R s p Hs' Hp) as (Hodd & Hn3 & _).
    destruct (centred_axis_R c s p Hs' Hp) as (xs & Hx & Hlen & _ & Hmid).
    rewrite grid_axis_err_option in Hx.
    destruct (grid_axis_err NumR (c - s / 2) (c + s / 2) (centred_step NumR s (centred_numpoints NumR s p))) as [e|v];
      [discriminate|]. injection Hx as ->. exists xs. split; [reflexivity|]. split; [exact Hlen|].
    set (n := centred_numpoints NumR s p) in *.
    assert (Hdiv : (0 <= (n - 1) / 2 < n)%Z).
    { split; [apply Z.div_pos; lia|]. apply Z.div_lt_upper_bound; lia. }
    split; [lia|]. split; [exact Hmid|]. rewrite Z2Nat.id by lia. exact Hodd.
Qed.

(* the whole centred grid, every combination of zero / positive sizes: it is built, every
   axis has an odd number of points and the point in the middle is EXACTLY the centre *)
Lemma grid_centred_obj_R cx cy cz sx sy sz px : 0 <= sx -> 0 <= sy -> 0 <= sz -> 0 < px ->
  exists g, grid_centred_obj NumR cx cy cz sx sy sz px = inr g /\
    nd_shape (go_points g) = [centred_count sx px; centred_count sy px; centred_count sz px] /\
    nd_wf (go_points g) /\
    nd_get (go_points g) [centred_mid sx px; centred_mid sy px; centred_mid sz px] = Some (cx, cy, cz) /\
    Z.odd (Z.of_nat (centred_count sx px)) = true /\ Z.odd (Z.of_nat (centred_count sy px)) = true /\
    Z.odd (Z.of_nat (centred_count sz px)) = true.
Proof.
  intros Hx Hy Hz Hp.
  destruct (grid_centred_obj_cases cx cy cz sx sy sz px) as (_ & _ & ->); try assumption; [|lra].
  destruct (centred_axis_err_R cx sx px Hx Hp) as (xs & Ex & Lx & Mx & Cx & Ox).
  destruct (centred_axis_err_R cy sy px Hy Hp) as (ys & Ey & Ly & My & Cy & Oy).
  destruct (centred_axis_err_R cz sz px Hz Hp) as (zs & Ez & Lz & Mz & Cz & Oz).
  unfold grid_init, unpack_pixel. rewrite Ex, Ey, Ez. eexists. split; [reflexivity|].
  cbn [go_points nd_shape]. rewrite Lx, Ly, Lz. split; [reflexivity|]. split.
  { unfold nd_wf. cbn [nd_data nd_shape size fold_right]. rewrite flatten_meshgrid_length. rewrite Lx, Ly, Lz. lia. }
  split; [|repeat split; assumption].
  rewrite <- Lx, <- Ly, <- Lz. rewrite (grid_points_get xs ys zs _ _ _ 0) by lia. rewrite Cx, Cy, Cz. reflexivity.
Qed.

(* ====================================================================================== *)
(* CoordinateSystem                                                                        *)
(* ====================================================================================== *)
Definition frame_exact (c : cstate (T := R)) : Prop :=
  vdot NumR (c_i c) (c_i c) = 1 /\ vdot NumR (c_j c) (c_j c) = 1 /\ vdot NumR (c_i c) (c_j c) = 0.

Lemma norm2_v_unit (v : vec3 R) : vdot NumR v v = 1 -> norm2_v NumR v = 1.
Proof.
  intros H. unfold norm2_v, norm2_3. cbn [NumR nsqrt nadd nmul n0].
  replace (0 + vx v * vx v + vy v * vy v + vz v * vz v) with 1; [apply sqrt_1|].
  rewrite <- H. v3_start. ring.
Qed.

(* an exactly unit vector passes the check of the setters *)
Lemma unit_ok_exact (v : vec3 R) : vdot NumR v v = 1 -> unit_ok NumR v = true.
Proof.
  intros H. unfold unit_ok, isclose. rewrite (norm2_v_unit v H). rewrite !nabs_Rabs.
  cbn [NumR nleb nsub nadd nmul ndiv n1 nofZ]. unfold rtol_default, atol_default. cbn [NumR ndiv n1 nofZ].
  replace (1 - 1) with 0 by ring. rewrite Rabs_R0, Rabs_R1.
  destruct (Rle_bool_spec 0 (1 / 100000000 + 1 / 100000 * 1)) as [_|Hc]; [reflexivity | lra].
Qed.

Lemma frame_exact_ok c : frame_exact c -> cs_ok NumR c.
Proof. intros (Hi & Hj & _). split; apply unit_ok_exact; assumption. Qed.

Lemma gcs_frame_exact : frame_exact (mkCst (0, 0, 0) (1, 0, 0) (0, 1, 0)).
Proof. unfold frame_exact. cbn [c_i c_j]. v3_start. repeat split; ring. Qed.

(* rotate: accepted for every orthonormal matrix; the origin is rotated about the centre, the
   axes are turned by the matrix; the frame stays exactly orthonormal *)
Lemma rotate_diff (M : mat3 R) (ce : option (vec3 R)) (o i : vec3 R) :
  vsub NumR (rotate NumR M ce (vadd NumR o i)) (rotate NumR M ce o) = mvec NumR M i.
Proof. destruct ce as [ce|]; unfold rotate; v3_start; v3_split; ring. Qed.

Lemma c_rotate_R c (M : mat3 R) ce : cols_orthonormal NumR M -> frame_exact c ->
  c_rotate NumR c M ce = inr (mkCst (rotate NumR M ce (c_origin c)) (mvec NumR M (c_i c)) (mvec NumR M (c_j c)))
  /\ frame_exact (mkCst (rotate NumR M ce (c_origin c)) (mvec NumR M (c_i c)) (mvec NumR M (c_j c))).
Proof.
  intros HM (Hi & Hj & Hij).
  assert (Hex : frame_exact (mkCst (rotate NumR M ce (c_origin c)) (mvec NumR M (c_i c)) (mvec NumR M (c_j c)))).
  { unfold frame_exact. cbn [c_i c_j]. rewrite !mvec_dot by exact HM. repeat split; assumption. }
  split; [|exact Hex]. unfold c_rotate. rewrite !rotate_diff. apply cs_new_spec. rewrite !as_vec3_of_vec3.
  cbn [c_origin c_i c_j]. repeat split; apply (frame_exact_ok _ Hex).
Qed.

(* which calls are allowed in a history that must keep the frame orthonormal: anything that
   is refused, every assignment of the origin, translate, rotate by an orthonormal matrix,
   copy.  (An ACCEPTED assignment of i_hat or j_hat need not: the setters check the norm only.) *)
Definition call_rigid (k : cs_call (T := R)) : Prop :=
  match k with
  | CAssign (SetOrigin _) => True
  | CAssign o => accepts NumR o <> None
  | CTranslate _ => True
  | CRotate M _ => cols_orthonormal NumR M
  | CCopy => True
  end.

Lemma cs_call_step_exact c k : frame_exact c -> call_rigid k -> frame_exact (cs_call_step NumR c k).
Proof.
  intros Hc Hk. unfold cs_call_step. destruct k as [o|v|M ce|]; cbn [cs_call_res].
  - destruct o as [a|a|a].
    + cbn [cs_assign]. unfold set_origin. destruct (as_vec3 a); [exact Hc|]. exact Hc.
    + pose proof (cs_assign_accepts NumR c (SetI a)) as H. destruct (cs_assign NumR c (SetI a)); [exact Hc|].
      cbn [call_rigid] in Hk. contradiction.
    + pose proof (cs_assign_accepts NumR c (SetJ a)) as H. destruct (cs_assign NumR c (SetJ a)); [exact Hc|].
      cbn [call_rigid] in Hk. contradiction.
  - destruct (translate_vector v) as [e|d] eqn:E.
    + rewrite (c_translate_bad_shape NumR c v e E). exact Hc.
    + rewrite (c_translate_vec NumR c v d (frame_exact_ok c Hc) E). exact Hc.
  - destruct (c_rotate_R c M ce Hk Hc) as [-> H]. exact H.
  - rewrite (c_copy_ok NumR c (frame_exact_ok c Hc)). exact Hc.
Qed.

(* INVARIANT of every such history *)
Lemma cs_calls_exact c ks : frame_exact c -> Forall call_rigid ks -> frame_exact (cs_calls NumR c ks).
Proof.
  revert c. induction ks as [|k ks IH]; intros c Hc Hks; [exact Hc|]. inversion Hks as [|? ? Hk Hr]; subst.
  cbn [cs_calls fold_left]. apply IH; [apply cs_call_step_exact; assumption | exact Hr].
Qed.

(* in every exactly orthonormal state the two conversions are inverse of each other on point
   arrays of any shape, and both preserve all pairwise distances *)
Lemma cs_conversions_R c (P Q : points R) : frame_exact c ->
  c_convert_from_gcs NumR c (c_convert_to_gcs NumR c P) = P /\
  c_convert_to_gcs NumR c (c_convert_from_gcs NumR c P) = P /\
  distance_table NumR (nd_data (c_convert_from_gcs NumR c P)) (nd_data (c_convert_from_gcs NumR c Q))
    = distance_table NumR (nd_data P) (nd_data Q) /\
  distance_table NumR (nd_data (c_convert_to_gcs NumR c P)) (nd_data (c_convert_to_gcs NumR c Q))
    = distance_table NumR (nd_data P) (nd_data Q).
Proof.
  intros (Hi & Hj & Hij). destruct (cs_axes_proper (c_i c) (c_j c) Hi Hj Hij) as [[Hr Hc] _].
  unfold c_convert_from_gcs, c_convert_to_gcs. rewrite !nd_map_map. repeat split.
  - apply nd_map_id_ext. intros p. rewrite cs_convert_from_is_from_gcs, cs_convert_to_is_to_gcs. apply from_to_gcs_R. exact Hr.
  - apply nd_map_id_ext. intros p. rewrite cs_convert_from_is_from_gcs, cs_convert_to_is_to_gcs. apply to_from_gcs_R. exact Hc.
  - unfold nd_map. cbn [nd_data]. apply distance_table_map. intros p q.
    rewrite !cs_convert_from_is_from_gcs. apply from_gcs_dist_R. exact Hc.
  - unfold nd_map. cbn [nd_data]. apply distance_table_map. intros p q.
    rewrite !cs_convert_to_is_to_gcs. apply to_gcs_dist_R. exact Hr.
Qed.

(* OBSERVATION: the setters check the norm of each vector, not their orthogonality: i_hat = j_hat
   is accepted, k_hat is then the null vector and the conversions are NOT inverse of each other *)
Lemma cs_no_orthogonality_check :
  exists c, cs_new NumR (arr_of_vec3 (0, 0, 0)) (arr_of_vec3 (1, 0, 0)) (arr_of_vec3 (1, 0, 0)) = inr c /\
            c_k_hat NumR c = (0, 0, 0) /\
            c_convert_to_gcs NumR c (c_convert_from_gcs NumR c (mkNd [] [(0, 1, 0)])) <> mkNd [] [(0, 1, 0)].
Proof.
  exists (mkCst (0, 0, 0) (1, 0, 0) (1, 0, 0)). split; [|split].
  - apply cs_new_spec. rewrite !as_vec3_of_vec3. unfold cs_ok. cbn [c_origin c_i c_j]. repeat split;
      apply unit_ok_exact; v3_start; ring.
  - unfold c_k_hat, cs_k_hat. cbn [c_i c_j]. v3_start. v3_split; ring.
  - unfold c_convert_to_gcs, c_convert_from_gcs, nd_map. cbn [nd_shape nd_data map c_origin c_i c_j].
    unfold cs_convert_to_gcs, cs_convert_from_gcs, cs_basis_matrix, cs_axes, cs_k_hat.
    intros H. injection H as H. v3_start. lra.
Qed.

(* convert_from_gcs_pairwise: the triple at (ip ++ io) is the coordinate triple of the point
   P[ip] in the frame with the same axes whose origin is the GCS position of origins[io] *)
Lemma pairwise_meaning_R c (p o : vec3 R) : frame_exact c ->
  let q := cs_convert_from_gcs NumR (c_origin c) (c_i c) (c_j c) p in
  (vx q - vx o, vy q - vy o, vz q - vz o)
  = cs_convert_from_gcs NumR (cs_convert_to_gcs NumR (c_origin c) (c_i c) (c_j c) o) (c_i c) (c_j c) p
  /\ sqrt ((vx q - vx o) * (vx q - vx o) + (vy q - vy o) * (vy q - vy o) + (vz q - vz o) * (vz q - vz o))
     = vdist NumR p (cs_convert_to_gcs NumR (c_origin c) (c_i c) (c_j c) o).
Proof.
  intros (Hi & Hj & Hij) q. destruct (cs_axes_proper (c_i c) (c_j c) Hi Hj Hij) as [[Hr Hc] _].
  assert (E : (vx q - vx o, vy q - vy o, vz q - vz o) = vsub NumR q o) by reflexivity.
  assert (Eo : o = cs_convert_from_gcs NumR (c_origin c) (c_i c) (c_j c)
                     (cs_convert_to_gcs NumR (c_origin c) (c_i c) (c_j c) o)).
  { rewrite cs_convert_from_is_from_gcs, cs_convert_to_is_to_gcs. symmetry. apply from_to_gcs_R. exact Hr. }
  split.
  - rewrite E. unfold q. rewrite Eo at 1. rewrite !cs_convert_from_is_from_gcs, cs_convert_to_is_to_gcs.
    unfold from_gcs. rewrite <- mvec_sub. f_equal.
    generalize (to_gcs NumR (cs_axes NumR (c_i c) (c_j c)) (c_origin c) o). intros w.
    generalize (c_origin c). intros oo. v3_start. v3_split; ring.
  - rewrite <- (from_gcs_dist_R (cs_axes NumR (c_i c) (c_j c)) (c_origin c) p _ Hc).
    rewrite <- !cs_convert_from_is_from_gcs. rewrite <- Eo. fold q. rewrite vdist_formula. reflexivity.
Qed.

(* REPAIR: the same meaning stated ON the function: c_convert_from_gcs_pairwise answers arrays only for
   1-d origins and points with at least one dimension (pairwise_modelled; NotModelled otherwise, where
   numpy broadcasts instead of forming the outer difference), and on that domain the entries at
   ip ++ io of the three arrays are the triple above *)
Lemma pairwise_meaning_fun_R c (P O : points R) ip io (p o : vec3 R) : frame_exact c ->
  pairwise_modelled P O = true -> nd_wf O -> nd_get P ip = Some p -> nd_get O io = Some o ->
  exists X Y Z x y z, c_convert_from_gcs_pairwise NumR c P O = inr (X, Y, Z) /\
    nd_get X (ip ++ io) = Some x /\ nd_get Y (ip ++ io) = Some y /\ nd_get Z (ip ++ io) = Some z /\
    (x, y, z) = cs_convert_from_gcs NumR (cs_convert_to_gcs NumR (c_origin c) (c_i c) (c_j c) o) (c_i c) (c_j c) p /\
    sqrt (x * x + y * y + z * z) = vdist NumR p (cs_convert_to_gcs NumR (c_origin c) (c_i c) (c_j c) o).
Proof.
  intros F D W Hp Ho.
  destruct (pairwise_get NumR c P O ip io p o D W Hp Ho) as (X & Y & Z & E & _ & _ & _ & Hx & Hy & Hz).
  destruct (pairwise_meaning_R c p o F) as [M1 M2].
  exists X, Y, Z. do 3 eexists. split; [exact E|]. split; [exact Hx|]. split; [exact Hy|]. split; [exact Hz|].
  split; [exact M1 | exact M2].
Qed.

(* ====================================================================================== *)
(* a set of points against itself; closest point                                           *)
(* ====================================================================================== *)
Lemma vdist_self (p : vec3 R) : vdist NumR p p = 0.
Proof. rewrite vdist_formula. replace (_ + _ + _) with 0 by ring. apply sqrt_0. Qed.

Lemma distance_table_self_R (ps : list (vec3 R)) i j : (i < length ps)%nat -> (j < length ps)%nat ->
  nth j (nth i (distance_table NumR ps ps) []) 0 = nth i (nth j (distance_table NumR ps ps) []) 0 /\
  nth i (nth i (distance_table NumR ps ps) []) 0 = 0.
Proof.
  intros Hi Hj. rewrite !distance_table_nth by assumption. split; [apply vdist_sym | apply vdist_self].
Qed.

(* numpy.argmin over the reals: the first position of a minimum *)
Lemma argmin_from_spec (l : list R) : forall bi b i,
  let k := argmin_from NumR bi b i l in
  (k = bi /\ forall v, In v l -> b <= v) \/
  ((i <= k < i + length l)%nat /\ nth (k - i) l 0 < b /\
   (forall j, (j < length l)%nat -> nth (k - i) l 0 <= nth j l 0) /\
   (forall j, (j < k - i)%nat -> nth (k - i) l 0 < nth j l 0)).
Proof.
  induction l as [|v r IH]; intros bi b i; cbn [argmin_from].
  - left. split; [reflexivity | intros v []].
  - cbn [NumR nltb]. destruct (Rlt_bool_spec v b) as [Hlt|Hge].
    + right. destruct (IH i v (S i)) as [[Ek Hall]|(Hk & Hlt' & Hmin & Hfirst)].
      * rewrite Ek. replace (i - i)%nat with 0%nat by lia. cbn [nth length]. split; [lia|]. split; [exact Hlt|]. split.
        -- intros [|j] Hj; [lra|]. cbn [nth]. apply Hall. apply nth_In. cbn [length] in Hj. lia.
        -- intros j Hj. lia.
      * set (k := argmin_from NumR i v (S i) r) in *. cbn [length]. split; [lia|].
        replace (k - i)%nat with (S (k - S i)) by lia. cbn [nth]. split; [lra|]. split.
        -- intros [|j] Hj; [lra|]. cbn [nth]. apply Hmin. cbn [length] in Hj. lia.
        -- intros [|j] Hj; [exact Hlt'|]. cbn [nth]. apply Hfirst. lia.
    + destruct (IH bi b (S i)) as [[Ek Hall]|(Hk & Hlt' & Hmin & Hfirst)].
      * left. split; [exact Ek|]. intros w [<-|Hw]; [exact Hge | apply Hall; exact Hw].
      * right. set (k := argmin_from NumR bi b (S i) r) in *. cbn [length]. split; [lia|].
        replace (k - i)%nat with (S (k - S i)) by lia. cbn [nth]. split; [exact Hlt'|]. split.
        -- intros [|j] Hj; [lra|]. cbn [nth]. apply Hmin. cbn [length] in Hj. lia.
        -- intros [|j] Hj; [lra|]. cbn [nth]. apply Hfirst. lia.
Qed.

Lemma argmin_spec (l : list R) k : argmin NumR l = inr k ->
  (k < length l)%nat /\ (forall j, (j < length l)%nat -> nth k l 0 <= nth j l 0) /\
  (forall j, (j < k)%nat -> nth k l 0 < nth j l 0).
Proof.
  destruct l as [|v r]; [discriminate|]. cbn [argmin]. intros H. injection H as <-.
  destruct (argmin_from_spec r 0%nat v 1%nat) as [[-> Hall]|(Hk & Hlt & Hmin & Hfirst)].
  - cbn [length nth]. split; [lia|]. split; [|intros j Hj; lia].
    intros [|j] Hj; [lra|]. cbn [nth]. apply Hall. apply nth_In. cbn [length] in Hj. lia.
  - set (k := argmin_from NumR 0%nat v 1%nat r) in *. cbn [length]. split; [lia|].
    replace k with (S (k - 1)) by lia. cbn [nth]. split.
    + intros [|j] Hj; [lra|]. cbn [nth]. apply Hmin. cbn [length] in Hj. lia.
    + intros [|j] Hj; [exact Hlt|]. cbn [nth]. apply Hfirst. lia.
Qed.

Lemma sqdist_to_R x y z (p : vec3 R) : sqdist_to NumR x y z p = vdist NumR p (x, y, z) * vdist NumR p (x, y, z).
Proof.
  rewrite vdist_formula. rewrite sqrt_sqrt; [unfold sqdist_to; cbn [NumR nadd nsub nmul vx vy vz fst snd]; ring|].
  apply Rplus_le_le_0_compat; [apply Rplus_le_le_0_compat|]; apply Rle_0_sqr.
Qed.

(* Points.closest_point(x, y, z) on a point array of any shape: the FLAT (C order) index of a
   point at minimal distance, the first one in C order in case of ties *)
Lemma closest_point_spec_R (P : points R) x y z k : closest_point NumR P x y z = inr k ->
  (k < length (nd_data P))%nat /\
  (forall j, (j < length (nd_data P))%nat ->
     vdist NumR (nth k (nd_data P) (0, 0, 0)) (x, y, z) <= vdist NumR (nth j (nd_data P) (0, 0, 0)) (x, y, z)) /\
  (forall j, (j < k)%nat ->
     vdist NumR (nth k (nd_data P) (0, 0, 0)) (x, y, z) < vdist NumR (nth j (nd_data P) (0, 0, 0)) (x, y, z)).
Proof.
  unfold closest_point. intros H. apply argmin_spec in H. rewrite map_length in H. destruct H as (Hk & Hmin & Hfirst).
  split; [exact Hk|].
  assert (Hn : forall j, (j < length (nd_data P))%nat ->
             nth j (map (sqdist_to NumR x y z) (nd_data P)) 0
             = vdist NumR (nth j (nd_data P) (0, 0, 0)) (x, y, z) * vdist NumR (nth j (nd_data P) (0, 0, 0)) (x, y, z)).
  { intros j Hj. rewrite (nth_map_in _ _ j (0, 0, 0) 0) by exact Hj. apply sqdist_to_R. }
  split.
  - intros j Hj. specialize (Hmin j Hj). rewrite !Hn in Hmin by assumption.
    pose proof (vdist_nonneg (nth k (nd_data P) (0, 0, 0)) (x, y, z)).
    pose proof (vdist_nonneg (nth j (nd_data P) (0, 0, 0)) (x, y, z)). nra.
  - intros j Hj. specialize (Hfirst j Hj). rewrite !Hn in Hfirst by lia.
    pose proof (vdist_nonneg (nth k (nd_data P) (0, 0, 0)) (x, y, z)).
    pose proof (vdist_nonneg (nth j (nd_data P) (0, 0, 0)) (x, y, z)). nra.
Qed.

Lemma closest_point_empty (P : points R) x y z : nd_data P = [] -> closest_point NumR P x y z = inl ValueError.
Proof. intros H. unfold closest_point. rewrite H. reflexivity. Qed.

(* Points.rotate (orthonormal matrix, any centre) and Points.translate (one direction) keep the
   shape and every pairwise distance, for point arrays of any shape *)
Lemma vadd_dist_R (d p q : vec3 R) : vdist NumR (vadd NumR p d) (vadd NumR q d) = vdist NumR p q.
Proof. unfold vdist. rewrite vsub_vadd_same. reflexivity. Qed.

Lemma points_rigid_motions_R (P Q : points R) (M : mat3 R) ce a b c : orthonormal NumR M ->
  (nd_shape (points_rotate NumR P M ce) = nd_shape P /\
   distance_table NumR (nd_data (points_rotate NumR P M ce)) (nd_data (points_rotate NumR Q M ce))
   = distance_table NumR (nd_data P) (nd_data Q)) /\
  exists P' Q', points_translate NumR P [3%nat] [a; b; c] = inr P' /\
                points_translate NumR Q [3%nat] [a; b; c] = inr Q' /\ nd_shape P' = nd_shape P /\
                distance_table NumR (nd_data P') (nd_data Q') = distance_table NumR (nd_data P) (nd_data Q).
Proof.
  intros [_ Hc]. split.
  - split; [reflexivity|]. unfold points_rotate, nd_map. cbn [nd_data]. apply distance_table_map.
    intros p q. apply rotate_dist_R. exact Hc.
  - eexists. eexists. split; [apply points_translate_one|]. split; [apply points_translate_one|].
    split; [reflexivity|]. unfold nd_map. cbn [nd_data]. apply distance_table_map. intros p q. apply vadd_dist_R.
Qed.

(* ====================================================================================== *)
(* Points.allclose                                                                          *)
(* ====================================================================================== *)
Lemma close_to_refl_R (a : R) : close_to NumR 1 0 a a = true.
Proof.
  unfold close_to. rewrite !nabs_Rabs. cbn [NumR nleb nsub nadd nmul].
  replace (a - a) with 0 by ring. rewrite Rabs_R0.
  destruct (Rle_bool_spec 0 (1 + 0 * Rabs a)) as [_|H]; [reflexivity | lra].
Qed.

(* OBSERVATION: the docstring of are_points_close says "True if and only if the two sets of points
   have the same shape and coordinates close"; the code compares only the NUMBER of dimensions and
   lets numpy broadcast: one point against two equal points is "close" *)
Lemma points_allclose_broadcasts_R :
  exists P Q : points R, nd_wf P /\ nd_wf Q /\ nd_shape P <> nd_shape Q /\ points_allclose NumR P Q 1 0 = inr true.
Proof.
  exists (mkNd [1%nat] [(1, 2, 3)]), (mkNd [2%nat] [(1, 2, 3); (1, 2, 3)]).
  split; [reflexivity|]. split; [reflexivity|]. split; [discriminate|].
  unfold points_allclose. cbn [nd_shape length Nat.eqb negb bcast_shape ndindex seq flat_map map app forallb
                               bcast_index nd_get in_bounds Nat.ltb Nat.leb andb ravel size fold_right Nat.mul Nat.add
                               nd_data nth_error].
  unfold vclose. cbn [vx vy vz fst snd]. rewrite !close_to_refl_R. reflexivity.
Qed.
