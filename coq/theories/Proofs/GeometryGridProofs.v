(* Proofs/GeometryGridProofs.v — distance tables, box selector, grids (C17). *)
From Coq Require Import List Reals Lra Lia ZArith Bool Arith.
From Flocq Require Import Core.Raux Core.Round_NE Core.Generic_fmt.
From Arim Require Import Base.Num Base.NumR Model.Vec3 Model.Geometry Proofs.Vec3Proofs.
Import ListNotations.

(* ---- generic list facts (every Num instance) --------------------------------- *)
Lemma nth_map_in {A B} (f : A -> B) (l : list A) i dA dB : (i < length l)%nat ->
  nth i (map f l) dB = f (nth i l dA).
Proof. intros H. rewrite (nth_indep _ dB (f dA)) by (rewrite map_length; exact H). apply map_nth. Qed.

Lemma nth_concat_uniform {A} (l : list (list A)) (m i j : nat) (d : A) :
  Forall (fun r => length r = m) l -> (i < length l)%nat -> (j < m)%nat ->
  nth (i * m + j) (concat l) d = nth j (nth i l []) d.
Proof.
  revert i. induction l as [|a l IH]; intros i Hall Hi Hj; [simpl in Hi; lia|].
  inversion Hall as [|? ? Ha Hl]; subst. destruct i as [|i]; cbn [concat nth].
  - rewrite app_nth1 by lia. reflexivity.
  - replace (S i * length a + j)%nat with (length a + (i * length a + j))%nat by lia.
    rewrite app_nth2 by lia. replace (length a + (i * length a + j) - length a)%nat with (i * length a + j)%nat by lia.
    apply IH; [exact Hl | simpl in Hi; lia | exact Hj].
Qed.

Lemma length_concat_uniform {A} (l : list (list A)) (m : nat) :
  Forall (fun r => length r = m) l -> length (concat l) = (length l * m)%nat.
Proof.
  induction l as [|a l IH]; intros Hall; [reflexivity|]. inversion Hall; subst.
  cbn [concat length]. rewrite app_length, IH by assumption. lia.
Qed.

Section Order.
  Context {T : Type}.
  Implicit Types xs ys zs : list T.

  Lemma meshgrid_rows_uniform xs ys zs :
    Forall (fun r => length r = (length ys * length zs)%nat) (map (@concat (vec3 T)) (meshgrid_ij xs ys zs)).
  Proof.
    unfold meshgrid_ij. rewrite Forall_forall. intros r Hr. rewrite map_map in Hr.
    apply in_map_iff in Hr. destruct Hr as (x & <- & _).
    rewrite (length_concat_uniform _ (length zs)).
    - rewrite map_length. reflexivity.
    - rewrite Forall_forall. intros r Hr. apply in_map_iff in Hr. destruct Hr as (y & <- & _). apply map_length.
  Qed.

  (* to_1d_points of a meshgrid 'ij': x-major (C) order *)
  Lemma flatten_meshgrid_length xs ys zs :
    length (flatten_c (meshgrid_ij xs ys zs)) = (length xs * length ys * length zs)%nat.
  Proof.
    unfold flatten_c. rewrite (length_concat_uniform _ _ (meshgrid_rows_uniform xs ys zs)).
    unfold meshgrid_ij. rewrite !map_length. lia.
  Qed.

  Lemma flatten_meshgrid_nth xs ys zs ix iy iz (d : T) :
    (ix < length xs)%nat -> (iy < length ys)%nat -> (iz < length zs)%nat ->
    nth ((ix * length ys + iy) * length zs + iz) (flatten_c (meshgrid_ij xs ys zs)) (d, d, d)
    = (nth ix xs d, nth iy ys d, nth iz zs d).
  Proof.
    intros Hx Hy Hz. unfold flatten_c.
    replace ((ix * length ys + iy) * length zs + iz)%nat
      with (ix * (length ys * length zs) + (iy * length zs + iz))%nat by ring.
    rewrite (nth_concat_uniform _ _ _ _ _ (meshgrid_rows_uniform xs ys zs)).
    - unfold meshgrid_ij. rewrite map_map.
      rewrite (nth_map_in _ xs ix d []) by exact Hx.
      rewrite (nth_concat_uniform _ (length zs)).
      + rewrite (nth_map_in _ ys iy d []) by exact Hy.
        rewrite (nth_map_in _ zs iz d (d, d, d)) by exact Hz. reflexivity.
      + rewrite Forall_forall. intros r Hr. apply in_map_iff in Hr. destruct Hr as (y & <- & _). apply map_length.
      + rewrite map_length. exact Hy.
      + exact Hz.
    - unfold meshgrid_ij. rewrite !map_length. exact Hx.
    - nia.
  Qed.

  Lemma meshgrid_nth xs ys zs ix iy iz (d : T) :
    (ix < length xs)%nat -> (iy < length ys)%nat -> (iz < length zs)%nat ->
    nth iz (nth iy (nth ix (meshgrid_ij xs ys zs) []) []) (d, d, d) = (nth ix xs d, nth iy ys d, nth iz zs d).
  Proof.
    intros Hx Hy Hz. unfold meshgrid_ij.
    rewrite (nth_map_in _ xs ix d []) by exact Hx.
    rewrite (nth_map_in _ ys iy d []) by exact Hy.
    rewrite (nth_map_in _ zs iz d (d, d, d)) by exact Hz. reflexivity.
  Qed.
End Order.

Lemma zrange_from_length s n : length (zrange_from s n) = n.
Proof. revert s. induction n as [|n IH]; intros s; simpl; [reflexivity | rewrite IH; reflexivity]. Qed.

Lemma zrange_from_nth s n i : (i < n)%nat -> nth i (zrange_from s n) 0%Z = (s + Z.of_nat i)%Z.
Proof.
  revert s i. induction n as [|n IH]; intros s i Hi; [lia|]. destruct i as [|i]; cbn [zrange_from nth].
  - lia.
  - rewrite IH by lia. lia.
Qed.

Local Open Scope R_scope.

(* ---- distance table -------------------------------------------------------------- *)
Lemma vdist_formula (p q : vec3 R) :
  vdist NumR p q = sqrt ((vx p - vx q) * (vx p - vx q) + (vy p - vy q) * (vy p - vy q) + (vz p - vz q) * (vz p - vz q)).
Proof. v3_start. reflexivity. Qed.

Lemma distance_table_dims (ps qs : list (vec3 R)) :
  length (distance_table NumR ps qs) = length ps /\
  Forall (fun row => length row = length qs) (distance_table NumR ps qs).
Proof.
  unfold distance_table. split; [apply map_length|].
  rewrite Forall_forall. intros r Hr. apply in_map_iff in Hr. destruct Hr as (p & <- & _). apply map_length.
Qed.

Lemma distance_table_nth (ps qs : list (vec3 R)) i j : (i < length ps)%nat -> (j < length qs)%nat ->
  nth j (nth i (distance_table NumR ps qs) []) 0 = vdist NumR (nth i ps (0, 0, 0)) (nth j qs (0, 0, 0)).
Proof.
  intros Hi Hj. unfold distance_table.
  rewrite (nth_map_in _ ps i (0, 0, 0) []) by exact Hi.
  rewrite (nth_map_in _ qs j (0, 0, 0) 0) by exact Hj. reflexivity.
Qed.

Lemma vdist_sym (p q : vec3 R) : vdist NumR p q = vdist NumR q p.
Proof. rewrite !vdist_formula. f_equal. ring. Qed.

Lemma vdist_nonneg (p q : vec3 R) : 0 <= vdist NumR p q.
Proof. rewrite vdist_formula. apply sqrt_pos. Qed.

(* ---- box selector ------------------------------------------------------------------ *)
Definition lower_spec (b : option R) (x : R) : Prop := forall lo, b = Some lo -> lo <= x.
Definition upper_spec (b : option R) (x : R) : Prop := forall hi, b = Some hi -> x <= hi.

Lemma lower_ok_spec b x : lower_ok NumR b x = true <-> lower_spec b x.
Proof.
  unfold lower_ok, lower_spec. destruct b as [lo|]; cbn [NumR nleb].
  - destruct (Rle_bool_spec lo x) as [H|H]; split; intros H'; try reflexivity; try discriminate.
    + intros lo' E. injection E as <-. exact H.
    + specialize (H' lo eq_refl). lra.
  - split; [intros _ lo E; discriminate | reflexivity].
Qed.

Lemma upper_ok_spec b x : upper_ok NumR b x = true <-> upper_spec b x.
Proof.
  unfold upper_ok, upper_spec. destruct b as [hi|]; cbn [NumR nleb].
  - destruct (Rle_bool_spec x hi) as [H|H]; split; intros H'; try reflexivity; try discriminate.
    + intros hi' E. injection E as <-. exact H.
    + specialize (H' hi eq_refl). lra.
  - split; [intros _ hi E; discriminate | reflexivity].
Qed.

Lemma in_rectbox_spec xmin xmax ymin ymax zmin zmax (p : vec3 R) :
  in_rectbox NumR xmin xmax ymin ymax zmin zmax p = true <->
  lower_spec xmin (vx p) /\ upper_spec xmax (vx p) /\
  lower_spec ymin (vy p) /\ upper_spec ymax (vy p) /\
  lower_spec zmin (vz p) /\ upper_spec zmax (vz p).
Proof.
  unfold in_rectbox. rewrite !andb_true_iff, !lower_ok_spec, !upper_ok_spec. tauto.
Qed.

Lemma points_in_rectbox_nth xmin xmax ymin ymax zmin zmax (ps : list (vec3 R)) i : (i < length ps)%nat ->
  nth i (points_in_rectbox NumR xmin xmax ymin ymax zmin zmax ps) false
  = in_rectbox NumR xmin xmax ymin ymax zmin zmax (nth i ps (0, 0, 0)).
Proof. intros Hi. unfold points_in_rectbox. apply nth_map_in. exact Hi. Qed.

(* ---- linspace and one grid axis ------------------------------------------------------ *)
Lemma nabs_Rabs x : nabs NumR x = Rabs x.
Proof.
  unfold nabs. cbn [NumR nltb nopp n0]. destruct (Rlt_bool_spec x 0) as [H|H].
  - rewrite Rabs_left by exact H. reflexivity.
  - rewrite Rabs_right by lra. reflexivity.
Qed.

Lemma linspace_R lo hi n : (2 <= n)%Z ->
  exists xs, linspace NumR lo hi n = Some xs /\ length xs = Z.to_nat n /\
    forall i, (i < Z.to_nat n)%nat -> nth i xs 0 = lo + INR i * ((hi - lo) / IZR (n - 1)).
Proof.
  intros Hn. unfold linspace.
  destruct (Z.ltb_spec n 0) as [H|_]; [lia|]. destruct (Z.eqb_spec n 1) as [H|_]; [lia|].
  eexists. split; [reflexivity|]. split; [rewrite map_length, zrange_from_length; reflexivity|].
  intros i Hi. rewrite (nth_map_in _ _ i 0%Z 0) by (rewrite zrange_from_length; exact Hi).
  rewrite zrange_from_nth by exact Hi. cbn [NumR nofZ nadd nsub nmul ndiv].
  rewrite Z.add_0_l. rewrite INR_IZR_INZ.
  assert (Hd : IZR (n - 1) <> 0) by (apply not_0_IZR; lia).
  destruct (Z.eqb_spec (Z.of_nat i) (n - 1)) as [E|_].
  - rewrite E. field. exact Hd.
  - ring.
Qed.

(* the number of points is the integer nearest to L/d + 1 *)
Lemma grid_numpoints_nearest lo hi d : 0 < d ->
  Rabs (IZR (grid_numpoints NumR lo hi d) - (Rabs (hi - lo) / d + 1)) <= / 2.
Proof.
  intros Hd. unfold grid_numpoints. cbn [NumR nround nadd nsub ndiv]. rewrite nabs_Rabs.
  replace (Rabs (hi - lo) / d + 1) with ((Rabs (hi - lo) + d) / d) by (field; lra).
  rewrite Rabs_minus_sym. apply Znearest_half.
Qed.

Lemma grid_numpoints_ge2 lo hi d : 0 < d -> d <= Rabs (hi - lo) -> (2 <= grid_numpoints NumR lo hi d)%Z.
Proof.
  intros Hd HL. unfold grid_numpoints. cbn [NumR nround nadd nsub ndiv]. rewrite nabs_Rabs.
  apply Z.le_trans with (Zfloor ((Rabs (hi - lo) + d) / d)); [|apply Znearest_ge_floor].
  apply Zfloor_lub. apply Rmult_le_reg_r with d; [exact Hd|].
  replace ((Rabs (hi - lo) + d) / d * d) with (Rabs (hi - lo) + d) by (field; lra). lra.
Qed.

Lemma grid_axis_degenerate lo d : grid_axis NumR lo lo d = Some [lo].
Proof. unfold grid_axis. cbn [NumR neqb]. destruct (Req_bool_spec lo lo) as [_|H]; [reflexivity | contradiction]. Qed.

Lemma grid_axis_regular lo hi d : lo <> hi -> 0 < d -> d <= Rabs (hi - lo) ->
  let n := grid_numpoints NumR lo hi d in
  (2 <= n)%Z /\
  exists xs, grid_axis NumR lo hi d = Some xs /\ length xs = Z.to_nat n /\
    (forall i, (i < Z.to_nat n)%nat -> nth i xs 0 = lo + INR i * ((hi - lo) / IZR (n - 1))) /\
    nth 0 xs 0 = lo /\ nth (Z.to_nat n - 1) xs 0 = hi.
Proof.
  intros Hne Hd HL n. assert (Hn : (2 <= n)%Z) by (apply grid_numpoints_ge2; assumption).
  split; [exact Hn|]. unfold grid_axis. cbn [NumR neqb n0].
  destruct (Req_bool_spec lo hi) as [E|_]; [contradiction|].
  destruct (Req_bool_spec d 0) as [E|_]; [lra|].
  destruct (linspace_R lo hi n Hn) as (xs & Hxs & Hlen & Hnth). fold n. exists xs.
  split; [exact Hxs|]. split; [exact Hlen|]. split; [exact Hnth|]. split.
  - rewrite Hnth by lia. simpl. ring.
  - rewrite Hnth by lia. rewrite INR_IZR_INZ. replace (Z.of_nat (Z.to_nat n - 1)) with (n - 1)%Z by lia.
    field. apply not_0_IZR. lia.
Qed.

(* ---- centred grid ------------------------------------------------------------------------- *)
Lemma lor_1_cases a : (0 <= a)%Z -> (Z.lor a 1 = a \/ Z.lor a 1 = a + 1)%Z /\ Z.odd (Z.lor a 1) = true.
Proof.
  intros Ha. destruct a as [|p|p]; [split; [right|]; reflexivity | | lia].
  destruct p as [p|p|].
  - split; [left|]; reflexivity.
  - split; [right|]; reflexivity.
  - split; [left|]; reflexivity.
Qed.
Lemma lor_1_bounds a : (0 <= a)%Z -> (a <= Z.lor a 1 <= a + 1)%Z /\ Z.odd (Z.lor a 1) = true.
Proof. intros Ha. destruct (lor_1_cases a Ha) as [[E|E] Ho]; (split; [rewrite E; lia | exact Ho]). Qed.

Lemma nceil_R x : nceil NumR x = Zceil x.
Proof. reflexivity. Qed.

Lemma centred_numpoints_R s p : 0 < s -> 0 < p ->
  let n := centred_numpoints NumR s p in
  Z.odd n = true /\ (3 <= n)%Z /\ s / p + 1 <= IZR n < s / p + 3.
Proof.
  intros Hs Hp n. unfold n, centred_numpoints. rewrite nceil_R. cbn [NumR nadd ndiv n1].
  set (x := s / p + 1). assert (Hx : 1 < x) by (unfold x; assert (0 < s / p) by (apply Rdiv_lt_0_compat; assumption); lra).
  assert (Hc1 : x <= IZR (Zceil x)) by apply Zceil_ub.
  assert (Hc2 : IZR (Zceil x) < x + 1).
  { unfold Zceil. rewrite opp_IZR. pose proof (Zfloor_lb (- x)). pose proof (Zfloor_ub (- x)). lra. }
  assert (Hc3 : (2 <= Zceil x)%Z).
  { assert (1 < Zceil x)%Z by (apply lt_IZR; lra). lia. }
  destruct (lor_1_bounds (Zceil x)) as [[Hl1 Hl2] Hodd]; [lia|].
  split; [exact Hodd|]. split.
  - assert (Z.lor (Zceil x) 1 <> 2)%Z by (intros E; rewrite E in Hodd; discriminate). lia.
  - apply IZR_le in Hl1. apply IZR_le in Hl2. rewrite plus_IZR in Hl2. unfold x in *. lra.
Qed.

Lemma centred_axis_R c s p : 0 < s -> 0 < p ->
  let n := centred_numpoints NumR s p in
  exists xs, grid_axis NumR (c - s / 2) (c + s / 2) (centred_step NumR s n) = Some xs /\
    length xs = Z.to_nat n /\
    (forall i, (i < Z.to_nat n)%nat -> nth i xs 0 = (c - s / 2) + INR i * (s / IZR (n - 1))) /\
    nth (Z.to_nat ((n - 1) / 2)) xs 0 = c.
Proof.
  intros Hs Hp n. destruct (centred_numpoints_R s p Hs Hp) as (Hodd & Hn3 & _). fold n in Hodd, Hn3.
  assert (Hd : IZR (n - 1) <> 0) by (apply not_0_IZR; lia).
  assert (Hd' : 0 < IZR (n - 1)) by (apply IZR_lt; lia).
  unfold grid_axis. cbn [NumR neqb n0 nofZ].
  destruct (Req_bool_spec (c - s / 2) (c + s / 2)) as [E|_]; [lra|].
  unfold centred_step. destruct (Z.eqb_spec (n - 1) 0) as [E|_]; [lia|]. cbn [NumR ndiv nofZ].
  assert (Hstep : 0 < s / IZR (n - 1)) by (apply Rdiv_lt_0_compat; assumption).
  destruct (Req_bool_spec (s / IZR (n - 1)) 0) as [E|_]; [lra|].
  assert (HN : grid_numpoints NumR (c - s / 2) (c + s / 2) (s / IZR (n - 1)) = n).
  { unfold grid_numpoints. cbn [NumR nround nadd nsub ndiv]. rewrite nabs_Rabs.
    apply Znearest_imp.
    replace (c + s / 2 - (c - s / 2)) with s by field. rewrite (Rabs_right s) by lra.
    replace ((s + s / IZR (n - 1)) / (s / IZR (n - 1))) with (IZR (n - 1) + 1) by (field; split; lra).
    rewrite minus_IZR. replace (IZR n - 1 + 1 - IZR n) with 0 by ring. rewrite Rabs_R0. lra. }
  rewrite HN. destruct (linspace_R (c - s / 2) (c + s / 2) n) as (xs & Hxs & Hlen & Hnth); [lia|].
  exists xs. split; [exact Hxs|]. split; [exact Hlen|]. split.
  - intros i Hi. rewrite Hnth by exact Hi. f_equal. f_equal. field. exact Hd.
  - assert (Hk : (n = 2 * ((n - 1) / 2) + 1)%Z).
    { rewrite Z.odd_spec in Hodd. destruct Hodd as [k Hk]. rewrite Hk at 2.
      replace (2 * k + 1 - 1)%Z with (k * 2)%Z by ring. rewrite Z.div_mul by lia. lia. }
    set (k := ((n - 1) / 2)%Z) in *.
    rewrite Hnth by lia. rewrite INR_IZR_INZ, Z2Nat.id by lia.
    replace (IZR (n - 1)) with (2 * IZR k) by (rewrite Hk at 1; rewrite minus_IZR, plus_IZR, mult_IZR; ring).
    assert (IZR k <> 0) by (apply not_0_IZR; lia). field. assumption.
Qed.

Lemma centred_axis_degenerate c p : 
  grid_axis NumR (c - 0 / 2) (c + 0 / 2) (centred_step NumR 0 (centred_numpoints NumR 0 p)) = Some [c - 0 / 2]
  /\ c - 0 / 2 = c.
Proof.
  split; [|field]. unfold grid_axis. cbn [NumR neqb].
  destruct (Req_bool_spec (c - 0 / 2) (c + 0 / 2)) as [_|H]; [reflexivity | exfalso; apply H; field].
Qed.

(* ---- concrete values (non-vacuity, banker's rounding) --------------------------------------- *)
Lemma grid_numpoints_example : grid_numpoints NumR 0 1 (/ 4) = 5%Z.
Proof.
  unfold grid_numpoints. cbn [NumR nround nadd nsub ndiv]. rewrite nabs_Rabs.
  apply Znearest_imp. replace (1 - 0) with 1 by ring. rewrite Rabs_R1.
  replace ((1 + / 4) / / 4 - 5) with 0 by field. rewrite Rabs_R0. lra.
Qed.

(* half-way case: (1.5 + 1)/1 = 2.5 rounds to the even integer 2 (not 3) *)
Lemma grid_numpoints_half_even : grid_numpoints NumR 0 (3 / 2) 1 = 2%Z.
Proof.
  unfold grid_numpoints. cbn [NumR nround nadd nsub ndiv]. rewrite nabs_Rabs.
  replace ((Rabs (3 / 2 - 0) + 1) / 1) with (5 / 2) by (rewrite Rabs_right by lra; field).
  unfold ZnearestE, Znearest.
  assert (Hf : Zfloor (5 / 2) = 2%Z) by (apply Zfloor_imp; simpl; lra).
  rewrite Hf. replace (5 / 2 - 2) with (/ 2) by field. rewrite Rcompare_Eq by reflexivity. reflexivity.
Qed.

(* ---- the whole grid is the 'ij' meshgrid of its three axes (every Num instance) -------------- *)
Lemma grid_structure {T} (N : Num T) xmin xmax ymin ymax zmin zmax dx dy dz g :
  grid N xmin xmax ymin ymax zmin zmax dx dy dz = Some g ->
  grid_axis N xmin xmax dx = Some (g_xvect g) /\ grid_axis N ymin ymax dy = Some (g_yvect g) /\
  grid_axis N zmin zmax dz = Some (g_zvect g) /\
  g_coords g = meshgrid_ij (g_xvect g) (g_yvect g) (g_zvect g) /\
  grid_to_1d_points g = flatten_c (meshgrid_ij (g_xvect g) (g_yvect g) (g_zvect g)).
Proof.
  unfold grid. destruct (grid_axis N xmin xmax dx) as [xs|]; [|discriminate].
  destruct (grid_axis N ymin ymax dy) as [ys|]; [|discriminate].
  destruct (grid_axis N zmin zmax dz) as [zs|]; [|discriminate].
  intros E. injection E as <-. unfold grid_to_1d_points. cbn [g_xvect g_yvect g_zvect g_coords]. repeat split; reflexivity.
Qed.

Lemma grid_none_iff {T} (N : Num T) xmin xmax ymin ymax zmin zmax dx dy dz :
  grid N xmin xmax ymin ymax zmin zmax dx dy dz = None <->
  grid_axis N xmin xmax dx = None \/ grid_axis N ymin ymax dy = None \/ grid_axis N zmin zmax dz = None.
Proof.
  unfold grid. destruct (grid_axis N xmin xmax dx), (grid_axis N ymin ymax dy), (grid_axis N zmin zmax dz);
    split; intros H; try discriminate; try reflexivity; try tauto;
    destruct H as [H|[H|H]]; discriminate.
Qed.

(* grid_centred_at_point is Grid(centre -+ size/2, steps size/(n-1)) for sizes >= 0, pixel <> 0 *)
Lemma grid_centred_unfold cx cy cz sx sy sz px : 0 <= sx -> 0 <= sy -> 0 <= sz -> px <> 0 ->
  grid_centred_at_point NumR cx cy cz sx sy sz px =
  grid NumR (cx - sx / 2) (cx + sx / 2) (cy - sy / 2) (cy + sy / 2) (cz - sz / 2) (cz + sz / 2)
       (centred_step NumR sx (centred_numpoints NumR sx px))
       (centred_step NumR sy (centred_numpoints NumR sy px))
       (centred_step NumR sz (centred_numpoints NumR sz px)).
Proof.
  intros Hx Hy Hz Hp. unfold grid_centred_at_point. cbn [NumR nltb neqb n0 nofZ nsub nadd ndiv].
  destruct (Rlt_bool_spec sx 0); [lra|]. destruct (Rlt_bool_spec sy 0); [lra|]. destruct (Rlt_bool_spec sz 0); [lra|].
  cbn [orb]. destruct (Req_bool_spec px 0); [contradiction|]. reflexivity.
Qed.

Lemma grid_centred_rejects cx cy cz sx sy sz px : sx < 0 \/ sy < 0 \/ sz < 0 \/ px = 0 ->
  grid_centred_at_point NumR cx cy cz sx sy sz px = None.
Proof.
  intros H. unfold grid_centred_at_point. cbn [NumR nltb neqb n0].
  destruct (Rlt_bool_spec sx 0); [reflexivity|]. destruct (Rlt_bool_spec sy 0); [reflexivity|].
  destruct (Rlt_bool_spec sz 0); [reflexivity|]. cbn [orb].
  destruct (Req_bool_spec px 0); [reflexivity|]. lra.
Qed.
