(* Proofs/SynthesisProofs.v — lemmas about Model/Synthesis.v (C11): the glue around the cores
   of Model/Signal.v.
     1. Python list / numpy slice helpers; the table h of rfft_to_hilbert built by the code's
        assignments equals Signal.hilbert_weight, and fails (IndexError) exactly when too short.
     2. scipy.fftpack.next_fast_len: smallest 5-smooth number >= target, below 2*target.
     3. make_toneburst: error branches in the order of the code, accepted iff
        Signal.toneburst_args_ok, length, every sample for num_samples None/given, wrap
        (rotation = index (k + h) mod len) and analytical (real part = the real toneburst,
        imaginary part = the windowed sine, antisymmetric; envelope = the Hann window, 1 only
        at the centre).
     4. make_toneburst2: padding, t0_idx, time axis, samples, errors.
     5. rfft_to_hilbert on n-dimensional arrays: errors, shape (frequency axis replaced in
        place), negative axes, entries, linearity; equals scipy.signal.hilbert's definition
        on the half spectrum of a length-n signal; real part of the analytic signal of a real
        signal is the signal (conjugate symmetry + mirrored weights).
     6. transfer_func_to_timetraces: 2-D input = one scatterer, every guard, closed form of the
        result (which delay goes to which (scatterer, timetrace), sum over scatterers),
        linearity in the transfer function, zero, accumulation on given timetraces, echoes on
        sample-aligned delays reproduce the scaled toneburst. *)
From Coq Require Import ZArith List Bool Lia ZifyBool Reals Lra.
From Flocq Require Import Core.Raux.
From Coquelicot Require Import Complex.
From Arim Require Import Model.Dft Proofs.DftProofs Proofs.Dft2Proofs.
From Arim Require Import Base.Num Base.NumR Model.Signal Model.Synthesis Proofs.SignalProofs.
Import ListNotations.
Local Open Scope Z_scope.

Lemma tabulate_length {A} len (f : nat -> A) : length (tabulate len f) = len.
Proof. unfold tabulate. rewrite map_length, seq_length. reflexivity. Qed.

Lemma nth_tabulate {A} len (f : nat -> A) k d : (k < len)%nat -> nth k (tabulate len f) d = f k.
Proof.
  intros Hk. unfold tabulate. rewrite (nth_indep _ d (f O)) by (rewrite map_length, seq_length; exact Hk).
  rewrite map_nth, seq_nth by exact Hk. reflexivity.
Qed.

Lemma nth_repeat_lt {A} (a d : A) m k : (k < m)%nat -> nth k (repeat a m) d = a.
Proof. intros Hk. rewrite (nth_indep _ d a) by (rewrite repeat_length; exact Hk). apply nth_repeat. Qed.

Lemma set_index_some {A} (l : list A) i v : - Z.of_nat (length l) <= i < Z.of_nat (length l) ->
  set_index l i v = Some (tabulate (length l) (fun j => if Nat.eqb j (Z.to_nat (if i <? 0 then i + Z.of_nat (length l) else i)) then v else nth j l v)).
Proof.
  intros Hi. unfold set_index, py_index.
  replace ((- Z.of_nat (length l) <=? i) && (i <? Z.of_nat (length l))) with true by lia.
  reflexivity.
Qed.

Lemma set_index_none {A} (l : list A) i v : (i < - Z.of_nat (length l) \/ Z.of_nat (length l) <= i) ->
  set_index l i v = None.
Proof.
  intros Hi. unfold set_index, py_index.
  replace ((- Z.of_nat (length l) <=? i) && (i <? Z.of_nat (length l))) with false by lia. reflexivity.
Qed.

Lemma even_mod2 n : (n mod 2 =? 0) = Z.even n.
Proof. rewrite Zmod_even. destruct (Z.even n); reflexivity. Qed.

Ltac bsplit :=
  repeat match goal with
  | |- context [Z.leb ?a ?b] => destruct (Z.leb_spec a b)
  | |- context [Z.ltb ?a ?b] => destruct (Z.ltb_spec a b)
  | |- context [Z.eqb ?a ?b] => destruct (Z.eqb_spec a b)
  | |- context [Nat.eqb ?a ?b] => destruct (Nat.eqb_spec a b)
  | |- context [Nat.ltb ?a ?b] => destruct (Nat.ltb_spec a b)
  end; cbn [andb orb negb]; try reflexivity; try lia.

Lemma hilbert_table_spec n numfreq l : 0 <= n -> hilbert_table n numfreq = Some l ->
  length l = numfreq /\
  forall k, (k < numfreq)%nat -> nth k l 0 = hilbert_weight n (Z.of_nat numfreq) (Z.of_nat k).
Proof.
  intros Hn. unfold hilbert_table. rewrite even_mod2.
  pose proof (Z.div_mod n 2 ltac:(lia)) as Hdm. pose proof (Z.mod_pos_bound n 2 ltac:(lia)) as Hmb.
  rewrite Zmod_even in Hdm.
  destruct (Nat.eq_dec numfreq 0) as [Ez|Ez].
  { subst numfreq. rewrite set_index_none by (simpl; lia). destruct (Z.even n); discriminate. }
  assert (Hpos : (0 < numfreq)%nat) by lia. clear Ez.
  rewrite set_index_some by (rewrite repeat_length; lia).
  rewrite repeat_length. change (0 <? 0) with false. cbv iota. change (Z.to_nat 0) with O.
  destruct (Z.even n) eqn:En.
  - (* even *)
    destruct (Z_lt_le_dec (n / 2) (Z.of_nat numfreq)) as [Hq|Hq].
    + rewrite set_index_some by (rewrite tabulate_length; lia).
      rewrite tabulate_length. replace (n / 2 <? 0) with false by lia. cbv iota.
      intros E. injection E as <-. unfold fill_slice. rewrite !tabulate_length.
      split; [reflexivity|]. intros k Hk. rewrite nth_tabulate by exact Hk.
      rewrite nth_tabulate by exact Hk. rewrite nth_tabulate by exact Hk.
      rewrite nth_repeat_lt by exact Hk.
      unfold hilbert_weight, py_bound. rewrite En. set (q := n / 2) in *. clearbody q. replace (q <? 0) with false by lia. change (1 <? 0) with false. cbv iota. bsplit.
    + rewrite set_index_none by (rewrite tabulate_length; lia). discriminate.
  - (* odd *)
    intros E. injection E as <-. unfold fill_slice. rewrite !tabulate_length.
    split; [reflexivity|]. intros k Hk. rewrite nth_tabulate by exact Hk.
    rewrite nth_tabulate by exact Hk. rewrite nth_repeat_lt by exact Hk.
    unfold hilbert_weight, py_bound. rewrite En.
    assert (Hh : (n + 1) / 2 = n / 2 + 1).
    { replace (n + 1) with ((n / 2 + 1) * 2) by lia. apply Z.div_mul. lia. }
    rewrite Hh. set (q := n / 2) in *. clearbody q. replace (q + 1 <? 0) with false by lia. change (1 <? 0) with false. cbv iota. bsplit.
Qed.

Lemma hilbert_table_none_iff n numfreq : 0 <= n ->
  (hilbert_table n numfreq = None <-> (numfreq = 0%nat \/ (Z.even n = true /\ Z.of_nat numfreq <= n / 2))).
Proof.
  intros Hn. unfold hilbert_table. rewrite even_mod2.
  assert (Hq0 : 0 <= n / 2) by (apply Z.div_pos; lia).
  destruct (Nat.eq_dec numfreq 0) as [Ez|Ez].
  { subst numfreq. rewrite set_index_none by (simpl; lia). destruct (Z.even n); split; auto. }
  rewrite set_index_some by (rewrite repeat_length; lia).
  destruct (Z.even n) eqn:En.
  - destruct (Z_lt_le_dec (n / 2) (Z.of_nat numfreq)) as [Hq|Hq].
    + rewrite set_index_some by (rewrite tabulate_length, repeat_length; lia).
      split; [discriminate|]. intros [H|[_ H]]; lia.
    + rewrite set_index_none by (rewrite tabulate_length, repeat_length; lia). split; auto.
  - split; [discriminate|]. intros [H|[H _]]; [lia|discriminate].
Qed.

(* ---------- more list facts ------------------------------------------------------ *)
Lemma nth_skipn_add {A} (l : list A) h k d : nth k (skipn h l) d = nth (h + k) l d.
Proof.
  revert l. induction h as [|h IH]; intros l; [reflexivity|].
  destruct l as [|x l]; [destruct k; reflexivity|]. simpl. apply IH.
Qed.

Lemma nth_firstn_lt {A} (l : list A) h k d : (k < h)%nat -> nth k (firstn h l) d = nth k l d.
Proof.
  revert l k. induction h as [|h IH]; intros l k Hk; [lia|].
  destruct l as [|x l]; [reflexivity|]. destruct k as [|k]; [reflexivity|]. simpl. apply IH. lia.
Qed.

Lemma py_bound_inside len i : 0 <= i <= len -> py_bound len i = i.
Proof. intros H. unfold py_bound. replace (i <? 0) with false by lia. lia. Qed.

(* _rotate_array(arr, h): entry k of the result is entry (k + h) mod len of arr *)
Lemma rotate_array_nth {A} (l : list A) h k d : 0 <= h <= Z.of_nat (length l) -> (k < length l)%nat ->
  nth k (rotate_array l h) d = nth (Z.to_nat ((Z.of_nat k + h) mod Z.of_nat (length l))) l d.
Proof.
  intros Hh Hk. unfold rotate_array, slice_from, slice_to. rewrite py_bound_inside by exact Hh.
  set (L := length l) in *. set (hn := Z.to_nat h).
  assert (Hhn : (hn <= L)%nat) by lia.
  destruct (Nat.lt_ge_cases k (L - hn)) as [Hlt|Hge].
  - rewrite app_nth1 by (rewrite skipn_length; fold L; lia).
    rewrite nth_skipn_add. f_equal. rewrite Z.mod_small by lia. lia.
  - rewrite app_nth2 by (rewrite skipn_length; fold L; lia).
    rewrite skipn_length. fold L. rewrite nth_firstn_lt by lia. f_equal.
    replace (Z.of_nat k + h) with ((Z.of_nat k + h - Z.of_nat L) + 1 * Z.of_nat L) by ring.
    rewrite Z.mod_add by lia. rewrite Z.mod_small by lia. lia.
Qed.

Lemma rotate_array_length {A} (l : list A) h : length (rotate_array l h) = length l.
Proof.
  unfold rotate_array, slice_from, slice_to. rewrite app_length, skipn_length, firstn_length.
  assert (H : 0 <= py_bound (Z.of_nat (length l)) h <= Z.of_nat (length l)) by (unfold py_bound; lia).
  lia.
Qed.

(* arr[a:a+n] = vals when the slice lies inside the array *)
Lemma set_slice_fit {A} (d : A) (l vals : list A) a :
  0 <= a -> a + Z.of_nat (length vals) <= Z.of_nat (length l) ->
  set_slice d l a (a + Z.of_nat (length vals)) vals
  = Some (tabulate (length l) (fun j => if (a <=? Z.of_nat j) && (Z.of_nat j <? a + Z.of_nat (length vals))
                                       then nth (Z.to_nat (Z.of_nat j - a)) vals d else nth j l d)).
Proof.
  intros Ha Hb. unfold set_slice. rewrite !py_bound_inside by lia.
  replace (Z.of_nat (length vals) =? Z.max 0 (a + Z.of_nat (length vals) - a)) with true by lia.
  reflexivity.
Qed.

(* ---------- scipy.fftpack.next_fast_len ------------------------------------------- *)
Definition smooth5 (n : Z) : Prop := exists a b c : Z, 0 <= a /\ 0 <= b /\ 0 <= c /\ n = 2 ^ a * 3 ^ b * 5 ^ c.

Lemma strip_factor_decomp fuel p n : 1 < p ->
  exists j, 0 <= j /\ n = p ^ j * strip_factor fuel p n.
Proof.
  intros Hp. revert n. induction fuel as [|fuel IH]; intros n; cbn [strip_factor].
  - exists 0. split; [lia|]. rewrite Z.pow_0_r. lia.
  - destruct (Z.eqb_spec (n mod p) 0) as [E|E].
    + destruct (IH (n / p)) as (j & Hj & Ej). exists (j + 1). split; [lia|].
      rewrite Z.pow_add_r, Z.pow_1_r by lia.
      pose proof (Z.div_mod n p ltac:(lia)) as Hdm. rewrite E, Z.add_0_r in Hdm.
      rewrite Hdm at 1. rewrite Ej at 1. ring.
    + exists 0. split; [lia|]. rewrite Z.pow_0_r. lia.
Qed.

Lemma is_5smooth_sound n : is_5smooth n = true -> 0 < n /\ smooth5 n.
Proof.
  unfold is_5smooth. intros H. apply andb_true_iff in H. destruct H as [Hpos H1].
  apply Z.ltb_lt in Hpos. apply Z.eqb_eq in H1. split; [exact Hpos|].
  set (fuel := S (Z.to_nat (Z.log2 n))) in *.
  destruct (strip_factor_decomp fuel 2 n ltac:(lia)) as (a & Ha & Ea).
  destruct (strip_factor_decomp fuel 3 (strip_factor fuel 2 n) ltac:(lia)) as (b & Hb & Eb).
  destruct (strip_factor_decomp fuel 5 (strip_factor fuel 3 (strip_factor fuel 2 n)) ltac:(lia)) as (c & Hc & Ec).
  exists a, b, c. repeat split; try assumption.
  rewrite Ea at 1. rewrite Eb at 1. rewrite Ec at 1. rewrite H1. ring.
Qed.

Lemma strip_pow2 fuel k : 0 <= k -> (Z.to_nat k <= fuel)%nat -> strip_factor fuel 2 (2 ^ k) = 1.
Proof.
  revert k. induction fuel as [|fuel IH]; intros k Hk Hf; cbn [strip_factor].
  - replace k with 0 by lia. reflexivity.
  - destruct (Z.eq_dec k 0) as [E0|E0]; [subst k; reflexivity|].
    replace k with ((k - 1) + 1) by ring. rewrite Z.pow_add_r, Z.pow_1_r by lia.
    rewrite Z.mod_mul by lia. cbn [Z.eqb]. rewrite Z.div_mul by lia. apply IH; lia.
Qed.

Lemma strip_one fuel p : 1 < p -> strip_factor fuel p 1 = 1.
Proof.
  intros Hp. destruct fuel as [|fuel]; [reflexivity|]. cbn [strip_factor].
  rewrite Z.mod_1_l by lia. reflexivity.
Qed.

Lemma is_5smooth_pow2 k : 0 <= k -> is_5smooth (2 ^ k) = true.
Proof.
  intros Hk. unfold is_5smooth. assert (0 < 2 ^ k) by (apply Z.pow_pos_nonneg; lia).
  replace (0 <? 2 ^ k) with true by lia. cbn [andb].
  rewrite Z.log2_pow2 by exact Hk.
  rewrite strip_pow2 by lia. rewrite !strip_one by lia. reflexivity.
Qed.

Lemma search_smooth_spec fuel m :
  (exists j, 0 <= j < Z.of_nat fuel /\ is_5smooth (m + j) = true) ->
  m <= search_smooth fuel m < m + Z.of_nat fuel /\
  is_5smooth (search_smooth fuel m) = true /\
  forall m', m <= m' < search_smooth fuel m -> is_5smooth m' = false.
Proof.
  revert m. induction fuel as [|fuel IH]; intros m (j & Hj & Ej); [lia|].
  cbn [search_smooth]. destruct (is_5smooth m) eqn:Em.
  - split; [lia|]. split; [exact Em|]. intros m' Hm'. lia.
  - assert (j <> 0) by (intro E0; subst j; rewrite Z.add_0_r in Ej; congruence).
    destruct (IH (m + 1)) as (Hr & Hs & Hmin).
    { exists (j - 1). split; [lia|]. replace (m + 1 + (j - 1)) with (m + j) by ring. exact Ej. }
    split; [lia|]. split; [exact Hs|].
    intros m' Hm'. destruct (Z.eq_dec m' m) as [->|Hne]; [exact Em|]. apply Hmin. lia.
Qed.

(* the smallest number 2^a 3^b 5^c that is >= target; it exists below 2*target *)
Lemma next_fast_len_spec target : 1 <= target ->
  exists r, next_fast_len target = Some r /\ target <= r < 2 * target /\
    is_5smooth r = true /\ smooth5 r /\
    forall m, target <= m < r -> is_5smooth m = false.
Proof.
  intros Ht. unfold next_fast_len.
  replace (target <? 0) with false by lia. replace (target =? 0) with false by lia.
  assert (Hex : exists j, 0 <= j < Z.of_nat (Z.to_nat target) /\ is_5smooth (target + j) = true).
  { destruct (Z.eq_dec target 1) as [E1|E1].
    - subst target. exists 0. split; [lia|]. reflexivity.
    - pose proof (Z.log2_up_spec target ltac:(lia)) as [Hlo Hhi].
      assert (Hk : 0 < Z.log2_up target) by (apply Z.log2_up_pos; lia).
      exists (2 ^ Z.log2_up target - target). split.
      + replace (Z.log2_up target) with (Z.pred (Z.log2_up target) + 1) by lia.
        rewrite Z.pow_add_r, Z.pow_1_r by lia.
        replace (Z.log2_up target) with (Z.pred (Z.log2_up target) + 1) in Hhi by lia.
        rewrite Z.pow_add_r, Z.pow_1_r in Hhi by lia. lia.
      + replace (target + (2 ^ Z.log2_up target - target)) with (2 ^ Z.log2_up target) by ring.
        apply is_5smooth_pow2. lia. }
  destruct (search_smooth_spec (Z.to_nat target) target Hex) as (Hr & Hs & Hmin).
  eexists. split; [reflexivity|]. split; [lia|]. split; [exact Hs|].
  split; [exact (proj2 (is_5smooth_sound _ Hs)) | exact Hmin].
Qed.

Lemma next_fast_len_edge : next_fast_len 0 = Some 0 /\ forall t, t < 0 -> next_fast_len t = None.
Proof.
  split; [reflexivity|]. intros t Ht. unfold next_fast_len. replace (t <? 0) with true by lia. reflexivity.
Qed.

Lemma nth_map_zrange {A} (g : Z -> A) (M : Z) (j : nat) d : (j < Z.to_nat M)%nat ->
  nth j (map g (zrange M)) d = g (Z.of_nat j).
Proof.
  intros Hj. unfold zrange. rewrite map_map.
  exact (nth_tabulate (Z.to_nat M) (fun x => g (Z.of_nat x)) j d Hj).
Qed.

Lemma zrange_length M : length (zrange M) = Z.to_nat M.
Proof. unfold zrange. rewrite map_length, seq_length. reflexivity. Qed.

(* ---------- make_toneburst (real numbers) --------------------------------------- *)
Local Open Scope R_scope.

Lemma pulse_len_pos cycles f dt : 0 < dt -> 0 < f -> 0 < cycles -> (1 <= pulse_len NumR cycles f dt)%Z.
Proof.
  intros Hdt Hf Hc. unfold pulse_len, nceil. cbn [NumR ndiv nopp nfloor].
  assert (Hx : 0 < cycles / f / dt) by (apply Rdiv_lt_0_compat; [apply Rdiv_lt_0_compat|]; assumption).
  pose proof (Zfloor_lb (- (cycles / f / dt))) as Hlb.
  assert (Hneg : (Zfloor (- (cycles / f / dt)) < 0)%Z) by (apply lt_IZR; lra).
  destruct (Z.even _) eqn:E; [lia|].
  assert (Z.odd (- Zfloor (- (cycles / f / dt))) = true) by (rewrite <- Z.negb_even, E; reflexivity).
  lia.
Qed.

Section MakeToneburst.
  Variables cycles f dt : R.
  Let M := pulse_len NumR cycles f dt.

  (* sample k of the unwrapped result: the windowed carrier inside the pulse, zero padding after it *)
  Definition sample_at (an : bool) (ns k : Z) : R * R :=
    if ((0 <=? k) && (k <? M) && (k <? ns))%Z then tb_sample NumR an f dt M (M / 2) k else (0, 0).

  Definition ns_of (ns_opt : option Z) : Z := match ns_opt with None => M | Some n => n end.

  Lemma make_toneburst_success ns_opt wrap an :
    0 < dt -> 0 < f -> 0 < cycles -> (0 < ns_of ns_opt)%Z -> (M <= ns_of ns_opt)%Z ->
    exists l, make_toneburst NumR cycles f dt ns_opt wrap an = inr l /\
      length l = Z.to_nat (ns_of ns_opt) /\
      forall k, (0 <= k < ns_of ns_opt)%Z ->
        nth (Z.to_nat k) l (0, 0)
        = sample_at an (ns_of ns_opt) (if wrap then (k + M / 2) mod ns_of ns_opt else k).
  Proof.
    intros Hdt Hf Hc Hns HM.
    pose proof (pulse_len_pos cycles f dt Hdt Hf Hc) as HM1. fold M in HM1.
    unfold make_toneburst. cbn [NumR nleb n0].
    rewrite (Rle_bool_false dt 0), (Rle_bool_false f 0), (Rle_bool_false cycles 0) by assumption.
    replace (match ns_opt with Some ns => (ns <=? 0)%Z | None => false end) with false
      by (destruct ns_opt; cbn [ns_of] in Hns; [lia | reflexivity]).
    fold M. change (match ns_opt with None => M | Some ns => ns end) with (ns_of ns_opt).
    set (ns := ns_of ns_opt) in *.
    replace (ns <? M)%Z with false by lia.
    set (tb := map (tb_sample NumR an f dt M (M / 2)) (zrange M)).
    assert (Ltb : length tb = Z.to_nat M) by (unfold tb; rewrite map_length; apply zrange_length).
    pose proof (set_slice_fit (c0 NumR) (repeat (c0 NumR) (Z.to_nat ns)) tb 0 ltac:(lia)
                  ltac:(rewrite repeat_length; lia)) as Eset.
    replace (0 + Z.of_nat (length tb))%Z with M in Eset by lia.
    rewrite Eset. clear Eset. rewrite repeat_length.
    set (full := tabulate (Z.to_nat ns) _).
    assert (Lfull : length full = Z.to_nat ns) by apply tabulate_length.
    assert (Hfull : forall k, (0 <= k < ns)%Z -> nth (Z.to_nat k) full (0, 0) = sample_at an ns k).
    { intros k Hk. unfold full. rewrite nth_tabulate by lia. rewrite Z2Nat.id by lia.
      unfold sample_at. rewrite Z.sub_0_r.
      replace (0 <=? k)%Z with true by lia. replace (k <? ns)%Z with true by lia.
      destruct (Z.ltb_spec k M) as [HkM|HkM]; cbn [andb].
      - unfold tb. rewrite (nth_indep _ (c0 NumR) (0, 0)) by (rewrite map_length, zrange_length; lia).
        rewrite nth_map_zrange by lia. rewrite Z2Nat.id by lia. reflexivity.
      - rewrite nth_repeat_lt by lia. reflexivity. }
    assert (Hh : (0 <= M / 2 <= ns)%Z).
    { split; [apply Z.div_pos; lia|]. pose proof (Z.div_le_upper_bound M 2 M ltac:(lia) ltac:(lia)). lia. }
    eexists. split; [reflexivity|]. destruct wrap.
    - split; [rewrite rotate_array_length; exact Lfull|].
      intros k Hk. rewrite rotate_array_nth by (rewrite Lfull; lia).
      rewrite Lfull, !Z2Nat.id by lia.
      apply Hfull. apply Z.mod_pos_bound. lia.
    - split; [exact Lfull|]. exact Hfull.
  Qed.

  Lemma in_pulse_dec ns k : {(0 <= k < M /\ k < ns)%Z} + {((0 <=? k) && (k <? M) && (k <? ns))%Z = false}.
  Proof.
    destruct ((0 <=? k) && (k <? M) && (k <? ns))%Z eqn:E; [left; lia | right; reflexivity].
  Qed.

  Lemma sample_at_in an ns k : (0 <= k < M)%Z -> (k < ns)%Z ->
    sample_at an ns k = tb_sample NumR an f dt M (M / 2) k.
  Proof. intros H1 H2. unfold sample_at. replace (_ && _ && _)%Z with true by lia. reflexivity. Qed.

  Lemma sample_at_real ns k : sample_at false ns k = (toneburst_at NumR cycles f dt ns k, 0).
  Proof.
    unfold sample_at, toneburst_at. fold M. destruct (_ && _ && _)%Z; reflexivity.
  Qed.

  Lemma sample_at_analytic_re ns k : fst (sample_at true ns k) = toneburst_at NumR cycles f dt ns k.
  Proof.
    unfold sample_at, toneburst_at. fold M. destruct (_ && _ && _)%Z; [|reflexivity].
    unfold tb_sample, cscale, cexpi, carrier, tb_phase. cbn [fst NumR nmul ncos npi nofZ]. ring.
  Qed.

  Lemma sample_at_analytic_im ns k :
    snd (sample_at true ns k)
    = if ((0 <=? k) && (k <? M) && (k <? ns))%Z
      then hanning NumR M k * sin (2 * PI * dt * f * IZR (k - M / 2)) else 0.
  Proof.
    unfold sample_at. destruct (_ && _ && _)%Z; [|reflexivity].
    unfold tb_sample, cscale, cexpi, tb_phase. cbn [snd NumR nmul nsin npi nofZ]. reflexivity.
  Qed.

  (* the envelope of the analytic toneburst is the Hann window *)
  Lemma analytic_envelope ns k : (0 <= k < M)%Z -> (k < ns)%Z ->
    Cmod (sample_at true ns k) = hanning NumR M k.
  Proof.
    intros H1 H2. rewrite sample_at_in by assumption.
    unfold tb_sample, cscale, cexpi, Cmod. cbn [fst snd NumR nmul nsin ncos].
    set (th := tb_phase NumR f dt (M / 2) k). set (w := hanning NumR M k).
    pose proof (hanning_range M k) as [Hw0 _]. fold w in Hw0.
    replace ((w * cos th) ^ 2 + (w * sin th) ^ 2) with (w * w * ((sin th)² + (cos th)²)) by (unfold Rsqr; ring).
    rewrite sin2_cos2, Rmult_1_r. apply sqrt_square. exact Hw0.
  Qed.

  (* ... which is 1 only at the centre sample *)
  Lemma hanning_lt_1 k : (0 <= k < M)%Z -> k <> (M / 2)%Z -> hanning NumR M k < 1.
  Proof.
    intros Hk Hne. pose proof (odd_half M (pulse_len_odd NumR cycles f dt)) as Hh. fold M in Hh.
    unfold hanning. destruct (Z.eqb_spec M 1) as [E1|E1]; [lia|].
    cbn [NumR nadd nmul ndiv ncos npi nofZ n1].
    set (j := (1 - M + 2 * k)%Z). assert (Hj : (j <> 0 /\ - (M - 1) <= j <= M - 1)%Z) by (unfold j; lia).
    assert (HM1 : 0 < IZR (M - 1)) by (apply IZR_lt; lia).
    assert (Hc : cos (PI * IZR j / IZR (M - 1)) < 1).
    { pose proof PI_RGT_0 as Hpi.
      assert (Hb : - IZR (M - 1) <= IZR j <= IZR (M - 1)).
      { split; [rewrite <- opp_IZR|]; apply IZR_le; lia. }
      destruct (Z_lt_le_dec 0 j) as [Hp|Hn].
      - apply cos_lt_1_open. assert (0 < IZR j) by (apply IZR_lt; lia). split.
        + apply Rdiv_lt_0_compat; [nra | exact HM1].
        + apply Rmult_lt_reg_r with (IZR (M - 1)); [exact HM1|].
          unfold Rdiv. rewrite Rmult_assoc, Rinv_l, Rmult_1_r by lra. nra.
      - rewrite <- cos_neg. apply cos_lt_1_open. assert (IZR j < 0) by (apply IZR_lt; lia). split.
        + replace (- (PI * IZR j / IZR (M - 1))) with (PI * (- IZR j) / IZR (M - 1)) by (unfold Rdiv; ring).
          apply Rdiv_lt_0_compat; [nra | exact HM1].
        + apply Rmult_lt_reg_r with (IZR (M - 1)); [exact HM1|].
          replace (- (PI * IZR j / IZR (M - 1)) * IZR (M - 1)) with (PI * - IZR j) by (field; lra). nra. }
    lra.
  Qed.

  (* the imaginary part (windowed sine) is antisymmetric about the centre *)
  Lemma analytic_imag_antisym ns k : (0 <= k < M)%Z -> (M <= ns)%Z ->
    snd (sample_at true ns (M - 1 - k)) = - snd (sample_at true ns k).
  Proof.
    intros Hk Hns. pose proof (odd_half M (pulse_len_odd NumR cycles f dt)) as Hh. fold M in Hh.
    rewrite !sample_at_in by lia.
    unfold tb_sample, cscale, cexpi, tb_phase. cbn [snd NumR nmul nsin npi nofZ].
    destruct (Z.eq_dec M 1) as [E1|E1].
    - assert (k = 0)%Z by lia. subst k. rewrite E1. change (1 / 2)%Z with 0%Z. change (1 - 1 - 0 - 0)%Z with 0%Z.
      change (0 - 0)%Z with 0%Z. rewrite Rmult_0_r, sin_0. ring.
    - rewrite hanning_sym by lia.
      replace (M - 1 - k - M / 2)%Z with (- (k - M / 2))%Z by lia. rewrite opp_IZR.
      replace (2 * PI * dt * f * - IZR (k - M / 2)) with (- (2 * PI * dt * f * IZR (k - M / 2))) by ring.
      rewrite sin_neg. ring.
  Qed.

  Lemma analytic_centre ns : (1 <= M)%Z -> (M <= ns)%Z -> sample_at true ns (M / 2) = (1, 0).
  Proof.
    intros HM Hns. pose proof (odd_half M (pulse_len_odd NumR cycles f dt)) as Hh. fold M in Hh.
    apply injective_projections.
    - rewrite sample_at_analytic_re. apply toneburst_peak_R; assumption.
    - rewrite sample_at_analytic_im. replace (_ && _ && _)%Z with true by lia.
      rewrite Z.sub_diag, Rmult_0_r, sin_0. cbn [snd]. ring.
  Qed.

  (* ---- error branches, in the order of the code ------------------------------------- *)
  Lemma make_toneburst_errors ns_opt wrap an :
    let mt := make_toneburst NumR cycles f dt ns_opt wrap an in
    (dt <= 0 -> mt = inl TbNegStep) /\
    (0 < dt -> f <= 0 -> mt = inl TbNegFreq) /\
    (0 < dt -> 0 < f -> cycles <= 0 -> mt = inl TbNegCycles) /\
    (0 < dt -> 0 < f -> 0 < cycles -> (forall n, ns_opt = Some n -> (n <= 0)%Z) -> ns_opt <> None -> mt = inl TbNegSamples) /\
    (0 < dt -> 0 < f -> 0 < cycles -> (forall n, ns_opt = Some n -> (0 < n < M)%Z) -> ns_opt <> None -> mt = inl TbTooShort).
  Proof.
    cbv zeta. unfold make_toneburst. cbn [NumR nleb n0]. repeat split.
    - intros H. rewrite (Rle_bool_true dt 0) by assumption. reflexivity.
    - intros H1 H2. rewrite (Rle_bool_false dt 0), (Rle_bool_true f 0) by assumption. reflexivity.
    - intros H1 H2 H3. rewrite (Rle_bool_false dt 0), (Rle_bool_false f 0), (Rle_bool_true cycles 0) by assumption. reflexivity.
    - intros H1 H2 H3 H4 H5.
      rewrite (Rle_bool_false dt 0), (Rle_bool_false f 0), (Rle_bool_false cycles 0) by assumption.
      destruct ns_opt as [n|]; [|congruence]. specialize (H4 n eq_refl).
      replace (n <=? 0)%Z with true by lia. reflexivity.
    - intros H1 H2 H3 H4 H5.
      rewrite (Rle_bool_false dt 0), (Rle_bool_false f 0), (Rle_bool_false cycles 0) by assumption.
      destruct ns_opt as [n|]; [|congruence]. specialize (H4 n eq_refl). fold M.
      replace (n <=? 0)%Z with false by lia. replace (n <? M)%Z with true by lia. reflexivity.
  Qed.

  (* accepted exactly when Signal.toneburst_args_ok says so; the slice assignment never fails *)
  Lemma make_toneburst_accepts ns_opt wrap an :
    (exists l, make_toneburst NumR cycles f dt ns_opt wrap an = inr l)
    <-> toneburst_args_ok NumR cycles f dt ns_opt = true.
  Proof.
    unfold toneburst_args_ok. cbn [NumR nltb n0]. fold M.
    destruct (make_toneburst_errors ns_opt wrap an) as (E1 & E2 & E3 & E4 & E5). cbv zeta in *.
    destruct (Rlt_le_dec 0 dt) as [Hdt|Hdt].
    2:{ rewrite E1 by assumption. rewrite (Rlt_bool_false 0 dt) by assumption. cbn [andb].
        split; [intros [l Hl]; discriminate | discriminate]. }
    destruct (Rlt_le_dec 0 f) as [Hf|Hf].
    2:{ rewrite E2 by assumption. rewrite (Rlt_bool_false 0 f) by assumption. rewrite andb_false_r. cbn [andb].
        split; [intros [l Hl]; discriminate | discriminate]. }
    destruct (Rlt_le_dec 0 cycles) as [Hc|Hc].
    2:{ rewrite E3 by assumption. rewrite (Rlt_bool_false 0 cycles) by assumption. rewrite andb_false_r. cbn [andb].
        split; [intros [l Hl]; discriminate | discriminate]. }
    rewrite !Rlt_bool_true by assumption. cbn [andb].
    pose proof (pulse_len_pos cycles f dt Hdt Hf Hc) as HM1. fold M in HM1.
    destruct ns_opt as [n|].
    - destruct (Z_lt_le_dec 0 n) as [Hn|Hn].
      + destruct (Z_lt_le_dec n M) as [HnM|HnM].
        * rewrite E5; try assumption; try congruence; try (intros n' En'; injection En' as <-; lia).
          replace (M <=? n)%Z with false by lia. rewrite andb_false_r.
          split; [intros [l Hl]; discriminate | discriminate].
        * destruct (make_toneburst_success (Some n) wrap an Hdt Hf Hc) as (l & El & _); cbn [ns_of]; try lia.
          rewrite El. replace ((0 <? n)%Z && (M <=? n)%Z) with true by lia.
          split; [intros _; reflexivity | intros _; exists l; reflexivity].
      + rewrite E4; try assumption; try congruence; try (intros n' En'; injection En' as <-; lia).
        replace (0 <? n)%Z with false by lia. cbn [andb].
        split; [intros [l Hl]; discriminate | discriminate].
    - destruct (make_toneburst_success None wrap an Hdt Hf Hc) as (l & El & _); cbn [ns_of]; try lia.
      rewrite El. split; [intros _; reflexivity | intros _; exists l; reflexivity].
  Qed.

  Lemma make_toneburst_never_broadcast ns_opt wrap an :
    make_toneburst NumR cycles f dt ns_opt wrap an <> inl TbBroadcast.
  Proof.
    destruct (make_toneburst_errors ns_opt wrap an) as (E1 & E2 & E3 & E4 & E5). cbv zeta in *.
    destruct (Rlt_le_dec 0 dt) as [Hdt|Hdt]; [|rewrite E1 by assumption; discriminate].
    destruct (Rlt_le_dec 0 f) as [Hf|Hf]; [|rewrite E2 by assumption; discriminate].
    destruct (Rlt_le_dec 0 cycles) as [Hc|Hc]; [|rewrite E3 by assumption; discriminate].
    pose proof (pulse_len_pos cycles f dt Hdt Hf Hc) as HM1. fold M in HM1.
    destruct ns_opt as [n|].
    - destruct (Z_lt_le_dec 0 n) as [Hn|Hn].
      + destruct (Z_lt_le_dec n M) as [HnM|HnM].
        * rewrite E5; try assumption; try congruence; try discriminate; try (intros n' En'; injection En' as <-; lia).
        * destruct (make_toneburst_success (Some n) wrap an Hdt Hf Hc) as (l & El & _); cbn [ns_of]; try lia.
          rewrite El. discriminate.
      + rewrite E4; try assumption; try congruence; try discriminate; try (intros n' En'; injection En' as <-; lia).
    - destruct (make_toneburst_success None wrap an Hdt Hf Hc) as (l & El & _); cbn [ns_of]; try lia.
      rewrite El. discriminate.
  Qed.
End MakeToneburst.

(* ---------- make_toneburst2 -------------------------------------------------------- *)
Section MakeToneburst2.
  Variables cycles f dt : R.
  Let M := pulse_len NumR cycles f dt.
  Variable nfl : Z -> option Z.     (* scipy.fftpack.next_fast_len, any function *)

  (* errors of make_toneburst come out unchanged, whatever the padding options *)
  Lemma make_toneburst2_error nb na an fast e :
    make_toneburst NumR cycles f dt None false an = inl e ->
    make_toneburst2 NumR nfl cycles f dt nb na an fast = inl (Tb2Toneburst e).
  Proof. intros E. unfold make_toneburst2. rewrite E. reflexivity. Qed.

  Lemma make_toneburst2_spec nb na an (fast : bool) L :
    0 < dt -> 0 < f -> 0 < cycles -> (0 <= nb)%Z -> (0 <= na)%Z ->
    (if fast then nfl (nb * M + M + na * M)%Z else Some (nb * M + M + na * M)%Z) = Some L ->
    (nb * M + M + na * M <= L)%Z ->
    exists r, make_toneburst2 NumR nfl cycles f dt nb na an fast = inr r /\
      tb2_t0 r = toneburst2_t0_idx NumR cycles f dt nb /\
      tb2_start r = toneburst2_time_start NumR cycles f dt nb /\
      tb2_step r = dt /\
      length (tb2_samples r) = Z.to_nat L /\
      forall k, (0 <= k < L)%Z ->
        nth (Z.to_nat k) (tb2_samples r) (0, 0) = sample_at cycles f dt an M (k - nb * M).
  Proof.
    intros Hdt Hf Hc Hnb Hna Hlen HL.
    pose proof (pulse_len_pos cycles f dt Hdt Hf Hc) as HM1. fold M in HM1.
    destruct (make_toneburst_success cycles f dt None false an Hdt Hf Hc) as (sig & Esig & Lsig & Hsig);
      cbn [ns_of]; fold M; try lia.
    cbn [ns_of] in Lsig, Hsig. fold M in Lsig, Hsig.
    unfold make_toneburst2. rewrite Esig.
    assert (En : Z.of_nat (length sig) = M) by lia. rewrite En. rewrite Hlen.
    assert (Hm : (0 <= nb * M)%Z) by nia. assert (Hp : (0 <= na * M)%Z) by nia.
    replace (L <? 0)%Z with false by lia.
    pose proof (set_slice_fit (c0 NumR) (repeat (c0 NumR) (Z.to_nat L)) sig (nb * M) Hm
                  ltac:(rewrite repeat_length; lia)) as Eset.
    rewrite En in Eset. rewrite Eset. clear Eset. rewrite repeat_length.
    eexists. split; [reflexivity|]. cbn [tb2_t0 tb2_start tb2_step tb2_samples].
    split; [reflexivity|]. split; [reflexivity|]. split; [reflexivity|].
    split; [apply tabulate_length|].
    intros k Hk. rewrite nth_tabulate by lia. rewrite Z2Nat.id by lia.
    destruct (Z_lt_le_dec k (nb * M)) as [H1|H1].
    - replace ((nb * M <=? k)%Z && (k <? nb * M + M)%Z) with false by lia.
      rewrite nth_repeat_lt by lia. unfold sample_at. fold M.
      replace (0 <=? k - nb * M)%Z with false by lia. reflexivity.
    - destruct (Z_lt_le_dec k (nb * M + M)) as [H2|H2].
      + replace ((nb * M <=? k)%Z && (k <? nb * M + M)%Z) with true by lia.
        rewrite (nth_indep _ (c0 NumR) (0, 0)) by lia.
        rewrite (Hsig (k - nb * M)%Z) by lia. reflexivity.
      + replace ((nb * M <=? k)%Z && (k <? nb * M + M)%Z) with false by lia.
        rewrite nth_repeat_lt by lia. unfold sample_at. fold M.
        replace (k - nb * M <? M)%Z with false by lia. rewrite andb_false_r. reflexivity.
  Qed.

  (* consequences in the vocabulary of Model/Signal.v: real parts are Signal.toneburst2_at for
     both values of `analytical`, the declared time-zero sample holds 1 (+0j) and time 0 *)
  Lemma make_toneburst2_samples nb na an (fast : bool) L :
    0 < dt -> 0 < f -> 0 < cycles -> (0 <= nb)%Z -> (0 <= na)%Z ->
    (if fast then nfl (nb * M + M + na * M)%Z else Some (nb * M + M + na * M)%Z) = Some L ->
    (nb * M + M + na * M <= L)%Z ->
    exists r, make_toneburst2 NumR nfl cycles f dt nb na an fast = inr r /\
      length (tb2_samples r) = Z.to_nat L /\
      (forall k, (0 <= k < L)%Z ->
         fst (nth (Z.to_nat k) (tb2_samples r) (0, 0)) = toneburst2_at NumR cycles f dt nb k) /\
      (forall k, (0 <= k < nb * M \/ nb * M + M <= k < L)%Z -> nth (Z.to_nat k) (tb2_samples r) (0, 0) = (0, 0)) /\
      (an = false -> forall k, (0 <= k < L)%Z -> snd (nth (Z.to_nat k) (tb2_samples r) (0, 0)) = 0) /\
      (0 <= tb2_t0 r < L)%Z /\
      nth (Z.to_nat (tb2_t0 r)) (tb2_samples r) (0, 0) = (1, 0) /\
      time_sample NumR (tb2_start r) (tb2_step r) (tb2_t0 r) = 0.
  Proof.
    intros Hdt Hf Hc Hnb Hna Hlen HL.
    pose proof (pulse_len_pos cycles f dt Hdt Hf Hc) as HM1. fold M in HM1.
    destruct (make_toneburst2_spec nb na an fast L Hdt Hf Hc Hnb Hna Hlen HL)
      as (r & Er & Et0 & Est & Estep & Elen & Hs).
    exists r. split; [exact Er|]. split; [exact Elen|].
    assert (Hm : (0 <= nb * M)%Z) by nia. assert (Hp : (0 <= na * M)%Z) by nia.
    pose proof (odd_half M (pulse_len_odd NumR cycles f dt)) as Hh. fold M in Hh.
    assert (Ht0 : tb2_t0 r = (nb * M + M / 2)%Z) by (rewrite Et0; reflexivity).
    repeat split.
    - intros k Hk. rewrite Hs by lia. unfold toneburst2_at. fold M.
      destruct an; [apply sample_at_analytic_re | rewrite sample_at_real; reflexivity].
    - intros k Hk. rewrite Hs by lia. unfold sample_at. fold M.
      replace (_ && _ && _)%Z with false by lia. reflexivity.
    - intros Ean k Hk. subst an. rewrite Hs by lia. rewrite sample_at_real. reflexivity.
    - lia.
    - lia.
    - rewrite Hs by lia. rewrite Ht0. replace (nb * M + M / 2 - nb * M)%Z with (M / 2)%Z by ring.
      destruct an.
      + apply analytic_centre; fold M; lia.
      + rewrite sample_at_real. f_equal. apply toneburst_peak_R; fold M; lia.
    - rewrite Est, Estep, Et0.
      apply (proj2 (toneburst2_t0_R cycles f dt nb ltac:(fold M; lia) Hnb)).
  Qed.
End MakeToneburst2.

(* ---------- rfft_to_hilbert on n-dimensional arrays -------------------------------- *)
Local Close Scope R_scope.
Local Open Scope Z_scope.

Lemma py_index_some len i k : py_index len i = Some k ->
  (Z.of_nat k < len) /\ (Z.of_nat k = i \/ Z.of_nat k = i + len) /\ - len <= i < len.
Proof.
  unfold py_index. destruct ((- len <=? i) && (i <? len)) eqn:E; [|discriminate].
  intros H. injection H as <-. destruct (Z.ltb_spec i 0); lia.
Qed.

(* a negative axis names the same axis as axis + ndim *)
Lemma py_index_negative len a : 0 <= a < len -> py_index len (a - len) = Some (Z.to_nat a) /\ py_index len a = Some (Z.to_nat a).
Proof.
  intros Ha. unfold py_index.
  replace ((- len <=? a - len) && (a - len <? len)) with true by lia.
  replace ((- len <=? a) && (a <? len)) with true by lia.
  replace (a - len <? 0) with true by lia. replace (a <? 0) with false by lia.
  split; do 2 f_equal; lia.
Qed.

Lemma py_index_none len i : (i < - len \/ len <= i) -> py_index len i = None.
Proof. intros H. unfold py_index. replace ((- len <=? i) && (i <? len)) with false by lia. reflexivity. Qed.

Lemma upd_nth_length {A} (l : list A) ax v : length (upd_nth l ax v) = length l.
Proof. apply tabulate_length. Qed.

Lemma upd_nth_same {A} (l : list A) ax v d : (ax < length l)%nat -> nth ax (upd_nth l ax v) d = v.
Proof. intros H. unfold upd_nth. rewrite nth_tabulate by exact H. rewrite Nat.eqb_refl. reflexivity. Qed.

Lemma upd_nth_other {A} (l : list A) ax v d j : j <> ax -> nth j (upd_nth l ax v) d = nth j l d.
Proof.
  intros H. destruct (Nat.lt_ge_cases j (length l)) as [Hj|Hj].
  - unfold upd_nth. rewrite nth_tabulate by exact Hj.
    replace (j =? ax)%nat with false by (symmetry; apply Nat.eqb_neq; exact H).
    apply nth_indep. exact Hj.
  - rewrite !nth_overflow; [reflexivity | exact Hj | rewrite upd_nth_length; exact Hj].
Qed.

Section HilbertND.
  Context {T : Type} (N : Num T).
  Variable ifft1 : (nat -> @cx T) -> nat -> Z -> @cx T.

  (* every way rfft_to_hilbert can fail, in the order of the code.
     REPAIRED (model repair of the 0-d branch): the first conjunct used to read
       shape = [] -> r = inl HIndexError
     which is false of the library for n < 1: with xf.ndim == 0 the code sets h = 1.0 and calls
     scipy.fftpack.ifft(h * xf, n, axis), and scipy checks n before it looks at the axis, so
     rfft_to_hilbert(np.array(1+0j), 0) raises ValueError("invalid number of data points (0)
     specified") for every axis; only for n >= 1 the outcome is IndexError("tuple index out of
     range").  The conjunct is now two: 0-d and n < 1 -> HValueError; 0-d and 1 <= n -> HIndexError
     (in both, whatever the axis).  The three conjuncts on n-d inputs are unchanged. *)
  Lemma rfft_to_hilbert_errors shape xf n axis :
    let r := rfft_to_hilbert N ifft1 shape xf n axis in
    (shape = [] -> n < 1 -> r = inl HValueError) /\
    (shape = [] -> 1 <= n -> r = inl HIndexError) /\
    (shape <> [] -> (axis < - Z.of_nat (length shape) \/ Z.of_nat (length shape) <= axis) -> r = inl HIndexError) /\
    (forall ax, shape <> [] -> py_index (Z.of_nat (length shape)) axis = Some ax ->
       hilbert_table n (nth ax shape O) = None -> r = inl HIndexError) /\
    (forall ax h, shape <> [] -> py_index (Z.of_nat (length shape)) axis = Some ax ->
       hilbert_table n (nth ax shape O) = Some h -> n < 1 -> r = inl HValueError).
  Proof.
    cbv zeta. unfold rfft_to_hilbert. repeat split.
    - intros -> Hn. replace (n <? 1) with true by lia. reflexivity.
    - intros -> Hn. replace (n <? 1) with false by lia. reflexivity.
    - intros Hs Hax. destruct shape as [|s0 shape']; [congruence|]. rewrite py_index_none by exact Hax. reflexivity.
    - intros ax Hs Hax Ht. destruct shape as [|s0 shape']; [congruence|]. rewrite Hax, Ht. reflexivity.
    - intros ax h Hs Hax Ht Hn. destruct shape as [|s0 shape']; [congruence|]. rewrite Hax, Ht.
      replace (n <? 1) with true by lia. reflexivity.
  Qed.

  (* the priority of the two error kinds, as an equivalence (added with the repair of the 0-d
     branch): ValueError exactly when n < 1 AND nothing raised IndexError before scipy's check of
     n — a 0-d input (no shape lookup, no table), or an n-d input whose axis exists and whose
     table could be written *)
  Lemma rfft_to_hilbert_value_error_iff shape xf n axis :
    rfft_to_hilbert N ifft1 shape xf n axis = inl HValueError <->
    n < 1 /\ (shape = [] \/
              exists ax h, py_index (Z.of_nat (length shape)) axis = Some ax /\
                           hilbert_table n (nth ax shape O) = Some h).
  Proof.
    unfold rfft_to_hilbert. destruct shape as [|s0 shape'].
    - destruct (Z.ltb_spec n 1) as [Hn|Hn].
      + split; [intros _; split; [exact Hn | left; reflexivity] | reflexivity].
      + split; [discriminate | intros [Hn' _]; lia].
    - destruct (py_index (Z.of_nat (length (s0 :: shape'))) axis) as [ax|] eqn:Hax.
      2:{ split; [discriminate|]. intros [_ [Hs|(ax & h & Hax' & _)]]; discriminate. }
      destruct (hilbert_table n (nth ax (s0 :: shape') O)) as [h|] eqn:Ht.
      2:{ split; [discriminate|]. intros [_ [Hs|(ax' & h & Hax' & Ht')]]; [discriminate|].
          injection Hax' as <-. rewrite Ht in Ht'. discriminate. }
      destruct (Z.ltb_spec n 1) as [Hn|Hn].
      + split; [|reflexivity]. intros _. split; [exact Hn|]. right. exists ax, h. split; [reflexivity | exact Ht].
      + split; [discriminate | intros [Hn' _]; lia].
  Qed.

  (* a 0-d input never succeeds and its outcome does not depend on the axis (added with the repair) *)
  Lemma rfft_to_hilbert_0d xf n axis :
    rfft_to_hilbert N ifft1 [] xf n axis = inl (if n <? 1 then HValueError else HIndexError).
  Proof. unfold rfft_to_hilbert. destruct (n <? 1); reflexivity. Qed.

  (* success: the shape keeps its number of dimensions, the frequency axis is replaced IN PLACE by n
     samples, every other axis is unchanged; entries: the 1-D inverse transform along that axis *)
  Lemma rfft_to_hilbert_success shape xf n axis ax h :
    shape <> [] -> py_index (Z.of_nat (length shape)) axis = Some ax ->
    hilbert_table n (nth ax shape O) = Some h -> 1 <= n ->
    exists oshape out, rfft_to_hilbert N ifft1 shape xf n axis = inr (oshape, out) /\
      length oshape = length shape /\ nth ax oshape O = Z.to_nat n /\
      (forall j, j <> ax -> nth j oshape O = nth j shape O) /\
      forall idx, out idx =
        ifft1 (fun k => if (k <? nth ax shape O)%nat
                        then cscale N (nofZ N (nth k h 0)) (xf (upd_nth idx ax k)) else c0 N)
              (Z.to_nat n) (Z.of_nat (nth ax idx O)).
  Proof.
    intros Hs Hax Ht Hn. pose proof (py_index_some _ _ _ Hax) as (Hlt & _ & _).
    unfold rfft_to_hilbert. destruct shape as [|s0 shape']; [congruence|]. rewrite Hax, Ht.
    replace (n <? 1) with false by lia.
    eexists _, _. split; [reflexivity|]. split; [apply upd_nth_length|].
    split; [apply upd_nth_same; lia|]. split; [intros j Hj; apply upd_nth_other; exact Hj|].
    intros idx. reflexivity.
  Qed.

  (* axis and axis - ndim are the same call (the default axis=-1 is the last axis) *)
  Lemma rfft_to_hilbert_negative_axis shape xf n a : 0 <= a < Z.of_nat (length shape) ->
    rfft_to_hilbert N ifft1 shape xf n (a - Z.of_nat (length shape)) = rfft_to_hilbert N ifft1 shape xf n a.
  Proof.
    intros Ha. unfold rfft_to_hilbert. destruct shape as [|s0 shape']; [reflexivity|].
    destruct (py_index_negative _ _ Ha) as [E1 E2]. rewrite E1, E2. reflexivity.
  Qed.
End HilbertND.

(* ---------- the analytic response as a finite Fourier sum --------------------------- *)
Local Close Scope Z_scope.
Local Open Scope R_scope.

Lemma cscale_C r (a : C) : cscale NumR r a = Cmult (RtoC r) a.
Proof. apply injective_projections; cbn [cscale fst snd NumR nmul RtoC Cmult]; ring. Qed.
Lemma cmul_C (a b : C) : cmul NumR a b = Cmult a b. Proof. reflexivity. Qed.
Lemma cadd_C (a b : C) : cadd NumR a b = Cplus a b. Proof. reflexivity. Qed.
Lemma c0_C : c0 NumR = RtoC 0. Proof. reflexivity. Qed.

Definition idft1 : (nat -> C) -> nat -> Z -> C := idft.

(* entry j of ifft(h * column, n): the weights of Signal.hilbert_weight, zero padding beyond numfreq *)
Definition hilbert_entry (n : Z) (numfreq : nat) (col : nat -> C) (j : Z) : C :=
  idft (fun k => if (k <? numfreq)%nat
                 then Cmult (RtoC (IZR (hilbert_weight n (Z.of_nat numfreq) (Z.of_nat k)))) (col k)
                 else RtoC 0) (Z.to_nat n) j.

Lemma hilbert_entry_ext n numfreq col1 col2 j :
  (forall k, (k < numfreq)%nat -> col1 k = col2 k) -> hilbert_entry n numfreq col1 j = hilbert_entry n numfreq col2 j.
Proof.
  intros H. unfold hilbert_entry. apply idft_ext. intros k _.
  destruct (Nat.ltb_spec k numfreq) as [Hk|Hk]; [rewrite H by exact Hk|]; reflexivity.
Qed.

Lemma idft_plus X Y n j : idft (fun k => Cplus (X k) (Y k)) n j = Cplus (idft X n j) (idft Y n j).
Proof.
  unfold idft. rewrite <- Cmult_plus_distr_l. f_equal. rewrite <- csum_plus. apply csum_ext. intros k _. ring.
Qed.

Lemma idft_scal c X n j : idft (fun k => Cmult c (X k)) n j = Cmult c (idft X n j).
Proof.
  unfold idft. rewrite Cmult_assoc, (Cmult_comm c), <- Cmult_assoc. f_equal.
  rewrite <- csum_scal. apply csum_ext. intros k _. ring.
Qed.

Lemma csum_zero n : csum (fun _ => RtoC 0) n = RtoC 0.
Proof. induction n as [|n IH]; [reflexivity|]. rewrite csum_S, IH. ring. Qed.

Lemma idft_zero n j : idft (fun _ => RtoC 0) n j = RtoC 0.
Proof.
  unfold idft. rewrite (csum_ext _ (fun _ => RtoC 0)) by (intros; ring). rewrite csum_zero. ring.
Qed.

Lemma hilbert_entry_plus n numfreq c1 c2 j :
  hilbert_entry n numfreq (fun k => Cplus (c1 k) (c2 k)) j
  = Cplus (hilbert_entry n numfreq c1 j) (hilbert_entry n numfreq c2 j).
Proof.
  unfold hilbert_entry. rewrite <- idft_plus. apply idft_ext. intros k _.
  destruct (k <? numfreq)%nat; ring.
Qed.

Lemma hilbert_entry_scal n numfreq c col j :
  hilbert_entry n numfreq (fun k => Cmult c (col k)) j = Cmult c (hilbert_entry n numfreq col j).
Proof.
  unfold hilbert_entry. rewrite <- idft_scal. apply idft_ext. intros k _.
  destruct (k <? numfreq)%nat; ring.
Qed.

Lemma hilbert_entry_zero n numfreq j : hilbert_entry n numfreq (fun _ => RtoC 0) j = RtoC 0.
Proof.
  unfold hilbert_entry. rewrite (idft_ext _ (fun _ => RtoC 0)); [apply idft_zero|]. intros k _.
  destruct (k <? numfreq)%nat; [apply Cmult_0_r | reflexivity].
Qed.

(* rfft_to_hilbert with the finite Fourier sum as inverse transform: every entry is the
   inverse transform, along the chosen axis, of the weighted column through that entry *)
Lemma rfft_to_hilbert_entry shape (xf : list nat -> C) n axis ax :
  shape <> [] -> py_index (Z.of_nat (length shape)) axis = Some ax -> (1 <= n)%Z ->
  (1 <= nth ax shape O)%nat -> (Z.even n = true -> (n / 2 < Z.of_nat (nth ax shape O))%Z) ->
  exists out, rfft_to_hilbert NumR idft1 shape xf n axis = inr (upd_nth shape ax (Z.to_nat n), out) /\
    forall idx, out idx = hilbert_entry n (nth ax shape O) (fun k => xf (upd_nth idx ax k)) (Z.of_nat (nth ax idx O)).
Proof.
  intros Hs Hax Hn Hnf Hev.
  destruct (hilbert_table n (nth ax shape O)) as [h|] eqn:Eh.
  2:{ apply hilbert_table_none_iff in Eh; [|lia]. destruct Eh as [E0|[E1 E2]]; [lia|]. specialize (Hev E1). lia. }
  destruct (hilbert_table_spec n _ h ltac:(lia) Eh) as [Lh Hh].
  unfold rfft_to_hilbert. destruct shape as [|s0 shape']; [congruence|]. rewrite Hax, Eh.
  replace (n <? 1)%Z with false by lia.
  eexists. split; [reflexivity|]. intros idx. cbv beta. unfold idft1, hilbert_entry.
  apply idft_ext. intros k _. destruct (Nat.ltb_spec k (nth ax (s0 :: shape') O)) as [Hk|Hk]; [|reflexivity].
  rewrite cscale_C. cbn [NumR nofZ]. rewrite Hh by exact Hk. reflexivity.
Qed.

(* for the half spectrum of a length-n signal (numfreq = n/2 + 1 bins of its transform) this is
   scipy.signal.hilbert's definition ifft(fft(x) * h) of the analytic signal *)
Lemma hilbert_entry_is_hilbert (x : nat -> C) n (col : nat -> C) j : (1 <= n)%Z ->
  (forall k, (k < Z.to_nat (n / 2 + 1))%nat -> col k = dft x (Z.to_nat n) k) ->
  hilbert_entry n (Z.to_nat (n / 2 + 1)) col j
  = idft (fun k => Cmult (RtoC (IZR (scipy_hilbert_weight n (Z.of_nat k)))) (dft x (Z.to_nat n) k)) (Z.to_nat n) j.
Proof.
  intros Hn Hcol. unfold hilbert_entry. apply idft_ext. intros k Hk.
  assert (Hq : (0 <= n / 2)%Z) by (apply Z.div_pos; lia).
  rewrite Z2Nat.id by lia.
  destruct (Nat.ltb_spec k (Z.to_nat (n / 2 + 1))) as [Hlt|Hge].
  - rewrite Hcol by exact Hlt. rewrite (hilbert_weight_scipy NumR) by lia. reflexivity.
  - replace (scipy_hilbert_weight n (Z.of_nat k)) with 0%Z; [rewrite Cmult_0_l; reflexivity|].
    unfold scipy_hilbert_weight.
    pose proof (Z.div_mod n 2 ltac:(lia)) as Hdm. rewrite Zmod_even in Hdm.
    destruct (Z.even n) eqn:En.
    + replace ((Z.of_nat k =? 0)%Z || (Z.of_nat k =? n / 2)%Z) with false by lia.
      replace ((1 <=? Z.of_nat k)%Z && (Z.of_nat k <? n / 2)%Z) with false by lia. reflexivity.
    + assert (Hh : ((n + 1) / 2 = n / 2 + 1)%Z).
      { replace (n + 1)%Z with ((n / 2 + 1) * 2)%Z by lia. apply Z.div_mul. lia. }
      rewrite Hh. replace (Z.of_nat k =? 0)%Z with false by lia.
      replace ((1 <=? Z.of_nat k)%Z && (Z.of_nat k <? n / 2 + 1)%Z) with false by lia. reflexivity.
Qed.

(* ---------- _timeshift_timedomain and the loop over scatterers ------------------------ *)
(* what ONE response adds to output sample j: its sample j - (q - t0) inside the slice, nothing outside *)
Definition echo (resp : Z -> C) (n q t0 j : Z) : C :=
  if ((q - t0 <=? j) && (j <? q - t0 + n))%Z then resp (j - (q - t0))%Z else RtoC 0.

Lemma placec_fn_echo resp n q t0 out j :
  placec_fn NumR resp n q t0 out j = Cplus (out j) (echo resp n q t0 j).
Proof.
  unfold placec_fn, echo. destruct (_ && _)%Z; [reflexivity|]. rewrite Cplus_0_r. reflexivity.
Qed.

(* the complex placement is Signal.place on the real and on the imaginary parts *)
Lemma placec_components (resp out : Z -> C) n q t0 len :
  match placec NumR resp n q t0 len out,
        place NumR (fun j => fst (resp j)) n q t0 len (fun j => fst (out j)),
        place NumR (fun j => snd (resp j)) n q t0 len (fun j => snd (out j)) with
  | Some o, Some ore, Some oim => forall j, fst (o j) = ore j /\ snd (o j) = oim j
  | None, None, None => True
  | _, _, _ => False
  end.
Proof.
  unfold placec, place. destruct (place_ok q t0 n len); [|exact I].
  intros j. unfold placec_fn. destruct (_ && _)%Z; split; reflexivity.
Qed.

Lemma csum_shift f m : csum f (S m) = Cplus (f O) (csum (fun i => f (S i)) m).
Proof.
  induction m as [|m IH]; [rewrite !csum_S, !csum_0; ring|].
  rewrite csum_S, IH, (csum_S (fun i => f (S i))). ring.
Qed.

Lemma forallb_seq (p : nat -> bool) a m : (forall i, (a <= i < a + m)%nat -> p i = true) -> forallb p (seq a m) = true.
Proof. intros H. apply forallb_forall. intros i Hi. apply in_seq in Hi. apply H. exact Hi. Qed.

Lemma timeshift_timedomain_spec numtt (resp : nat -> Z -> C) n delays dt t0 len out :
  (forall t, (t < numtt)%nat -> place_ok (delay_idx NumR (delays t) dt) t0 n len = true) ->
  exists out', timeshift_timedomain NumR numtt resp n delays dt t0 len out = Some out' /\
    forall t j, out' t j = if (t <? numtt)%nat
                           then Cplus (out t j) (echo (resp t) n (delay_idx NumR (delays t) dt) t0 j)
                           else out t j.
Proof.
  intros Hfit. unfold timeshift_timedomain.
  rewrite forallb_seq by (intros i Hi; apply Hfit; lia).
  eexists. split; [reflexivity|]. intros t j. cbv beta.
  destruct (t <? numtt)%nat; [apply placec_fn_echo | reflexivity].
Qed.

(* a response that does not fit in its row is reported, never written partially *)
Lemma timeshift_timedomain_outside numtt (resp : nat -> Z -> C) n delays dt t0 len out t :
  (t < numtt)%nat -> place_ok (delay_idx NumR (delays t) dt) t0 n len = false ->
  timeshift_timedomain NumR numtt resp n delays dt t0 len out = None.
Proof.
  intros Ht Hbad. unfold timeshift_timedomain.
  destruct (forallb _ (seq 0 numtt)) eqn:E; [|reflexivity].
  rewrite forallb_forall in E. specialize (E t ltac:(apply in_seq; lia)). congruence.
Qed.

Lemma scat_loop_spec m : forall a numtt (resp : nat -> nat -> Z -> C) n delays dt t0 len out,
  (forall s t, (a <= s < a + m)%nat -> (t < numtt)%nat ->
     place_ok (delay_idx NumR (delays s t) dt) t0 n len = true) ->
  exists out', scat_loop NumR (seq a m) numtt resp n delays dt t0 len out = Some out' /\
    forall t j, out' t j =
      if (t <? numtt)%nat
      then Cplus (out t j)
             (csum (fun i => echo (resp (a + i)%nat t) n (delay_idx NumR (delays (a + i)%nat t) dt) t0 j) m)
      else out t j.
Proof.
  induction m as [|m IH]; intros a numtt resp n delays dt t0 len out Hfit.
  - exists out. split; [reflexivity|]. intros t j. destruct (t <? numtt)%nat; [|reflexivity].
    rewrite csum_0, Cplus_0_r. reflexivity.
  - cbn [seq scat_loop].
    destruct (timeshift_timedomain_spec numtt (resp a) n (delays a) dt t0 len out) as (o1 & E1 & H1).
    { intros t Ht. apply Hfit; lia. }
    rewrite E1.
    destruct (IH (S a) numtt resp n delays dt t0 len o1) as (o2 & E2 & H2).
    { intros s t Hs Ht. apply Hfit; lia. }
    exists o2. split; [exact E2|]. intros t j. rewrite H2, H1.
    destruct (t <? numtt)%nat; [|reflexivity].
    rewrite csum_shift. rewrite Nat.add_0_r. rewrite <- Cplus_assoc. f_equal. f_equal.
    apply csum_ext. intros i _. replace (S a + i)%nat with (a + S i)%nat by lia. reflexivity.
Qed.

(* ---------- transfer_func_to_timetraces ------------------------------------------------- *)
Lemma bcast_idx_lt a k : (k < a)%nat -> bcast_idx a k = k.
Proof. intros H. unfold bcast_idx. destruct (Nat.eqb_spec a 1); lia. Qed.

Lemma timeshift_spectra_ok nxf (H : nat -> nat -> nat -> C) (delays : nat -> nat -> R) freqs :
  nxf = 1%nat \/ nxf = length freqs ->
  exists sh, timeshift_spectra NumR nxf H delays freqs = Some sh /\
    forall s t k, sh s t k = Cmult (phase_factor NumR (nth k freqs 0) (delays s t)) (H s t (bcast_idx nxf k)).
Proof.
  intros Hn. unfold timeshift_spectra, bcast_idx. destruct (Nat.eqb_spec nxf 1) as [E1|E1].
  - eexists. split; [reflexivity|]. intros; reflexivity.
  - destruct Hn as [Hn|Hn]; [contradiction|]. rewrite Hn, Nat.eqb_refl.
    eexists. split; [reflexivity|]. intros; reflexivity.
Qed.

Lemma timeshift_spectra_mismatch nxf (H : nat -> nat -> nat -> C) (delays : nat -> nat -> R) freqs :
  nxf <> 1%nat -> nxf <> length freqs -> timeshift_spectra NumR nxf H delays freqs = None.
Proof.
  intros H1 H2. unfold timeshift_spectra.
  destruct (Nat.eqb_spec nxf 1); [contradiction|]. destruct (Nat.eqb_spec nxf (length freqs)); [contradiction|]. reflexivity.
Qed.

(* zero fractional delay: the spectrum is unchanged (exp(-2j*pi*f*0) = 1) *)
Lemma phase_factor_zero fr : phase_factor NumR fr 0 = RtoC 1.
Proof.
  unfold phase_factor, cexpi. cbn [NumR nmul ncos nsin npi nofZ]. rewrite Rmult_0_r, cos_0, sin_0. reflexivity.
Qed.

(* the phase factor is Dft.cis of -2 pi f delay *)
Lemma phase_factor_cis fr delay : phase_factor NumR fr delay = cis (- 2 * PI * fr * delay).
Proof.
  unfold phase_factor, cexpi, cis. cbn [NumR nmul ncos nsin npi nofZ].
  replace (-2 * PI * fr * delay) with (- 2 * PI * fr * delay) by (simpl; ring). reflexivity.
Qed.

Section TransferFunc.
  Variables (numscat numtt nxf : nat) (H : nat -> nat -> nat -> C) (d : nat -> nat -> R).
  Variables (start dt : R) (len n t0 : Z) (freqs : list R) (tf : list C).
  Let numfreq := length freqs.

  (* the delay relative to the time origin of the window, its whole-sample part and remainder *)
  Definition rel_delay (s t : nat) : R := d s t - start.
  Definition q_of (s t : nat) : Z := delay_idx NumR (rel_delay s t) dt.
  Definition rem_of (s t : nat) : R := delay_rem NumR (rel_delay s t) dt.

  (* column of the spectrum of the response of scatterer s in timetrace t *)
  Definition col (s t : nat) : nat -> C :=
    fun k => Cmult (Cmult (phase_factor NumR (nth k freqs 0) (rem_of s t)) (H s t (bcast_idx nxf k)))
                   (nth k tf (RtoC 0)).
  (* its analytic time-domain response *)
  Definition response (s t : nat) (j : Z) : C := hilbert_entry n numfreq (col s t) j.

  Definition out0_of (timetraces : option (nat -> Z -> C)) : nat -> Z -> C :=
    match timetraces with None => fun _ _ => RtoC 0 | Some o => o end.

  (* what the result must be: every scatterer adds, to timetrace t, its response for THAT
     (scatterer, timetrace) pair, placed at the whole-sample part of THAT pair's delay *)
  Definition expected (timetraces : option (nat -> Z -> C)) (t : nat) (j : Z) : C :=
    Cplus (out0_of timetraces t j)
          (csum (fun s => echo (response s t) n (q_of s t) t0 j) numscat).

  Hypothesis Hdt : 0 < dt.
  Hypothesis Hlen_tf : length tf = numfreq.
  Hypothesis Hnxf : nxf = 1%nat \/ nxf = numfreq.
  Hypothesis Hn : (1 <= n)%Z.
  Hypothesis Hnf : (1 <= numfreq)%nat.
  Hypothesis Hev : Z.even n = true -> (n / 2 < Z.of_nat numfreq)%Z.
  Hypothesis Hpos : forall s t, (s < numscat)%nat -> (t < numtt)%nat -> 0 <= rel_delay s t.
  Hypothesis Hfit : forall s t, (s < numscat)%nat -> (t < numtt)%nat -> place_ok (q_of s t) t0 n len = true.

  Theorem tf_formula bstart timetraces :
    exists out,
      transfer_func_to_timetraces NumR idft1 (TF3 numscat numtt nxf H) (D2 numscat numtt d)
        (mkTime start dt len) (mkTime bstart dt n) freqs tf t0 timetraces = inr (numtt, len, out) /\
      forall t j, out t j = if (t <? numtt)%nat then expected timetraces t j else out0_of timetraces t j.
  Proof.
    unfold transfer_func_to_timetraces. cbn [t_step t_start t_len].
    rewrite !Nat.eqb_refl. cbn [andb negb]. cbn [NumR neqb]. rewrite Req_bool_true by reflexivity. cbn [negb].
    rewrite forallb_seq.
    2:{ intros s Hs. apply forallb_seq. intros t Ht. cbn [nleb n0 nsub]. apply Rle_bool_true. apply Hpos; lia. }
    cbn [negb].
    destruct (timeshift_spectra_ok nxf H (fun s t => delay_rem NumR (nsub NumR (d s t) start) dt) freqs Hnxf)
      as (sh & Esh & Hsh).
    cbn [NumR nsub] in Esh |- *. rewrite Esh.
    assert (Hlen' : @length (@cx R) tf = length freqs) by exact Hlen_tf. rewrite Hlen'. clear Hlen'. fold numfreq.
    unfold bcast_len. rewrite Nat.eqb_refl.
    set (prod := fun idx : list nat => cmul _ _ _).
    destruct (rfft_to_hilbert_entry [numscat; numtt; numfreq] prod n (-1) 2 ltac:(discriminate) eq_refl Hn Hnf Hev)
      as (resp & Eresp & Hresp).
    cbn [nth] in Eresp, Hresp. rewrite Eresp.
    replace (Z.of_nat (nth 2 (upd_nth [numscat; numtt; numfreq] 2 (Z.to_nat n)) O)) with n
      by (rewrite upd_nth_same by (simpl; lia); lia).
    destruct (scat_loop_spec numscat 0 numtt (fun s t j => resp [s; t; Z.to_nat j]) n
                (fun s t => d s t - start) dt t0 len (out0_of timetraces)) as (out & Eout & Hout).
    { intros s t Hs Ht. apply Hfit; lia. }
    change (match timetraces with None => fun (_ : nat) (_ : Z) => c0 NumR | Some o => o end) with (out0_of timetraces).
    rewrite Eout. exists out. split; [reflexivity|].
    intros t j. rewrite Hout. destruct (t <? numtt)%nat; [|reflexivity].
    unfold expected. f_equal. apply csum_ext. intros s Hs. cbn [Nat.add].
    unfold echo. fold (rel_delay s t). fold (q_of s t).
    destruct (Z.leb_spec (q_of s t - t0) j) as [H1|H1]; [|reflexivity].
    destruct (Z.ltb_spec j (q_of s t - t0 + n)) as [H2|H2]; [|reflexivity]. cbn [andb].
    rewrite Hresp. cbn [nth]. rewrite Z2Nat.id by lia. unfold response.
    apply hilbert_entry_ext. intros k Hk. unfold prod, col.
    unfold upd_nth. cbn [length tabulate seq map Nat.eqb nth].
    rewrite Hsh. rewrite (bcast_idx_lt numfreq k Hk). rewrite cmul_C. reflexivity.
  Qed.
End TransferFunc.

(* ---- linearity of the synthesis in the transfer function ----------------------------- *)
Lemma echo_plus r1 r2 n q t0 j :
  echo (fun i => Cplus (r1 i) (r2 i)) n q t0 j = Cplus (echo r1 n q t0 j) (echo r2 n q t0 j).
Proof. unfold echo. destruct (_ && _)%Z; [reflexivity | ring]. Qed.

Lemma echo_scal c r n q t0 j : echo (fun i => Cmult c (r i)) n q t0 j = Cmult c (echo r n q t0 j).
Proof. unfold echo. destruct (_ && _)%Z; [reflexivity | ring]. Qed.

Lemma echo_ext r1 r2 n q t0 j : (forall i, r1 i = r2 i) -> echo r1 n q t0 j = echo r2 n q t0 j.
Proof. intros H. unfold echo. destruct (_ && _)%Z; [apply H | reflexivity]. Qed.

Lemma response_plus nxf H1 H2 H12 d start dt n freqs tf s t j :
  (forall k, H12 s t k = Cplus (H1 s t k) (H2 s t k)) ->
  response nxf H12 d start dt n freqs tf s t j
  = Cplus (response nxf H1 d start dt n freqs tf s t j) (response nxf H2 d start dt n freqs tf s t j).
Proof.
  intros E. unfold response. rewrite <- hilbert_entry_plus. apply hilbert_entry_ext. intros k _.
  unfold col. rewrite E. ring.
Qed.

Lemma response_scal nxf c H1 Hc d start dt n freqs tf s t j :
  (forall k, Hc s t k = Cmult c (H1 s t k)) ->
  response nxf Hc d start dt n freqs tf s t j = Cmult c (response nxf H1 d start dt n freqs tf s t j).
Proof.
  intros E. unfold response. rewrite <- hilbert_entry_scal. apply hilbert_entry_ext. intros k _.
  unfold col. rewrite E. ring.
Qed.

Lemma response_zero nxf H d start dt n freqs tf s t j :
  (forall k, H s t k = RtoC 0) -> response nxf H d start dt n freqs tf s t j = RtoC 0.
Proof.
  intros E. unfold response. rewrite <- (hilbert_entry_zero n (length freqs) j). apply hilbert_entry_ext.
  intros k _. unfold col. rewrite E. ring.
Qed.

Section TransferFuncCorollaries.
  Variables (numscat numtt nxf : nat) (d : nat -> nat -> R).
  Variables (start bstart dt : R) (len n t0 : Z) (freqs : list R) (tf : list C).
  Hypothesis Hlen_tf : length tf = length freqs.
  Hypothesis Hnxf : nxf = 1%nat \/ nxf = length freqs.
  Hypothesis Hn : (1 <= n)%Z.
  Hypothesis Hnf : (1 <= length freqs)%nat.
  Hypothesis Hev : Z.even n = true -> (n / 2 < Z.of_nat (length freqs))%Z.
  Hypothesis Hpos : forall s t, (s < numscat)%nat -> (t < numtt)%nat -> 0 <= rel_delay d start s t.
  Hypothesis Hfit : forall s t, (s < numscat)%nat -> (t < numtt)%nat -> place_ok (q_of d start dt s t) t0 n len = true.

  Let run (H : nat -> nat -> nat -> C) (timetraces : option (nat -> Z -> C)) :=
    transfer_func_to_timetraces NumR idft1 (TF3 numscat numtt nxf H) (D2 numscat numtt d)
      (mkTime start dt len) (mkTime bstart dt n) freqs tf t0 timetraces.

  (* a zero transfer function leaves the (given or fresh) timetraces untouched *)
  Lemma tf_zero H timetraces : (forall s t k, H s t k = RtoC 0) ->
    exists out, run H timetraces = inr (numtt, len, out) /\ forall t j, out t j = out0_of timetraces t j.
  Proof.
    intros HZ.
    destruct (tf_formula numscat numtt nxf H d start dt len n t0 freqs tf Hlen_tf Hnxf Hn Hnf Hev Hpos Hfit bstart timetraces)
      as (out & E & Ho).
    exists out. split; [exact E|]. intros t j. rewrite Ho. destruct (t <? numtt)%nat; [|reflexivity].
    unfold expected. rewrite (csum_ext _ (fun _ => RtoC 0)).
    - rewrite csum_zero. apply Cplus_0_r.
    - intros s _. unfold echo. destruct (_ && _)%Z; [|reflexivity]. apply response_zero. intros k. apply HZ.
  Qed.

  (* additivity: the timetraces of H1 + H2 are the sum of the timetraces of H1 and of H2 *)
  Lemma tf_additive H1 H2 H12 : (forall s t k, H12 s t k = Cplus (H1 s t k) (H2 s t k)) ->
    exists o1 o2 o12, run H1 None = inr (numtt, len, o1) /\ run H2 None = inr (numtt, len, o2) /\
      run H12 None = inr (numtt, len, o12) /\ forall t j, o12 t j = Cplus (o1 t j) (o2 t j).
  Proof.
    intros HS.
    destruct (tf_formula numscat numtt nxf H1 d start dt len n t0 freqs tf Hlen_tf Hnxf Hn Hnf Hev Hpos Hfit bstart None) as (o1 & E1 & Ho1).
    destruct (tf_formula numscat numtt nxf H2 d start dt len n t0 freqs tf Hlen_tf Hnxf Hn Hnf Hev Hpos Hfit bstart None) as (o2 & E2 & Ho2).
    destruct (tf_formula numscat numtt nxf H12 d start dt len n t0 freqs tf Hlen_tf Hnxf Hn Hnf Hev Hpos Hfit bstart None) as (o12 & E12 & Ho12).
    exists o1, o2, o12. repeat split; try assumption.
    intros t j. rewrite Ho1, Ho2, Ho12. destruct (t <? numtt)%nat; [|cbn [out0_of]; symmetry; apply Cplus_0_l].
    unfold expected. cbn [out0_of]. rewrite !Cplus_0_l. rewrite <- csum_plus. apply csum_ext. intros s _.
    rewrite <- echo_plus. apply echo_ext. intros i. apply response_plus. intros k. apply HS.
  Qed.

  (* homogeneity: scaling the transfer function by a complex constant scales the timetraces *)
  Lemma tf_homogeneous c H1 Hc : (forall s t k, Hc s t k = Cmult c (H1 s t k)) ->
    exists o1 oc, run H1 None = inr (numtt, len, o1) /\ run Hc None = inr (numtt, len, oc) /\
      forall t j, oc t j = Cmult c (o1 t j).
  Proof.
    intros HS.
    destruct (tf_formula numscat numtt nxf H1 d start dt len n t0 freqs tf Hlen_tf Hnxf Hn Hnf Hev Hpos Hfit bstart None) as (o1 & E1 & Ho1).
    destruct (tf_formula numscat numtt nxf Hc d start dt len n t0 freqs tf Hlen_tf Hnxf Hn Hnf Hev Hpos Hfit bstart None) as (oc & Ec & Hoc).
    exists o1, oc. repeat split; try assumption.
    intros t j. rewrite Ho1, Hoc. destruct (t <? numtt)%nat; [|cbn [out0_of]; symmetry; apply Cmult_0_r].
    unfold expected. cbn [out0_of]. rewrite !Cplus_0_l. rewrite <- csum_scal. apply csum_ext. intros s _.
    rewrite <- echo_scal. apply echo_ext. intros i. apply response_scal. intros k. apply HS.
  Qed.

  (* writing on given timetraces = the given values plus what a fresh call returns *)
  Lemma tf_accumulates H given :
    exists o0 o, run H None = inr (numtt, len, o0) /\ run H (Some given) = inr (numtt, len, o) /\
      forall t j, o t j = if (t <? numtt)%nat then Cplus (given t j) (o0 t j) else given t j.
  Proof.
    destruct (tf_formula numscat numtt nxf H d start dt len n t0 freqs tf Hlen_tf Hnxf Hn Hnf Hev Hpos Hfit bstart None) as (o0 & E0 & Ho0).
    destruct (tf_formula numscat numtt nxf H d start dt len n t0 freqs tf Hlen_tf Hnxf Hn Hnf Hev Hpos Hfit bstart (Some given)) as (o & E & Ho).
    exists o0, o. repeat split; try assumption. intros t j. rewrite Ho, Ho0.
    destruct (t <? numtt)%nat; [|reflexivity]. unfold expected. cbn [out0_of]. rewrite Cplus_0_l. reflexivity.
  Qed.
End TransferFuncCorollaries.

(* ---- input handling: 2-D transfer function / 1-D delays, and every error branch --------- *)
Lemma forallb_seq_false (p : nat -> bool) a m i : (a <= i < a + m)%nat -> p i = false -> forallb p (seq a m) = false.
Proof.
  intros Hi Hp. destruct (forallb p (seq a m)) eqn:E; [|reflexivity].
  rewrite forallb_forall in E. specialize (E i ltac:(apply in_seq; exact Hi)). congruence.
Qed.

Section TfInputs.
  Context {T : Type} (N : Num T).
  Variable ifft1 : (nat -> @cx T) -> nat -> Z -> @cx T.
  Variables (tt tb : @time_axis T) (freqs : list T) (tf : list (@cx T)) (t0 : Z)
            (timetraces : option (nat -> Z -> @cx T)).
  Let run Hin din := transfer_func_to_timetraces N ifft1 Hin din tt tb freqs tf t0 timetraces.

  (* a 2-D transfer function is a 3-D one with ONE scatterer; 1-D delays are one row of delays
     (unshifted_transfer_func.reshape((1, *shape)), delays.reshape((1, *shape))) *)
  Lemma tf_2d_is_one_scatterer nt nxf H2 d1 :
    run (TF2 nt nxf H2) (D1 nt d1) = run (TF3 1 nt nxf (fun _ => H2)) (D2 1 nt (fun _ => d1))
    /\ run (TF2 nt nxf H2) (D2 1 nt (fun _ => d1)) = run (TF3 1 nt nxf (fun _ => H2)) (D2 1 nt (fun _ => d1))
    /\ run (TF3 1 nt nxf (fun _ => H2)) (D1 nt d1) = run (TF3 1 nt nxf (fun _ => H2)) (D2 1 nt (fun _ => d1)).
  Proof. repeat split; reflexivity. Qed.

  Lemma tf_error_unpack din : run TFother din = inl TfUnpack.
  Proof. reflexivity. Qed.

  (* assert delays.shape == (numscatterers, numtimetraces) *)
  Lemma tf_error_shape ns nt nxf H ds dtt d : (ds <> ns \/ dtt <> nt) ->
    run (TF3 ns nt nxf H) (D2 ds dtt d) = inl TfAssertShape
    /\ run (TF3 ns nt nxf H) Dother = inl TfAssertShape
    /\ (ns <> 1%nat \/ dtt <> nt -> run (TF3 ns nt nxf H) (D1 dtt (d O)) = inl TfAssertShape)
    /\ (ds <> 1%nat \/ dtt <> nt -> run (TF2 nt nxf (H O)) (D2 ds dtt d) = inl TfAssertShape).
  Proof.
    intros Hne. unfold run, transfer_func_to_timetraces. repeat split.
    - replace ((ds =? ns)%nat && (dtt =? nt)%nat) with false; [reflexivity|].
      symmetry. apply andb_false_iff. destruct Hne; [left|right]; apply Nat.eqb_neq; assumption.
    - intros Hne'. replace ((1 =? ns)%nat && (dtt =? nt)%nat) with false; [reflexivity|].
      symmetry. apply andb_false_iff. destruct Hne'; [left|right]; apply Nat.eqb_neq; [intro E; symmetry in E|]; auto.
    - intros Hne'. replace ((ds =? 1)%nat && (dtt =? nt)%nat) with false; [reflexivity|].
      symmetry. apply andb_false_iff. destruct Hne'; [left|right]; apply Nat.eqb_neq; assumption.
  Qed.

  (* the three later guards, each reached only when the earlier ones pass *)
  Lemma tf_error_guards ns nt nxf H d :
    (neqb N (t_step tt) (t_step tb) = false -> run (TF3 ns nt nxf H) (D2 ns nt d) = inl TfNotImplemented) /\
    (neqb N (t_step tt) (t_step tb) = true ->
       (exists s t, (s < ns)%nat /\ (t < nt)%nat /\ nleb N (n0 N) (nsub N (d s t) (t_start tt)) = false) ->
       run (TF3 ns nt nxf H) (D2 ns nt d) = inl TfAssertNegative) /\
    (neqb N (t_step tt) (t_step tb) = true ->
       (forall s t, (s < ns)%nat -> (t < nt)%nat -> nleb N (n0 N) (nsub N (d s t) (t_start tt)) = true) ->
       nxf <> 1%nat -> nxf <> length freqs ->
       run (TF3 ns nt nxf H) (D2 ns nt d) = inl TfFreqMismatch).
  Proof.
    unfold run, transfer_func_to_timetraces. rewrite !Nat.eqb_refl. cbn [andb negb]. repeat split.
    - intros E. rewrite E. reflexivity.
    - intros E (s & t & Hs & Ht & Hneg). rewrite E. cbn [negb].
      rewrite (forallb_seq_false _ 0 ns s); [reflexivity | lia |].
      apply (forallb_seq_false _ 0 nt t); [lia | exact Hneg].
    - intros E Hpos H1 H2. rewrite E. cbn [negb].
      rewrite forallb_seq by (intros s Hs; apply forallb_seq; intros t Ht; apply Hpos; lia). cbn [negb].
      unfold timeshift_spectra.
      destruct (Nat.eqb_spec nxf 1); [contradiction|]. destruct (Nat.eqb_spec nxf (length freqs)); [contradiction|].
      reflexivity.
  Qed.
End TfInputs.

(* the same guards over the reals: steps that differ / a delay before the time origin *)
Lemma tf_error_guards_R ifft1 ns nt nxf H d start dt len bstart bdt n freqs tf t0 timetraces :
  let run := transfer_func_to_timetraces NumR ifft1 (TF3 ns nt nxf H) (D2 ns nt d)
               (mkTime start dt len) (mkTime bstart bdt n) freqs tf t0 timetraces in
  (dt <> bdt -> run = inl TfNotImplemented) /\
  (dt = bdt -> (exists s t, (s < ns)%nat /\ (t < nt)%nat /\ d s t < start) -> run = inl TfAssertNegative) /\
  (dt = bdt -> (forall s t, (s < ns)%nat -> (t < nt)%nat -> start <= d s t) ->
     nxf <> 1%nat -> nxf <> length freqs -> run = inl TfFreqMismatch).
Proof.
  cbv zeta.
  destruct (tf_error_guards NumR ifft1 (mkTime start dt len) (mkTime bstart bdt n) freqs tf t0 timetraces ns nt nxf H d)
    as (G1 & G2 & G3). cbn [t_step t_start NumR neqb nleb nsub n0] in G1, G2, G3.
  repeat split.
  - intros Hne. apply G1. apply Req_bool_false. exact Hne.
  - intros He (s & t & Hs & Ht & Hneg). apply G2; [apply Req_bool_true; exact He|].
    exists s, t. repeat split; try assumption. apply Rle_bool_false. lra.
  - intros He Hpos H1 H2. apply G3; try assumption; [apply Req_bool_true; exact He|].
    intros s t Hs Ht. apply Rle_bool_true. specialize (Hpos s t Hs Ht). lra.
Qed.

(* a response that does not lie inside the window is reported (TfOutside), whichever scatterer *)
Lemma scat_loop_outside m : forall a numtt (resp : nat -> nat -> Z -> C) n delays dt t0 len out s t,
  (a <= s < a + m)%nat -> (t < numtt)%nat ->
  place_ok (delay_idx NumR (delays s t) dt) t0 n len = false ->
  scat_loop NumR (seq a m) numtt resp n delays dt t0 len out = None.
Proof.
  induction m as [|m IH]; intros a numtt resp n delays dt t0 len out s t Hs Ht Hbad; [lia|].
  cbn [seq scat_loop].
  destruct (timeshift_timedomain NumR numtt (resp a) n (delays a) dt t0 len out) as [o1|] eqn:E1; [|reflexivity].
  destruct (Nat.eq_dec s a) as [->|Hne].
  - rewrite (timeshift_timedomain_outside numtt (resp a) n (delays a) dt t0 len out t Ht Hbad) in E1. discriminate.
  - apply (IH (S a) numtt resp n delays dt t0 len o1 s t); [lia | exact Ht | exact Hbad].
Qed.

(* ---- delays that fall on output samples: no fractional shift, the scaled analytic toneburst
   is ADDED with its sample i at output sample k - t0 + i ------------------------------------ *)
Lemma response_on_sample nxf H d start dt n freqs tf s t j :
  rem_of d start dt s t = 0 ->
  response nxf H d start dt n freqs tf s t j
  = hilbert_entry n (length freqs) (fun k => Cmult (H s t (bcast_idx nxf k)) (nth k tf (RtoC 0))) j.
Proof.
  intros E. unfold response. apply hilbert_entry_ext. intros k _. unfold col. rewrite E, phase_factor_zero. ring.
Qed.

(* the analytic toneburst: rfft_to_hilbert(toneburst_f, len(toneburst_time)) *)
Definition analytic_toneburst (n : Z) (tf : list C) (i : Z) : C :=
  hilbert_entry n (length tf) (fun k => nth k tf (RtoC 0)) i.

Theorem tf_on_sample numscat numtt (H : nat -> nat -> nat -> C) (d : nat -> nat -> R) (k : nat -> nat -> Z)
    start bstart dt len n t0 freqs (tf : list C) timetraces :
  0 < dt -> length tf = length freqs -> (1 <= n)%Z -> (1 <= length freqs)%nat ->
  (Z.even n = true -> (n / 2 < Z.of_nat (length freqs))%Z) ->
  (forall s t, (s < numscat)%nat -> (t < numtt)%nat -> d s t - start = IZR (k s t) * dt /\ (0 <= k s t)%Z) ->
  (forall s t, (s < numscat)%nat -> (t < numtt)%nat -> place_ok (k s t) t0 n len = true) ->
  exists out,
    transfer_func_to_timetraces NumR idft1 (TF3 numscat numtt 1 H) (D2 numscat numtt d)
      (mkTime start dt len) (mkTime bstart dt n) freqs tf t0 timetraces = inr (numtt, len, out) /\
    forall t j, (t < numtt)%nat ->
      out t j = Cplus (out0_of timetraces t j)
                  (csum (fun s => echo (fun i => Cmult (H s t O) (analytic_toneburst n tf i)) n (k s t) t0 j) numscat).
Proof.
  intros Hdt Hlen Hn Hnf Hev Hk Hfit.
  assert (Hq : forall s t, (s < numscat)%nat -> (t < numtt)%nat ->
            q_of d start dt s t = k s t /\ rem_of d start dt s t = 0).
  { intros s t Hs Ht. unfold q_of, rem_of, rel_delay. destruct (Hk s t Hs Ht) as [E _]. rewrite E.
    apply delay_on_sample_R. exact Hdt. }
  destruct (tf_formula numscat numtt 1 H d start dt len n t0 freqs tf Hlen (or_introl eq_refl) Hn Hnf Hev) with (bstart := bstart) (timetraces := timetraces)
    as (out & E & Ho).
  - intros s t Hs Ht. unfold rel_delay. destruct (Hk s t Hs Ht) as [E Hk0]. rewrite E.
    apply Rmult_le_pos; [apply IZR_le; exact Hk0 | lra].
  - intros s t Hs Ht. rewrite (proj1 (Hq s t Hs Ht)). apply Hfit; assumption.
  - exists out. split; [exact E|]. intros t j Ht. rewrite Ho.
    replace (t <? numtt)%nat with true by (symmetry; apply Nat.ltb_lt; exact Ht).
    unfold expected. f_equal. apply csum_ext. intros s Hs.
    destruct (Hq s t Hs Ht) as [Eq Er]. rewrite Eq. apply echo_ext. intros i.
    rewrite response_on_sample by exact Er. unfold analytic_toneburst. rewrite Hlen.
    rewrite <- hilbert_entry_scal. apply hilbert_entry_ext. intros k' _. reflexivity.
Qed.

(* when everything before the loop passes, the result is decided by the loop alone: an echo that
   does not lie inside the window gives TfOutside (nothing is written partially by the model) *)
Theorem tf_outside numscat numtt nxf (H : nat -> nat -> nat -> C) (d : nat -> nat -> R)
    start bstart dt len n t0 freqs (tf : list C) timetraces s0 t0' :
  length tf = length freqs -> nxf = 1%nat \/ nxf = length freqs -> (1 <= n)%Z -> (1 <= length freqs)%nat ->
  (Z.even n = true -> (n / 2 < Z.of_nat (length freqs))%Z) ->
  (forall s t, (s < numscat)%nat -> (t < numtt)%nat -> 0 <= rel_delay d start s t) ->
  (s0 < numscat)%nat -> (t0' < numtt)%nat -> place_ok (q_of d start dt s0 t0') t0 n len = false ->
  transfer_func_to_timetraces NumR idft1 (TF3 numscat numtt nxf H) (D2 numscat numtt d)
    (mkTime start dt len) (mkTime bstart dt n) freqs tf t0 timetraces = inl TfOutside.
Proof.
  intros Hlen_tf Hnxf Hn Hnf Hev Hpos Hs0 Ht0 Hbad.
  unfold transfer_func_to_timetraces. cbn [t_step t_start t_len].
  rewrite !Nat.eqb_refl. cbn [andb negb]. cbn [NumR neqb]. rewrite Req_bool_true by reflexivity. cbn [negb].
  rewrite forallb_seq.
  2:{ intros s Hs. apply forallb_seq. intros t Ht. cbn [nleb n0 nsub]. apply Rle_bool_true. apply Hpos; lia. }
  cbn [negb].
  destruct (timeshift_spectra_ok nxf H (fun s t => delay_rem NumR (nsub NumR (d s t) start) dt) freqs Hnxf)
    as (sh & Esh & Hsh).
  cbn [NumR nsub] in Esh |- *. rewrite Esh.
  assert (Hlen' : @length (@cx R) tf = length freqs) by exact Hlen_tf. rewrite Hlen'. clear Hlen'.
  unfold bcast_len. rewrite Nat.eqb_refl.
  set (prod := fun idx : list nat => cmul _ _ _).
  destruct (rfft_to_hilbert_entry [numscat; numtt; length freqs] prod n (-1) 2 ltac:(discriminate) eq_refl Hn Hnf Hev)
    as (resp & Eresp & Hresp).
  cbn [nth] in Eresp. rewrite Eresp.
  replace (Z.of_nat (nth 2 (upd_nth [numscat; numtt; length freqs] 2 (Z.to_nat n)) O)) with n
    by (rewrite upd_nth_same by (simpl; lia); lia).
  rewrite (scat_loop_outside numscat 0 numtt _ n (fun s t => d s t - start) dt t0 len _ s0 t0'); [reflexivity | lia | exact Ht0 | exact Hbad].
Qed.

(* ---------- the analytic signal of a REAL signal has that signal as real part ------------- *)
Definition cj (z : C) : C := (fst z, - snd z).

Lemma cj_plus a b : cj (Cplus a b) = Cplus (cj a) (cj b).
Proof. apply injective_projections; cbn [cj Cplus fst snd]; ring. Qed.
Lemma cj_mult a b : cj (Cmult a b) = Cmult (cj a) (cj b).
Proof. apply injective_projections; cbn [cj Cmult fst snd]; ring. Qed.
Lemma cj_RtoC r : cj (RtoC r) = RtoC r.
Proof. apply injective_projections; cbn [cj RtoC fst snd]; ring. Qed.
Lemma cj_cis t : cj (cis t) = cis (- t).
Proof. unfold cj, cis. cbn [fst snd]. rewrite cos_neg, sin_neg. reflexivity. Qed.
Lemma cj_csum f n : cj (csum f n) = csum (fun k => cj (f k)) n.
Proof. induction n as [|n IH]; [rewrite !csum_0; apply cj_RtoC|]. rewrite !csum_S, cj_plus, IH. reflexivity. Qed.
Lemma plus_cj z : Cplus z (cj z) = RtoC (2 * fst z).
Proof. apply injective_projections; cbn [cj Cplus RtoC fst snd]; ring. Qed.

Lemma csum_rev h m : csum h m = csum (fun i => h (m - 1 - i)%nat) m.
Proof.
  induction m as [|m IH]; [reflexivity|].
  rewrite csum_S, csum_shift. replace (S m - 1 - 0)%nat with m by lia. rewrite Cplus_comm. f_equal.
  rewrite IH. apply csum_ext. intros i Hi. f_equal. lia.
Qed.

(* reflection k -> (n - k) mod n of the summation index *)
Lemma csum_reflect f n : csum f n = csum (fun k => f ((n - k) mod n)%nat) n.
Proof.
  destruct n as [|m]; [reflexivity|].
  rewrite !csum_shift. rewrite Nat.sub_0_r, Nat.mod_same by lia. f_equal.
  rewrite (csum_rev (fun i => f (S i))). apply csum_ext. intros i Hi.
  rewrite Nat.mod_small by lia. f_equal. lia.
Qed.

Lemma reflect_nat n k : (0 < n)%nat -> (k < n)%nat ->
  ((n - k) mod n)%nat = (if (k =? 0)%nat then O else (n - k)%nat) /\ ((n - k) mod n < n)%nat.
Proof.
  intros Hn Hk. destruct (Nat.eqb_spec k 0) as [->|Hne].
  - rewrite Nat.sub_0_r, Nat.mod_same by lia. split; lia.
  - rewrite Nat.mod_small by lia. split; lia.
Qed.

Lemma cis_reflect n (j : Z) k : (0 < n)%nat -> (k < n)%nat ->
  cis (- (2 * PI * IZR j * INR k / INR n)) = cis (2 * PI * IZR j * INR ((n - k) mod n)%nat / INR n).
Proof.
  intros Hn Hk. assert (Hn0 : INR n <> 0) by (apply not_0_INR; lia).
  destruct (reflect_nat n k Hn Hk) as [E _]. rewrite E. destruct (Nat.eqb_spec k 0) as [->|Hne].
  - f_equal. simpl. field. exact Hn0.
  - rewrite minus_INR by lia.
    replace (2 * PI * IZR j * (INR n - INR k) / INR n) with (- (2 * PI * IZR j * INR k / INR n) + 2 * IZR j * PI)
      by (field; exact Hn0).
    rewrite cis_period_Z. reflexivity.
Qed.

(* conjugate symmetry of the transform of a real signal *)
Lemma dft_real_conj (xr : nat -> R) n k : (0 < n)%nat -> (k < n)%nat ->
  cj (dft (fun m => RtoC (xr m)) n k) = dft (fun m => RtoC (xr m)) n ((n - k) mod n)%nat.
Proof.
  intros Hn Hk. assert (Hn0 : INR n <> 0) by (apply not_0_INR; lia).
  unfold dft. rewrite cj_csum. apply csum_ext. intros m Hm.
  rewrite cj_mult, cj_RtoC, cj_cis. f_equal.
  destruct (reflect_nat n k Hn Hk) as [E _]. rewrite E. destruct (Nat.eqb_spec k 0) as [->|Hne].
  - f_equal. simpl. field. exact Hn0.
  - rewrite minus_INR by lia.
    replace (- 2 * PI * INR m * (INR n - INR k) / INR n) with (- (- 2 * PI * INR m * INR k / INR n) + 2 * IZR (- Z.of_nat m) * PI).
    + rewrite cis_period_Z. reflexivity.
    + rewrite opp_IZR, <- INR_IZR_INZ. field. exact Hn0.
Qed.

(* w[k] + w[(n-k) mod n] = 2: every frequency is counted twice, once directly and once through
   its mirror image *)
Lemma scipy_weight_pair n k : (0 < n)%nat -> (k < n)%nat ->
  (scipy_hilbert_weight (Z.of_nat n) (Z.of_nat k)
   + scipy_hilbert_weight (Z.of_nat n) (Z.of_nat ((n - k) mod n)%nat) = 2)%Z.
Proof.
  intros Hn Hk. destruct (reflect_nat n k Hn Hk) as [E _]. rewrite E. clear E.
  unfold scipy_hilbert_weight.
  pose proof (Z.div_mod (Z.of_nat n) 2 ltac:(lia)) as Hdm. rewrite Zmod_even in Hdm.
  destruct (Z.even (Z.of_nat n)) eqn:En.
  - set (q := (Z.of_nat n / 2)%Z) in *. clearbody q.
    destruct (Nat.eqb_spec k 0) as [->|Hne]; [reflexivity|].
    rewrite Nat2Z.inj_sub by lia. set (K := Z.of_nat k). assert (0 < K < Z.of_nat n)%Z by (unfold K; lia).
    clearbody K. bsplit.
  - assert (Hh : ((Z.of_nat n + 1) / 2 = Z.of_nat n / 2 + 1)%Z).
    { replace (Z.of_nat n + 1)%Z with ((Z.of_nat n / 2 + 1) * 2)%Z by lia. apply Z.div_mul. lia. }
    rewrite Hh. set (q := (Z.of_nat n / 2)%Z) in *. clearbody q.
    destruct (Nat.eqb_spec k 0) as [->|Hne]; [reflexivity|].
    rewrite Nat2Z.inj_sub by lia. set (K := Z.of_nat k). assert (0 < K < Z.of_nat n)%Z by (unfold K; lia).
    clearbody K. bsplit.
Qed.

Theorem analytic_real_part (xr : nat -> R) n j : (j < n)%nat ->
  fst (idft (fun k => Cmult (RtoC (IZR (scipy_hilbert_weight (Z.of_nat n) (Z.of_nat k))))
                            (dft (fun m => RtoC (xr m)) n k)) n (Z.of_nat j)) = xr j.
Proof.
  intros Hj. assert (Hn : (0 < n)%nat) by lia. assert (Hn0 : INR n <> 0) by (apply not_0_INR; lia).
  set (x := fun m => RtoC (xr m)). set (w := fun k => RtoC (IZR (scipy_hilbert_weight (Z.of_nat n) (Z.of_nat k)))).
  change (fst (idft (fun k => Cmult (w k) (dft x n k)) n (Z.of_nat j)) = xr j).
  set (th := fun k => 2 * PI * IZR (Z.of_nat j) * INR k / INR n).
  set (z := fun k => Cmult (dft x n k) (cis (th k))).
  set (r := fun k => ((n - k) mod n)%nat).
  set (S := csum (fun k => Cmult (w k) (z k)) n).
  assert (Eidft : idft (fun k => Cmult (w k) (dft x n k)) n (Z.of_nat j) = Cmult (RtoC (/ INR n)) S).
  { unfold idft, S. f_equal. apply csum_ext. intros k _. unfold z, th. ring. }
  (* the conjugate of S is the sum with mirrored weights *)
  assert (Ecj : cj S = csum (fun k => Cmult (w (r k)) (z k)) n).
  { unfold S. rewrite cj_csum.
    rewrite (csum_ext _ (fun k => (fun k' => Cmult (w (r k')) (z k')) (r k))).
    - symmetry. apply (csum_reflect (fun k' => Cmult (w (r k')) (z k')) n).
    - intros k Hk. cbv beta. unfold w at 1. rewrite cj_mult, cj_RtoC. unfold z. rewrite cj_mult, cj_cis.
      unfold x. rewrite dft_real_conj by assumption. fold x. fold (r k).
      unfold th. rewrite cis_reflect by assumption. fold (r k).
      assert (Err : r (r k) = k).
      { unfold r. destruct (reflect_nat n k Hn Hk) as [E1 Hlt]. rewrite E1.
        destruct (Nat.eqb_spec k 0) as [->|Hne].
        - rewrite Nat.sub_0_r, Nat.mod_same by lia. reflexivity.
        - rewrite Nat.mod_small by lia. lia. }
      rewrite Err. reflexivity. }
  (* S + conj S = 2 * sum of the unweighted terms = 2 n x[j] *)
  assert (Esum : Cplus S (cj S) = Cmult (RtoC 2) (csum z n)).
  { rewrite Ecj. unfold S. rewrite <- csum_plus, <- csum_scal. apply csum_ext. intros k Hk.
    rewrite <- Cmult_plus_distr_r. f_equal. unfold w. rewrite <- RtoC_plus, <- plus_IZR.
    unfold r. rewrite scipy_weight_pair by assumption. reflexivity. }
  assert (Einv : Cmult (RtoC (/ INR n)) (csum z n) = x j).
  { pose proof (idft_dft x n j Hj) as E. unfold idft in E. exact E. }
  rewrite Eidft. rewrite plus_cj in Esum.
  assert (Ez : csum z n = Cmult (RtoC (INR n)) (x j)).
  { rewrite <- Einv. rewrite Cmult_assoc, <- RtoC_mult, Rinv_r by exact Hn0. ring. }
  rewrite Ez in Esum. unfold x in Esum.
  assert (Efst : 2 * fst S = 2 * (INR n * xr j)).
  { apply (f_equal fst) in Esum. cbn [fst RtoC Cmult snd] in Esum. lra. }
  cbn [fst RtoC Cmult snd]. replace (fst S) with (INR n * xr j) by lra. field. exact Hn0.
Qed.

(* hence: the analytic toneburst built by rfft_to_hilbert from np.fft.rfft of a REAL toneburst has
   exactly the toneburst samples as real part *)
Lemma analytic_toneburst_real_part (xr : nat -> R) n (tf : list C) i : (1 <= n)%Z -> (0 <= i < n)%Z ->
  length tf = Z.to_nat (n / 2 + 1) ->
  (forall k, (k < length tf)%nat -> nth k tf (RtoC 0) = dft (fun m => RtoC (xr m)) (Z.to_nat n) k) ->
  fst (analytic_toneburst n tf i) = xr (Z.to_nat i).
Proof.
  intros Hn Hi Hlen Htf. unfold analytic_toneburst. rewrite Hlen.
  rewrite (hilbert_entry_is_hilbert (fun m => RtoC (xr m)) n) by (try exact Hn; intros k Hk; apply Htf; lia).
  rewrite <- (Z2Nat.id i) at 1 by lia.
  rewrite (idft_ext _ (fun k => Cmult (RtoC (IZR (scipy_hilbert_weight (Z.of_nat (Z.to_nat n)) (Z.of_nat k))))
                                     (dft (fun m => RtoC (xr m)) (Z.to_nat n) k))).
  - apply analytic_real_part. lia.
  - intros k _. rewrite Z2Nat.id by lia. reflexivity.
Qed.

(* timeshift_spectra on the frequency axis np.fft.rfftfreq(n, dt) is Dft.shift_spectrum *)
Lemma timeshift_is_shift_spectrum (X : nat -> C) n dt delay k :
  Cmult (phase_factor NumR (INR k / (INR n * dt)) delay) (X k) = shift_spectrum X n dt delay k.
Proof. rewrite phase_factor_cis. reflexivity. Qed.

(* end to end, one scatterer, one frequency, real coefficient, the spectrum of a REAL toneburst:
   a delay on output sample k reproduces the toneburst samples, scaled, from sample k - t0 on
   (so the toneburst's time-zero sample t0 lands on sample k), and nothing else is written *)
Theorem tf_on_sample_reproduces_toneburst numtt (c : nat -> R) (d : nat -> R) (k : nat -> Z) (xr : nat -> R)
    start bstart dt len n t0 freqs (tf : list C) :
  0 < dt -> (1 <= n)%Z -> length freqs = Z.to_nat (n / 2 + 1) -> length tf = length freqs ->
  (forall m, (m < length tf)%nat -> nth m tf (RtoC 0) = dft (fun i => RtoC (xr i)) (Z.to_nat n) m) ->
  (forall t, (t < numtt)%nat -> d t - start = IZR (k t) * dt /\ (0 <= k t)%Z) ->
  (forall t, (t < numtt)%nat -> place_ok (k t) t0 n len = true) ->
  exists out,
    transfer_func_to_timetraces NumR idft1 (TF2 numtt 1 (fun t _ => RtoC (c t))) (D1 numtt d)
      (mkTime start dt len) (mkTime bstart dt n) freqs tf t0 None = inr (numtt, len, out) /\
    forall t, (t < numtt)%nat ->
      (forall i, (0 <= i < n)%Z -> fst (out t (k t - t0 + i)%Z) = c t * xr (Z.to_nat i)) /\
      (forall j, (j < k t - t0 \/ k t - t0 + n <= j)%Z -> out t j = RtoC 0).
Proof.
  intros Hdt Hn Hnf Hlen Htf Hk Hfit.
  assert (Hq : (0 <= n / 2)%Z) by (apply Z.div_pos; lia).
  destruct (tf_on_sample 1 numtt (fun _ t _ => RtoC (c t)) (fun _ => d) (fun _ => k)
              start bstart dt len n t0 freqs tf None Hdt Hlen Hn) as (out & E & Ho).
  - rewrite Hnf. lia.
  - intros _. rewrite Hnf. lia.
  - intros s t _ Ht. apply Hk. exact Ht.
  - intros s t _ Ht. apply Hfit. exact Ht.
  - exists out. split; [exact E|]. intros t Ht. split.
    + intros i Hi. rewrite Ho by exact Ht. cbn [out0_of]. rewrite csum_S, csum_0, !Cplus_0_l.
      unfold echo. replace ((k t - t0 <=? k t - t0 + i)%Z && (k t - t0 + i <? k t - t0 + n)%Z) with true by lia.
      replace (k t - t0 + i - (k t - t0))%Z with i by ring.
      cbn [fst Cmult RtoC snd]. rewrite Rmult_0_l, Rminus_0_r. f_equal.
      apply analytic_toneburst_real_part; try assumption. rewrite Hlen. exact Hnf.
    + intros j Hj. rewrite Ho by exact Ht. cbn [out0_of]. rewrite csum_S, csum_0, !Cplus_0_l.
      unfold echo. replace ((k t - t0 <=? j)%Z && (j <? k t - t0 + n)%Z) with false by lia. reflexivity.
Qed.

(* ---------- make_toneburst in the vocabulary of Model/Signal.v --------------------------- *)
Section MakeToneburstSummary.
  Variables cycles f dt : R.
  Let M := pulse_len NumR cycles f dt.
  Let ns_of' (ns_opt : option Z) : Z := match ns_opt with None => M | Some n => n end.
  Hypothesis Hdt : 0 < dt.
  Hypothesis Hf : 0 < f.
  Hypothesis Hc : 0 < cycles.

  (* analytical=False: the list is Signal.toneburst_at (wrap=False) / Signal.toneburst_wrapped_at
     (wrap=True), for num_samples None (exactly the pulse) or given (zero padding) *)
  Lemma make_toneburst_real_samples ns_opt wrap : (0 < ns_of' ns_opt)%Z -> (M <= ns_of' ns_opt)%Z ->
    exists l, make_toneburst NumR cycles f dt ns_opt wrap false = inr l /\
      length l = Z.to_nat (ns_of' ns_opt) /\
      forall k, (0 <= k < ns_of' ns_opt)%Z ->
        nth (Z.to_nat k) l (0, 0)
        = ((if wrap then toneburst_wrapped_at NumR cycles f dt (ns_of' ns_opt) k
            else toneburst_at NumR cycles f dt (ns_of' ns_opt) k), 0).
  Proof.
    intros Hns HM.
    destruct (make_toneburst_success cycles f dt ns_opt wrap false Hdt Hf Hc Hns HM) as (l & E & L & Hl).
    exists l. split; [exact E|]. split; [exact L|]. intros k Hk. rewrite (Hl k Hk). rewrite sample_at_real.
    destruct wrap; [|reflexivity]. unfold toneburst_wrapped_at. fold M.
    change (ns_of cycles f dt ns_opt) with (ns_of' ns_opt).
    replace ((0 <=? k)%Z && (k <? ns_of' ns_opt)%Z) with true by lia. reflexivity.
  Qed.

  (* analytical=True, any other options: same length, the real parts are the real toneburst
     (whose imaginary parts are 0) *)
  Lemma make_toneburst_analytic_real_part ns_opt wrap : (0 < ns_of' ns_opt)%Z -> (M <= ns_of' ns_opt)%Z ->
    exists l la, make_toneburst NumR cycles f dt ns_opt wrap false = inr l /\
      make_toneburst NumR cycles f dt ns_opt wrap true = inr la /\ length la = length l /\
      forall k, (0 <= k < ns_of' ns_opt)%Z ->
        fst (nth (Z.to_nat k) la (0, 0)) = fst (nth (Z.to_nat k) l (0, 0)) /\ snd (nth (Z.to_nat k) l (0, 0)) = 0.
  Proof.
    intros Hns HM.
    destruct (make_toneburst_success cycles f dt ns_opt wrap false Hdt Hf Hc Hns HM) as (l & E & L & Hl).
    destruct (make_toneburst_success cycles f dt ns_opt wrap true Hdt Hf Hc Hns HM) as (la & Ea & La & Hla).
    exists l, la. repeat split; try assumption; try congruence.
    - rewrite (Hl k H), (Hla k H), sample_at_real, sample_at_analytic_re. reflexivity.
    - rewrite (Hl k H), sample_at_real. reflexivity.
  Qed.

  (* analytical=True, wrap=False: imaginary part = Hann window times the sine, antisymmetric about
     the centre; envelope = the Hann window, which is 1 at the centre sample only; (1, 0) at the
     centre; zero padding after the pulse *)
  Lemma make_toneburst_analytic_samples ns_opt : (0 < ns_of' ns_opt)%Z -> (M <= ns_of' ns_opt)%Z ->
    exists la, make_toneburst NumR cycles f dt ns_opt false true = inr la /\
      (forall k, (0 <= k < M)%Z ->
         snd (nth (Z.to_nat k) la (0, 0)) = hanning NumR M k * sin (2 * PI * dt * f * IZR (k - M / 2)) /\
         snd (nth (Z.to_nat (M - 1 - k)) la (0, 0)) = - snd (nth (Z.to_nat k) la (0, 0)) /\
         Cmod (nth (Z.to_nat k) la (0, 0)) = hanning NumR M k /\
         (k <> (M / 2)%Z -> Cmod (nth (Z.to_nat k) la (0, 0)) < 1)) /\
      nth (Z.to_nat (M / 2)) la (0, 0) = (1, 0) /\
      (forall k, (M <= k < ns_of' ns_opt)%Z -> nth (Z.to_nat k) la (0, 0) = (0, 0)).
  Proof.
    intros Hns HM. pose proof (pulse_len_pos cycles f dt Hdt Hf Hc) as HM1. fold M in HM1.
    pose proof (odd_half M (pulse_len_odd NumR cycles f dt)) as Hh. fold M in Hh.
    destruct (make_toneburst_success cycles f dt ns_opt false true Hdt Hf Hc Hns HM) as (la & Ea & La & Hla).
    change (ns_of cycles f dt ns_opt) with (ns_of' ns_opt) in *. cbv iota in Hla.
    exists la. split; [exact Ea|]. split; [|split].
    - intros k Hk. rewrite (Hla k) by lia. rewrite (Hla (M - 1 - k)%Z) by lia. repeat split.
      + rewrite sample_at_analytic_im. fold M. replace (_ && _ && _)%Z with true by lia. reflexivity.
      + apply analytic_imag_antisym; fold M; lia.
      + apply analytic_envelope; fold M; lia.
      + intros Hne. rewrite analytic_envelope by (fold M; lia). apply hanning_lt_1; fold M; lia.
    - rewrite (Hla (M / 2)%Z) by lia. apply analytic_centre; fold M; lia.
    - intros k Hk. rewrite (Hla k) by lia. unfold sample_at. fold M.
      replace (k <? M)%Z with false by lia. rewrite andb_false_r. reflexivity.
  Qed.

  (* wrap=True is the rotation of wrap=False by half the pulse, for both values of analytical *)
  Lemma make_toneburst_wrap_is_rotation ns_opt an : (0 < ns_of' ns_opt)%Z -> (M <= ns_of' ns_opt)%Z ->
    exists l0 l1, make_toneburst NumR cycles f dt ns_opt false an = inr l0 /\
      make_toneburst NumR cycles f dt ns_opt true an = inr l1 /\ length l1 = length l0 /\
      forall k, (0 <= k < ns_of' ns_opt)%Z ->
        nth (Z.to_nat k) l1 (0, 0) = nth (Z.to_nat ((k + M / 2) mod ns_of' ns_opt)) l0 (0, 0).
  Proof.
    intros Hns HM.
    destruct (make_toneburst_success cycles f dt ns_opt false an Hdt Hf Hc Hns HM) as (l0 & E0 & L0 & Hl0).
    destruct (make_toneburst_success cycles f dt ns_opt true an Hdt Hf Hc Hns HM) as (l1 & E1 & L1 & Hl1).
    change (ns_of cycles f dt ns_opt) with (ns_of' ns_opt) in *. cbv iota in Hl0, Hl1. fold M in Hl1.
    exists l0, l1. repeat split; try assumption; try congruence.
    intros k Hk. rewrite (Hl1 k Hk). rewrite Hl0; [reflexivity|]. apply Z.mod_pos_bound. lia.
  Qed.
End MakeToneburstSummary.

(* make_toneburst2 with the real next_fast_len (the default use_fast_len=True) and without *)
Lemma make_toneburst2_lengths cycles f dt nb na an :
  0 < dt -> 0 < f -> 0 < cycles -> (0 <= nb)%Z -> (0 <= na)%Z ->
  let M := pulse_len NumR cycles f dt in
  let total := (nb * M + M + na * M)%Z in
  exists rf rs L, make_toneburst2 NumR next_fast_len cycles f dt nb na an true = inr rf /\
    make_toneburst2 NumR next_fast_len cycles f dt nb na an false = inr rs /\
    next_fast_len total = Some L /\ (total <= L < 2 * total)%Z /\ is_5smooth L = true /\
    (forall m, (total <= m < L)%Z -> is_5smooth m = false) /\
    length (tb2_samples rf) = Z.to_nat L /\ length (tb2_samples rs) = Z.to_nat total /\
    tb2_t0 rf = tb2_t0 rs /\ tb2_start rf = tb2_start rs /\
    forall k, (0 <= k < total)%Z -> nth (Z.to_nat k) (tb2_samples rf) (0, 0) = nth (Z.to_nat k) (tb2_samples rs) (0, 0).
Proof.
  intros Hdt Hf Hc Hnb Hna M total.
  pose proof (pulse_len_pos cycles f dt Hdt Hf Hc) as HM1. fold M in HM1.
  assert (Ht : (1 <= total)%Z) by (unfold total; nia).
  destruct (next_fast_len_spec total Ht) as (L & EL & HL & Hs & _ & Hmin).
  destruct (make_toneburst2_spec cycles f dt next_fast_len nb na an true L Hdt Hf Hc Hnb Hna EL ltac:(fold M; fold total; lia))
    as (rf & Erf & T0f & Stf & _ & Lf & Hf').
  destruct (make_toneburst2_spec cycles f dt next_fast_len nb na an false total Hdt Hf Hc Hnb Hna eq_refl ltac:(fold M; fold total; lia))
    as (rs & Ers & T0s & Sts & _ & Ls & Hs').
  exists rf, rs, L. repeat split; try assumption; try lia; try congruence.
  intros k Hk. rewrite Hf', Hs' by lia. reflexivity.
Qed.

(* rfft_to_hilbert is linear in the spectrum (entry by entry) *)
Lemma hilbert_entry_linear n numfreq :
  (forall c1 c2 j, hilbert_entry n numfreq (fun k => Cplus (c1 k) (c2 k)) j
                   = Cplus (hilbert_entry n numfreq c1 j) (hilbert_entry n numfreq c2 j)) /\
  (forall c col j, hilbert_entry n numfreq (fun k => Cmult c (col k)) j = Cmult c (hilbert_entry n numfreq col j)) /\
  (forall j, hilbert_entry n numfreq (fun _ => RtoC 0) j = RtoC 0).
Proof.
  split; [|split]; intros; [apply hilbert_entry_plus | apply hilbert_entry_scal | apply hilbert_entry_zero].
Qed.
