(* Proofs/BeamspreadPathRealProofs.v — lemmas about Model/BeamspreadPath.v and
   Model/Beamspread.v over the reals (C06), part 2: the hypotheses of the ray-tube
   theorems discharged from the INPUTS (velocities, incidence angles, leg sizes), Snell's
   law computed inside the specification, closed forms, bounds, monotonicity, the
   floating-point outcome of the last line, and the path-level statements (rigid motions,
   change of length unit, end-to-end ray tube). *)
From Coq Require Import List ZArith Bool Arith Lia Reals Lra.
From Arim Require Import Base.Num Base.NumR Model.Vec3 Model.RayGeom Model.Beamspread Model.BeamspreadPath
                         Proofs.Vec3Proofs Proofs.RayGeomProofs Proofs.RayGeomRealProofs
                         Proofs.BeamspreadProofs Proofs.BeamspreadPathProofs.
Import ListNotations.
Local Open Scope R_scope.

(* ---- sub-critical incidence, read on the inputs ---------------------------------- *)
(* at every interface the Snell sine (c_out/c_in) sin(theta) is strictly inside (-1, 1) *)
Fixpoint subcritical (vel thetas : list R) : Prop :=
  match vel, thetas with
  | v0 :: ((v1 :: _) as vel'), th :: thetas' => -1 < v1 / v0 * sin th < 1 /\ subcritical vel' thetas'
  | _, _ => True
  end.

(* the same on the reversed lists (rvel = rev vel: [v_{n-1}; ...; v_0]) *)
Fixpoint subcritical_rev (rvel rthetas : list R) : Prop :=
  match rvel, rthetas with
  | vn :: ((vp :: _) as rvel'), th :: rthetas' => -1 < vn / vp * sin th < 1 /\ subcritical_rev rvel' rthetas'
  | _, _ => True
  end.

Lemma subcritical_cons2 v0 v1 vel th thetas :
  subcritical (v0 :: v1 :: vel) (th :: thetas) = (-1 < v1 / v0 * sin th < 1 /\ subcritical (v1 :: vel) thetas).
Proof. reflexivity. Qed.
Lemma subcritical_rev_cons2 v0 v1 vel th thetas :
  subcritical_rev (v0 :: v1 :: vel) (th :: thetas) = (-1 < v0 / v1 * sin th < 1 /\ subcritical_rev (v1 :: vel) thetas).
Proof. reflexivity. Qed.

Lemma cos2_of_sin th : cos th * cos th = 1 - sin th * sin th.
Proof. pose proof (sin2_cos2 th) as H. unfold Rsqr in H. lra. Qed.

Lemma gamma_of_R vi vo th :
  gamma_of NumR vi vo th = (vi / vo * (vi / vo) - sin th * sin th) / (vi / vo * cos th * cos th).
Proof. reflexivity. Qed.

(* the sign of the code's gamma: positive exactly below the critical angle *)
Lemma gamma_pos_iff vi vo th : 0 < vi -> 0 < vo -> cos th <> 0 ->
  (0 < gamma_of NumR vi vo th <-> -1 < vo / vi * sin th < 1).
Proof.
  intros Hi Ho Hc. rewrite gamma_of_R.
  set (nu := vi / vo). assert (Hnu : 0 < nu) by (apply Rdiv_lt_0_compat; assumption).
  assert (Hk : vo / vi = / nu) by (unfold nu; field; split; lra). rewrite Hk.
  set (s := sin th). set (c := cos th) in *.
  assert (Hcc : 0 < c * c) by nra.
  assert (Hden : 0 < nu * c * c) by (rewrite Rmult_assoc; apply Rmult_lt_0_compat; assumption).
  assert (Hinv : 0 < / nu) by (apply Rinv_0_lt_compat; exact Hnu).
  assert (Hs : / nu * s * nu = s) by (field; lra).
  split.
  - intros H.
    assert (Hnum : 0 < nu * nu - s * s).
    { replace (nu * nu - s * s) with ((nu * nu - s * s) / (nu * c * c) * (nu * c * c)) by (field; nra).
      apply Rmult_lt_0_compat; assumption. }
    assert (Hq : (/ nu * s) * (/ nu * s) < 1).
    { replace ((/ nu * s) * (/ nu * s)) with (s * s * (/ nu * / nu)) by ring.
      replace 1 with (nu * nu * (/ nu * / nu)) by (field; lra).
      apply Rmult_lt_compat_r; [apply Rmult_lt_0_compat; assumption | lra]. }
    split; nra.
  - intros [H1 H2]. apply Rdiv_lt_0_compat; [|exact Hden].
    assert (Hq : (/ nu * s) * (/ nu * s) < 1) by nra.
    assert (E : nu * nu - s * s = nu * nu * (1 - (/ nu * s) * (/ nu * s))) by (field; lra).
    rewrite E. apply Rmult_lt_0_compat; nra.
Qed.

Lemma gamma_neg_beyond vi vo th : 0 < vi -> 0 < vo -> cos th <> 0 ->
  1 < (vo / vi * sin th) * (vo / vi * sin th) -> gamma_of NumR vi vo th < 0.
Proof.
  intros Hi Ho Hc H. rewrite gamma_of_R.
  set (nu := vi / vo). assert (Hnu : 0 < nu) by (apply Rdiv_lt_0_compat; assumption).
  assert (Hk : vo / vi = / nu) by (unfold nu; field; split; lra). rewrite Hk in H.
  set (s := sin th) in *. set (c := cos th) in *.
  assert (Hcc : 0 < c * c) by nra.
  assert (Hden : 0 < nu * c * c) by (rewrite Rmult_assoc; apply Rmult_lt_0_compat; assumption).
  assert (E : nu * nu - s * s = - (nu * nu * ((/ nu * s) * (/ nu * s) - 1))) by (field; lra).
  rewrite E. unfold Rdiv. rewrite Ropp_mult_distr_l_reverse. apply Ropp_lt_gt_0_contravar.
  apply Rmult_lt_0_compat; [|apply Rinv_0_lt_compat; exact Hden].
  apply Rmult_lt_0_compat; nra.
Qed.

Lemma gammas_pos_of_subcritical : forall vel thetas,
  all_pos vel -> Forall (fun th => cos th <> 0) thetas -> subcritical vel thetas ->
  all_pos (gamma_list NumR vel thetas).
Proof.
  induction vel as [|v0 vel IH]; intros thetas Hv Hc Hs; [constructor|].
  destruct vel as [|v1 vel]; [constructor|]. destruct thetas as [|th thetas]; [constructor|].
  rewrite gamma_list_cons2. rewrite subcritical_cons2 in Hs. destruct Hs as [Hs1 Hs].
  inversion Hv as [|? ? Hv0 Hv']; subst. inversion Hc as [|? ? Hc0 Hc']; subst.
  constructor.
  - apply gamma_pos_iff; try assumption. inversion Hv'; assumption.
  - apply IH; assumption.
Qed.

Lemma subcritical_of_gammas_pos : forall vel thetas,
  all_pos vel -> Forall (fun th => cos th <> 0) thetas -> all_pos (gamma_list NumR vel thetas) ->
  subcritical vel thetas.
Proof.
  induction vel as [|v0 vel IH]; intros thetas Hv Hc Hg; [exact I|].
  destruct vel as [|v1 vel]; [exact I|]. destruct thetas as [|th thetas]; [exact I|].
  rewrite gamma_list_cons2 in Hg. rewrite subcritical_cons2.
  inversion Hv as [|? ? Hv0 Hv']; subst. inversion Hc as [|? ? Hc0 Hc']; subst.
  inversion Hg as [|? ? Hg0 Hg']; subst. split.
  - apply gamma_pos_iff in Hg0; try assumption. inversion Hv'; assumption.
  - apply IH; assumption.
Qed.

(* ---- the ray tube with every hypothesis on the inputs ------------------------------ *)
Lemma beamspread_is_snell_tube_inputs vel r1 rest thetas :
  all_pos vel -> Forall (fun th => cos th <> 0) thetas -> subcritical vel thetas ->
  0 < r1 -> all_pos rest -> (length rest <= Nat.min (length vel - 1) (length thetas))%nat ->
  beamspread NumR vel (r1 :: rest) thetas = tube_amplitude NumR vel (r1 :: rest) thetas /\
  beamspread NumR vel (r1 :: rest) thetas = 1 / sqrt (virtual_distance NumR (r1 :: rest) (gamma_list NumR vel thetas)) /\
  0 < virtual_distance NumR (r1 :: rest) (gamma_list NumR vel thetas) /\
  0 < beamspread NumR vel (r1 :: rest) thetas.
Proof.
  intros Hv Hc Hs Hr1 Hrest Hlen.
  pose proof (gammas_pos_of_subcritical vel thetas Hv Hc Hs) as Hg.
  assert (Hl : (length rest <= length (gamma_list NumR vel thetas))%nat) by (rewrite gamma_list_length; exact Hlen).
  destruct (tube_eq_code r1 rest _ Hr1 Hrest Hg Hl) as [_ Hvd].
  split; [apply beamspread_is_snell_tube_R; assumption|].
  split; [reflexivity|]. split; [exact Hvd|].
  unfold beamspread. cbn [NumR n1 ndiv nsqrt]. apply Rdiv_lt_0_compat; [lra|]. apply sqrt_lt_R0. exact Hvd.
Qed.

(* ---- Snell's law computed inside the specification ---------------------------------- *)
Lemma cos_snell_out_sq v_in v_out th : -1 < v_out / v_in * sin th < 1 ->
  cos (snell_out_angle NumR v_in v_out th) * cos (snell_out_angle NumR v_in v_out th)
  = 1 - (v_out / v_in * sin th) * (v_out / v_in * sin th) /\
  0 < cos (snell_out_angle NumR v_in v_out th) /\
  sin (snell_out_angle NumR v_in v_out th) = v_out / v_in * sin th.
Proof.
  intros H. unfold snell_out_angle. cbn [NumR nasin nmul ndiv nsin].
  set (x := v_out / v_in * sin th) in *.
  rewrite cos_asin by lra. rewrite sin_asin by lra.
  assert (Hp : 0 < 1 - x²) by (unfold Rsqr; nra).
  split; [|split; [apply sqrt_lt_R0; exact Hp | reflexivity]].
  rewrite sqrt_sqrt by lra. reflexivity.
Qed.

Lemma angle_betas_eq_gammas : forall vel thetas,
  all_pos vel -> Forall (fun th => cos th <> 0) thetas -> subcritical vel thetas ->
  angle_betas NumR vel thetas = gamma_list NumR vel thetas.
Proof.
  induction vel as [|v0 vel IH]; intros thetas Hv Hc Hs; [reflexivity|].
  destruct vel as [|v1 vel]; [reflexivity|]. destruct thetas as [|th thetas]; [reflexivity|].
  rewrite gamma_list_cons2. rewrite subcritical_cons2 in Hs. destruct Hs as [Hs1 Hs].
  inversion Hv as [|? ? Hv0 Hv']; subst. inversion Hc as [|? ? Hc0 Hc']; subst.
  assert (Hv1 : 0 < v1) by (inversion Hv'; assumption).
  change (angle_betas NumR (v0 :: v1 :: vel) (th :: thetas))
    with (beta_of NumR v0 v1 (cos th) (cos (snell_out_angle NumR v0 v1 th)) :: angle_betas NumR (v1 :: vel) thetas).
  f_equal; [|apply IH; assumption].
  symmetry. apply gamma_is_beta_R; try assumption.
  apply (cos_snell_out_sq v0 v1 th Hs1).
Qed.

Lemma beamspread_is_angle_tube vel r1 rest thetas :
  all_pos vel -> Forall (fun th => cos th <> 0) thetas -> subcritical vel thetas ->
  0 < r1 -> all_pos rest -> (length rest <= Nat.min (length vel - 1) (length thetas))%nat ->
  beamspread NumR vel (r1 :: rest) thetas = angle_tube_amplitude NumR vel (r1 :: rest) thetas.
Proof.
  intros Hv Hc Hs Hr1 Hrest Hlen. unfold angle_tube_amplitude.
  rewrite angle_betas_eq_gammas by assumption.
  apply beamspread_is_tube_R; try assumption.
  - apply gammas_pos_of_subcritical; assumption.
  - rewrite gamma_list_length. exact Hlen.
Qed.

(* ---- Horner form of the virtual-source distance --------------------------------------- *)
Definition horner_tail (rest gl : list R) : R :=
  match rest, gl with
  | r2 :: rest', g :: gl' => vd_horner NumR r2 rest' gl' / g
  | _, _ => 0
  end.

Lemma vd_horner_tail r1 rest gl : vd_horner NumR r1 rest gl = r1 + horner_tail rest gl.
Proof. destruct rest as [|r2 rest]; [simpl; ring|]. destruct gl as [|g gl]; [simpl; ring|]. reflexivity. Qed.

Lemma run_step_horner : forall gl rest vd G, G <> 0 -> Forall (fun g => g <> 0) gl ->
  fst (fold_left (run_step NumR) (combine gl rest) (vd, G)) = vd + horner_tail rest gl / G.
Proof.
  induction gl as [|g gl IH]; intros rest vd G HG Hgl.
  - destruct rest; simpl; unfold Rdiv; ring.
  - destruct rest as [|r rest]; [simpl; unfold Rdiv; ring|].
    inversion Hgl as [|? ? Hg Hgl']; subst.
    cbn [combine fold_left]. cbn [run_step NumR nmul nadd ndiv].
    rewrite IH by (try assumption; apply Rmult_integral_contrapositive_currified; assumption).
    cbn [horner_tail]. rewrite vd_horner_tail. field. split; assumption.
Qed.

Lemma virtual_distance_horner r1 rest gl :
  Forall (fun g => g <> 0) gl -> (length rest <= length gl)%nat ->
  virtual_distance NumR (r1 :: rest) gl = vd_horner NumR r1 rest gl.
Proof.
  intros Hgl Hlen. rewrite vd_running by exact Hlen.
  rewrite run_step_horner by (try assumption; cbn; lra).
  rewrite vd_horner_tail. cbn [NumR n1]. field.
Qed.

Lemma all_pos_nonzero l : all_pos l -> Forall (fun g => g <> 0) l.
Proof. intros H. eapply Forall_impl; [|exact H]. intros a Ha. cbv beta in Ha. lra. Qed.

(* ---- bounds and monotonicity ------------------------------------------------------------ *)
Lemma vd_horner_lower : forall rest gl r1, all_pos rest -> all_pos gl -> r1 <= vd_horner NumR r1 rest gl.
Proof.
  induction rest as [|r2 rest IH]; intros gl r1 Hr Hg; [simpl; lra|].
  destruct gl as [|g gl]; [simpl; lra|].
  inversion Hr as [|? ? Hr2 Hr']; subst. inversion Hg as [|? ? Hg0 Hg']; subst.
  cbn [vd_horner NumR nadd ndiv]. specialize (IH gl r2 Hr' Hg').
  assert (0 < vd_horner NumR r2 rest gl / g) by (apply Rdiv_lt_0_compat; lra). lra.
Qed.

Lemma vd_horner_mono : forall rest rest' gl r1 r1', r1 <= r1' -> Forall2 Rle rest rest' -> all_pos gl ->
  vd_horner NumR r1 rest gl <= vd_horner NumR r1' rest' gl.
Proof.
  induction rest as [|r2 rest IH]; intros rest' gl r1 r1' H1 H2 Hg.
  - inversion H2; subst. simpl. exact H1.
  - inversion H2 as [|? r2' ? rest'' Hr2 Hrest]; subst.
    destruct gl as [|g gl]; [simpl; exact H1|].
    inversion Hg as [|? ? Hg0 Hg']; subst.
    cbn [vd_horner NumR nadd ndiv]. specialize (IH rest'' gl r2 r2' Hr2 Hrest Hg').
    assert (vd_horner NumR r2 rest gl / g <= vd_horner NumR r2' rest'' gl / g).
    { unfold Rdiv. apply Rmult_le_compat_r; [left; apply Rinv_0_lt_compat; exact Hg0 | exact IH]. }
    lra.
Qed.

Lemma Forall2_length_le {A B} (P : A -> B -> Prop) l l' : Forall2 P l l' -> length l = length l'.
Proof. induction 1; simpl; congruence. Qed.

Lemma beamspread_bounds vel r1 rest thetas :
  all_pos vel -> Forall (fun th => cos th <> 0) thetas -> subcritical vel thetas ->
  0 < r1 -> all_pos rest -> (length rest <= Nat.min (length vel - 1) (length thetas))%nat ->
  r1 <= virtual_distance NumR (r1 :: rest) (gamma_list NumR vel thetas) /\
  0 < beamspread NumR vel (r1 :: rest) thetas <= 1 / sqrt r1.
Proof.
  intros Hv Hc Hs Hr1 Hrest Hlen.
  pose proof (gammas_pos_of_subcritical vel thetas Hv Hc Hs) as Hg.
  assert (Hl : (length rest <= length (gamma_list NumR vel thetas))%nat) by (rewrite gamma_list_length; exact Hlen).
  assert (Hlow : r1 <= virtual_distance NumR (r1 :: rest) (gamma_list NumR vel thetas)).
  { rewrite virtual_distance_horner by (try assumption; apply all_pos_nonzero; exact Hg).
    apply vd_horner_lower; assumption. }
  split; [exact Hlow|]. unfold beamspread. cbn [NumR n1 ndiv nsqrt].
  set (d := virtual_distance NumR (r1 :: rest) (gamma_list NumR vel thetas)) in *.
  assert (Hsr : 0 < sqrt r1) by (apply sqrt_lt_R0; exact Hr1).
  assert (Hsd : sqrt r1 <= sqrt d) by (apply sqrt_le_1_alt; exact Hlow).
  split.
  - apply Rdiv_lt_0_compat; lra.
  - unfold Rdiv. rewrite !Rmult_1_l. apply Rinv_le_contravar; assumption.
Qed.

Lemma beamspread_antitone vel r1 r1' rest rest' thetas :
  all_pos vel -> Forall (fun th => cos th <> 0) thetas -> subcritical vel thetas ->
  0 < r1 -> all_pos rest -> (length rest <= Nat.min (length vel - 1) (length thetas))%nat ->
  r1 <= r1' -> Forall2 Rle rest rest' ->
  beamspread NumR vel (r1' :: rest') thetas <= beamspread NumR vel (r1 :: rest) thetas.
Proof.
  intros Hv Hc Hs Hr1 Hrest Hlen H1 H2.
  pose proof (gammas_pos_of_subcritical vel thetas Hv Hc Hs) as Hg.
  assert (Hl : (length rest <= length (gamma_list NumR vel thetas))%nat) by (rewrite gamma_list_length; exact Hlen).
  assert (Hl' : (length rest' <= length (gamma_list NumR vel thetas))%nat) by (rewrite <- (Forall2_length_le _ _ _ H2); exact Hl).
  unfold beamspread. cbn [NumR n1 ndiv nsqrt].
  rewrite !virtual_distance_horner by (try assumption; apply all_pos_nonzero; exact Hg).
  pose proof (vd_horner_lower rest _ r1 Hrest Hg) as Hlow.
  pose proof (vd_horner_mono rest rest' _ r1 r1' H1 H2 Hg) as Hm.
  set (d := vd_horner NumR r1 rest (gamma_list NumR vel thetas)) in *.
  set (d' := vd_horner NumR r1' rest' (gamma_list NumR vel thetas)) in *.
  assert (Hsd : 0 < sqrt d) by (apply sqrt_lt_R0; lra).
  assert (Hsd' : sqrt d <= sqrt d') by (apply sqrt_le_1_alt; exact Hm).
  unfold Rdiv. rewrite !Rmult_1_l. apply Rinv_le_contravar; assumption.
Qed.

(* ---- closed forms ------------------------------------------------------------------------- *)
Lemma single_leg_any_instance {T} (N : Num T) vel r thetas :
  beamspread N vel [r] thetas = ndiv N (n1 N) (nsqrt N r) /\
  reverse_beamspread N vel [r] thetas = ndiv N (n1 N) (nsqrt N r).
Proof. split; reflexivity. Qed.

(* normal incidence: gamma_k = v_{k-1} / v_k *)
Lemma gamma_normal vi vo th : vi <> 0 -> vo <> 0 -> sin th = 0 -> gamma_of NumR vi vo th = vi / vo.
Proof.
  intros Hi Ho Hs. rewrite gamma_of_R. pose proof (cos2_of_sin th) as Hc. rewrite Hs in Hc.
  rewrite Hs. rewrite Rmult_assoc, Hc. field. split; assumption.
Qed.

Lemma rev_gamma_normal vn vp th : vn <> 0 -> vp <> 0 -> sin th = 0 -> rev_gamma_of NumR vn vp th = vn / vp.
Proof.
  intros Hn Hp Hs. unfold rev_gamma_of. cbn [NumR nsin ncos nmul nsub ndiv n1].
  pose proof (cos2_of_sin th) as Hc. rewrite Hs in Hc. rewrite Hs. rewrite Rmult_assoc, Hc. field. assumption.
Qed.

Lemma horner_normal : forall rest vel thetas r1 v0,
  Forall (fun v => v <> 0) (v0 :: vel) -> Forall (fun th => sin th = 0) thetas ->
  (length rest <= length vel)%nat -> (length rest <= length thetas)%nat ->
  vd_horner NumR r1 rest (gamma_list NumR (v0 :: vel) thetas) * v0 = dot_list NumR (r1 :: rest) (v0 :: vel).
Proof.
  induction rest as [|r2 rest IH]; intros vel thetas r1 v0 Hv Hth Hl1 Hl2.
  - destruct vel; simpl; ring.
  - destruct vel as [|v1 vel]; [simpl in Hl1; lia|]. destruct thetas as [|th thetas]; [simpl in Hl2; lia|].
    inversion Hv as [|? ? Hv0 Hv']; subst. inversion Hth as [|? ? Hth0 Hth']; subst.
    assert (Hv1 : v1 <> 0) by (inversion Hv'; assumption).
    rewrite gamma_list_cons2. rewrite gamma_normal by assumption.
    cbn [vd_horner NumR nadd ndiv].
    change (dot_list NumR (r1 :: r2 :: rest) (v0 :: v1 :: vel)) with (r1 * v0 + dot_list NumR (r2 :: rest) (v1 :: vel)).
    rewrite <- (IH vel thetas r2 v1 Hv' Hth') by (simpl in *; lia).
    field. split; assumption.
Qed.

Lemma gamma_list_normal_nonzero : forall vel thetas,
  Forall (fun v => v <> 0) vel -> Forall (fun th => sin th = 0) thetas ->
  Forall (fun g => g <> 0) (gamma_list NumR vel thetas).
Proof.
  induction vel as [|v0 vel IH]; intros thetas Hv Hth; [constructor|].
  destruct vel as [|v1 vel]; [constructor|]. destruct thetas as [|th thetas]; [constructor|].
  inversion Hv as [|? ? Hv0 Hv']; subst. inversion Hth as [|? ? Hth0 Hth']; subst.
  assert (Hv1 : v1 <> 0) by (inversion Hv'; assumption).
  rewrite gamma_list_cons2. constructor; [|apply IH; assumption].
  rewrite gamma_normal by assumption. unfold Rdiv. apply Rmult_integral_contrapositive_currified; [assumption|].
  apply Rinv_neq_0_compat. assumption.
Qed.

Lemma virtual_distance_normal r1 rest v0 vel thetas :
  Forall (fun v => v <> 0) (v0 :: vel) -> Forall (fun th => sin th = 0) thetas ->
  (length rest <= length vel)%nat -> (length rest <= length thetas)%nat ->
  virtual_distance NumR (r1 :: rest) (gamma_list NumR (v0 :: vel) thetas) = dot_list NumR (r1 :: rest) (v0 :: vel) / v0.
Proof.
  intros Hv Hth Hl1 Hl2.
  rewrite virtual_distance_horner.
  - rewrite <- (horner_normal rest vel thetas r1 v0 Hv Hth Hl1 Hl2). field. inversion Hv; assumption.
  - apply gamma_list_normal_nonzero; assumption.
  - rewrite gamma_list_length. cbn [length]. lia.
Qed.

Lemma beamspread_normal r1 rest v0 vel thetas :
  Forall (fun v => v <> 0) (v0 :: vel) -> Forall (fun th => sin th = 0) thetas ->
  (length rest <= length vel)%nat -> (length rest <= length thetas)%nat ->
  beamspread NumR (v0 :: vel) (r1 :: rest) thetas = 1 / sqrt (dot_list NumR (r1 :: rest) (v0 :: vel) / v0).
Proof.
  intros Hv Hth Hl1 Hl2. unfold beamspread. rewrite virtual_distance_normal by assumption. reflexivity.
Qed.

Lemma rev_gamma_list_normal : forall rvel rthetas,
  Forall (fun v => v <> 0) rvel -> Forall (fun th => sin th = 0) rthetas ->
  rev_gamma_list NumR rvel rthetas = gamma_list NumR rvel rthetas.
Proof.
  induction rvel as [|v0 vel IH]; intros thetas Hv Hth; [reflexivity|].
  destruct vel as [|v1 vel]; [reflexivity|]. destruct thetas as [|th thetas]; [reflexivity|].
  inversion Hv as [|? ? Hv0 Hv']; subst. inversion Hth as [|? ? Hth0 Hth']; subst.
  assert (Hv1 : v1 <> 0) by (inversion Hv'; assumption).
  rewrite gamma_list_cons2, rev_gamma_list_cons2. f_equal; [|apply IH; assumption].
  rewrite gamma_normal, rev_gamma_normal by assumption. reflexivity.
Qed.

Lemma dot_list_app : forall a a' b b', length a = length b ->
  dot_list NumR (a ++ a') (b ++ b') = dot_list NumR a b + dot_list NumR a' b'.
Proof.
  induction a as [|x a IH]; intros a' b b' Hl.
  - destruct b; [simpl; ring | discriminate].
  - destruct b as [|y b]; [discriminate|]. cbn [app dot_list NumR nadd nmul]. rewrite IH by (simpl in Hl; lia). ring.
Qed.

Lemma dot_list_rev : forall a b, length a = length b -> dot_list NumR (rev a) (rev b) = dot_list NumR a b.
Proof.
  induction a as [|x a IH]; intros b Hl.
  - destruct b; [reflexivity | discriminate].
  - destruct b as [|y b]; [discriminate|]. cbn [rev]. rewrite dot_list_app by (rewrite !rev_length; simpl in Hl; lia).
    rewrite IH by (simpl in Hl; lia). cbn [dot_list NumR nadd nmul n0]. ring.
Qed.

(* reverse beamspread at normal incidence: the same weighted sum over the LAST velocity *)
Lemma reverse_beamspread_normal legs vel thetas vlast :
  legs <> [] -> Forall (fun v => v <> 0) vel -> Forall (fun th => sin th = 0) thetas ->
  length legs = length vel -> (length legs <= S (length thetas))%nat -> last vel 0 = vlast ->
  reverse_beamspread NumR vel legs thetas = 1 / sqrt (dot_list NumR legs vel / vlast).
Proof.
  intros Hne Hv Hth Hl1 Hl2 Hlast. unfold reverse_beamspread.
  rewrite rev_gamma_list_normal by (apply Forall_rev; assumption).
  destruct (rev legs) as [|rn rrest] eqn:Er.
  { apply (f_equal (@rev R)) in Er. rewrite rev_involutive in Er. contradiction. }
  destruct (rev vel) as [|vn rvel] eqn:Ev.
  { apply (f_equal (@length R)) in Ev. apply (f_equal (@length R)) in Er. rewrite rev_length in *. simpl in *. lia. }
  assert (Hvn : vn = vlast).
  { rewrite <- Hlast. rewrite <- (rev_involutive vel), Ev. cbn [rev]. rewrite last_last. reflexivity. }
  assert (Hrl : length (rev legs) = length legs) by apply rev_length.
  assert (Hrv : length (rev vel) = length vel) by apply rev_length.
  assert (Hrt : length (rev thetas) = length thetas) by apply rev_length.
  rewrite Er in Hrl. rewrite Ev in Hrv. cbn [length] in Hrl, Hrv.
  rewrite virtual_distance_normal.
  - rewrite <- Er, <- Ev, dot_list_rev by exact Hl1. rewrite Hvn. reflexivity.
  - rewrite <- Ev. apply Forall_rev. exact Hv.
  - apply Forall_rev. exact Hth.
  - lia.
  - lia.
Qed.

(* only velocity RATIOS enter: a change of velocity unit changes nothing *)
Lemma gamma_list_vel_scale s : s <> 0 -> forall vel thetas, Forall (fun v => v <> 0) vel ->
  gamma_list NumR (map (Rmult s) vel) thetas = gamma_list NumR vel thetas /\
  rev_gamma_list NumR (map (Rmult s) vel) thetas = rev_gamma_list NumR vel thetas.
Proof.
  intros Hs. induction vel as [|v0 vel IH]; intros thetas Hv; [split; reflexivity|].
  destruct vel as [|v1 vel]; [split; reflexivity|]. destruct thetas as [|th thetas]; [split; reflexivity|].
  inversion Hv as [|? ? Hv0 Hv']; subst. assert (Hv1 : v1 <> 0) by (inversion Hv'; assumption).
  cbn [map]. rewrite !gamma_list_cons2, !rev_gamma_list_cons2.
  destruct (IH thetas Hv') as [IH1 IH2]. cbn [map] in IH1, IH2. rewrite IH1, IH2.
  assert (E : s * v0 / (s * v1) = v0 / v1) by (field; split; assumption).
  split; f_equal.
  - rewrite !gamma_of_R, E. reflexivity.
  - unfold rev_gamma_of. cbn [NumR nsin ncos nmul nsub ndiv n1]. rewrite E. reflexivity.
Qed.

Lemma beamspread_vel_scale s vel legs thetas : s <> 0 -> Forall (fun v => v <> 0) vel ->
  beamspread NumR (map (Rmult s) vel) legs thetas = beamspread NumR vel legs thetas /\
  reverse_beamspread NumR (map (Rmult s) vel) legs thetas = reverse_beamspread NumR vel legs thetas.
Proof.
  intros Hs Hv. unfold beamspread, reverse_beamspread. split.
  - rewrite (proj1 (gamma_list_vel_scale s Hs vel thetas Hv)). reflexivity.
  - rewrite <- map_rev. rewrite (proj2 (gamma_list_vel_scale s Hs (rev vel) (rev thetas) (Forall_rev Hv))). reflexivity.
Qed.

(* no change of velocity along the path (skip paths without mode conversion): gamma = 1,
   the virtual-source distance is the unfolded length of the ray *)
Lemma gamma_same_velocity v th : v <> 0 -> cos th <> 0 ->
  gamma_of NumR v v th = 1 /\ rev_gamma_of NumR v v th = 1.
Proof.
  intros Hv Hc. pose proof (cos2_of_sin th) as H. split.
  - rewrite gamma_of_R. replace (v / v) with 1 by (field; exact Hv).
    replace (1 * 1 - sin th * sin th) with (cos th * cos th) by lra. field. exact Hc.
  - unfold rev_gamma_of. cbn [NumR nsin ncos nmul nsub ndiv n1]. replace (v / v) with 1 by (field; exact Hv).
    replace (1 - 1 * 1 * sin th * sin th) with (cos th * cos th) by lra. field. exact Hc.
Qed.

Lemma gamma_list_same_velocity v : v <> 0 -> forall vel thetas,
  Forall (fun x => x = v) vel -> Forall (fun th => cos th <> 0) thetas ->
  gamma_list NumR vel thetas = repeat 1 (length (gamma_list NumR vel thetas)) /\
  rev_gamma_list NumR vel thetas = repeat 1 (length (gamma_list NumR vel thetas)).
Proof.
  intros Hv. induction vel as [|v0 vel IH]; intros thetas Hvel Hth; [split; reflexivity|].
  destruct vel as [|v1 vel]; [split; reflexivity|]. destruct thetas as [|th thetas]; [split; reflexivity|].
  inversion Hvel as [|? ? E0 Hvel']; subst. assert (E1 : v1 = v) by (inversion Hvel'; assumption). subst v1.
  inversion Hth as [|? ? Hc Hth']; subst.
  rewrite !gamma_list_cons2, !rev_gamma_list_cons2. cbn [length repeat].
  destruct (IH thetas Hvel' Hth') as [IH1 IH2]. destruct (gamma_same_velocity v th Hv Hc) as [G1 G2].
  rewrite G1, G2. split; f_equal; assumption.
Qed.

Lemma vd_horner_ones : forall rest r1 m, (length rest <= m)%nat ->
  vd_horner NumR r1 rest (repeat 1 m) = sum_list NumR (r1 :: rest).
Proof.
  induction rest as [|r2 rest IH]; intros r1 m Hm.
  - destruct m; simpl; ring.
  - destruct m as [|m]; [simpl in Hm; lia|]. cbn [repeat vd_horner NumR nadd ndiv].
    rewrite IH by (simpl in Hm; lia). cbn [sum_list fold_right NumR nadd n0]. field.
Qed.

Lemma beamspread_same_velocity v vel r1 rest thetas : v <> 0 ->
  Forall (fun x => x = v) vel -> Forall (fun th => cos th <> 0) thetas ->
  (length rest <= Nat.min (length vel - 1) (length thetas))%nat ->
  beamspread NumR vel (r1 :: rest) thetas = 1 / sqrt (sum_list NumR (r1 :: rest)).
Proof.
  intros Hv Hvel Hth Hlen. unfold beamspread.
  destruct (gamma_list_same_velocity v Hv vel thetas Hvel Hth) as [E _].
  assert (Hl : (length rest <= length (gamma_list NumR vel thetas))%nat) by (rewrite gamma_list_length; exact Hlen).
  rewrite E. rewrite virtual_distance_horner.
  - rewrite vd_horner_ones by exact Hl. reflexivity.
  - clear. induction (length (gamma_list NumR vel thetas)); simpl; constructor; [lra | assumption].
  - rewrite repeat_length. exact Hl.
Qed.

(* ---- the floating-point outcome of np.reciprocal(np.sqrt(d)) ------------------------------ *)
(* Over the reals the nan test (d == d fails) and the sign-of-zero test (1 / d < 0 at d = 0;
   Coq's 1 / 0 is 0) never fire: the reading is the three-class one.  (Statement unchanged by
   the repair of recip_sqrt_outcome, which added these two tests for binary64.) *)
Lemma recip_sqrt_outcome_R d :
  (d < 0 -> recip_sqrt_outcome NumR d = NaN) /\
  (d = 0 -> recip_sqrt_outcome NumR d = PlusInf) /\
  (0 < d -> recip_sqrt_outcome NumR d = Finite (1 / sqrt d)).
Proof.
  unfold recip_sqrt_outcome. cbn [NumR nltb neqb n0 n1 ndiv nsqrt].
  rewrite (Raux.Req_bool_true d d) by reflexivity. cbn [negb].
  repeat split; intros H.
  - rewrite Raux.Rlt_bool_true by exact H. reflexivity.
  - rewrite Raux.Rlt_bool_false by lra. rewrite Raux.Req_bool_true by exact H.
    rewrite H. unfold Rdiv. rewrite Rinv_0, Rmult_0_r. rewrite Raux.Rlt_bool_false by lra. reflexivity.
  - rewrite Raux.Rlt_bool_false by lra. rewrite Raux.Req_bool_false by lra. reflexivity.
Qed.

(* the two binary64-only classes are not real-number outcomes: MinusInf is never the answer, and
   NaN is the answer exactly for a negative virtual distance *)
Lemma recip_sqrt_outcome_R_classes d :
  recip_sqrt_outcome NumR d <> MinusInf /\ (recip_sqrt_outcome NumR d = NaN <-> d < 0).
Proof.
  destruct (recip_sqrt_outcome_R d) as (Hn & Hz & Hp).
  destruct (Rtotal_order d 0) as [H | [H | H]].
  - rewrite (Hn H). split; [discriminate | split; [intros _; exact H | reflexivity]].
  - rewrite (Hz H). split; [discriminate | split; [discriminate | intros H'; lra]].
  - rewrite (Hp H). split; [discriminate | split; [discriminate | intros H'; lra]].
Qed.

Lemma outcome_regular vel r1 rest thetas :
  all_pos vel -> Forall (fun th => cos th <> 0) thetas -> subcritical vel thetas ->
  0 < r1 -> all_pos rest -> (length rest <= Nat.min (length vel - 1) (length thetas))%nat ->
  beamspread_outcome NumR vel (r1 :: rest) thetas = Finite (beamspread NumR vel (r1 :: rest) thetas).
Proof.
  intros Hv Hc Hs Hr1 Hrest Hlen.
  destruct (beamspread_is_snell_tube_inputs vel r1 rest thetas Hv Hc Hs Hr1 Hrest Hlen) as (_ & _ & Hd & _).
  unfold beamspread_outcome. rewrite (proj2 (proj2 (recip_sqrt_outcome_R _)) Hd). reflexivity.
Qed.

Lemma virtual_distance_two_legs r1 r2 g : virtual_distance NumR [r1; r2] [g] = r1 + r2 / (1 * g).
Proof. reflexivity. Qed.

(* beyond the critical angle the code's gamma is negative; what comes out for a path with
   two legs depends on the leg sizes: nan only when the second leg is long enough *)
Lemma two_leg_beyond_critical_outcome v0 v1 th r1 r2 :
  0 < v0 -> 0 < v1 -> cos th <> 0 -> 1 < (v1 / v0 * sin th) * (v1 / v0 * sin th) -> 0 < r1 -> 0 < r2 ->
  let g := gamma_of NumR v0 v1 th in
  g < 0 /\
  (r1 * (- g) < r2 -> beamspread_outcome NumR [v0; v1] [r1; r2] [th] = NaN) /\
  (r1 * (- g) = r2 -> beamspread_outcome NumR [v0; v1] [r1; r2] [th] = PlusInf) /\
  (r2 < r1 * (- g) -> beamspread_outcome NumR [v0; v1] [r1; r2] [th] = Finite (1 / sqrt (r1 + r2 / g)) /\ 0 < r1 + r2 / g).
Proof.
  intros H0 H1 Hc Hb Hr1 Hr2 g.
  assert (Hg : g < 0) by (apply gamma_neg_beyond; assumption).
  split; [exact Hg|].
  unfold beamspread_outcome. change (gamma_list NumR [v0; v1] [th]) with [g].
  rewrite virtual_distance_two_legs. rewrite Rmult_1_l.
  assert (Hng : 0 < - g) by lra.
  assert (E : r1 + r2 / g = (r1 * (- g) - r2) / (- g)) by (field; lra).
  assert (Hi : 0 < / (- g)) by (apply Rinv_0_lt_compat; exact Hng).
  repeat split.
  - intros H. apply (proj1 (recip_sqrt_outcome_R _)). rewrite E. unfold Rdiv. nra.
  - intros H. apply (proj1 (proj2 (recip_sqrt_outcome_R _))). rewrite E, H. unfold Rdiv. ring.
  - apply (proj2 (proj2 (recip_sqrt_outcome_R _))). rewrite E. unfold Rdiv. nra.
  - rewrite E. unfold Rdiv. nra.
Qed.

(* ---- the reverse function = the forward function on the reversed ray, the incidence
   angles of the reversed ray being COMPUTED by Snell's law ------------------------------- *)
Lemma subcritical_nth : forall vel thetas,
  subcritical vel thetas <->
  (forall i v0 v1 th, nth_error vel i = Some v0 -> nth_error vel (S i) = Some v1 -> nth_error thetas i = Some th ->
                      -1 < v1 / v0 * sin th < 1).
Proof.
  induction vel as [|v0 vel IH]; intros thetas.
  - split; [intros _ i ? ? ? H; destruct i; discriminate | intros _; exact I].
  - destruct vel as [|v1 vel].
    + split; [intros _ i ? ? ? _ H; destruct i; discriminate | intros _; exact I].
    + destruct thetas as [|th thetas].
      * split; [intros _ i ? ? ? _ _ H; destruct i; discriminate | intros _; exact I].
      * rewrite subcritical_cons2. rewrite IH. split.
        -- intros [H0 H] i a b t Ha Hb Ht. destruct i as [|i].
           ++ injection Ha as <-. injection Hb as <-. injection Ht as <-. exact H0.
           ++ exact (H i a b t Ha Hb Ht).
        -- intros H. split; [exact (H 0%nat v0 v1 th eq_refl eq_refl eq_refl)|].
           intros i a b t Ha Hb Ht. exact (H (S i) a b t Ha Hb Ht).
Qed.

Lemma subcritical_rev_nth : forall rvel rthetas,
  subcritical_rev rvel rthetas <->
  (forall i vn vp th, nth_error rvel i = Some vn -> nth_error rvel (S i) = Some vp -> nth_error rthetas i = Some th ->
                      -1 < vn / vp * sin th < 1).
Proof.
  induction rvel as [|v0 vel IH]; intros thetas.
  - split; [intros _ i ? ? ? H; destruct i; discriminate | intros _; exact I].
  - destruct vel as [|v1 vel].
    + split; [intros _ i ? ? ? _ H; destruct i; discriminate | intros _; exact I].
    + destruct thetas as [|th thetas].
      * split; [intros _ i ? ? ? _ _ H; destruct i; discriminate | intros _; exact I].
      * rewrite subcritical_rev_cons2. rewrite IH. split.
        -- intros [H0 H] i a b t Ha Hb Ht. destruct i as [|i].
           ++ injection Ha as <-. injection Hb as <-. injection Ht as <-. exact H0.
           ++ exact (H i a b t Ha Hb Ht).
        -- intros H. split; [exact (H 0%nat v0 v1 th eq_refl eq_refl eq_refl)|].
           intros i a b t Ha Hb Ht. exact (H (S i) a b t Ha Hb Ht).
Qed.

Lemma subcritical_rev_of_subcritical vel thetas : length thetas = (length vel - 1)%nat ->
  subcritical vel thetas -> subcritical_rev (rev vel) (rev thetas).
Proof.
  intros Hl Hs. apply subcritical_rev_nth. intros i vn vp th Hn Hp Ht.
  assert (Hi : (S i < length vel)%nat) by (apply nth_error_Some_lt in Hp; rewrite rev_length in Hp; exact Hp).
  rewrite nth_error_rev in Hn by lia. rewrite nth_error_rev in Hp by lia. rewrite nth_error_rev in Ht by lia.
  rewrite Hl in Ht.
  apply (proj1 (subcritical_nth vel thetas) Hs (length vel - 1 - S i)%nat vp vn th).
  - exact Hp.
  - replace (S (length vel - 1 - S i)) with (length vel - 1 - i)%nat by lia. exact Hn.
  - replace (length vel - 1 - S i)%nat with (length vel - 1 - 1 - i)%nat by lia. exact Ht.
Qed.

Lemma reversed_inc_angles_length : forall rvel rthetas,
  length (reversed_inc_angles NumR rvel rthetas) = Nat.min (length rvel - 1) (length rthetas).
Proof.
  induction rvel as [|v0 vel IH]; intros thetas; [reflexivity|].
  destruct vel as [|v1 vel]; [reflexivity|]. destruct thetas as [|th thetas]; [reflexivity|].
  change (reversed_inc_angles NumR (v0 :: v1 :: vel) (th :: thetas))
    with (snell_out_angle NumR v1 v0 th :: reversed_inc_angles NumR (v1 :: vel) thetas).
  cbn [length]. rewrite IH. cbn [length]. lia.
Qed.

Lemma snell_images_computed : forall rvel rthetas,
  all_pos rvel -> subcritical_rev rvel rthetas ->
  snell_images rvel rthetas (reversed_inc_angles NumR rvel rthetas).
Proof.
  induction rvel as [|vn rvel IH]; intros rthetas Hv Hs.
  - destruct rthetas; exact I.
  - destruct rvel as [|vp rvel].
    + destruct rthetas; exact I.
    + destruct rthetas as [|th rthetas]; [exact I|].
      rewrite subcritical_rev_cons2 in Hs. destruct Hs as [Hs0 Hs].
      inversion Hv as [|? ? Hvn Hv']; subst. assert (Hvp : 0 < vp) by (inversion Hv'; assumption).
      change (reversed_inc_angles NumR (vn :: vp :: rvel) (th :: rthetas))
        with (snell_out_angle NumR vp vn th :: reversed_inc_angles NumR (vp :: rvel) rthetas).
      destruct (cos_snell_out_sq vp vn th Hs0) as (_ & Hc & Hsin).
      cbn [snell_images]. repeat split; try assumption; [lra|]. apply IH; assumption.
Qed.

Lemma reverse_is_forward_of_reversed_snell vel legs thetas :
  all_pos vel -> subcritical vel thetas -> length thetas = (length vel - 1)%nat ->
  reverse_beamspread NumR vel legs thetas
  = beamspread NumR (rev vel) (rev legs) (reversed_inc_angles NumR (rev vel) (rev thetas)).
Proof.
  intros Hv Hs Hl. apply reverse_beamspread_eq.
  - apply snell_images_computed; [apply Forall_rev; exact Hv | apply subcritical_rev_of_subcritical; assumption].
  - rewrite reversed_inc_angles_length, !rev_length. lia.
Qed.

(* the reversed ray is sub-critical too and its cosines do not vanish *)
Lemma reversed_ray_regular : forall rvel rthetas,
  all_pos rvel -> Forall (fun th => cos th <> 0) rthetas -> subcritical_rev rvel rthetas ->
  subcritical rvel (reversed_inc_angles NumR rvel rthetas) /\
  Forall (fun th => cos th <> 0) (reversed_inc_angles NumR rvel rthetas).
Proof.
  induction rvel as [|vn rvel IH]; intros rthetas Hv Hc Hs.
  - split; [exact I | constructor].
  - destruct rvel as [|vp rvel]; [split; [exact I | constructor]|].
    destruct rthetas as [|th rthetas]; [split; [exact I | constructor]|].
    rewrite subcritical_rev_cons2 in Hs. destruct Hs as [Hs0 Hs].
    inversion Hv as [|? ? Hvn Hv']; subst. assert (Hvp : 0 < vp) by (inversion Hv'; assumption).
    inversion Hc as [|? ? Hc0 Hc']; subst.
    change (reversed_inc_angles NumR (vn :: vp :: rvel) (th :: rthetas))
      with (snell_out_angle NumR vp vn th :: reversed_inc_angles NumR (vp :: rvel) rthetas).
    destruct (cos_snell_out_sq vp vn th Hs0) as (_ & Hcos & Hsin).
    destruct (IH rthetas Hv' Hc' Hs) as [IH1 IH2].
    split.
    + rewrite subcritical_cons2. split; [|exact IH1].
      rewrite Hsin. replace (vp / vn * (vn / vp * sin th)) with (sin th) by (field; split; lra).
      pose proof (cos2_of_sin th) as H2. assert (0 < cos th * cos th) by nra. split; nra.
    + constructor; [lra | exact IH2].
Qed.

Lemma reverse_beamspread_is_tube_of_reversed_ray vel legs thetas :
  all_pos vel -> all_pos legs -> legs <> [] -> Forall (fun th => cos th <> 0) thetas -> subcritical vel thetas ->
  length thetas = (length vel - 1)%nat -> length legs = length vel ->
  let rthetas' := reversed_inc_angles NumR (rev vel) (rev thetas) in
  reverse_beamspread NumR vel legs thetas = tube_amplitude NumR (rev vel) (rev legs) rthetas' /\
  0 < reverse_beamspread NumR vel legs thetas.
Proof.
  intros Hv Hlegs Hne Hc Hs Hl Hll rthetas'.
  rewrite reverse_is_forward_of_reversed_snell by assumption. fold rthetas'.
  pose proof (subcritical_rev_of_subcritical vel thetas Hl Hs) as Hsr.
  destruct (reversed_ray_regular (rev vel) (rev thetas) (Forall_rev Hv) (Forall_rev Hc) Hsr) as [R1 R2].
  fold rthetas' in R1, R2.
  destruct (rev legs) as [|rn rrest] eqn:Er.
  { apply (f_equal (@rev R)) in Er. rewrite rev_involutive in Er. contradiction. }
  assert (Hp : all_pos (rn :: rrest)) by (rewrite <- Er; apply Forall_rev; exact Hlegs).
  inversion Hp as [|? ? Hrn Hrrest]; subst.
  assert (Hlen : (length rrest <= Nat.min (length (rev vel) - 1) (length rthetas'))%nat).
  { unfold rthetas'. rewrite reversed_inc_angles_length, !rev_length.
    apply (f_equal (@length R)) in Er. rewrite rev_length in Er. simpl in Er. lia. }
  destruct (beamspread_is_snell_tube_inputs (rev vel) rn rrest rthetas' (Forall_rev Hv) R2 R1 Hrn Hrrest Hlen) as (E & _ & _ & Hpos).
  split; assumption.
Qed.

(* ---- change of length unit, list level, without any sign hypothesis on the distance --- *)
Lemma beamspread_scale_strong s vel legs thetas : 0 <= s ->
  (length legs <= S (length (gamma_list NumR vel thetas)))%nat ->
  beamspread NumR vel (map (Rmult s) legs) thetas = / sqrt s * beamspread NumR vel legs thetas.
Proof.
  intros Hs Hlen. unfold beamspread. rewrite virtual_distance_scale by exact Hlen.
  cbn [NumR n1 ndiv nsqrt]. rewrite sqrt_mult_alt by exact Hs. unfold Rdiv. rewrite Rinv_mult. ring.
Qed.

Lemma reverse_beamspread_scale_strong s vel legs thetas : 0 <= s ->
  (length legs <= S (length (rev_gamma_list NumR (rev vel) (rev thetas))))%nat ->
  reverse_beamspread NumR vel (map (Rmult s) legs) thetas = / sqrt s * reverse_beamspread NumR vel legs thetas.
Proof.
  intros Hs Hlen. unfold reverse_beamspread. rewrite <- map_rev.
  rewrite virtual_distance_scale by (rewrite rev_length; exact Hlen).
  cbn [NumR n1 ndiv nsqrt]. rewrite sqrt_mult_alt by exact Hs. unfold Rdiv. rewrite Rinv_mult. ring.
Qed.

(* ---- path level: rigid motions ------------------------------------------------------------ *)
Section Rigid.
  Variable Q : mat3 R.
  Variable t : vec3 R.
  Hypothesis HQ : cols_orthonormal NumR Q.
  Variable ifs : list (iface (T:=R)).
  Variable ray : list nat.
  Let ifs' := map (move_iface NumR Q t) ifs.

  Lemma moved_leg_points idx : leg_points ifs' ray idx = rmap (move_point NumR Q t) (leg_points ifs ray idx).
  Proof.
    unfold leg_points, gather, numinterfaces, ifs'. rewrite map_length.
    destruct (resolve (length ifs) idx) as [a|]; [|reflexivity].
    rewrite nth_error_map. destruct (nth_error ifs a) as [f|]; [|reflexivity]. cbn [option_map of_opt rbind rmap].
    destruct (resolve (length ray) idx) as [b|]; [|reflexivity]. cbn [of_opt rbind].
    destruct (nth_error ray b) as [p|]; [|reflexivity]. cbn [of_opt rbind].
    cbn [move_iface if_points]. rewrite nth_error_map. destruct (nth_error (if_points f) p); reflexivity.
  Qed.

  Lemma moved_orientations idx :
    orientations_of_legs_points ifs' ray idx = rmap (move_frame NumR Q) (orientations_of_legs_points ifs ray idx).
  Proof.
    unfold orientations_of_legs_points, gather, numinterfaces, ifs'. rewrite map_length.
    destruct (resolve (length ifs) idx) as [a|]; [|reflexivity].
    rewrite nth_error_map. destruct (nth_error ifs a) as [f|]; [|reflexivity]. cbn [option_map of_opt rbind rmap].
    destruct (resolve (length ray) idx) as [b|]; [|reflexivity]. cbn [of_opt rbind].
    destruct (nth_error ray b) as [p|]; [|reflexivity]. cbn [of_opt rbind].
    cbn [move_iface if_orient]. rewrite nth_error_map. destruct (nth_error (if_orient f) p); reflexivity.
  Qed.

  Lemma moved_difference s e :
    vsub NumR (move_point NumR Q t s) (move_point NumR Q t e) = mvec NumR Q (vsub NumR s e).
  Proof. unfold move_point. rewrite vsub_vadd_same. symmetry. apply mvec_sub. Qed.

  Lemma moved_norm s e :
    norm2_acc NumR (vsub NumR (move_point NumR Q t s) (move_point NumR Q t e)) = norm2_acc NumR (vsub NumR s e).
  Proof.
    rewrite moved_difference, !norm2_acc_vnorm. unfold vnorm. rewrite mvec_norm2 by exact HQ. reflexivity.
  Qed.

  Lemma moved_local s e B :
    from_gcs NumR (move_point NumR Q t s) (move_frame NumR Q B) (move_point NumR Q t e) = from_gcs NumR s B e.
  Proof.
    unfold from_gcs, move_frame. rewrite moved_difference, mvec_mmul.
    rewrite <- mtvec_is_mvec_trans. rewrite mtvec_mvec by exact HQ. reflexivity.
  Qed.

  Lemma moved_inc_leg_size idx : inc_leg_size NumR ifs' ray idx = inc_leg_size NumR ifs ray idx.
  Proof.
    unfold inc_leg_size, guarded, numinterfaces. unfold ifs' at 1. rewrite map_length.
    rewrite !moved_leg_points.
    destruct (leg_points ifs ray (idx - 1)) as [s| | |]; cbn [rmap rbind]; try reflexivity.
    destruct (leg_points ifs ray idx) as [e| | |]; cbn [rmap rbind]; try reflexivity.
    rewrite moved_norm. reflexivity.
  Qed.

  Lemma moved_inc_leg_cartesian idx : inc_leg_cartesian NumR ifs' ray idx = inc_leg_cartesian NumR ifs ray idx.
  Proof.
    unfold inc_leg_cartesian, guarded, leg_local, numinterfaces. unfold ifs' at 1. rewrite map_length.
    rewrite !moved_leg_points, moved_orientations.
    destruct (leg_points ifs ray (idx - 1)) as [s| | |]; cbn [rmap rbind]; try reflexivity.
    destruct (leg_points ifs ray idx) as [e| | |]; cbn [rmap rbind]; try reflexivity.
    destruct (orientations_of_legs_points ifs ray idx) as [B| | |]; cbn [rmap rbind]; try reflexivity.
    rewrite moved_local. reflexivity.
  Qed.

  Lemma moved_conventional idx : conventional_inc_angle NumR ifs' ray idx = conventional_inc_angle NumR ifs ray idx.
  Proof.
    unfold conventional_inc_angle, numinterfaces. unfold ifs' at 1. rewrite map_length.
    assert (Hp : inc_leg_polar NumR ifs' ray idx = inc_leg_polar NumR ifs ray idx).
    { unfold inc_leg_polar, inc_leg_radius. rewrite moved_inc_leg_cartesian. reflexivity. }
    rewrite Hp. destruct (resolve (length ifs) idx) as [a|]; [|reflexivity].
    destruct (Nat.eqb a 0); [reflexivity|]. unfold ifs'. rewrite nth_error_map.
    destruct (nth_error ifs a) as [f|]; reflexivity.
  Qed.

  Lemma rigid_motion_invariance vel :
    beamspread_2d_for_path NumR ifs' ray vel = beamspread_2d_for_path NumR ifs ray vel /\
    reverse_beamspread_2d_for_path NumR ifs' ray vel = reverse_beamspread_2d_for_path NumR ifs ray vel.
  Proof.
    apply path_congruence.
    - unfold ifs'. apply map_length.
    - exact moved_inc_leg_size.
    - intros k _. apply moved_conventional.
  Qed.
End Rigid.

(* ---- path level: change of length unit --------------------------------------------------- *)
Lemma rmapM_rmap {A B} (h : B -> B) (f f' : A -> res B) l :
  (forall k, f' k = rmap h (f k)) -> rmapM f' l = rmap (map h) (rmapM f l).
Proof.
  intros H. induction l as [|a l IH]; [reflexivity|].
  cbn [rmapM]. rewrite H, IH. destruct (f a) as [b| | |]; cbn [rmap rbind]; try reflexivity.
  destruct (rmapM f l) as [bs| | |]; reflexivity.
Qed.

Section Scale.
  Variable s : R.
  Hypothesis Hs : 0 < s.
  Variable ifs : list (iface (T:=R)).
  Variable ray : list nat.
  Let ifs' := map (scale_iface NumR s) ifs.

  Lemma scaled_leg_points idx : leg_points ifs' ray idx = rmap (vscale NumR s) (leg_points ifs ray idx).
  Proof.
    unfold leg_points, gather, numinterfaces, ifs'. rewrite map_length.
    destruct (resolve (length ifs) idx) as [a|]; [|reflexivity].
    rewrite nth_error_map. destruct (nth_error ifs a) as [f|]; [|reflexivity]. cbn [option_map of_opt rbind rmap].
    destruct (resolve (length ray) idx) as [b|]; [|reflexivity]. cbn [of_opt rbind].
    destruct (nth_error ray b) as [p|]; [|reflexivity]. cbn [of_opt rbind].
    cbn [scale_iface if_points]. rewrite nth_error_map. destruct (nth_error (if_points f) p); reflexivity.
  Qed.

  Lemma scaled_orientations idx : orientations_of_legs_points ifs' ray idx = orientations_of_legs_points ifs ray idx.
  Proof.
    unfold orientations_of_legs_points, gather, numinterfaces, ifs'. rewrite map_length.
    destruct (resolve (length ifs) idx) as [a|]; [|reflexivity].
    rewrite nth_error_map. destruct (nth_error ifs a) as [f|]; reflexivity.
  Qed.

  Lemma scaled_difference a b : vsub NumR (vscale NumR s a) (vscale NumR s b) = vscale NumR s (vsub NumR a b).
  Proof. destruct a as [[ax ay] az]. destruct b as [[bx by_] bz]. unfold vsub, vscale, vx, vy, vz. cbn. f_equal; [f_equal|]; ring. Qed.

  Lemma scaled_norm v : norm2_acc NumR (vscale NumR s v) = s * norm2_acc NumR v.
  Proof.
    rewrite !norm2_acc_R. destruct v as [[x y] z]. unfold vscale, vx, vy, vz. cbn [fst snd NumR nmul].
    replace (s * x * (s * x) + s * y * (s * y) + s * z * (s * z)) with (s * s * (x * x + y * y + z * z)) by ring.
    rewrite sqrt_mult_alt by nra. rewrite sqrt_square by lra. reflexivity.
  Qed.

  Lemma scaled_inc_leg_size idx : inc_leg_size NumR ifs' ray idx = rmap (Rmult s) (inc_leg_size NumR ifs ray idx).
  Proof.
    unfold inc_leg_size, guarded, numinterfaces. unfold ifs' at 1. rewrite map_length.
    rewrite !scaled_leg_points.
    destruct (resolve (length ifs) idx) as [a|]; [|reflexivity]. destruct (Nat.eqb a 0); [reflexivity|].
    destruct (leg_points ifs ray (idx - 1)) as [p| | |]; cbn [rmap rbind]; try reflexivity.
    destruct (leg_points ifs ray idx) as [e| | |]; cbn [rmap rbind]; try reflexivity.
    rewrite scaled_difference, scaled_norm. reflexivity.
  Qed.

  Lemma scaled_inc_leg_cartesian idx :
    inc_leg_cartesian NumR ifs' ray idx = rmap (vscale NumR s) (inc_leg_cartesian NumR ifs ray idx).
  Proof.
    unfold inc_leg_cartesian, guarded, leg_local, numinterfaces. unfold ifs' at 1. rewrite map_length.
    rewrite !scaled_leg_points, scaled_orientations.
    destruct (resolve (length ifs) idx) as [a|]; [|reflexivity]. destruct (Nat.eqb a 0); [reflexivity|].
    destruct (leg_points ifs ray (idx - 1)) as [p| | |]; cbn [rmap rbind]; try reflexivity.
    destruct (leg_points ifs ray idx) as [e| | |]; cbn [rmap rbind]; try reflexivity.
    destruct (orientations_of_legs_points ifs ray idx) as [B| | |]; cbn [rmap rbind]; try reflexivity.
    f_equal. unfold from_gcs. rewrite scaled_difference.
    destruct B as [[b0 b1] b2]. destruct (vsub NumR p e) as [[x y] z].
    destruct b0 as [[b00 b01] b02]. destruct b1 as [[b10 b11] b12]. destruct b2 as [[b20 b21] b22].
    unfold mvec, vscale, vdot, mrow0, mrow1, mrow2, vx, vy, vz. cbn. f_equal; [f_equal|]; ring.
  Qed.

  Lemma scaled_inc_leg_polar idx : inc_leg_polar NumR ifs' ray idx = inc_leg_polar NumR ifs ray idx.
  Proof.
    unfold inc_leg_polar, inc_leg_radius. rewrite scaled_inc_leg_cartesian.
    destruct (inc_leg_cartesian NumR ifs ray idx) as [c| | |]; cbn [rmap rbind]; try reflexivity.
    f_equal. unfold sph_theta, sph_r. rewrite scaled_norm. cbn [NumR nacos ndiv].
    f_equal. destruct c as [[x y] z]. unfold vscale, vz. cbn [fst snd NumR nmul].
    unfold Rdiv. rewrite Rinv_mult. set (r := norm2_acc NumR (x, y, z)).
    replace (s * z * (/ s * / r)) with ((s * / s) * (z * / r)) by ring. rewrite Rinv_r by lra. ring.
  Qed.

  Lemma scaled_conventional idx : conventional_inc_angle NumR ifs' ray idx = conventional_inc_angle NumR ifs ray idx.
  Proof.
    unfold conventional_inc_angle, numinterfaces. unfold ifs' at 1. rewrite map_length.
    rewrite scaled_inc_leg_polar. destruct (resolve (length ifs) idx) as [a|]; [|reflexivity].
    destruct (Nat.eqb a 0); [reflexivity|]. unfold ifs'. rewrite nth_error_map.
    destruct (nth_error ifs a) as [f|]; reflexivity.
  Qed.

  Variable vel : list R.
  Variable n' : nat.
  Hypothesis Hifs : length ifs = S n'.
  Hypothesis Hvel : length vel = n'.

  Lemma Hifs' : length ifs' = S n'.
  Proof. unfold ifs'. rewrite map_length. exact Hifs. Qed.

  Lemma scaled_path_legs : path_legs NumR ifs' ray = rmap (map (Rmult s)) (path_legs NumR ifs ray).
  Proof.
    rewrite (path_legs_eq NumR ifs' ray n' Hifs'), (path_legs_eq NumR ifs ray n' Hifs).
    apply rmapM_rmap. exact scaled_inc_leg_size.
  Qed.

  Lemma scaled_path_thetas : path_thetas NumR ifs' ray = path_thetas NumR ifs ray.
  Proof.
    rewrite (path_thetas_eq NumR ifs' ray n' Hifs'), (path_thetas_eq NumR ifs ray n' Hifs).
    apply rmapM_ext_in. intros k _. apply scaled_conventional.
  Qed.

  Lemma length_unit_scaling y :
    (beamspread_2d_for_path NumR ifs' ray vel = Val y <->
     exists x, beamspread_2d_for_path NumR ifs ray vel = Val x /\ y = / sqrt s * x) /\
    (reverse_beamspread_2d_for_path NumR ifs' ray vel = Val y <->
     exists x, reverse_beamspread_2d_for_path NumR ifs ray vel = Val x /\ y = / sqrt s * x).
  Proof.
    split.
    - rewrite (fwd_defined_iff NumR ifs' ray vel n' Hifs' y Hvel). split.
      + intros (Hn & legs' & thetas & Hl & Ht & ->).
        rewrite scaled_path_legs in Hl. rewrite scaled_path_thetas in Ht.
        destruct (path_legs NumR ifs ray) as [legs| | |] eqn:El; cbn [rmap rbind] in Hl; try discriminate.
        injection Hl as <-.
        exists (beamspread NumR vel legs thetas). split.
        * apply (fwd_defined_iff NumR ifs ray vel n' Hifs _ Hvel). split; [exact Hn|]. exists legs, thetas. auto.
        * apply beamspread_scale_strong; [lra|].
          rewrite (legs_length NumR ifs ray n' Hifs legs El), gamma_list_length.
          rewrite (thetas_length NumR ifs ray n' Hifs thetas Ht). lia.
      + intros (x & Hx & ->). apply (fwd_defined_iff NumR ifs ray vel n' Hifs _ Hvel) in Hx.
        destruct Hx as (Hn & legs & thetas & Hl & Ht & ->). split; [exact Hn|].
        exists (map (Rmult s) legs), thetas. rewrite scaled_path_legs, scaled_path_thetas, Hl.
        repeat split; [exact Ht|]. symmetry. apply beamspread_scale_strong; [lra|].
        rewrite (legs_length NumR ifs ray n' Hifs legs Hl), gamma_list_length.
        rewrite (thetas_length NumR ifs ray n' Hifs thetas Ht). lia.
    - rewrite (rev_defined_iff NumR ifs' ray vel n' Hifs' y Hvel). split.
      + intros (Hn & legs' & thetas & Hl & Ht & ->).
        rewrite scaled_path_legs in Hl. rewrite scaled_path_thetas in Ht.
        destruct (path_legs NumR ifs ray) as [legs| | |] eqn:El; cbn [rmap rbind] in Hl; try discriminate.
        injection Hl as <-.
        exists (reverse_beamspread NumR vel legs thetas). split.
        * apply (rev_defined_iff NumR ifs ray vel n' Hifs _ Hvel). split; [exact Hn|]. exists legs, thetas. auto.
        * apply reverse_beamspread_scale_strong; [lra|].
          rewrite (legs_length NumR ifs ray n' Hifs legs El), rev_gamma_list_length, !rev_length.
          rewrite (thetas_length NumR ifs ray n' Hifs thetas Ht). lia.
      + intros (x & Hx & ->). apply (rev_defined_iff NumR ifs ray vel n' Hifs _ Hvel) in Hx.
        destruct Hx as (Hn & legs & thetas & Hl & Ht & ->). split; [exact Hn|].
        exists (map (Rmult s) legs), thetas. rewrite scaled_path_legs, scaled_path_thetas, Hl.
        repeat split; [exact Ht|]. symmetry. apply reverse_beamspread_scale_strong; [lra|].
        rewrite (legs_length NumR ifs ray n' Hifs legs Hl), rev_gamma_list_length, !rev_length.
        rewrite (thetas_length NumR ifs ray n' Hifs thetas Ht). lia.
  Qed.
End Scale.

(* ---- path level: end to end ---------------------------------------------------------------- *)
Lemma path_beamspread_is_tube (ifs : list (iface (T:=R))) ray vel n' legs thetas :
  length ifs = S n' -> length vel = n' -> (1 <= n')%nat ->
  path_legs NumR ifs ray = Val legs -> path_thetas NumR ifs ray = Val thetas ->
  all_pos vel -> all_pos legs -> Forall (fun th => cos th <> 0) thetas -> subcritical vel thetas ->
  beamspread_2d_for_path NumR ifs ray vel = Val (tube_amplitude NumR vel legs thetas) /\
  beamspread_2d_for_path NumR ifs ray vel = Val (angle_tube_amplitude NumR vel legs thetas) /\
  reverse_beamspread_2d_for_path NumR ifs ray vel
  = Val (tube_amplitude NumR (rev vel) (rev legs) (reversed_inc_angles NumR (rev vel) (rev thetas))) /\
  0 < tube_amplitude NumR vel legs thetas.
Proof.
  intros Hifs Hvel Hn Hl Ht Hv Hlegs Hc Hs.
  pose proof (legs_length NumR ifs ray n' Hifs legs Hl) as Hll.
  pose proof (thetas_length NumR ifs ray n' Hifs thetas Ht) as Htl.
  rewrite (beamspread_path_factors NumR ifs ray vel n' Hifs legs thetas Hl Ht Hn ltac:(lia)).
  rewrite (reverse_beamspread_path_factors NumR ifs ray vel n' Hifs legs thetas Hl Ht Hn Hvel).
  destruct legs as [|r1 rest]; [simpl in Hll; lia|].
  inversion Hlegs as [|? ? Hr1 Hrest]; subst.
  assert (Hlen : (length rest <= Nat.min (length vel - 1) (length thetas))%nat) by (simpl in Hll; lia).
  destruct (beamspread_is_snell_tube_inputs vel r1 rest thetas Hv Hc Hs Hr1 Hrest Hlen) as (E1 & _ & _ & Hpos).
  repeat split.
  - rewrite E1. reflexivity.
  - rewrite (beamspread_is_angle_tube vel r1 rest thetas Hv Hc Hs Hr1 Hrest Hlen). reflexivity.
  - f_equal. refine (proj1 (reverse_beamspread_is_tube_of_reversed_ray vel (r1 :: rest) thetas Hv Hlegs _ Hc Hs _ _));
      [discriminate | lia | simpl in Hll |- *; lia].
  - rewrite <- E1. exact Hpos.
Qed.
