(* Proofs/FrameCaptureProofs.v — C15 (axiom-free): what Frame.capture_method reports after
   the operations (it is inferred from tx / rx alone, the metadata is never consulted), and
   the per-element view of the whole Probe object of C16 under Probe.subprobe. *)
From Coq Require Import Arith List Bool ZArith Lia Permutation Sorted.
From Arim Require Import Base.Num Model.Vec3 Model.Probe Model.ProbeOps Proofs.ProbeOpsGenProofs.
From Arim Require Import Model.Frame Proofs.FrameProofs Proofs.FrameOpsProofs Model.FrameOps2 Proofs.FrameOps2Proofs.
Import ListNotations.

(* ---- lists ---- *)
Lemma sorted_nth_error {A} (R : A -> A -> Prop) (l : list A) : StronglySorted R l ->
  forall a b x y, a < b -> nth_error l a = Some x -> nth_error l b = Some y -> R x y.
Proof.
  induction 1 as [|z l _ IH Hz]; intros a b x y Hab Ha Hb.
  - destruct a; discriminate.
  - destruct b as [|b]; [lia|]. cbn [nth_error] in Hb. destruct a as [|a].
    + cbn in Ha. injection Ha as <-. rewrite Forall_forall in Hz. apply Hz. eapply nth_error_In; eauto.
    + cbn [nth_error] in Ha. apply (IH a b); auto. lia.
Qed.

Lemma sorted_append {A} (R : A -> A -> Prop) l1 l2 :
  StronglySorted R l1 -> StronglySorted R l2 -> (forall x y, In x l1 -> In y l2 -> R x y) ->
  StronglySorted R (l1 ++ l2).
Proof.
  induction l1 as [|a l1 IH]; intros H1 H2 H; cbn [app]; [exact H2|].
  apply StronglySorted_inv in H1 as [H1 Ha]. constructor.
  - apply IH; auto. intros x y Hx. apply H. right. exact Hx.
  - apply Forall_app. split; [exact Ha|]. apply Forall_forall. intros y Hy. apply H; [left; reflexivity|exact Hy].
Qed.

Lemma sorted_pair_row i l : StronglySorted lt l -> StronglySorted pair_lt (map (pair i) l).
Proof.
  induction 1 as [|b l _ IH Hb]; cbn [map]; constructor; [exact IH|].
  apply Forall_forall. intros q Hq. apply in_map_iff in Hq as (c & <- & Hc).
  rewrite Forall_forall in Hb. specialize (Hb c Hc). unfold pair_lt, pair_ltb. cbn [fst snd].
  rewrite Nat.eqb_refl. apply Nat.ltb_lt in Hb. rewrite Hb. apply orb_true_r.
Qed.

Lemma sorted_pair_prod l1 l2 :
  StronglySorted lt l1 -> StronglySorted lt l2 -> StronglySorted pair_lt (list_prod l1 l2).
Proof.
  induction 1 as [|a l1 _ IH Ha]; intros H2; cbn [list_prod]; [constructor|].
  apply sorted_append; [apply sorted_pair_row; exact H2|apply IH; exact H2|].
  intros [x y] [u v] Hx Hy. apply in_map_iff in Hx as (c & E & _). injection E as <- <-.
  apply in_prod_iff in Hy as [Hu _]. rewrite Forall_forall in Ha. specialize (Ha u Hu).
  unfold pair_lt, pair_ltb. cbn [fst snd]. apply Nat.ltb_lt in Ha. rewrite Ha. reflexivity.
Qed.

(* ut.fmc lists the pairs in increasing tuple order *)
Lemma fmc_strongly_sorted n : StronglySorted pair_lt (fmc n).
Proof. rewrite fmc_list_prod. apply sorted_pair_prod; apply seq_sorted. Qed.

Lemma perm_keys_NoDup (l h : list (nat * nat)) : Permutation l h -> NoDup h -> NoDup l.
Proof. intros Hp Hn. eapply Permutation_NoDup; [apply Permutation_sym; exact Hp|exact Hn]. Qed.

(* ======================================================================================
   sub-apertures (subframe_from_probe_elements with a sub-probe) of full and half matrices *)
Section SubAperture.
  Variable P L : Type.
  Notation frame := (frame P).

  Lemma sub_keys_origin (pr sp : list L) (f g : frame) E k :
    subframe_from_probe_elements pr f E true = Some (sp, g) -> In k (keys g) ->
    exists e, In e f /\ retained E e = true /\
      nth_error E (fst k) = Some (fst (key e)) /\ nth_error E (snd k) = Some (snd (key e)).
  Proof.
    intros H Hk. apply sub_elements_subprobe in H as (_ & Hg & _).
    apply in_map_iff in Hk as (e' & <- & He').
    destruct (Forall2_In_r _ _ _ _ Hg He') as (e & He & _ & Ht & Hr).
    apply filter_In in He as [He Hret]. exists e. auto.
  Qed.

  Lemma sub_keys_cover (pr sp : list L) (f g : frame) E e a b :
    subframe_from_probe_elements pr f E true = Some (sp, g) -> NoDup E ->
    In e f -> nth_error E a = Some (fst (key e)) -> nth_error E b = Some (snd (key e)) ->
    In (a, b) (keys g).
  Proof.
    intros H HnE He Ha Hb. apply sub_elements_subprobe in H as (_ & Hg & _).
    assert (Hret : retained E e = true).
    { apply retained_spec. split; eapply nth_error_In; eauto. }
    assert (Hin : In e (filter (retained E) f)) by (apply filter_In; auto).
    destruct (Forall2_In_l _ _ _ _ Hg Hin) as (e' & He' & _ & Ht & Hr).
    rewrite NoDup_nth_error in HnE.
    assert (Ea : fst (key e') = a).
    { apply HnE; [apply nth_error_Some; congruence|congruence]. }
    assert (Eb : snd (key e') = b).
    { apply HnE; [apply nth_error_Some; congruence|congruence]. }
    apply in_map_iff. exists e'. split; [|exact He']. destruct (key e'); cbn in *; congruence.
  Qed.

  Lemma in_keys_entry (f : frame) k : In k (keys f) -> exists p, In (k, p) f.
  Proof. intros H. apply in_map_iff in H as ([k' p] & <- & Hin). exists p. exact Hin. Qed.

  (* a full matrix restricted to ANY duplicate-free list of elements (any order) is the full
     matrix of the sub-probe *)
  Lemma sub_elements_fmc (pr sp : list L) (f g : frame) E :
    Permutation (keys f) (fmc (length pr)) -> NoDup E ->
    subframe_from_probe_elements pr f E true = Some (sp, g) ->
    Permutation (keys g) (fmc (length E)).
  Proof.
    intros Hp HnE H. pose proof (sub_elements_subprobe P L _ _ _ _ _ H) as (Hsp & _ & Hng).
    assert (Hrange : forall e, In e E -> e < length pr).
    { unfold subframe_from_probe_elements in H. destruct (forallb (fun e => e <? length pr) E) eqn:Eb; [|discriminate].
      rewrite forallb_forall in Eb. intros e He. apply Nat.ltb_lt. auto. }
    apply NoDup_Permutation; [exact Hng|apply fmc_NoDup|]. intros [a b]. rewrite fmc_In. split.
    - intros Hk. destruct (sub_keys_origin _ _ _ _ _ _ H Hk) as (e & _ & _ & Ha & Hb). cbn [fst snd] in *.
      split; apply nth_error_Some; congruence.
    - intros [Ha Hb].
      destruct (nth_error E a) as [t|] eqn:Et; [|apply nth_error_None in Et; lia].
      destruct (nth_error E b) as [r|] eqn:Er; [|apply nth_error_None in Er; lia].
      assert (Hin : In (t, r) (keys f)).
      { apply (Permutation_in _ (Permutation_sym Hp)). apply fmc_In.
        split; apply Hrange; eapply nth_error_In; eauto. }
      destruct (in_keys_entry f _ Hin) as [p Hp'].
      apply (sub_keys_cover pr sp f g E (t, r, p) a b H HnE Hp'); assumption.
  Qed.

  (* a half matrix (tx <= rx) restricted to elements listed in increasing order (every mask,
     every slice with a positive step) is the half matrix of the sub-probe; listed in
     decreasing order (slice with a negative step), the half matrix in the other orientation *)
  Lemma sub_elements_hmc_gen (inc : bool) (pr sp : list L) (f g : frame) E :
    StronglySorted (if inc then lt else gt) E ->
    Permutation (keys f) (hmc (length pr)) ->
    subframe_from_probe_elements pr f E true = Some (sp, g) ->
    forall a b, In (a, b) (keys g) <->
      a < length E /\ b < length E /\ (if inc then a <= b else b <= a).
  Proof.
    intros Hs Hp H a b.
    assert (HnE : NoDup E) by (destruct inc; [apply sorted_lt_NoDup|apply sorted_gt_NoDup]; exact Hs).
    assert (Hrange : forall e, In e E -> e < length pr).
    { unfold subframe_from_probe_elements in H. destruct (forallb (fun e => e <? length pr) E) eqn:Eb; [|discriminate].
      rewrite forallb_forall in Eb. intros e He. apply Nat.ltb_lt. auto. }
    split.
    - intros Hk. destruct (sub_keys_origin _ _ _ _ _ _ H Hk) as (e & He & _ & Ha & Hb). cbn [fst snd] in *.
      assert (Hin : In (key e) (hmc (length pr))).
      { apply (Permutation_in _ Hp). apply in_map. exact He. }
      destruct (key e) as [t r] eqn:Ek. cbn [fst snd] in *. apply hmc_In in Hin as [Htr Hr].
      assert (Ha' : a < length E) by (apply nth_error_Some; congruence).
      assert (Hb' : b < length E) by (apply nth_error_Some; congruence).
      split; [exact Ha'|]. split; [exact Hb'|].
      destruct inc.
      + destruct (le_lt_dec a b) as [|Hlt]; [assumption|].
        pose proof (sorted_nth_error lt E Hs b a r t Hlt Hb Ha). lia.
      + destruct (le_lt_dec b a) as [|Hlt]; [assumption|].
        pose proof (sorted_nth_error gt E Hs a b t r Hlt Ha Hb). lia.
    - intros (Ha & Hb & Hor).
      destruct (nth_error E a) as [t|] eqn:Et; [|apply nth_error_None in Et; lia].
      destruct (nth_error E b) as [r|] eqn:Er; [|apply nth_error_None in Er; lia].
      assert (Htr : t <= r).
      { destruct (Nat.eq_dec a b) as [->|Hne]; [assert (t = r) by congruence; lia|]. destruct inc.
        - pose proof (sorted_nth_error lt E Hs a b t r ltac:(lia) Et Er). lia.
        - pose proof (sorted_nth_error gt E Hs b a r t ltac:(lia) Er Et). lia. }
      assert (Hin : In (t, r) (keys f)).
      { apply (Permutation_in _ (Permutation_sym Hp)). apply hmc_In. split; [exact Htr|].
        apply Hrange. eapply nth_error_In; eauto. }
      destruct (in_keys_entry f _ Hin) as [p Hp'].
      apply (sub_keys_cover pr sp f g E (t, r, p) a b H HnE Hp'); assumption.
  Qed.

  Lemma sub_elements_hmc_increasing (pr sp : list L) (f g : frame) E :
    StronglySorted lt E -> Permutation (keys f) (hmc (length pr)) ->
    subframe_from_probe_elements pr f E true = Some (sp, g) ->
    Permutation (keys g) (hmc (length E)).
  Proof.
    intros Hs Hp H. pose proof (sub_elements_subprobe P L _ _ _ _ _ H) as (_ & _ & Hng).
    apply NoDup_Permutation; [exact Hng|apply hmc_NoDup|]. intros [a b].
    rewrite (sub_elements_hmc_gen true pr sp f g E Hs Hp H a b), hmc_In. lia.
  Qed.

  Lemma sub_elements_hmc_decreasing (pr sp : list L) (f g : frame) E :
    StronglySorted gt E -> Permutation (keys f) (hmc (length pr)) ->
    subframe_from_probe_elements pr f E true = Some (sp, g) ->
    Permutation (keys g) (map swap (hmc (length E))).
  Proof.
    intros Hs Hp H. pose proof (sub_elements_subprobe P L _ _ _ _ _ H) as (_ & _ & Hng).
    apply NoDup_Permutation; [exact Hng|apply hmc_swap_NoDup|]. intros [a b].
    rewrite (sub_elements_hmc_gen false pr sp f g E Hs Hp H a b), in_map_swap.
    unfold swap. cbn [fst snd]. rewrite hmc_In. lia.
  Qed.

  (* ---- expansion of a half matrix ---- *)
  (* any half-matrix acquisition (rows in any order, either orientation) expands to rows in
     exactly the order of ut.fmc *)
  Lemma expand_half_matrix_keys (f g : frame) n :
    Permutation (keys f) (hmc n) \/ Permutation (keys f) (map swap (hmc n)) ->
    expand f = Some g -> keys g = fmc n.
  Proof.
    intros Hp Hg.
    assert (Hn : NoDup (keys f)).
    { destruct Hp as [Hp|Hp]; [exact (perm_keys_NoDup _ _ Hp (hmc_NoDup n))|exact (perm_keys_NoDup _ _ Hp (hmc_swap_NoDup n))]. }
    assert (Hmem : forall a b, In (a, b) (keys f) \/ In (swap (a, b)) (keys f) <-> a < n /\ b < n).
    { intros a b. unfold swap. cbn [fst snd]. destruct Hp as [Hp|Hp].
      - rewrite (Permutation_in' (eq_refl (a, b)) Hp), (Permutation_in' (eq_refl (b, a)) Hp), !hmc_In. lia.
      - rewrite (Permutation_in' (eq_refl (a, b)) Hp), (Permutation_in' (eq_refl (b, a)) Hp), !in_map_swap.
        unfold swap. cbn [fst snd]. rewrite !hmc_In. lia. }
    destruct (expand_full_spec P f Hn) as (g' & Hg' & Hng & Hk & Hc & Hs & _).
    rewrite Hg in Hg'. injection Hg' as <-.
    destruct (is_complete f) eqn:Ec.
    - (* already complete: only n <= 1 *)
      rewrite (Hc eq_refl). rewrite is_complete_spec in Ec.
      assert (Hn1 : n <= 1).
      { destruct (le_lt_dec n 1) as [|Hlt]; [assumption|]. exfalso.
        assert (H01 : In (0, 1) (keys f) /\ In (1, 0) (keys f)).
        { destruct (proj2 (Hmem 0 1) ltac:(lia)) as [H|H]; [split; [exact H|]; apply (Ec (0, 1)) in H; exact H|].
          unfold swap in H. cbn in H. split; [apply (Ec (0, 1)); exact H|exact H]. }
        destruct H01 as [H0 H1]. destruct Hp as [Hp|Hp].
        - apply (Permutation_in _ Hp), hmc_In in H1. lia.
        - apply (Permutation_in _ Hp), in_map_swap, hmc_In in H0. cbn in H0. lia. }
      destruct n as [|[|n]]; [| |lia].
      + change (fmc 0) with (@nil (nat * nat)).
        destruct Hp as [Hp|Hp]; [change (hmc 0) with (@nil (nat * nat)) in Hp|change (map swap (hmc 0)) with (@nil (nat * nat)) in Hp];
          apply Permutation_sym, Permutation_nil in Hp; exact Hp.
      + change (fmc 1) with [(0, 0)].
        destruct Hp as [Hp|Hp]; [change (hmc 1) with [(0, 0)] in Hp|change (map swap (hmc 1)) with [(0, 0)] in Hp];
          apply Permutation_sym, Permutation_length_1_inv in Hp; exact Hp.
    - apply sorted_unique; [apply Hs; reflexivity|apply fmc_strongly_sorted|].
      intros [a b]. rewrite Hk, fmc_In. apply Hmem.
  Qed.
End SubAperture.

(* ======================================================================================
   Frame.capture_method on the three-array frames *)
Section Capture2.
  Variable S L M X : Type.
  Notation frame2 := (frame2 S L M X).
  Notation wf := (wf S L M X).

  Lemma capture2_rows (F : frame2) : wf F -> capture_method2 F = infer_capture_method (keys (rows_of F)).
  Proof. intros Hwf. unfold capture_method2. rewrite (keys_rows_of S L M X F Hwf). reflexivity. Qed.

  (* the same frame with another metadata dictionary *)
  Definition with_meta (F : frame2) (m : M) : frame2 :=
    mkFrame2 (f_tt F) (f_ns F) (f_tx F) (f_rx F) (f_probe F) (f_exam F) m (f_ntt F).

  Definition rmap {A B} (h : A -> B) (r : res A) : res B := match r with Ok a => Ok (h a) | Err e => Err e end.

  Lemma init_core_meta tok ns tt ktx tx krx rx (pr : list L) (ex : X) (m m' : M) :
    init_core (S:=S) tok ns tt ktx tx krx rx pr ex m' =
    rmap (fun F' => with_meta F' m') (init_core tok ns tt ktx tx krx rx pr ex m).
  Proof.
    unfold init_core.
    repeat match goal with |- context [if ?c then _ else _] => destruct c; cbn [rmap]; try reflexivity end.
  Qed.

  Lemma reinit_meta (F : frame2) m tt tx rx pr :
    reinit (with_meta F m) tt tx rx pr = rmap (fun F' => with_meta F' m) (reinit F tt tx rx pr).
  Proof. unfold reinit. cbn [with_meta f_ns f_exam f_meta]. apply init_core_meta. Qed.

  Lemma rbind_rmap {A} (r : res A) (k1 k2 : A -> res frame2) m :
    (forall a, k1 a = rmap (fun F' => with_meta F' m) (k2 a)) ->
    rbind r k1 = rmap (fun F' => with_meta F' m) (rbind r k2).
  Proof. intros H. destruct r; cbn [rbind rmap]; [apply H|reflexivity]. Qed.

  Lemma subframe2_meta (F : frame2) m idx :
    subframe2 (with_meta F m) idx = rmap (fun F' => with_meta F' m) (subframe2 F idx).
  Proof.
    destruct idx as [k| | |]; cbn [subframe2 with_meta f_tt f_tx f_rx f_probe].
    - destruct (py_index (f_tt F) k); reflexivity.
    - repeat (apply rbind_rmap; intros ?). apply reinit_meta.
    - repeat (apply rbind_rmap; intros ?). apply reinit_meta.
    - repeat (apply rbind_rmap; intros ?). apply reinit_meta.
  Qed.

  (* the metadata dictionary is only carried along: no method reads it, none changes it.
     In particular a capture method DECLARED in the metadata has no influence on any result,
     and Frame.capture_method keeps reporting what tx / rx say *)
  Lemma step2_meta (o : op2 S) (F : frame2) m :
    step2 o (with_meta F m) = rmap (fun F' => with_meta F' m) (step2 o F).
  Proof.
    destruct o as [idx|idx mk| |filt]; cbn [step2].
    - apply subframe2_meta.
    - unfold sub_elements2. cbn [with_meta f_probe f_tx f_rx f_tt].
      apply rbind_rmap. intros E. destruct mk; cbn [negb].
      + destruct idx; try reflexivity; repeat (apply rbind_rmap; intros ?); apply reinit_meta.
      + apply subframe2_meta.
    - unfold expand2. cbn [with_meta f_probe]. unfold pairs_of. cbn [with_meta f_tx f_rx].
      destruct (set_eqb _ _); [reflexivity|].
      apply rbind_rmap. intros ?. apply reinit_meta.
    - unfold apply_filter2. cbn [with_meta f_tt f_tx f_rx f_probe]. apply reinit_meta.
  Qed.

  Lemma capture2_ignores_metadata (F : frame2) m : capture_method2 (with_meta F m) = capture_method2 F.
  Proof. reflexivity. Qed.

  Lemma run2_meta (ops : list (op2 S)) : forall (F : frame2) m,
    run2 ops (with_meta F m) = rmap (fun F' => with_meta F' m) (run2 ops F).
  Proof.
    induction ops as [|o ops IH]; intros F m; cbn [run2]; [reflexivity|].
    rewrite step2_meta. destruct (step2 o F) as [F1|e]; cbn [rmap rbind]; [apply IH|reflexivity].
  Qed.

  (* ---- sub-apertures ---- *)
  Lemma sub_elements2_abstract (F F' : frame2) idx E : wf F -> not_int idx ->
    np_positions idx (length (f_probe F)) = Some E -> sub_elements2 F idx true = Ok F' ->
    subframe_from_probe_elements (f_probe F) (rows_of F) E true = Some (f_probe F', rows_of F') /\ wf F'.
  Proof.
    intros Hwf Hni HE H.
    assert (Hrel : op_rel S L M X F (Op2Elements idx true) (OpElements E true)).
    { constructor; [intros _; exact Hni|]. rewrite (retained_elements_positions _ idx Hni), HE. reflexivity. }
    destruct (step2_sim S L M X F _ _ Hwf Hrel) as [Hsim Hinv]. cbn [step2 step] in *.
    rewrite H in Hsim. cbn [res_opt option_map abs_state fst snd] in Hsim.
    split; [symmetry; exact Hsim|]. apply (Hinv F' H).
  Qed.

  Lemma subprobe_length {A} (pr sp : list A) E : Frame.subprobe pr E = Some sp -> length sp = length E.
  Proof.
    intros H. apply subprobe_spec in H. induction H as [|e x E0 sp0 _ _ IH]; cbn [length]; [reflexivity|]. rewrite IH. reflexivity.
  Qed.

  (* full matrix: any duplicate-free selection of elements, in any order *)
  Lemma capture2_fmc_subaperture (F F' : frame2) idx E : wf F ->
    Permutation (pairs_of F) (fmc (length (f_probe F))) -> not_int idx ->
    np_positions idx (length (f_probe F)) = Some E -> NoDup E ->
    sub_elements2 F idx true = Ok F' ->
    Permutation (pairs_of F') (fmc (length (f_probe F'))) /\ length (f_probe F') = length E /\
    (2 <= length E -> capture_method2 F' = Some Fmc).
  Proof.
    intros Hwf Hp Hni HE HnE H. destruct (sub_elements2_abstract F F' idx E Hwf Hni HE H) as [Ha Hwf'].
    pose proof (sub_elements_subprobe _ _ _ _ _ _ _ Ha) as (Hsp & _ & _).
    pose proof (subprobe_length _ _ _ Hsp) as Hl.
    rewrite <- (keys_rows_of S L M X F Hwf) in Hp.
    pose proof (sub_elements_fmc _ _ _ _ _ _ E Hp HnE Ha) as Hq.
    rewrite (keys_rows_of S L M X F' Hwf') in Hq. rewrite Hl.
    split; [exact Hq|]. split; [reflexivity|]. intros H2. unfold capture_method2.
    apply (infer_recognises_fmc (length E)); assumption.
  Qed.

  (* half matrix: elements listed in increasing (resp. decreasing) order *)
  Lemma capture2_hmc_subaperture (F F' : frame2) idx E : wf F ->
    Permutation (pairs_of F) (hmc (length (f_probe F))) -> not_int idx ->
    np_positions idx (length (f_probe F)) = Some E ->
    sub_elements2 F idx true = Ok F' ->
    (StronglySorted lt E -> Permutation (pairs_of F') (hmc (length (f_probe F')))) /\
    (StronglySorted gt E -> Permutation (pairs_of F') (map swap (hmc (length (f_probe F'))))) /\
    length (f_probe F') = length E /\
    (StronglySorted lt E \/ StronglySorted gt E -> 1 <= length E -> capture_method2 F' = Some Hmc).
  Proof.
    intros Hwf Hp Hni HE H. destruct (sub_elements2_abstract F F' idx E Hwf Hni HE H) as [Ha Hwf'].
    pose proof (sub_elements_subprobe _ _ _ _ _ _ _ Ha) as (Hsp & _ & _).
    pose proof (subprobe_length _ _ _ Hsp) as Hl.
    rewrite <- (keys_rows_of S L M X F Hwf) in Hp. rewrite Hl.
    assert (H1 : StronglySorted lt E -> Permutation (pairs_of F') (hmc (length E))).
    { intros Hs. rewrite <- (keys_rows_of S L M X F' Hwf'). exact (sub_elements_hmc_increasing _ _ _ _ _ _ E Hs Hp Ha). }
    assert (H2 : StronglySorted gt E -> Permutation (pairs_of F') (map swap (hmc (length E)))).
    { intros Hs. rewrite <- (keys_rows_of S L M X F' Hwf'). exact (sub_elements_hmc_decreasing _ _ _ _ _ _ E Hs Hp Ha). }
    split; [exact H1|]. split; [exact H2|]. split; [reflexivity|].
    intros Hs Hlen. unfold capture_method2. apply (infer_recognises_hmc (length E)); [exact Hlen|].
    destruct Hs as [Hs|Hs]; [left; auto|right; auto].
  Qed.

  (* the two everyday index kinds list elements in increasing order *)
  Lemma capture2_hmc_mask (F F' : frame2) bs : wf F ->
    Permutation (pairs_of F) (hmc (length (f_probe F))) ->
    sub_elements2 F (IdxMask bs) true = Ok F' ->
    Permutation (pairs_of F') (hmc (length (f_probe F'))) /\
    (1 <= length (f_probe F') -> capture_method2 F' = Some Hmc).
  Proof.
    intros Hwf Hp H.
    destruct (np_positions (IdxMask bs) (length (f_probe F))) as [E|] eqn:HE.
    - destruct (mask_positions_sorted bs _ E HE) as [Hs _].
      destruct (capture2_hmc_subaperture F F' (IdxMask bs) E Hwf Hp I HE H) as (H1 & _ & Hl & H3).
      split; [auto|]. intros Hlen. apply H3; [left; exact Hs|lia].
    - pose proof (sub_elements2_mk S L M X F (IdxMask bs) Hwf I) as Hr. rewrite HE in Hr. congruence.
  Qed.

  Lemma capture2_hmc_slice (F F' : frame2) s e st : wf F ->
    Permutation (pairs_of F) (hmc (length (f_probe F))) ->
    sub_elements2 F (IdxSlice s e st) true = Ok F' ->
    1 <= length (f_probe F') -> capture_method2 F' = Some Hmc.
  Proof.
    intros Hwf Hp H Hlen.
    destruct (np_positions (IdxSlice s e st) (length (f_probe F))) as [E|] eqn:HE.
    - pose proof (slice_positions_sorted _ s e st E HE) as [Hpos Hneg]. cbn zeta in *.
      destruct (capture2_hmc_subaperture F F' (IdxSlice s e st) E Hwf Hp I HE H) as (_ & _ & Hl & H3).
      rewrite slice_positions in HE.
      destruct (slice_indices (Z.of_nat (length (f_probe F))) s e st) as [ks|] eqn:Ek; [|discriminate].
      destruct (slice_indices_form _ _ _ _ _ Ek) as (Hne & _). cbn zeta in Hne.
      apply H3; [|lia].
      destruct (Z.lt_trichotomy 0 (match st with None => 1%Z | Some x => x end)) as [H0|[H0|H0]];
        [left; auto|congruence|right; auto].
    - pose proof (sub_elements2_mk S L M X F (IdxSlice s e st) Hwf I) as Hr. rewrite HE in Hr. congruence.
  Qed.

  (* ---- expansion ---- *)
  Lemma expand2_total (F : frame2) : wf F -> exists F', expand2 F = Ok F' /\ wf F' /\
    expand (rows_of F) = Some (rows_of F') /\ f_probe F' = f_probe F.
  Proof.
    intros Hwf. destruct (step2_sim S L M X F Op2Expand OpExpand Hwf (RExp S L M X F)) as [Hsim Hinv].
    cbn [step2 step abs_state fst snd] in *.
    destruct (expand_total (list S) (rows_of F)) as [g Hg]. rewrite Hg in Hsim.
    destruct (expand2 F) as [F'|e]; cbn [res_opt option_map] in Hsim; [|discriminate].
    exists F'. injection Hsim as Hpr Hrows. split; [reflexivity|]. split; [apply (Hinv F' eq_refl)|].
    split; [congruence|exact Hpr].
  Qed.

  (* a half matrix (any row order, either orientation) expands, without raising, to a frame
     whose tx / rx are exactly those of ut.fmc, reported as FMC *)
  Lemma capture2_expand_hmc (F : frame2) n : wf F ->
    Permutation (pairs_of F) (hmc n) \/ Permutation (pairs_of F) (map swap (hmc n)) ->
    exists F', expand2 F = Ok F' /\ wf F' /\ pairs_of F' = fmc n /\
               (2 <= n -> capture_method2 F' = Some Fmc) /\
               (forall k p, In (k, p) (rows_of F') ->
                  In (k, p) (rows_of F) \/ (~ In k (pairs_of F) /\ In (swap k, p) (rows_of F))).
  Proof.
    intros Hwf Hp. destruct (expand2_total F Hwf) as (F' & HF' & Hwf' & Hex & _).
    exists F'. split; [exact HF'|]. split; [exact Hwf'|].
    rewrite <- (keys_rows_of S L M X F Hwf) in Hp.
    pose proof (expand_half_matrix_keys _ _ _ n Hp Hex) as Hk.
    rewrite (keys_rows_of S L M X F' Hwf') in Hk. split; [exact Hk|]. split.
    - intros Hn. unfold capture_method2. rewrite Hk. apply infer_fmc_self. exact Hn.
    - intros k p Hin. destruct (expand_src _ _ _ Hex (k, p) Hin) as [H|[H1 H2]]; [left; exact H|right].
      rewrite (keys_rows_of S L M X F Hwf) in H1. split; assumption.
  Qed.
End Capture2.

(* ======================================================================================
   the probe of a frame as a real Probe object (Model/ProbeOps.v, C16): Probe.subprobe on
   the whole object IS the indexing of the list of per-element attribute tuples *)
Lemma nth_error_repeat_lt {A} (x : A) n i : i < n -> nth_error (repeat x n) i = Some x.
Proof. revert i. induction n as [|n IH]; intros [|i] H; cbn; try lia; [reflexivity|]. apply IH. lia. Qed.

Lemma np_take_repeat {A} idx (x : A) n :
  np_take idx (repeat x n) = option_map (fun ps => repeat x (length ps)) (np_positions idx n).
Proof.
  rewrite np_take_by_positions, repeat_length.
  destruct (np_positions idx n) as [ps|] eqn:E; cbn [option_map]; [|reflexivity].
  pose proof (np_positions_in_range idx n ps E) as Hr. clear E.
  induction Hr as [|i ps Hi _ IH]; cbn [mapM length repeat]; [reflexivity|].
  rewrite (nth_error_repeat_lt x n i Hi), IH. reflexivity.
Qed.

Lemma spread_length {A} n (o : option (list A)) : opt_len n o -> length (spread n o) = n.
Proof. destruct o as [l|]; cbn [spread opt_len]; [intros <-; apply map_length|intros _; apply repeat_length]. Qed.

Lemma np_take_spread {A} idx n (o : option (list A)) : opt_len n o ->
  np_take idx (spread n o) =
  option_map (fun ps => spread (length ps) (option_map (take_or_nil idx) o)) (np_positions idx n).
Proof.
  destruct o as [l|]; cbn [spread opt_len option_map].
  - intros Hl. rewrite np_take_map. unfold np_positions.
    pose proof (np_take_same_length idx (seq 0 n) l ltac:(rewrite seq_length; lia)) as H.
    unfold take_or_nil. destruct (np_take idx (seq 0 n)) as [ps|]; destruct (np_take idx l) as [r|];
      try contradiction; reflexivity.
  - intros _. apply np_take_repeat.
Qed.

Section ProbeObject.
  Context {T : Type} (N : Num T).

  Lemma subprobe_object_elems (n : nat) (idx : np_idx) (sm : bool) (px px' : probe_x (T:=T)) :
    wf_len n px -> ProbeOps.subprobe N idx sm px = Some px' ->
    np_take idx (probe_elems px) = Some (probe_elems px') /\
    p_pcs (x_core px') = p_pcs (x_core px) /\ x_freq px' = x_freq px /\ x_bw px' = x_bw px /\
    x_meta px' = (if sm then x_meta px else []) /\
    x_numel px' = Z.of_nat (length (probe_elems px')) /\
    wf_len (length (probe_elems px')) px'.
  Proof.
    intros Hwf H. rewrite (subprobe_spec_gen N n idx sm px Hwf) in H.
    destruct Hwf as (Hl & Ho & Hd & Hs & Hdd & Hnum).
    destruct (np_take idx (p_locs (x_core px))) as [locs|] eqn:El; [|discriminate].
    injection H as <-.
    pose proof (np_take_same_length idx (seq 0 n) (p_locs (x_core px)) ltac:(rewrite seq_length; lia)) as Hps.
    fold (np_positions idx n) in Hps. rewrite El in Hps.
    destruct (np_positions idx n) as [ps|] eqn:Eps; [|contradiction].
    pose proof (np_take_same_length idx (p_locs (x_core px)) (x_dead px) ltac:(lia)) as Hdd'.
    rewrite El in Hdd'. destruct (np_take idx (x_dead px)) as [dd|] eqn:Edd; [|contradiction].
    assert (Et : take_or_nil idx (x_dead px) = dd) by (unfold take_or_nil; rewrite Edd; reflexivity).
    assert (Hlo : opt_len (length locs) (option_map (take_or_nil idx) (p_oris (x_core px)))).
    { rewrite <- Hl in Ho. exact (proj2 (take_opt_len idx _ locs _ El Ho)). }
    assert (Hld : opt_len (length locs) (option_map (take_or_nil idx) (x_dims px))).
    { rewrite <- Hl in Hd. exact (proj2 (take_opt_len idx _ locs _ El Hd)). }
    assert (Hls : opt_len (length locs) (option_map (take_or_nil idx) (x_shapes px))).
    { rewrite <- Hl in Hs. exact (proj2 (take_opt_len idx _ locs _ El Hs)). }
    assert (Hlen' : length (probe_elems
               {| x_core := {| p_locs := locs; p_oris := option_map (take_or_nil idx) (p_oris (x_core px)); p_pcs := p_pcs (x_core px) |};
                  x_dims := option_map (take_or_nil idx) (x_dims px);
                  x_shapes := option_map (take_or_nil idx) (x_shapes px);
                  x_dead := take_or_nil idx (x_dead px); x_freq := x_freq px; x_bw := x_bw px;
                  x_meta := if sm then x_meta px else []; x_numel := Z.of_nat (length locs) |}) = length locs).
    { unfold probe_elems, elem_attr. cbn [x_core x_dims x_shapes x_dead p_locs p_oris].
      rewrite !combine_length, !spread_length by assumption. rewrite Et, <- Hdd', !Nat.min_id. reflexivity. }
    split; [|rewrite Hlen'; unfold wf_len; cbn [x_core p_pcs p_locs p_oris x_dims x_shapes x_dead x_freq x_bw x_meta x_numel];
              rewrite Et; repeat split; try assumption; lia].
    unfold probe_elems, elem_attr. cbn [x_core x_dims x_shapes x_dead p_locs p_oris]. rewrite Hl.
    assert (L4 : length (combine (spread n (x_shapes px)) (x_dead px)) = n)
      by (rewrite combine_length, spread_length, Hdd by assumption; apply Nat.min_id).
    assert (L3 : length (combine (spread n (x_dims px)) (combine (spread n (x_shapes px)) (x_dead px))) = n)
      by (rewrite combine_length, spread_length, L4 by assumption; apply Nat.min_id).
    assert (L2 : length (combine (spread n (p_oris (x_core px)))
                   (combine (spread n (x_dims px)) (combine (spread n (x_shapes px)) (x_dead px)))) = n)
      by (rewrite combine_length, spread_length, L3 by assumption; apply Nat.min_id).
    rewrite np_take_combine by congruence.
    rewrite El.
    rewrite np_take_combine by (rewrite spread_length by assumption; congruence).
    rewrite (np_take_spread idx n _ Ho), Eps. cbn [option_map].
    rewrite np_take_combine by (rewrite spread_length by assumption; congruence).
    rewrite (np_take_spread idx n _ Hd), Eps. cbn [option_map].
    rewrite np_take_combine by (rewrite spread_length by assumption; congruence).
    rewrite (np_take_spread idx n _ Hs), Eps. cbn [option_map].
    rewrite Edd, Et, Hps. reflexivity.
  Qed.

  (* and it raises exactly when the index raises on an axis of numelements entries *)
  Lemma subprobe_object_raises (n : nat) (idx : np_idx) (sm : bool) (px : probe_x (T:=T)) :
    wf_len n px -> (ProbeOps.subprobe N idx sm px = None <-> np_positions idx n = None).
  Proof.
    intros Hwf. rewrite (subprobe_spec_gen N n idx sm px Hwf). destruct Hwf as (Hl & _).
    pose proof (np_take_same_length idx (seq 0 n) (p_locs (x_core px)) ltac:(rewrite seq_length; lia)) as Hps.
    fold (np_positions idx n) in Hps.
    destruct (np_positions idx n); destruct (np_take idx (p_locs (x_core px))); try contradiction;
      split; congruence.
  Qed.
End ProbeObject.
