(* Proofs/Vec3Proofs.v — facts about Model/Vec3.v over the reals (NumR), and the
   tactics used by the geometry proofs (C17; reusable by C05/C16). *)
From Coq Require Import List Reals Lra Lia ZArith Nsatz.
From Arim Require Import Base.Num Base.NumR Model.Vec3.
Local Open Scope R_scope.

(* destruct every real vector / matrix of the context into its components *)
Ltac v3_destruct :=
  repeat match goal with
  | m : mat3 R |- _ => destruct m as [[[[? ?] ?] [[? ?] ?]] [[? ?] ?]]
  | v : vec3 R |- _ => destruct v as [[? ?] ?]
  end.
(* unfold the Vec3 vocabulary down to Rplus/Rmult *)
Ltac v3_unfold :=
  unfold proper_rotation, orthonormal, rows_orthonormal, cols_orthonormal, mmul, mtvec, mvec,
         mtrans, mcol0, mcol1, mcol2, mid3, mdet, vnorm2, vdist, vnorm, vcross, vdot, vadd,
         vsub, vopp, vscale, vzero, mrow0, mrow1, mrow2, vx, vy, vz in *;
  cbn [fst snd NumR n0 n1 nadd nsub nmul ndiv nopp nsqrt] in *.
(* split equalities of tuples in the context into component equalities *)
Ltac v3_eqs :=
  repeat match goal with
  | H : (_, _) = (_, _) |- _ => injection H as ? ?
  end.
(* split a goal between tuples into its component goals *)
Ltac v3_split := repeat match goal with |- (_, _) = (_, _) => apply (f_equal2 pair) end.
Ltac v3_start := v3_destruct; v3_unfold; v3_eqs.

(* ---- orthonormal matrices ------------------------------------------------ *)
Lemma rows_to_cols (m : mat3 R) : rows_orthonormal NumR m -> cols_orthonormal NumR m.
Proof. intros H. v3_start. v3_split; nsatz. Qed.

Lemma cols_to_rows (m : mat3 R) : cols_orthonormal NumR m -> rows_orthonormal NumR m.
Proof. intros H. v3_start. v3_split; nsatz. Qed.

Lemma orthonormal_of_rows (m : mat3 R) : rows_orthonormal NumR m -> orthonormal NumR m.
Proof. intros H. split; [exact H | exact (rows_to_cols m H)]. Qed.

Lemma orthonormal_of_cols (m : mat3 R) : cols_orthonormal NumR m -> orthonormal NumR m.
Proof. intros H. split; [exact (cols_to_rows m H) | exact H]. Qed.

Lemma mtrans_involutive (m : mat3 R) : mtrans (mtrans m) = m.
Proof. v3_start. reflexivity. Qed.

Lemma orthonormal_trans (m : mat3 R) : orthonormal NumR m -> orthonormal NumR (mtrans m).
Proof.
  intros [Hr Hc]. unfold orthonormal, rows_orthonormal, cols_orthonormal in *.
  rewrite mtrans_involutive. split; assumption.
Qed.

(* rows orthonormal, spelled out *)
Lemma rows_orthonormal_iff (a b c : vec3 R) :
  rows_orthonormal NumR (a, b, c) <->
  vdot NumR a a = 1 /\ vdot NumR b b = 1 /\ vdot NumR c c = 1 /\
  vdot NumR a b = 0 /\ vdot NumR a c = 0 /\ vdot NumR b c = 0.
Proof.
  split.
  - intros H. v3_start. repeat split; nsatz.
  - intros (H1 & H2 & H3 & H4 & H5 & H6). v3_start. v3_split; nsatz.
Qed.

(* ---- M and M^T as maps ---------------------------------------------------- *)
Lemma mvec_mtvec (m : mat3 R) (v : vec3 R) : rows_orthonormal NumR m -> mvec NumR m (mtvec NumR m v) = v.
Proof. intros H. v3_start. v3_split; nsatz. Qed.

Lemma mtvec_mvec (m : mat3 R) (v : vec3 R) : cols_orthonormal NumR m -> mtvec NumR m (mvec NumR m v) = v.
Proof. intros H. v3_start. v3_split; nsatz. Qed.

Lemma mvec_norm2 (m : mat3 R) (v : vec3 R) : cols_orthonormal NumR m -> vnorm2 NumR (mvec NumR m v) = vnorm2 NumR v.
Proof. intros H. v3_start. nsatz. Qed.

Lemma mtvec_norm2 (m : mat3 R) (v : vec3 R) : rows_orthonormal NumR m -> vnorm2 NumR (mtvec NumR m v) = vnorm2 NumR v.
Proof. intros H. v3_start. nsatz. Qed.

Lemma mvec_dot (m : mat3 R) (v w : vec3 R) : cols_orthonormal NumR m ->
  vdot NumR (mvec NumR m v) (mvec NumR m w) = vdot NumR v w.
Proof. intros H. v3_start. nsatz. Qed.

Lemma mvec_sub (m : mat3 R) (v w : vec3 R) : mvec NumR m (vsub NumR v w) = vsub NumR (mvec NumR m v) (mvec NumR m w).
Proof. v3_start. v3_split; ring. Qed.

Lemma mtvec_sub (m : mat3 R) (v w : vec3 R) : mtvec NumR m (vsub NumR v w) = vsub NumR (mtvec NumR m v) (mtvec NumR m w).
Proof. v3_start. v3_split; ring. Qed.

Lemma mtvec_is_mvec_trans (m : mat3 R) (v : vec3 R) : mtvec NumR m v = mvec NumR (mtrans m) v.
Proof. v3_start. reflexivity. Qed.

Lemma vsub_vadd_cancel (a b : vec3 R) : vsub NumR (vadd NumR a b) b = a.
Proof. v3_start. v3_split; ring. Qed.

Lemma vadd_vsub_cancel (a b : vec3 R) : vadd NumR (vsub NumR a b) b = a.
Proof. v3_start. v3_split; ring. Qed.

Lemma vsub_vadd_same (a b o : vec3 R) : vsub NumR (vadd NumR a o) (vadd NumR b o) = vsub NumR a b.
Proof. v3_start. v3_split; ring. Qed.

Lemma vsub_vsub_same (a b o : vec3 R) : vsub NumR (vsub NumR a o) (vsub NumR b o) = vsub NumR a b.
Proof. v3_start. v3_split; ring. Qed.

Lemma vadd_vopp (a b : vec3 R) : vadd NumR a (vopp NumR b) = vsub NumR a b.
Proof. v3_start. v3_split; ring. Qed.

Lemma vnorm2_nonneg (a : vec3 R) : 0 <= vnorm2 NumR a.
Proof. v3_start. nra. Qed.

(* ---- determinant ----------------------------------------------------------- *)
Lemma det_orthonormal_sq (m : mat3 R) : rows_orthonormal NumR m -> mdet NumR m * mdet NumR m = 1.
Proof. intros H. v3_start. nsatz. Qed.

Lemma mdet_trans (m : mat3 R) : mdet NumR (mtrans m) = mdet NumR m.
Proof. v3_start. ring. Qed.

Lemma mdet_mmul (a b : mat3 R) : mdet NumR (mmul NumR a b) = mdet NumR a * mdet NumR b.
Proof. v3_start. ring. Qed.

(* ---- frames built from two orthonormal vectors and their cross product ----- *)
Lemma cross_frame (i j : vec3 R) :
  vdot NumR i i = 1 -> vdot NumR j j = 1 -> vdot NumR i j = 0 ->
  proper_rotation NumR (i, j, vcross NumR i j).
Proof.
  intros Hi Hj Hij.
  assert (Hr : rows_orthonormal NumR (i, j, vcross NumR i j)).
  { v3_start. v3_split; nsatz. }
  split; [exact (orthonormal_of_rows _ Hr)|].
  v3_start. nsatz.
Qed.

(* a proper rotation has its third row equal to the cross product of the first two *)
Lemma proper_third_row (a b c : vec3 R) : proper_rotation NumR (a, b, c) -> c = vcross NumR a b.
Proof.
  intros [[Hr _] Hd]. v3_start. v3_split; nsatz.
Qed.

(* ---- matrix algebra ---------------------------------------------------------- *)
Lemma mmul_assoc (a b c : mat3 R) : mmul NumR (mmul NumR a b) c = mmul NumR a (mmul NumR b c).
Proof. v3_start. v3_split; ring. Qed.
Lemma mtrans_mmul (a b : mat3 R) : mtrans (mmul NumR a b) = mmul NumR (mtrans b) (mtrans a).
Proof. v3_start. v3_split; ring. Qed.
Lemma mmul_id_l (a : mat3 R) : mmul NumR (mid3 NumR) a = a.
Proof. v3_start. v3_split; ring. Qed.
Lemma mmul_id_r (a : mat3 R) : mmul NumR a (mid3 NumR) = a.
Proof. v3_start. v3_split; ring. Qed.
Lemma mvec_mmul (a b : mat3 R) (v : vec3 R) : mvec NumR (mmul NumR a b) v = mvec NumR a (mvec NumR b v).
Proof. v3_start. v3_split; ring. Qed.

Lemma mmul_rows_orthonormal (a b : mat3 R) :
  rows_orthonormal NumR a -> rows_orthonormal NumR b -> rows_orthonormal NumR (mmul NumR a b).
Proof.
  unfold rows_orthonormal. intros Ha Hb.
  rewrite mtrans_mmul, mmul_assoc, <- (mmul_assoc b), Hb, mmul_id_l. exact Ha.
Qed.

Lemma mmul_proper (a b : mat3 R) :
  proper_rotation NumR a -> proper_rotation NumR b -> proper_rotation NumR (mmul NumR a b).
Proof.
  intros [[Ha _] Da] [[Hb _] Db]. split.
  - apply orthonormal_of_rows, mmul_rows_orthonormal; assumption.
  - rewrite mdet_mmul, Da, Db. cbn [NumR n1]. ring.
Qed.

Lemma mtrans_proper (a : mat3 R) : proper_rotation NumR a -> proper_rotation NumR (mtrans a).
Proof. intros [Ho Hd]. split; [apply orthonormal_trans; exact Ho | rewrite mdet_trans; exact Hd]. Qed.
