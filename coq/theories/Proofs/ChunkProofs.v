(* Proofs/ChunkProofs.v — lemmas about Model/Chunk.v (C13, C08). Axiom-free. *)
From Coq Require Import Arith List Bool Lia Permutation ZArith ZifyNat.
From Arim Require Import Model.Chunk.
Import ListNotations.
Ltac Zify.zify_post_hook ::= Z.to_euclidean_division_equations.

(* ---------- generic list facts -------------------------------------- *)
Lemma NoDup_app_intro {A} (l1 l2 : list A) :
  NoDup l1 -> NoDup l2 -> (forall x, In x l1 -> ~ In x l2) -> NoDup (l1 ++ l2).
Proof.
  induction l1 as [|a l1 IH]; intros H1 H2 Hd; simpl; auto.
  inversion H1 as [|? ? Hna Hnd]; subst. constructor.
  - rewrite in_app_iff. intros [H|H]; [contradiction|]. apply (Hd a); simpl; auto.
  - apply IH; auto. intros x Hx. apply Hd. simpl; auto.
Qed.

Lemma NoDup_app_inv {A} (l1 l2 : list A) :
  NoDup (l1 ++ l2) -> NoDup l1 /\ NoDup l2 /\ (forall x, In x l1 -> ~ In x l2).
Proof.
  induction l1 as [|a l1 IH]; simpl; intros H.
  - repeat split; auto. constructor.
  - inversion H as [|? ? Hna Hnd]; subst. destruct (IH Hnd) as (H1 & H2 & H3).
    repeat split; auto.
    + constructor; auto. intro Hin. apply Hna. apply in_or_app; auto.
    + intros x [Hx|Hx] Hin; subst.
      * apply Hna. apply in_or_app; auto.
      * apply (H3 x Hx Hin).
Qed.

Lemma list_prod_app_l {A B} (l1 l2 : list A) (l' : list B) :
  list_prod (l1 ++ l2) l' = list_prod l1 l' ++ list_prod l2 l'.
Proof. induction l1 as [|a l1 IH]; simpl; auto. rewrite IH, app_assoc. reflexivity. Qed.

Lemma list_prod_app_r_perm {A B} (l : list A) (l1 l2 : list B) :
  Permutation (list_prod l (l1 ++ l2)) (list_prod l l1 ++ list_prod l l2).
Proof.
  induction l as [|a l IH]; simpl; auto.
  rewrite map_app. rewrite <- !app_assoc. apply Permutation_app_head.
  rewrite IH. rewrite !app_assoc. apply Permutation_app_tail. apply Permutation_app_comm.
Qed.

Lemma flat_map_prod_perm {R C X Y} (f : R -> list X) (g : C -> list Y) (Rs : list R) (Cs : list C) :
  Permutation (flat_map (fun rc => list_prod (f (fst rc)) (g (snd rc))) (list_prod Rs Cs))
              (list_prod (flat_map f Rs) (flat_map g Cs)).
Proof.
  induction Rs as [|r Rs IH]; simpl; auto.
  rewrite flat_map_app, list_prod_app_l. apply Permutation_app; auto.
  clear IH. induction Cs as [|c Cs IHc]; simpl.
  - clear. induction (f r); simpl; auto.
  - rewrite list_prod_app_r_perm. apply Permutation_app_head. exact IHc.
Qed.

Lemma NoDup_list_prod {A B} (l : list A) (l' : list B) :
  NoDup l -> NoDup l' -> NoDup (list_prod l l').
Proof.
  induction l as [|a l IH]; intros H H'; simpl; [constructor|].
  inversion H as [|? ? Hna Hnd]; subst. apply NoDup_app_intro.
  - apply FinFun.Injective_map_NoDup; auto. intros x y E. congruence.
  - auto.
  - intros [x y] Hin Hin2. apply in_map_iff in Hin as (y' & E & _). inversion E; subst.
    apply in_prod_iff in Hin2 as [Hx _]. contradiction.
Qed.

(* ---------- ceil_div -------------------------------------------------- *)
Lemma ceil_div_spec a b : 1 <= b -> a <= ceil_div a b * b /\ ceil_div a b * b < a + b.
Proof. unfold ceil_div. intros Hb. nia. Qed.

Lemma ceil_div_pos a b : 1 <= b -> 1 <= a -> 1 <= ceil_div a b.
Proof. intros Hb Ha. pose proof (ceil_div_spec a b Hb). nia. Qed.

(* ---------- 1-D chunks ------------------------------------------------ *)
Lemma range_of_chunk len b k :
  range_of (chunk len b k) = seq (Nat.min (k * b) len) (Nat.min ((k + 1) * b) len - Nat.min (k * b) len).
Proof. reflexivity. Qed.

Lemma chunks_prefix len b k :
  flat_map range_of (map (chunk len b) (seq 0 k)) = seq 0 (Nat.min (k * b) len).
Proof.
  induction k as [|k IH].
  - reflexivity.
  - rewrite seq_S, map_app, flat_map_app, IH. simpl map. simpl flat_map. rewrite app_nil_r.
    rewrite range_of_chunk.
    set (A := Nat.min (k * b) len). set (B := Nat.min ((k + 1) * b) len).
    assert (HAB : A <= B) by (unfold A, B; nia).
    replace (S k * b) with ((k + 1) * b) by lia. fold B.
    assert (E : seq 0 B = seq 0 A ++ seq A (B - A)).
    { replace B with (A + (B - A)) at 1 by lia. rewrite seq_app. reflexivity. }
    rewrite E. reflexivity.
Qed.

(* the slices are ordered, pairwise disjoint and cover [0, len): their
   concatenation is exactly 0,1,...,len-1 *)
Lemma chunks_concat len b : 1 <= b -> flat_map range_of (chunks len b) = seq 0 len.
Proof.
  intros Hb. unfold chunks. rewrite chunks_prefix. f_equal.
  pose proof (ceil_div_spec len b Hb). unfold numchunks. lia.
Qed.

Lemma chunks_length len b : length (chunks len b) = ceil_div len b.
Proof. unfold chunks. rewrite map_length, seq_length. reflexivity. Qed.

Lemma chunk_In len b k i :
  In i (range_of (chunk len b k)) <-> k * b <= i < (k + 1) * b /\ i < len.
Proof. rewrite range_of_chunk, in_seq. lia. Qed.

Lemma chunk_unique len b k i : 1 <= b ->
  In i (range_of (chunk len b k)) -> k = i / b.
Proof. intros Hb H. apply chunk_In in H. nia. Qed.

Lemma chunk_nonempty len b k : 1 <= b -> k < numchunks len b ->
  fst (chunk len b k) < snd (chunk len b k) /\ snd (chunk len b k) - fst (chunk len b k) <= b.
Proof.
  intros Hb Hk. unfold numchunks in Hk. pose proof (ceil_div_spec len b Hb). simpl. nia.
Qed.

(* every block but the last is full *)
Lemma chunk_full len b k : 1 <= b -> S k < numchunks len b ->
  snd (chunk len b k) - fst (chunk len b k) = b.
Proof.
  intros Hb Hk. unfold numchunks in Hk. pose proof (ceil_div_spec len b Hb). simpl. nia.
Qed.

(* ---------- 2-D tiles -------------------------------------------------- *)
Lemma tiles_perm n p b1 b2 : 1 <= b1 -> 1 <= b2 ->
  Permutation (flat_map tile_cells (tiles n p b1 b2)) (list_prod (seq 0 n) (seq 0 p)).
Proof.
  intros H1 H2. unfold tiles, tile_cells.
  rewrite (flat_map_prod_perm range_of range_of). rewrite !chunks_concat by assumption. reflexivity.
Qed.

Lemma tiles_NoDup n p b1 b2 : 1 <= b1 -> 1 <= b2 ->
  NoDup (flat_map tile_cells (tiles n p b1 b2)).
Proof.
  intros H1 H2. eapply Permutation_NoDup; [apply Permutation_sym, tiles_perm; assumption|].
  apply NoDup_list_prod; apply seq_NoDup.
Qed.

Lemma tiles_cover n p b1 b2 i j : 1 <= b1 -> 1 <= b2 ->
  In (i, j) (flat_map tile_cells (tiles n p b1 b2)) <-> i < n /\ j < p.
Proof.
  intros H1 H2. split.
  - intros H. apply (Permutation_in _ (tiles_perm n p b1 b2 H1 H2)) in H.
    apply in_prod_iff in H. rewrite !in_seq in H. lia.
  - intros [Hi Hj]. apply (Permutation_in _ (Permutation_sym (tiles_perm n p b1 b2 H1 H2))).
    apply in_prod_iff. rewrite !in_seq. lia.
Qed.

Lemma tiles_length n p b1 b2 : length (tiles n p b1 b2) = ceil_div n b1 * ceil_div p b2.
Proof. unfold tiles. etransitivity; [apply prod_length|]. rewrite !chunks_length. reflexivity. Qed.

Lemma prange_perm n : flat_map tile_cells (prange_tiles n) = map (fun p => (p, 0)) (seq 0 n).
Proof.
  unfold prange_tiles. induction (seq 0 n) as [|a l IH]; simpl; auto.
  rewrite IH. unfold tile_cells, range_of. simpl.
  replace (a + 1 - a) with 1 by lia. reflexivity.
Qed.

Lemma prange_NoDup n : NoDup (flat_map tile_cells (prange_tiles n)).
Proof.
  rewrite prange_perm. apply FinFun.Injective_map_NoDup; [|apply seq_NoDup].
  intros x y E. congruence.
Qed.

Definition cell_eq_dec (x y : nat * nat) : {x = y} + {x <> y}.
Proof. decide equality; apply Nat.eq_dec. Defined.

(* ---------- execution -------------------------------------------------- *)
Section ExecProofs.
  Variable V : Type.
  Implicit Types (a : arr V) (t : task V) (ts : list (task V)).

  Lemma upd_same a c v : upd a c v (fst c) (snd c) = v.
  Proof. unfold upd. rewrite !Nat.eqb_refl. reflexivity. Qed.

  Lemma upd_other a c v i j : (i, j) <> c -> upd a c v i j = a i j.
  Proof.
    unfold upd. intros H. destruct (Nat.eqb_spec i (fst c)); destruct (Nat.eqb_spec j (snd c)); simpl; auto.
    exfalso. apply H. destruct c; simpl in *; subst; reflexivity.
  Qed.

  Lemma run_cells_notin (f : nat -> nat -> V) cs a i j :
    ~ In (i, j) cs -> fold_left (fun a c => upd a c (f (fst c) (snd c))) cs a i j = a i j.
  Proof.
    revert a. induction cs as [|c cs IH]; simpl; intros a H; auto.
    rewrite IH by tauto. apply upd_other. intro E. apply H. left. congruence.
  Qed.

  Lemma run_cells_in (f : nat -> nat -> V) cs a i j :
    In (i, j) cs -> fold_left (fun a c => upd a c (f (fst c) (snd c))) cs a i j = f i j.
  Proof.
    revert a. induction cs as [|c cs IH]; simpl; intros a H; [contradiction|].
    destruct (in_dec cell_eq_dec (i, j) cs) as [Hin|Hnin].
    - apply IH; assumption.
    - destruct H as [E|H]; [|contradiction]. rewrite run_cells_notin by assumption.
      subst c. simpl. unfold upd. simpl. rewrite !Nat.eqb_refl. reflexivity.
  Qed.

  Lemma run_task_notin t a i j : ~ In (i, j) (t_cells t) -> run_task a t i j = a i j.
  Proof. apply run_cells_notin. Qed.

  Lemma run_task_in t a i j : In (i, j) (t_cells t) -> run_task a t i j = t_val t i j.
  Proof. apply run_cells_in. Qed.

  Lemma run_notin ts a i j :
    ~ In (i, j) (flat_map t_cells ts) -> run ts a i j = a i j.
  Proof.
    revert a. induction ts as [|t ts IH]; simpl; intros a H; auto.
    rewrite in_app_iff in H. unfold run in *. simpl. rewrite IH by tauto.
    apply run_task_notin. tauto.
  Qed.

  (* with pairwise-disjoint write sets, the cell (i,j) ends up holding the value
     written by the one task that owns it *)
  Lemma run_in ts a t i j :
    NoDup (flat_map t_cells ts) -> In t ts -> In (i, j) (t_cells t) ->
    run ts a i j = t_val t i j.
  Proof.
    revert a. induction ts as [|t0 ts IH]; simpl; intros a Hnd Ht Hc; [contradiction|].
    apply NoDup_app_inv in Hnd as (Hnd0 & Hnd1 & Hdisj).
    unfold run in *. simpl. destruct Ht as [E|Ht].
    - subst t0. change (run ts (run_task a t) i j = t_val t i j).
      rewrite run_notin by (apply Hdisj; assumption). apply run_task_in; assumption.
    - apply IH; assumption.
  Qed.

  Theorem run_permutation ts ts' a i j :
    NoDup (flat_map t_cells ts) -> Permutation ts ts' -> run ts a i j = run ts' a i j.
  Proof.
    intros Hnd Hp.
    assert (Hnd' : NoDup (flat_map t_cells ts')).
    { eapply Permutation_NoDup; [|exact Hnd]. apply Permutation_flat_map; assumption. }
    destruct (in_dec cell_eq_dec (i, j) (flat_map t_cells ts)) as [Hin|Hnin].
    - apply in_flat_map in Hin as (t & Ht & Hc).
      rewrite (run_in ts a t i j Hnd Ht Hc).
      symmetry. apply run_in; auto. eapply Permutation_in; eauto.
    - rewrite run_notin by assumption. symmetry. apply run_notin.
      intro H. apply Hnin. eapply Permutation_in; [|exact H].
      apply Permutation_flat_map. apply Permutation_sym. assumption.
  Qed.

  Lemma tasks_of_cells (f : nat -> nat -> V) tl :
    flat_map t_cells (tasks_of f tl) = flat_map tile_cells tl.
  Proof. unfold tasks_of. induction tl as [|t tl IH]; simpl; auto. rewrite IH. reflexivity. Qed.

  Lemma run_tasks_of (f : nat -> nat -> V) tl a i j :
    NoDup (flat_map tile_cells tl) ->
    run (tasks_of f tl) a i j = if in_dec cell_eq_dec (i, j) (flat_map tile_cells tl)
                                then f i j else a i j.
  Proof.
    intros Hnd. destruct (in_dec _ _ _) as [Hin|Hnin].
    - rewrite <- (tasks_of_cells f) in Hin, Hnd.
      apply in_flat_map in Hin as (t & Ht & Hc).
      rewrite (run_in _ a t i j Hnd Ht Hc).
      unfold tasks_of in Ht. apply in_map_iff in Ht as (tt & E & _). subst t. reflexivity.
    - apply run_notin. rewrite tasks_of_cells. assumption.
  Qed.

  Lemma run_tiles (f : nat -> nat -> V) n p b1 b2 ts' a i j :
    1 <= b1 -> 1 <= b2 ->
    Permutation (tasks_of f (tiles n p b1 b2)) ts' ->
    run ts' a i j = if (i <? n) && (j <? p) then f i j else a i j.
  Proof.
    intros H1 H2 Hp.
    rewrite <- (run_permutation _ _ a i j) with (2 := Hp)
      by (rewrite tasks_of_cells; apply tiles_NoDup; assumption).
    rewrite run_tasks_of by (apply tiles_NoDup; assumption).
    destruct (in_dec _ _ _) as [Hin|Hnin].
    - apply tiles_cover in Hin as [Hi Hj]; try assumption.
      apply Nat.ltb_lt in Hi, Hj. rewrite Hi, Hj. reflexivity.
    - destruct (Nat.ltb_spec i n); destruct (Nat.ltb_spec j p); simpl; try reflexivity.
      exfalso. apply Hnin. apply tiles_cover; auto.
  Qed.
End ExecProofs.
