(* Proofs/FrameOps2Proofs.v — C15, lemmas about Model/FrameOps2.v (axiom-free):
   A. numpy index expressions as lists of positions (coherence of the three uses of one
      index; slices, masks, integer lists);
   B. Frame.__init__: the checks, their order, the invariant they establish;
   C. every method in closed form over the rows (tx, rx, samples), the refinement to the
      operations of Model/Frame.v, with the exception classes;
   D. get_timetrace;  E. histories. *)
From Coq Require Import Arith List Bool ZArith Lia Permutation Sorted.
From Arim Require Import Base.Num Model.Vec3 Model.Probe Model.ProbeOps Proofs.ProbeOpsGenProofs.
From Arim Require Import Model.Frame Proofs.FrameProofs Proofs.FrameOpsProofs Model.FrameOps2.
Import ListNotations.

(* ======================================================================================
   A. index expressions *)
Lemma mapM_map_Some {A B} (g : A -> option B) (l : list A) (r : list B) :
  mapM g l = Some r <-> map g l = map Some r.
Proof.
  revert r. induction l as [|x l IH]; intros r; cbn [mapM map].
  - split; [intros H; injection H as <-; reflexivity|]. destruct r; [reflexivity|discriminate].
  - destruct (g x) as [y|] eqn:Eg.
    + destruct (mapM g l) as [r0|] eqn:Em.
      * split.
        -- intros H. injection H as <-. cbn [map]. f_equal. apply IH. reflexivity.
        -- destruct r as [|y' r']; [discriminate|]. cbn [map]. intros H. injection H as <- H.
           apply IH in H. injection H as <-. reflexivity.
      * split; [discriminate|]. destruct r as [|y' r']; [discriminate|]. cbn [map]. intros H.
        injection H as _ H. apply IH in H. discriminate.
    + split; [discriminate|]. destruct r as [|y' r']; [discriminate|]. cbn [map]. intros H. discriminate.
Qed.

Lemma map_nth_error_seq {A} (l : list A) : map (nth_error l) (seq 0 (length l)) = map Some l.
Proof.
  induction l as [|a l IH]; [reflexivity|]. cbn [length seq map nth_error]. f_equal.
  rewrite <- seq_shift, map_map. exact IH.
Qed.

Lemma option_map_Some_inj {A} (o o' : option (list A)) :
  option_map (map Some) o = option_map (map Some) o' -> o = o'.
Proof.
  assert (Hinj : forall l l' : list A, map Some l = map Some l' -> l = l').
  { induction l as [|a l IH]; intros [|b l'] H; try discriminate; [reflexivity|].
    cbn [map] in H. injection H as <- H. f_equal. auto. }
  destruct o, o'; cbn [option_map]; intros H; try discriminate; [|reflexivity].
  injection H as H. f_equal. auto.
Qed.

(* one index expression applied to any array of the same length picks the same positions:
   x[idx] = [x[p] for p in np.arange(len(x))[idx]] — or both raise *)
Lemma np_take_by_positions {A} (idx : np_idx) (l : list A) :
  np_take idx l = match np_positions idx (length l) with
                  | Some ps => mapM (nth_error l) ps
                  | None => None
                  end.
Proof.
  pose proof (np_take_map (nth_error l) idx (seq 0 (length l))) as H1.
  rewrite map_nth_error_seq, np_take_map in H1. fold (np_positions idx (length l)) in H1.
  destruct (np_positions idx (length l)) as [ps|]; cbn [option_map] in H1.
  - destruct (np_take idx l) as [r|]; cbn [option_map] in H1; [|discriminate].
    injection H1 as H1. symmetry. apply mapM_map_Some. symmetry. exact H1.
  - destruct (np_take idx l); [discriminate|reflexivity].
Qed.

Lemma mapM_nth_error_in_range {A} (l : list A) (ps : list nat) :
  Forall (fun i => i < length l) ps -> exists r, mapM (nth_error l) ps = Some r.
Proof.
  intros H. apply mapM_total. intros i Hi. rewrite Forall_forall in H. specialize (H i Hi).
  destruct (nth_error l i) eqn:E; eauto. apply nth_error_None in E. lia.
Qed.

(* an index never raises on one array and succeeds on another of the same length *)
Lemma np_take_some_of_positions {A} (idx : np_idx) (l : list A) (ps : list nat) :
  np_positions idx (length l) = Some ps -> exists r, np_take idx l = Some r /\ mapM (nth_error l) ps = Some r.
Proof.
  intros H. rewrite np_take_by_positions, H.
  destruct (mapM_nth_error_in_range l ps (np_positions_in_range idx _ ps H)) as [r Hr]. eauto.
Qed.

Lemma combine_fst_snd {A B} (l : list (A * B)) : combine (map fst l) (map snd l) = l.
Proof. induction l as [|[a b] l IH]; cbn [map combine fst snd]; [reflexivity|]. f_equal. exact IH. Qed.

(* parallel arrays indexed by the same expression stay parallel *)
Lemma np_take_combine {A B} (idx : np_idx) (a : list A) (b : list B) : length a = length b ->
  np_take idx (combine a b) =
  match np_take idx a, np_take idx b with
  | Some a', Some b' => Some (combine a' b')
  | _, _ => None
  end.
Proof.
  intros H. pose proof (np_take_map fst idx (combine a b)) as E1.
  pose proof (np_take_map snd idx (combine a b)) as E2.
  rewrite (map_fst_combine a b H) in E1. rewrite (map_snd_combine a b H) in E2. rewrite E1, E2.
  destruct (np_take idx (combine a b)) as [r|]; cbn [option_map]; [|reflexivity].
  rewrite combine_fst_snd. reflexivity.
Qed.

(* ---- slices ---- *)
Lemma slice_indices_form (n : Z) (s e st : option Z) (ks : list Z) :
  slice_indices n s e st = Some ks ->
  let stp := match st with None => 1%Z | Some x => x end in
  stp <> 0%Z /\ exists s0 len, ks = map (fun i => (s0 + Z.of_nat i * stp)%Z) (seq 0 len).
Proof.
  unfold slice_indices. cbn zeta.
  destruct (Z.eqb_spec (match st with None => 1%Z | Some x => x end) 0) as [|Hne]; [discriminate|].
  intros E. injection E as <-. split; [exact Hne|]. eexists. eexists. reflexivity.
Qed.

Lemma py_index_seq (n : nat) (k : Z) : (0 <= k < Z.of_nat n)%Z -> py_index (seq 0 n) k = Some (Z.to_nat k).
Proof.
  intros H. unfold py_index. rewrite seq_length.
  destruct (Z.leb_spec 0 k); [|lia]. destruct (Z.ltb_spec k (Z.of_nat n)); [|lia].
  rewrite (nth_error_nth' _ 0%nat) by (rewrite seq_length; lia). rewrite seq_nth by lia. reflexivity.
Qed.

Lemma opt_all_map_Some {A B} (f : A -> option B) (g : A -> B) (l : list A) :
  (forall x, In x l -> f x = Some (g x)) -> opt_all (map f l) = Some (map g l).
Proof.
  induction l as [|x l IH]; intros H; cbn [map opt_all]; [reflexivity|].
  rewrite (H x (or_introl eq_refl)), IH; [reflexivity|]. intros y Hy. apply H. right. exact Hy.
Qed.

(* the positions a slice designates are Python's range over slice.indices(n); only a zero step
   raises *)
Lemma slice_positions (n : nat) (s e st : option Z) :
  np_positions (IdxSlice s e st) n = option_map (map Z.to_nat) (slice_indices (Z.of_nat n) s e st).
Proof.
  unfold np_positions. cbn [np_take]. rewrite seq_length.
  destruct (slice_indices (Z.of_nat n) s e st) as [ks|] eqn:E; cbn [option_map]; [|reflexivity].
  apply opt_all_map_Some. intros k Hk. apply py_index_seq.
  pose proof (slice_indices_in_range (Z.of_nat n) s e st ks (Zle_0_nat n) E) as HF.
  rewrite Forall_forall in HF. exact (HF k Hk).
Qed.

Lemma sorted_map_seq (R : nat -> nat -> Prop) (f : nat -> nat) (k : nat) : forall a,
  (forall i j, a <= i -> i < j -> j < a + k -> R (f i) (f j)) -> StronglySorted R (map f (seq a k)).
Proof.
  induction k as [|k IH]; intros a H; cbn [seq map]; constructor.
  - apply IH. intros i j Hi Hij Hj. apply H; lia.
  - apply Forall_forall. intros y Hy. apply in_map_iff in Hy as (j & <- & Hj). apply in_seq in Hj.
    apply H; lia.
Qed.

(* a slice lists positions in strictly increasing (step > 0) or strictly decreasing
   (step < 0) order — never twice the same *)
Lemma slice_positions_sorted (n : nat) (s e st : option Z) (ps : list nat) :
  np_positions (IdxSlice s e st) n = Some ps ->
  let stp := match st with None => 1%Z | Some x => x end in
  ((0 < stp)%Z -> StronglySorted lt ps) /\ ((stp < 0)%Z -> StronglySorted gt ps).
Proof.
  rewrite slice_positions. destruct (slice_indices (Z.of_nat n) s e st) as [ks|] eqn:E; [|discriminate].
  cbn [option_map]. intros H. injection H as <-.
  pose proof (slice_indices_in_range (Z.of_nat n) s e st ks (Zle_0_nat n) E) as HF.
  destruct (slice_indices_form _ _ _ _ _ E) as (Hne & s0 & len & ->). cbn zeta.
  set (stp := match st with None => 1%Z | Some x => x end) in *.
  rewrite Forall_forall in HF.
  assert (Hr : forall i, i < len -> (0 <= s0 + Z.of_nat i * stp)%Z).
  { intros i Hi. apply (HF (s0 + Z.of_nat i * stp)%Z). apply in_map_iff. exists i. split; [reflexivity|].
    apply in_seq. lia. }
  rewrite map_map. split; intros Hs; apply sorted_map_seq; intros i j Hi Hij Hj.
  - pose proof (Hr i ltac:(lia)). pose proof (Hr j ltac:(lia)). apply Z2Nat.inj_lt; nia.
  - pose proof (Hr i ltac:(lia)). pose proof (Hr j ltac:(lia)). unfold gt. apply Z2Nat.inj_lt; nia.
Qed.

Lemma sorted_lt_NoDup (l : list nat) : StronglySorted lt l -> NoDup l.
Proof.
  induction 1 as [|a l _ IH Ha]; constructor; auto.
  intros Hin. rewrite Forall_forall in Ha. specialize (Ha a Hin). lia.
Qed.

Lemma sorted_gt_NoDup (l : list nat) : StronglySorted gt l -> NoDup l.
Proof.
  induction 1 as [|a l _ IH Ha]; constructor; auto.
  intros Hin. rewrite Forall_forall in Ha. specialize (Ha a Hin). lia.
Qed.

Lemma slice_positions_NoDup (n : nat) (s e st : option Z) (ps : list nat) :
  np_positions (IdxSlice s e st) n = Some ps -> NoDup ps.
Proof.
  intros H. pose proof (slice_positions_sorted n s e st ps H) as [Hp Hn]. cbn zeta in *.
  rewrite slice_positions in H. destruct (slice_indices (Z.of_nat n) s e st) as [ks|] eqn:E; [|discriminate].
  destruct (slice_indices_form _ _ _ _ _ E) as (Hne & _). cbn zeta in Hne.
  destruct (Z.lt_trichotomy 0 (match st with None => 1%Z | Some x => x end)) as [H0|[H0|H0]].
  - apply sorted_lt_NoDup. auto.
  - congruence.
  - apply sorted_gt_NoDup. auto.
Qed.

(* ---- boolean masks ---- *)
Lemma mask_select_filter {A} (q : A -> bool) (l : list A) : mask_select (map q l) l = filter q l.
Proof. induction l as [|a l IH]; cbn [map mask_select filter]; [reflexivity|]. rewrite IH. reflexivity. Qed.

(* (model repair: mask_fits m n = (m =? n) || (m =? 0) — numpy accepts the EMPTY boolean
   array on an axis of any length; this lemma used to read `if length bs =? n`) *)
Lemma mask_positions (bs : list bool) (n : nat) :
  np_positions (IdxMask bs) n = if mask_fits (length bs) n then Some (mask_select bs (seq 0 n)) else None.
Proof. unfold np_positions. cbn [np_take]. rewrite seq_length. reflexivity. Qed.

Lemma mask_select_sorted {A} (R : A -> A -> Prop) (bs : list bool) : forall l : list A,
  StronglySorted R l -> StronglySorted R (mask_select bs l).
Proof.
  induction bs as [|b bs IH]; intros [|a l] H; cbn [mask_select]; try constructor.
  apply StronglySorted_inv in H as [H Ha]. destruct b; [|apply IH; exact H].
  constructor; [apply IH; exact H|]. apply Forall_forall. intros y Hy.
  rewrite Forall_forall in Ha. apply Ha. exact (mask_select_incl bs l y Hy).
Qed.

Lemma seq_sorted (a n : nat) : StronglySorted lt (seq a n).
Proof.
  revert a. induction n as [|n IH]; intros a; cbn [seq]; constructor; [apply IH|].
  apply Forall_forall. intros x Hx. apply in_seq in Hx. lia.
Qed.

Lemma mask_select_seq_In (bs : list bool) : forall a n i, length bs = n ->
  (In i (mask_select bs (seq a n)) <-> a <= i < a + n /\ nth (i - a) bs false = true).
Proof.
  induction bs as [|b bs IH]; intros a n i Hl; cbn [length] in Hl; subst n; cbn [seq mask_select].
  - split; [contradiction|lia].
  - destruct b.
    + cbn [In]. rewrite (IH (S a) (length bs) i eq_refl). split.
      * intros [<-|[H1 H2]].
        -- rewrite Nat.sub_diag. cbn [nth]. split; [lia|reflexivity].
        -- split; [lia|]. replace (i - a) with (S (i - S a)) by lia. exact H2.
      * intros [H1 H2]. destruct (Nat.eq_dec a i) as [->|Hne]; [left; reflexivity|right].
        split; [lia|]. replace (i - a) with (S (i - S a)) in H2 by lia. exact H2.
    + rewrite (IH (S a) (length bs) i eq_refl). split.
      * intros [H1 H2]. split; [lia|]. replace (i - a) with (S (i - S a)) by lia. exact H2.
      * intros [H1 H2]. destruct (Nat.eq_dec a i) as [->|Hne].
        -- rewrite Nat.sub_diag in H2. discriminate.
        -- split; [lia|]. replace (i - a) with (S (i - S a)) in H2 by lia. exact H2.
Qed.

(* a mask of the right length, OR THE EMPTY MASK (which numpy accepts on an axis of any
   length), designates exactly its True positions, in increasing order; any other length
   raises.  (Model repair: the statement used to read `length bs = n /\ ...`; the empty mask
   on a non-empty axis was an error of the model, not of numpy.) *)
Lemma mask_positions_spec (bs : list bool) (n : nat) (ps : list nat) :
  np_positions (IdxMask bs) n = Some ps <->
  (length bs = n \/ bs = []) /\ ps = mask_select bs (seq 0 n).
Proof.
  unfold np_positions. rewrite (np_take_mask_spec bs (seq 0 n) ps), seq_length. reflexivity.
Qed.

Lemma mask_positions_empty (n : nat) : np_positions (IdxMask []) n = Some [].
Proof. unfold np_positions. apply np_take_mask_empty. Qed.

Lemma mask_positions_sorted (bs : list bool) (n : nat) (ps : list nat) :
  np_positions (IdxMask bs) n = Some ps ->
  StronglySorted lt ps /\ (forall i, In i ps <-> i < n /\ nth i bs false = true).
Proof.
  intros H. apply mask_positions_spec in H as [[Hl| ->] ->].
  - split.
    + apply mask_select_sorted. apply seq_sorted.
    + intros i. rewrite (mask_select_seq_In bs 0 n i Hl). rewrite Nat.sub_0_r. split; intros [H1 H2]; split; auto; lia.
  - cbn [mask_select]. split; [constructor|]. intros i. split; [contradiction|].
    intros [_ H]. destruct i; discriminate H.
Qed.

(* ---- lists of integers ---- *)
Lemma list_positions (ks : list Z) (n : nat) :
  (Forall (fun k => (- Z.of_nat n <= k < Z.of_nat n)%Z) ks ->
     np_positions (IdxList ks) n = Some (map (norm_index n) ks)) /\
  (Exists (fun k => ~ (- Z.of_nat n <= k < Z.of_nat n)%Z) ks -> np_positions (IdxList ks) n = None).
Proof.
  unfold np_positions. split; intros H.
  - rewrite (np_take_list_ok (seq 0 n) ks 0%nat) by (rewrite seq_length; exact H).
    rewrite seq_length. f_equal. apply map_ext_in. intros k Hk. rewrite Forall_forall in H. specialize (H k Hk).
    apply seq_nth. unfold norm_index. destruct (Z.leb_spec 0 k); lia.
  - apply np_take_list_raises. rewrite seq_length. exact H.
Qed.

(* ======================================================================================
   B. Frame.__init__ *)
Section Frame2.
  Variable S L M X : Type.
  Notation frame2 := (frame2 S L M X).
  Notation row := (list S).

  (* the invariant every constructed frame satisfies *)
  Definition wf (F : frame2) : Prop :=
    length (f_tx F) = f_ntt F /\ length (f_rx F) = f_ntt F /\ length (f_tt F) = f_ntt F /\
    Forall (fun r : row => length r = f_ns F) (f_tt F) /\ NoDup (pairs_of F).

  Lemma forallb_width (ns : nat) (tt : list row) :
    forallb (fun r => length r =? ns) tt = true <-> Forall (fun r : row => length r = ns) tt.
  Proof.
    rewrite forallb_forall, Forall_forall. split; intros H r Hr; specialize (H r Hr); apply Nat.eqb_eq; exact H.
  Qed.

  (* success: exactly when every check passes, and then the arguments are stored as given *)
  Lemma init_core_Ok tok ns (tt : list row) ktx tx krx rx (pr : list L) (ex : X) (m : M) (F : frame2) :
    init_core tok ns tt ktx tx krx rx pr ex m = Ok F <->
    tok = true /\ is_index_kind ktx = true /\ is_index_kind krx = true /\
    Forall (fun r : row => length r = ns) tt /\ length tx = length tt /\ length rx = length tt /\
    NoDup (combine tx rx) /\ F = mkFrame2 tt ns tx rx pr ex m (length tt).
  Proof.
    unfold init_core. destruct tok; cbn [negb]; [|split; [discriminate|intros (H & _); discriminate]].
    destruct (is_index_kind ktx); cbn [negb]; [|split; [discriminate|intros (_ & H & _); discriminate]].
    destruct (is_index_kind krx); cbn [negb]; [|split; [discriminate|intros (_ & _ & H & _); discriminate]].
    destruct (forallb (fun r => length r =? ns) tt) eqn:Ew; cbn [negb].
    2:{ split; [discriminate|]. intros (_ & _ & _ & H & _). apply forallb_width in H. congruence. }
    apply forallb_width in Ew.
    destruct (Nat.eqb_spec (length tx) (length tt)) as [Et|Et]; cbn [negb];
      [|split; [discriminate|intros (_ & _ & _ & _ & H & _); contradiction]].
    destruct (Nat.eqb_spec (length rx) (length tt)) as [Er|Er]; cbn [negb];
      [|split; [discriminate|intros (_ & _ & _ & _ & _ & H & _); contradiction]].
    destruct (nodupb (combine tx rx)) eqn:En; cbn [negb].
    - apply nodupb_NoDup in En. split.
      + intros H. injection H as <-. repeat split; auto.
      + intros (_ & _ & _ & _ & _ & _ & _ & ->). reflexivity.
    - split; [discriminate|]. intros (_ & _ & _ & _ & _ & _ & H & _). apply nodupb_NoDup in H. congruence.
  Qed.

  (* failure: the exception is that of the FIRST check that fails, in the order of the code:
     time, dtype of tx, dtype of rx (TypeError); width of timetraces, length of tx, length of
     rx (InvalidShape); duplicate pairs (ValueError) *)
  Lemma init_core_Err tok ns (tt : list row) ktx tx krx rx (pr : list L) (ex : X) (m : M) (e : ferror) :
    init_core tok ns tt ktx tx krx rx pr ex m = Err e <->
    (tok = false /\ e = ErrType) \/
    (tok = true /\ is_index_kind ktx = false /\ e = ErrType) \/
    (tok = true /\ is_index_kind ktx = true /\ is_index_kind krx = false /\ e = ErrType) \/
    (tok = true /\ is_index_kind ktx = true /\ is_index_kind krx = true /\
       ((~ Forall (fun r : row => length r = ns) tt /\ e = ErrShape) \/
        (Forall (fun r : row => length r = ns) tt /\
           ((length tx <> length tt /\ e = ErrShape) \/
            (length tx = length tt /\
               ((length rx <> length tt /\ e = ErrShape) \/
                (length rx = length tt /\ ~ NoDup (combine tx rx) /\ e = ErrValue))))))).
  Proof.
    unfold init_core. destruct tok; cbn [negb].
    2:{ split; [intros H; injection H as <-; left; auto|].
        intros [(_ & ->)|[(H & _)|[(H & _)|(H & _)]]]; [reflexivity|discriminate..]. }
    destruct (is_index_kind ktx); cbn [negb].
    2:{ split; [intros H; injection H as <-; right; left; auto|].
        intros [(H & _)|[(_ & _ & ->)|[(_ & H & _)|(_ & H & _)]]]; [discriminate|reflexivity|discriminate..]. }
    destruct (is_index_kind krx); cbn [negb].
    2:{ split; [intros H; injection H as <-; right; right; left; auto|].
        intros [(H & _)|[(_ & H & _)|[(_ & _ & _ & ->)|(_ & _ & H & _)]]]; [discriminate..|reflexivity|discriminate]. }
    destruct (forallb (fun r => length r =? ns) tt) eqn:Ew; cbn [negb].
    2:{ assert (Hw : ~ Forall (fun r : row => length r = ns) tt) by (intros H; apply forallb_width in H; congruence).
        split; [intros H; injection H as <-; right; right; right; repeat split; auto|].
        intros [(H & _)|[(_ & H & _)|[(_ & _ & H & _)|(_ & _ & _ & [(_ & ->)|(H & _)])]]];
          [discriminate..|reflexivity|contradiction]. }
    apply forallb_width in Ew.
    destruct (Nat.eqb_spec (length tx) (length tt)) as [Et|Et]; cbn [negb].
    2:{ split; [intros H; injection H as <-; right; right; right; repeat split; auto|].
        intros [(H & _)|[(_ & H & _)|[(_ & _ & H & _)|(_ & _ & _ & [(H & _)|(_ & [(_ & ->)|(H & _)])])]]];
          [discriminate..|contradiction|reflexivity|contradiction]. }
    destruct (Nat.eqb_spec (length rx) (length tt)) as [Er|Er]; cbn [negb].
    2:{ split; [intros H; injection H as <-; right; right; right; repeat split; auto 10|].
        intros [(H & _)|[(_ & H & _)|[(_ & _ & H & _)|(_ & _ & _ & [(H & _)|(_ & [(H & _)|(_ & [(_ & ->)|(H & _)])])])]]];
          [discriminate..|contradiction|contradiction|reflexivity|contradiction]. }
    destruct (nodupb (combine tx rx)) eqn:En; cbn [negb].
    - apply nodupb_NoDup in En. split; [discriminate|].
      intros [(H & _)|[(_ & H & _)|[(_ & _ & H & _)|(_ & _ & _ & [(H & _)|(_ & [(H & _)|(_ & [(H & _)|(_ & H & _)])])])]]];
        try discriminate; contradiction.
    - assert (Hd : ~ NoDup (combine tx rx)) by (intros H; apply nodupb_NoDup in H; congruence).
      split; [intros H; injection H as <-; right; right; right; repeat split; auto 12|].
      intros [(H & _)|[(_ & H & _)|[(_ & _ & H & _)|(_ & _ & _ & [(H & _)|(_ & [(H & _)|(_ & [(H & _)|(_ & _ & ->)])])])]]];
        try discriminate; try contradiction; reflexivity.
  Qed.

  Lemma init_core_wf tok ns (tt : list row) ktx tx krx rx (pr : list L) (ex : X) (m : M) (F : frame2) :
    init_core tok ns tt ktx tx krx rx pr ex m = Ok F -> wf F.
  Proof.
    intros H. apply init_core_Ok in H as (_ & _ & _ & Hw & Ht & Hr & Hn & ->).
    unfold wf, pairs_of. cbn [f_tx f_rx f_tt f_ntt f_ns]. auto.
  Qed.

  (* metadata None -> {} ; anything else is kept as it is *)
  Lemma init_frame_metadata mempty tok ns (tt : list row) ktx tx krx rx (pr : list L) (ex : X) (meta : option M) (F : frame2) :
    init_frame mempty tok ns tt ktx tx krx rx pr ex meta = Ok F ->
    wf F /\ f_tt F = tt /\ f_tx F = tx /\ f_rx F = rx /\ f_probe F = pr /\ f_exam F = ex /\ f_ns F = ns /\
    f_meta F = match meta with None => mempty | Some m => m end.
  Proof.
    unfold init_frame. intros H. split; [exact (init_core_wf _ _ _ _ _ _ _ _ _ _ _ H)|].
    apply init_core_Ok in H as (_ & _ & _ & _ & _ & _ & _ & ->). cbn. repeat split.
  Qed.

  (* ---- rows ---- *)
  Lemma keys_combine {P} (ks : list (nat * nat)) (ps : list P) : length ks = length ps ->
    keys (combine ks ps) = ks.
  Proof. intros H. unfold keys, key. apply map_fst_combine. exact H. Qed.

  Lemma payloads_combine {P} (ks : list (nat * nat)) (ps : list P) : length ks = length ps ->
    map payload (combine ks ps) = ps.
  Proof. intros H. unfold payload. apply map_snd_combine. exact H. Qed.

  Lemma wf_pairs_length (F : frame2) : wf F -> length (pairs_of F) = f_ntt F.
  Proof. intros (H1 & H2 & _). unfold pairs_of. rewrite combine_length. lia. Qed.

  Lemma keys_rows_of (F : frame2) : wf F -> keys (rows_of F) = pairs_of F.
  Proof.
    intros Hwf. unfold rows_of. fold (pairs_of F). apply keys_combine.
    rewrite (wf_pairs_length F Hwf). destruct Hwf as (_ & _ & H & _). congruence.
  Qed.

  Lemma payloads_rows_of (F : frame2) : wf F -> map payload (rows_of F) = f_tt F.
  Proof.
    intros Hwf. unfold rows_of. fold (pairs_of F). apply payloads_combine.
    rewrite (wf_pairs_length F Hwf). destruct Hwf as (_ & _ & H & _). congruence.
  Qed.

  Lemma rows_of_length (F : frame2) : wf F -> length (rows_of F) = f_ntt F.
  Proof. intros Hwf. rewrite <- (map_length payload), (payloads_rows_of F Hwf). apply Hwf. Qed.

  Lemma wf_rows_NoDup (F : frame2) : wf F -> NoDup (keys (rows_of F)).
  Proof. intros Hwf. rewrite (keys_rows_of F Hwf). apply Hwf. Qed.

  (* the frame rebuilt from rows g (what `self.__class__(...)` is handed), keeping the context *)
  Definition unrows (F : frame2) (g : frame row) (pr : list L) : frame2 :=
    mkFrame2 (map payload g) (f_ns F) (map fst (keys g)) (map snd (keys g)) pr (f_exam F) (f_meta F) (length g).

  Lemma rows_of_unrows (F : frame2) g pr : rows_of (unrows F g pr) = g.
  Proof.
    unfold rows_of, unrows. cbn [f_tx f_rx f_tt]. rewrite combine_fst_snd. unfold keys, key, payload.
    apply combine_fst_snd.
  Qed.

  Definition widths (F : frame2) (g : frame row) : Prop := Forall (fun e => length (payload e) = f_ns F) g.

  Lemma wf_widths (F : frame2) : wf F -> widths F (rows_of F).
  Proof.
    intros Hwf. unfold widths. rewrite Forall_forall. intros e He.
    destruct Hwf as (_ & _ & _ & Hw & _). rewrite Forall_forall in Hw. apply Hw.
    unfold rows_of in He. destruct e as [k p]. apply in_combine_r in He. exact He.
  Qed.

  Lemma unrows_wf (F : frame2) g pr : NoDup (keys g) -> widths F g -> wf (unrows F g pr).
  Proof.
    intros Hn Hw. unfold wf, unrows, pairs_of. cbn [f_tx f_rx f_tt f_ntt f_ns].
    rewrite !map_length. unfold keys. rewrite !map_length. repeat split; auto.
    - unfold widths in Hw. rewrite Forall_forall in *. intros r Hr. apply in_map_iff in Hr as (e & <- & He). auto.
    - fold (keys g). rewrite combine_fst_snd. exact Hn.
  Qed.

  (* the shared tail `self.__class__(tt, self.time, tx, rx, probe, ...)` on parallel arrays:
     it can only fail on a duplicate pair (ValueError) *)
  Definition close (F : frame2) (g : frame row) (pr : list L) : res frame2 :=
    if nodupb (keys g) then Ok (unrows F g pr) else Err ErrValue.

  Lemma reinit_close (F : frame2) (tt : list row) (tx rx : list nat) pr :
    length tx = length tt -> length rx = length tt -> Forall (fun r : row => length r = f_ns F) tt ->
    reinit F tt tx rx pr = close F (combine (combine tx rx) tt) pr.
  Proof.
    intros Ht Hr Hw. unfold reinit, close, init_core. cbn [negb is_index_kind].
    apply forallb_width in Hw. rewrite Hw. cbn [negb].
    rewrite Ht, Hr, Nat.eqb_refl. cbn [negb].
    assert (Hk : keys (combine (combine tx rx) tt) = combine tx rx).
    { apply keys_combine. rewrite combine_length. lia. }
    rewrite Hk. destruct (nodupb (combine tx rx)); cbn [negb]; [|reflexivity].
    unfold unrows. rewrite Hk. rewrite payloads_combine by (rewrite combine_length; lia).
    rewrite map_fst_combine, map_snd_combine by lia.
    f_equal. f_equal. unfold entry. rewrite !combine_length. lia.
  Qed.

  Lemma close_Ok (F F' : frame2) g pr : close F g pr = Ok F' <-> NoDup (keys g) /\ F' = unrows F g pr.
  Proof.
    unfold close. destruct (nodupb (keys g)) eqn:E.
    - apply nodupb_NoDup in E. split; [intros H; injection H as <-; auto|intros [_ ->]; reflexivity].
    - split; [discriminate|]. intros [H _]. apply nodupb_NoDup in H. congruence.
  Qed.

  Lemma close_mk_frame (F : frame2) g pr :
    option_map (@rows_of S L M X) (res_opt (close F g pr)) = mk_frame g.
  Proof.
    unfold close, mk_frame. destruct (nodupb (keys g)); cbn [res_opt option_map]; [|reflexivity].
    rewrite rows_of_unrows. reflexivity.
  Qed.

  (* ====================================================================================
     C. the methods in closed form over the rows *)
  Definition not_int (idx : np_idx) : Prop := match idx with IdxInt _ => False | _ => True end.

  Lemma take_rows (F : frame2) idx : wf F ->
    np_take idx (rows_of F) =
    match np_take idx (f_tx F), np_take idx (f_rx F), np_take idx (f_tt F) with
    | Some tx0, Some rx0, Some tt0 => Some (combine (combine tx0 rx0) tt0)
    | _, _, _ => None
    end.
  Proof.
    intros Hwf. pose proof (wf_pairs_length F Hwf) as Hp. destruct Hwf as (H1 & H2 & H3 & _).
    unfold rows_of, entry. rewrite np_take_combine by (fold (pairs_of F); lia).
    rewrite np_take_combine by lia.
    destruct (np_take idx (f_tx F)), (np_take idx (f_rx F)), (np_take idx (f_tt F)); reflexivity.
  Qed.

  Lemma np_take_widths (F : frame2) idx (tt : list row) : wf F -> np_take idx (f_tt F) = Some tt ->
    Forall (fun r : row => length r = f_ns F) tt.
  Proof.
    intros (_ & _ & _ & Hw & _) H. apply np_take_incl in H. rewrite Forall_forall in *. intros r Hr. apply Hw, H, Hr.
  Qed.

  (* Frame.subframe with any index that keeps the axis: the three arrays are indexed alike,
     so the rows are indexed; IndexError / ValueError of the index, else ValueError iff a
     pair is selected twice *)
  Lemma subframe2_closed (F : frame2) idx : wf F -> not_int idx ->
    subframe2 F idx = match np_take idx (rows_of F) with
                      | None => Err (idx_error idx)
                      | Some g => close F g (f_probe F)
                      end.
  Proof.
    intros Hwf Hni. rewrite (take_rows F idx Hwf).
    pose proof (np_take_widths F idx) as Hwd.
    pose proof Hwf as (H1 & H2 & H3 & _).
    pose proof (np_take_same_length idx (f_tt F) (f_tx F) ltac:(lia)) as L1.
    pose proof (np_take_same_length idx (f_tt F) (f_rx F) ltac:(lia)) as L2.
    assert (E : subframe2 F idx =
                rbind (take_res idx (f_tt F)) (fun tt =>
                rbind (take_res idx (f_tx F)) (fun tx =>
                rbind (take_res idx (f_rx F)) (fun rx => reinit F tt tx rx (f_probe F))))).
    { destruct idx; [contradiction|reflexivity..]. }
    rewrite E. unfold take_res.
    destruct (np_take idx (f_tt F)) as [tt|]; destruct (np_take idx (f_tx F)) as [tx|];
      destruct (np_take idx (f_rx F)) as [rx|]; try contradiction; cbn [of_opt rbind]; try reflexivity.
    apply reinit_close; [lia|lia|]. apply Hwd; [exact Hwf|reflexivity].
  Qed.

  Lemma retained_mask_rows (F : frame2) E : wf F ->
    retained_mask E (f_tx F) (f_rx F) = map (retained E) (rows_of F).
  Proof.
    intros Hwf. unfold retained_mask. fold (pairs_of F). rewrite <- (keys_rows_of F Hwf).
    unfold keys. rewrite map_map. reflexivity.
  Qed.

  Lemma subframe2_mask (F : frame2) (q : entry row -> bool) : wf F ->
    subframe2 F (IdxMask (map q (rows_of F))) = close F (filter q (rows_of F)) (f_probe F).
  Proof.
    intros Hwf. rewrite (subframe2_closed F (IdxMask (map q (rows_of F))) Hwf I). cbn [np_take]. rewrite map_length, mask_fits_refl.
    rewrite mask_select_filter. reflexivity.
  Qed.

  (* Frame.subframe(np.array([], dtype=bool)) of a frame with ANY number of timetraces: the
     frame without timetraces, same probe and context; never a raise (model repair) *)
  Lemma subframe2_empty_mask (F : frame2) : wf F ->
    subframe2 F (IdxMask []) = Ok (unrows F [] (f_probe F)).
  Proof.
    intros Hwf. rewrite (subframe2_closed F (IdxMask []) Hwf I), np_take_mask_empty. reflexivity.
  Qed.

  (* a bare integer as timetrace index *)
  Lemma subframe2_int (F : frame2) k :
    subframe2 F (IdxInt k) =
    if ((- Z.of_nat (length (f_tt F)) <=? k) && (k <? Z.of_nat (length (f_tt F))))%Z
    then Err ErrDimension else Err ErrIndex.
  Proof.
    cbn [subframe2]. unfold py_index.
    destruct (Z.leb_spec 0 k); destruct (Z.ltb_spec k (Z.of_nat (length (f_tt F))));
      destruct (Z.leb_spec (- Z.of_nat (length (f_tt F))) k); cbn [andb]; try lia; try reflexivity.
    - destruct (nth_error (f_tt F) (Z.to_nat k)) eqn:E; [reflexivity|]. apply nth_error_None in E. lia.
    - destruct (nth_error (f_tt F) (Z.to_nat (Z.of_nat (length (f_tt F)) + k))) eqn:E; [reflexivity|].
      apply nth_error_None in E. lia.
  Qed.

  (* ---- subframe_from_probe_elements ---- *)
  Lemma sub_elements2_nomk (F : frame2) idx : wf F ->
    sub_elements2 F idx false =
    rbind (retained_elements (length (f_probe F)) idx)
          (fun E => close F (filter (retained E) (rows_of F)) (f_probe F)).
  Proof.
    intros Hwf. unfold sub_elements2. destruct (retained_elements (length (f_probe F)) idx) as [E|e]; [|reflexivity].
    cbn [rbind negb]. rewrite (retained_mask_rows F E Hwf). apply subframe2_mask. exact Hwf.
  Qed.

  Lemma retained_elements_positions n idx : not_int idx ->
    retained_elements n idx = of_opt (idx_error idx) (np_positions idx n).
  Proof. destruct idx; [contradiction|reflexivity..]. Qed.

  Lemma retained_elements_int n k :
    retained_elements n (IdxInt k) =
    if ((- Z.of_nat n <=? k) && (k <? Z.of_nat n))%Z then Ok [norm_index n k] else Err ErrIndex.
  Proof.
    cbn [retained_elements].
    destruct ((- Z.of_nat n <=? k) && (k <? Z.of_nat n))%Z eqn:E.
    - apply andb_true_iff in E as [E1 E2]. apply Z.leb_le in E1. apply Z.ltb_lt in E2.
      rewrite (py_index_some (seq 0 n) k 0%nat) by (rewrite seq_length; lia). rewrite seq_length.
      rewrite seq_nth; [reflexivity|]. unfold norm_index. destruct (Z.leb_spec 0 k); lia.
    - rewrite py_index_none; [reflexivity|]. rewrite seq_length. intros [H1 H2].
      apply andb_false_iff in E as [E|E]; [apply Z.leb_gt in E|apply Z.ltb_ge in E]; lia.
  Qed.

  Lemma remap_split mp (kept g : frame row) : mapM (remap mp) kept = Some g ->
    mapM (nth_error mp) (map (fun e => fst (key e)) kept) = Some (map (fun e => fst (key e)) g) /\
    mapM (nth_error mp) (map (fun e => snd (key e)) kept) = Some (map (fun e => snd (key e)) g) /\
    map payload g = map payload kept.
  Proof.
    revert g. induction kept as [|e kept IH]; intros g H; cbn [mapM map] in *.
    - injection H as <-. auto.
    - unfold remap in H at 1.
      destruct (nth_error mp (fst (key e))) as [a|]; [|discriminate].
      destruct (nth_error mp (snd (key e))) as [b|]; [|discriminate].
      destruct (mapM (remap mp) kept) as [g0|]; [|discriminate]. injection H as <-.
      destruct (IH g0 eq_refl) as (H1 & H2 & H3). rewrite H1, H2. cbn [map]. unfold key, payload in *. cbn [fst snd].
      rewrite H3. auto.
  Qed.

  Lemma entries_unzip (g : frame row) :
    combine (combine (map (fun e => fst (key e)) g) (map (fun e => snd (key e)) g)) (map payload g) = g.
  Proof.
    induction g as [|[[t r] p] g IH]; cbn [map combine]; [reflexivity|]. unfold key, payload in *. cbn [fst snd]. f_equal. exact IH.
  Qed.

  Lemma wf_tx (F : frame2) : wf F -> f_tx F = map (fun e => fst (key e)) (rows_of F).
  Proof.
    intros Hwf. pose proof (keys_rows_of F Hwf) as H. unfold keys in H. rewrite <- (map_map key fst), H.
    unfold pairs_of. symmetry. apply map_fst_combine. destruct Hwf as (H1 & H2 & _). lia.
  Qed.
  Lemma wf_rx (F : frame2) : wf F -> f_rx F = map (fun e => snd (key e)) (rows_of F).
  Proof.
    intros Hwf. pose proof (keys_rows_of F Hwf) as H. unfold keys in H. rewrite <- (map_map key snd), H.
    unfold pairs_of. symmetry. apply map_snd_combine. destruct Hwf as (H1 & H2 & _). lia.
  Qed.

  Lemma take_mask_map {A} (q : entry row -> bool) (h : entry row -> A) (rows : frame row) :
    take_res (IdxMask (map q rows)) (map h rows) = Ok (map h (filter q rows)).
  Proof.
    unfold take_res. cbn [np_take]. rewrite !map_length, mask_fits_refl. cbn [of_opt].
    rewrite mask_select_map, mask_select_filter. reflexivity.
  Qed.

  Lemma filter_widths (F : frame2) (q : entry row -> bool) : wf F -> widths F (filter q (rows_of F)).
  Proof.
    intros Hwf. pose proof (wf_widths F Hwf) as H. unfold widths in *. rewrite Forall_forall in *.
    intros e He. apply filter_In in He as [He _]. auto.
  Qed.

  (* with a sub-probe, an index that keeps the axis.  E = np.arange(numelements)[idx]:
     - the index raises: that exception, before anything else;
     - otherwise the sub-probe is probe[idx] = [probe[e] for e in E], the mapper is total on
       the retained rows, and the result is the constructor applied to the renumbered rows *)
  Lemma sub_elements2_mk (F : frame2) idx : wf F -> not_int idx ->
    match np_positions idx (length (f_probe F)) with
    | None => sub_elements2 F idx true = Err (idx_error idx)
    | Some E =>
        exists sp g,
          np_take idx (f_probe F) = Some sp /\ Frame.subprobe (f_probe F) E = Some sp /\
          forallb (fun e => e <? length (f_probe F)) E = true /\
          mapM (remap (mapper (length (f_probe F)) E)) (filter (retained E) (rows_of F)) = Some g /\
          widths F g /\
          sub_elements2 F idx true = close F g sp
    end.
  Proof.
    intros Hwf Hni. unfold sub_elements2. rewrite (retained_elements_positions _ idx Hni).
    destruct (np_positions idx (length (f_probe F))) as [E|] eqn:EE; cbn [of_opt rbind negb]; [|reflexivity].
    destruct (np_take_some_of_positions idx (f_probe F) E EE) as (sp & Hsp & Hsp').
    pose proof (np_positions_in_range idx _ E EE) as Hrange.
    assert (Hfb : forallb (fun e => e <? length (f_probe F)) E = true).
    { apply forallb_forall. intros e He. rewrite Forall_forall in Hrange. apply Nat.ltb_lt. auto. }
    assert (Hlen : length E = length sp).
    { pose proof (np_take_same_length idx (seq 0 (length (f_probe F))) (f_probe F) (seq_length _ _)) as HL.
      unfold np_positions in EE. rewrite EE, Hsp in HL. exact HL. }
    (* the abstract operation is total here: extract the renumbered rows *)
    destruct (sub_elements_total row L (f_probe F) (rows_of F) E true) as [s Hs].
    { intros e He. rewrite Forall_forall in Hrange. auto. }
    { apply wf_rows_NoDup. exact Hwf. }
    unfold subframe_from_probe_elements in Hs. rewrite Hfb in Hs. unfold Frame.subprobe in Hs at 1. rewrite Hsp' in Hs.
    destruct (mapM (remap (mapper (length (f_probe F)) E)) (filter (retained E) (rows_of F))) as [g|] eqn:Eg; [|discriminate].
    clear Hs. exists sp, g.
    destruct (remap_split _ _ _ Eg) as (G1 & G2 & G3).
    assert (Hwg : widths F g).
    { pose proof (filter_widths F (retained E) Hwf) as Hw. unfold widths in *.
      rewrite Forall_forall in *. intros e He.
      assert (Hin : In (payload e) (map payload g)) by (apply in_map; exact He).
      rewrite G3 in Hin. apply in_map_iff in Hin as (e0 & <- & He0). auto. }
    repeat split; auto.
    assert (Ei : match idx with
                 | IdxInt _ => Err ErrType
                 | _ => rbind (take_res idx (f_probe F)) (fun sp0 =>
                        rbind (assign_arange (length (f_probe F)) E (length sp0)) (fun mp =>
                        rbind (take_res (IdxMask (retained_mask E (f_tx F) (f_rx F))) (f_tx F)) (fun tx0 =>
                        rbind (gather mp tx0) (fun tx1 =>
                        rbind (take_res (IdxMask (retained_mask E (f_tx F) (f_rx F))) (f_rx F)) (fun rx0 =>
                        rbind (gather mp rx0) (fun rx1 =>
                        rbind (take_res (IdxMask (retained_mask E (f_tx F) (f_rx F))) (f_tt F)) (fun tt0 =>
                        reinit F tt0 tx1 rx1 sp0)))))))
                 end = close F g sp); [|exact Ei].
    assert (Ei' : rbind (take_res idx (f_probe F)) (fun sp0 =>
                        rbind (assign_arange (length (f_probe F)) E (length sp0)) (fun mp =>
                        rbind (take_res (IdxMask (retained_mask E (f_tx F) (f_rx F))) (f_tx F)) (fun tx0 =>
                        rbind (gather mp tx0) (fun tx1 =>
                        rbind (take_res (IdxMask (retained_mask E (f_tx F) (f_rx F))) (f_rx F)) (fun rx0 =>
                        rbind (gather mp rx0) (fun rx1 =>
                        rbind (take_res (IdxMask (retained_mask E (f_tx F) (f_rx F))) (f_tt F)) (fun tt0 =>
                        reinit F tt0 tx1 rx1 sp0))))))) = close F g sp); [|destruct idx; [contradiction|exact Ei'..]].
    unfold take_res at 1. rewrite Hsp. cbn [of_opt rbind].
    unfold assign_arange. rewrite <- Hlen, Nat.eqb_refl. cbn [rbind]. fold (mapper (length (f_probe F)) E).
    rewrite (retained_mask_rows F E Hwf).
    rewrite (wf_tx F Hwf) at 1. rewrite take_mask_map. cbn [rbind]. unfold gather. rewrite G1. cbn [of_opt rbind].
    rewrite (wf_rx F Hwf) at 1. rewrite take_mask_map. cbn [rbind]. rewrite G2. cbn [of_opt rbind].
    rewrite <- (payloads_rows_of F Hwf) at 1. rewrite take_mask_map. cbn [rbind].
    rewrite reinit_close.
    - rewrite <- G3, entries_unzip. reflexivity.
    - rewrite !map_length. apply (f_equal (@length _)) in G3. rewrite !map_length in G3. exact G3.
    - rewrite !map_length. apply (f_equal (@length _)) in G3. rewrite !map_length in G3. exact G3.
    - pose proof (filter_widths F (retained E) Hwf) as Hw. unfold widths in Hw. rewrite Forall_forall in *.
      intros r Hr. apply in_map_iff in Hr as (e & <- & He). auto.
  Qed.

  (* Frame.subframe_from_probe_elements(np.array([], dtype=bool), make_subprobe) on a frame
     with ANY probe: no element retained, hence no timetrace; the probe without elements
     (make_subprobe=True) or the probe as it is; never a raise.  (Model repair: np_take used
     to answer None — IndexError — for the empty mask on a non-empty axis.) *)
  Lemma filter_retained_nil (rows : frame row) : filter (retained [] (P:=row)) rows = [].
  Proof. induction rows as [|e rows IH]; [reflexivity|]. cbn [filter]. exact IH. Qed.

  Lemma sub_elements2_empty_mask (F : frame2) (mk : bool) : wf F ->
    sub_elements2 F (IdxMask []) mk = Ok (unrows F [] (if mk then [] else f_probe F)).
  Proof.
    intros Hwf. destruct mk.
    - pose proof (sub_elements2_mk F (IdxMask []) Hwf I) as H. rewrite mask_positions_empty in H.
      destruct H as (sp & g & Hsp & _ & _ & Hg & _ & ->).
      rewrite np_take_mask_empty in Hsp. injection Hsp as <-.
      rewrite filter_retained_nil in Hg. cbn [mapM] in Hg. injection Hg as <-. reflexivity.
    - unfold sub_elements2. rewrite (retained_elements_positions _ (IdxMask []) I), mask_positions_empty.
      cbn [of_opt rbind negb]. rewrite (retained_mask_rows F [] Hwf), (subframe2_mask F (retained []) Hwf).
      rewrite filter_retained_nil. reflexivity.
  Qed.

  (* a bare integer with make_subprobe=True: Probe.subprobe cannot build a probe from one
     0-d location (TypeError), after the IndexError of an out-of-range element *)
  Lemma sub_elements2_int_mk (F : frame2) k :
    sub_elements2 F (IdxInt k) true =
    if ((- Z.of_nat (length (f_probe F)) <=? k) && (k <? Z.of_nat (length (f_probe F))))%Z
    then Err ErrType else Err ErrIndex.
  Proof.
    unfold sub_elements2. rewrite retained_elements_int.
    destruct ((- Z.of_nat (length (f_probe F)) <=? k) && (k <? Z.of_nat (length (f_probe F))))%Z; reflexivity.
  Qed.

  (* ---- expand_frame_assuming_reciprocity ---- *)
  Lemma index_last_snoc (ks : list (nat * nat)) x k :
    index_last (ks ++ [x]) k = if pair_eqb x k then Some (length ks) else index_last ks k.
  Proof.
    unfold index_last. rewrite app_length. cbn [length]. rewrite Nat.add_1_r, seq_S.
    rewrite fr_combine_app by apply seq_length. rewrite fold_left_app. reflexivity.
  Qed.

  Lemma index_last_None (ks : list (nat * nat)) k : index_last ks k = None <-> ~ In k ks.
  Proof.
    induction ks as [|x ks IH] using rev_ind.
    - cbn. split; auto.
    - rewrite index_last_snoc, in_app_iff. cbn [In]. destruct (pair_eqb x k) eqn:E.
      + apply pair_eqb_eq in E. split; [discriminate|]. intros H. exfalso. apply H. auto.
      + apply pair_eqb_neq in E. rewrite IH. split; intros H; [intros [H1|[H1|[]]]; auto|intros H1; apply H; auto].
  Qed.

  Lemma index_last_Some (ks : list (nat * nat)) k i : index_last ks k = Some i -> nth_error ks i = Some k.
  Proof.
    induction ks as [|x ks IH] using rev_ind; [discriminate|].
    rewrite index_last_snoc. destruct (pair_eqb x k) eqn:E.
    - apply pair_eqb_eq in E. intros H. injection H as <-. rewrite nth_error_app2 by lia.
      rewrite Nat.sub_diag. cbn. congruence.
    - intros H. specialize (IH H). rewrite nth_error_app1; [exact IH|]. apply nth_error_Some. congruence.
  Qed.

  Lemma nth_error_combine {A B} (a : list A) (b : list B) i x y :
    nth_error a i = Some x -> nth_error b i = Some y -> nth_error (combine a b) i = Some (x, y).
  Proof.
    revert b i. induction a as [|a0 a IH]; intros [|b0 b] [|i]; cbn; try discriminate.
    - intros H1 H2. congruence.
    - apply IH.
  Qed.

  (* the dictionary pair -> row index followed by timetraces[index] is the lookup of the
     recorded row of that pair (no pair is recorded twice in a constructed frame) *)
  Lemma row_at (F : frame2) k (dflt : res row) : wf F ->
    match index_last (pairs_of F) k with
    | Some i => of_opt ErrIndex (nth_error (f_tt F) i)
    | None => dflt
    end =
    match lookup_last (rows_of F) k with Some p => Ok p | None => dflt end.
  Proof.
    intros Hwf. pose proof (wf_pairs_length F Hwf) as Hl. pose proof Hwf as (_ & _ & H3 & _).
    destruct (index_last (pairs_of F) k) as [i|] eqn:Ei.
    - apply index_last_Some in Ei.
      assert (Hi : i < length (f_tt F)) by (rewrite H3, <- Hl; apply nth_error_Some; congruence).
      destruct (nth_error (f_tt F) i) as [p|] eqn:Ep; [|apply nth_error_None in Ep; lia].
      cbn [of_opt].
      assert (Hin : In (k, p) (rows_of F)).
      { unfold rows_of. fold (pairs_of F). eapply nth_error_In. apply nth_error_combine; eauto. }
      rewrite (lookup_last_NoDup row (rows_of F) k p (wf_rows_NoDup F Hwf) Hin). reflexivity.
    - apply index_last_None in Ei. rewrite <- (keys_rows_of F Hwf) in Ei.
      apply (lookup_last_None row) in Ei. rewrite Ei. reflexivity.
  Qed.

  Lemma expand_row_entry (F : frame2) k : wf F ->
    expand_row F k = match expand_entry (rows_of F) k with Some e => Ok (payload e) | None => Err ErrKey end.
  Proof.
    intros Hwf. unfold expand_row, expand_entry. rewrite (row_at F k _ Hwf).
    destruct (lookup_last (rows_of F) k) as [p|]; [reflexivity|].
    rewrite (row_at F (swap k) _ Hwf). destruct (lookup_last (rows_of F) (swap k)); reflexivity.
  Qed.

  Lemma rmapM_expand (F : frame2) (ks : list (nat * nat)) : wf F ->
    match mapM (expand_entry (rows_of F)) ks with
    | Some g => rmapM (expand_row F) ks = Ok (map payload g) /\ keys g = ks
    | None => rmapM (expand_row F) ks = Err ErrKey
    end.
  Proof.
    intros Hwf. induction ks as [|k ks IH]; cbn [mapM rmapM]; [split; reflexivity|].
    rewrite (expand_row_entry F k Hwf).
    destruct (expand_entry (rows_of F) k) as [e|] eqn:Ee; cbn [rbind]; [|reflexivity].
    destruct (mapM (expand_entry (rows_of F)) ks) as [g|].
    - destruct IH as [IH1 IH2]. rewrite IH1. cbn [rbind map]. split; [reflexivity|].
      unfold keys in *. cbn [map]. rewrite IH2. f_equal. apply (expand_entry_key row _ _ _ Ee).
    - rewrite IH. reflexivity.
  Qed.

  Lemma is_complete2_rows (F : frame2) : wf F -> is_complete2 F = is_complete (rows_of F).
  Proof. intros Hwf. unfold is_complete2, is_complete. rewrite (keys_rows_of F Hwf). reflexivity. Qed.

  Lemma entries_keys_payloads (g : frame row) : combine (keys g) (map payload g) = g.
  Proof. unfold keys, key, payload. apply combine_fst_snd. Qed.

  Lemma expand2_closed (F : frame2) : wf F ->
    expand2 F =
    if is_complete (rows_of F) then Ok F
    else match mapM (expand_entry (rows_of F))
                    (sorted_set (keys (rows_of F) ++ map swap (keys (rows_of F)))) with
         | Some g => close F g (f_probe F)
         | None => Err ErrKey
         end.
  Proof.
    intros Hwf. unfold expand2. fold (is_complete2 F). rewrite (is_complete2_rows F Hwf).
    destruct (is_complete (rows_of F)) eqn:Ec; [reflexivity|].
    rewrite (keys_rows_of F Hwf).
    set (ks := sorted_set (pairs_of F ++ map swap (pairs_of F))).
    pose proof (rmapM_expand F ks Hwf) as H.
    destruct (mapM (expand_entry (rows_of F)) ks) as [g|] eqn:Eg.
    - destruct H as [H1 H2]. rewrite H1. cbn [rbind]. rewrite reinit_close.
      + rewrite combine_fst_snd, <- H2, entries_keys_payloads. reflexivity.
      + rewrite !map_length. rewrite <- H2. unfold keys. rewrite map_length. reflexivity.
      + rewrite !map_length. rewrite <- H2. unfold keys. rewrite map_length. reflexivity.
      + pose proof (wf_widths F Hwf) as Hw. unfold widths in Hw. rewrite Forall_forall in *.
        intros r Hr. apply in_map_iff in Hr as (e & <- & He).
        apply mapM_Forall2 in Eg. destruct (Forall2_In_r _ _ _ _ Eg He) as (k & _ & Hk).
        destruct (expand_entry_src row _ _ _ Hk) as [Hin|[_ Hin]]; apply (Hw _ Hin).
    - rewrite H. reflexivity.
  Qed.

  (* ---- apply_filter ---- *)
  (* any filter of the 2-D array: tx, rx, probe and context are untouched; the constructor
     accepts the result iff it has the same shape (InvalidShape otherwise) *)
  Lemma apply_filter2_any (filt : list row -> list row) (F : frame2) : wf F ->
    apply_filter2 filt F =
    if forallb (fun r => length r =? f_ns F) (filt (f_tt F)) && (length (filt (f_tt F)) =? f_ntt F)
    then Ok (mkFrame2 (filt (f_tt F)) (f_ns F) (f_tx F) (f_rx F) (f_probe F) (f_exam F) (f_meta F) (f_ntt F))
    else Err ErrShape.
  Proof.
    intros (H1 & H2 & H3 & _ & Hn). unfold apply_filter2, reinit, init_core. cbn [negb is_index_kind].
    destruct (forallb (fun r => length r =? f_ns F) (filt (f_tt F))); cbn [negb andb]; [|reflexivity].
    rewrite H1, H2, (Nat.eqb_sym (f_ntt F)).
    destruct (Nat.eqb_spec (length (filt (f_tt F))) (f_ntt F)) as [E|E]; cbn [negb]; [|reflexivity].
    unfold pairs_of in Hn. apply nodupb_NoDup in Hn. rewrite Hn. cbn [negb]. rewrite E. reflexivity.
  Qed.

  Lemma combine_map_r_gen {A B C} (h : B -> C) (a : list A) (b : list B) :
    combine a (map h b) = map (fun p => (fst p, h (snd p))) (combine a b).
  Proof. revert b. induction a as [|x a IH]; intros [|y b]; cbn [combine map fst snd]; try reflexivity. f_equal. apply IH. Qed.

  (* a row-wise filter that keeps the number of samples: the rows keep their labels *)
  Lemma apply_filter2_rowwise (gr : row -> row) (F : frame2) : wf F ->
    (forall r, length (gr r) = length r) ->
    apply_filter2 (map gr) F = close F (map (fun e => (key e, gr (payload e))) (rows_of F)) (f_probe F).
  Proof.
    intros Hwf Hg. pose proof Hwf as (H1 & H2 & H3 & Hw & _). unfold apply_filter2.
    rewrite reinit_close.
    - unfold rows_of. rewrite combine_map_r_gen. reflexivity.
    - rewrite map_length. lia.
    - rewrite map_length. lia.
    - rewrite Forall_forall in *. intros r Hr. apply in_map_iff in Hr as (r0 & <- & Hr0). rewrite Hg. auto.
  Qed.

  (* ====================================================================================
     D. get_timetrace *)
  Lemma get_timetrace2_refines (F : frame2) (a b : nat) : wf F ->
    get_timetrace2 F (Z.of_nat a) (Z.of_nat b) = of_opt ErrIndex (get_timetrace (rows_of F) a b).
  Proof.
    intros Hwf. unfold get_timetrace2, get_timetrace.
    rewrite <- (keys_rows_of F Hwf). unfold keys. rewrite map_map.
    rewrite <- (payloads_rows_of F Hwf) at 1.
    cbn [np_take]. rewrite !map_length, mask_fits_refl. rewrite mask_select_map, mask_select_filter.
    assert (Eq : filter (fun e : entry row => (Z.of_nat (fst (key e)) =? Z.of_nat a)%Z && (Z.of_nat (snd (key e)) =? Z.of_nat b)%Z) (rows_of F)
                 = filter (fun e : entry row => pair_eqb (key e) (a, b)) (rows_of F)).
    { apply filter_ext. intros e. unfold pair_eqb. cbn [fst snd].
      f_equal; [destruct (Z.eqb_spec (Z.of_nat (fst (key e))) (Z.of_nat a)); destruct (Nat.eqb_spec (fst (key e)) a)
               |destruct (Z.eqb_spec (Z.of_nat (snd (key e))) (Z.of_nat b)); destruct (Nat.eqb_spec (snd (key e)) b)];
        try reflexivity; lia. }
    rewrite Eq. destruct (filter (fun e : entry row => pair_eqb (key e) (a, b)) (rows_of F)) as [|e [|e' l]]; reflexivity.
  Qed.

  Lemma map_const_false {A B} (q : A -> bool) (l : list A) (l0 : list B) :
    length l = length l0 -> (forall x, q x = false) -> map q l = map (fun _ => false) l0.
  Proof.
    revert l0. induction l as [|x l IH]; intros [|y l0] Hl Hq; cbn in *; try discriminate; [reflexivity|].
    f_equal; [apply Hq|apply IH; [lia|exact Hq]].
  Qed.

  (* no wrap-around: a negative element index designates no timetrace *)
  Lemma get_timetrace2_negative (F : frame2) (t r : Z) : wf F -> (t < 0 \/ r < 0)%Z ->
    get_timetrace2 F t r = Err ErrIndex.
  Proof.
    intros Hwf Hneg. unfold get_timetrace2.
    assert (Em : map (fun p : nat * nat => (Z.of_nat (fst p) =? t)%Z && (Z.of_nat (snd p) =? r)%Z) (pairs_of F)
                 = map (fun _ => false) (f_tt F)).
    { pose proof (wf_pairs_length F Hwf) as Hl. destruct Hwf as (_ & _ & H3 & _).
      apply map_const_false; [lia|]. intros p0.
      destruct (Z.eqb_spec (Z.of_nat (fst p0)) t); destruct (Z.eqb_spec (Z.of_nat (snd p0)) r); cbn; try reflexivity; lia. }
    rewrite Em. cbn [np_take]. rewrite map_length, mask_fits_refl. rewrite mask_select_filter.
    replace (filter (fun _ : row => false) (f_tt F)) with (@nil row); [reflexivity|].
    clear. induction (f_tt F); cbn; auto.
  Qed.

  Lemma get_timetrace2_spec (F : frame2) (t r : Z) (p : row) : wf F ->
    (get_timetrace2 F t r = Ok p <->
     exists a b, t = Z.of_nat a /\ r = Z.of_nat b /\ In (a, b, p) (rows_of F)) /\
    (forall e, get_timetrace2 F t r = Err e -> e = ErrIndex).
  Proof.
    intros Hwf. split.
    - destruct (Z_lt_le_dec t 0) as [Ht|Ht]; [|destruct (Z_lt_le_dec r 0) as [Hr|Hr]].
      + rewrite (get_timetrace2_negative F t r Hwf (or_introl Ht)). split; [discriminate|]. intros (a & b & -> & _). lia.
      + rewrite (get_timetrace2_negative F t r Hwf (or_intror Hr)). split; [discriminate|]. intros (a & b & _ & -> & _). lia.
      + rewrite <- (Z2Nat.id t Ht), <- (Z2Nat.id r Hr). rewrite (get_timetrace2_refines F _ _ Hwf).
        pose proof (get_timetrace_spec row (rows_of F) (Z.to_nat t) (Z.to_nat r) p (wf_rows_NoDup F Hwf)) as Hs.
        split.
        * intros H. exists (Z.to_nat t), (Z.to_nat r). split; [reflexivity|]. split; [reflexivity|]. apply Hs.
          destruct (get_timetrace (rows_of F) (Z.to_nat t) (Z.to_nat r)); cbn [of_opt] in H; [|discriminate].
          injection H as <-. reflexivity.
        * intros (a & b & Ea & Eb & Hin). apply Nat2Z.inj in Ea. apply Nat2Z.inj in Eb. subst a b.
          apply Hs in Hin. rewrite Hin. reflexivity.
    - unfold get_timetrace2. intros e.
      destruct (np_take _ (f_tt F)) as [[|x [|y l]]|]; intros H; try discriminate; injection H as <-; reflexivity.
  Qed.

  (* ====================================================================================
     E. refinement: one step, then histories *)
  (* time, examination object and metadata are handed on by reference *)
  Definition same_context (F F' : frame2) : Prop :=
    f_ns F' = f_ns F /\ f_exam F' = f_exam F /\ f_meta F' = f_meta F.

  Lemma same_context_refl F : same_context F F.
  Proof. repeat split. Qed.
  Lemma same_context_trans F1 F2 F3 : same_context F1 F2 -> same_context F2 F3 -> same_context F1 F3.
  Proof. intros (A1 & A2 & A3) (B1 & B2 & B3). repeat split; congruence. Qed.

  Lemma close_abs (F : frame2) g pr :
    option_map (@abs_state S L M X) (res_opt (close F g pr)) = option_map (pair pr) (mk_frame g).
  Proof.
    unfold close, mk_frame. destruct (nodupb (keys g)); cbn [res_opt option_map]; [|reflexivity].
    unfold abs_state. rewrite rows_of_unrows. reflexivity.
  Qed.

  Lemma close_wf (F F' : frame2) g pr : widths F g -> close F g pr = Ok F' ->
    wf F' /\ same_context F F' /\ f_probe F' = pr /\ rows_of F' = g.
  Proof.
    intros Hw H. apply close_Ok in H as [Hn ->]. split; [apply unrows_wf; assumption|].
    split; [repeat split|]. split; [reflexivity|apply rows_of_unrows].
  Qed.

  Lemma retained_elements_in_range n idx E : retained_elements n idx = Ok E -> Forall (fun e => e < n) E.
  Proof.
    destruct idx as [k|ks|s e st|bs]; cbn [retained_elements]; unfold take_res.
    - destruct (py_index (seq 0 n) k) as [x|] eqn:Ex; [|discriminate]. intros H. injection H as <-.
      apply py_index_In in Ex. apply in_seq in Ex. constructor; [lia|constructor].
    - fold (np_positions (IdxList ks) n). destruct (np_positions (IdxList ks) n) as [ps|] eqn:Ep; [|discriminate].
      intros H. injection H as <-. exact (np_positions_in_range _ _ _ Ep).
    - fold (np_positions (IdxSlice s e st) n). destruct (np_positions (IdxSlice s e st) n) as [ps|] eqn:Ep; [|discriminate].
      intros H. injection H as <-. exact (np_positions_in_range _ _ _ Ep).
    - fold (np_positions (IdxMask bs) n). destruct (np_positions (IdxMask bs) n) as [ps|] eqn:Ep; [|discriminate].
      intros H. injection H as <-. exact (np_positions_in_range _ _ _ Ep).
  Qed.

  Lemma expand_widths (F : frame2) ks g : wf F -> mapM (expand_entry (rows_of F)) ks = Some g -> widths F g.
  Proof.
    intros Hwf Eg. pose proof (wf_widths F Hwf) as Hw. unfold widths in *. rewrite Forall_forall in *.
    intros e He. apply mapM_Forall2 in Eg. destruct (Forall2_In_r _ _ _ _ Eg He) as (k & _ & Hk).
    destruct (expand_entry_src row _ _ _ Hk) as [Hin|[_ Hin]]; apply (Hw _ Hin).
  Qed.

  (* which operation of Model/Frame.v a call is, on a given frame *)
  Inductive op_rel (F : frame2) : op2 S -> op row -> Prop :=
  | RSub idx ps : not_int idx -> np_positions idx (f_ntt F) = Some ps ->
      op_rel F (Op2Subframe idx) (OpSubframe ps)
  | RElem idx E mk : (mk = true -> not_int idx) -> retained_elements (length (f_probe F)) idx = Ok E ->
      op_rel F (Op2Elements idx mk) (OpElements E mk)
  | RExp : op_rel F Op2Expand OpExpand
  | RFilt gr : (forall r, length (gr r) = length r) -> op_rel F (Op2Filter (map gr)) (OpFilter gr).

  (* the step of the three-array model is the step of the row model, error for error; a
     successful step re-establishes the invariant and keeps the context *)
  Lemma step2_sim (F : frame2) o o' : wf F -> op_rel F o o' ->
    option_map (@abs_state S L M X) (res_opt (step2 o F)) = step o' (abs_state F) /\
    (forall F', step2 o F = Ok F' -> wf F' /\ same_context F F').
  Proof.
    intros Hwf Hrel. destruct Hrel as [idx ps Hni Hps|idx E mk Hni HE| |gr Hg]; cbn [step2 step abs_state fst snd].
    - (* subframe *)
      rewrite (subframe2_closed F idx Hwf Hni). rewrite np_take_by_positions, (rows_of_length F Hwf), Hps.
      unfold subframe. destruct (mapM (nth_error (rows_of F)) ps) as [g|] eqn:Eg.
      + split; [apply close_abs|]. intros F' H. apply close_wf in H; [tauto|].
        pose proof (wf_widths F Hwf) as Hw. unfold widths in *. rewrite Forall_forall in *.
        intros e He. apply mapM_Forall2 in Eg. destruct (Forall2_In_r _ _ _ _ Eg He) as (i & _ & Hi).
        apply nth_error_In in Hi. auto.
      + split; [reflexivity|discriminate].
    - (* subframe_from_probe_elements *)
      pose proof (retained_elements_in_range _ _ _ HE) as Hrange.
      assert (Hfb : forallb (fun e => e <? length (f_probe F)) E = true).
      { apply forallb_forall. intros e He. rewrite Forall_forall in Hrange. apply Nat.ltb_lt. auto. }
      destruct mk.
      + specialize (Hni eq_refl). pose proof (sub_elements2_mk F idx Hwf Hni) as H.
        rewrite (retained_elements_positions _ idx Hni) in HE.
        destruct (np_positions idx (length (f_probe F))) as [E0|]; [|discriminate]. cbn [of_opt] in HE.
        injection HE as ->. destruct H as (sp & g & _ & Hsp & _ & Hg & Hwg & ->).
        unfold subframe_from_probe_elements. rewrite Hfb, Hsp, Hg. split; [apply close_abs|].
        intros F' H. apply close_wf in H; [tauto|exact Hwg].
      + rewrite (sub_elements2_nomk F idx Hwf), HE. cbn [rbind].
        unfold subframe_from_probe_elements. rewrite Hfb. split; [apply close_abs|].
        intros F' H. apply close_wf in H; [tauto|apply filter_widths; exact Hwf].
    - (* expand *)
      rewrite (expand2_closed F Hwf). unfold expand. destruct (is_complete (rows_of F)).
      + split; [reflexivity|]. intros F' H. injection H as <-. split; [exact Hwf|apply same_context_refl].
      + destruct (mapM (expand_entry (rows_of F)) _) as [g|] eqn:Eg.
        * split; [apply close_abs|]. intros F' H. apply close_wf in H; [tauto|].
          exact (expand_widths F _ g Hwf Eg).
        * split; [reflexivity|discriminate].
    - (* apply_filter *)
      rewrite (apply_filter2_rowwise gr F Hwf Hg). unfold apply_filter. split; [apply close_abs|].
      intros F' H. apply close_wf in H; [tauto|].
      pose proof (wf_widths F Hwf) as Hw. unfold widths in *. rewrite Forall_forall in *.
      intros e He. apply in_map_iff in He as (e0 & <- & He0). unfold payload at 1. cbn [snd]. rewrite Hg. auto.
  Qed.

  (* the only way an index argument makes a call fail differently from the row model: it
     designates no list of positions, and then the call raises the exception of the index *)
  Lemma step2_index_raises (F : frame2) idx : wf F -> not_int idx ->
    (np_positions idx (f_ntt F) = None -> step2 (Op2Subframe idx) F = Err (idx_error idx)) /\
    (np_positions idx (length (f_probe F)) = None ->
       forall mk, step2 (Op2Elements idx mk) F = Err (idx_error idx)).
  Proof.
    intros Hwf Hni. split; intros Hp; cbn [step2].
    - rewrite (subframe2_closed F idx Hwf Hni), np_take_by_positions, (rows_of_length F Hwf), Hp. reflexivity.
    - intros [|].
      + pose proof (sub_elements2_mk F idx Hwf Hni) as H. rewrite Hp in H. exact H.
      + rewrite (sub_elements2_nomk F idx Hwf), (retained_elements_positions _ idx Hni), Hp. reflexivity.
  Qed.

  Definition rowwise (o : op2 S) : Prop :=
    match o with
    | Op2Filter filt => exists gr, filt = map gr /\ forall r : row, length (gr r) = length r
    | _ => True
    end.

  (* a call that succeeds IS an operation of the row model *)
  Lemma step2_Ok_rel (F F1 : frame2) o : wf F -> rowwise o -> step2 o F = Ok F1 -> exists o', op_rel F o o'.
  Proof.
    intros Hwf Hrw H. destruct o as [idx|idx mk| |filt]; cbn [step2] in H.
    - destruct idx as [k|ks|s e st|bs].
      + rewrite subframe2_int in H. destruct (_ && _)%bool in H; discriminate.
      + destruct (np_positions (IdxList ks) (f_ntt F)) as [ps|] eqn:Ep.
        * exists (OpSubframe ps). constructor; [exact I|exact Ep].
        * destruct (step2_index_raises F (IdxList ks) Hwf I) as [Hr _]. cbn [step2] in Hr. rewrite (Hr Ep) in H. discriminate.
      + destruct (np_positions (IdxSlice s e st) (f_ntt F)) as [ps|] eqn:Ep.
        * exists (OpSubframe ps). constructor; [exact I|exact Ep].
        * destruct (step2_index_raises F (IdxSlice s e st) Hwf I) as [Hr _]. cbn [step2] in Hr. rewrite (Hr Ep) in H. discriminate.
      + destruct (np_positions (IdxMask bs) (f_ntt F)) as [ps|] eqn:Ep.
        * exists (OpSubframe ps). constructor; [exact I|exact Ep].
        * destruct (step2_index_raises F (IdxMask bs) Hwf I) as [Hr _]. cbn [step2] in Hr. rewrite (Hr Ep) in H. discriminate.
    - destruct (retained_elements (length (f_probe F)) idx) as [E|e] eqn:HE.
      + exists (OpElements E mk). constructor; [|exact HE]. intros ->.
        destruct idx as [k| | |]; try exact I. rewrite sub_elements2_int_mk in H. destruct (_ && _)%bool in H; discriminate.
      + unfold sub_elements2 in H. rewrite HE in H. discriminate.
    - exists OpExpand. constructor.
    - destruct Hrw as (gr & -> & Hg). exists (OpFilter gr). constructor. exact Hg.
  Qed.

  Section Chains.
    Variable rec : row -> L * L.      (* the physical (tx, rx) elements a row was recorded with *)

    Definition filter2_ok (o : op2 S) : Prop :=
      match o with
      | Op2Filter filt => exists gr, filt = map gr /\ (forall r : row, length (gr r) = length r) /\
                                      forall r, rec (gr r) = rec r
      | _ => True
      end.
    Definition not_expand2 (o : op2 S) : Prop := match o with Op2Expand => False | _ => True end.

    Lemma map_inj_fun (g1 g2 : row -> row) : map g1 = map g2 -> forall r, g1 r = g2 r.
    Proof. intros H r. apply (f_equal (fun f => f [r])) in H. cbn in H. congruence. Qed.

    (* every successful history of calls on real (three-array, numpy-indexed) frames is a
       history of the row model between the corresponding states *)
    Lemma run2_refines (ops : list (op2 S)) : forall (F F' : frame2),
      wf F -> Forall filter2_ok ops -> run2 ops F = Ok F' ->
      wf F' /\ same_context F F' /\
      exists ops', run ops' (abs_state F) = Some (abs_state F') /\
                   Forall (filter_ok row L rec) ops' /\
                   (Forall not_expand2 ops -> Forall (not_expand row) ops').
    Proof.
      induction ops as [|o ops IH]; intros F F' Hwf Hok Hrun; cbn [run2] in Hrun.
      - injection Hrun as <-. split; [exact Hwf|]. split; [apply same_context_refl|].
        exists []. cbn. auto.
      - apply Forall_cons_iff in Hok as [Ho Hok].
        destruct (step2 o F) as [F1|e] eqn:E1; [|discriminate]. cbn [rbind] in Hrun.
        assert (Hrw : rowwise o).
        { destruct o; cbn in *; auto. destruct Ho as (gr & -> & Hg & _). eauto. }
        destruct (step2_Ok_rel F F1 o Hwf Hrw E1) as [o' Hrel].
        destruct (step2_sim F o o' Hwf Hrel) as [Hsim Hinv]. destruct (Hinv F1 E1) as [Hwf1 Hc1].
        destruct (IH F1 F' Hwf1 Hok Hrun) as (Hwf' & Hc' & ops' & Hrun' & Hfo & Hne).
        split; [exact Hwf'|]. split; [exact (same_context_trans _ _ _ Hc1 Hc')|].
        exists (o' :: ops'). rewrite E1 in Hsim. cbn [res_opt option_map] in Hsim.
        split; [cbn [run]; rewrite <- Hsim; exact Hrun'|]. split.
        + constructor; [|exact Hfo]. destruct Hrel as [| | |gr Hg]; cbn; auto.
          destruct Ho as (gr' & Eg & _ & Hr). intros p. rewrite (map_inj_fun gr gr' Eg). apply Hr.
        + intros Hn. apply Forall_cons_iff in Hn as [Hn1 Hn2]. constructor; [|auto].
          destruct Hrel; cbn in *; auto.
    Qed.

    (* hence the attribution invariants of Model/Frame.v hold for the real call sequences *)
    Lemma run2_attribution (ops : list (op2 S)) (F F' : frame2) :
      wf F -> Forall filter2_ok ops -> run2 ops F = Ok F' ->
      wf F' /\ same_context F F' /\
      (attributed_sym row L rec (abs_state F) -> attributed_sym row L rec (abs_state F')) /\
      (Forall not_expand2 ops -> attributed row L rec (abs_state F) -> attributed row L rec (abs_state F')) /\
      (forall t r p, In (t, r, p) (rows_of F') -> exists t0 r0 p0, In (t0, r0, p0) (rows_of F) /\ rec p = rec p0).
    Proof.
      intros Hwf Hok Hrun. destruct (run2_refines ops F F' Hwf Hok Hrun) as (Hwf' & Hc & ops' & Hrun' & Hfo & Hne).
      destruct (chain_full row L rec ops' _ _ Hfo Hrun') as (H1 & H2 & H3).
      split; [exact Hwf'|]. split; [exact Hc|]. split; [exact H1|]. split; [|exact H3].
      intros Hn. apply H2. apply Hne. exact Hn.
    Qed.
  End Chains.

  (* ====================================================================================
     F. the public methods, end to end, in terms of the numpy index *)
  Lemma select_NoDup {A} (l : list A) (ps : list nat) (r : list A) :
    NoDup l -> NoDup ps -> mapM (nth_error l) ps = Some r -> NoDup r.
  Proof.
    intros Hl Hps H. apply mapM_Forall2 in H. induction H as [|i x ps r Hix Hrest IH]; [constructor|].
    apply NoDup_cons_iff in Hps as [Hi Hps]. constructor; [|apply IH; exact Hps].
    intros Hin. destruct (Forall2_In_r _ _ _ _ Hrest Hin) as (j & Hj & Hjx).
    rewrite NoDup_nth_error in Hl. assert (i = j).
    { apply Hl; [apply nth_error_Some; congruence|congruence]. }
    subst j. contradiction.
  Qed.

  Lemma mapM_map_commute {A B} (h : A -> B) (l : list A) (ps : list nat) (r : list A) :
    mapM (nth_error l) ps = Some r -> mapM (nth_error (map h l)) ps = Some (map h r).
  Proof.
    revert r. induction ps as [|i ps IH]; intros r H; cbn [mapM] in *.
    - injection H as <-. reflexivity.
    - rewrite nth_error_map. destruct (nth_error l i) as [x|]; [|discriminate].
      destruct (mapM (nth_error l) ps) as [r0|]; [|discriminate]. injection H as <-.
      rewrite (IH r0 eq_refl). reflexivity.
  Qed.

  (* Frame.subframe: what comes out, and every way it can raise *)
  Lemma subframe2_spec (F : frame2) idx : wf F -> not_int idx ->
    match np_positions idx (f_ntt F) with
    | None => subframe2 F idx = Err (idx_error idx)
    | Some ps =>
        exists g, Forall2 (fun i e => nth_error (rows_of F) i = Some e) ps g /\
          ((NoDup (keys g) /\ exists F', subframe2 F idx = Ok F' /\ rows_of F' = g /\ wf F' /\
                                          f_probe F' = f_probe F /\ same_context F F') \/
           (~ NoDup (keys g) /\ subframe2 F idx = Err ErrValue))
    end.
  Proof.
    intros Hwf Hni. rewrite (subframe2_closed F idx Hwf Hni), np_take_by_positions, (rows_of_length F Hwf).
    destruct (np_positions idx (f_ntt F)) as [ps|] eqn:Ep; [|reflexivity].
    destruct (mapM_nth_error_in_range (rows_of F) ps) as [g Hg].
    { rewrite (rows_of_length F Hwf). exact (np_positions_in_range _ _ _ Ep). }
    rewrite Hg. exists g. split; [apply mapM_Forall2; exact Hg|].
    unfold close. destruct (nodupb (keys g)) eqn:En.
    - apply nodupb_NoDup in En. left. split; [exact En|]. exists (unrows F g (f_probe F)).
      split; [reflexivity|]. split; [apply rows_of_unrows|]. split; [|split; [reflexivity|repeat split]].
      apply unrows_wf; [exact En|].
      pose proof (wf_widths F Hwf) as Hw. unfold widths in *. rewrite Forall_forall in *.
      intros e He. apply mapM_Forall2 in Hg. destruct (Forall2_In_r _ _ _ _ Hg He) as (i & _ & Hi).
      apply nth_error_In in Hi. auto.
    - right. split; [|reflexivity]. intros H. apply nodupb_NoDup in H. congruence.
  Qed.

  (* an index that designates no position twice never makes subframe raise: in particular
     every slice with a non-zero step and every mask of the right length *)
  Lemma subframe2_distinct_positions (F : frame2) idx ps : wf F -> not_int idx ->
    np_positions idx (f_ntt F) = Some ps -> NoDup ps -> exists F', subframe2 F idx = Ok F'.
  Proof.
    intros Hwf Hni Hp Hn. pose proof (subframe2_spec F idx Hwf Hni) as H. rewrite Hp in H.
    destruct H as (g & Hg & [(_ & F' & HF' & _)|(Hd & _)]); [eauto|]. exfalso. apply Hd.
    apply mapM_Forall2 in Hg. apply (mapM_map_commute key) in Hg. fold (keys (rows_of F)) in Hg. fold (keys g) in Hg.
    exact (select_NoDup _ ps _ (wf_rows_NoDup F Hwf) Hn Hg).
  Qed.

  Lemma subframe2_slice_ok (F : frame2) s e st : wf F -> st <> Some 0%Z ->
    exists F', subframe2 F (IdxSlice s e st) = Ok F'.
  Proof.
    intros Hwf Hst.
    destruct (np_positions (IdxSlice s e st) (f_ntt F)) as [ps|] eqn:Ep.
    - exact (subframe2_distinct_positions F (IdxSlice s e st) ps Hwf I Ep (slice_positions_NoDup _ _ _ _ _ Ep)).
    - exfalso. rewrite slice_positions in Ep. unfold slice_indices in Ep.
      destruct st as [x|]; cbn in Ep.
      + destruct (Z.eqb_spec x 0) as [->|]; [congruence|discriminate].
      + discriminate.
  Qed.

  (* (model repair: the empty mask joins the masks of the right length) *)
  Lemma subframe2_mask_ok (F : frame2) bs : wf F -> length bs = f_ntt F \/ bs = [] ->
    exists F', subframe2 F (IdxMask bs) = Ok F'.
  Proof.
    intros Hwf Hl.
    assert (Ep : np_positions (IdxMask bs) (f_ntt F) = Some (mask_select bs (seq 0 (f_ntt F)))).
    { apply mask_positions_spec. split; [exact Hl|reflexivity]. }
    apply (subframe2_distinct_positions F (IdxMask bs) _ Hwf I Ep).
    apply sorted_lt_NoDup. exact (proj1 (mask_positions_sorted _ _ _ Ep)).
  Qed.

  (* Frame.subframe_from_probe_elements(idx, make_subprobe=True), end to end:
     E = np.arange(numelements)[idx];  the sub-probe is probe[idx], element k of it being
     element E[k] of the probe;  the rows kept are those with both elements in E, in order,
     with their samples, relabelled so that E[new] = old *)
  Lemma sub_elements2_spec (F F' : frame2) idx E : wf F -> not_int idx ->
    np_positions idx (length (f_probe F)) = Some E -> sub_elements2 F idx true = Ok F' ->
    np_take idx (f_probe F) = Some (f_probe F') /\
    Forall2 (fun e x => nth_error (f_probe F) e = Some x) E (f_probe F') /\
    Forall2 (renumbered row E) (filter (retained E) (rows_of F)) (rows_of F') /\
    wf F' /\ same_context F F'.
  Proof.
    intros Hwf Hni HE H. pose proof (sub_elements2_mk F idx Hwf Hni) as Hmk. rewrite HE in Hmk.
    destruct Hmk as (sp & g & Hsp & Hsp' & _ & Hg & Hwg & Hcl). rewrite Hcl in H.
    destruct (close_wf F F' g sp Hwg H) as (Hwf' & Hc & Hpr & Hrows). rewrite Hpr, Hrows.
    split; [exact Hsp|]. split; [apply subprobe_spec; exact Hsp'|]. split; [|split; assumption].
    pose proof (np_positions_in_range idx _ E HE) as Hrange. rewrite Forall_forall in Hrange.
    apply mapM_Forall2 in Hg. eapply Forall2_impl_In; [exact Hg|].
    intros e e' He _ Hr. apply filter_In in He as [_ He]. apply retained_spec in He as [Ht Hrx].
    destruct (mapper_spec (length (f_probe F)) E _ Ht (Hrange _ Ht)) as (a & Ha1 & Ha2).
    destruct (mapper_spec (length (f_probe F)) E _ Hrx (Hrange _ Hrx)) as (b & Hb1 & Hb2).
    unfold remap in Hr. rewrite Ha1, Hb1 in Hr. injection Hr as <-.
    unfold renumbered, key, payload. cbn [fst snd]. auto.
  Qed.

  (* no spurious error: an index that numpy accepts on an axis of numelements entries never
     makes subframe_from_probe_elements raise (with or without sub-probe, repeated
     elements included) *)
  Lemma sub_elements2_total (F : frame2) idx E mk : wf F -> not_int idx ->
    np_positions idx (length (f_probe F)) = Some E -> exists F', sub_elements2 F idx mk = Ok F'.
  Proof.
    intros Hwf Hni HE.
    assert (Hrel : op_rel F (Op2Elements idx mk) (OpElements E mk)).
    { constructor; [intros _; exact Hni|]. rewrite (retained_elements_positions _ idx Hni), HE. reflexivity. }
    destruct (step2_sim F _ _ Hwf Hrel) as [Hsim _]. cbn [step2 step abs_state fst snd] in Hsim.
    destruct (sub_elements_total row L (f_probe F) (rows_of F) E mk) as [s Hs].
    { pose proof (np_positions_in_range idx _ E HE) as Hr. rewrite Forall_forall in Hr. exact Hr. }
    { apply wf_rows_NoDup. exact Hwf. }
    rewrite Hs in Hsim. destruct (sub_elements2 F idx mk) as [F'|e]; [eauto|discriminate].
  Qed.

  (* expansion: never raises, result complete, a second expansion returns the same object *)
  Lemma expand2_idempotent (F F' : frame2) : wf F -> expand2 F = Ok F' ->
    wf F' /\ is_complete2 F' = true /\ expand2 F' = Ok F' /\ f_probe F' = f_probe F /\ same_context F F'.
  Proof.
    intros Hwf H. destruct (step2_sim F Op2Expand OpExpand Hwf (RExp F)) as [Hsim Hinv].
    cbn [step2 step abs_state fst snd] in *. destruct (Hinv F' H) as [Hwf' Hc].
    rewrite H in Hsim. cbn [res_opt option_map] in Hsim.
    destruct (expand (rows_of F)) as [g|] eqn:Eg; [|discriminate]. injection Hsim as Hpr Hrows.
    pose proof (expand_is_complete row _ _ Eg) as Hcomp. rewrite <- Hrows in Hcomp.
    split; [exact Hwf'|]. split; [rewrite (is_complete2_rows F' Hwf'); exact Hcomp|].
    split; [rewrite (expand2_closed F' Hwf'), Hcomp; reflexivity|]. split; [exact Hpr|exact Hc].
  Qed.
End Frame2.
