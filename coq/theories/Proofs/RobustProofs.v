(* Proofs/RobustProofs.v — lemmas about Model/Robust.v and the robust DAS kernels (C02). *)
From Coq Require Import List Reals Lra Lia ZArith Bool.
From Arim Require Import Base.Num Base.NumR Model.Das Model.Robust Proofs.DasProofs.
Import ListNotations.

(* ---- the vector handed to geomed / huber_m_estimate ----------------------
   valid for EVERY numeric instance (no algebraic law: also true of floats) *)
Section Samples.
  Context {T D : Type} (N : Num T) (V : Data T D).

  Lemma fold_append_map {A} (g : A -> D) (l : list A) : forall acc,
    fold_left (fun datapoints s => datapoints ++ [g s]) l acc = acc ++ map g l.
  Proof.
    induction l as [|s l IH]; intros acc; cbn [fold_left map].
    - now rewrite app_nil_r.
    - rewrite IH, <- app_assoc. reflexivity.
  Qed.

  Lemma median_nearest_samples_eq ns invdt t0 fill r ss :
    median_nearest_samples N V ns invdt t0 fill r ss = map (term_noamp_nearest N V ns invdt t0 fill r) ss.
  Proof. unfold median_nearest_samples. apply (fold_append_map (term_noamp_nearest N V ns invdt t0 fill r) ss []). Qed.

  Lemma median_lanczos_samples_eq a ns invdt t0 fill r ss :
    median_lanczos_samples N V a ns invdt t0 fill r ss = map (term_noamp_lanczos N V a ns invdt t0 fill r) ss.
  Proof. unfold median_lanczos_samples. apply (fold_append_map (term_noamp_lanczos N V a ns invdt t0 fill r) ss []). Qed.

  Lemma huber_lanczos_samples_eq a ns invdt t0 fill r ss :
    huber_lanczos_samples N V a ns invdt t0 fill r ss = map (term_noamp_lanczos N V a ns invdt t0 fill r) ss.
  Proof. apply median_lanczos_samples_eq. Qed.

  (* the mean kernel divides the sum of the very same vector *)
  Lemma accumulate_of_samples (term : scan D -> D) ss :
    accumulate N V term ss = ddiv V (dsum_left V (map term ss)) (nofZ N (Z.of_nat (length ss))).
  Proof.
    unfold accumulate, dsum_left. f_equal.
    generalize (dzero V). induction ss as [|s ss IH]; intros acc; cbn [fold_left map]; [reflexivity|apply IH].
  Qed.
End Samples.

Local Open Scope R_scope.

(* over the reals the delayed samples are the spec's summands *)
Lemma robust_samples_spec_nearest ns dt t0 fill r (ssw : list (scan (R * R) * R)) :
  map (term_noamp_nearest NumR (DataCplx NumR) ns (1 / dt) t0 fill r) (map (wscan (DataCplx NumR)) ssw)
  = map (spec_term NumR (DataCplx NumR) Nearest false ns dt t0 fill r) ssw.
Proof. rewrite map_map. apply map_ext. intros sw. apply (term_noamp_nearest_spec _ DataCplx_laws). Qed.

Lemma robust_samples_spec_lanczos a ns dt t0 fill r (ssw : list (scan (R * R) * R)) :
  map (term_noamp_lanczos NumR (DataCplx NumR) a ns (1 / dt) t0 fill r) (map (wscan (DataCplx NumR)) ssw)
  = map (spec_term NumR (DataCplx NumR) (Lanczos a) false ns dt t0 fill r) ssw.
Proof. rewrite map_map. apply map_ext. intros sw. apply (term_noamp_lanczos_spec _ DataCplx_laws). Qed.

(* the robust wrappers: geomed / Huber of exactly the spec's delayed samples *)
Definition spec_samples sc ns dt t0 fill (w : option (list R)) (ss : list (scan (R * R))) (r : prow R (R * R)) :=
  map (spec_term NumR (DataCplx NumR) sc false ns dt t0 fill r)
      (combine ss (eff_weights NumR w (length ss))).

Local Opaque geomed huber_m_estimate.
Lemma das_median_nearest_spec xtol c rho ns dt t0 fill w rows ss :
  das_robust NumR Median Nearest xtol c rho ns dt t0 fill w rows ss =
  if weights_ok w ss
  then Some (map (fun r => res_point (geomed NumR (spec_samples Nearest ns dt t0 fill w ss r) xtol 200 c rho)) rows)
  else None.
Proof.
  unfold das_robust, Robust.V. rewrite (weigh_timetraces_eff _ DataCplx_laws).
  destruct (weights_ok w ss); [|reflexivity]. apply f_equal. unfold k_median_nearest. apply map_ext. intros r.
  rewrite median_nearest_samples_eq. cbn [NumR n1 ndiv]. unfold Robust.V. rewrite robust_samples_spec_nearest. reflexivity.
Qed.

Lemma das_median_lanczos_spec a xtol c rho ns dt t0 fill w rows ss :
  das_robust NumR Median (Lanczos a) xtol c rho ns dt t0 fill w rows ss =
  if weights_ok w ss
  then Some (map (fun r => res_point (geomed NumR (spec_samples (Lanczos a) ns dt t0 fill w ss r) xtol 200 c rho)) rows)
  else None.
Proof.
  unfold das_robust, Robust.V. rewrite (weigh_timetraces_eff _ DataCplx_laws).
  destruct (weights_ok w ss); [|reflexivity]. apply f_equal. unfold k_median_lanczos. apply map_ext. intros r.
  rewrite median_lanczos_samples_eq. cbn [NumR n1 ndiv]. unfold Robust.V. rewrite robust_samples_spec_lanczos. reflexivity.
Qed.

Lemma das_huber_lanczos_spec a tau xtol c rho ns dt t0 fill w rows ss :
  das_robust NumR (Huber tau) (Lanczos a) xtol c rho ns dt t0 fill w rows ss =
  if weights_ok w ss
  then Some (map (fun r => res_point (huber_m_estimate NumR (spec_samples (Lanczos a) ns dt t0 fill w ss r) tau xtol 600)) rows)
  else None.
Proof.
  unfold das_robust, Robust.V. rewrite (weigh_timetraces_eff _ DataCplx_laws).
  destruct (weights_ok w ss); [|reflexivity]. apply f_equal. unfold k_huber_lanczos. apply map_ext. intros r.
  rewrite huber_lanczos_samples_eq. cbn [NumR n1 ndiv]. unfold Robust.V. rewrite robust_samples_spec_lanczos. reflexivity.
Qed.

(* ---- Huber: a fixed point of _huber_iter solves the estimating equation --- *)
Definition Rsum (l : list R) : R := fold_right Rplus 0 l.

Lemma huber_sums_inv data tau z : forall a b c,
  fold_left (fun st d => let '(sum_w, x, y) := st in
                         let w_i := huber_weight NumR tau z d in
                         (nadd NumR sum_w w_i, nadd NumR x (nmul NumR (fst d) w_i), nadd NumR y (nmul NumR (snd d) w_i)))
            data (a, b, c)
  = (a + Rsum (map (huber_weight NumR tau z) data),
     b + Rsum (map (fun d => fst d * huber_weight NumR tau z d) data),
     c + Rsum (map (fun d => snd d * huber_weight NumR tau z d) data)).
Proof.
  induction data as [|d data IH]; intros a b c; cbn [fold_left map Rsum fold_right].
  - f_equal; [f_equal|]; ring.
  - rewrite IH. cbn [NumR nadd nmul]. unfold Rsum. f_equal; [f_equal|]; ring.
Qed.

Lemma huber_psi_sum_eq data tau z :
  huber_psi_sum NumR data tau z =
  (fst z * Rsum (map (huber_weight NumR tau z) data) - Rsum (map (fun d => fst d * huber_weight NumR tau z d) data),
   snd z * Rsum (map (huber_weight NumR tau z) data) - Rsum (map (fun d => snd d * huber_weight NumR tau z d) data)).
Proof.
  unfold huber_psi_sum. induction data as [|d data IH]; cbn [fold_right map Rsum].
  - cbn [NumR n0]. f_equal; ring.
  - rewrite IH. cbn [fst snd NumR nadd nmul nsub]. unfold Rsum. f_equal; ring.
Qed.

Lemma huber_fixed_point_R data tau z :
  fst (fst (huber_sums NumR data tau z)) <> 0 ->
  huber_iter NumR data tau z = z ->
  huber_psi_sum NumR data tau z = (0, 0).
Proof.
  intros Hsw Hfix. rewrite huber_psi_sum_eq.
  unfold huber_iter in Hfix. unfold huber_sums in Hsw, Hfix.
  rewrite huber_sums_inv in Hsw, Hfix. cbn [fst snd NumR n0 n1 ndiv nmul] in Hsw, Hfix.
  set (sw := Rsum (map (huber_weight NumR tau z) data)) in *.
  set (sx := Rsum (map (fun d => fst d * huber_weight NumR tau z d) data)) in *.
  set (sy := Rsum (map (fun d => snd d * huber_weight NumR tau z d) data)) in *.
  assert (Hsw' : sw <> 0) by (intro E; apply Hsw; rewrite E; ring).
  destruct z as [zx zy]. injection Hfix as Hx Hy. cbn [fst snd].
  f_equal.
  - rewrite <- Hx. field. lra.
  - rewrite <- Hy. field. lra.
Qed.

(* ---- geomed: the triple returned IS the inverse of the accumulated Hessian,
   and the direction used is the Newton direction -H^-1 g -------------------- *)
Lemma geomed_newton_step_R data z :
  let '(gx, gy, h11, h12, h22) := grad_hess NumR data z in
  let '(gx', gy', i11, i12, i22) := gradf_and_inv_hessf NumR data z in
  h11 * h22 - h12 * h12 <> 0 ->
  gx' = gx /\ gy' = gy /\
  h11 * i11 + h12 * i12 = 1 /\ h11 * i12 + h12 * i22 = 0 /\
  h12 * i11 + h22 * i12 = 0 /\ h12 * i12 + h22 * i22 = 1 /\
  (* p = (-i11 gx - i12 gy, -i12 gx - i22 gy) solves H p = -g *)
  (let px := - i11 * gx - i12 * gy in let py := - i12 * gx - i22 * gy in
   h11 * px + h12 * py = - gx /\ h12 * px + h22 * py = - gy).
Proof.
  unfold gradf_and_inv_hessf.
  destruct (grad_hess NumR data z) as [[[[gx gy] h11] h12] h22].
  cbn [NumR n1 ndiv nmul nsub nopp]. intros Hdet.
  repeat split; try reflexivity; field; exact Hdet.
Qed.

(* the accumulated (gx, gy) are the gradient of sum_i |z - d_i| *)
Lemma grad_hess_grad_inv data z : forall gx gy a b c,
  let st := fold_left (grad_hess_step NumR z) data (gx, gy, a, b, c) in
  fst (fst (fst (fst st))) = gx + fst (geomed_grad NumR data z) /\
  snd (fst (fst (fst st))) = gy + snd (geomed_grad NumR data z).
Proof.
  induction data as [|d data IH]; intros gx gy a b c; cbn [fold_left geomed_grad fold_right].
  - cbn [fst snd NumR n0]. split; ring.
  - cbn [grad_hess_step].
    match goal with |- context [fold_left _ data (?g1, ?g2, ?a1, ?a2, ?a3)] =>
      destruct (IH g1 g2 a1 a2 a3) as [H1 H2] end.
    cbn zeta in H1, H2. cbn zeta. rewrite H1, H2. fold (geomed_grad NumR data z).
    cbn [fst snd NumR nadd nsub nmul ndiv n1 nsqrt dist]. unfold Rdiv. split; ring.
Qed.

Lemma grad_hess_is_gradient data z :
  let '(gx, gy, _, _, _) := grad_hess NumR data z in (gx, gy) = geomed_grad NumR data z.
Proof.
  unfold grad_hess. pose proof (grad_hess_grad_inv data z 0 0 0 0 0) as H. cbn zeta in H.
  cbn [NumR n0].
  destruct (fold_left (grad_hess_step NumR z) data (0, 0, 0, 0, 0)) as [[[[gx gy] h11] h12] h22].
  cbn [fst snd] in H. destruct H as [H1 H2]. rewrite H1, H2.
  destruct (geomed_grad NumR data z) as [u v]. cbn [fst snd]. f_equal; ring.
Qed.

(* ---- a zero of the gradient (away from the data) is a global minimiser of
   z |-> sum_i |z - d_i|  (convexity; what is NOT proved: that the iteration
   converges to such a zero) ------------------------------------------------ *)
Definition sumdist (data : list (R * R)) (z : R * R) : R := Rsum (map (dist NumR z) data).

Lemma dist_R z d : dist NumR z d = sqrt ((fst z - fst d) * (fst z - fst d) + (snd z - snd d) * (snd z - snd d)).
Proof. reflexivity. Qed.

Lemma geomed_f_sumdist data z : geomed_f NumR data z = sumdist data z.
Proof.
  unfold geomed_f, sumdist. cbn [NumR n0 nadd].
  assert (G : forall acc, fold_left (fun out d => out + dist NumR z d) data acc = acc + Rsum (map (dist NumR z) data)).
  { induction data as [|d data IH]; intros acc; cbn [fold_left map Rsum fold_right]; [ring|].
    rewrite IH. unfold Rsum. ring. }
  rewrite G. ring.
Qed.

(* Cauchy-Schwarz in the plane *)
Lemma cauchy2 a b c d : a * c + b * d <= sqrt (a * a + b * b) * sqrt (c * c + d * d).
Proof.
  assert (H1 : 0 <= a * a + b * b) by (pose proof (Rle_0_sqr a); pose proof (Rle_0_sqr b); unfold Rsqr in *; lra).
  assert (H2 : 0 <= c * c + d * d) by (pose proof (Rle_0_sqr c); pose proof (Rle_0_sqr d); unfold Rsqr in *; lra).
  rewrite <- (sqrt_mult _ _ H1 H2).
  destruct (Rle_dec 0 (a * c + b * d)) as [Hpos|Hneg].
  - rewrite <- (sqrt_Rsqr (a * c + b * d)) at 1 by exact Hpos. apply sqrt_le_1_alt. unfold Rsqr.
    pose proof (Rle_0_sqr (a * d - b * c)) as H3. unfold Rsqr in H3.
    replace ((a * a + b * b) * (c * c + d * d))
      with ((a * c + b * d) * (a * c + b * d) + (a * d - b * c) * (a * d - b * c)) by ring. lra.
  - apply Rle_trans with 0; [lra|apply sqrt_pos].
Qed.

(* supporting hyperplane of the Euclidean norm at z - d <> 0 *)
Lemma dist_support z d y : dist NumR z d <> 0 ->
  dist NumR z d + ((fst z - fst d) / dist NumR z d * (fst y - fst z) + (snd z - snd d) / dist NumR z d * (snd y - snd z))
  <= dist NumR y d.
Proof.
  intros Hnz. rewrite !dist_R in *.
  set (a := fst z - fst d) in *. set (b := snd z - snd d) in *.
  set (n := sqrt (a * a + b * b)) in *.
  assert (Hn : 0 < n).
  { destruct (sqrt_pos (a * a + b * b)) as [H|H]; [exact H|]. exfalso. apply Hnz. symmetry. exact H. }
  assert (Hnn : n * n = a * a + b * b).
  { apply sqrt_sqrt. pose proof (Rle_0_sqr a); pose proof (Rle_0_sqr b); unfold Rsqr in *; lra. }
  replace (fst y - fst d) with (a + (fst y - fst z)) by (unfold a; ring).
  replace (snd y - snd d) with (b + (snd y - snd z)) by (unfold b; ring).
  set (u := fst y - fst z). set (v := snd y - snd z).
  pose proof (cauchy2 a b (a + u) (b + v)) as CS. fold n in CS.
  apply Rmult_le_reg_l with n; [exact Hn|].
  replace (n * (n + (a / n * u + b / n * v))) with (n * n + (a * u + b * v)) by (field; lra).
  rewrite Hnn. lra.
Qed.

Lemma geomed_stationary_is_min_R data z :
  Forall (fun d => dist NumR z d <> 0) data ->
  geomed_grad NumR data z = (0, 0) ->
  forall y, sumdist data z <= sumdist data y.
Proof.
  intros Hnz Hg y.
  assert (G : sumdist data z + (fst (geomed_grad NumR data z) * (fst y - fst z)
                                + snd (geomed_grad NumR data z) * (snd y - snd z)) <= sumdist data y).
  { clear Hg. unfold sumdist. induction Hnz as [|d data Hd _ IH]; cbn [map Rsum fold_right geomed_grad].
    - cbn [fst snd NumR n0]. lra.
    - fold (geomed_grad NumR data z). fold (Rsum (map (dist NumR z) data)). fold (Rsum (map (dist NumR y) data)).
      pose proof (dist_support z d y Hd) as S. cbn [fst snd NumR nadd nsub ndiv]. nra. }
  rewrite Hg in G. cbn [fst snd] in G. lra.
Qed.
