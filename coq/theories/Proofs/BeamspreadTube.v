(* Proofs/BeamspreadTube.v — why beta is the ray-tube factor (C06, curvature_transfer):
   differentiating Snell's law and matching the footprint of an infinitesimal fan of rays on
   a flat interface. *)
From Coq Require Import Reals Lra.
From Coquelicot Require Import Coquelicot.
From Arim Require Import Base.Num Base.NumR Model.Beamspread.
Local Open Scope R_scope.

Lemma is_derive_asin x : -1 < x < 1 -> is_derive asin x (1 / sqrt (1 - x²)).
Proof.
  intros Hx. apply is_derive_Reals.
  rewrite <- (derive_pt_asin x Hx).
  apply (derive_pt_eq_1 asin x _ (derivable_pt_asin x Hx)). reflexivity.
Qed.

(* d/d theta of the refracted angle asin(kappa sin theta) *)
Lemma snell_map_derivative kappa theta : -1 < kappa * sin theta < 1 ->
  is_derive (fun t => asin (kappa * sin t)) theta
            (kappa * cos theta / cos (asin (kappa * sin theta))).
Proof.
  intros H.
  assert (Hg : is_derive (fun t => kappa * sin t) theta (kappa * cos theta)).
  { auto_derive; [exact I | ring]. }
  pose proof (is_derive_comp asin (fun t => kappa * sin t) theta _ _ (is_derive_asin _ H) Hg) as Hc.
  rewrite cos_asin by lra.
  replace (kappa * cos theta / sqrt (1 - (kappa * sin theta)²))
    with (scal (kappa * cos theta) (1 / sqrt (1 - (kappa * sin theta)²))).
  - exact Hc.
  - unfold scal; simpl; unfold mult; simpl. field.
    apply Rgt_not_eq, sqrt_lt_R0. unfold Rsqr. nra.
Qed.

(* Footprint matching.  A fan of rays from a (virtual) source at distance rho along the
   central ray (incidence theta on a flat interface) covers dx = rho dtheta / cos theta on
   the interface; after refraction the rays leave with angles theta' = f(theta), f' = d, and
   appear to come from a source at distance rho' with dx = rho' dtheta' / cos theta'.  Hence
   rho' = rho cos theta' / (cos theta * d); with d the Snell derivative this is rho * beta. *)
Definition tube_transfer (rho cos_in cos_out d : R) : R := rho * cos_out / (cos_in * d).

Lemma curvature_transfer_R c_in c_out theta rho :
  0 < c_in -> 0 < c_out -> -1 < c_out / c_in * sin theta < 1 -> cos theta <> 0 ->
  let theta' := asin (c_out / c_in * sin theta) in
  is_derive (fun t => asin (c_out / c_in * sin t)) theta (c_out / c_in * cos theta / cos theta') /\
  tube_transfer rho (cos theta) (cos theta') (c_out / c_in * cos theta / cos theta')
  = rho * beta_of NumR c_in c_out (cos theta) (cos theta').
Proof.
  intros Hi Ho Hs Hc theta'. split; [apply snell_map_derivative; exact Hs|].
  assert (Hc' : 0 < cos theta').
  { unfold theta'. rewrite cos_asin by lra. apply sqrt_lt_R0. unfold Rsqr. nra. }
  unfold tube_transfer, beta_of. cbn [NumR nmul ndiv]. field. repeat split; lra.
Qed.

(* the same with the standard library's notion of derivative *)
Lemma curvature_transfer_std c_in c_out theta rho :
  0 < c_in -> 0 < c_out -> -1 < c_out / c_in * sin theta < 1 -> cos theta <> 0 ->
  let theta' := asin (c_out / c_in * sin theta) in
  derivable_pt_lim (fun t => asin (c_out / c_in * sin t)) theta (c_out / c_in * cos theta / cos theta') /\
  tube_transfer rho (cos theta) (cos theta') (c_out / c_in * cos theta / cos theta')
  = rho * beta_of NumR c_in c_out (cos theta) (cos theta').
Proof.
  intros Hi Ho Hs Hc theta'. destruct (curvature_transfer_R c_in c_out theta rho Hi Ho Hs Hc) as [D E].
  split; [apply is_derive_Reals; exact D | exact E].
Qed.
