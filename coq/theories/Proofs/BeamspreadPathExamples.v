(* Proofs/BeamspreadPathExamples.v — concrete set-ups for Model/BeamspreadPath.v (C06):
   (1) executions of the path-level model by vm_compute on binary64 floats (the tie
       examples of notes/prover_C06_TIE.md, replayed against arim);
   (2) real-number set-ups showing that the hypotheses of the theorems of Props/C06.v can
       be met (non-vacuity).
   No theorem of Props/C06.v depends on the float instance below. *)
From Coq Require Import List ZArith Bool Arith Lia Reals Lra Floats.
From Arim Require Import Base.Num Base.NumR Base.NumF Model.Vec3 Model.RayGeom Model.Beamspread Model.BeamspreadPath
                         Proofs.BeamspreadProofs Proofs.BeamspreadPathProofs Proofs.BeamspreadPathRealProofs.
Import ListNotations.

(* ---- (1) float executions ---------------------------------------------------------------- *)
(* NumF has no libm.  NumFn adds the values of arccos, sin, cos that numpy returns EXACTLY at
   the arguments met by rays hitting every wall along its normal: arccos(1.0) = 0.0,
   arccos(-1.0) = 0x1.921fb54442d18p+1 (= np.pi), sin(0.0) = 0.0, cos(0.0) = 1.0; anything
   else is nan (so an execution that would need libm is visible). *)
Section FloatRuns.
  Local Open Scope float_scope.
  Definition pi_f : float := 0x1.921fb54442d18p+1.
  Definition NumFn : Num float := {|
    n0 := zero; n1 := one;
    nadd := add; nsub := sub; nmul := mul; ndiv := div; nopp := opp;
    nsqrt := sqrt;
    nsin := fun x => if eqb x 0 then 0 else nan;
    ncos := fun x => if eqb x 0 then 1 else nan;
    nasin := fun _ => nan;
    nacos := fun x => if eqb x 1 then 0 else if eqb x (-1) then pi_f else nan;
    natan2 := fun _ _ => nan; nexp := fun _ => nan; nln := fun _ => nan; npi := pi_f;
    nltb := ltb; nleb := leb; neqb := eqb;
    nofZ := Fof_Z;
    nfloor := nfloor NumF; ntrunc := ntrunc NumF; nround := nround NumF |}.

  Definition I3f : mat3 float := ((1, 0, 0), (0, 1, 0), (0, 0, 1)).
  Definition J3f : mat3 float := ((1, 0, 0), (0, -1, 0), (0, 0, -1)).     (* normal along -z *)
  (* an interface with ONE point p, frame B, are_normals_on_inc_rays_side = fl,
     are_normals_on_out_rays_side = None *)
  Definition mkf (p : vec3 float) (B : mat3 float) (fl : option bool) : iface (T:=float) := mkIface [p] [B] fl None.
  Definition ray4 : list nat := [0; 0; 0; 0]%nat.

  (* E1: four interfaces on the z axis at z = 0, 3, 8, 10; velocities 1, 2, 4 *)
  Definition ifs_E1 : list (iface (T:=float)) :=
    [mkf (0, 0, 0) I3f None; mkf (0, 0, 3) I3f (Some false); mkf (0, 0, 8) J3f (Some true); mkf (0, 0, 10) I3f None].
  Example run_E1_reads :
    path_legs NumFn ifs_E1 ray4 = Val [3; 5; 2] /\ path_thetas NumFn ifs_E1 ray4 = Val [0; 0].
  Proof. split; vm_compute; reflexivity. Qed.
  (* d = 3 + 5/(1/2) + 2/((1/2)(2/4)) = 21 ; reverse: d' = 2 + 5/(4/2) + 3/((4/2)(2/1)) = 21/4 *)
  Example run_E1 :
    beamspread_2d_for_path NumFn ifs_E1 ray4 [1; 2; 4] = Val 0x1.bee9056fb9c39p-3 /\
    reverse_beamspread_2d_for_path NumFn ifs_E1 ray4 [1; 2; 4] = Val 0x1.bee9056fb9c39p-2.
  Proof. split; vm_compute; reflexivity. Qed.

  (* E2: one leg from (0,0,0) to (3,0,4); the velocity tuple is never indexed *)
  Definition ifs_E2 : list (iface (T:=float)) := [mkf (0, 0, 0) I3f None; mkf (3, 0, 4) I3f None].
  Example run_E2 :
    beamspread_2d_for_path NumFn ifs_E2 [0; 0]%nat [7] = Val 0x1.c9f25c5bfedd9p-2 /\
    reverse_beamspread_2d_for_path NumFn ifs_E2 [0; 0]%nat [7] = Val 0x1.c9f25c5bfedd9p-2 /\
    beamspread_2d_for_path NumFn ifs_E2 [0; 0]%nat [] = Val 0x1.c9f25c5bfedd9p-2.
  Proof. repeat split; vm_compute; reflexivity. Qed.

  (* E3: fewer than two interfaces (only reachable with a hand-made rays object) *)
  Example run_E3 :
    beamspread_2d_for_path NumFn [mkf (0, 0, 0) I3f None] [0]%nat [] = IndexErr /\
    reverse_beamspread_2d_for_path NumFn [mkf (0, 0, 0) I3f None] [0]%nat [] = NoLeg /\
    beamspread_2d_for_path NumFn [] [] [] = IndexErr /\
    reverse_beamspread_2d_for_path NumFn [] [] [] = IndexErr.
  Proof. repeat split; vm_compute; reflexivity. Qed.

  (* E4 / E5: the incoming-side flag missing at an interior interface *)
  Definition ifs_E4 : list (iface (T:=float)) :=
    [mkf (0, 0, 0) I3f None; mkf (0, 0, 3) I3f None; mkf (0, 0, 8) J3f (Some true); mkf (0, 0, 10) I3f None].
  Definition ifs_E5 : list (iface (T:=float)) :=
    [mkf (0, 0, 0) I3f None; mkf (0, 0, 3) I3f (Some false); mkf (0, 0, 8) J3f None; mkf (0, 0, 10) I3f None].
  Example run_E4_E5 :
    beamspread_2d_for_path NumFn ifs_E4 ray4 [1; 2; 4] = ValueErr /\
    reverse_beamspread_2d_for_path NumFn ifs_E4 ray4 [1; 2; 4] = ValueErr /\
    beamspread_2d_for_path NumFn ifs_E5 ray4 [1; 2; 4] = ValueErr /\
    reverse_beamspread_2d_for_path NumFn ifs_E5 ray4 [1; 2; 4] = ValueErr.
  Proof. repeat split; vm_compute; reflexivity. Qed.

  (* E6: other frames and flags at the first and at the last interface: same answers as E1 *)
  Definition ifs_E6 : list (iface (T:=float)) :=
    [mkf (0, 0, 0) J3f (Some true); mkf (0, 0, 3) I3f (Some false); mkf (0, 0, 8) J3f (Some true); mkf (0, 0, 10) J3f (Some false)].
  Example run_E6 :
    beamspread_2d_for_path NumFn ifs_E6 ray4 [1; 2; 4] = Val 0x1.bee9056fb9c39p-3 /\
    reverse_beamspread_2d_for_path NumFn ifs_E6 ray4 [1; 2; 4] = Val 0x1.bee9056fb9c39p-2.
  Proof. split; vm_compute; reflexivity. Qed.

  (* E8: change of length unit p -> 4 p on E1: both answers exactly halved *)
  Example run_E8 :
    beamspread_2d_for_path NumFn (map (scale_iface NumFn 4) ifs_E1) ray4 [1; 2; 4] = Val 0x1.bee9056fb9c39p-4 /\
    reverse_beamspread_2d_for_path NumFn (map (scale_iface NumFn 4) ifs_E1) ray4 [1; 2; 4] = Val 0x1.bee9056fb9c39p-3.
  Proof. split; vm_compute; reflexivity. Qed.

  (* E9: rigid motion of E1: quarter turn about the x axis, (x, y, z) -> (x, -z, y), then translation
     by (1, 2, 3); frames B -> B.Q^T: same answers as E1 *)
  Definition Q90f : mat3 float := ((1, 0, 0), (0, 0, -1), (0, 1, 0)).
  Example run_E9 :
    map (fun f => if_points f) (map (move_iface NumFn Q90f (1, 2, 3)) ifs_E1)
      = [[(1, 2, 3)]; [(1, -1, 3)]; [(1, -6, 3)]; [(1, -8, 3)]] /\
    beamspread_2d_for_path NumFn (map (move_iface NumFn Q90f (1, 2, 3)) ifs_E1) ray4 [1; 2; 4] = Val 0x1.bee9056fb9c39p-3 /\
    reverse_beamspread_2d_for_path NumFn (map (move_iface NumFn Q90f (1, 2, 3)) ifs_E1) ray4 [1; 2; 4] = Val 0x1.bee9056fb9c39p-2.
  Proof. repeat split; vm_compute; reflexivity. Qed.

  (* E7: the floating-point outcome of the last line, every class of argument (numpy:
     np.reciprocal(np.sqrt(d)) = nan, inf, 0.5, nan, -inf, 0.0, nan for the seven arguments) *)
  Example run_E7 :
    recip_sqrt_outcome NumF (-1) = NaN /\ recip_sqrt_outcome NumF 0 = PlusInf /\
    recip_sqrt_outcome NumF 4 = Finite 0.5 /\
    recip_sqrt_outcome NumF nan = NaN /\ recip_sqrt_outcome NumF (-0) = MinusInf /\
    recip_sqrt_outcome NumF infinity = Finite 0 /\ recip_sqrt_outcome NumF neg_infinity = NaN.
  Proof. repeat split; vm_compute; reflexivity. Qed.

  (* E10: the same point of the same wall met twice (positions 1 and 2): the leg between the two
     visits has length 0, its angle is arccos(0/0) = nan, gamma and the virtual distance are nan;
     the functions return nan (no exception) and the outcome read from the object is NaN *)
  Definition ifs_E10 : list (iface (T:=float)) :=
    [mkf (0, 0, 0) I3f None; mkf (0, 0, 3) I3f (Some false); mkf (0, 0, 3) I3f (Some false); mkf (0, 0, 10) I3f None].
  Example run_E10 :
    path_legs NumFn ifs_E10 ray4 = Val [3; 0; 7] /\ path_thetas NumFn ifs_E10 ray4 = Val [0; nan] /\
    beamspread_2d_for_path NumFn ifs_E10 ray4 [1; 2; 4] = Val nan /\
    reverse_beamspread_2d_for_path NumFn ifs_E10 ray4 [1; 2; 4] = Val nan /\
    beamspread_outcome NumFn [1; 2; 4] [3; 0; 7] [0; nan] = NaN.
  Proof. repeat split; vm_compute; reflexivity. Qed.
  (* the hypothesis of beamspread_outcome_nan is met by the reads of E10 *)
  Definition vd_E10 : float := virtual_distance NumFn [3; 0; 7] (gamma_list NumFn [1; 2; 4] [0; nan]).
  Lemma vd_E10_is_nan : neqb NumFn vd_E10 vd_E10 = false /\ recip_sqrt_outcome NumF (-0) = MinusInf.
  Proof. split; vm_compute; reflexivity. Qed.
End FloatRuns.

(* ---- (2) real-number set-ups --------------------------------------------------------------- *)
Local Open Scope R_scope.

(* list level: water-like to steel-like ratio 1 : 3/2, incidence 30 degrees, Snell sine 3/4 *)
Definition velA : list R := [1; 3 / 2].
Definition thetasA : list R := [PI / 6].

Lemma cos_PI6_neq_0 : cos (PI / 6) <> 0.
Proof. rewrite cos_PI6. assert (0 < R_sqrt.sqrt 3) by (apply sqrt_lt_R0; lra). lra. Qed.

Lemma exampleA_regular :
  all_pos velA /\ Forall (fun th => cos th <> 0) thetasA /\ subcritical velA thetasA.
Proof.
  unfold velA, thetasA. split; [|split].
  - repeat constructor; lra.
  - constructor; [exact cos_PI6_neq_0 | constructor].
  - cbn [subcritical]. rewrite sin_PI6. split; [lra | exact I].
Qed.

Lemma exampleA_legs : 0 < 1 /\ all_pos [2] /\ (length [2] <= Nat.min (length velA - 1) (length thetasA))%nat.
Proof. split; [lra|]. split; [repeat constructor; lra | simpl; lia]. Qed.

(* beyond the critical angle: 1 -> 3, incidence 30 degrees: Snell sine 3/2 *)
Lemma exampleC_beyond : 1 < (3 / 1 * sin (PI / 6)) * (3 / 1 * sin (PI / 6)).
Proof. rewrite sin_PI6. lra. Qed.

(* path level: three interfaces on the z axis, identity frames, the normal of the wall on
   the far side of the incoming leg (flag False): the conventional angle is pi - pi = 0 *)
Definition I3R : mat3 R := ((1, 0, 0), (0, 1, 0), (0, 0, 1)).
Definition mkR (p : vec3 R) (fl : option bool) : iface (T:=R) := mkIface [p] [I3R] fl None.
Definition ifsR : list (iface (T:=R)) := [mkR (0, 0, 0) None; mkR (0, 0, 1) (Some false); mkR (0, 0, 3) None].
Definition rayR : list nat := [0; 0; 0]%nat.
Definition velR : list R := [1; 2].

Lemma exampleR_leg1 : inc_leg_size NumR ifsR rayR 1 = Val 1.
Proof.
  unfold inc_leg_size, guarded, leg_points, gather, numinterfaces, ifsR, rayR, mkR. simpl.
  unfold vsub, vx, vy, vz. cbn [fst snd NumR nsub]. f_equal.
  replace (0 + (0 - 0) * (0 - 0) + (0 - 0) * (0 - 0) + (0 - 1) * (0 - 1)) with 1 by ring. apply sqrt_1.
Qed.

Lemma exampleR_leg2 : inc_leg_size NumR ifsR rayR 2 = Val 2.
Proof.
  unfold inc_leg_size, guarded, leg_points, gather, numinterfaces, ifsR, rayR, mkR. simpl.
  unfold vsub, vx, vy, vz. cbn [fst snd NumR nsub]. f_equal.
  replace (0 + (0 - 0) * (0 - 0) + (0 - 0) * (0 - 0) + (1 - 3) * (1 - 3)) with (2 * 2) by ring.
  apply sqrt_square. lra.
Qed.

Lemma exampleR_theta : conventional_inc_angle NumR ifsR rayR 1 = Val 0.
Proof.
  unfold conventional_inc_angle, inc_leg_polar, inc_leg_radius, inc_leg_cartesian, guarded, leg_local,
    leg_points, orientations_of_legs_points, gather, numinterfaces, ifsR, rayR, mkR. simpl.
  unfold from_gcs, mvec, vdot, mrow0, mrow1, mrow2, I3R, vsub, vx, vy, vz. cbn [fst snd NumR nsub nmul nadd].
  f_equal.
  replace (0 + (1 * (0 - 0) + 0 * (0 - 0) + 0 * (0 - 1)) * (1 * (0 - 0) + 0 * (0 - 0) + 0 * (0 - 1)) +
           (0 * (0 - 0) + 1 * (0 - 0) + 0 * (0 - 1)) * (0 * (0 - 0) + 1 * (0 - 0) + 0 * (0 - 1)) +
           (0 * (0 - 0) + 0 * (0 - 0) + 1 * (0 - 1)) * (0 * (0 - 0) + 0 * (0 - 0) + 1 * (0 - 1))) with 1 by ring.
  rewrite sqrt_1.
  replace ((0 * (0 - 0) + 0 * (0 - 0) + 1 * (0 - 1)) / 1) with (- (1)) by field.
  rewrite acos_opp, acos_1. ring.
Qed.

Lemma exampleR_reads : length ifsR = 3%nat /\ length velR = 2%nat /\
  path_legs NumR ifsR rayR = Val [1; 2] /\ path_thetas NumR ifsR rayR = Val [0].
Proof.
  split; [reflexivity|]. split; [reflexivity|]. split.
  - rewrite (path_legs_eq NumR ifsR rayR 2 eq_refl). change (map Z.of_nat (seq 1 2)) with [1%Z; 2%Z].
    cbn [rmapM]. rewrite exampleR_leg1, exampleR_leg2. reflexivity.
  - rewrite (path_thetas_eq NumR ifsR rayR 2 eq_refl). change (map Z.of_nat (seq 1 (2 - 1))) with [1%Z].
    cbn [rmapM]. rewrite exampleR_theta. reflexivity.
Qed.

Lemma exampleR_regular :
  all_pos velR /\ all_pos [1; 2] /\ Forall (fun th => cos th <> 0) [0] /\ subcritical velR [0].
Proof.
  unfold velR. repeat split.
  - repeat constructor; lra.
  - repeat constructor; lra.
  - constructor; [rewrite cos_0; lra | constructor].
  - rewrite sin_0. lra.
  - rewrite sin_0. lra.
Qed.

(* the value on this set-up: d = 1 + 2 / (1/2) = 5 *)
Lemma exampleR_value : beamspread_2d_for_path NumR ifsR rayR velR = Val (1 / R_sqrt.sqrt 5).
Proof.
  destruct exampleR_reads as (Hi & Hv & Hl & Ht).
  rewrite (beamspread_path_factors NumR ifsR rayR velR 2 Hi [1; 2] [0] Hl Ht ltac:(lia) ltac:(simpl; lia)).
  f_equal. unfold beamspread, velR. cbn [gamma_list]. rewrite virtual_distance_two_legs.
  rewrite gamma_of_R, sin_0, cos_0. cbn [NumR n1 ndiv nsqrt]. do 2 f_equal. field.
Qed.

(* a rotation about the z axis by an angle whose cosine and sine are 3/5 and 4/5 *)
Definition QR : mat3 R := ((3 / 5, - (4 / 5), 0), (4 / 5, 3 / 5, 0), (0, 0, 1)).
Lemma QR_orthonormal : cols_orthonormal NumR QR.
Proof.
  unfold cols_orthonormal, mmul, mtrans, mtvec, mid3, QR, mcol0, mcol1, mcol2, mrow0, mrow1, mrow2, vdot, vx, vy, vz.
  cbn [fst snd NumR nmul nadd n0 n1]. repeat (f_equal; try field).
Qed.
