(* Proofs/ProbeOpsGenProofs.v — C16, lemmas about Model/ProbeOps.v that hold for EVERY numeric
   instance (no real numbers, axiom-free): Python slices, numpy indexing of axis 0, the
   metadata dictionary, Probe.subprobe in closed form and its commutation with the motions,
   the frame condition of the motions on the whole object, the probe_location block as a
   history of modelled operations. *)
From Coq Require Import String.
From Coq Require Import List ZArith Bool Lia.
From Arim Require Import Base.Num Model.Vec3 Model.Probe Model.ProbeOps.
Import ListNotations.

(* ---- Python slices ---- *)
Lemma arith_range_pos (s0 e0 st i : Z) : (0 < st)%Z -> (s0 < e0)%Z ->
  (0 <= i < (e0 - s0 - 1) / st + 1)%Z -> (s0 <= s0 + i * st < e0)%Z.
Proof.
  intros Hst Hse Hi.
  pose proof (Z.mul_div_le (e0 - s0 - 1) st Hst) as H.
  assert (i <= (e0 - s0 - 1) / st)%Z by lia. nia.
Qed.

Lemma arith_range_neg (s0 e0 st i : Z) : (st < 0)%Z -> (e0 < s0)%Z ->
  (0 <= i < (s0 - e0 - 1) / (- st) + 1)%Z -> (e0 < s0 + i * st <= s0)%Z.
Proof.
  intros Hst Hse Hi.
  assert (Hp : (0 < - st)%Z) by lia.
  pose proof (Z.mul_div_le (s0 - e0 - 1) (- st) Hp) as H.
  assert (i <= (s0 - e0 - 1) / (- st))%Z by lia. nia.
Qed.

Lemma slice_indices_in_range (n : Z) (s e st : option Z) (ks : list Z) : (0 <= n)%Z ->
  slice_indices n s e st = Some ks -> Forall (fun k => (0 <= k < n)%Z) ks.
Proof.
  intros Hn. unfold slice_indices.
  set (stp := match st with None => 1%Z | Some x => x end).
  destruct (Z.eqb_spec stp 0) as [|Hne]; [discriminate|].
  intros E. injection E as <-. apply Forall_forall. intros k Hin.
  apply in_map_iff in Hin. destruct Hin as (i & <- & Hi). apply in_seq in Hi.
  destruct (Z.ltb_spec stp 0) as [Hneg|Hpos].
  - set (s0 := match s with None => (n - 1)%Z | Some x => if (x <? 0)%Z then Z.max (x + n) (-1) else Z.min x (n - 1) end) in *.
    set (e0 := match e with None => (-1)%Z | Some x => if (x <? 0)%Z then Z.max (x + n) (-1) else Z.min x (n - 1) end) in *.
    assert (Hs0 : (-1 <= s0 <= n - 1)%Z).
    { subst s0. destruct s as [x|]; [destruct (Z.ltb_spec x 0)|]; lia. }
    assert (He0 : (-1 <= e0 <= n - 1)%Z).
    { subst e0. destruct e as [x|]; [destruct (Z.ltb_spec x 0)|]; lia. }
    destruct (Z.ltb_spec e0 s0) as [Hlt|Hge]; [|cbn in Hi; lia].
    pose proof (arith_range_neg s0 e0 stp (Z.of_nat i) Hneg Hlt) as H.
    assert (Hlen : (0 <= (s0 - e0 - 1) / (- stp) + 1)%Z).
    { pose proof (Z.div_pos (s0 - e0 - 1) (- stp)). lia. }
    lia.
  - assert (Hpos' : (0 < stp)%Z) by lia.
    set (s0 := match s with None => 0%Z | Some x => if (x <? 0)%Z then Z.max (x + n) 0 else Z.min x n end) in *.
    set (e0 := match e with None => n | Some x => if (x <? 0)%Z then Z.max (x + n) 0 else Z.min x n end) in *.
    assert (Hs0 : (0 <= s0 <= n)%Z).
    { subst s0. destruct s as [x|]; [destruct (Z.ltb_spec x 0)|]; lia. }
    assert (He0 : (0 <= e0 <= n)%Z).
    { subst e0. destruct e as [x|]; [destruct (Z.ltb_spec x 0)|]; lia. }
    destruct (Z.ltb_spec s0 e0) as [Hlt|Hge]; [|cbn in Hi; lia].
    pose proof (arith_range_pos s0 e0 stp (Z.of_nat i) Hpos' Hlt) as H.
    assert (Hlen : (0 <= (e0 - s0 - 1) / stp + 1)%Z).
    { pose proof (Z.div_pos (e0 - s0 - 1) stp). lia. }
    lia.
Qed.

Lemma slice_step0 (n : Z) (s e : option Z) : slice_indices n s e (Some 0%Z) = None.
Proof. reflexivity. Qed.

Lemma slice_all (n : nat) : slice_indices (Z.of_nat n) None None None = Some (map Z.of_nat (seq 0 n)).
Proof.
  unfold slice_indices. cbn [Z.eqb Z.ltb Z.compare].
  destruct (Z.ltb_spec 0 (Z.of_nat n)) as [H|H].
  - f_equal. replace (Z.to_nat ((Z.of_nat n - 0 - 1) / 1 + 1)) with n by (rewrite Z.div_1_r; lia).
    apply map_ext. intros i. lia.
  - assert (n = 0%nat) by lia. subst n. reflexivity.
Qed.


(* ---- selection of elements commutes with per-element maps ---- *)
Lemma py_index_map {A B} (f : A -> B) (l : list A) (k : Z) :
  py_index (map f l) k = option_map f (py_index l k).
Proof.
  unfold py_index. rewrite map_length.
  destruct (0 <=? k)%Z; [destruct (k <? _)%Z|destruct (_ <=? k)%Z]; try reflexivity; apply nth_error_map.
Qed.

Lemma opt_all_map {A B} (f : A -> B) (l : list (option A)) :
  opt_all (map (option_map f) l) = option_map (map f) (opt_all l).
Proof.
  induction l as [|[a|] l IH]; cbn [map opt_all option_map]; [reflexivity| |reflexivity].
  rewrite IH. destruct (opt_all l); reflexivity.
Qed.

Lemma mask_select_map {A B} (f : A -> B) (bs : list bool) : forall l : list A,
  mask_select bs (map f l) = map f (mask_select bs l).
Proof.
  induction bs as [|b bs IH]; intros [|a l]; cbn [mask_select map]; try reflexivity.
  destruct b; cbn [map]; rewrite IH; reflexivity.
Qed.

Lemma take_list_map {A B} (f : A -> B) (l : list A) (ks : list Z) :
  opt_all (map (py_index (map f l)) ks) = option_map (map f) (opt_all (map (py_index l) ks)).
Proof.
  rewrite <- opt_all_map, map_map. f_equal. apply map_ext. intros k. apply py_index_map.
Qed.

Lemma np_take_map {A B} (f : A -> B) (idx : np_idx) (l : list A) :
  np_take idx (map f l) = option_map (map f) (np_take idx l).
Proof.
  destruct idx as [k|ks|s e st|bs]; cbn [np_take].
  - reflexivity.
  - apply take_list_map.
  - rewrite map_length. destruct (slice_indices _ s e st) as [ks|]; [apply take_list_map|reflexivity].
  - rewrite map_length. destruct (mask_fits _ _); [|reflexivity]. cbn [option_map]. f_equal. apply mask_select_map.
Qed.

Lemma map_fst_combine {A B} (l1 : list A) : forall l2 : list B, length l1 = length l2 ->
  map fst (combine l1 l2) = l1.
Proof. induction l1 as [|a l1 IH]; intros [|b l2] H; cbn in *; try reflexivity; try lia. f_equal. apply IH. lia. Qed.
Lemma map_snd_combine {A B} (l1 : list A) : forall l2 : list B, length l1 = length l2 ->
  map snd (combine l1 l2) = l2.
Proof. induction l1 as [|a l1 IH]; intros [|b l2] H; cbn in *; try reflexivity; try lia. f_equal. apply IH. lia. Qed.

(* two arrays with the same number of entries are indexed alike: both raise, or both give
   results of one length *)
Lemma np_take_same_length {A B} (idx : np_idx) (l1 : list A) (l2 : list B) : length l1 = length l2 ->
  match np_take idx l1, np_take idx l2 with
  | Some r1, Some r2 => length r1 = length r2
  | None, None => True
  | _, _ => False
  end.
Proof.
  intros H. pose proof (np_take_map fst idx (combine l1 l2)) as E1.
  pose proof (np_take_map snd idx (combine l1 l2)) as E2.
  rewrite (map_fst_combine l1 l2 H) in E1. rewrite (map_snd_combine l1 l2 H) in E2. rewrite E1, E2. destruct (np_take idx (combine l1 l2)) as [r|]; cbn [option_map]; [|exact I].
  rewrite !map_length. reflexivity.
Qed.

(* the positions an index selects on an axis of n entries *)
Definition np_positions (idx : np_idx) (n : nat) : option (list nat) := np_take idx (seq 0 n).

Lemma map_nth_seq {A} (l : list A) (d : A) : map (fun i => nth i l d) (seq 0 (length l)) = l.
Proof.
  apply (nth_ext _ _ d d).
  - rewrite map_length, seq_length. reflexivity.
  - intros i Hi. rewrite map_length, seq_length in Hi.
    rewrite (nth_indep _ d (nth 0%nat l d)) by (rewrite map_length, seq_length; exact Hi).
    rewrite (map_nth (fun i => nth i l d)), seq_nth by exact Hi. reflexivity.
Qed.

Lemma np_take_positions {A} (idx : np_idx) (l : list A) (d : A) :
  np_take idx l = option_map (map (fun i => nth i l d)) (np_positions idx (length l)).
Proof. unfold np_positions. rewrite <- np_take_map, map_nth_seq. reflexivity. Qed.

Lemma opt_all_Forall2 {A} (l : list (option A)) (r : list A) : opt_all l = Some r ->
  Forall2 (fun o a => o = Some a) l r.
Proof.
  revert r. induction l as [|[a|] l IH]; intros r E; cbn [opt_all] in E.
  - injection E as <-. constructor.
  - destruct (opt_all l) as [r'|]; [|discriminate]. injection E as <-. constructor; [reflexivity|apply IH; reflexivity].
  - discriminate.
Qed.

Lemma py_index_In {A} (l : list A) (k : Z) (a : A) : py_index l k = Some a -> In a l.
Proof.
  unfold py_index. destruct (0 <=? k)%Z; [destruct (k <? _)%Z|destruct (_ <=? k)%Z]; try discriminate;
  apply nth_error_In.
Qed.

Lemma take_list_incl {A} (l : list A) (ks : list Z) (r : list A) :
  opt_all (map (py_index l) ks) = Some r -> incl r l.
Proof.
  intros E. apply opt_all_Forall2 in E. remember (map (py_index l) ks) as os eqn:Eo.
  revert ks Eo. induction E as [|o a os r Hoa _ IH]; intros ks Eo.
  - intros x [].
  - destruct ks as [|k ks]; [discriminate|]. cbn [map] in Eo. injection Eo as -> ->.
    intros x [<-|Hx]; [exact (py_index_In l k a Hoa)|exact (IH ks eq_refl x Hx)].
Qed.

Lemma mask_select_incl {A} (bs : list bool) : forall l : list A, incl (mask_select bs l) l.
Proof.
  induction bs as [|b bs IH]; intros [|a l]; cbn [mask_select]; try (intros x []).
  destruct b.
  - intros x [<-|Hx]; [left; reflexivity|right; exact (IH l x Hx)].
  - intros x Hx. right. exact (IH l x Hx).
Qed.

(* every selected entry is an entry of the array *)
Lemma np_take_incl {A} (idx : np_idx) (l r : list A) : np_take idx l = Some r -> incl r l.
Proof.
  destruct idx as [k|ks|s e st|bs]; cbn [np_take].
  - discriminate.
  - apply take_list_incl.
  - destruct (slice_indices _ s e st) as [ks|]; [apply take_list_incl|discriminate].
  - destruct (mask_fits _ _); [|discriminate]. intros E. injection E as <-. apply mask_select_incl.
Qed.

Lemma np_positions_in_range (idx : np_idx) (n : nat) (ps : list nat) :
  np_positions idx n = Some ps -> Forall (fun i => (i < n)%nat) ps.
Proof.
  intros E. apply np_take_incl in E. apply Forall_forall. intros i Hi. apply E, in_seq in Hi. lia.
Qed.

(* a list of integers selects, in the order given and with repetitions, the entries
   k (k >= 0) or n + k (k < 0); it raises iff one of them is outside [-n, n) *)
Definition norm_index (n : nat) (k : Z) : nat := Z.to_nat (if (0 <=? k)%Z then k else Z.of_nat n + k).

Lemma py_index_some {A} (l : list A) (k : Z) (d : A) : (- Z.of_nat (length l) <= k < Z.of_nat (length l))%Z ->
  py_index l k = Some (nth (norm_index (length l) k) l d).
Proof.
  intros H. unfold py_index, norm_index.
  destruct (Z.leb_spec 0 k).
  - destruct (Z.ltb_spec k (Z.of_nat (length l))); [|lia]. apply nth_error_nth'. lia.
  - destruct (Z.leb_spec (- Z.of_nat (length l)) k); [|lia]. apply nth_error_nth'. lia.
Qed.

Lemma py_index_none {A} (l : list A) (k : Z) : ~ (- Z.of_nat (length l) <= k < Z.of_nat (length l))%Z ->
  py_index l k = None.
Proof.
  intros H. unfold py_index.
  destruct (Z.leb_spec 0 k).
  - destruct (Z.ltb_spec k (Z.of_nat (length l))); [lia|reflexivity].
  - destruct (Z.leb_spec (- Z.of_nat (length l)) k); [lia|reflexivity].
Qed.

Lemma np_take_list_ok {A} (l : list A) (ks : list Z) (d : A) :
  Forall (fun k => (- Z.of_nat (length l) <= k < Z.of_nat (length l))%Z) ks ->
  np_take (IdxList ks) l = Some (map (fun k => nth (norm_index (length l) k) l d) ks).
Proof.
  intros H. cbn [np_take]. induction H as [|k ks Hk _ IH]; [reflexivity|].
  cbn [map opt_all]. rewrite (py_index_some l k d Hk), IH. reflexivity.
Qed.

Lemma np_take_list_raises {A} (l : list A) (ks : list Z) :
  Exists (fun k => ~ (- Z.of_nat (length l) <= k < Z.of_nat (length l))%Z) ks ->
  np_take (IdxList ks) l = None.
Proof.
  intros H. cbn [np_take]. induction H as [k ks Hk|k ks _ IH]; cbn [map opt_all].
  - rewrite (py_index_none l k Hk). reflexivity.
  - rewrite IH. destruct (py_index l k); reflexivity.
Qed.

(* a boolean mask (repair of the model: numpy accepts an EMPTY boolean array on an axis of
   any length, the model used to answer None unless the lengths were equal): accepted iff
   it has the length of the axis or is empty; it selects the entries under a True, in
   order; the empty mask selects nothing *)
Lemma mask_fits_spec (m n : nat) : mask_fits m n = true <-> m = n \/ m = 0%nat.
Proof.
  unfold mask_fits. rewrite Bool.orb_true_iff, !Nat.eqb_eq. reflexivity.
Qed.

Lemma mask_fits_refl (n : nat) : mask_fits n n = true.
Proof. apply mask_fits_spec. left. reflexivity. Qed.

Lemma np_take_mask_spec {A} (bs : list bool) (l r : list A) :
  np_take (IdxMask bs) l = Some r <-> (length bs = length l \/ bs = []) /\ r = mask_select bs l.
Proof.
  cbn [np_take]. destruct (mask_fits (length bs) (length l)) eqn:E.
  - apply mask_fits_spec in E. split.
    + intros H. injection H as <-. split; [|reflexivity].
      destruct E as [E|E]; [left; exact E|right; apply length_zero_iff_nil; exact E].
    + intros [_ ->]. reflexivity.
  - split; [discriminate|]. intros [[H|H] _]; exfalso.
    + assert (X : mask_fits (length bs) (length l) = true) by (apply mask_fits_spec; left; exact H). congruence.
    + subst bs. unfold mask_fits in E. cbn [length Nat.eqb] in E. rewrite Bool.orb_true_r in E. discriminate E.
Qed.

Lemma np_take_mask_empty {A} (l : list A) : np_take (IdxMask []) l = Some [].
Proof. cbn [np_take]. unfold mask_fits. cbn [length Nat.eqb]. rewrite Bool.orb_true_r. reflexivity. Qed.

Lemma np_take_mask_raises {A} (bs : list bool) (l : list A) :
  length bs <> length l -> bs <> [] -> np_take (IdxMask bs) l = None.
Proof.
  intros H1 H2. destruct (np_take (IdxMask bs) l) as [r|] eqn:E; [|reflexivity].
  apply np_take_mask_spec in E as [[E|E] _]; contradiction.
Qed.

(* ---- the metadata dictionary ---- *)
Section Dict.
  Context {T : Type}.
  Lemma dict_get_set_same (d : dict T) (k : string) (v : mval T) : dict_get (dict_set d k v) k = Some v.
  Proof.
    induction d as [|[k' v'] d IH]; cbn [dict_set dict_get].
    - rewrite String.eqb_refl. reflexivity.
    - destruct (String.eqb_spec k' k) as [->|Hne]; cbn [dict_get].
      + rewrite String.eqb_refl. reflexivity.
      + destruct (String.eqb_spec k' k); [contradiction|exact IH].
  Qed.
  Lemma dict_get_set_other (d : dict T) (k k2 : string) (v : mval T) : k <> k2 ->
    dict_get (dict_set d k v) k2 = dict_get d k2.
  Proof.
    intros Hne. induction d as [|[k' v'] d IH]; cbn [dict_set dict_get].
    - destruct (String.eqb_spec k k2); [contradiction|reflexivity].
    - destruct (String.eqb_spec k' k) as [->|Hne']; cbn [dict_get].
      + destruct (String.eqb_spec k k2); [contradiction|reflexivity].
      + destruct (String.eqb_spec k' k2); [reflexivity|exact IH].
  Qed.
  Lemma dict_default_same (d : dict T) (k : string) (v : mval T) :
    dict_get (dict_default d k v) k = if dict_unset d k then Some v else dict_get d k.
  Proof. unfold dict_default. destruct (dict_unset d k); [apply dict_get_set_same|reflexivity]. Qed.
  Lemma dict_default_other (d : dict T) (k k2 : string) (v : mval T) : k <> k2 ->
    dict_get (dict_default d k v) k2 = dict_get d k2.
  Proof. intros H. unfold dict_default. destruct (dict_unset d k); [apply dict_get_set_other; exact H|reflexivity]. Qed.
  Lemma dict_unset_default_other (d : dict T) (k k2 : string) (v : mval T) : k <> k2 ->
    dict_unset (dict_default d k v) k2 = dict_unset d k2.
  Proof. intros H. unfold dict_unset. rewrite dict_default_other by exact H. reflexivity. Qed.
End Dict.

Definition bind {A B} (o : option A) (f : A -> option B) : option B := match o with None => None | Some a => f a end.

(* ---- for every numeric instance ---- *)
Section Generic.
  Context {T : Type} (N : Num T).

  (* a second set_reference_element overrides the first *)
  Lemma set_ref_absorbs_gen (r1 r2 : refelt) (p : probe (T:=T)) :
    p_set_ref N r1 p <> None ->
    bind (p_set_ref N r1 p) (p_set_ref N r2) = p_set_ref N r2 p.
  Proof.
    unfold p_set_ref. destruct (ref_point N r1 (p_locs p)) as [q|]; [|intros H; contradiction H; reflexivity].
    intros _. cbn [bind p_locs p_oris p_pcs cs_i cs_j]. reflexivity.
  Qed.

  (* the probe_location block of probe_from_conf is a history of the modelled operations *)
  Definition location_ops (ref : option refelt) (angle_deg standoff : option T) : list (op (T:=T)) :=
    (match ref with Some r => [OpSetRef r; OpToO] | None => [] end) ++
    (match angle_deg with Some a => [OpRotate (rotation_matrix_y N (deg2rad N a)) None] | None => [] end) ++
    (match standoff with Some h => [OpTranslate (n0 N, n0 N, h)] | None => [] end).

  Lemma run_ops_app_gen (ops1 ops2 : list (op (T:=T))) (p : probe (T:=T)) :
    run_ops N (ops1 ++ ops2) p = bind (run_ops N ops1 p) (run_ops N ops2).
  Proof.
    revert p. induction ops1 as [|o ops1 IH]; intros p; [reflexivity|].
    cbn [app run_ops]. destruct (apply_op N o p) as [q|]; [apply IH|reflexivity].
  Qed.
  Lemma run_ops_single (o : op (T:=T)) (p : probe (T:=T)) : run_ops N [o] p = apply_op N o p.
  Proof. cbn [run_ops]. destruct (apply_op N o p); reflexivity. Qed.

  Lemma apply_probe_location_history_gen (ref : option refelt) (a h : option T) (p : probe (T:=T)) :
    apply_probe_location N ref a h p = run_ops N (location_ops ref a h) p.
  Proof.
    unfold apply_probe_location, location_ops. rewrite !run_ops_app_gen.
    assert (E1 : run_ops N (match ref with Some r => [OpSetRef r; OpToO] | None => [] end) p =
                 match ref with None => Some p
                 | Some r => match p_set_ref N r p with None => None | Some q => p_to_O N q end end).
    { destruct ref as [r|]; [|reflexivity]. cbn [run_ops apply_op].
      destruct (p_set_ref N r p) as [q|]; [|reflexivity]. destruct (p_to_O N q); reflexivity. }
    rewrite E1. clear E1.
    match goal with |- match ?X with _ => _ end = _ => destruct X as [p1|] end; [|reflexivity]. cbn [bind].
    rewrite run_ops_app_gen.
    assert (E2 : run_ops N (match a with Some a => [OpRotate (rotation_matrix_y N (deg2rad N a)) None] | None => [] end) p1 =
                 match a with None => Some p1 | Some a => p_rotate N (rotation_matrix_y N (deg2rad N a)) None p1 end).
    { destruct a as [a|]; [|reflexivity]. apply run_ops_single. }
    rewrite E2. clear E2.
    match goal with |- match ?X with _ => _ end = _ => destruct X as [p2|] end; [|reflexivity]. cbn [bind].
    destruct h as [h|]; [|reflexivity]. symmetry. apply run_ops_single.
  Qed.
End Generic.



Definition opt_len {A} (n : nat) (o : option (list A)) : Prop :=
  match o with None => True | Some l => length l = n end.

Definition take_or_nil {A} (idx : np_idx) (l : list A) : list A :=
  match np_take idx l with Some r => r | None => [] end.

Lemma take_or_nil_map {A B} (f : A -> B) (idx : np_idx) (l : list A) :
  take_or_nil idx (map f l) = map f (take_or_nil idx l).
Proof. unfold take_or_nil. rewrite np_take_map. destruct (np_take idx l); reflexivity. Qed.

Section GenericX.
  Context {T : Type} (N : Num T).
  Notation probe_x := (probe_x (T:=T)).

  (* the per-element slots all have n entries (or are None) *)
  Definition wf_len (n : nat) (px : probe_x) : Prop :=
    length (p_locs (x_core px)) = n /\ opt_len n (p_oris (x_core px)) /\ opt_len n (x_dims px) /\
    opt_len n (x_shapes px) /\ length (x_dead px) = n /\ x_numel px = Z.of_nat n.

  Lemma init_arg_each {A} (n : nat) (o : option (list A)) : opt_len n o -> init_arg n (to_arg o) = Some o.
  Proof. destruct o as [l|]; cbn [to_arg init_arg opt_len]; [|reflexivity]. intros ->. rewrite Nat.eqb_refl. reflexivity. Qed.

  Lemma init_probe_each (locs : list (vec3 T)) (f bw : option T) (ds os : option (list (vec3 T)))
      (ss : option (list Z)) (dd : list bool) (c : csys (T:=T)) (m : option (dict T)) :
    opt_len (length locs) ds -> opt_len (length locs) os -> opt_len (length locs) ss -> length dd = length locs ->
    init_probe N locs f (to_arg ds) (to_arg os) (to_arg ss) (ArgEach dd) bw (Some c) m =
    Some (mkPX (mkProbe locs os c) ds ss dd f bw (match m with None => [] | Some m' => m' end)
               (Z.of_nat (length locs))).
  Proof.
    intros Hd Ho Hs Hdd. unfold init_probe.
    rewrite (init_arg_each _ ds Hd), (init_arg_each _ os Ho), (init_arg_each _ ss Hs).
    cbn [init_arg]. rewrite Hdd, Nat.eqb_refl. reflexivity.
  Qed.

  Lemma take_opt_len {A B} (idx : np_idx) (l : list A) (r : list A) (o : option (list B)) :
    np_take idx l = Some r -> opt_len (length l) o ->
    take_opt idx o = Some (option_map (take_or_nil idx) o) /\ opt_len (length r) (option_map (take_or_nil idx) o).
  Proof.
    intros Hr Ho. destruct o as [l2|]; cbn [take_opt option_map opt_len] in *; [|split; [reflexivity|exact I]].
    pose proof (np_take_same_length idx l l2 (eq_sym Ho)) as H. rewrite Hr in H. unfold take_or_nil.
    destruct (np_take idx l2) as [r2|]; [|contradiction]. split; [reflexivity|symmetry; exact H].
  Qed.

  (* subprobe, in closed form: it raises exactly when the index raises on the locations;
     otherwise every per-element slot is indexed alike, the PCS is kept *)
  Lemma subprobe_spec_gen (n : nat) (idx : np_idx) (sm : bool) (px : probe_x) : wf_len n px ->
    subprobe N idx sm px =
    match np_take idx (p_locs (x_core px)) with
    | None => None
    | Some locs =>
        Some (mkPX (mkProbe locs (option_map (take_or_nil idx) (p_oris (x_core px))) (p_pcs (x_core px)))
                   (option_map (take_or_nil idx) (x_dims px)) (option_map (take_or_nil idx) (x_shapes px))
                   (take_or_nil idx (x_dead px)) (x_freq px) (x_bw px)
                   (if sm then x_meta px else []) (Z.of_nat (length locs)))
    end.
  Proof.
    intros (Hl & Ho & Hd & Hs & Hdd & _). unfold subprobe.
    destruct (np_take idx (p_locs (x_core px))) as [locs|] eqn:El; [|reflexivity].
    rewrite <- Hl in Ho, Hd, Hs.
    destruct (take_opt_len idx _ locs (x_dims px) El Hd) as [E1 L1].
    destruct (take_opt_len idx _ locs (p_oris (x_core px)) El Ho) as [E2 L2].
    destruct (take_opt_len idx _ locs (x_shapes px) El Hs) as [E3 L3].
    rewrite E1, E2, E3.
    pose proof (np_take_same_length idx (p_locs (x_core px)) (x_dead px) (eq_trans Hl (eq_sym Hdd))) as H.
    rewrite El in H. destruct (np_take idx (x_dead px)) as [dd|] eqn:Edd; [|contradiction].
    assert (Et : take_or_nil idx (x_dead px) = dd) by (unfold take_or_nil; rewrite Edd; reflexivity).
    rewrite Et. rewrite (init_probe_each locs _ _ _ _ _ dd _ _ L1 L2 L3 (eq_sym H)).
    destruct sm; reflexivity.
  Qed.

  (* the empty boolean array as `elements_idx` (numpy accepts it on a probe of any size):
     the probe with no element, every per-element slot that is not None emptied, the PCS,
     frequency, bandwidth kept, metadata kept or emptied.  Never a raise. *)
  Lemma take_or_nil_empty_mask {A} (l : list A) : take_or_nil (IdxMask []) l = [].
  Proof. unfold take_or_nil. rewrite np_take_mask_empty. reflexivity. Qed.

  Lemma subprobe_empty_mask (n : nat) (sm : bool) (px : probe_x) : wf_len n px ->
    subprobe N (IdxMask []) sm px =
    Some (mkPX (mkProbe [] (option_map (fun _ => []) (p_oris (x_core px))) (p_pcs (x_core px)))
               (option_map (fun _ => []) (x_dims px)) (option_map (fun _ => []) (x_shapes px)) []
               (x_freq px) (x_bw px) (if sm then x_meta px else []) 0%Z).
  Proof.
    intros Hwf. rewrite (subprobe_spec_gen n (IdxMask []) sm px Hwf), np_take_mask_empty, take_or_nil_empty_mask.
    cbn [length Z.of_nat].
    destruct (p_oris (x_core px)), (x_dims px), (x_shapes px); cbn [option_map];
      rewrite ?take_or_nil_empty_mask; reflexivity.
  Qed.

  (* a motion only assigns locations / orientations / pcs: the other slots of the object are
     untouched by every history, and the motion state is that of Model/Probe.v *)
  Lemma with_core_with_core (px : probe_x) (c c' : probe (T:=T)) : with_core (with_core px c) c' = with_core px c'.
  Proof. reflexivity. Qed.

  Lemma run_ops_x_core (ops : list (op (T:=T))) : forall px : probe_x,
    run_ops_x N ops px = option_map (with_core px) (run_ops N ops (x_core px)).
  Proof.
    induction ops as [|o ops IH]; intros px; cbn [run_ops_x run_ops].
    - destruct px; reflexivity.
    - unfold apply_op_x. destruct (apply_op N o (x_core px)) as [c|]; [|reflexivity].
      rewrite IH. cbn [x_core with_core]. destruct (run_ops N ops c); reflexivity.
  Qed.

  Lemma run_ops_x_frame (ops : list (op (T:=T))) (px q : probe_x) : run_ops_x N ops px = Some q ->
    run_ops N ops (x_core px) = Some (x_core q) /\
    x_dims q = x_dims px /\ x_shapes q = x_shapes px /\ x_dead q = x_dead px /\ x_freq q = x_freq px /\
    x_bw q = x_bw px /\ x_meta q = x_meta px /\ x_numel q = x_numel px.
  Proof.
    rewrite run_ops_x_core. destruct (run_ops N ops (x_core px)) as [c|]; [|discriminate].
    intros E. injection E as <-. repeat split.
  Qed.

  (* the shape of every operation other than set_reference_element: whether it raises and
     the new PCS depend on the PCS only; locations and normals are mapped element by element *)
  Definition op_shape (o : op (T:=T)) (c : csys (T:=T))
    : option ((vec3 T -> vec3 T) * (vec3 T -> vec3 T) * csys (T:=T)) :=
    match o with
    | OpRotate M ce =>
        match cs_rotate N c M ce with None => None | Some c' => Some (rotate_pt N M ce, rotate_pt N M None, c') end
    | OpTranslate v =>
        match cs_translate N c v with None => None | Some c' => Some (fun l => vadd N l v, fun x => x, c') end
    | OpFlip =>
        let M := rotation_matrix_z N (npi N) in
        match cs_rotate N c M None with None => None | Some c' => Some (rotate_pt N M None, rotate_pt N M None, c') end
    | OpToO =>
        let v := vopp N (cs_o c) in
        match cs_translate N c v with None => None | Some c' => Some (fun l => vadd N l v, fun x => x, c') end
    | OpSetRef _ => None
    | OpReset =>
        let v := vopp N (cs_o c) in
        match cs_translate N c v with
        | None => None
        | Some c1 =>
            let A := cs_axes N c1 in
            match cs_rotate N c1 A None with
            | None => None
            | Some c2 => Some (fun l => rotate_pt N A None (vadd N l v), rotate_pt N A None, c2)
            end
        end
    end.

  Lemma option_map_id_fun {A} (o : option (list A)) : option_map (map (fun x => x)) o = o.
  Proof. destruct o as [l|]; [|reflexivity]. cbn. rewrite map_id. reflexivity. Qed.

  Definition not_set_ref (o : op (T:=T)) : bool := match o with OpSetRef _ => false | _ => true end.

  Lemma apply_op_shape (o : op (T:=T)) (p : probe (T:=T)) : not_set_ref o = true ->
    apply_op N o p =
    match op_shape o (p_pcs p) with
    | None => None
    | Some (f, g, c') => Some (mkProbe (map f (p_locs p)) (option_map (map g) (p_oris p)) c')
    end.
  Proof.
    intros Hs. destruct o as [M ce|v| | |r|]; try discriminate; cbn [apply_op op_shape].
    - unfold p_rotate. destruct (cs_rotate N (p_pcs p) M ce); reflexivity.
    - unfold p_translate. destruct (cs_translate N (p_pcs p) v); [|reflexivity]. rewrite option_map_id_fun. reflexivity.
    - unfold p_flip, p_rotate. destruct (cs_rotate N (p_pcs p) _ None); reflexivity.
    - unfold p_to_O, p_translate. destruct (cs_translate N (p_pcs p) _); [|reflexivity]. rewrite option_map_id_fun. reflexivity.
    - unfold p_reset, p_to_O, p_translate. destruct (cs_translate N (p_pcs p) _) as [c1|]; [|reflexivity].
      unfold p_rotate. cbn [p_pcs p_locs p_oris]. destruct (cs_rotate N c1 _ None) as [c2|]; [|reflexivity].
      rewrite map_map. reflexivity.
  Qed.

  (* subprobe commutes with every motion other than set_reference_element — bit for bit, in
     every numeric instance: taking the subprobe first or moving first gives the same object
     (and the same raise) *)
  Lemma subprobe_commutes_gen (n : nat) (idx : np_idx) (sm : bool) (o : op (T:=T)) (px : probe_x) :
    wf_len n px -> not_set_ref o = true ->
    bind (apply_op_x N o px) (subprobe N idx sm) = bind (subprobe N idx sm px) (apply_op_x N o).
  Proof.
    intros Hwf Hs. pose proof Hwf as (Hl & Ho & Hd & Hsh & Hdd & Hnum).
    rewrite (subprobe_spec_gen n idx sm px Hwf). unfold apply_op_x at 1.
    rewrite (apply_op_shape o (x_core px) Hs).
    destruct (op_shape o (p_pcs (x_core px))) as [[[f g] c']|] eqn:Esh.
    - cbn [bind].
      assert (Hwf' : wf_len n (with_core px (mkProbe (map f (p_locs (x_core px))) (option_map (map g) (p_oris (x_core px))) c'))).
      { unfold wf_len. cbn [with_core x_core x_dims x_shapes x_dead x_numel p_locs p_oris].
        rewrite map_length. repeat split; try assumption.
        destruct (p_oris (x_core px)) as [l|]; cbn [option_map opt_len] in *; [rewrite map_length; exact Ho|exact I]. }
      rewrite (subprobe_spec_gen n idx sm _ Hwf').
      cbn [with_core x_core x_dims x_shapes x_dead x_freq x_bw x_meta x_numel p_locs p_oris p_pcs].
      rewrite np_take_map. destruct (np_take idx (p_locs (x_core px))) as [locs|]; cbn [option_map bind]; [|reflexivity].
      unfold apply_op_x. cbn [x_core]. rewrite (apply_op_shape o _ Hs). cbn [p_pcs p_locs p_oris]. rewrite Esh.
      cbn [with_core x_dims x_shapes x_dead x_freq x_bw x_meta x_numel]. rewrite map_length.
      destruct (p_oris (x_core px)) as [l|]; cbn [option_map]; [rewrite take_or_nil_map|]; reflexivity.
    - cbn [bind]. destruct (np_take idx (p_locs (x_core px))) as [locs|]; cbn [bind]; [|reflexivity].
      unfold apply_op_x. cbn [x_core]. rewrite (apply_op_shape o _ Hs). cbn [p_pcs]. rewrite Esh. reflexivity.
  Qed.
End GenericX.

(* ---- the metadata written by make_matrix_probe (any numeric instance) ---- *)
Section Meta.
  Context {T : Type} (N : Num T).
  Definition probe_type_of (numx numy : Z) : string :=
    if ((numx =? 1) && (numy =? 1))%Z%bool then "single"%string
    else if ((numx =? 1) || (numy =? 1))%Z%bool then "linear"%string else "matrix"%string.

  Ltac neq := let H := fresh in intros H; discriminate H.

  (* each of the five keys holds the caller's value if there is one that is not None, else
     the value computed by make_matrix_probe; no other key is touched *)
  Lemma matrix_metadata_spec (m : dict T) (numx numy : Z) (a b : mval T) :
    let m' := matrix_metadata m numx numy a b in
    dict_get m' "probe_type" = (if dict_unset m "probe_type" then Some (MStr (probe_type_of numx numy)) else dict_get m "probe_type") /\
    dict_get m' "numx" = (if dict_unset m "numx" then Some (MInt numx) else dict_get m "numx") /\
    dict_get m' "numy" = (if dict_unset m "numy" then Some (MInt numy) else dict_get m "numy") /\
    dict_get m' "pitch_x" = (if dict_unset m "pitch_x" then Some a else dict_get m "pitch_x") /\
    dict_get m' "pitch_y" = (if dict_unset m "pitch_y" then Some b else dict_get m "pitch_y") /\
    forall k : string, k <> "probe_type"%string -> k <> "numx"%string -> k <> "numy"%string ->
      k <> "pitch_x"%string -> k <> "pitch_y"%string -> dict_get m' k = dict_get m k.
  Proof.
    cbn zeta. unfold matrix_metadata. fold (probe_type_of numx numy).
    repeat split.
    - rewrite !dict_default_other by neq. apply dict_default_same.
    - rewrite !dict_default_other by neq. rewrite dict_default_same.
      rewrite !dict_unset_default_other, !dict_default_other by neq. reflexivity.
    - rewrite !dict_default_other by neq. rewrite dict_default_same.
      rewrite !dict_unset_default_other, !dict_default_other by neq. reflexivity.
    - rewrite !dict_default_other by neq. rewrite dict_default_same.
      rewrite !dict_unset_default_other, !dict_default_other by neq. reflexivity.
    - rewrite dict_default_same.
      rewrite !dict_unset_default_other, !dict_default_other by neq. reflexivity.
    - intros k H1 H2 H3 H4 H5.
      rewrite !dict_default_other by (intros E; symmetry in E; contradiction). reflexivity.
  Qed.
End Meta.

