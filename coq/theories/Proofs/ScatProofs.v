(* Proofs/ScatProofs.v — lemmas about Model/Scat.v at the real-number instance:
   complex-pair algebra, sums, the side-drilled-hole modal sums (symmetries for every number
   of modal terms and arbitrary Hankel values), the point source, and the to_compute gating.
   The crack is in Proofs/ScatCrackProofs.v. *)
From Coq Require Import ZArith List Bool String Reals Lia Lra.
From Flocq Require Import Core.Raux.
From Arim Require Import Base.Num Base.NumR Model.Scat.
Import ListNotations.

(* ------------------------------------------------------------------------------------ *)
(* gating (axiom-free; any value type)                                                  *)
(* ------------------------------------------------------------------------------------ *)
Section Gating.
  Context {V : Type}.

  Lemma lookup_app : forall (k : string) (d1 d2 : dict V),
    lookup k (d1 ++ d2) = match lookup k d1 with Some v => Some v | None => lookup k d2 end.
  Proof.
    intros k d1 d2. induction d1 as [|[k' v] r IH]; cbn [lookup app]; [reflexivity|].
    destruct (String.eqb k k'); [reflexivity | exact IH].
  Qed.

  Lemma lookup_gate_same : forall tc k (v : V), requested tc k = true -> lookup k (gate tc k v) = Some v.
  Proof.
    intros tc k v H. unfold gate. rewrite H. cbn [lookup]. rewrite String.eqb_refl. reflexivity.
  Qed.

  Lemma lookup_gate_other : forall tc k k' (v : V), String.eqb k k' = false -> lookup k (gate tc k' v) = None.
  Proof.
    intros tc k k' v H. unfold gate. destruct (requested tc k'); cbn [lookup]; [rewrite H|]; reflexivity.
  Qed.

  Lemma requested_in : forall tc k, In k tc -> requested tc k = true.
  Proof.
    intros tc k H. unfold requested. apply existsb_exists. exists k. split; [exact H | apply String.eqb_refl].
  Qed.

  Lemma valid_key_cases : forall k, valid_key k = true ->
    k = "LL"%string \/ k = "LT"%string \/ k = "TL"%string \/ k = "TT"%string.
  Proof.
    intros k H. unfold valid_key, scat_keys in H. cbn [existsb] in H.
    repeat (apply orb_true_iff in H; destruct H as [H|H]); try discriminate;
      apply String.eqb_eq in H; auto.
  Qed.

  Definition all_keys : list string := scat_keys.

  Lemma requested_all : forall k, valid_key k = true -> requested all_keys k = true.
  Proof. intros k H. exact H. Qed.

  (* value stored under key k by gated_dict, when k is requested *)
  Definition pick (k : string) (vLL vLT vTL vTT : V) : V :=
    if String.eqb k "LL" then vLL else if String.eqb k "LT" then vLT
    else if String.eqb k "TL" then vTL else vTT.

  Lemma gated_lookup : forall tc k (vLL vLT vTL vTT : V), valid_key k = true -> requested tc k = true ->
    lookup k (gated_dict tc vLL vLT vTL vTT) = Some (pick k vLL vLT vTL vTT).
  Proof.
    intros tc k vLL vLT vTL vTT Hv Hr. unfold gated_dict.
    destruct (valid_key_cases k Hv) as [E|[E|[E|E]]]; subst k; unfold pick; cbn [String.eqb Ascii.eqb Bool.eqb];
      repeat rewrite lookup_app;
      repeat (first [ rewrite lookup_gate_same by exact Hr | rewrite lookup_gate_other by reflexivity ]);
      reflexivity.
  Qed.

  (* the value returned for a requested key does not depend on the other requested keys *)
  Lemma gated_subset_eq_full : forall tc k (vLL vLT vTL vTT : V), valid_key k = true -> In k tc ->
    lookup k (gated_dict tc vLL vLT vTL vTT) = lookup k (gated_dict all_keys vLL vLT vTL vTT)
    /\ lookup k (gated_dict tc vLL vLT vTL vTT) <> None.
  Proof.
    intros tc k vLL vLT vTL vTT Hv Hin. split.
    - rewrite (gated_lookup tc) by (try exact Hv; apply requested_in; exact Hin).
      rewrite (gated_lookup all_keys) by (try exact Hv; apply requested_all; exact Hv). reflexivity.
    - rewrite (gated_lookup tc) by (try exact Hv; apply requested_in; exact Hin). discriminate.
  Qed.

  (* a key that was not requested is absent *)
  Lemma gated_absent : forall tc k (vLL vLT vTL vTT : V), requested tc k = false ->
    lookup k (gated_dict tc vLL vLT vTL vTT) = None.
  Proof.
    intros tc k vLL vLT vTL vTT Hr. unfold gated_dict. repeat rewrite lookup_app.
    assert (G : forall k' (v : V), lookup k (gate tc k' v) = None).
    { intros k' v. unfold gate. destruct (requested tc k') eqn:E; cbn [lookup]; [|reflexivity].
      destruct (String.eqb k k') eqn:E2; [|reflexivity].
      apply String.eqb_eq in E2. subst k'. rewrite E in Hr. discriminate. }
    repeat rewrite G. reflexivity.
  Qed.

  Lemma valid_in : forall tc k, valid_to_compute tc = true -> In k tc -> valid_key k = true.
  Proof. intros tc k H Hin. unfold valid_to_compute in H. rewrite forallb_forall in H. apply H; exact Hin. Qed.

  (* crack: all four keys are present; requested ones carry the computed value *)
  Lemma crack_dict_lookup : forall tc k (zero vLL vLT vTL vTT : V), valid_key k = true -> In k tc ->
    lookup k (crack_dict tc zero vLL vLT vTL vTT) = Some (pick k vLL vLT vTL vTT).
  Proof.
    intros tc k zero vLL vLT vTL vTT Hv Hin. apply requested_in in Hin.
    unfold crack_dict, use_incident_L, use_incident_T.
    destruct (valid_key_cases k Hv) as [E|[E|[E|E]]]; subst k; rewrite Hin;
      rewrite ?orb_true_r; reflexivity.
  Qed.

  Lemma crack_dict_subset_eq_full : forall tc k (zero vLL vLT vTL vTT : V), valid_key k = true -> In k tc ->
    lookup k (crack_dict tc zero vLL vLT vTL vTT) = lookup k (crack_dict all_keys zero vLL vLT vTL vTT).
  Proof.
    intros tc k zero vLL vLT vTL vTT Hv Hin.
    rewrite (crack_dict_lookup tc) by assumption.
    destruct (valid_key_cases k Hv) as [E|[E|[E|E]]]; subst k; reflexivity.
  Qed.

  Lemma all_keys_valid : valid_to_compute all_keys = true.
  Proof. reflexivity. Qed.
End Gating.

(* ------------------------------------------------------------------------------------ *)
(* complex pairs over R                                                                  *)
(* ------------------------------------------------------------------------------------ *)
Local Open Scope R_scope.

Notation Cx := (@cx R).
Notation "z +c w" := (cadd NumR z w) (at level 50, left associativity).
Notation "z *c w" := (cmul NumR z w) (at level 40, left associativity).
Notation "r *r z" := (rscale NumR r z) (at level 40, left associativity).

Ltac cx_unfold :=
  unfold cadd, csub, cmul, copp, rscale, cmulr, cdivr, cofR, ci, c0, cis in *;
  cbn [nadd nsub nmul ndiv nopp n0 n1 ncos nsin NumR fst snd] in *.

(* equality of pairs from two real identities closed by ring *)
Ltac cx_ring := cx_unfold; apply injective_projections; cbn [fst snd]; ring.

Lemma cx_eta : forall z : Cx, z = (fst z, snd z).
Proof. intros [a b]; reflexivity. Qed.

Lemma cadd_0_l : forall z : Cx, c0 NumR +c z = z.
Proof. intros [a b]. cx_ring. Qed.
Lemma cadd_comm : forall z w : Cx, z +c w = w +c z.
Proof. intros. cx_ring. Qed.
Lemma cadd_assoc : forall a b c : Cx, a +c (b +c c) = (a +c b) +c c.
Proof. intros. cx_ring. Qed.
Lemma cmul_comm : forall z w : Cx, z *c w = w *c z.
Proof. intros. cx_ring. Qed.
Lemma cmul_assoc : forall a b c : Cx, a *c (b *c c) = (a *c b) *c c.
Proof. intros. cx_ring. Qed.
Lemma cmul_add_r : forall a b c : Cx, a *c (b +c c) = (a *c b) +c (a *c c).
Proof. intros. cx_ring. Qed.
Lemma cmul_add_l : forall a b c : Cx, (a +c b) *c c = (a *c c) +c (b *c c).
Proof. intros. cx_ring. Qed.
Lemma cmul_0_r : forall a : Cx, a *c c0 NumR = c0 NumR.
Proof. intros. cx_ring. Qed.
Lemma cmul_0_l : forall a : Cx, c0 NumR *c a = c0 NumR.
Proof. intros. cx_ring. Qed.
Lemma rscale_rscale : forall r s (z : Cx), r *r (s *r z) = (r * s) *r z.
Proof. intros. cx_ring. Qed.
Lemma rscale_add : forall r (z w : Cx), r *r (z +c w) = (r *r z) +c (r *r w).
Proof. intros. cx_ring. Qed.
Lemma rscale_0 : forall r, r *r c0 NumR = c0 NumR.
Proof. intros. cx_ring. Qed.
Lemma rscale_cmul_r : forall r (z w : Cx), z *c (r *r w) = r *r (z *c w).
Proof. intros. cx_ring. Qed.
Lemma rscale_cmul_l : forall r (z w : Cx), (r *r z) *c w = r *r (z *c w).
Proof. intros. cx_ring. Qed.
Lemma cmulr_rscale : forall r (z : Cx), cmulr NumR z r = r *r z.
Proof. intros. cx_ring. Qed.
Lemma copp_rscale : forall z : Cx, copp NumR z = (-1) *r z.
Proof. intros. cx_ring. Qed.
Lemma cdivr_rscale : forall r (z : Cx), cdivr NumR z r = (/ r) *r z.
Proof. intros. cx_unfold. apply injective_projections; cbn [fst snd]; unfold Rdiv; ring. Qed.
(* real numerator: (r y) / D = r (y / D) — no side condition (x / 0 = x * / 0) *)
Lemma cdiv_cofR_scale : forall r y (D : Cx),
  cdiv NumR (cofR NumR (r * y)) D = r *r cdiv NumR (cofR NumR y) D.
Proof.
  intros r y D. unfold cdiv. destruct (nleb NumR (nabs NumR (snd D)) (nabs NumR (fst D)));
    cx_unfold; apply injective_projections; cbn [fst snd]; unfold Rdiv; ring.
Qed.

Lemma nabs_R : forall x, nabs NumR x = Rabs x.
Proof.
  intros x. unfold nabs. cbn [nltb nopp n0 NumR].
  destruct (Raux.Rlt_bool_spec x 0) as [H|H]; [rewrite Rabs_left by exact H | rewrite Rabs_right by lra]; reflexivity.
Qed.

(* Smith's quotient is the quotient: w * (z / w) = z for every w <> 0 *)
Lemma cdiv_correct : forall z w : Cx, w <> c0 NumR -> w *c cdiv NumR z w = z.
Proof.
  intros [a b] [c d] Hw. unfold cdiv. cbn [fst snd]. rewrite !nabs_R. cbn [nleb NumR].
  assert (Hn : 0 < c * c + d * d).
  { destruct (Req_dec c 0) as [Ec|Ec]; destruct (Req_dec d 0) as [Ed|Ed]; try nra.
    exfalso. apply Hw. subst. reflexivity. }
  destruct (Raux.Rle_bool_spec (Rabs d) (Rabs c)) as [H|H].
  - assert (Hc : c <> 0).
    { intros Ec. subst c. rewrite Rabs_R0 in H.
      destruct (Req_dec d 0) as [Ed|Ed]; [subst d; lra | pose proof (Rabs_pos_lt d Ed); lra]. }
    cx_unfold. apply injective_projections; cbn [fst snd]; field; split; try exact Hc;
      intros E; apply (Rmult_eq_compat_r c) in E; field_simplify in E; try exact Hc; nra.
  - assert (Hd : d <> 0).
    { intros Ed. subst d. rewrite Rabs_R0 in H. pose proof (Rabs_pos c). lra. }
    cx_unfold. apply injective_projections; cbn [fst snd]; field; split; try exact Hd;
      intros E; apply (Rmult_eq_compat_r d) in E; field_simplify in E; try exact Hd; nra.
Qed.

(* sums *)
Lemma csum_ext : forall (f g : Z -> Cx) n,
  (forall k, (k < n)%nat -> f (Z.of_nat k) = g (Z.of_nat k)) -> csum_upto NumR f n = csum_upto NumR g n.
Proof.
  intros f g n. induction n as [|n IH]; intros H; cbn [csum_upto]; [reflexivity|].
  rewrite IH by (intros k Hk; apply H; lia). rewrite H by lia. reflexivity.
Qed.

Lemma csum_rscale : forall c (f : Z -> Cx) n,
  csum_upto NumR (fun k => c *r f k) n = c *r csum_upto NumR f n.
Proof.
  intros c f n. induction n as [|n IH]; cbn [csum_upto].
  - symmetry; apply rscale_0.
  - rewrite IH. symmetry; apply rscale_add.
Qed.

Lemma csum_add : forall (f g : Z -> Cx) n,
  csum_upto NumR (fun k => f k +c g k) n = csum_upto NumR f n +c csum_upto NumR g n.
Proof.
  intros f g n. induction n as [|n IH]; cbn [csum_upto].
  - symmetry; apply cadd_0_l.
  - rewrite IH. cx_ring.
Qed.

Lemma csum_cmul_l : forall (c : Cx) (f : Z -> Cx) n,
  csum_upto NumR (fun k => c *c f k) n = c *c csum_upto NumR f n.
Proof.
  intros c f n. induction n as [|n IH]; cbn [csum_upto].
  - symmetry; apply cmul_0_r.
  - rewrite IH. symmetry; apply cmul_add_r.
Qed.

Lemma csum_cmul_r : forall (c : Cx) (f : Z -> Cx) n,
  csum_upto NumR (fun k => f k *c c) n = csum_upto NumR f n *c c.
Proof.
  intros c f n. induction n as [|n IH]; cbn [csum_upto].
  - symmetry; apply cmul_0_l.
  - rewrite IH. symmetry; apply cmul_add_l.
Qed.

(* exchange of two finite sums *)
Lemma csum_switch : forall (f : Z -> Z -> Cx) n m,
  csum_upto NumR (fun i => csum_upto NumR (fun j => f i j) m) n
  = csum_upto NumR (fun j => csum_upto NumR (fun i => f i j) n) m.
Proof.
  intros f n m. induction n as [|n IH]; cbn [csum_upto].
  - induction m as [|m IHm]; cbn [csum_upto]; [reflexivity|]. rewrite <- IHm. symmetry; apply cadd_0_l.
  - rewrite IH. rewrite <- csum_add. reflexivity.
Qed.

(* ------------------------------------------------------------------------------------ *)
(* trigonometry: periods indexed by integers                                             *)
(* ------------------------------------------------------------------------------------ *)
Lemma cos_period_Z : forall x (k : Z), cos (x + 2 * PI * IZR k) = cos x.
Proof.
  intros x k. destruct (Z_le_gt_dec 0 k) as [H|H].
  - rewrite <- (Z2Nat.id k H). rewrite <- INR_IZR_INZ.
    replace (x + 2 * PI * INR (Z.to_nat k)) with (x + 2 * INR (Z.to_nat k) * PI) by ring.
    apply cos_period.
  - assert (Hk : (0 <= - k)%Z) by lia.
    rewrite <- (cos_period (x + 2 * PI * IZR k) (Z.to_nat (- k))).
    rewrite INR_IZR_INZ, (Z2Nat.id _ Hk), opp_IZR. f_equal. ring.
Qed.

Lemma sin_period_Z : forall x (k : Z), sin (x + 2 * PI * IZR k) = sin x.
Proof.
  intros x k. destruct (Z_le_gt_dec 0 k) as [H|H].
  - rewrite <- (Z2Nat.id k H). rewrite <- INR_IZR_INZ.
    replace (x + 2 * PI * INR (Z.to_nat k)) with (x + 2 * INR (Z.to_nat k) * PI) by ring.
    apply sin_period.
  - assert (Hk : (0 <= - k)%Z) by lia.
    rewrite <- (sin_period (x + 2 * PI * IZR k) (Z.to_nat (- k))).
    rewrite INR_IZR_INZ, (Z2Nat.id _ Hk), opp_IZR. f_equal. ring.
Qed.

(* ------------------------------------------------------------------------------------ *)
(* side-drilled hole                                                                     *)
(* ------------------------------------------------------------------------------------ *)
Section SdhProofs.
  Variables H1a H2a H1b H2b : Z -> Cx.
  Variables f r vL vT : R.

  Lemma n_phi_R : forall a b n, n_phi NumR a b n = ((b - a) + PI) * IZR n.
  Proof. reflexivity. Qed.

  (* the four sums only see the angles through n_phi *)
  Lemma modal_sum_ext : forall trig coef maxn a b a' b',
    (forall n : Z, trig (n_phi NumR a b n) = trig (n_phi NumR a' b' n)) ->
    modal_sum NumR trig coef maxn a b = modal_sum NumR trig coef maxn a' b'.
  Proof.
    intros trig coef maxn a b a' b' H. unfold modal_sum. apply csum_ext. intros k _. rewrite H. reflexivity.
  Qed.

  Lemma modal_sum_neg : forall trig coef maxn a b a' b',
    (forall n : Z, trig (n_phi NumR a b n) = - trig (n_phi NumR a' b' n)) ->
    modal_sum NumR trig coef maxn a b = (-1) *r modal_sum NumR trig coef maxn a' b'.
  Proof.
    intros trig coef maxn a b a' b' H. unfold modal_sum. rewrite <- csum_rscale. apply csum_ext.
    intros k _. rewrite H. cx_ring.
  Qed.

  (* (1) dependence on the difference only *)
  Lemma n_phi_shift : forall a b d n, n_phi NumR (a + d) (b + d) n = n_phi NumR a b n.
  Proof. intros. rewrite !n_phi_R. f_equal. ring. Qed.

  Lemma sdh_difference : forall maxn a b d,
    sdh_LL NumR H1a H2a H1b f r vL vT maxn (a + d) (b + d) = sdh_LL NumR H1a H2a H1b f r vL vT maxn a b /\
    sdh_LT NumR H1a H1b f r vL vT maxn (a + d) (b + d) = sdh_LT NumR H1a H1b f r vL vT maxn a b /\
    sdh_TL NumR H1a H1b f r vL vT maxn (a + d) (b + d) = sdh_TL NumR H1a H1b f r vL vT maxn a b /\
    sdh_TT NumR H1a H1b H2b f r vL vT maxn (a + d) (b + d) = sdh_TT NumR H1a H1b H2b f r vL vT maxn a b.
  Proof.
    intros maxn a b d. unfold sdh_LL, sdh_LT, sdh_TL, sdh_TT.
    repeat split; f_equal; apply modal_sum_ext; intros n;
      change (nadd NumR a d) with (a + d); change (nadd NumR b d) with (b + d);
      rewrite n_phi_shift; reflexivity.
  Qed.

  (* (2) exchange of the two angles: cos(n (pi - t)) = cos(n (pi + t)), sin odd *)
  Lemma cos_n_phi_swap : forall a b n, cos (n_phi NumR a b n) = cos (n_phi NumR b a n).
  Proof.
    intros a b n. rewrite !n_phi_R.
    replace ((b - a + PI) * IZR n) with (- ((a - b + PI) * IZR n) + 2 * PI * IZR n) by ring.
    rewrite cos_period_Z. apply cos_neg.
  Qed.

  Lemma sin_n_phi_swap : forall a b n, sin (n_phi NumR a b n) = - sin (n_phi NumR b a n).
  Proof.
    intros a b n. rewrite !n_phi_R.
    replace ((b - a + PI) * IZR n) with (- ((a - b + PI) * IZR n) + 2 * PI * IZR n) by ring.
    rewrite sin_period_Z. apply sin_neg.
  Qed.

  Lemma sdh_LL_sym : forall maxn a b,
    sdh_LL NumR H1a H2a H1b f r vL vT maxn a b = sdh_LL NumR H1a H2a H1b f r vL vT maxn b a.
  Proof.
    intros. unfold sdh_LL. f_equal. apply modal_sum_ext. intros n. apply cos_n_phi_swap.
  Qed.

  Lemma sdh_TT_sym : forall maxn a b,
    sdh_TT NumR H1a H1b H2b f r vL vT maxn a b = sdh_TT NumR H1a H1b H2b f r vL vT maxn b a.
  Proof.
    intros. unfold sdh_TT. f_equal. apply modal_sum_ext. intros n. apply cos_n_phi_swap.
  Qed.

  (* the mode-converted sums are odd under the exchange *)
  Lemma sdh_LT_odd : forall maxn a b,
    sdh_LT NumR H1a H1b f r vL vT maxn a b = (-1) *r sdh_LT NumR H1a H1b f r vL vT maxn b a.
  Proof.
    intros. unfold sdh_LT. rewrite (modal_sum_neg _ _ _ a b b a) by (intros n; apply sin_n_phi_swap).
    apply rscale_cmul_r.
  Qed.

  (* (3) periodicity *)
  Lemma n_phi_period : forall a b (k l n : Z),
    n_phi NumR (a + 2 * PI * IZR k) (b + 2 * PI * IZR l) n = n_phi NumR a b n + 2 * PI * IZR ((l - k) * n).
  Proof. intros. rewrite !n_phi_R, mult_IZR, minus_IZR. ring. Qed.

  Lemma sdh_periodic_all : forall maxn a b (k l : Z),
    sdh_LL NumR H1a H2a H1b f r vL vT maxn (a + 2 * PI * IZR k) (b + 2 * PI * IZR l)
      = sdh_LL NumR H1a H2a H1b f r vL vT maxn a b /\
    sdh_LT NumR H1a H1b f r vL vT maxn (a + 2 * PI * IZR k) (b + 2 * PI * IZR l)
      = sdh_LT NumR H1a H1b f r vL vT maxn a b /\
    sdh_TL NumR H1a H1b f r vL vT maxn (a + 2 * PI * IZR k) (b + 2 * PI * IZR l)
      = sdh_TL NumR H1a H1b f r vL vT maxn a b /\
    sdh_TT NumR H1a H1b H2b f r vL vT maxn (a + 2 * PI * IZR k) (b + 2 * PI * IZR l)
      = sdh_TT NumR H1a H1b H2b f r vL vT maxn a b.
  Proof.
    intros maxn a b k l. unfold sdh_LL, sdh_LT, sdh_TL, sdh_TT.
    repeat split; f_equal; apply modal_sum_ext; intros n; rewrite n_phi_period;
      cbn [ncos nsin NumR]; first [apply cos_period_Z | apply sin_period_Z].
  Qed.

  (* (4) reciprocity of the mode-converted terms *)
  Definition Xn (n : Z) : Cx :=
    cdiv NumR (cofR NumR (IZR (n * n) - sdh_beta2 NumR f r vT / 2 - 1)) (sdh_den NumR H1a H1b f r vL vT n).

  (* W = sum_n sin(n phi) eps_n (2 n / pi) X_n: the part common to LT and TL *)
  Definition Wsum (maxn : nat) (a b : R) : Cx :=
    csum_upto NumR (fun n => (sin (n_phi NumR a b n) * (epsilon NumR n * (IZR (2 * n) / PI))) *r Xn n) (S maxn).

  Lemma modal_LT_W : forall maxn a b, sdh_alpha NumR f r vL <> 0 ->
    modal_sum NumR sin (coef_LT NumR H1a H1b f r vL vT) maxn a b = (/ sdh_alpha NumR f r vL) *r Wsum maxn a b.
  Proof.
    intros maxn a b Ha. unfold modal_sum, Wsum. rewrite <- csum_rscale. apply csum_ext. intros k _.
    unfold coef_LT. fold (Xn (Z.of_nat k)). rewrite !rscale_rscale. f_equal.
    cbn [nmul ndiv nofZ npi NumR]. field. repeat split; first [assumption | apply PI_neq0].
  Qed.

  Lemma modal_TL_W : forall maxn a b, sdh_beta NumR f r vT <> 0 ->
    modal_sum NumR sin (coef_TL NumR H1a H1b f r vL vT) maxn a b = (/ sdh_beta NumR f r vT) *r Wsum maxn a b.
  Proof.
    intros maxn a b Hb. unfold modal_sum, Wsum. rewrite <- csum_rscale. apply csum_ext. intros k _.
    unfold coef_TL. cbn [nmul ndiv nsub nofZ npi NumR].
    rewrite cdiv_cofR_scale. fold (Xn (Z.of_nat k)). rewrite !rscale_rscale. f_equal.
    field. repeat split; first [assumption | apply PI_neq0].
  Qed.

  Lemma Wsum_odd : forall maxn a b, Wsum maxn a b = (-1) *r Wsum maxn b a.
  Proof.
    intros. unfold Wsum. rewrite <- csum_rscale. apply csum_ext. intros k _.
    rewrite sin_n_phi_swap. cx_ring.
  Qed.

  Lemma sdh_reciprocal : forall maxn a b, vL <> 0 -> vT <> 0 -> f <> 0 -> r <> 0 ->
    (vT * vT) *r sdh_LT NumR H1a H1b f r vL vT maxn a b
    = copp NumR ((vL * vL) *r sdh_TL NumR H1a H1b f r vL vT maxn b a).
  Proof.
    intros maxn a b HvL HvT Hf Hr.
    assert (Hpi := PI_neq0).
    assert (Ha : sdh_alpha NumR f r vL <> 0).
    { unfold sdh_alpha, sdh_kl, two_pi. cbn [nmul ndiv nofZ npi NumR]. unfold Rdiv.
      apply Rmult_integral_contrapositive_currified; [|exact Hr].
      apply Rmult_integral_contrapositive_currified; [|apply Rinv_neq_0_compat; exact HvL].
      apply Rmult_integral_contrapositive_currified; [|exact Hf].
      apply Rmult_integral_contrapositive_currified; [lra|exact Hpi]. }
    assert (Hb : sdh_beta NumR f r vT <> 0).
    { unfold sdh_beta, sdh_kt, two_pi. cbn [nmul ndiv nofZ npi NumR]. unfold Rdiv.
      apply Rmult_integral_contrapositive_currified; [|exact Hr].
      apply Rmult_integral_contrapositive_currified; [|apply Rinv_neq_0_compat; exact HvT].
      apply Rmult_integral_contrapositive_currified; [|exact Hf].
      apply Rmult_integral_contrapositive_currified; [lra|exact Hpi]. }
    unfold sdh_LT, sdh_TL. cbn [ncos nsin NumR].
    rewrite modal_LT_W by exact Ha. rewrite modal_TL_W by exact Hb.
    rewrite (Wsum_odd maxn b a).
    unfold sdh_pref. rewrite !cmulr_rscale, copp_rscale.
    set (P := cdivr NumR (sqrt_i NumR) (npi NumR)). set (W := Wsum maxn a b).
    rewrite !rscale_cmul_r, !rscale_cmul_l, !rscale_rscale.
    f_equal.
    unfold sdh_alpha, sdh_beta, sdh_kl, sdh_kt, two_pi in *. cbn [nmul ndiv nofZ npi NumR] in *.
    field. repeat split; assumption.
  Qed.
End SdhProofs.

(* ------------------------------------------------------------------------------------ *)
(* point source                                                                          *)
(* ------------------------------------------------------------------------------------ *)
Lemma point_reciprocal : forall vL vT a b, vL <> 0 -> vT <> 0 ->
  vT * vT * point_LT NumR vL vT a b = - (vL * vL * point_TL NumR vL vT b a).
Proof.
  intros vL vT a b HL HT. unfold point_LT, point_TL. cbn [ndiv nopp NumR]. field. split; assumption.
Qed.

(* ------------------------------------------------------------------------------------ *)
(* subset of keys = full computation, for the three scatterers (any numeric instance)    *)
(* ------------------------------------------------------------------------------------ *)
Section Subset.
  Context {T : Type} (N : Num T).

  Lemma sdh_subset : forall H1a H2a H1b H2b f r vL vT mt tf tc k a b,
    valid_to_compute tc = true -> In k tc ->
    exists d dfull v,
      sdh_2d_scat N H1a H2a H1b H2b f r vL vT mt tf tc a b = Some d /\
      sdh_2d_scat N H1a H2a H1b H2b f r vL vT mt tf scat_keys a b = Some dfull /\
      lookup k d = Some v /\ lookup k dfull = Some v.
  Proof.
    intros H1a H2a H1b H2b f r vL vT mt tf tc k a b Hv Hin.
    unfold sdh_2d_scat, checked. rewrite Hv. change (valid_to_compute scat_keys) with true. cbv iota.
    pose proof (valid_in tc k Hv Hin) as Hk.
    eexists. eexists. eexists. split; [reflexivity|]. split; [reflexivity|]. split.
    - apply gated_lookup; [exact Hk | apply requested_in; exact Hin].
    - apply gated_lookup; [exact Hk | exact Hk].
  Qed.

  Lemma sdh_invalid : forall H1a H2a H1b H2b f r vL vT mt tf tc a b,
    sdh_2d_scat N H1a H2a H1b H2b f r vL vT mt tf tc a b = None <-> valid_to_compute tc = false.
  Proof.
    intros. unfold sdh_2d_scat, checked. destruct (valid_to_compute tc); split; intros H; try discriminate; reflexivity.
  Qed.

  Lemma point_subset : forall vL vT tc k a b, valid_key k = true -> In k tc ->
    exists v, lookup k (point_scat N vL vT tc a b) = Some v /\ lookup k (point_scat N vL vT scat_keys a b) = Some v.
  Proof.
    intros vL vT tc k a b Hk Hin. unfold point_scat. eexists. split.
    - apply gated_lookup; [exact Hk | apply requested_in; exact Hin].
    - apply gated_lookup; [exact Hk | exact Hk].
  Qed.

  Lemma crack_subset : forall (p : crack_params) tc k a b,
    valid_to_compute tc = true -> In k tc ->
    exists d dfull v,
      crack_2d_scat N p tc a b = Some d /\ crack_2d_scat N p scat_keys a b = Some dfull /\
      lookup k d = Some v /\ lookup k dfull = Some v.
  Proof.
    intros p tc k a b Hv Hin.
    unfold crack_2d_scat, checked. rewrite Hv. change (valid_to_compute scat_keys) with true. cbv iota.
    pose proof (valid_in tc k Hv Hin) as Hk.
    eexists. eexists. eexists. split; [reflexivity|]. split; [reflexivity|]. split.
    - apply crack_dict_lookup; assumption.
    - rewrite <- (crack_dict_subset_eq_full tc) by assumption. apply crack_dict_lookup; assumption.
  Qed.

  Lemma crack_invalid : forall (p : crack_params) tc a b,
    crack_2d_scat N p tc a b = None <-> valid_to_compute tc = false.
  Proof.
    intros. unfold crack_2d_scat, checked. destruct (valid_to_compute tc); split; intros H; try discriminate; reflexivity.
  Qed.
End Subset.
