(* Proofs/CacheGraphProofs.v — lemmas about Model/CacheGraph.v (C14 extension). Axiom-free. *)
From Coq Require Import String Ascii DecimalString DecimalZ DecimalPos.
From Coq Require Import ZArith List Bool Lia.
From Arim Require Import Model.Cache Proofs.CacheProofs Model.CacheGraph.
Import ListNotations.
Open Scope Z_scope.

(* ================================================================== *)
(* A. the literal dictionary keys                                       *)

Lemma meth_name_inj a b : meth_name a = meth_name b -> a = b.
Proof. destruct a, b; cbn; intros H; try reflexivity; discriminate. Qed.

Lemma meth_name_no_colon m : has_colon (meth_name m) = false.
Proof. destruct m; reflexivity. Qed.

Lemma append_colon_inj s1 : forall s2 t1 t2,
  has_colon s1 = false -> has_colon s2 = false ->
  String.append s1 (String ":"%char t1) = String.append s2 (String ":"%char t2) ->
  s1 = s2 /\ t1 = t2.
Proof.
  induction s1 as [|c s1 IH]; intros [|c2 s2] t1 t2 H1 H2 E; cbn in *.
  - injection E as ->. auto.
  - injection E as <- _. apply orb_false_iff in H2. destruct H2 as [H2 _].
    cbn in H2. discriminate.
  - injection E as -> _. apply orb_false_iff in H1. destruct H1 as [H1 _].
    cbn in H1. discriminate.
  - injection E as -> E. apply orb_false_iff in H1. apply orb_false_iff in H2.
    destruct (IH s2 t1 t2) as [-> ->]; tauto.
Qed.

Lemma py_str_int_inj a b : py_str_int a = py_str_int b -> a = b.
Proof.
  unfold py_str_int. intros H. apply DecimalZ.to_int_inj.
  assert (Hn : forall z, Z.to_int z <> Decimal.Pos Decimal.Nil /\ Z.to_int z <> Decimal.Neg Decimal.Nil).
  { intros [|p|p]; cbn; split; try discriminate; intros [= E];
      apply (Unsigned.to_uint_nonnil _ E). }
  pose proof (NilZero.isi _ (proj1 (Hn a)) (proj2 (Hn a))) as Ha.
  pose proof (NilZero.isi _ (proj1 (Hn b)) (proj2 (Hn b))) as Hb.
  rewrite H in Ha. congruence.
Qed.

Theorem key_string_inj k k' : key_string k = key_string k' -> k = k'.
Proof.
  destruct k as [m a], k' as [m' a']. unfold key_string. cbn [fst snd]. intros E.
  apply append_colon_inj in E; auto using meth_name_no_colon. destruct E as [E1 E2].
  apply meth_name_inj in E1. apply py_str_int_inj in E2. congruence.
Qed.

Lemma meth_names_nodup : NoDup (map meth_name all_meths).
Proof.
  assert (H : forall l, NoDup l -> NoDup (map meth_name l)).
  { intros l. induction 1 as [|x l Hx Hl IH]; cbn; constructor; auto.
    intros Hin. apply in_map_iff in Hin. destruct Hin as (y & E & Hy).
    apply meth_name_inj in E. subst. contradiction. }
  apply H. unfold all_meths.
  repeat (constructor; [cbn; intuition discriminate|]). constructor.
Qed.

(* ================================================================== *)
(* B. erasing the bookkeeping gives the machine of Model/Cache.v         *)

Definition sim {A} (c : M A) (ci : IM A) : Prop := forall x, erase (ci x) = c (fst x).

Lemma sim_lift {A} (c : M A) : sim c (ilift c).
Proof. intros x. unfold erase, ilift. cbn. destruct (c (fst x)); reflexivity. Qed.
Lemma sim_ret {A} (a : A) : sim (ret a) (iret a).
Proof. intros x. reflexivity. Qed.
Lemma sim_fail {A} e : sim (@fail A e) (ifail e).
Proof. intros x. reflexivity. Qed.

Lemma sim_bind {A B} (c : M A) ci (k : A -> M B) ki :
  sim c ci -> (forall a, sim (k a) (ki a)) -> sim (bind c k) (ibind ci ki).
Proof.
  intros Hc Hk x. unfold ibind, bind. specialize (Hc x). unfold erase in Hc.
  destruct (ci x) as [[a|e] x1]; cbn [fst snd] in Hc; rewrite <- Hc.
  - apply Hk.
  - reflexivity.
Qed.

Section Erase.
  Variable ifs : list iface.
  Variable uc : bool.

  Lemma sim_wrapper m body ib :
    (forall raw, sim (body raw) (ib raw)) ->
    forall raw f, sim (wrapper ifs uc m body raw f) (iwrapper ifs uc m ib raw f).
  Proof.
    intros Hb raw f x. unfold wrapper, iwrapper.
    destruct (resolve ifs raw) as [a|]; [|reflexivity].
    destruct (cache_get uc (m, a) (fst x)) as [v|]; [reflexivity|].
    specialize (Hb raw (fst x, stat_miss (snd x))). unfold erase in Hb. cbn [fst] in Hb.
    destruct (ib raw (fst x, stat_miss (snd x))) as [[v|e] x1]; cbn [fst snd] in Hb; rewrite <- Hb;
      reflexivity.
  Qed.

  Ltac sim_step IH :=
    first
      [ apply sim_lift | apply sim_ret | apply sim_fail
      | match goal with
        | |- sim _ (icall_fuel _ _ _ ?m _ _) => exact (IH m ltac:(cbn; lia) _ _)
        | |- sim (if ?b then _ else _) _ => destruct b
        | |- sim (match ?c with PNone => _ | PRef _ => _ end) _ => destruct c
        | |- sim (match ?c with Some _ => _ | None => _ end) _ => destruct c as [[|]|]
        end
      | apply sim_bind; [|intros ?] ].

  Theorem icall_fuel_erase n : forall m, (rank m < n)%nat ->
    forall raw f, sim (call ifs uc m raw f) (icall_fuel ifs uc n m raw f).
  Proof.
    induction n as [|n IH]; intros m Hr raw f; [lia|].
    cbn [icall_fuel].
    destruct m; cbn [call];
      unfold leg_points, orient, inc_leg_size, inc_leg_cart, inc_leg_radius, inc_leg_polar,
        inc_leg_azimuth, inc_angle, signed_inc, conv_inc, out_leg_cart, out_leg_radius,
        out_leg_polar, out_leg_azimuth, out_angle, signed_out, conv_out;
      apply sim_wrapper; intros raw'; unfold ibody; cbn [shape_of];
      unfold body_leg_points, body_orient, body_inc_leg_size, body_inc_leg_cart, body_out_leg_cart,
        body_radius, body_azimuth, body_polar, body_angle, body_signed, body_conv_inc, body_conv_out,
        conv_tail;
      cbn [rank] in Hr; repeat (sim_step IH).
  Qed.

  Lemma rank_lt5 m : (rank m < 5)%nat.
  Proof. destruct m; cbn; lia. Qed.

  Theorem icall_erase m raw f : sim (call ifs uc m raw f) (icall ifs uc m raw f).
  Proof. apply icall_fuel_erase. apply rank_lt5. Qed.

  Lemma iclient_angles_erase ks : sim (client_angles ifs uc ks) (iclient_angles ifs uc ks).
  Proof.
    induction ks as [|k ks IH]; cbn [client_angles iclient_angles]; [apply sim_ret|].
    apply sim_bind; [apply (icall_erase MConvInc)|intros v].
    apply sim_bind; [apply sim_lift|intros t].
    apply sim_bind; [apply IH|intros ts]. apply sim_ret.
  Qed.

  Lemma iclient_acc_erase acc ks : sim (client_acc ifs uc acc ks) (iclient_acc ifs uc acc ks).
  Proof.
    induction ks as [|k ks IH]; cbn [client_acc iclient_acc]; [apply sim_ret|].
    apply sim_bind; [apply (icall_erase MIncLegSize)|intros v].
    apply sim_bind; [apply sim_lift|intros t].
    apply sim_bind; [apply sim_lift|intros _]. apply IH.
  Qed.

  Lemma iclient_beam_erase angles first rest :
    sim (client_beam ifs uc angles first rest) (iclient_beam ifs uc angles first rest).
  Proof.
    unfold client_beam, iclient_beam.
    apply sim_bind; [apply iclient_angles_erase|intros ts].
    apply sim_bind; [apply (icall_erase MIncLegSize)|intros v].
    apply sim_bind; [apply sim_lift|intros acc].
    apply sim_bind; [apply iclient_acc_erase|intros _].
    apply sim_bind; [apply sim_lift|intros t]. apply sim_ret.
  Qed.

  Lemma iclient_erase c : sim (client ifs uc c) (iclient ifs uc c).
  Proof.
    unfold client, iclient. cbv zeta.
    destruct (c =? 0); [apply iclient_beam_erase|].
    destruct (c =? 1); [apply iclient_beam_erase|apply iclient_angles_erase].
  Qed.

  (* histories *)
  Definition erase_run {E} (p : E * istate) : E * state := (fst p, fst (snd p)).

  Lemma irun_query_erase q x : erase_run (irun_query ifs uc q x) = run_query ifs uc q (fst x).
  Proof.
    destruct q as [[m raw] f]. unfold irun_query, run_query.
    pose proof (icall_erase m raw f x) as H. unfold erase in H.
    destruct (icall ifs uc m raw f x) as [r x1]. cbn [fst snd] in H. rewrite <- H. reflexivity.
  Qed.

  Lemma irun_pre_erase qs : forall x, erase_run (irun_pre ifs uc qs x) = run_pre ifs uc qs (fst x).
  Proof.
    induction qs as [|q qs IH]; intros x; [reflexivity|].
    cbn [irun_pre run_pre]. pose proof (irun_query_erase q x) as H. unfold erase_run in H.
    destruct (irun_query ifs uc q x) as [e x1]. cbn [fst snd] in H. rewrite <- H.
    destruct (is_error (e_ans e)); [reflexivity|].
    specialize (IH x1). unfold erase_run in IH.
    destruct (irun_pre ifs uc qs x1) as [es x2]. cbn [fst snd] in IH. rewrite <- IH. reflexivity.
  Qed.

  Lemma istep_erase tr x o : erase_run (istep ifs uc tr x o) = step ifs uc tr (fst x) o.
  Proof.
    destruct o as [m raw f| | |qs|c|i]; cbn [istep step].
    - pose proof (irun_query_erase (m, raw, f) x) as H. unfold erase_run in H.
      destruct (irun_query ifs uc (m, raw, f) x) as [e x1]. cbn [fst snd] in H. rewrite <- H. reflexivity.
    - reflexivity.
    - reflexivity.
    - apply (irun_pre_erase qs (fst x, stat_pre uc (snd x))).
    - pose proof (iclient_erase c x) as H. unfold erase in H.
      destruct (iclient ifs uc c x) as [[ts|e] x1]; cbn [fst snd] in H; rewrite <- H; reflexivity.
    - destruct (nth_error tr i) as [[[h| | | | |] ob st]|]; try reflexivity.
      destruct (inplace (PRef h) TWritten (fst x)) as [[u|e] s1]; reflexivity.
  Qed.

  Lemma irun_from_erase ops : forall tr x,
    erase_run (irun_from ifs uc tr x ops) = run_from ifs uc tr (fst x) ops.
  Proof.
    induction ops as [|o ops IH]; intros tr x; [reflexivity|].
    cbn [irun_from run_from]. pose proof (istep_erase tr x o) as H. unfold erase_run in H.
    destruct (istep ifs uc tr x o) as [es x1]. cbn [fst snd] in H. rewrite <- H. apply IH.
  Qed.

  Theorem irun_erase ops : erase_run (irun ifs uc ops) = run ifs uc ops.
  Proof. apply (irun_from_erase ops [] (empty_state, stats0)). Qed.

End Erase.

(* ================================================================== *)
(* C. the pure evaluator of the call graph                              *)

Definition is_conv (m : meth) : bool :=
  match m with MConvInc | MConvOut => true | _ => false end.

Section Pure.
  Variable ifs : list iface.
  Variable uc : bool.

  Local Notation numif := (numif ifs).
  Local Notation callees := (callees ifs).
  Local Notation raises := (raises ifs).
  Local Notation kcall := (kcall ifs uc).

  Definition kfold (n : nat) (ds : list key) (y : list key * stats) : list key * stats :=
    fold_left (fun acc d => kcall n d acc) ds y.

  Lemma kcall_S n k y :
    kcall (S n) k y =
    if uc && mem_key k (fst y) then (fst y, stat_hit k (snd y))
    else
      let y1 := kfold n (callees (fst k) (snd k)) (fst y, stat_miss (snd y)) in
      if raises (fst k) (snd k) then y1
      else (if uc then k :: fst y1 else fst y1, stat_set uc false (snd y1)).
  Proof. reflexivity. Qed.

  Lemma kfold_cons n d ds y : kfold n (d :: ds) y = kfold n ds (kcall n d y).
  Proof. reflexivity. Qed.

  (* ---- the table ---- *)
  Ltac table_cases :=
    repeat match goal with
           | |- context [if ?b then _ else _] => destruct b eqn:?
           | |- context [match ?f with Some _ => _ | None => _ end] => destruct f eqn:?
           end.

  (* a method only calls methods of strictly smaller rank: the call graph is acyclic *)
  Lemma callees_rank m a d : In d (callees m a) -> (rank (fst d) < rank m)%nat.
  Proof.
    destruct m; unfold CacheGraph.callees; cbn [shape_of]; table_cases; cbn [In];
      intuition (subst; cbn; lia).
  Qed.

  Lemma callees_range m a d : 0 <= a < numif -> In d (callees m a) -> 0 <= snd d < numif.
  Proof.
    intros Ha. destruct m; unfold CacheGraph.callees; cbn [shape_of]; table_cases; cbn [In];
      intuition (subst; cbn [snd]; lia).
  Qed.

  Lemma callees_not_conv m a d : In d (callees m a) -> is_conv (fst d) = false.
  Proof.
    destruct m; unfold CacheGraph.callees; cbn [shape_of]; table_cases; cbn [In];
      intuition (subst; reflexivity).
  Qed.

  Lemma raises_conv m a : raises m a = true -> is_conv m = true.
  Proof.
    unfold CacheGraph.raises, spec_at. cbv zeta.
    destruct m; table_cases; cbn; auto; try discriminate.
  Qed.

  Lemma callees_noraise m a d : In d (callees m a) -> raises (fst d) (snd d) = false.
  Proof.
    intros H. apply callees_not_conv in H. destruct (raises (fst d) (snd d)) eqn:E; auto.
    apply raises_conv in E. congruence.
  Qed.

  (* ---- which keys a call can add ---- *)
  Lemma kcall_keys n : forall (k : key) (y : list key * stats) k',
    In k' (fst (kcall n k y)) -> In k' (fst y) \/ (rank (fst k') <= rank (fst k))%nat.
  Proof.
    induction n as [|n IH]; intros k y k' Hin; [left; exact Hin|].
    rewrite kcall_S in Hin. destruct (uc && mem_key k (fst y)); [left; exact Hin|].
    cbv zeta in Hin.
    assert (Hf : forall ds y0, (forall d, In d ds -> (rank (fst d) < rank (fst k))%nat) ->
                   In k' (fst (kfold n ds y0)) -> In k' (fst y0) \/ (rank (fst k') < rank (fst k))%nat).
    { induction ds as [|d ds IHd]; intros y0 Hds H0; [left; exact H0|].
      rewrite kfold_cons in H0. apply IHd in H0; [|intros; apply Hds; right; auto].
      destruct H0 as [H0|H0]; [|right; exact H0].
      apply IH in H0. destruct H0 as [H0|H0]; [left; exact H0|].
      right. specialize (Hds d (or_introl eq_refl)). lia. }
    specialize (Hf (callees (fst k) (snd k)) (fst y, stat_miss (snd y)) (callees_rank _ _)).
    destruct (raises (fst k) (snd k)).
    - apply Hf in Hin. cbn [fst] in Hin. destruct Hin; [left|right]; auto; lia.
    - cbn [fst] in Hin. destruct uc.
      + destruct Hin as [<-|Hin]; [right; lia|].
        apply Hf in Hin. cbn [fst] in Hin. destruct Hin; [left|right]; auto; lia.
      + apply Hf in Hin. cbn [fst] in Hin. destruct Hin; [left|right]; auto; lia.
  Qed.

  Lemma kfold_keys n (k : key) : forall ds (y : list key * stats) k',
    (forall d, In d ds -> (rank (fst d) < rank (fst k))%nat) ->
    In k' (fst (kfold n ds y)) -> In k' (fst y) \/ (rank (fst k') < rank (fst k))%nat.
  Proof.
    induction ds as [|d ds IHd]; intros y k' Hds H0; [left; exact H0|].
    rewrite kfold_cons in H0. apply IHd in H0; [|intros; apply Hds; right; auto].
    destruct H0 as [H0|H0]; [|right; exact H0].
    apply kcall_keys in H0. destruct H0 as [H0|H0]; [left; exact H0|].
    right. specialize (Hds d (or_introl eq_refl)). lia.
  Qed.

  (* the key being computed is not stored by its own body *)
  Lemma kfold_absent n (k : key) (y0 : list key * stats) :
    ~ In k (fst y0) -> ~ In k (fst (kfold n (callees (fst k) (snd k)) y0)).
  Proof.
    intros Hn Hin. apply (kfold_keys n k) in Hin; [|apply callees_rank].
    destruct Hin as [Hin|Hin]; [contradiction|lia].
  Qed.

  (* keys are never removed by a call *)
  Lemma kcall_mono n : forall (k : key) (y : list key * stats) k', In k' (fst y) -> In k' (fst (kcall n k y)).
  Proof.
    induction n as [|n IH]; intros k y k' Hin; [exact Hin|].
    rewrite kcall_S. destruct (uc && mem_key k (fst y)); [exact Hin|]. cbv zeta.
    assert (Hf : forall ds y0, In k' (fst y0) -> In k' (fst (kfold n ds y0))).
    { induction ds as [|d ds IHd]; intros y0 H0; [exact H0|]. rewrite kfold_cons. apply IHd, IH, H0. }
    specialize (Hf (callees (fst k) (snd k)) (fst y, stat_miss (snd y)) Hin).
    destruct (raises (fst k) (snd k)); [exact Hf|]. cbn [fst]. destruct uc; [right|]; exact Hf.
  Qed.

  (* NoCache: the key list never changes *)
  Lemma kcall_nocache n : uc = false -> forall (k : key) (y : list key * stats), fst (kcall n k y) = fst y.
  Proof.
    intros Hu. induction n as [|n IH]; intros k y; [reflexivity|].
    rewrite kcall_S, Hu. cbn [andb]. cbv zeta.
    assert (Hf : forall ds y0, fst (kfold n ds y0) = fst y0).
    { induction ds as [|d ds IHd]; intros y0; [reflexivity|]. rewrite kfold_cons, IHd. apply IH. }
    destruct (raises (fst k) (snd k)); cbn [fst]; rewrite Hf; reflexivity.
  Qed.

  Lemma mem_key_false k l : mem_key k l = false <-> ~ In k l.
  Proof.
    split.
    - intros H Hin. apply mem_key_In in Hin. congruence.
    - intros H. destruct (mem_key k l) eqn:E; auto. apply mem_key_In in E. contradiction.
  Qed.

  Lemma kcall_nodup n : forall (k : key) (y : list key * stats), NoDup (fst y) -> NoDup (fst (kcall n k y)).
  Proof.
    induction n as [|n IH]; intros k y Hnd; [exact Hnd|].
    rewrite kcall_S. destruct (uc && mem_key k (fst y)) eqn:Eh; [exact Hnd|]. cbv zeta.
    assert (Hf : forall ds y0, NoDup (fst y0) -> NoDup (fst (kfold n ds y0))).
    { induction ds as [|d ds IHd]; intros y0 H0; [exact H0|]. rewrite kfold_cons. apply IHd, IH, H0. }
    specialize (Hf (callees (fst k) (snd k)) (fst y, stat_miss (snd y)) Hnd).
    destruct (raises (fst k) (snd k)); [exact Hf|]. cbn [fst]. destruct uc; [|exact Hf].
    cbn [andb] in Eh. constructor; [|exact Hf].
    apply kfold_absent. cbn [fst]. apply mem_key_false. exact Eh.
  Qed.

  Definition in_range (k : key) : Prop := 0 <= snd k < numif.

  Lemma kcall_range n : forall (k : key) (y : list key * stats),
    in_range k -> Forall in_range (fst y) -> Forall in_range (fst (kcall n k y)).
  Proof.
    induction n as [|n IH]; intros k y Hk Hy; [exact Hy|].
    rewrite kcall_S. destruct (uc && mem_key k (fst y)); [exact Hy|]. cbv zeta.
    assert (Hf : forall ds y0, Forall in_range ds -> Forall in_range (fst y0) ->
                               Forall in_range (fst (kfold n ds y0))).
    { induction ds as [|d ds IHd]; intros y0 Hds H0; [exact H0|]. rewrite kfold_cons.
      inversion Hds; subst. apply IHd; auto. }
    assert (Hc : Forall in_range (callees (fst k) (snd k))).
    { apply Forall_forall. intros d Hd. exact (callees_range _ _ _ Hk Hd). }
    specialize (Hf _ (fst y, stat_miss (snd y)) Hc Hy).
    destruct (raises (fst k) (snd k)); [exact Hf|]. cbn [fst]. destruct uc; [constructor|]; auto.
  Qed.

  (* ---- the bookkeeping ---- *)
  (* no "Reassigning a cached value" warning, no precompute warning inside a call *)
  Lemma kcall_warn n : forall (k : key) (y : list key * stats),
    st_warn (snd (kcall n k y)) = st_warn (snd y) /\ st_prewarn (snd (kcall n k y)) = st_prewarn (snd y).
  Proof.
    induction n as [|n IH]; intros k y; [auto|].
    rewrite kcall_S. destruct (uc && mem_key k (fst y)); [cbn; auto|]. cbv zeta.
    assert (Hf : forall ds y0, st_warn (snd (kfold n ds y0)) = st_warn (snd y0) /\
                               st_prewarn (snd (kfold n ds y0)) = st_prewarn (snd y0)).
    { induction ds as [|d ds IHd]; intros y0; [auto|]. rewrite kfold_cons.
      destruct (IHd (kcall n d y0)) as [A B]. destruct (IH d y0) as [C D]. split; congruence. }
    destruct (Hf (callees (fst k) (snd k)) (fst y, stat_miss (snd y))) as [A B]. cbn [snd] in A, B.
    destruct (raises (fst k) (snd k)); [cbn in *; auto|].
    cbn [snd]. unfold stat_set. destruct uc; cbn; auto.
  Qed.

  (* Cache.hits = number of entries recorded in Cache.counter *)
  Definition hits_slack (st : stats) : Z := st_hits st - Z.of_nat (length (st_counter st)).

  Lemma kcall_hits n : forall (k : key) (y : list key * stats), hits_slack (snd (kcall n k y)) = hits_slack (snd y).
  Proof.
    induction n as [|n IH]; intros k y; [auto|].
    rewrite kcall_S. destruct (uc && mem_key k (fst y)).
    { unfold hits_slack. cbn [snd stat_hit st_hits st_counter length]. lia. }
    cbv zeta.
    assert (Hf : forall ds y0, hits_slack (snd (kfold n ds y0)) = hits_slack (snd y0)).
    { induction ds as [|d ds IHd]; intros y0; [auto|]. rewrite kfold_cons, IHd. apply IH. }
    specialize (Hf (callees (fst k) (snd k)) (fst y, stat_miss (snd y))).
    destruct (raises (fst k) (snd k)); [exact Hf|].
    cbn [snd]. unfold stat_set. destruct uc; exact Hf.
  Qed.

  (* every evaluation of a body (= every miss) either stores one entry (Cache) / is
     counted as ignored (NoCache) or raises *)
  Definition stored (y : list key * stats) : Z :=
    if uc then Z.of_nat (length (fst y)) else st_ignored (snd y).

  Lemma kcall_accounting n : forall (k : key) (y : list key * stats),
    (rank (fst k) < n)%nat ->
    stored (kcall n k y) - stored y
    + (if uc && mem_key k (fst y) then 0 else if raises (fst k) (snd k) then 1 else 0)
    = st_misses (snd (kcall n k y)) - st_misses (snd y).
  Proof.
    induction n as [|n IH]; intros k y Hr; [lia|].
    rewrite kcall_S. destruct (uc && mem_key k (fst y)) eqn:Eh.
    { unfold stored. cbn [fst snd stat_hit st_misses st_ignored]. destruct uc; lia. }
    cbv zeta.
    assert (Hf : forall ds y0,
                  (forall d, In d ds -> (rank (fst d) < n)%nat /\ raises (fst d) (snd d) = false) ->
                  stored (kfold n ds y0) - stored y0
                  = st_misses (snd (kfold n ds y0)) - st_misses (snd y0)).
    { induction ds as [|d ds IHd]; intros y0 Hds; [cbn; lia|].
      rewrite kfold_cons.
      specialize (IHd (kcall n d y0) (fun d' H => Hds d' (or_intror H))).
      destruct (Hds d (or_introl eq_refl)) as [Hrd Hnd].
      specialize (IH d y0 Hrd). rewrite Hnd in IH.
      destruct (uc && mem_key d (fst y0)); lia. }
    assert (Hc : forall d, In d (callees (fst k) (snd k)) ->
                           (rank (fst d) < n)%nat /\ raises (fst d) (snd d) = false).
    { intros d Hd. split; [pose proof (callees_rank _ _ _ Hd); lia|exact (callees_noraise _ _ _ Hd)]. }
    specialize (Hf (callees (fst k) (snd k)) (fst y, stat_miss (snd y)) Hc).
    assert (Hs : stored (fst y, stat_miss (snd y)) = stored y) by (unfold stored; destruct uc; reflexivity).
    rewrite Hs in Hf. cbn [snd stat_miss st_misses] in Hf.
    destruct (raises (fst k) (snd k)); [lia|].
    unfold stored in *. unfold stat_set. cbn [fst snd].
    destruct uc; cbn [fst snd length st_misses st_ignored]; lia.
  Qed.

  (* the key list does not depend on the bookkeeping *)
  Lemma kcall_keys_indep n : forall k K st st', fst (kcall n k (K, st)) = fst (kcall n k (K, st')).
  Proof.
    induction n as [|n IH]; intros k K st st'; [reflexivity|].
    rewrite !kcall_S. cbn [fst snd]. destruct (uc && mem_key k K); [reflexivity|]. cbv zeta.
    assert (Hf : forall ds K0 st0 st0', fst (kfold n ds (K0, st0)) = fst (kfold n ds (K0, st0'))).
    { induction ds as [|d ds IHd]; intros K0 st0 st0'; [reflexivity|]. rewrite !kfold_cons.
      pose proof (IH d K0 st0 st0') as E.
      destruct (kcall n d (K0, st0)) as [K1 st1]. destruct (kcall n d (K0, st0')) as [K1' st1'].
      cbn [fst] in E. subst K1'. apply IHd. }
    specialize (Hf (callees (fst k) (snd k)) K (stat_miss st) (stat_miss st')).
    destruct (raises (fst k) (snd k)); [exact Hf|]. cbn [fst]. rewrite Hf. reflexivity.
  Qed.

End Pure.

(* ================================================================== *)
(* D. the machine computes what the pure evaluator computes             *)

(* operations that only touch the heap *)
Definition mho {A} (c : M A) : Prop :=
  forall s r s', c s = (r, s') -> s_cache s' = s_cache s /\ s_finals s' = s_finals s.

Lemma mho_ret {A} (a : A) : mho (ret a).
Proof. intros s r s' [= <- <-]. auto. Qed.
Lemma mho_fail {A} e : mho (@fail A e).
Proof. intros s r s' [= <- <-]. auto. Qed.
Lemma mho_lift {A} (o : option A) e : mho (lift o e).
Proof. destruct o; [apply mho_ret|apply mho_fail]. Qed.
Lemma mho_alloc t : mho (alloc t).
Proof. intros s r s' [= <- <-]. auto. Qed.
Lemma mho_deref v : mho (deref v).
Proof.
  destruct v as [|h]; [apply mho_fail|]. intros s r s'. unfold deref.
  destruct (nth_error (s_heap s) h); intros [= <- <-]; auto.
Qed.
Lemma mho_inplace v f : mho (inplace v f).
Proof.
  destruct v as [|h]; [apply mho_fail|]. intros s r s'. unfold inplace.
  destruct (nth_error (s_heap s) h) as [o|]; [destruct (o_w o)|]; intros [= <- <-]; auto.
Qed.
Lemma mho_bind {A B} (c : M A) (k : A -> M B) : mho c -> (forall a, mho (k a)) -> mho (bind c k).
Proof.
  intros Hc Hk s r s'. unfold bind. destruct (c s) as [[a|e] s1] eqn:E.
  - intros H. destruct (Hc _ _ _ E) as [A1 A2]. destruct (Hk a _ _ _ H) as [B1 B2]. split; congruence.
  - intros [= <- <-]. exact (Hc _ _ _ E).
Qed.
Lemma mho_copy v : mho (copy v).
Proof. apply mho_bind; [apply mho_deref|intros; apply mho_alloc]. Qed.

Definition ho {A} (c : IM A) : Prop :=
  forall x r x', c x = (r, x') ->
    s_cache (fst x') = s_cache (fst x) /\ s_finals (fst x') = s_finals (fst x) /\ snd x' = snd x.

Lemma ho_lift {A} (c : M A) : mho c -> ho (ilift c).
Proof.
  intros Hc x r x'. unfold ilift. intros [= <- <-]. cbn [fst snd].
  destruct (c (fst x)) as [r s'] eqn:E. destruct (Hc _ _ _ E). auto.
Qed.
Lemma ho_ret {A} (a : A) : ho (iret a).
Proof. intros x r x' [= <- <-]. auto. Qed.
Lemma ho_fail {A} e : ho (@ifail A e).
Proof. intros x r x' [= <- <-]. auto. Qed.
Lemma ho_bind {A B} (c : IM A) (k : A -> IM B) : ho c -> (forall a, ho (k a)) -> ho (ibind c k).
Proof.
  intros Hc Hk x r x'. unfold ibind. destruct (c x) as [[a|e] x1] eqn:E.
  - intros H. destruct (Hc _ _ _ E) as (A1 & A2 & A3). destruct (Hk a _ _ _ H) as (B1 & B2 & B3).
    repeat split; congruence.
  - intros [= <- <-]. exact (Hc _ _ _ E).
Qed.

Ltac ho_tac :=
  repeat first
    [ apply ho_ret | apply ho_fail
    | apply ho_lift;
      first [apply mho_deref | apply mho_alloc | apply mho_copy | apply mho_inplace | apply mho_lift]
    | apply ho_bind; [|intros ?] ].

Lemma ibind_ok_inv {A B} (c : IM A) (k : A -> IM B) x b x' :
  ibind c k x = (Ok b, x') -> exists a x1, c x = (Ok a, x1) /\ k a x1 = (Ok b, x').
Proof. unfold ibind. destruct (c x) as [[a|e] x1]; intros H; [eauto|discriminate]. Qed.

Lemma ilift_deref_inv v x r x' : ilift (deref v) x = (r, x') -> x' = x.
Proof.
  unfold ilift. intros [= _ <-]. destruct x as [s st]. cbn [fst snd]. f_equal.
  destruct v as [|h]; [reflexivity|]. unfold deref. destruct (nth_error (s_heap s) h); reflexivity.
Qed.

Lemma deref_step {B} v (k : term -> IM B) x b x1 :
  ibind (ilift (deref v)) k x = (Ok b, x1) -> exists t, k t x = (Ok b, x1).
Proof.
  intros H. apply ibind_ok_inv in H. destruct H as (t & x0 & H1 & H2).
  apply ilift_deref_inv in H1. subst x0. eauto.
Qed.

Lemma res_ok_Ok H o v : res_ok H o (Ok v) -> val_ok H v o.
Proof.
  destruct o as [t [|]| |e| | |]; cbn; intros Hr; try discriminate;
    destruct Hr as (v0 & [= <-] & Hv); auto.
Qed.

Lemma lookup_mem k c v : lookup k c = Some v -> mem_key k (map fst c) = true.
Proof.
  intros H. apply lookup_In in H. apply mem_key_In. apply in_map_iff. exists (k, v). auto.
Qed.

Lemma lookup_none_mem k c : lookup k c = None -> mem_key k (map fst c) = false.
Proof.
  induction c as [|[k' v'] c IH]; cbn; [reflexivity|].
  destruct (key_eqb k k'); [discriminate|]. cbn. exact IH.
Qed.

Lemma filter_absent k (c : list (key * pyval)) :
  mem_key k (map fst c) = false -> filter (fun kv => negb (key_eqb (fst kv) k)) c = c.
Proof.
  induction c as [|[k' v'] c IH]; cbn; [reflexivity|]. intros H.
  apply orb_false_iff in H. destruct H as [H1 H2].
  assert (E : key_eqb k' k = false).
  { apply key_eqb_neq. intros ->. rewrite key_eqb_refl in H1. discriminate. }
  cbn. rewrite E. cbn. rewrite IH; auto.
Qed.

Section Tie.
  Variable ifs : list iface.
  Variable uc : bool.

  Local Notation numif := (numif ifs).
  Local Notation resolved := (resolved ifs).
  Local Notation spec_at := (spec_at ifs).
  Local Notation callees := (callees ifs).
  Local Notation raises := (raises ifs).
  Local Notation kcall := (kcall ifs uc).
  Local Notation kfold := (kfold ifs uc).
  Local Notation inv := (inv ifs uc).
  Local Notation icall_fuel := (icall_fuel ifs uc).

  Definition kpost (n : nat) (m : meth) (raw : Z) (final : bool) (x : istate)
      (p : res pyval * istate) : Prop :=
    post ifs uc m raw (fst x) (erase p) /\
    match resolved raw with
    | None => snd p = x
    | Some a =>
        (keys_of (fst (snd p)), snd (snd p)) = kcall n (m, a) (keys_of (fst x), snd x) /\
        s_finals (fst (snd p)) =
          (if final && negb (raises m a) then add_key (m, a) (s_finals (fst x)) else s_finals (fst x))
    end.

  Definition kgood (n : nat) : Prop :=
    forall m, (rank m < n)%nat ->
    forall raw f x, inv (fst x) -> kpost n m raw f x (icall_fuel n m raw f x).

  (* what the body of a method did: its callees, in order, on the key list *)
  Definition bk (n : nat) (ds : list key) (s : state) (st : stats) (s1 : state) (st1 : stats) : Prop :=
    (keys_of s1, st1) = kfold n ds (keys_of s, st) /\ s_finals s1 = s_finals s.

  Lemma bk_step n d ds s st s' st' s1 st1 :
    (keys_of s', st') = kcall n d (keys_of s, st) -> s_finals s' = s_finals s ->
    bk n ds s' st' s1 st1 -> bk n (d :: ds) s st s1 st1.
  Proof.
    intros HK HF [A B]. split; [|congruence]. rewrite kfold_cons, <- HK. exact A.
  Qed.

  Lemma ho_bk {A} (c : IM A) n s st r s1 st1 : ho c -> c (s, st) = (r, (s1, st1)) -> bk n [] s st s1 st1.
  Proof.
    intros Hc H. destruct (Hc _ _ _ H) as (A1 & A2 & A3). cbn [fst snd] in *.
    split; [|exact A2]. unfold keys_of. cbn. rewrite A1, A3. reflexivity.
  Qed.

  Lemma sub_call n m' raw' a' s st v' s' st' :
    kgood n -> (rank m' < n)%nat -> inv s -> resolved raw' = Some a' ->
    icall_fuel n m' raw' false (s, st) = (Ok v', (s', st')) ->
    inv s' /\ (keys_of s', st') = kcall n (m', a') (keys_of s, st) /\ s_finals s' = s_finals s /\
    val_ok (s_heap s') v' (spec_at m' a').
  Proof.
    intros Hg Hr Hinv Hres Hc. pose proof (Hg m' Hr raw' false (s, st) Hinv) as Hk.
    rewrite Hc in Hk. destruct Hk as [Hp Hk]. rewrite Hres in Hk. cbn [fst snd andb] in Hk.
    destruct Hk as [K F]. destruct Hp as (P1 & _ & P3). cbn [erase fst snd] in P1, P3.
    rewrite (spec_resolved ifs _ _ _ Hres) in P3. apply res_ok_Ok in P3. auto.
  Qed.

  Lemma call_step {B} n m' raw' a' (k : pyval -> IM B) s st b s1 st1 ds :
    kgood n -> (rank m' < n)%nat -> inv s -> resolved raw' = Some a' ->
    ibind (icall_fuel n m' raw' false) k (s, st) = (Ok b, (s1, st1)) ->
    (forall v' s' st', inv s' -> val_ok (s_heap s') v' (spec_at m' a') ->
                       k v' (s', st') = (Ok b, (s1, st1)) -> bk n ds s' st' s1 st1) ->
    bk n ((m', a') :: ds) s st s1 st1.
  Proof.
    intros Hg Hr Hinv Hres Hb Hk. apply ibind_ok_inv in Hb. destruct Hb as (v' & [s' st'] & Hc & Hb).
    destruct (sub_call _ _ _ _ _ _ _ _ _ Hg Hr Hinv Hres Hc) as (I & K & F & V).
    eapply bk_step; eauto.
  Qed.

  Ltac do_call Hg Hb := eapply call_step; [exact Hg| | | |exact Hb|].

  (* ---- the shapes ---- *)
  Lemma val_ok_oval H v t : val_ok H v (OVal t false) -> exists h, v = PRef h.
  Proof. cbn. intros (h & -> & _). eauto. Qed.

  Lemma k_points3 n raw a s st b s1 st1 (r1 r2 : Z) m3 (F : term -> term -> term -> term) :
    kgood n -> (1 <= n)%nat -> (rank m3 < n)%nat -> inv s ->
    resolved r1 = Some (a + (r1 - raw)) -> resolved r2 = Some (a + (r2 - raw)) -> resolved raw = Some a ->
    (s0 <~ icall_fuel n MLegPoints r1 false ;; ts <~ ilift (deref s0) ;;
     e0 <~ icall_fuel n MLegPoints r2 false ;; te <~ ilift (deref e0) ;;
     o0 <~ icall_fuel n m3 raw false ;; to <~ ilift (deref o0) ;;
     ilift (alloc (F ts te to))) (s, st) = (Ok b, (s1, st1)) ->
    bk n [(MLegPoints, a + (r1 - raw)); (MLegPoints, a + (r2 - raw)); (m3, a)] s st s1 st1.
  Proof.
    intros Hg Hn H3 Hinv R1 R2 R Hb.
    do_call Hg Hb; [cbn; lia|exact Hinv|exact R1|]. intros v1 s' st' I1 V1 Hb1.
    apply deref_step in Hb1. destruct Hb1 as (ts & Hb1).
    do_call Hg Hb1; [cbn; lia|exact I1|exact R2|]. intros v2 s'' st'' I2 V2 Hb2.
    apply deref_step in Hb2. destruct Hb2 as (te & Hb2).
    do_call Hg Hb2; [exact H3|exact I2|exact R|]. intros v3 s3 st3 I3 V3 Hb3.
    apply deref_step in Hb3. destruct Hb3 as (to & Hb3).
    eapply ho_bk; [|exact Hb3]. ho_tac.
  Qed.

  Lemma k_size n raw a s st b s1 st1 :
    kgood n -> (1 <= n)%nat -> inv s -> resolved raw = Some a -> a <> 0 ->
    (s0 <~ icall_fuel n MLegPoints (raw - 1) false ;; ts <~ ilift (deref s0) ;;
     e0 <~ icall_fuel n MLegPoints raw false ;; te <~ ilift (deref e0) ;;
     ilift (alloc (TNormDiff ts te))) (s, st) = (Ok b, (s1, st1)) ->
    bk n [(MLegPoints, a - 1); (MLegPoints, a)] s st s1 st1.
  Proof.
    intros Hg Hn Hinv R Ha Hb.
    do_call Hg Hb; [cbn; lia|exact Hinv|apply (resolved_pred ifs _ _ R Ha)|].
    intros v1 s' st' I1 V1 Hb1.
    apply deref_step in Hb1. destruct Hb1 as (ts & Hb1).
    do_call Hg Hb1; [cbn; lia|exact I1|exact R|]. intros v2 s'' st'' I2 V2 Hb2.
    apply deref_step in Hb2. destruct Hb2 as (te & Hb2).
    eapply ho_bk; [|exact Hb2]. ho_tac.
  Qed.

  Lemma k_unary n (F : term -> term) cart raw a s st b s1 st1 :
    kgood n -> (rank cart < n)%nat -> inv s -> resolved raw = Some a ->
    (c <~ icall_fuel n cart raw false ;;
     match c with
     | PNone => iret PNone
     | _ => tc <~ ilift (deref c) ;; ilift (alloc (F tc))
     end) (s, st) = (Ok b, (s1, st1)) ->
    bk n [(cart, a)] s st s1 st1.
  Proof.
    intros Hg Hr Hinv R Hb. do_call Hg Hb; [exact Hr|exact Hinv|exact R|]. intros v1 s' st' I1 V1 Hb1.
    eapply ho_bk; [|exact Hb1]. destruct v1; ho_tac.
  Qed.

  (* polar and signed: a first callee, and a second one unless the first answers None *)
  Lemma k_two n (G : term -> term -> term) (swap : bool) m1 m2 raw a s st b s1 st1 :
    kgood n -> (rank m1 < n)%nat -> (rank m2 < n)%nat -> inv s -> resolved raw = Some a ->
    (c <~ icall_fuel n m1 raw false ;;
     match c with
     | PNone => iret PNone
     | _ => r <~ icall_fuel n m2 raw false ;;
            if swap
            then (tp <~ ilift (deref r) ;; ta <~ ilift (deref c) ;; ilift (alloc (G tp ta)))
            else (tc <~ ilift (deref c) ;; tr <~ ilift (deref r) ;; ilift (alloc (G tc tr)))
     end) (s, st) = (Ok b, (s1, st1)) ->
    bk n (if is_none (spec_at m1 a) then [(m1, a)] else [(m1, a); (m2, a)]) s st s1 st1.
  Proof.
    intros Hg Hr1 Hr2 Hinv R Hb.
    destruct (spec_at m1 a) as [t [|]| |e| | |] eqn:E; cbn [is_none];
      (do_call Hg Hb; [exact Hr1|exact Hinv|exact R|]);
      intros v1 s' st' I1 V1 Hb1; rewrite E in V1; cbn in V1;
      try contradiction.
    - destruct V1 as (h & -> & _).
      do_call Hg Hb1; [exact Hr2|exact I1|exact R|]. intros v2 s'' st'' I2 V2 Hb2.
      eapply ho_bk; [|exact Hb2]. destruct swap; ho_tac.
    - subst v1. eapply ho_bk; [|exact Hb1]. ho_tac.
  Qed.

  Lemma k_conv n (flag : option bool) polar raw a s st rb s1 st1 :
    kgood n -> (rank polar < n)%nat -> inv s -> resolved raw = Some a ->
    match flag with
    | None => ifail EValue
    | Some true => icall_fuel n polar raw false
    | Some false =>
        p <~ icall_fuel n polar raw false ;;
        out <~ ilift (copy p) ;;
        _ <~ ilift (inplace out TPiMinus) ;;
        iret out
    end (s, st) = (rb, (s1, st1)) ->
    ((exists v, rb = Ok v) \/ flag = None) ->
    bk n (match flag with None => [] | Some _ => [(polar, a)] end) s st s1 st1.
  Proof.
    intros Hg Hr Hinv R Hb Hok. destruct flag as [[|]|].
    - destruct Hok as [(v & ->)|]; [|discriminate].
      destruct (sub_call _ _ _ _ _ _ _ _ _ Hg Hr Hinv R Hb) as (I & K & F & V).
      eapply bk_step; eauto. split; reflexivity.
    - destruct Hok as [(v & ->)|]; [|discriminate].
      do_call Hg Hb; [exact Hr|exact Hinv|exact R|]. intros v1 s' st' I1 V1 Hb1.
      eapply ho_bk; [|exact Hb1]. ho_tac.
    - eapply ho_bk; [|exact Hb]. ho_tac.
  Qed.

  Lemma resolved_self raw a : resolved raw = Some a -> resolved raw = Some (a + (raw - raw)).
  Proof. intros ->. f_equal. lia. Qed.

  Lemma not_conv_noraise m a : is_conv m = false -> raises m a = false.
  Proof.
    intros H. destruct (raises m a) eqn:E; auto. apply raises_conv in E. congruence.
  Qed.

  Theorem ibody_k n m raw a s st rb s1 st1 :
    kgood n -> (rank m <= n)%nat -> inv s -> resolved raw = Some a ->
    ibody ifs (icall_fuel n) m raw (s, st) = (rb, (s1, st1)) ->
    ((exists v, rb = Ok v) \/ raises m a = true) ->
    bk n (callees m a) s st s1 st1.
  Proof.
    intros Hg Hr Hinv R Hb Hok.
    assert (Hnc : is_conv m = false -> exists v, rb = Ok v).
    { intros Hc. destruct Hok as [Hok|Hok]; auto. rewrite (not_conv_noraise _ _ Hc) in Hok. discriminate. }
    unfold ibody in Hb. unfold CacheGraph.callees.
    destruct m; cbn [shape_of rank] in *;
      try (destruct (Hnc eq_refl) as (v & ->); clear Hnc Hok).
    - (* leg_points *) eapply ho_bk; [|exact Hb]. apply ho_lift. repeat (apply mho_bind; [apply mho_lift|intros ?]). apply mho_alloc.
    - (* orientations *) eapply ho_bk; [|exact Hb]. apply ho_lift. repeat (apply mho_bind; [apply mho_lift|intros ?]). apply mho_alloc.
    - (* inc_leg_size *)
      apply ibind_ok_inv in Hb. destruct Hb as (a0 & x0 & Hl & Hb).
      unfold ilift in Hl. cbn [fst snd] in Hl. rewrite (resolve_eq ifs), R in Hl. cbn in Hl.
      injection Hl as <- <-. destruct (a =? 0) eqn:E0.
      + eapply ho_bk; [|exact Hb]. ho_tac.
      + apply Z.eqb_neq in E0. eapply k_size; eauto.
    - (* inc_leg_cartesian *)
      apply ibind_ok_inv in Hb. destruct Hb as (a0 & x0 & Hl & Hb).
      unfold ilift in Hl. cbn [fst snd] in Hl. rewrite (resolve_eq ifs), R in Hl. cbn in Hl.
      injection Hl as <- <-. destruct (a =? 0) eqn:E0.
      + eapply ho_bk; [|exact Hb]. ho_tac.
      + apply Z.eqb_neq in E0.
        pose proof (k_points3 n raw a s st v s1 st1 (raw - 1) raw MOrient
                      (fun ts te to => TFromGcs ts to te) Hg) as H3.
        replace (a + (raw - 1 - raw)) with (a - 1) in H3 by lia.
        replace (a + (raw - raw)) with a in H3 by lia.
        apply H3; [lia|cbn; lia|exact Hinv|apply (resolved_pred ifs _ _ R E0)|exact R|exact R|exact Hb].
    - (* inc_leg_radius *) eapply k_unary; [exact Hg| |exact Hinv|exact R|exact Hb]; cbn; lia.
    - (* inc_leg_polar *)
      eapply (k_two n TSphTheta false MIncLegCart MIncLegRadius); [exact Hg| | |exact Hinv|exact R|exact Hb]; cbn; lia.
    - (* inc_leg_azimuth *) eapply k_unary; [exact Hg| |exact Hinv|exact R|exact Hb]; cbn; lia.
    - (* inc_angle *)
      destruct (sub_call n MIncLegPolar raw a s st v s1 st1 Hg ltac:(cbn; lia) Hinv R Hb) as (I & K & F & V).
      eapply bk_step; eauto. split; reflexivity.
    - (* signed_inc_angle *)
      eapply (k_two n TSigned true MIncLegAzimuth MIncLegPolar); [exact Hg| | |exact Hinv|exact R|exact Hb]; cbn; lia.
    - (* conventional_inc_angle *)
      destruct rb as [v|e].
      + apply ibind_ok_inv in Hb. destruct Hb as (a0 & x0 & Hl & Hb).
        unfold ilift in Hl. cbn [fst snd] in Hl. rewrite (resolve_eq ifs), R in Hl. cbn in Hl.
        injection Hl as <- <-. destruct (a =? 0) eqn:E0.
        * eapply ho_bk; [|exact Hb]. ho_tac.
        * apply ibind_ok_inv in Hb. destruct Hb as (i0 & x0 & Hl & Hb).
          destruct (get_iface_eq ifs raw a R) as (i & Hi & Hgi).
          unfold ilift in Hl. cbn [fst snd] in Hl. rewrite Hgi in Hl. cbn in Hl.
          injection Hl as <- <-. cbn [snd] in Hb. unfold flag_inc. rewrite Hi.
          eapply k_conv; [exact Hg|cbn; lia|exact Hinv|exact R|exact Hb|left; eauto].
      + destruct Hok as [(v & Hv)|Hok]; [discriminate|].
        unfold CacheGraph.raises, Cache.spec_at in Hok. cbv zeta in Hok.
        destruct (a =? 0) eqn:E0; [discriminate|].
        destruct (get_iface_eq ifs raw a R) as (i & Hi & Hgi).
        unfold flag_inc in *. rewrite Hi in *.
        destruct (i_inc i) as [[|]|] eqn:Ef; try discriminate.
        unfold ibind, ilift in Hb. cbn [fst snd] in Hb.
        rewrite (resolve_eq ifs), R in Hb. cbn in Hb. rewrite E0, Hgi in Hb. cbn in Hb.
        rewrite Ef in Hb. cbn in Hb. injection Hb as _ <- <-. split; reflexivity.
    - (* out_leg_cartesian *)
      apply ibind_ok_inv in Hb. destruct Hb as (a0 & x0 & Hl & Hb).
      unfold ilift in Hl. cbn [fst snd] in Hl. rewrite (resolve_eq ifs), R in Hl. cbn in Hl.
      injection Hl as <- <-. destruct (a =? numif - 1) eqn:E0.
      + eapply ho_bk; [|exact Hb]. ho_tac.
      + apply Z.eqb_neq in E0.
        pose proof (k_points3 n raw a s st v s1 st1 raw (raw + 1) MOrient
                      (fun ts te to => TFromGcs te to ts) Hg) as H3.
        replace (a + (raw + 1 - raw)) with (a + 1) in H3 by lia.
        replace (a + (raw - raw)) with a in H3 by lia.
        apply H3; [lia|cbn; lia|exact Hinv|exact R|apply (resolved_succ ifs _ _ R E0)|exact R|exact Hb].
    - (* out_leg_radius *) eapply k_unary; [exact Hg| |exact Hinv|exact R|exact Hb]; cbn; lia.
    - (* out_leg_polar *)
      eapply (k_two n TSphTheta false MOutLegCart MOutLegRadius); [exact Hg| | |exact Hinv|exact R|exact Hb]; cbn; lia.
    - (* out_leg_azimuth *) eapply k_unary; [exact Hg| |exact Hinv|exact R|exact Hb]; cbn; lia.
    - (* out_angle *)
      destruct (sub_call n MOutLegPolar raw a s st v s1 st1 Hg ltac:(cbn; lia) Hinv R Hb) as (I & K & F & V).
      eapply bk_step; eauto. split; reflexivity.
    - (* signed_out_angle *)
      eapply (k_two n TSigned true MOutLegAzimuth MOutLegPolar); [exact Hg| | |exact Hinv|exact R|exact Hb]; cbn; lia.
    - (* conventional_out_angle *)
      destruct rb as [v|e].
      + apply ibind_ok_inv in Hb. destruct Hb as (a0 & x0 & Hl & Hb).
        unfold ilift in Hl. cbn [fst snd] in Hl. rewrite (resolve_eq ifs), R in Hl. cbn in Hl.
        injection Hl as <- <-. destruct (a =? numif - 1) eqn:E0.
        * eapply ho_bk; [|exact Hb]. ho_tac.
        * apply ibind_ok_inv in Hb. destruct Hb as (i0 & x0 & Hl & Hb).
          destruct (get_iface_eq ifs raw a R) as (i & Hi & Hgi).
          unfold ilift in Hl. cbn [fst snd] in Hl. rewrite Hgi in Hl. cbn in Hl.
          injection Hl as <- <-. cbn [snd] in Hb. unfold flag_out. rewrite Hi.
          eapply k_conv; [exact Hg|cbn; lia|exact Hinv|exact R|exact Hb|left; eauto].
      + destruct Hok as [(v & Hv)|Hok]; [discriminate|].
        unfold CacheGraph.raises, Cache.spec_at in Hok. cbv zeta in Hok.
        destruct (a =? numif - 1) eqn:E0; [discriminate|].
        destruct (get_iface_eq ifs raw a R) as (i & Hi & Hgi).
        unfold flag_out in *. rewrite Hi in *.
        destruct (i_out i) as [[|]|] eqn:Ef; try discriminate.
        unfold ibind, ilift in Hb. cbn [fst snd] in Hb.
        rewrite (resolve_eq ifs), R in Hb. cbn in Hb. rewrite E0, Hgi in Hb. cbn in Hb.
        rewrite Ef in Hb. cbn in Hb. injection Hb as _ <- <-. split; reflexivity.
  Qed.

  Lemma set_ro_cf v s : s_cache (set_ro v s) = s_cache s /\ s_finals (set_ro v s) = s_finals s.
  Proof.
    destruct v as [|h]; cbn; auto. destruct (nth_error (s_heap s) h); auto.
  Qed.

  Lemma res_ok_raises H o r :
    res_ok H o r -> obs_is_error o = match r with Err _ => true | Ok _ => false end.
  Proof.
    destruct o as [t [|]| |e| | |]; cbn; intros Hr;
      try (destruct Hr as (v & -> & Hv); try contradiction; reflexivity).
    subst. reflexivity.
  Qed.

  Theorem kgood_all n : kgood n.
  Proof.
    induction n as [|n IH]; intros m Hr raw f [s st] Hinv; [lia|].
    assert (Hpost : post ifs uc m raw s (erase (icall_fuel (S n) m raw f (s, st)))).
    { rewrite (icall_fuel_erase ifs uc (S n) m Hr raw f (s, st)). apply call_ok. exact Hinv. }
    split; [exact Hpost|]. cbn [fst snd].
    destruct Hpost as (_ & _ & P3).
    cbn [icall_fuel] in *. unfold iwrapper in *. rewrite (resolve_eq ifs) in *. cbn [fst snd] in *.
    destruct (resolved raw) as [a|] eqn:R; [|reflexivity].
    rewrite (spec_resolved ifs _ _ _ R) in P3. apply res_ok_raises in P3.
    change (obs_is_error (spec_at m a)) with (raises m a) in P3.
    rewrite kcall_S. cbn [fst snd].
    destruct (cache_get uc (m, a) s) as [v|] eqn:Hc.
    - (* hit *)
      unfold cache_get in Hc. destruct uc eqn:Hu; [|discriminate].
      unfold keys_of at 2. rewrite (lookup_mem _ _ _ Hc). cbn [andb erase fst snd] in *.
      rewrite P3. split.
      + destruct f; reflexivity.
      + destruct f; reflexivity.
    - (* miss *)
      assert (Hm : uc && mem_key (m, a) (keys_of s) = false).
      { unfold cache_get in Hc. destruct uc; [|reflexivity]. cbn. apply lookup_none_mem. exact Hc. }
      rewrite Hm. cbv zeta.
      destruct (ibody ifs (icall_fuel n) m raw (s, stat_miss st)) as [rb [s1 st1]] eqn:Hb.
      pose proof (ibody_k n m raw a s (stat_miss st) rb s1 st1 IH ltac:(lia) Hinv R Hb) as Hbk.
      destruct rb as [v|e]; cbn [erase fst snd] in *; rewrite P3.
      + destruct (Hbk (or_introl (ex_intro _ v eq_refl))) as [K F].
        destruct (set_ro_cf v s1) as [C2 F2].
        assert (K2 : keys_of (set_ro v s1) = keys_of s1) by (unfold keys_of; rewrite C2; reflexivity).
        rewrite K2. rewrite <- K. cbn [fst snd].
        destruct uc eqn:Hu.
        * cbn [andb] in Hm.
          assert (Hab : mem_key (m, a) (keys_of s1) = false).
          { apply mem_key_false. intros Hin.
            apply (kfold_absent ifs true n (m, a) (keys_of s, stat_miss st)).
            - cbn [fst]. apply mem_key_false. exact Hm.
            - cbn [fst snd]. rewrite <- K. exact Hin. }
          rewrite Hab. split.
          -- f_equal. unfold cache_set.
             assert (E : keys_of {| s_cache := ((m, a), v) :: filter (fun kv => negb (key_eqb (fst kv) (m, a))) (s_cache (set_ro v s1));
                                    s_finals := s_finals (set_ro v s1); s_heap := s_heap (set_ro v s1) |}
                         = (m, a) :: keys_of s1).
             { unfold keys_of. cbn. rewrite filter_absent; [rewrite C2; reflexivity|].
               rewrite C2. exact Hab. }
             destruct f; exact E.
          -- unfold cache_set. destruct f; cbn; rewrite F2, F; reflexivity.
        * split.
          -- unfold cache_set. rewrite <- K2. destruct f; reflexivity.
          -- unfold cache_set. destruct f; cbn; rewrite F2, F; reflexivity.
      + destruct (Hbk (or_intror P3)) as [K F]. rewrite andb_false_r. split; [exact K|exact F].
  Qed.

  Theorem icall_k m raw f x :
    inv (fst x) -> kpost 5 m raw f x (icall ifs uc m raw f x).
  Proof. apply kgood_all. apply rank_lt5. Qed.

End Tie.

(* ================================================================== *)
(* E. histories: the machine against the pure fold                      *)

Definition is_err {A} (r : res A) : bool := match r with Err _ => true | Ok _ => false end.

Definition writeable (v : pyval) (H : heap) : Prop :=
  exists h t, v = PRef h /\ nth_error H h = Some {| o_val := t; o_w := true |}.

Lemma map_fst_filter (p : key -> bool) (c : list (key * pyval)) :
  map fst (filter (fun kv => p (fst kv)) c) = filter p (map fst c).
Proof.
  induction c as [|[k v] c IH]; cbn; [reflexivity|]. destruct (p k); cbn; rewrite IH; reflexivity.
Qed.

Lemma ibind_ok {A B} (c : IM A) (k : A -> IM B) x a x1 : c x = (Ok a, x1) -> ibind c k x = k a x1.
Proof. intros H. unfold ibind. rewrite H. reflexivity. Qed.
Lemma ibind_err {A B} (c : IM A) (k : A -> IM B) x e x1 : c x = (Err e, x1) -> ibind c k x = (Err e, x1).
Proof. intros H. unfold ibind. rewrite H. reflexivity. Qed.

Section Histories.
  Variable ifs : list iface.
  Variable uc : bool.

  Local Notation inv := (inv ifs uc).
  Local Notation spec := (spec ifs).
  Local Notation kquery := (kquery ifs uc).
  Local Notation kseq := (kseq ifs uc).
  Local Notation icall := (icall ifs uc).

  (* what the pure fold sees of a machine state *)
  Definition abs (x : istate) : kstate := (keys_of (fst x), s_finals (fst x), snd x).

  Lemma icall_kquery m raw f x :
    inv (fst x) ->
    let p := icall m raw f x in
    inv (fst (snd p)) /\ heap_le (s_heap (fst x)) (s_heap (fst (snd p))) /\
    abs (snd p) = snd (kquery m raw f (abs x)) /\
    res_ok (s_heap (fst (snd p))) (spec m raw) (fst p) /\
    is_err (fst p) = fst (kquery m raw f (abs x)).
  Proof.
    intros Hinv. cbv zeta. pose proof (icall_k ifs uc m raw f x Hinv) as [Hp Hk].
    destruct x as [s st].
    destruct (icall m raw f (s, st)) as [r [s1 st1]]. cbn [erase fst snd] in *.
    destruct Hp as (P1 & P2 & P3). split; [exact P1|]. split; [exact P2|].
    pose proof (res_ok_raises _ _ _ P3) as Hr.
    unfold CacheGraph.kquery. unfold Cache.spec in *.
    destruct (resolved ifs raw) as [a|] eqn:R.
    - destruct Hk as [K F]. cbn [fst snd]. split; [|split; [exact P3|]].
      + unfold abs. cbn [fst snd]. unfold k_keys, k_finals, k_stats. cbn [fst snd]. rewrite <- K, F. reflexivity.
      + unfold is_err. unfold CacheGraph.raises. rewrite Hr. destruct r; reflexivity.
    - injection Hk as -> ->. cbn [fst snd]. split; [reflexivity|]. split; [exact P3|].
      cbn in Hr. unfold is_err. destruct r; congruence.
  Qed.

  Definition krel {B} (p : res B * istate) (q : bool * kstate) : Prop :=
    inv (fst (snd p)) /\ abs (snd p) = snd q /\ is_err (fst p) = fst q.

  Lemma kseq_cons m raw qs y :
    kseq ((m, raw) :: qs) y =
    match obs_term (spec m raw) with
    | Ok _ => kseq qs (snd (kquery m raw true y))
    | Err _ => (true, snd (kquery m raw true y))
    end.
  Proof. reflexivity. Qed.

  Lemma kseq_app l1 : forall l2 y,
    kseq (l1 ++ l2) y = (if fst (kseq l1 y) then (true, snd (kseq l1 y)) else kseq l2 (snd (kseq l1 y))).
  Proof.
    induction l1 as [|[m raw] l1 IH]; intros l2 y; [reflexivity|].
    cbn [app]. rewrite !kseq_cons. destruct (obs_term (spec m raw)); [apply IH|reflexivity].
  Qed.

  (* a final query whose answer is then read as an array *)
  Lemma qd_step {B} m raw qs (k : term -> IM B) x :
    inv (fst x) ->
    (forall t x1, inv (fst x1) -> heap_le (s_heap (fst x)) (s_heap (fst x1)) ->
                  abs x1 = snd (kquery m raw true (abs x)) -> krel (k t x1) (kseq qs (abs x1))) ->
    krel (ibind (icall m raw true) (fun v => ibind (ilift (deref v)) k) x)
         (kseq ((m, raw) :: qs) (abs x)).
  Proof.
    intros Hinv Hk. rewrite kseq_cons. unfold ibind at 1.
    pose proof (icall_kquery m raw true x Hinv) as Hq. cbv zeta in Hq.
    destruct (icall m raw true x) as [r x1]. cbn [fst snd] in Hq.
    destruct Hq as (I1 & L1 & A1 & R1 & _).
    destruct (spec m raw) as [t [|]| |e| | |]; cbn in R1;
      try (destruct R1 as (v & _ & []); fail).
    - destruct R1 as (v & -> & h & -> & Hf). cbn [obs_term].
      unfold ibind, ilift, deref. cbn [fst snd]. unfold frozen in Hf. rewrite Hf. cbn [fst snd o_val].
      destruct x1 as [s1 st1]. cbn [fst snd] in *. rewrite <- A1. apply Hk; auto.
    - destruct R1 as (v & -> & ->). cbn. split; [exact I1|]. split; [exact A1|reflexivity].
    - subst r. cbn. split; [exact I1|]. split; [exact A1|reflexivity].
  Qed.

  (* a final query whose answer is then copied *)
  Lemma qc_step {B} m raw qs (k : pyval -> IM B) x :
    inv (fst x) ->
    (forall acc x2, inv (fst x2) -> writeable acc (s_heap (fst x2)) ->
                    abs x2 = snd (kquery m raw true (abs x)) -> krel (k acc x2) (kseq qs (abs x2))) ->
    krel (ibind (icall m raw true) (fun v => ibind (ilift (copy v)) k) x)
         (kseq ((m, raw) :: qs) (abs x)).
  Proof.
    intros Hinv Hk. rewrite kseq_cons. unfold ibind at 1.
    pose proof (icall_kquery m raw true x Hinv) as Hq. cbv zeta in Hq.
    destruct (icall m raw true x) as [r x1]. cbn [fst snd] in Hq.
    destruct Hq as (I1 & L1 & A1 & R1 & _).
    destruct (spec m raw) as [t [|]| |e| | |]; cbn in R1;
      try (destruct R1 as (v & _ & []); fail).
    - destruct R1 as (v & -> & h & -> & Hf). cbn [obs_term].
      unfold ibind, ilift, copy, bind, deref. cbn [fst snd]. unfold frozen in Hf. rewrite Hf.
      cbn [fst snd o_val alloc].
      destruct x1 as [s1 st1]. cbn [fst snd] in *.
      set (s2 := {| s_cache := s_cache s1; s_finals := s_finals s1;
                    s_heap := s_heap s1 ++ [{| o_val := t; o_w := true |}] |}).
      assert (A2 : abs (s2, st1) = abs (s1, st1)) by reflexivity.
      rewrite <- A1, <- A2. apply Hk.
      + eapply inv_heap; [exact I1| | |]; try reflexivity. cbn. apply heap_le_fr, heap_le_app.
      + exists (length (s_heap s1)), t. split; [reflexivity|]. cbn.
        rewrite nth_error_app2 by lia. rewrite Nat.sub_diag. reflexivity.
      + rewrite A2. exact A1.
    - destruct R1 as (v & -> & ->). cbn. split; [exact I1|]. split; [exact A1|reflexivity].
    - subst r. cbn. split; [exact I1|]. split; [exact A1|reflexivity].
  Qed.

  Lemma krel_bind {A B} (c : IM A) (k : A -> IM B) l1 l2 x :
    krel (c x) (kseq l1 (abs x)) ->
    (forall a x1, c x = (Ok a, x1) -> inv (fst x1) -> krel (k a x1) (kseq l2 (abs x1))) ->
    krel (ibind c k x) (kseq (l1 ++ l2) (abs x)).
  Proof.
    intros Hc Hk. rewrite kseq_app. unfold ibind. destruct Hc as (I & A1 & E).
    destruct (c x) as [[a|e] x1]; cbn [fst snd is_err] in *; rewrite <- E, <- A1.
    - apply Hk; auto.
    - split; [exact I|]. split; reflexivity.
  Qed.

  Definition convq (ks : list Z) : list (meth * Z) := map (fun k => (MConvInc, k)) ks.
  Definition sizeq (ks : list Z) : list (meth * Z) := map (fun k => (MIncLegSize, k)) ks.

  Lemma iclient_angles_k ks : forall x,
    inv (fst x) -> krel (iclient_angles ifs uc ks x) (kseq (convq ks) (abs x)).
  Proof.
    induction ks as [|k ks IH]; intros x Hinv.
    - cbn. split; [exact Hinv|]. split; reflexivity.
    - cbn [iclient_angles convq map]. apply qd_step; [exact Hinv|].
      intros t x1 I1 _ _. specialize (IH x1 I1). destruct IH as (I & A & E).
      unfold ibind. destruct (iclient_angles ifs uc ks x1) as [[ts|e] x2]; cbn [fst snd is_err] in *.
      + split; [exact I|]. split; [exact A|exact E].
      + split; [exact I|]. split; [exact A|exact E].
  Qed.

  Lemma iclient_acc_k ks : forall x acc,
    inv (fst x) -> writeable acc (s_heap (fst x)) ->
    krel (iclient_acc ifs uc acc ks x) (kseq (sizeq ks) (abs x)) /\
    (is_err (fst (iclient_acc ifs uc acc ks x)) = false ->
     writeable acc (s_heap (fst (snd (iclient_acc ifs uc acc ks x))))).
  Proof.
    induction ks as [|k ks IH]; intros x acc Hinv Hw.
    - cbn. split; [|auto]. split; [exact Hinv|]. split; reflexivity.
    - cbn [iclient_acc sizeq map].
      (* facts about the query *)
      pose proof (icall_kquery MIncLegSize k true x Hinv) as Hq. cbv zeta in Hq.
      assert (Hcont : forall t x1, inv (fst x1) -> heap_le (s_heap (fst x)) (s_heap (fst x1)) ->
                krel (ibind (ilift (inplace acc (fun self => TIadd self t)))
                            (fun _ => iclient_acc ifs uc acc ks) x1) (kseq (sizeq ks) (abs x1)) /\
                (is_err (fst (ibind (ilift (inplace acc (fun self => TIadd self t)))
                                    (fun _ => iclient_acc ifs uc acc ks) x1)) = false ->
                 writeable acc (s_heap (fst (snd (ibind (ilift (inplace acc (fun self => TIadd self t)))
                                    (fun _ => iclient_acc ifs uc acc ks) x1)))))).
      { intros t [s1 st1] I1 L1. cbn [fst snd] in *.
        destruct Hw as (ha & ta & -> & Hn). pose proof (L1 _ _ Hn) as Hn1.
        unfold ibind, ilift, inplace. cbn [fst snd]. rewrite Hn1. cbn [o_w fst snd o_val].
        set (s2 := {| s_cache := s_cache s1; s_finals := s_finals s1;
                      s_heap := upd (s_heap s1) ha {| o_val := TIadd ta t; o_w := true |} |}).
        assert (I2 : inv s2).
        { eapply inv_heap; [exact I1| | |]; try reflexivity. cbn.
          eapply fr_le_upd_writeable; eauto. }
        assert (W2 : writeable (PRef ha) (s_heap s2)).
        { exists ha, (TIadd ta t). split; [reflexivity|]. cbn. eapply nth_error_upd_same; eauto. }
        assert (A2 : abs (s2, st1) = abs (s1, st1)) by reflexivity.
        rewrite <- A2. exact (IH (s2, st1) (PRef ha) I2 W2). }
      split.
      + apply qd_step; [exact Hinv|]. intros t x1 I1 L1 _. exact (proj1 (Hcont t x1 I1 L1)).
      + destruct (icall MIncLegSize k true x) as [r x1] eqn:Ec. cbn [fst snd] in Hq.
        destruct Hq as (I1 & L1 & A1 & R1 & _).
        destruct r as [v|e]; [|rewrite (ibind_err _ _ _ _ _ Ec); cbn; discriminate].
        rewrite (ibind_ok _ _ _ _ _ Ec).
        destruct (ilift (deref v) x1) as [[t|e] x1'] eqn:Ed;
          [|rewrite (ibind_err _ _ _ _ _ Ed); cbn; discriminate].
        rewrite (ibind_ok _ _ _ _ _ Ed). apply ilift_deref_inv in Ed. subst x1'.
        exact (proj2 (Hcont t x1 I1 L1)).
  Qed.

  Lemma iclient_beam_k angles first rest x :
    inv (fst x) ->
    krel (iclient_beam ifs uc angles first rest x)
         (kseq (convq angles ++ [(MIncLegSize, first)] ++ sizeq rest) (abs x)).
  Proof.
    intros Hinv. unfold iclient_beam.
    apply krel_bind; [apply iclient_angles_k; exact Hinv|].
    intros ts x1 _ I1. cbn [app].
    apply qc_step; [exact I1|]. intros acc x2 I2 W2 _.
    destruct (iclient_acc_k rest x2 acc I2 W2) as [(I3 & A3 & E3) W3].
    unfold ibind at 1. destruct (iclient_acc ifs uc acc rest x2) as [[u|e] x3]; cbn [fst snd is_err] in *.
    - specialize (W3 eq_refl). destruct W3 as (ha & ta & -> & Hn).
      unfold ibind, ilift, deref. cbn [fst snd]. rewrite Hn. cbn [fst snd is_err].
      split; [exact I3|]. split; [destruct x3; exact A3|exact E3].
    - split; [exact I3|]. split; [exact A3|exact E3].
  Qed.

  Lemma iclient_k c x :
    inv (fst x) -> krel (iclient ifs uc c x) (kseq (client_queries ifs c) (abs x)).
  Proof.
    intros Hinv. unfold iclient, client_queries. cbv zeta.
    destruct (c =? 0); [apply iclient_beam_k; exact Hinv|].
    destruct (c =? 1); [apply iclient_beam_k; exact Hinv|apply iclient_angles_k; exact Hinv].
  Qed.

  (* ---- steps ---- *)
  Lemma abs_clear_inter s st : abs (clear_inter s, st) = kclear_inter (abs (s, st)).
  Proof.
    unfold abs, kclear_inter, clear_inter, keys_of, k_keys, k_finals, k_stats. cbn [fst snd s_cache s_finals].
    rewrite (map_fst_filter (fun k => mem_key k (s_finals s))). reflexivity.
  Qed.

  Lemma irun_query_k m raw f x :
    inv (fst x) ->
    let p := irun_query ifs uc (m, raw, f) x in
    inv (fst (snd p)) /\ abs (snd p) = snd (kquery m raw f (abs x)) /\
    is_error (e_ans (fst p)) = fst (kquery m raw f (abs x)).
  Proof.
    intros Hinv. cbv zeta. unfold irun_query.
    pose proof (icall_kquery m raw f x Hinv) as Hq. cbv zeta in Hq.
    destruct (icall m raw f x) as [r x1]. cbn [fst snd] in *.
    destruct Hq as (I1 & _ & A1 & _ & E1). split; [exact I1|]. split; [exact A1|].
    rewrite <- E1. destruct r as [[|h]|e]; reflexivity.
  Qed.

  Lemma irun_pre_k qs : forall x,
    inv (fst x) ->
    inv (fst (snd (irun_pre ifs uc qs x))) /\
    abs (snd (irun_pre ifs uc qs x)) = kpre ifs uc qs (abs x).
  Proof.
    induction qs as [|[[m raw] f] qs IH]; intros x Hinv.
    - cbn [irun_pre kpre fst snd]. split; [apply inv_clear_inter; exact Hinv|].
      destruct x as [s st]. apply abs_clear_inter.
    - cbn [irun_pre kpre]. pose proof (irun_query_k m raw f x Hinv) as Hq. cbv zeta in Hq.
      destruct (irun_query ifs uc (m, raw, f) x) as [e x1]. cbn [fst snd] in Hq.
      destruct Hq as (I1 & A1 & E1). rewrite E1.
      destruct (kquery m raw f (abs x)) as [eb y1]. cbn [fst snd] in *. destruct eb.
      + cbn [fst snd]. auto.
      + specialize (IH x1 I1). destruct (irun_pre ifs uc qs x1) as [es x2]. cbn [fst snd] in *.
        rewrite <- A1. exact IH.
  Qed.

  Lemma inv_inplace v f s : inv s -> inv (snd (inplace v f s)).
  Proof.
    intros Hinv. destruct v as [|h]; [exact Hinv|]. unfold inplace.
    destruct (nth_error (s_heap s) h) as [o|] eqn:En; [|exact Hinv].
    destruct (o_w o) eqn:Ew; [|exact Hinv]. cbn [snd].
    eapply inv_heap; [exact Hinv| | |]; try reflexivity. cbn.
    eapply fr_le_upd_writeable; eauto.
  Qed.

  Theorem istep_k tr x o :
    inv (fst x) ->
    inv (fst (snd (istep ifs uc tr x o))) /\ abs (snd (istep ifs uc tr x o)) = kstep ifs uc (abs x) o.
  Proof.
    intros Hinv. destruct o as [m raw f| | |qs|c|i]; cbn [istep kstep].
    - pose proof (irun_query_k m raw f x Hinv) as Hq. cbv zeta in Hq.
      destruct (irun_query ifs uc (m, raw, f) x) as [e x1]. cbn [fst snd] in *. tauto.
    - cbn [fst snd]. split; [apply inv_clear_inter; exact Hinv|].
      destruct x as [s st]. apply abs_clear_inter.
    - cbn [fst snd]. split; [apply inv_clear_all; exact Hinv|]. reflexivity.
    - exact (irun_pre_k qs (fst x, stat_pre uc (snd x)) Hinv).
    - destruct (iclient_k c x Hinv) as (I & A & _).
      destruct (iclient ifs uc c x) as [[ts|e] x1]; cbn [fst snd] in *; auto.
    - destruct (nth_error tr i) as [[[h| | | | |] ob st]|]; cbn [fst snd]; try (split; [exact Hinv|destruct x; reflexivity]).
      pose proof (inv_inplace (PRef h) TWritten (fst x) Hinv) as I.
      pose proof (mho_inplace (PRef h) TWritten (fst x)) as Hc.
      destruct (inplace (PRef h) TWritten (fst x)) as [[u|e] s1]; cbn [fst snd] in *;
        destruct (Hc _ _ eq_refl) as [C F]; (split; [exact I|]);
        unfold abs, keys_of; cbn [fst snd]; rewrite C, F; reflexivity.
  Qed.

  Lemma irun_from_k ops : forall tr x,
    inv (fst x) ->
    inv (fst (snd (irun_from ifs uc tr x ops))) /\
    abs (snd (irun_from ifs uc tr x ops)) = krun_from ifs uc (abs x) ops.
  Proof.
    induction ops as [|o ops IH]; intros tr x Hinv; [cbn; auto|].
    cbn [irun_from krun_from fold_left]. destruct (istep_k tr x o Hinv) as [I A].
    destruct (istep ifs uc tr x o) as [es x1]. cbn [fst snd] in *. rewrite <- A. apply IH. exact I.
  Qed.

  Theorem irun_k ops : abs (snd (irun ifs uc ops)) = krun ifs uc ops.
  Proof. apply (irun_from_k ops [] (empty_state, stats0)). apply inv_empty. Qed.

End Histories.

(* ================================================================== *)
(* F. consequences                                                      *)

Lemma filter_len {A} (p : A -> bool) (l : list A) : (length (filter p l) <= length l)%nat.
Proof. induction l as [|x l IH]; cbn; [lia|]. destruct (p x); cbn; lia. Qed.

Section Consequences.
  Variable ifs : list iface.
  Variable uc : bool.

  Local Notation numif := (numif ifs).
  Local Notation kcall := (kcall ifs uc).
  Local Notation kquery := (kquery ifs uc).
  Local Notation kstep := (kstep ifs uc).
  Local Notation krun := (krun ifs uc).
  Local Notation krun_from := (krun_from ifs uc).
  Local Notation in_range := (in_range ifs).

  (* every step of the pure fold is a composition of four atomic operations *)
  Lemma kpre_preserves (P : kstate -> Prop) :
    (forall m raw f y, P y -> P (snd (kquery m raw f y))) ->
    (forall y, P y -> P (kclear_inter y)) ->
    forall qs y, P y -> P (kpre ifs uc qs y).
  Proof.
    intros Hq Hc. induction qs as [|[[m raw] f] qs IH]; intros y Hy; cbn [kpre]; [auto|].
    specialize (Hq m raw f y Hy). destruct (kquery m raw f y) as [e y1]. cbn [snd] in Hq.
    destruct e; auto.
  Qed.

  Lemma kseq_preserves (P : kstate -> Prop) :
    (forall m raw f y, P y -> P (snd (kquery m raw f y))) ->
    forall qs y, P y -> P (snd (kseq ifs uc qs y)).
  Proof.
    intros Hq. induction qs as [|[m raw] qs IH]; intros y Hy; [exact Hy|].
    rewrite kseq_cons. destruct (obs_term (spec ifs m raw)); [apply IH|cbn [snd]]; apply Hq; exact Hy.
  Qed.

  Lemma kstep_preserves (P : kstate -> Prop) :
    (forall m raw f y, P y -> P (snd (kquery m raw f y))) ->
    (forall y, P y -> P (kclear_inter y)) ->
    (forall y, P y -> P (kclear_all y)) ->
    (forall y, P y -> P (k_keys y, k_finals y, stat_pre uc (k_stats y))) ->
    forall y o, P y -> P (kstep y o).
  Proof.
    intros Hq Hc Ha Hp y o Hy. destruct o as [m raw f| | |qs|c|i]; cbn [CacheGraph.kstep]; auto.
    - apply kpre_preserves; auto.
    - apply kseq_preserves; auto.
  Qed.

  Lemma krun_preserves (P : kstate -> Prop) :
    P ([], [], stats0) ->
    (forall m raw f y, P y -> P (snd (kquery m raw f y))) ->
    (forall y, P y -> P (kclear_inter y)) ->
    (forall y, P y -> P (kclear_all y)) ->
    (forall y, P y -> P (k_keys y, k_finals y, stat_pre uc (k_stats y))) ->
    forall ops, P (krun ops).
  Proof.
    intros H0 Hq Hc Ha Hp ops. unfold CacheGraph.krun, CacheGraph.krun_from.
    generalize ([] : list key, [] : list key, stats0) H0.
    induction ops as [|o ops IH]; intros y Hy; [exact Hy|].
    cbn [fold_left]. apply IH. apply kstep_preserves; auto.
  Qed.

  (* the shape of a query on the pure state *)
  Lemma kquery_cases (P : kstate -> Prop) m raw f y :
    P y ->
    (forall a, resolved ifs raw = Some a -> 0 <= a < numif ->
               forall F, (F = k_finals y \/ F = add_key (m, a) (k_finals y)) ->
               P (fst (kcall 5 (m, a) (k_keys y, k_stats y)), F, snd (kcall 5 (m, a) (k_keys y, k_stats y)))) ->
    P (snd (kquery m raw f y)).
  Proof.
    intros Hy H. unfold CacheGraph.kquery. destruct (resolved ifs raw) as [a|] eqn:R; [|exact Hy].
    cbn [snd]. apply (H a eq_refl (resolved_range ifs _ _ R)).
    destruct (f && negb (raises ifs m a)); auto.
  Qed.

  Lemma add_key_nodup k l : NoDup l -> NoDup (add_key k l).
  Proof.
    intros H. unfold add_key. destruct (mem_key k l) eqn:E; [exact H|].
    constructor; [|exact H]. apply mem_key_false. exact E.
  Qed.

  (* ---- structural invariants of the key lists ---- *)
  Definition keys_wf (y : kstate) : Prop :=
    NoDup (k_keys y) /\ Forall in_range (k_keys y) /\ NoDup (k_finals y) /\ Forall in_range (k_finals y) /\
    (uc = false -> k_keys y = []).

  Theorem krun_keys_wf ops : keys_wf (krun ops).
  Proof.
    apply krun_preserves.
    - repeat split; try constructor.
    - intros m raw f y Hy. apply kquery_cases; [exact Hy|].
      intros a R Ha F HF. destruct Hy as (A & B & C & D & E). unfold keys_wf, k_keys, k_finals. cbn [fst snd].
      split; [apply kcall_nodup; exact A|].
      split; [apply kcall_range; [exact Ha|exact B]|].
      split; [destruct HF as [->| ->]; [exact C|apply add_key_nodup; exact C]|].
      split.
      + destruct HF as [->| ->]; [exact D|]. unfold add_key. destruct (mem_key (m, a) (k_finals y)); [exact D|].
        constructor; [exact Ha|exact D].
      + intros Hu. rewrite (kcall_nocache ifs uc 5 Hu). cbn [fst]. auto.
    - intros y (A & B & C & D & E). unfold keys_wf, kclear_inter, k_keys, k_finals. cbn [fst snd].
      split; [apply NoDup_filter; exact A|].
      split; [apply Forall_forall; intros k Hk; apply filter_In in Hk; rewrite Forall_forall in B; apply B; tauto|].
      split; [exact C|]. split; [exact D|]. intros Hu. fold (k_keys y). rewrite (E Hu). reflexivity.
    - intros y _. repeat split; try constructor.
    - intros y Hy. exact Hy.
  Qed.

  Lemma in_all_keys k : in_range k -> In k (all_keys ifs).
  Proof.
    destruct k as [m a]. unfold CacheGraphProofs.in_range. cbn [snd]. intros Ha.
    unfold all_keys. apply in_flat_map. exists m. split.
    - destruct m; cbn; tauto.
    - apply in_map. unfold indices. apply in_map_iff. exists (Z.to_nat a). split; [lia|].
      apply in_seq. unfold Cache.numif in Ha. lia.
  Qed.

  Lemma all_keys_length : length (all_keys ifs) = (17 * length ifs)%nat.
  Proof.
    unfold all_keys, all_meths. cbn [flat_map]. rewrite !app_length, !map_length.
    rewrite (indices_length ifs). cbn [length]. lia.
  Qed.

  Lemma wf_bound l : NoDup l -> Forall in_range l -> (length l <= 17 * length ifs)%nat.
  Proof.
    intros A B. rewrite <- all_keys_length. apply NoDup_incl_length; [exact A|].
    intros k Hk. apply in_all_keys. rewrite Forall_forall in B. auto.
  Qed.

  (* ---- the bookkeeping ---- *)
  Definition stats_wf (y : kstate) : Prop :=
    st_warn (k_stats y) = 0 /\ hits_slack (k_stats y) = 0 /\
    stored uc (k_keys y, k_stats y) <= st_misses (k_stats y) /\
    0 <= st_hits (k_stats y) /\
    (uc = false -> st_hits (k_stats y) = 0 /\ st_counter (k_stats y) = []) /\
    (uc = true -> st_ignored (k_stats y) = 0 /\ st_prewarn (k_stats y) = 0).

  Lemma kcall_nocache_hits n : uc = false -> forall (k : key) (y : list key * stats),
    st_hits (snd (kcall n k y)) = st_hits (snd y) /\ st_counter (snd (kcall n k y)) = st_counter (snd y).
  Proof.
    intros Hu. induction n as [|n IH]; intros k y; [auto|].
    rewrite kcall_S, Hu. cbn [andb]. cbv zeta.
    assert (Hf : forall ds (y0 : list key * stats),
               st_hits (snd (kfold ifs false n ds y0)) = st_hits (snd y0) /\
               st_counter (snd (kfold ifs false n ds y0)) = st_counter (snd y0)).
    { induction ds as [|d ds IHd]; intros y0; [auto|]. rewrite kfold_cons.
      destruct (IHd (CacheGraph.kcall ifs false n d y0)) as [A B]. subst uc.
      destruct (IH d y0) as [C D]. split; congruence. }
    subst uc. destruct (Hf (callees ifs (fst k) (snd k)) (fst y, stat_miss (snd y))) as [A B].
    destruct (raises ifs (fst k) (snd k)); cbn [snd stat_set st_hits st_counter]; auto.
  Qed.

  Lemma kcall_cache_ignored n : uc = true -> forall (k : key) (y : list key * stats),
    st_ignored (snd (kcall n k y)) = st_ignored (snd y).
  Proof.
    intros Hu. induction n as [|n IH]; intros k y; [auto|].
    rewrite kcall_S, Hu. cbn [andb]. destruct (mem_key k (fst y)); [reflexivity|]. cbv zeta.
    assert (Hf : forall ds (y0 : list key * stats),
               st_ignored (snd (kfold ifs true n ds y0)) = st_ignored (snd y0)).
    { induction ds as [|d ds IHd]; intros y0; [auto|]. rewrite kfold_cons, IHd. subst uc. apply IH. }
    subst uc. pose proof (Hf (callees ifs (fst k) (snd k)) (fst y, stat_miss (snd y))) as A.
    destruct (raises ifs (fst k) (snd k)); cbn [snd stat_set st_ignored]; auto.
  Qed.

  Lemma kcall_hits_mono n (k : key) (y : list key * stats) :
    st_hits (snd y) - Z.of_nat (length (st_counter (snd y))) = 0 -> 0 <= st_hits (snd y) ->
    0 <= st_hits (snd (kcall n k y)).
  Proof.
    intros H0 H1. pose proof (kcall_hits ifs uc n k y) as H. unfold hits_slack in H. lia.
  Qed.

  Theorem krun_stats_wf ops : stats_wf (krun ops).
  Proof.
    apply krun_preserves.
    - unfold stats_wf, stored, hits_slack, k_stats, k_keys. cbn. destruct uc; repeat split; lia.
    - intros m raw f y Hy. apply kquery_cases; [exact Hy|].
      intros a R Ha F _. destruct Hy as (A & B & C & D & E & G).
      unfold stats_wf, k_stats, k_keys in *. cbn [fst snd] in *.
      set (y0 := (fst (fst y), snd y)) in *.
      destruct (kcall_warn ifs uc 5 (m, a) y0) as [W1 W2].
      pose proof (kcall_hits ifs uc 5 (m, a) y0) as H1.
      pose proof (kcall_accounting ifs uc 5 (m, a) y0 (rank_lt5 m)) as H2.
      split; [subst y0; cbn [snd] in *; congruence|].
      split; [subst y0; cbn [snd] in *; congruence|].
      split.
      { replace (fst (kcall 5 (m, a) y0), snd (kcall 5 (m, a) y0)) with (kcall 5 (m, a) y0)
          by (destruct (kcall 5 (m, a) y0); reflexivity).
        subst y0. cbn [fst snd] in *.
        destruct (uc && mem_key (m, a) (fst (fst y))); [lia|].
        destruct (raises ifs m a); lia. }
      split; [apply kcall_hits_mono; subst y0; cbn [snd]; unfold hits_slack in B; lia|].
      split.
      + intros Hu. destruct (E Hu) as [E1 E2]. destruct (kcall_nocache_hits 5 Hu (m, a) y0) as [N1 N2].
        subst y0. cbn [snd] in *. split; congruence.
      + intros Hu. destruct (G Hu) as [G1 G2]. pose proof (kcall_cache_ignored 5 Hu (m, a) y0) as N1.
        subst y0. cbn [snd] in *. split; congruence.
    - intros y (A & B & C & D & E & G). unfold stats_wf, kclear_inter, k_stats, k_keys, k_finals in *. cbn [fst snd] in *.
      split; [exact A|]. split; [exact B|]. split; [|auto].
      unfold stored in *. cbn [fst snd] in *. destruct uc; [|exact C].
      pose proof (filter_len (fun k => mem_key k (snd (fst y))) (fst (fst y))). lia.
    - intros y (A & B & C & D & E & G). unfold stats_wf, kclear_all, k_stats, k_keys, stored, hits_slack in *.
      cbn [fst snd stat_reset st_warn st_hits st_counter st_misses st_ignored st_prewarn length] in *.
      split; [exact A|]. split; [reflexivity|]. split; [destruct uc; cbn; lia|]. split; [lia|].
      split; [auto|]. intros Hu. destruct (G Hu). auto.
    - intros y (A & B & C & D & E & G). unfold stats_wf, k_stats, k_keys, stored, hits_slack in *.
      cbn [fst snd stat_pre st_warn st_hits st_counter st_misses st_ignored st_prewarn] in *.
      split; [exact A|]. split; [exact B|]. split; [exact C|]. split; [exact D|]. split; [exact E|].
      intros Hu. destruct (G Hu). subst uc. auto.
  Qed.

  (* ---- the key lists do not depend on the bookkeeping; clear_all_results = fresh ---- *)
  Definition kcf (y : kstate) : list key * list key := (k_keys y, k_finals y).

  Lemma kquery_kcf m raw f y y' :
    kcf y = kcf y' ->
    fst (kquery m raw f y) = fst (kquery m raw f y') /\
    kcf (snd (kquery m raw f y)) = kcf (snd (kquery m raw f y')).
  Proof.
    destruct y as [[K F] st], y' as [[K' F'] st']. unfold kcf, k_keys, k_finals. cbn [fst snd].
    intros [= <- <-]. unfold CacheGraph.kquery, k_keys, k_finals, k_stats. cbn [fst snd].
    destruct (resolved ifs raw) as [a|]; [|auto]. cbn [fst snd].
    rewrite (kcall_keys_indep ifs uc 5 (m, a) K st st'). auto.
  Qed.

  Lemma kpre_kcf qs : forall y y', kcf y = kcf y' -> kcf (kpre ifs uc qs y) = kcf (kpre ifs uc qs y').
  Proof.
    induction qs as [|[[m raw] f] qs IH]; intros y y' E.
    - cbn [kpre]. unfold kcf, kclear_inter, k_keys, k_finals in *. cbn [fst snd] in *.
      injection E as -> ->. reflexivity.
    - cbn [kpre]. destruct (kquery_kcf m raw f y y' E) as [E1 E2].
      destruct (kquery m raw f y) as [e y1]. destruct (kquery m raw f y') as [e' y1'].
      cbn [fst snd] in *. subst e'. destruct e; auto.
  Qed.

  Lemma kseq_kcf qs : forall y y',
    kcf y = kcf y' -> kcf (snd (kseq ifs uc qs y)) = kcf (snd (kseq ifs uc qs y')).
  Proof.
    induction qs as [|[m raw] qs IH]; intros y y' E; [exact E|].
    rewrite !kseq_cons. destruct (kquery_kcf m raw true y y' E) as [_ E2].
    destruct (obs_term (spec ifs m raw)); [apply IH|cbn [snd]]; exact E2.
  Qed.

  Lemma kstep_kcf o y y' : kcf y = kcf y' -> kcf (kstep y o) = kcf (kstep y' o).
  Proof.
    intros E. destruct o as [m raw f| | |qs|c|i]; cbn [CacheGraph.kstep].
    - apply kquery_kcf. exact E.
    - unfold kcf, kclear_inter, k_keys, k_finals in *. cbn [fst snd] in *. injection E as -> ->. reflexivity.
    - reflexivity.
    - apply kpre_kcf. unfold kcf, k_keys, k_finals in *. cbn [fst snd] in *. exact E.
    - apply kseq_kcf. exact E.
    - exact E.
  Qed.

  Lemma krun_from_kcf ops : forall y y', kcf y = kcf y' -> kcf (krun_from y ops) = kcf (krun_from y' ops).
  Proof.
    induction ops as [|o ops IH]; intros y y' E; [exact E|].
    cbn [CacheGraph.krun_from fold_left]. apply IH. apply kstep_kcf. exact E.
  Qed.

  Theorem krun_clear_all ops ops' : kcf (krun (ops ++ ClearAll :: ops')) = kcf (krun ops').
  Proof.
    unfold CacheGraph.krun, CacheGraph.krun_from. rewrite fold_left_app. cbn [fold_left CacheGraph.kstep].
    apply krun_from_kcf. reflexivity.
  Qed.

  (* ---- the machine of Model/Cache.v ---- *)
  Theorem run_keys ops :
    keys_of (snd (run ifs uc ops)) = k_keys (krun ops) /\
    s_finals (snd (run ifs uc ops)) = k_finals (krun ops).
  Proof.
    rewrite <- (irun_erase ifs uc ops). unfold erase_run. cbn [snd].
    rewrite <- (irun_k ifs uc ops). split; reflexivity.
  Qed.

  Theorem irun_stats ops : snd (snd (irun ifs uc ops)) = k_stats (krun ops).
  Proof. rewrite <- (irun_k ifs uc ops). reflexivity. Qed.

  (* one step of the machine of Model/Cache.v from any state satisfying the invariant *)
  Lemma step_kcf tr s o y :
    inv ifs uc s -> kcf y = (keys_of s, s_finals s) ->
    (keys_of (snd (step ifs uc tr s o)), s_finals (snd (step ifs uc tr s o))) = kcf (kstep y o).
  Proof.
    intros Hinv E. pose proof (istep_erase ifs uc tr (s, stats0) o) as He. cbn [fst] in He.
    rewrite <- He. unfold erase_run. cbn [snd].
    destruct (istep_k ifs uc tr (s, stats0) o Hinv) as [_ A].
    assert (E2 : kcf (abs (s, stats0)) = kcf y) by (rewrite E; reflexivity).
    rewrite <- (kstep_kcf o _ _ E2), <- A. reflexivity.
  Qed.

End Consequences.

(* ---- repeated queries on the machine of Model/Cache.v ---- *)
Lemma call_wrapper ifs uc m : exists body, call ifs uc m = wrapper ifs uc m body.
Proof. destruct m; eexists; reflexivity. Qed.

Lemma lookup_cache_set_filter k v c :
  lookup k ((k, v) :: filter (fun kv => negb (key_eqb (fst kv) k)) c) = Some v.
Proof. cbn. rewrite key_eqb_refl. reflexivity. Qed.

(* a successful query leaves its answer in the cache under (method, RESOLVED index), and in
   the finals when asked as final — for every one of the 17 methods *)
Theorem query_stores ifs m raw f s v s' :
  call ifs true m raw f s = (Ok v, s') ->
  exists a, resolved ifs raw = Some a /\ lookup (m, a) (s_cache s') = Some v /\
            (f = true -> mem_key (m, a) (s_finals s') = true).
Proof.
  destruct (call_wrapper ifs true m) as (body & ->). unfold wrapper. rewrite (resolve_eq ifs).
  destruct (resolved ifs raw) as [a|]; [|discriminate]. intros H. exists a. split; [reflexivity|].
  assert (Hf : forall s0, mem_key (m, a) (s_finals (add_final (m, a) s0)) = true).
  { intros s0. unfold add_final. cbn. destruct (mem_key (m, a) (s_finals s0)) eqn:E; [exact E|].
    cbn. rewrite key_eqb_refl. reflexivity. }
  unfold cache_get in H. destruct (lookup (m, a) (s_cache s)) as [v0|] eqn:El.
  - injection H as <- <-. split; [destruct f; exact El|]. intros ->. apply Hf.
  - destruct (body raw s) as [[v1|e] s1]; [|discriminate]. injection H as <- <-.
    split; [destruct f; apply lookup_cache_set_filter|]. intros ->. apply Hf.
Qed.

(* asking again (any spelling of the same interface, final or not): the SAME object, and
   nothing changes but the promotion to final *)
Theorem query_again ifs m raw' f' s v a :
  resolved ifs raw' = Some a -> lookup (m, a) (s_cache s) = Some v ->
  call ifs true m raw' f' s = (Ok v, if f' then add_final (m, a) s else s).
Proof.
  intros R L. destruct (call_wrapper ifs true m) as (body & ->). unfold wrapper.
  rewrite (resolve_eq ifs), R. unfold cache_get. rewrite L. reflexivity.
Qed.

Theorem query_twice ifs m raw raw' f f' s v s' :
  call ifs true m raw f s = (Ok v, s') -> resolved ifs raw' = resolved ifs raw ->
  exists a, resolved ifs raw = Some a /\
            call ifs true m raw' f' s' = (Ok v, if f' then add_final (m, a) s' else s').
Proof.
  intros H R. destruct (query_stores _ _ _ _ _ _ _ H) as (a & Ra & L & _).
  exists a. split; [exact Ra|]. apply query_again; congruence.
Qed.

(* a final answer survives clear_intermediate_results: same object afterwards *)
Theorem final_survives_clear ifs m raw raw' f' s v s' :
  call ifs true m raw true s = (Ok v, s') -> resolved ifs raw' = resolved ifs raw ->
  exists a, resolved ifs raw = Some a /\
            call ifs true m raw' f' (clear_inter s')
            = (Ok v, if f' then add_final (m, a) (clear_inter s') else clear_inter s').
Proof.
  intros H R. destruct (query_stores _ _ _ _ _ _ _ H) as (a & Ra & L & Hf).
  exists a. split; [exact Ra|]. apply query_again; [congruence|].
  rewrite (clear_inter_final _ _ (Hf eq_refl)). exact L.
Qed.

(* ================================================================== *)
(* G. several RayGeometry objects in one heap                            *)
Section WorldProofs.
  Variable ifs : list iface.

  Definition obj_ok (H : heap) (ob : robj) : Prop :=
    inv ifs (r_uc ob) (robj_state ob H) /\
    entries_ok ifs (r_uc ob) (robj_state ob H) (r_trace ob) /\
    map e_obs (r_trace ob) = spec_run ifs (r_hist ob) /\
    (map fst (r_cache ob), r_finals ob) = kcf (krun ifs (r_uc ob) (r_hist ob)).

  Definition world_ok (w : world) : Prop := Forall (obj_ok (w_heap w)) (w_objs w).

  Lemma spec_run_from_app l : forall tr l',
    spec_run_from ifs tr (l ++ l') = spec_run_from ifs (spec_run_from ifs tr l) l'.
  Proof. induction l as [|o l IH]; intros tr l'; [reflexivity|]. cbn. apply IH. Qed.

  Lemma spec_run_snoc l o : spec_run ifs (l ++ [o]) = spec_run ifs l ++ spec_step ifs (spec_run ifs l) o.
  Proof. unfold spec_run. rewrite spec_run_from_app. reflexivity. Qed.

  Lemma obj_ok_le H H' ob : heap_le H H' -> obj_ok H ob -> obj_ok H' ob.
  Proof.
    intros Hle (A & B & C & D). split; [|split; [|split]]; auto.
    - eapply inv_heap; [exact A| | |]; try reflexivity. cbn. apply heap_le_fr. exact Hle.
    - eapply entries_ok_le; [|exact B]. exact Hle.
  Qed.

  Lemma Forall_upd {A} (P : A -> Prop) l i x : Forall P l -> P x -> Forall P (upd l i x).
  Proof.
    revert i. induction l as [|y l IH]; intros [|i] Hl Hx; cbn; auto; inversion Hl; subst; constructor; auto.
  Qed.

  Lemma wstep_ok w o : world_ok w -> world_ok (wstep ifs w o).
  Proof.
    intros Hw. destruct o as [hr uc|j o]; cbn [wstep].
    - unfold from_path. destruct hr; [|exact Hw]. unfold world_ok. cbn [w_objs w_heap].
      apply Forall_app. split; [exact Hw|]. constructor; [|constructor].
      split; [split; [constructor|intros _ k []]|]. split; [split; constructor|]. split; reflexivity.
    - destruct (nth_error (w_objs w) j) as [ob|] eqn:En; [|exact Hw].
      unfold world_ok in Hw. pose proof Hw as Hall. rewrite Forall_forall in Hall.
      destruct (Hall ob (nth_error_In _ _ En)) as (A & B & C & D).
      pose proof (step_ok ifs (r_uc ob) (r_trace ob) (robj_state ob (w_heap w)) o A B) as Hs.
      pose proof (step_kcf ifs (r_uc ob) (r_trace ob) (robj_state ob (w_heap w)) o
                    (krun ifs (r_uc ob) (r_hist ob)) A (eq_sym D)) as Hk.
      destruct (step ifs (r_uc ob) (r_trace ob) (robj_state ob (w_heap w)) o) as [es s1].
      destruct Hs as (I1 & L1 & O1 & E1). cbn [fst snd] in *.
      unfold world_ok. cbn [w_objs w_heap]. apply Forall_upd.
      + eapply Forall_impl; [|exact Hw]. intros ob'. apply obj_ok_le. exact L1.
      + assert (Est : robj_state {| r_uc := r_uc ob; r_cache := s_cache s1; r_finals := s_finals s1;
                                    r_trace := r_trace ob ++ es; r_hist := r_hist ob ++ [o] |} (s_heap s1) = s1)
          by (destruct s1; reflexivity).
        unfold obj_ok. cbn [r_uc r_trace r_hist r_cache r_finals]. rewrite Est.
        split; [exact I1|]. split.
        * destruct (entries_ok_le ifs (r_uc ob) _ _ _ L1 B) as [B1 B2]. destruct E1 as [E11 E12].
          split; apply Forall_app; auto.
        * split.
          -- rewrite map_app, spec_run_snoc, O1, C. reflexivity.
          -- unfold krun, krun_from. rewrite fold_left_app. cbn [fold_left]. exact Hk.
  Qed.

  Theorem wrun_ok ops : world_ok (wrun ifs ops).
  Proof.
    unfold wrun. assert (H0 : world_ok world0) by constructor.
    revert H0. generalize world0. induction ops as [|o ops IH]; intros w Hw; [exact Hw|].
    cbn [fold_left]. apply IH. apply wstep_ok. exact Hw.
  Qed.

End WorldProofs.

(* ================================================================== *)
(* H. statements in terms of the models only (used by Props/C14.v)      *)

Theorem icall_refines_call ifs uc m raw f x :
  erase (icall ifs uc m raw f x) = call ifs uc m raw f (fst x).
Proof. apply icall_erase. Qed.

Theorem irun_refines_run ifs uc ops :
  (fst (irun ifs uc ops), fst (snd (irun ifs uc ops))) = run ifs uc ops.
Proof. apply irun_erase. Qed.

Theorem callees_acyclic_in_range ifs m a d :
  In d (callees ifs m a) ->
  (rank (fst d) < rank m)%nat /\ (0 <= a < numif ifs -> 0 <= snd d < numif ifs) /\
  raises ifs (fst d) (snd d) = false.
Proof.
  intros H. split; [exact (callees_rank ifs m a d H)|]. split.
  - intros Ha. exact (callees_range ifs m a d Ha H).
  - exact (callees_noraise ifs m a d H).
Qed.

Lemma irun_inv ifs uc ops : inv ifs uc (fst (snd (irun ifs uc ops))).
Proof. apply (irun_from_k ifs uc ops [] (empty_state, stats0)). apply inv_empty. Qed.

(* after ANY history, a further query does to (keys, finals, bookkeeping) exactly what the
   pure evaluation of the call graph says, and raises exactly when the table says so *)
Theorem query_is_graph_evaluation ifs uc ops m raw f :
  let x := snd (irun ifs uc ops) in
  let p := icall ifs uc m raw f x in
  abs (snd p) = snd (kquery ifs uc m raw f (krun ifs uc ops)) /\
  is_err (fst p) = fst (kquery ifs uc m raw f (krun ifs uc ops)).
Proof.
  cbv zeta. pose proof (icall_kquery ifs uc m raw f _ (irun_inv ifs uc ops)) as H. cbv zeta in H.
  rewrite (irun_k ifs uc ops) in H. tauto.
Qed.

Theorem history_is_graph_fold ifs uc ops :
  keys_of (snd (run ifs uc ops)) = k_keys (krun ifs uc ops) /\
  s_finals (snd (run ifs uc ops)) = k_finals (krun ifs uc ops) /\
  snd (snd (irun ifs uc ops)) = k_stats (krun ifs uc ops).
Proof.
  destruct (run_keys ifs uc ops) as [A B]. split; [exact A|]. split; [exact B|apply irun_stats].
Qed.

Theorem never_reassigns ifs uc ops : st_warn (snd (snd (irun ifs uc ops))) = 0.
Proof. rewrite irun_stats. apply krun_stats_wf. Qed.

Theorem entries_bounded ifs uc ops :
  NoDup (keys_of (snd (run ifs uc ops))) /\
  (length (s_cache (snd (run ifs uc ops))) <= 17 * length ifs)%nat /\
  Forall (fun k => In (fst k) all_meths /\ 0 <= snd k < numif ifs) (keys_of (snd (run ifs uc ops))).
Proof.
  destruct (run_keys ifs uc ops) as [A _]. destruct (krun_keys_wf ifs uc ops) as (N & R & _).
  rewrite A. split; [exact N|]. split.
  - replace (length (s_cache (snd (run ifs uc ops)))) with (length (keys_of (snd (run ifs uc ops))))
      by (unfold keys_of; apply map_length).
    rewrite A. apply wf_bound; assumption.
  - eapply Forall_impl; [|exact R]. intros [m a] H. split; [destruct m; cbn; tauto|exact H].
Qed.

Theorem nocache_retains_nothing ifs ops : s_cache (snd (run ifs false ops)) = [].
Proof.
  destruct (run_keys ifs false ops) as [A _]. destruct (krun_keys_wf ifs false ops) as (_ & _ & _ & _ & E).
  rewrite (E eq_refl) in A. unfold keys_of in A. destruct (s_cache (snd (run ifs false ops))); [reflexivity|discriminate].
Qed.

Theorem counters_consistent ifs uc ops :
  let y := krun ifs uc ops in
  let st := snd (snd (irun ifs uc ops)) in
  st_hits st = Z.of_nat (length (st_counter st)) /\
  (if uc then Z.of_nat (length (k_keys y)) else st_ignored st) <= st_misses st /\
  (uc = false -> st_hits st = 0 /\ st_counter st = []) /\
  (uc = true -> st_ignored st = 0 /\ st_prewarn st = 0).
Proof.
  cbv zeta. rewrite irun_stats. destruct (krun_stats_wf ifs uc ops) as (_ & B & C & _ & E & G).
  unfold hits_slack in B. unfold stored in C. cbn [fst snd] in C.
  split; [lia|]. split; [exact C|]. split; assumption.
Qed.

Theorem miss_accounting ifs uc m a (y : list key * stats) :
  let y1 := kcall ifs uc 5 (m, a) y in
  (if uc then Z.of_nat (length (fst y1)) - Z.of_nat (length (fst y))
   else st_ignored (snd y1) - st_ignored (snd y))
  + (if uc && mem_key (m, a) (fst y) then 0 else if raises ifs m a then 1 else 0)
  = st_misses (snd y1) - st_misses (snd y).
Proof.
  cbv zeta. pose proof (kcall_accounting ifs uc 5 (m, a) y (rank_lt5 m)) as H.
  unfold stored in H. cbn [fst snd] in H. destruct uc; lia.
Qed.

Theorem clear_all_is_fresh ifs uc ops ops' :
  keys_of (snd (run ifs uc (ops ++ ClearAll :: ops'))) = keys_of (snd (run ifs uc ops')) /\
  s_finals (snd (run ifs uc (ops ++ ClearAll :: ops'))) = s_finals (snd (run ifs uc ops')).
Proof.
  destruct (run_keys ifs uc (ops ++ ClearAll :: ops')) as [A B].
  destruct (run_keys ifs uc ops') as [A' B'].
  pose proof (krun_clear_all ifs uc ops ops') as E. unfold kcf in E. injection E as E1 E2.
  split; congruence.
Qed.

(* the precompute() warning: once per block on an object without cache, never otherwise *)
Fixpoint count_pre (ops : list op) : Z :=
  match ops with
  | [] => 0
  | Pre _ :: ops => 1 + count_pre ops
  | _ :: ops => count_pre ops
  end.

Lemma kstep_prewarn ifs uc y o :
  st_prewarn (k_stats (kstep ifs uc y o)) =
  st_prewarn (k_stats y) + (if uc then 0 else match o with Pre _ => 1 | _ => 0 end).
Proof.
  assert (Hq : forall c m raw f y0, st_prewarn (k_stats y0) = c ->
                                    st_prewarn (k_stats (snd (kquery ifs uc m raw f y0))) = c).
  { intros c m raw f y0 H. unfold kquery. destruct (resolved ifs raw) as [a|]; [|exact H].
    unfold k_stats in *. cbn [snd]. rewrite (proj2 (kcall_warn ifs uc 5 (m, a) _)). exact H. }
  destruct o as [m raw f| | |qs|c|i]; cbn [kstep].
  - rewrite (Hq _ m raw f y eq_refl). destruct uc; lia.
  - unfold kclear_inter, k_stats. cbn [snd]. destruct uc; lia.
  - unfold kclear_all, k_stats. cbn [snd stat_reset st_prewarn]. destruct uc; lia.
  - apply (kpre_preserves ifs uc (fun y0 => st_prewarn (k_stats y0) =
             st_prewarn (k_stats y) + (if uc then 0 else 1))).
    + intros m raw f y0 H. exact (Hq _ m raw f y0 H).
    + intros y0 H. exact H.
    + unfold k_stats. cbn [snd stat_pre st_prewarn]. destruct uc; lia.
  - apply (kseq_preserves ifs uc (fun y0 => st_prewarn (k_stats y0) =
             st_prewarn (k_stats y) + (if uc then 0 else 0))).
    + intros m raw f y0 H. exact (Hq _ m raw f y0 H).
    + destruct uc; lia.
  - destruct uc; lia.
Qed.

Theorem precompute_warnings ifs uc ops :
  st_prewarn (snd (snd (irun ifs uc ops))) = if uc then 0 else count_pre ops.
Proof.
  rewrite irun_stats. unfold krun, krun_from.
  assert (H : forall y, st_prewarn (k_stats (fold_left (kstep ifs uc) ops y)) =
                        st_prewarn (k_stats y) + (if uc then 0 else count_pre ops)).
  { induction ops as [|o ops IH]; intros y; [cbn; destruct uc; lia|].
    cbn [fold_left]. rewrite IH, kstep_prewarn. destruct uc; [lia|].
    destruct o; cbn [count_pre]; lia. }
  rewrite H. reflexivity.
Qed.

(* several objects in one heap *)
Theorem objects_independent ifs ops j ob :
  nth_error (w_objs (wrun ifs ops)) j = Some ob ->
  map e_obs (r_trace ob) = spec_run ifs (r_hist ob) /\
  map fst (r_cache ob) = k_keys (krun ifs (r_uc ob) (r_hist ob)) /\
  r_finals ob = k_finals (krun ifs (r_uc ob) (r_hist ob)).
Proof.
  intros H. pose proof (wrun_ok ifs ops) as Hw. unfold world_ok in Hw. rewrite Forall_forall in Hw.
  destruct (Hw ob (nth_error_In _ _ H)) as (_ & _ & C & D). unfold kcf in D. injection D as D1 D2. auto.
Qed.

Theorem from_path_spec uc w ifs :
  from_path false uc = Err EValue /\ from_path true uc = Ok (uc, empty_state) /\
  w_objs (wstep ifs w (WNew false uc)) = w_objs w /\
  w_objs (wstep ifs w (WNew true uc)) =
    w_objs w ++ [{| r_uc := uc; r_cache := []; r_finals := []; r_trace := []; r_hist := [] |}].
Proof. repeat split. Qed.

(* clear_intermediate_results keeps exactly the cached keys that are final *)
Theorem clear_inter_keys s k :
  In k (keys_of (clear_inter s)) <-> In k (keys_of s) /\ In k (s_finals s).
Proof.
  unfold keys_of, clear_inter. cbn [s_cache].
  rewrite (map_fst_filter (fun k => mem_key k (s_finals s))), filter_In, mem_key_In. tauto.
Qed.

(* after a precompute() block that did not raise, every cached key is final *)
Theorem precompute_leaves_finals ifs uc qs s k :
  Forall (fun e => is_error (e_ans e) = false) (fst (run_pre ifs uc qs s)) ->
  In k (keys_of (snd (run_pre ifs uc qs s))) -> In k (s_finals (snd (run_pre ifs uc qs s))).
Proof.
  revert s. induction qs as [|q qs IH]; intros s Hok Hin.
  - cbn [run_pre snd] in *. apply clear_inter_keys in Hin. apply Hin.
  - cbn [run_pre] in *. destruct (run_query ifs uc q s) as [e s1].
    destruct (is_error (e_ans e)) eqn:Ee.
    + cbn [fst] in Hok. inversion Hok; subst. congruence.
    + destruct (run_pre ifs uc qs s1) as [es s2] eqn:Er. cbn [fst snd] in *.
      inversion Hok; subst. specialize (IH s1). rewrite Er in IH. cbn [fst snd] in IH. auto.
Qed.
