(* Proofs/ScatGlueProofs.v — lemmas about Model/ScatGlue.v (C09): the array-level calls of the three
   built-in scatterers reduce, entry by entry, to the scalar functions of Model/Scat.v; error
   branches and their precedence; the wrappers of the Scattering2d interface; the scattering
   matrices; the flag of CrackCentreScat over histories of calls; the number of modal terms.
   Parts 1-5 hold for every numeric instance and are axiom-free; parts 6-8 are over the reals. *)
From Coq Require Import ZArith List Bool String Reals Lia Lra.
From Flocq Require Import Core.Raux.
From Arim Require Import Base.Num Base.NumR Model.Scat Model.ScatMatrix Model.ScatGlue
                         Proofs.ScatProofs Proofs.ScatCrackProofs.
Import ListNotations.

(* ------------------------------------------------------------------------------------ *)
(* 1. broadcasting                                                                        *)
(* ------------------------------------------------------------------------------------ *)
Lemma bshape_rev_comm : forall a b, bshape_rev a b = bshape_rev b a.
Proof.
  induction a as [|x a IH]; intros [|y b]; cbn [bshape_rev]; try reflexivity.
  rewrite (IH b). destruct (bshape_rev b a) as [r|]; [|reflexivity].
  destruct (Nat.eqb_spec x y) as [E|E].
  - subst y. rewrite Nat.eqb_refl. reflexivity.
  - destruct (Nat.eqb_spec y x) as [E'|E']; [congruence|].
    destruct (Nat.eqb_spec x 1) as [E1|E1]; destruct (Nat.eqb_spec y 1) as [E2|E2];
      try reflexivity; congruence.
Qed.

(* np.broadcast(a, b).shape = np.broadcast(b, a).shape, and both fail together *)
Lemma bshape_comm : forall a b, bshape a b = bshape b a.
Proof. intros a b. unfold bshape. rewrite bshape_rev_comm. reflexivity. Qed.

Lemma bshape_rev_length : forall a b r, bshape_rev a b = Some r ->
  List.length r = Nat.max (List.length a) (List.length b).
Proof.
  induction a as [|x a IH]; intros [|y b] r; cbn [bshape_rev]; intros H.
  - injection H as <-. reflexivity.
  - injection H as <-. reflexivity.
  - injection H as <-. reflexivity.
  - destruct (bshape_rev a b) as [r'|] eqn:E; [|discriminate].
    specialize (IH b r' E).
    destruct (x =? y)%nat; [|destruct (x =? 1)%nat; [|destruct (y =? 1)%nat; [|discriminate]]];
      injection H as <-; cbn [List.length]; rewrite IH; reflexivity.
Qed.

(* the number of dimensions of the broadcast is the larger of the two *)
Lemma bshape_length : forall a b s, bshape a b = Some s ->
  List.length s = Nat.max (List.length a) (List.length b).
Proof.
  intros a b s. unfold bshape. destruct (bshape_rev (rev a) (rev b)) as [r|] eqn:E; [|discriminate].
  intros H. injection H as <-. rewrite rev_length, (bshape_rev_length _ _ _ E), !rev_length. reflexivity.
Qed.

Lemma bshape_same : forall s, bshape s s = Some s.
Proof.
  intros s. unfold bshape.
  assert (H : forall l, bshape_rev l l = Some l).
  { induction l as [|x l IH]; [reflexivity|]. cbn [bshape_rev]. rewrite IH, Nat.eqb_refl. reflexivity. }
  rewrite H, rev_involutive. reflexivity.
Qed.

Lemma bshape_nil_r : forall s, bshape s [] = Some s.
Proof. intros s. unfold bshape. cbn [rev]. destruct (rev s) eqn:E; cbn [bshape_rev]; rewrite <- E, rev_involutive; reflexivity. Qed.

Lemma bshape_nil_l : forall s, bshape [] s = Some s.
Proof. intros s. rewrite bshape_comm. apply bshape_nil_r. Qed.

(* an array of the full shape without stretched axes is read at the index itself *)
Lemma bidx_rev_same : forall s idx, List.length idx = List.length s ->
  Forall2 (fun i d => (i < d)%nat) idx s -> bidx_rev s idx = idx.
Proof.
  induction s as [|d s IH]; intros [|i idx] Hl H; try discriminate; [reflexivity|].
  cbn [bidx_rev]. inversion H as [|? ? ? ? Hid Hrest]; subst.
  rewrite IH by (try assumption; cbn in Hl; lia).
  destruct (Nat.eqb_spec d 1) as [E|E]; [|reflexivity]. f_equal. lia.
Qed.

Lemma Forall2_rev : forall {A B} (P : A -> B -> Prop) l1 l2, Forall2 P l1 l2 -> Forall2 P (rev l1) (rev l2).
Proof.
  intros A B P l1 l2 H. induction H as [|a b l1 l2 Hab H IH]; [constructor|].
  cbn [rev]. apply Forall2_app; [exact IH | constructor; [exact Hab | constructor]].
Qed.

Lemma Forall2_len : forall {A B} (P : A -> B -> Prop) l1 l2, Forall2 P l1 l2 -> List.length l1 = List.length l2.
Proof. intros A B P l1 l2 H. induction H; cbn [List.length]; congruence. Qed.

Definition in_shape (idx s : list nat) : Prop := Forall2 (fun i d => (i < d)%nat) idx s.

Lemma in_shape_0 : forall idx, in_shape idx [] -> idx = [].
Proof. intros idx H. inversion H. reflexivity. Qed.
Lemma in_shape_1 : forall idx a, in_shape idx [a] -> exists i, idx = [i] /\ (i < a)%nat.
Proof. intros idx a H. inversion H as [|i ? l ? Hi Hr]; subst. inversion Hr; subst. eauto. Qed.
Lemma in_shape_2 : forall idx a b, in_shape idx [a; b] -> exists i j, idx = [i; j] /\ (i < a)%nat /\ (j < b)%nat.
Proof.
  intros idx a b H. inversion H as [|i ? l ? Hi Hr]; subst. apply in_shape_1 in Hr. destruct Hr as (j & -> & Hj). eauto.
Qed.

Lemma bidx_same : forall s idx, in_shape idx s -> bidx s idx = idx.
Proof.
  intros s idx H. unfold bidx. rewrite bidx_rev_same.
  - apply rev_involutive.
  - rewrite !rev_length. apply (Forall2_len _ _ _ H).
  - apply Forall2_rev. exact H.
Qed.

Lemma nd_read_same : forall {A} (a : nd A) idx, in_shape idx (nd_shape a) -> nd_read a idx = nd_at a idx.
Proof. intros A a idx H. unfold nd_read. rewrite bidx_same by exact H. reflexivity. Qed.

(* a 0-d operand (Python scalar) is read at the empty index whatever the index of the result *)
Lemma nd_read_scalar : forall {A} (v : A) idx, nd_read (nd_scalar v) idx = v.
Proof. reflexivity. Qed.

Lemma nd_map2_shape : forall {A B C} (f : A -> B -> C) a b r,
  nd_map2 f a b = Some r -> bshape (nd_shape a) (nd_shape b) = Some (nd_shape r).
Proof.
  intros A B C f a b r. unfold nd_map2. destruct (bshape (nd_shape a) (nd_shape b)) as [s|]; [|discriminate].
  intros H. injection H as <-. reflexivity.
Qed.

Lemma nd_map2_at : forall {A B C} (f : A -> B -> C) a b r idx,
  nd_map2 f a b = Some r -> nd_at r idx = f (nd_read a idx) (nd_read b idx).
Proof.
  intros A B C f a b r idx. unfold nd_map2. destruct (bshape (nd_shape a) (nd_shape b)) as [s|]; [|discriminate].
  intros H. injection H as <-. reflexivity.
Qed.

Lemma nd_map2_none : forall {A B C} (f : A -> B -> C) a b,
  nd_map2 f a b = None <-> bshape (nd_shape a) (nd_shape b) = None.
Proof.
  intros A B C f a b. unfold nd_map2. destruct (bshape (nd_shape a) (nd_shape b)); split; intros H; try discriminate; reflexivity.
Qed.

(* ------------------------------------------------------------------------------------ *)
(* 2. gating: what a lookup in a gated dictionary can answer                              *)
(* ------------------------------------------------------------------------------------ *)
Section GatingInv.
  Context {V : Type}.

  Lemma lookup_gate_inv : forall tc k k' (v w : V), lookup k (gate tc k' v) = Some w ->
    k = k' /\ requested tc k' = true /\ w = v.
  Proof.
    intros tc k k' v w. unfold gate. destruct (requested tc k'); cbn [lookup]; [|discriminate].
    destruct (String.eqb k k') eqn:E; [|discriminate]. apply String.eqb_eq in E.
    intros H. injection H as <-. auto.
  Qed.

  (* a key found in the dictionary of sdh_2d_scat / PointSourceScat is one of the four, was
     requested, and carries the value computed for it *)
  Lemma gated_lookup_inv : forall tc k (vLL vLT vTL vTT w : V),
    lookup k (gated_dict tc vLL vLT vTL vTT) = Some w ->
    valid_key k = true /\ requested tc k = true /\ w = pick k vLL vLT vTL vTT.
  Proof.
    intros tc k vLL vLT vTL vTT w. unfold gated_dict. rewrite !lookup_app.
    destruct (lookup k (gate tc "LL" vLL)) eqn:E1.
    { intros H. injection H as <-. apply lookup_gate_inv in E1. destruct E1 as (-> & Hr & ->). auto. }
    destruct (lookup k (gate tc "LT" vLT)) eqn:E2.
    { intros H. injection H as <-. apply lookup_gate_inv in E2. destruct E2 as (-> & Hr & ->). auto. }
    destruct (lookup k (gate tc "TL" vTL)) eqn:E3.
    { intros H. injection H as <-. apply lookup_gate_inv in E3. destruct E3 as (-> & Hr & ->). auto. }
    intros E4. apply lookup_gate_inv in E4. destruct E4 as (-> & Hr & ->). auto.
  Qed.

  (* the keys of the returned dictionary are exactly the requested ones among the four *)
  Lemma gated_keys : forall tc k (vLL vLT vTL vTT : V),
    lookup k (gated_dict tc vLL vLT vTL vTT) <> None <-> (valid_key k = true /\ requested tc k = true).
  Proof.
    intros tc k vLL vLT vTL vTT. split.
    - destruct (lookup k (gated_dict tc vLL vLT vTL vTT)) as [w|] eqn:E; [|intros H; contradiction].
      intros _. apply gated_lookup_inv in E. tauto.
    - intros [Hv Hr]. rewrite (gated_lookup tc k) by assumption. discriminate.
  Qed.
End GatingInv.

(* ------------------------------------------------------------------------------------ *)
(* 3. sdh_2d_scat on arrays = the scalar function entry by entry (every numeric instance)  *)
(* ------------------------------------------------------------------------------------ *)
Section SdhNdProofs.
  Context {T : Type} (N : Num T).
  Variables hankel1 hankel2 : Z -> T -> @cx T.

  Lemma csum_upto_ext : forall (f g : Z -> @cx T) n,
    (forall k, (k < n)%nat -> f (Z.of_nat k) = g (Z.of_nat k)) -> csum_upto N f n = csum_upto N g n.
  Proof.
    intros f g n. induction n as [|n IH]; intros H; cbn [csum_upto]; [reflexivity|].
    rewrite IH by (intros k Hk; apply H; lia). rewrite H by lia. reflexivity.
  Qed.

  (* one of the four terms, read at an index of the result *)
  Lemma sdh_term_at : forall (trig : T -> T) (x : T) (coef : Z -> @cx T) (theta : nd T) len idx,
    nd_at (nd_map (cmul N (sdh_pref N x))
             (nd_contract_last N
                (nd_map trig (nd_outer_arange N (nd_map (fun t => nadd N t (npi N)) theta) len))
                (fun n => rscale N (epsilon N n) (coef n)) len)) idx
    = cmul N (sdh_pref N x)
        (csum_upto N (fun n => rscale N (trig (nmul N (nadd N (nd_at theta idx) (npi N)) (nofZ N n)))
                                 (rscale N (epsilon N n) (coef n))) len).
  Proof.
    intros trig x coef theta len idx. cbn [nd_map nd_contract_last nd_outer_arange nd_at nd_shape].
    f_equal. apply csum_upto_ext. intros k _. rewrite removelast_last, last_last, Nat2Z.id. reflexivity.
  Qed.

  Section OneCall.
    Variables (inc out : nd T) (f r vL vT : T) (mt tf : Z).
    Let alpha := sdh_alpha N f r vL.
    Let beta := sdh_beta N f r vT.
    Let H1a := fun n => hankel1 n alpha.
    Let H2a := fun n => hankel2 n alpha.
    Let H1b := fun n => hankel1 n beta.
    Let H2b := fun n => hankel2 n beta.
    Let maxn := Z.to_nat (sdh_maxn N f r vL vT mt tf).

    (* the four scalar values of Model/Scat.v for one pair of angles *)
    Definition sdh_pick (k : string) (a b : T) : @cx T :=
      pick k (sdh_LL N H1a H2a H1b f r vL vT maxn a b) (sdh_LT N H1a H1b f r vL vT maxn a b)
             (sdh_TL N H1a H1b f r vL vT maxn a b) (sdh_TT N H1a H1b H2b f r vL vT maxn a b).

    (* ENTRY BY ENTRY: whatever the two shapes, the entry idx of the array returned for key k is the
       scalar function of Model/Scat.v at the pair of angles read (with broadcasting) at idx *)
    Lemma sdh_nd_entry : forall tc D k arr,
      sdh_2d_scat_nd N hankel1 hankel2 inc out f r vL vT mt tf tc = inr D ->
      lookup k D = Some arr ->
      bshape (nd_shape out) (nd_shape inc) = Some (nd_shape arr) /\
      forall idx, nd_at arr idx = sdh_pick k (nd_read inc idx) (nd_read out idx).
    Proof.
      intros tc D k arr. unfold sdh_2d_scat_nd.
      destruct (nd_map2 (nsub N) out inc) as [theta|] eqn:Eth; [|discriminate].
      destruct (negb (valid_to_compute tc)); [discriminate|].
      destruct (sdh_maxn N f r vL vT mt tf <? 0)%Z; [discriminate|].
      intros HD Hk. injection HD as <-.
      apply gated_lookup_inv in Hk. destruct Hk as (Hv & Hr & ->).
      pose proof (nd_map2_shape _ _ _ _ Eth) as Hs.
      assert (Hat : forall idx, nd_at theta idx = nsub N (nd_read out idx) (nd_read inc idx))
        by (intros idx; apply (nd_map2_at _ _ _ _ idx Eth)).
      destruct (valid_key_cases k Hv) as [E|[E|[E|E]]]; subst k; unfold pick, sdh_pick;
        cbn [String.eqb Ascii.eqb Bool.eqb]; (split; [cbn [nd_map nd_contract_last nd_outer_arange nd_shape];
          rewrite removelast_last; exact Hs |]); intros idx; rewrite sdh_term_at, Hat; reflexivity.
    Qed.

    (* the outcome of the call: which error, in which order, and the keys of a successful result *)
    Lemma sdh_nd_outcome : forall tc,
      match sdh_2d_scat_nd N hankel1 hankel2 inc out f r vL vT mt tf tc with
      | inl EBroadcast => bshape (nd_shape out) (nd_shape inc) = None
      | inl EToCompute => bshape (nd_shape out) (nd_shape inc) <> None /\ valid_to_compute tc = false
      | inl EEmptyModes => bshape (nd_shape out) (nd_shape inc) <> None /\ valid_to_compute tc = true /\
                           (sdh_maxn N f r vL vT mt tf < 0)%Z
      | inl _ => False
      | inr D => bshape (nd_shape out) (nd_shape inc) <> None /\ valid_to_compute tc = true /\
                 (0 <= sdh_maxn N f r vL vT mt tf)%Z /\
                 forall k, lookup k D <> None <-> (valid_key k = true /\ requested tc k = true)
      end.
    Proof.
      intros tc. unfold sdh_2d_scat_nd.
      destruct (nd_map2 (nsub N) out inc) as [theta|] eqn:Eth.
      - assert (Hb : bshape (nd_shape out) (nd_shape inc) <> None).
        { intros Hn. apply (nd_map2_none (nsub N)) in Hn. rewrite Hn in Eth. discriminate. }
        destruct (valid_to_compute tc); cbn [negb]; [|split; [exact Hb | reflexivity]].
        destruct (Z.ltb_spec (sdh_maxn N f r vL vT mt tf) 0) as [Hm|Hm].
        + repeat split; assumption.
        + split; [exact Hb|]. split; [reflexivity|]. split; [exact Hm|]. intros k. apply gated_keys.
      - apply (nd_map2_none (nsub N)). exact Eth.
    Qed.
  End OneCall.

  (* the array call and the scalar call of Model/Scat.v agree: same error for an invalid to_compute,
     and the entry of a requested key is the value the scalar model stores under that key *)
  Lemma sdh_nd_vs_scalar : forall inc out f r vL vT mt tf tc D k arr idx,
    sdh_2d_scat_nd N hankel1 hankel2 inc out f r vL vT mt tf tc = inr D ->
    lookup k D = Some arr ->
    exists d,
      sdh_2d_scat N (fun n => hankel1 n (sdh_alpha N f r vL)) (fun n => hankel2 n (sdh_alpha N f r vL))
                    (fun n => hankel1 n (sdh_beta N f r vT)) (fun n => hankel2 n (sdh_beta N f r vT))
                    f r vL vT mt tf tc (nd_read inc idx) (nd_read out idx) = Some d /\
      lookup k d = Some (nd_at arr idx).
  Proof.
    intros inc out f r vL vT mt tf tc D k arr idx HD Hk.
    destruct (sdh_nd_entry inc out f r vL vT mt tf tc D k arr HD Hk) as [_ Hat].
    pose proof (sdh_nd_outcome inc out f r vL vT mt tf tc) as Ho. rewrite HD in Ho.
    destruct Ho as (_ & Hv & _ & Hkeys).
    assert (Hk' : lookup k D <> None) by (rewrite Hk; discriminate).
    apply Hkeys in Hk'. destruct Hk' as [Hvk Hrk].
    unfold sdh_2d_scat, checked. rewrite Hv. eexists. split; [reflexivity|].
    rewrite (gated_lookup tc k) by assumption. rewrite Hat. reflexivity.
  Qed.

  (* the angles enter ONLY through out - inc, as the numeric instance computes it: two entries
     (of the same call or of two calls with arrays of any shapes, orders, strides) whose differences
     coincide carry the same value — in particular an entry does not depend on the other entries
     evaluated in the same call *)
  Lemma sdh_pick_difference : forall f r vL vT mt tf k a b a' b',
    nsub N b a = nsub N b' a' -> sdh_pick f r vL vT mt tf k a b = sdh_pick f r vL vT mt tf k a' b'.
  Proof.
    intros f r vL vT mt tf k a b a' b' H. unfold sdh_pick, sdh_LL, sdh_LT, sdh_TL, sdh_TT, modal_sum, n_phi, sdh_phi.
    rewrite H. reflexivity.
  Qed.

  Lemma sdh_nd_only_difference : forall inc1 out1 inc2 out2 f r vL vT mt tf tc1 tc2 D1 D2 k arr1 arr2 idx1 idx2,
    sdh_2d_scat_nd N hankel1 hankel2 inc1 out1 f r vL vT mt tf tc1 = inr D1 ->
    sdh_2d_scat_nd N hankel1 hankel2 inc2 out2 f r vL vT mt tf tc2 = inr D2 ->
    lookup k D1 = Some arr1 -> lookup k D2 = Some arr2 ->
    nsub N (nd_read out1 idx1) (nd_read inc1 idx1) = nsub N (nd_read out2 idx2) (nd_read inc2 idx2) ->
    nd_at arr1 idx1 = nd_at arr2 idx2.
  Proof.
    intros inc1 out1 inc2 out2 f r vL vT mt tf tc1 tc2 D1 D2 k arr1 arr2 idx1 idx2 H1 H2 K1 K2 Hd.
    destruct (sdh_nd_entry _ _ _ _ _ _ _ _ _ _ _ _ H1 K1) as [_ E1].
    destruct (sdh_nd_entry _ _ _ _ _ _ _ _ _ _ _ _ H2 K2) as [_ E2].
    rewrite E1, E2. apply sdh_pick_difference. exact Hd.
  Qed.

  (* integer-typed angles: the phase computed from int64 angles is the one of the converted floats
     whenever the conversion commutes with the subtraction of integers (true over the reals, and in
     binary64 for |angles| < 2^53) *)
  Lemma sdh_phi_typed_float : forall inc out : ang (T:=T),
    (forall x y : Z, nofZ N (x - y) = nsub N (nofZ N x) (nofZ N y)) ->
    sdh_phi_typed N inc out = sdh_phi N (ang_float N inc) (ang_float N out).
  Proof.
    intros [x|x] [y|y] H; unfold sdh_phi_typed, sdh_phi, ang_sub; cbn [ang_float]; try reflexivity.
    rewrite H. reflexivity.
  Qed.
End SdhNdProofs.

(* ------------------------------------------------------------------------------------ *)
(* 4. point source and crack on arrays                                                    *)
(* ------------------------------------------------------------------------------------ *)
Section PointNdProofs.
  Context {T : Type} (N : Num T).

  (* no validation: never EToCompute; a key outside the four is silently ignored; the arrays are
     constant, of the broadcast shape, whatever the angles and their dtype *)
  Lemma point_nd_outcome : forall vL vT inc out tc,
    match point_scat_nd N vL vT inc out tc with
    | inl e => e = EBroadcast /\ bshape (nd_shape inc) (nd_shape out) = None
    | inr D => exists s, bshape (nd_shape inc) (nd_shape out) = Some s /\
        forall k, match lookup k D with
                  | Some arr => valid_key k = true /\ requested tc k = true /\ nd_shape arr = s /\
                                forall idx, nd_at arr idx
                                  = pick k (point_LL N (nd_read inc idx) (nd_read out idx))
                                           (point_LT N vL vT (nd_read inc idx) (nd_read out idx))
                                           (point_TL N vL vT (nd_read inc idx) (nd_read out idx))
                                           (point_TT N (nd_read inc idx) (nd_read out idx))
                  | None => valid_key k = false \/ requested tc k = false
                  end
    end.
  Proof.
    intros vL vT inc out tc. unfold point_scat_nd.
    destruct (bshape (nd_shape inc) (nd_shape out)) as [s|]; [|split; reflexivity].
    exists s. split; [reflexivity|]. intros k.
    destruct (lookup k (gated_dict tc _ _ _ _)) as [arr|] eqn:E.
    - apply gated_lookup_inv in E. destruct E as (Hv & Hr & ->). split; [exact Hv|]. split; [exact Hr|].
      destruct (valid_key_cases k Hv) as [E|[E|[E|E]]]; subst k; split; reflexivity.
    - destruct (valid_key k) eqn:Hv; [|left; reflexivity]. right.
      destruct (requested tc k) eqn:Hr; [|reflexivity].
      rewrite (gated_lookup tc k) in E by assumption. discriminate.
  Qed.
End PointNdProofs.

Section CrackNdProofs.
  Context {T : Type} (N : Num T).

  (* the 2-d index used by the drivers for an index of the final shape *)
  Definition pad2 (idx : list nat) : list nat :=
    match idx with [] => [0; 0] | [i] => [0; i] | _ => idx end.
  (* the incident angle used by the optimised driver: first row *)
  Definition row0 (idx : list nat) : list nat :=
    match idx with [_; i] => [0; i] | _ => idx end.

  Lemma div_mod_small : forall i b j, (j < b)%nat -> ((i * b + j) / b = i /\ (i * b + j) mod b = j)%nat.
  Proof.
    intros i b j Hj. split.
    - rewrite Nat.add_comm, Nat.div_add by lia. rewrite Nat.div_small by lia. reflexivity.
    - rewrite Nat.add_comm, Nat.mod_add by lia. apply Nat.mod_small. lia.
  Qed.

  (* what atleast_2d + broadcast_arrays + reshape do to an index, for every pair of shapes of at
     most two dimensions that broadcast *)
  Lemma crack_plumbing : forall (inc out : nd T) fs idx,
    bshape (nd_shape inc) (nd_shape out) = Some fs -> (List.length fs <= 2)%nat -> in_shape idx fs ->
    exists cs, bshape (nd_shape (atleast_2d inc)) (nd_shape (atleast_2d out)) = Some cs /\
      unravel cs (ravel fs idx) = pad2 idx /\
      nd_read (atleast_2d inc) (pad2 idx) = nd_read inc idx /\
      nd_read (atleast_2d out) (pad2 idx) = nd_read out idx /\
      nd_read (atleast_2d inc) (row0 (pad2 idx)) = nd_read inc (row0 idx).
  Proof.
    intros [si fi] [so fo] fs idx Hb Hl Hin. cbn [nd_shape] in Hb.
    pose proof (bshape_length _ _ _ Hb) as Hlen.
    destruct si as [|a [|b [|c si]]]; destruct so as [|p [|q [|t so]]];
      cbn [List.length] in Hlen; try lia.
    all: unfold bshape in Hb; cbn [rev app bshape_rev] in Hb.
    all: unfold atleast_2d; cbn [nd_shape nd_at].
    all: unfold bshape; cbn [rev app bshape_rev].
    all: repeat match type of Hb with context [Nat.eqb ?x ?y] => destruct (Nat.eqb_spec x y) end;
      try discriminate; injection Hb as <-; cbn [rev app] in Hin |- *.
    all: repeat match goal with |- context [Nat.eqb ?x ?y] => destruct (Nat.eqb_spec x y) end; try lia.
    all: eexists; split; [reflexivity|].
    all: first [ apply in_shape_0 in Hin; subst idx
               | apply in_shape_1 in Hin; destruct Hin as (i1 & -> & Hi1)
               | apply in_shape_2 in Hin; destruct Hin as (i1 & i2 & -> & Hi1 & Hi2) ].
    all: cbn [ravel unravel prod_shape fold_right pad2 row0 rev app].
    all: unfold nd_read, bidx; cbn [nd_shape nd_at rev app bidx_rev tl].
    all: repeat match goal with |- context [Nat.eqb ?x ?y] => destruct (Nat.eqb_spec x y) end; try lia.
    all: rewrite ?Nat.mul_1_r, ?Nat.mul_0_r, ?Nat.add_0_r, ?Nat.add_0_l, ?Nat.div_1_r, ?Nat.mod_1_r, ?Nat.div_0_l, ?Nat.mod_0_l by lia.
    all: repeat split; try reflexivity.
    all: repeat match goal with
                | H : ?x = 1%nat |- _ => is_var x; subst x
                | H : 1%nat = ?x |- _ => is_var x; subst x
                end.
    all: rewrite ?Nat.mul_1_r, ?Nat.div_1_r, ?Nat.mod_1_r.
    all: repeat match goal with
                | |- context [((?i * ?b + ?j) / ?b)%nat] =>
                    let E1 := fresh in let E2 := fresh in
                    destruct (div_mod_small i b j ltac:(lia)) as [E1 E2]; rewrite E1, E2
                end.
    all: rewrite ?Nat.div_small, ?Nat.mod_small by lia.
    all: repeat f_equal; try lia.
  Qed.

  Lemma pad2_two : forall idx, (List.length idx <= 2)%nat ->
    exists a b, pad2 idx = [a; b] /\ row0 (pad2 idx) = [0%nat; b].
  Proof.
    intros [|i [|j [|k l]]] H; cbn [List.length] in H; try lia; cbn [pad2 row0]; eauto.
  Qed.

  (* the (final, broadcast) shape has two axes and the first is empty: the only shapes for which the
     2-d arrays that crack_2d_scat computes on (after atleast_2d and broadcast_arrays) have no row —
     a scalar becomes (1, 1) and a vector of any length, also 0, becomes (1, n) *)
  Definition empty_first_axis (fs : list nat) : bool :=
    match fs with [a; _] => (a =? 0)%nat | _ => false end.

  Lemma empty_first_axis_spec : forall fs, empty_first_axis fs = true <-> exists b, fs = [0%nat; b].
  Proof.
    intros fs. split.
    - destruct fs as [|a [|b [|c l]]]; cbn [empty_first_axis]; try discriminate.
      intros H. apply Nat.eqb_eq in H. subst a. eauto.
    - intros [b ->]. reflexivity.
  Qed.

  Lemma comp_first_axis : forall (inc out : nd T) fs cs,
    bshape (nd_shape inc) (nd_shape out) = Some fs -> (List.length fs <= 2)%nat ->
    bshape (nd_shape (atleast_2d inc)) (nd_shape (atleast_2d out)) = Some cs ->
    (hd 1 cs =? 0)%nat = empty_first_axis fs.
  Proof.
    intros [si fi] [so fo] fs cs Hb Hl Hc. cbn [nd_shape] in Hb.
    pose proof (bshape_length _ _ _ Hb) as Hlen.
    destruct si as [|a [|b [|c si]]]; destruct so as [|p [|q [|t so]]];
      cbn [List.length] in Hlen; try lia.
    all: unfold bshape in Hb; cbn [rev app bshape_rev] in Hb.
    all: unfold atleast_2d in Hc; cbn [nd_shape nd_at] in Hc.
    all: unfold bshape in Hc; cbn [rev app bshape_rev] in Hc.
    all: repeat match type of Hb with context [Nat.eqb ?x ?y] => destruct (Nat.eqb_spec x y) end;
      try discriminate; injection Hb as <-.
    all: repeat match type of Hc with context [Nat.eqb ?x ?y] => destruct (Nat.eqb_spec x y) end;
      try discriminate; try lia; injection Hc as <-.
    all: cbn [rev app hd empty_first_axis]; try reflexivity.
    all: repeat match goal with |- context [Nat.eqb ?x ?y] => destruct (Nat.eqb_spec x y) end; try reflexivity; try lia.
  Qed.

  Definition crack_use (k : string) (tc : list string) : bool :=
    pick k (use_incident_L tc) (use_incident_L tc) (use_incident_T tc) (use_incident_T tc).
  Definition kern_pick (K : crack_kernels) (k : string) : T -> T -> @cx T :=
    pick k (k_LL K) (k_LT K) (k_TL K) (k_TT K).

  (* ENTRY BY ENTRY for the crack: all four keys are returned, of the broadcast shape; an entry of a
     key whose incident mode is used is the kernel at the pair of angles read at that entry
     (general driver) or at the incident angle of the FIRST ROW of the same column (optimised
     driver); the entries of the other keys are zero *)
  Lemma crack_nd_entry : forall K (inc out : nd T) safe tc D,
    crack_2d_scat_nd N K inc out safe tc = inr D ->
    exists fs, bshape (nd_shape inc) (nd_shape out) = Some fs /\ (List.length fs <= 2)%nat /\
      valid_to_compute tc = true /\
      forall k, valid_key k = true ->
        exists arr, lookup k D = Some arr /\ nd_shape arr = fs /\
          forall idx, in_shape idx fs ->
            nd_at arr idx = if crack_use k tc
                            then kern_pick K k (nd_read inc (if safe then row0 idx else idx)) (nd_read out idx)
                            else c0 N.
  Proof.
    intros K inc out safe tc D. unfold crack_2d_scat_nd.
    destruct (valid_to_compute tc); cbn [negb]; [|discriminate].
    destruct (bshape (nd_shape inc) (nd_shape out)) as [fs|] eqn:Eb; [|discriminate].
    destruct (Nat.ltb_spec 2 (List.length fs)) as [Hl|Hl]; [discriminate|].
    destruct (bshape (nd_shape (atleast_2d inc)) (nd_shape (atleast_2d out))) as [cs|] eqn:Ec; [|discriminate].
    destruct (safe && (hd 1 cs =? 0)%nat) eqn:Es; [discriminate|].
    intros HD. injection HD as <-. exists fs. repeat split; try assumption; try reflexivity.
    intros k Hk.
    assert (Hent : forall (use : bool) (kern : T -> T -> @cx T) idx, in_shape idx fs ->
      nd_at (nd_reshape fs ((if safe then crack_matrix_nd N else crack_general_nd N) use kern
                               (nd_broadcast_to cs (atleast_2d inc)) (nd_broadcast_to cs (atleast_2d out)))) idx
      = if use then kern (nd_read inc (if safe then row0 idx else idx)) (nd_read out idx) else c0 N).
    { intros use kern idx Hin.
      destruct (crack_plumbing inc out fs idx Eb Hl Hin) as (cs' & Ec' & Hun & Hi & Ho & Hr).
      rewrite Ec in Ec'. injection Ec' as <-.
      assert (Hlen : (List.length idx <= 2)%nat) by (rewrite (Forall2_len _ _ _ Hin); exact Hl).
      destruct (pad2_two idx Hlen) as (a & b & Hp & Hrow).
      destruct safe; cbn [nd_reshape nd_at nd_shape crack_matrix_nd crack_general_nd nd_broadcast_to];
        rewrite Hun, Hp; destruct use; try reflexivity.
      - rewrite <- Hrow, Hr. rewrite <- Hp, Ho. reflexivity.
      - rewrite <- Hp, Hi, Ho. reflexivity. }
    destruct (valid_key_cases k Hk) as [E|[E|[E|E]]]; subst k;
      (eexists; split; [reflexivity|]; split; [reflexivity|]); intros idx Hin; apply Hent; exact Hin.
  Qed.

  (* the two drivers agree (i) on every pair of arrays whose broadcast has fewer than two dimensions
     (scalars, vectors: there is only one row), and (ii) on matrices whose incident angle is constant
     along each column — the documented precondition of assume_safe_for_opt *)
  Lemma crack_nd_drivers_agree : forall K (inc out : nd T) tc D D',
    crack_2d_scat_nd N K inc out true tc = inr D ->
    crack_2d_scat_nd N K inc out false tc = inr D' ->
    forall fs, bshape (nd_shape inc) (nd_shape out) = Some fs ->
    ((List.length fs < 2)%nat \/
     (forall j i, in_shape [j; i] fs -> nd_read inc [0%nat; i] = nd_read inc [j; i])) ->
    forall k A A', valid_key k = true -> lookup k D = Some A -> lookup k D' = Some A' ->
      nd_shape A = nd_shape A' /\ forall idx, in_shape idx fs -> nd_at A idx = nd_at A' idx.
  Proof.
    intros K inc out tc D D' HD HD' fs Hb Hcase k A A' Hk HA HA'.
    destruct (crack_nd_entry K inc out true tc D HD) as (fs1 & Hb1 & _ & _ & H1).
    destruct (crack_nd_entry K inc out false tc D' HD') as (fs2 & Hb2 & _ & _ & H2).
    rewrite Hb in Hb1, Hb2. injection Hb1 as <-. injection Hb2 as <-.
    destruct (H1 k Hk) as (B & HB & Hs & Hat). destruct (H2 k Hk) as (B' & HB' & Hs' & Hat').
    rewrite HA in HB. injection HB as <-. rewrite HA' in HB'. injection HB' as <-.
    split; [congruence|]. intros idx Hin. rewrite (Hat idx Hin), (Hat' idx Hin).
    destruct (crack_use k tc); [|reflexivity]. f_equal.
    destruct Hcase as [Hl|Hcol].
    - pose proof (Forall2_len _ _ _ Hin) as Hlen.
      destruct idx as [|j [|i [|x l]]]; cbn [row0]; try reflexivity. cbn [List.length] in Hlen. lia.
    - destruct idx as [|j [|i [|x l]]]; cbn [row0]; try reflexivity. apply Hcol. exact Hin.
  Qed.

  (* the optimised driver answers only when the computed 2-d arrays have a row *)
  Lemma crack_nd_rows : forall K (inc out : nd T) tc D fs,
    crack_2d_scat_nd N K inc out true tc = inr D ->
    bshape (nd_shape inc) (nd_shape out) = Some fs -> empty_first_axis fs = false.
  Proof.
    intros K inc out tc D fs. unfold crack_2d_scat_nd.
    destruct (valid_to_compute tc); cbn [negb]; [|discriminate].
    destruct (bshape (nd_shape inc) (nd_shape out)) as [fs'|] eqn:Eb; [|discriminate].
    destruct (Nat.ltb_spec 2 (List.length fs')) as [Hl|Hl]; [discriminate|].
    destruct (bshape (nd_shape (atleast_2d inc)) (nd_shape (atleast_2d out))) as [cs|] eqn:Ec; [|discriminate].
    cbn [andb]. destruct (hd 1 cs =? 0)%nat eqn:Es; [discriminate|].
    intros _ Hfs. injection Hfs as <-. rewrite <- (comp_first_axis inc out fs' cs Eb Hl Ec). exact Es.
  Qed.

  (* the errors of crack_2d_scat and their precedence: ValueError (to_compute), ValueError (shapes),
     NotImplementedError (> 2 dimensions), then — optimised driver only — the IndexError of
     inc_theta[0] when the broadcast shape is (0, b) *)
  Lemma crack_nd_outcome : forall K (inc out : nd T) safe tc,
    match crack_2d_scat_nd N K inc out safe tc with
    | inl EToCompute => valid_to_compute tc = false
    | inl EBroadcast => valid_to_compute tc = true /\ bshape (nd_shape inc) (nd_shape out) = None
    | inl ENotImplemented => valid_to_compute tc = true /\
        exists fs, bshape (nd_shape inc) (nd_shape out) = Some fs /\ (2 < List.length fs)%nat
    | inl EEmptyModes => valid_to_compute tc = true /\ safe = true /\
        exists b, bshape (nd_shape inc) (nd_shape out) = Some [0%nat; b]
    | inl _ => False
    | inr _ => valid_to_compute tc = true /\
        exists fs, bshape (nd_shape inc) (nd_shape out) = Some fs /\ (List.length fs <= 2)%nat /\
                   (safe = true -> forall b, fs <> [0%nat; b])
    end.
  Proof.
    intros K inc out safe tc.
    destruct (crack_2d_scat_nd N K inc out safe tc) as [e|D] eqn:E.
    - unfold crack_2d_scat_nd in E.
      destruct (valid_to_compute tc); cbn [negb] in E; [|injection E as <-; reflexivity].
      destruct (bshape (nd_shape inc) (nd_shape out)) as [fs|] eqn:Eb; [|injection E as <-; split; reflexivity].
      destruct (Nat.ltb_spec 2 (List.length fs)) as [Hl|Hl]; [injection E as <-; split; [reflexivity|eauto]|].
      destruct (bshape (nd_shape (atleast_2d inc)) (nd_shape (atleast_2d out))) as [cs|] eqn:Ec.
      + destruct (safe && (hd 1 cs =? 0)%nat) eqn:Es; [|discriminate]. injection E as <-.
        apply andb_prop in Es. destruct Es as [Hs Hz].
        rewrite (comp_first_axis inc out fs cs Eb Hl Ec) in Hz.
        apply empty_first_axis_spec in Hz. destruct Hz as [b ->].
        split; [reflexivity|]. split; [exact Hs|]. exists b. reflexivity.
      + exfalso.
        (* the second broadcast (after atleast_2d) cannot fail *)
        destruct inc as [si fi], out as [so fo]. cbn [nd_shape] in Eb.
        pose proof (bshape_length _ _ _ Eb) as Hlen.
        destruct si as [|a [|b [|c si]]]; destruct so as [|p [|q [|t so]]]; cbn [List.length] in Hlen; try lia.
        all: unfold bshape in Eb; cbn [rev app bshape_rev] in Eb.
        all: unfold atleast_2d, bshape in Ec; cbn [nd_shape rev app bshape_rev] in Ec.
        all: repeat match type of Eb with context [Nat.eqb ?x ?y] => destruct (Nat.eqb_spec x y) end; try discriminate.
        all: repeat match type of Ec with context [Nat.eqb ?x ?y] => destruct (Nat.eqb_spec x y) end; try discriminate; try lia.
    - destruct (crack_nd_entry K inc out safe tc D E) as (fs & Hb & Hl & Hv & _). split; [exact Hv|].
      exists fs. split; [exact Hb|]. split; [exact Hl|].
      intros Hs b Hfs. subst safe fs. pose proof (crack_nd_rows K inc out tc D _ E Hb) as Hr. discriminate Hr.
  Qed.

  (* the missing rows decide: with valid keys and a broadcast shape (0, b) the optimised driver raises
     IndexError, the general driver returns the four empty arrays *)
  Lemma crack_nd_empty_rows : forall K (inc out : nd T) tc b,
    valid_to_compute tc = true -> bshape (nd_shape inc) (nd_shape out) = Some [0%nat; b] ->
    crack_2d_scat_nd N K inc out true tc = inl EEmptyModes /\
    exists D, crack_2d_scat_nd N K inc out false tc = inr D.
  Proof.
    intros K inc out tc b Hv Hb. split.
    - pose proof (crack_nd_outcome K inc out true tc) as Ho.
      destruct (crack_2d_scat_nd N K inc out true tc) as [[]|D]; try contradiction; try reflexivity.
      + destruct Ho as [_ Ho]. congruence.
      + congruence.
      + destruct Ho as (_ & fs & Hfs & Hl). rewrite Hb in Hfs. injection Hfs as <-. cbn [List.length] in Hl. lia.
      + destruct Ho as (_ & fs & Hfs & _ & Hne). rewrite Hb in Hfs. injection Hfs as <-.
        exfalso. exact (Hne eq_refl b eq_refl).
    - pose proof (crack_nd_outcome K inc out false tc) as Ho.
      destruct (crack_2d_scat_nd N K inc out false tc) as [[]|D]; try contradiction; eauto.
      + destruct Ho as [_ Ho]. congruence.
      + congruence.
      + destruct Ho as (_ & Hs & _). discriminate Hs.
      + destruct Ho as (_ & fs & Hfs & Hl). rewrite Hb in Hfs. injection Hfs as <-. cbn [List.length] in Hl. lia.
  Qed.
End CrackNdProofs.

(* ------------------------------------------------------------------------------------ *)
(* 5. the Scattering2d interface (every numeric instance, every value type)               *)
(* ------------------------------------------------------------------------------------ *)
Section InterfaceProofs.
  Context {T V : Type} (N : Num T).
  Notation obj := (scat_obj T V).

  (* how the functions made by _partial_one_scat_key bind `frequency` *)
  Lemma partial_binding : forall (self : obj) k inc out f g,
    (* as_angles_funcs(f)[k](inc, out) *)
    partial_one_scat_key self k (Some f) (Args2 inc out None) = getitem (self inc out f [k]) k /\
    (* as_angles_funcs(f)[k](inc, out, frequency=g): the caller's keyword wins *)
    partial_one_scat_key self k (Some f) (Args2 inc out (Some g)) = getitem (self inc out g [k]) k /\
    (* as_freq_angles_funcs()[k](inc, out, f) and (inc, out, frequency=f) *)
    partial_one_scat_key self k None (Args3 inc out f None) = getitem (self inc out f [k]) k /\
    partial_one_scat_key self k None (Args2 inc out (Some f)) = getitem (self inc out f [k]) k /\
    (* TypeError: frequency missing; frequency given twice *)
    partial_one_scat_key self k None (Args2 inc out None) = inl ETypeError /\
    (forall kw, partial_one_scat_key self k (Some f) (Args3 inc out g kw) = inl ETypeError) /\
    (forall b, partial_one_scat_key self k b (Args3 inc out f (Some g)) = inl ETypeError).
  Proof.
    intros self k inc out f g. repeat split; try reflexivity; try (intros [x|]; reflexivity).
  Qed.

  (* each of the four functions is a proper closure over ITS key (and over the frequency) *)
  Lemma funcs_lookup : forall (self : obj) f k,
    lookup k (as_angles_funcs self f)
      = (if valid_key k then Some (partial_one_scat_key self k (Some f)) else None) /\
    lookup k (as_freq_angles_funcs self)
      = (if valid_key k then Some (partial_one_scat_key self k None) else None).
  Proof.
    intros self f k. unfold as_angles_funcs, as_freq_angles_funcs, valid_key, scat_keys. cbn [map lookup existsb fst snd].
    destruct (String.eqb k "LL") eqn:E1; [apply String.eqb_eq in E1; subst k; split; reflexivity|].
    destruct (String.eqb k "LT") eqn:E2; [apply String.eqb_eq in E2; subst k; split; reflexivity|].
    destruct (String.eqb k "TL") eqn:E3; [apply String.eqb_eq in E3; subst k; split; reflexivity|].
    destruct (String.eqb k "TT") eqn:E4; [apply String.eqb_eq in E4; subst k; split; reflexivity|].
    split; reflexivity.
  Qed.

  (* grids: [j, i] -> (theta_i, theta_j), both of shape (n, n) *)
  Lemma grid_at : forall n j i,
    nd_shape (fst (make_angles_grid N n)) = [n; n] /\ nd_shape (snd (make_angles_grid N n)) = [n; n] /\
    nd_at (fst (make_angles_grid N n)) [j; i] = angle N (npi N) (Z.of_nat n) (Z.of_nat i) /\
    nd_at (snd (make_angles_grid N n)) [j; i] = angle N (npi N) (Z.of_nat n) (Z.of_nat j).
  Proof. intros. repeat split; reflexivity. Qed.

  Lemma grid_read : forall n j i, (j < n)%nat -> (i < n)%nat ->
    nd_read (fst (make_angles_grid N n)) [j; i] = angle N (npi N) (Z.of_nat n) (Z.of_nat i) /\
    nd_read (snd (make_angles_grid N n)) [j; i] = angle N (npi N) (Z.of_nat n) (Z.of_nat j).
  Proof.
    intros n j i Hj Hi.
    assert (Hin : in_shape [j; i] [n; n]) by (repeat constructor; assumption).
    split; rewrite nd_read_same by exact Hin; reflexivity.
  Qed.

  Lemma grid_bshape : forall n,
    bshape (nd_shape (fst (make_angles_grid N n))) (nd_shape (snd (make_angles_grid N n))) = Some [n; n].
  Proof. intros n. apply bshape_same. Qed.

  (* ---- as_multi_freq_matrices = stack of as_single_freq_matrices ---- *)
  Lemma multi_slabs_lookup : forall tc (D : dict (nd V)) k,
    lookup k (multi_slabs tc D) = if requested tc k then lookup k D else None.
  Proof.
    induction tc as [|h r IH]; intros D k; [reflexivity|].
    unfold multi_slabs in *. cbn [flat_map]. rewrite lookup_app.
    unfold requested in *. cbn [existsb]. rewrite IH.
    destruct (String.eqb k h) eqn:E.
    - apply String.eqb_eq in E. subst h. destruct (lookup k D) as [m|] eqn:El; cbn [lookup].
      + rewrite String.eqb_refl. reflexivity.
      + destruct (existsb (String.eqb k) r); reflexivity.
    - destruct (lookup h D) as [m|]; cbn [lookup]; [rewrite E|]; reflexivity.
  Qed.

  Lemma multi_check_none : forall tc (D : dict (nd V)),
    multi_check tc D = None -> forall k, requested tc k = true -> lookup k D <> None.
  Proof.
    induction tc as [|h r IH]; intros D Hc k Hr; [discriminate|].
    cbn [multi_check] in Hc. destruct (lookup h D) as [m|] eqn:Eh; [|discriminate].
    unfold requested in Hr. cbn [existsb] in Hr. destruct (String.eqb k h) eqn:E.
    - apply String.eqb_eq in E. subst h. rewrite Eh. discriminate.
    - apply (IH D Hc k Hr).
  Qed.

  Lemma multi_check_some : forall tc (D : dict (nd V)) k,
    multi_check tc D = Some k -> requested tc k = true /\ lookup k D = None.
  Proof.
    induction tc as [|h r IH]; intros D k Hc; [discriminate|].
    cbn [multi_check] in Hc. destruct (lookup h D) as [m|] eqn:Eh.
    - destruct (IH D k Hc) as [Hr Hl]. split; [|exact Hl]. unfold requested in *. cbn [existsb]. rewrite Hr. apply orb_true_r.
    - injection Hc as <-. split; [|exact Eh]. unfold requested. cbn [existsb]. rewrite String.eqb_refl. reflexivity.
  Qed.

  Lemma multi_loop_ok : forall (self : obj) inc out tc fs slabs d,
    multi_loop self inc out tc fs = inr slabs ->
    List.length slabs = List.length fs /\
    forall kf, (kf < List.length fs)%nat ->
      exists D, self inc out (nth kf fs d) tc = inr D /\ multi_check tc D = None /\
                nth kf slabs [] = multi_slabs tc D.
  Proof.
    intros self inc out tc fs. induction fs as [|f r IH]; intros slabs d H; cbn [multi_loop] in H.
    - injection H as <-. split; [reflexivity|]. intros kf Hk. cbn in Hk. lia.
    - destruct (self inc out f tc) as [e|D] eqn:Es; [discriminate|].
      destruct (multi_check tc D) as [k|] eqn:Ec; [discriminate|].
      destruct (multi_loop self inc out tc r) as [e|sl] eqn:El; [discriminate|].
      injection H as <-. destruct (IH sl d eq_refl) as [Hlen Hall].
      split; [cbn [List.length]; rewrite Hlen; reflexivity|].
      intros [|kf] Hk; cbn [nth].
      + exists D. auto.
      + apply Hall. cbn [List.length] in Hk. lia.
  Qed.

  (* the first frequency at which the call raises, or lacks a requested key, decides the error *)
  Lemma multi_loop_err : forall (self : obj) inc out tc fs e,
    multi_loop self inc out tc fs = inl e ->
    exists pre f post, fs = pre ++ f :: post /\
      (forall g, In g pre -> exists D, self inc out g tc = inr D /\ multi_check tc D = None) /\
      (self inc out f tc = inl e \/
       exists D k, self inc out f tc = inr D /\ multi_check tc D = Some k /\ e = EKeyError k).
  Proof.
    intros self inc out tc fs. induction fs as [|f r IH]; intros e H; cbn [multi_loop] in H; [discriminate|].
    destruct (self inc out f tc) as [e'|D] eqn:Es.
    - injection H as <-. exists [], f, r. split; [reflexivity|]. split; [intros g []|]. left. exact Es.
    - destruct (multi_check tc D) as [k|] eqn:Ec.
      + injection H as <-. exists [], f, r. split; [reflexivity|]. split; [intros g []|]. right. eauto.
      + destruct (multi_loop self inc out tc r) as [e'|sl] eqn:El; [|discriminate].
        injection H as <-. destruct (IH e' eq_refl) as (pre & f' & post & -> & Hpre & Hf).
        exists (f :: pre), f', post. split; [reflexivity|]. split; [|exact Hf].
        intros g [<-|Hg]; [eauto | apply Hpre; exact Hg].
  Qed.

  (* S[k, j, i] of as_multi_freq_matrices is S[j, i] of as_single_freq_matrices at frequencies[k],
     for every requested key; an empty sequence of frequencies gives None *)
  Lemma as_multi_is_stack_nd : forall zero (self : obj) fs n tc d,
    match as_multi_freq_matrices N zero self fs n tc with
    | inr None => fs = []
    | inr (Some Om) =>
        fs <> [] /\
        forall k, requested tc k = true ->
          exists A, lookup k Om = Some A /\ nd_shape A = [List.length fs; n; n] /\
            forall kf, (kf < List.length fs)%nat ->
              exists D M, as_single_freq_matrices N self (nth kf fs d) n tc = inr D /\
                          lookup k D = Some M /\ forall idx, nd_at A (kf :: idx) = nd_at M idx
    | inl e =>
        exists pre f post, fs = pre ++ f :: post /\
          (forall g, In g pre -> exists D, as_single_freq_matrices N self g n tc = inr D) /\
          (as_single_freq_matrices N self f n tc = inl e \/
           exists D k, as_single_freq_matrices N self f n tc = inr D /\ requested tc k = true /\
                       lookup k D = None /\ e = EKeyError k)
    end.
  Proof.
    intros zero self fs n tc d. unfold as_multi_freq_matrices, as_single_freq_matrices.
    destruct (make_angles_grid N n) as [inc out].
    destruct (multi_loop self inc out tc fs) as [e|slabs] eqn:El.
    - destruct (multi_loop_err self inc out tc fs e El) as (pre & f & post & -> & Hpre & Hf).
      exists pre, f, post. split; [reflexivity|]. split.
      + intros g Hg. destruct (Hpre g Hg) as (D & HD & _). eauto.
      + destruct Hf as [Hf|(D & k & HD & Hc & ->)]; [left; exact Hf|].
        right. destruct (multi_check_some tc D k Hc) as [Hr Hl]. exists D, k. auto.
    - destruct (multi_loop_ok self inc out tc fs slabs d El) as [Hlen Hall].
      destruct slabs as [|s0 sl].
      + destruct fs; [reflexivity | discriminate].
      + split; [destruct fs; [discriminate | discriminate]|].
        intros k Hr. exists (stack_slabs zero n (s0 :: sl) k). split; [|split].
        * clear - Hr. unfold requested in Hr. induction tc as [|h r IH]; [discriminate|].
          cbn [existsb] in Hr. cbn [map lookup]. destruct (String.eqb k h) eqn:E.
          -- apply String.eqb_eq in E. subst h. reflexivity.
          -- apply IH. exact Hr.
        * cbn [stack_slabs nd_shape]. rewrite Hlen. reflexivity.
        * intros kf Hk. destruct (Hall kf Hk) as (D & HD & Hc & Hn).
          destruct (lookup k D) as [M|] eqn:EM; [|exfalso; apply (multi_check_none tc D Hc k Hr); exact EM].
          exists D, M. split; [exact HD|]. split; [exact EM|]. intros idx.
          cbn [stack_slabs nd_at hd tl]. rewrite Hn, multi_slabs_lookup, Hr, EM. reflexivity.
  Qed.
End InterfaceProofs.

(* ------------------------------------------------------------------------------------ *)
(* 6. the three objects through the interface (every numeric instance)                    *)
(* ------------------------------------------------------------------------------------ *)
Section Objects.
  Context {T : Type} (N : Num T).
  Variables hankel1 hankel2 : Z -> T -> @cx T.

  (* a call restricted to one key answers, for that key, what the full call answers *)
  Definition subset_ok {V} (self : scat_obj T V) : Prop :=
    forall inc out f tc k, valid_to_compute tc = true -> In k tc ->
      getitem (self inc out f tc) k = getitem (self inc out f scat_keys) k.

  Lemma sdh_obj_subset : forall kw, subset_ok (sdh_obj_call N hankel1 hankel2 kw).
  Proof.
    intros kw inc out f tc k Hv Hin. unfold sdh_obj_call, sdh_2d_scat_nd.
    destruct (nd_map2 (nsub N) out inc) as [theta|]; [|reflexivity].
    rewrite Hv. change (valid_to_compute scat_keys) with true. cbn [negb].
    destruct (_ <? 0)%Z; [reflexivity|].
    pose proof (valid_in tc k Hv Hin) as Hk. unfold getitem.
    rewrite (gated_lookup tc k) by (try exact Hk; apply requested_in; exact Hin).
    rewrite (gated_lookup scat_keys k) by (try exact Hk; exact Hk). reflexivity.
  Qed.

  Lemma point_obj_subset : forall vL vT, subset_ok (point_obj_call N vL vT).
  Proof.
    intros vL vT inc out f tc k Hv Hin. unfold point_obj_call, point_scat_nd.
    destruct (bshape (nd_shape inc) (nd_shape out)) as [s|]; [|reflexivity].
    pose proof (valid_in tc k Hv Hin) as Hk. unfold getitem.
    rewrite (gated_lookup tc k) by (try exact Hk; apply requested_in; exact Hin).
    rewrite (gated_lookup scat_keys k) by (try exact Hk; exact Hk). reflexivity.
  Qed.

  Lemma crack_use_requested : forall tc k, valid_key k = true -> In k tc -> crack_use k tc = true.
  Proof.
    intros tc k Hk Hin. apply requested_in in Hin. unfold crack_use, pick, use_incident_L, use_incident_T.
    destruct (valid_key_cases k Hk) as [E|[E|[E|E]]]; subst k; cbn [String.eqb Ascii.eqb Bool.eqb];
      rewrite Hin, ?orb_true_r; reflexivity.
  Qed.

  Lemma crack_obj_subset : forall K flag, subset_ok (crack_obj_call N K flag).
  Proof.
    intros K flag inc out f tc k Hv Hin. unfold crack_obj_call, crack_2d_scat_nd.
    rewrite Hv. change (valid_to_compute scat_keys) with true. cbn [negb].
    destruct (bshape (nd_shape inc) (nd_shape out)) as [fs|]; [|reflexivity].
    destruct (2 <? List.length fs)%nat; [reflexivity|].
    destruct (bshape (nd_shape (atleast_2d inc)) (nd_shape (atleast_2d out))) as [cs|]; [|reflexivity].
    destruct (flag && (hd 1 cs =? 0)%nat); [reflexivity|].
    pose proof (valid_in tc k Hv Hin) as Hk. apply requested_in in Hin.
    unfold getitem, use_incident_L, use_incident_T.
    destruct (valid_key_cases k Hk) as [E|[E|[E|E]]]; subst k; cbn [lookup String.eqb Ascii.eqb Bool.eqb];
      rewrite Hin, ?orb_true_r; reflexivity.
  Qed.

  (* as_angles_funcs(f)[k](inc, out) = as_freq_angles_funcs()[k](inc, out, f) = obj(inc, out, f)[k] *)
  Lemma funcs_eq_call : forall {V} (self : scat_obj T V), subset_ok self ->
    forall k inc out f, valid_key k = true ->
      exists fa ff, lookup k (as_angles_funcs self f) = Some fa /\ lookup k (as_freq_angles_funcs self) = Some ff /\
        fa (Args2 inc out None) = getitem (self inc out f scat_keys) k /\
        ff (Args3 inc out f None) = getitem (self inc out f scat_keys) k /\
        ff (Args2 inc out (Some f)) = getitem (self inc out f scat_keys) k.
  Proof.
    intros V self Hs k inc out f Hk. destruct (funcs_lookup self f k) as [E1 E2]. rewrite Hk in E1, E2.
    eexists. eexists. split; [exact E1|]. split; [exact E2|].
    assert (Hv : valid_to_compute [k] = true) by (cbn [valid_to_compute forallb]; rewrite Hk; reflexivity).
    assert (E : getitem (self inc out f [k]) k = getitem (self inc out f scat_keys) k)
      by (apply Hs; [exact Hv | left; reflexivity]).
    repeat split; exact E.
  Qed.

  (* ---- scattering matrices of the hole: S[j, i] = function(theta_i, theta_j) ---- *)
  Lemma sdh_single_entry : forall kw f n tc D k M,
    as_single_freq_matrices N (sdh_obj_call N hankel1 hankel2 kw) f n tc = inr D ->
    lookup k D = Some M ->
    nd_shape M = [n; n] /\
    forall j i, (j < n)%nat -> (i < n)%nat ->
      nd_at M [j; i] = sdh_pick N hankel1 hankel2 f (sk_radius kw) (sk_vL kw) (sk_vT kw)
                         (sk_min_terms kw) (sk_term_factor kw) k
                         (angle N (npi N) (Z.of_nat n) (Z.of_nat i)) (angle N (npi N) (Z.of_nat n) (Z.of_nat j)).
  Proof.
    intros kw f n tc D k M. unfold as_single_freq_matrices.
    destruct (make_angles_grid N n) as [inc out] eqn:Eg. unfold sdh_obj_call. intros HD Hk.
    destruct (sdh_nd_entry N hankel1 hankel2 _ _ _ _ _ _ _ _ _ _ _ _ HD Hk) as [Hs Hat].
    assert (Ei : inc = fst (make_angles_grid N n)) by (rewrite Eg; reflexivity).
    assert (Eo : out = snd (make_angles_grid N n)) by (rewrite Eg; reflexivity).
    split.
    - rewrite Ei, Eo in Hs. cbn [make_angles_grid meshgrid_xy make_angles fst snd nd_shape hd] in Hs.
      rewrite bshape_same in Hs. injection Hs as <-. reflexivity.
    - intros j i Hj Hi. rewrite Hat, Ei, Eo. destruct (grid_read N n j i Hj Hi) as [-> ->]. reflexivity.
  Qed.

  (* the matrix request succeeds exactly when the keys are valid and the modal range is not empty *)
  Lemma sdh_single_outcome : forall kw f n tc,
    match as_single_freq_matrices N (sdh_obj_call N hankel1 hankel2 kw) f n tc with
    | inl EToCompute => valid_to_compute tc = false
    | inl EEmptyModes => valid_to_compute tc = true /\ (sdh_obj_maxn N kw f < 0)%Z
    | inl _ => False
    | inr D => valid_to_compute tc = true /\ (0 <= sdh_obj_maxn N kw f)%Z /\
               forall k, lookup k D <> None <-> (valid_key k = true /\ requested tc k = true)
    end.
  Proof.
    intros kw f n tc. unfold as_single_freq_matrices.
    destruct (make_angles_grid N n) as [inc out] eqn:Eg. unfold sdh_obj_call, sdh_obj_maxn.
    pose proof (sdh_nd_outcome N hankel1 hankel2 inc out f (sk_radius kw) (sk_vL kw) (sk_vT kw)
                  (sk_min_terms kw) (sk_term_factor kw) tc) as Ho.
    assert (Hb : bshape (nd_shape out) (nd_shape inc) = Some [n; n]).
    { replace inc with (fst (make_angles_grid N n)) by (rewrite Eg; reflexivity).
      replace out with (snd (make_angles_grid N n)) by (rewrite Eg; reflexivity). apply bshape_same. }
    destruct (sdh_2d_scat_nd N hankel1 hankel2 inc out f _ _ _ _ _ tc) as [[]|D]; try tauto.
    rewrite Hb in Ho. discriminate.
  Qed.

  (* ---- scattering matrices of the crack ---- *)
  (* the matrix entry points use the optimised driver; on the grid of make_angles_grid (incident
     angle constant along each column) it returns what the general driver returns:
     S[j, i] = kernel(theta_i, theta_j) *)
  Lemma crack_single_entry : forall K flag f n tc D k,
    as_single_freq_matrices N (crack_obj_call N K flag) f n tc = inr D -> valid_key k = true ->
    exists M, lookup k D = Some M /\ nd_shape M = [n; n] /\
      forall j i, (j < n)%nat -> (i < n)%nat ->
        nd_at M [j; i] = if crack_use k tc
                         then kern_pick (K f) k (angle N (npi N) (Z.of_nat n) (Z.of_nat i))
                                                (angle N (npi N) (Z.of_nat n) (Z.of_nat j))
                         else c0 N.
  Proof.
    intros K flag f n tc D k. unfold as_single_freq_matrices.
    destruct (make_angles_grid N n) as [inc out] eqn:Eg. unfold crack_obj_call. intros HD Hk.
    destruct (crack_nd_entry N (K f) inc out flag tc D HD) as (fs & Hb & _ & _ & Hall).
    assert (Ei : inc = fst (make_angles_grid N n)) by (rewrite Eg; reflexivity).
    assert (Eo : out = snd (make_angles_grid N n)) by (rewrite Eg; reflexivity).
    rewrite Ei, Eo, grid_bshape in Hb. injection Hb as <-.
    destruct (Hall k Hk) as (M & HM & Hs & Hat). exists M. split; [exact HM|]. split; [exact Hs|].
    intros j i Hj Hi. rewrite Hat by (repeat constructor; assumption). rewrite Ei, Eo.
    destruct (grid_read N n j i Hj Hi) as [E1 ->].
    assert (H0 : (0 < n)%nat) by lia. destruct (grid_read N n 0 i H0 Hi) as [E0 _].
    destruct flag; cbn [row0]; rewrite ?E0, ?E1; reflexivity.
  Qed.

  (* ---- the flag of CrackCentreScat over histories ---- *)
  Variable K : T -> crack_kernels (T:=T).

  Lemma with_flag_snd : forall {R} (body : scat_obj T (@cx T) -> scat_err + R),
    snd (with_matrix_flag N K body) = false /\
    fst (with_matrix_flag N K body) = body (crack_obj_call N K true).
  Proof. intros R0 body. split; reflexivity. Qed.

  (* a matrix request leaves the flag False whatever it was before and whether it returned or raised
     (the finally clause of _scat_matrix_calculation); a plain call does not touch it *)
  Lemma crack_step_flag : forall flag op,
    snd (crack_step N K flag op)
    = match op with
      | OpCall _ _ _ _ => flag
      | _ => false
      end.
  Proof. intros flag [inc out f tc|f n tc|fs n tc]; reflexivity. Qed.

  (* the result of a matrix request does not depend on the flag found *)
  Lemma crack_step_matrix_any_flag : forall flag flag' op,
    match op with OpCall _ _ _ _ => True | _ => crack_step N K flag op = crack_step N K flag' op end.
  Proof. intros flag flag' [inc out f tc|f n tc|fs n tc]; [exact I | reflexivity | reflexivity]. Qed.

  (* an object whose flag is False keeps it False through every operation, failed or not *)
  Lemma crack_step_false : forall op, snd (crack_step N K false op) = false.
  Proof. intros op. rewrite crack_step_flag. destruct op; reflexivity. Qed.

  Lemma crack_run_cons : forall flag op rest,
    crack_run N K flag (op :: rest)
    = (fst (crack_step N K flag op) :: fst (crack_run N K (snd (crack_step N K flag op)) rest),
       snd (crack_run N K (snd (crack_step N K flag op)) rest)).
  Proof.
    intros flag op rest. cbn [crack_run]. destruct (crack_step N K flag op) as [r fl]. cbn [fst snd].
    destruct (crack_run N K fl rest) as [rs fl']. reflexivity.
  Qed.

  (* HISTORY INDEPENDENCE, for ALL histories (plain calls that raise, matrix requests that raise,
     anything): from a fresh object the flag is False after the history, hence the next operation
     answers what it answers on a fresh object *)
  Lemma crack_flag_restored : forall ops, snd (crack_run N K false ops) = false.
  Proof.
    induction ops as [|op rest IH]; [reflexivity|].
    rewrite crack_run_cons. cbn [snd]. rewrite crack_step_false. exact IH.
  Qed.

  Lemma crack_history_independent : forall ops op,
    crack_step N K (snd (crack_run N K false ops)) op = crack_step N K crack_init_flag op.
  Proof. intros ops op. rewrite crack_flag_restored. reflexivity. Qed.

  (* ... and every operation OF the history answered what it answers on a fresh object: the results
     of a run are the results of the operations taken one by one on fresh objects; in particular every
     plain call of every history is evaluated by the general driver *)
  Lemma crack_run_pointwise : forall ops,
    crack_run N K false ops = (map (fun op => fst (crack_step N K crack_init_flag op)) ops, false).
  Proof.
    induction ops as [|op rest IH]; [reflexivity|].
    rewrite crack_run_cons, crack_step_false, IH. reflexivity.
  Qed.

  Lemma crack_call_fresh : forall inc out f tc,
    fst (crack_step N K crack_init_flag (OpCall inc out f tc))
    = RDict (crack_2d_scat_nd N (K f) inc out false tc).
  Proof. reflexivity. Qed.

  (* whatever the flag found (also one set by hand), one matrix request — failed or not — resets it *)
  Lemma crack_flag_reset_any : forall flag op ops,
    match op with OpCall _ _ _ _ => True | _ => snd (crack_run N K flag (op :: ops)) = false end.
  Proof.
    intros flag op ops. destruct op as [inc out f tc|f n tc|fs n tc]; [exact I| |];
      rewrite crack_run_cons; cbn [snd]; rewrite crack_step_flag; apply crack_flag_restored.
  Qed.

  (* the input on which the code before the repair /repo 3989d85 (no try/finally) answered differently:
     a matrix request that raises — here for a key outside LL/LT/TL/TT — now leaves the flag False,
     and the next plain call is evaluated by the general driver *)
  Lemma crack_flag_reset : forall f n inc out g tc,
    crack_run N K false [OpSingle f n ["XX"%string]; OpCall inc out g tc]
    = ([RDict (inl EToCompute); RDict (crack_2d_scat_nd N (K g) inc out false tc)], false).
  Proof. reflexivity. Qed.

  (* ---- the outcome of a matrix request of the crack ---- *)
  Lemma crack_single_outcome : forall flag f n tc,
    match as_single_freq_matrices N (crack_obj_call N K flag) f n tc with
    | inl EToCompute => valid_to_compute tc = false
    | inl EEmptyModes => valid_to_compute tc = true /\ flag = true /\ n = 0%nat
    | inl _ => False
    | inr _ => valid_to_compute tc = true /\ (flag = true -> n <> 0%nat)
    end.
  Proof.
    intros flag f n tc. unfold as_single_freq_matrices.
    destruct (make_angles_grid N n) as [inc out] eqn:Eg. unfold crack_obj_call.
    pose proof (crack_nd_outcome N (K f) inc out flag tc) as Ho.
    assert (Hb : bshape (nd_shape inc) (nd_shape out) = Some [n; n]).
    { replace inc with (fst (make_angles_grid N n)) by (rewrite Eg; reflexivity).
      replace out with (snd (make_angles_grid N n)) by (rewrite Eg; reflexivity). apply grid_bshape. }
    destruct (crack_2d_scat_nd N (K f) inc out flag tc) as [[]|D]; try exact Ho.
    - destruct Ho as [_ Ho]. congruence.
    - destruct Ho as (Hv & Hs & b & Hb'). rewrite Hb in Hb'. injection Hb' as -> _. auto.
    - destruct Ho as (_ & fs & Hfs & Hl). rewrite Hb in Hfs. injection Hfs as <-. cbn [List.length] in Hl. lia.
    - destruct Ho as (Hv & fs & Hfs & _ & Hne). split; [exact Hv|]. intros Hs ->.
      rewrite Hb in Hfs. injection Hfs as <-. exact (Hne Hs 0%nat eq_refl).
  Qed.

  (* numangles = 0: the request itself raises IndexError (the grid has the shape (0, 0)), the flag is
     reset all the same *)
  Lemma crack_single_zero : forall f tc, valid_to_compute tc = true ->
    crack_step N K false (OpSingle f 0 tc) = (RDict (inl EEmptyModes), false).
  Proof.
    intros f tc Hv. cbn [crack_step]. unfold crack_as_single, with_matrix_flag. f_equal. f_equal.
    pose proof (crack_single_outcome true f 0 tc) as Ho.
    destruct (as_single_freq_matrices N (crack_obj_call N K true) f 0 tc) as [[]|D]; try contradiction; try reflexivity.
    - congruence.
    - destruct Ho as [_ Ho]. exfalso. apply Ho; reflexivity.
  Qed.

  Lemma crack_multi_zero : forall f fs tc, valid_to_compute tc = true ->
    crack_step N K false (OpMulti (f :: fs) 0 tc) = (RMulti (inl EEmptyModes), false).
  Proof.
    intros f fs tc Hv. pose proof (crack_single_zero f tc Hv) as H1. cbn [crack_step] in H1 |- *.
    unfold crack_as_single, crack_as_multi, with_matrix_flag in *. injection H1 as H1.
    unfold as_multi_freq_matrices. unfold as_single_freq_matrices in H1.
    destruct (make_angles_grid N 0) as [inc out]. cbn [multi_loop]. rewrite H1. reflexivity.
  Qed.
End Objects.

(* ------------------------------------------------------------------------------------ *)
(* 7. over the reals: symmetries of the arrays and matrices returned by the hole          *)
(* ------------------------------------------------------------------------------------ *)
Local Open Scope R_scope.

Section SdhReal.
  Variables hankel1 hankel2 : Z -> R -> Cx.
  Variables (f r vL vT : R) (mt tf : Z).
  Notation spick := (sdh_pick NumR hankel1 hankel2 f r vL vT mt tf).

  Lemma spick_shift : forall k a b d, spick k (a + d) (b + d) = spick k a b.
  Proof.
    intros k a b d. unfold sdh_pick.
    destruct (sdh_difference (fun n => hankel1 n (sdh_alpha NumR f r vL)) (fun n => hankel2 n (sdh_alpha NumR f r vL))
                (fun n => hankel1 n (sdh_beta NumR f r vT)) (fun n => hankel2 n (sdh_beta NumR f r vT))
                f r vL vT (Z.to_nat (sdh_maxn NumR f r vL vT mt tf)) a b d) as (E1 & E2 & E3 & E4).
    rewrite E1, E2, E3, E4. reflexivity.
  Qed.

  Lemma spick_periodic : forall k a b (p q : Z),
    spick k (a + 2 * PI * IZR p) (b + 2 * PI * IZR q) = spick k a b.
  Proof.
    intros k a b p q. unfold sdh_pick.
    destruct (sdh_periodic_all (fun n => hankel1 n (sdh_alpha NumR f r vL)) (fun n => hankel2 n (sdh_alpha NumR f r vL))
                (fun n => hankel1 n (sdh_beta NumR f r vT)) (fun n => hankel2 n (sdh_beta NumR f r vT))
                f r vL vT (Z.to_nat (sdh_maxn NumR f r vL vT mt tf)) a b p q) as (E1 & E2 & E3 & E4).
    rewrite E1, E2, E3, E4. reflexivity.
  Qed.

  Lemma spick_LL_TT_sym : forall a b, spick "LL" a b = spick "LL" b a /\ spick "TT" a b = spick "TT" b a.
  Proof. intros a b. unfold sdh_pick, pick. cbn [String.eqb Ascii.eqb Bool.eqb]. split; [apply sdh_LL_sym | apply sdh_TT_sym]. Qed.

  Lemma spick_reciprocal : forall a b, vL <> 0 -> vT <> 0 -> f <> 0 -> r <> 0 ->
    (vT * vT) *r spick "LT" a b = copp NumR ((vL * vL) *r spick "TL" b a).
  Proof.
    intros a b H1 H2 H3 H4. unfold sdh_pick, pick. cbn [String.eqb Ascii.eqb Bool.eqb].
    apply sdh_reciprocal; assumption.
  Qed.

  (* parity: reversing the sign of both angles leaves LL, TT unchanged and reverses LT, TL *)
  Lemma spick_parity : forall a b,
    spick "LL" (- a) (- b) = spick "LL" a b /\ spick "TT" (- a) (- b) = spick "TT" a b /\
    spick "LT" (- a) (- b) = (-1) *r spick "LT" a b /\ spick "TL" (- a) (- b) = (-1) *r spick "TL" a b.
  Proof.
    intros a b.
    assert (Hs : forall k, spick k (- a) (- b) = spick k b a).
    { intros k. rewrite <- (spick_shift k (- a) (- b) (a + b)). f_equal; ring. }
    rewrite !Hs. destruct (spick_LL_TT_sym b a) as [E1 E2]. repeat split; try assumption.
    - unfold sdh_pick, pick. cbn [String.eqb Ascii.eqb Bool.eqb]. apply sdh_LT_odd.
    - unfold sdh_pick, pick, sdh_TL. cbn [String.eqb Ascii.eqb Bool.eqb].
      rewrite (modal_sum_neg _ _ _ b a a b) by (intros n; apply sin_n_phi_swap). apply rscale_cmul_r.
  Qed.

  (* angles of make_angles *)
  Lemma angle_R : forall n k, angle NumR PI n k = - PI + IZR k * (2 * PI / IZR n).
  Proof. reflexivity. Qed.

  Lemma angle_mod : forall n i s, (0 < n)%Z ->
    angle NumR PI n ((i + s) mod n) = angle NumR PI n i + IZR s * (2 * PI / IZR n) + 2 * PI * IZR (- ((i + s) / n)).
  Proof.
    intros n i s Hn. rewrite !angle_R. rewrite Z.mod_eq by lia.
    rewrite minus_IZR, mult_IZR, plus_IZR, opp_IZR. field. apply not_0_IZR. lia.
  Qed.

  (* exchange of the two ARRAYS, for any two shapes that broadcast: the call with the arrays
     exchanged returns entry by entry the same S_LL, S_TT, and v_T^2 S_LT = - v_L^2 S_TL *)
  Lemma sdh_nd_exchange : forall inc out tc tc' D D',
    sdh_2d_scat_nd NumR hankel1 hankel2 inc out f r vL vT mt tf tc = inr D ->
    sdh_2d_scat_nd NumR hankel1 hankel2 out inc f r vL vT mt tf tc' = inr D' ->
    (forall k A A', (k = "LL" \/ k = "TT")%string -> lookup k D = Some A -> lookup k D' = Some A' ->
       nd_shape A = nd_shape A' /\ forall idx, nd_at A idx = nd_at A' idx) /\
    (forall A A', lookup "LT" D = Some A -> lookup "TL" D' = Some A' ->
       vL <> 0 -> vT <> 0 -> f <> 0 -> r <> 0 ->
       nd_shape A = nd_shape A' /\
       forall idx, (vT * vT) *r nd_at A idx = copp NumR ((vL * vL) *r nd_at A' idx)).
  Proof.
    intros inc out tc tc' D D' HD HD'.
    assert (Hshape : forall k k' A A', lookup k D = Some A -> lookup k' D' = Some A' -> nd_shape A = nd_shape A').
    { intros k k' A A' HA HA'.
      destruct (sdh_nd_entry NumR hankel1 hankel2 _ _ _ _ _ _ _ _ _ _ _ _ HD HA) as [Hs _].
      destruct (sdh_nd_entry NumR hankel1 hankel2 _ _ _ _ _ _ _ _ _ _ _ _ HD' HA') as [Hs' _].
      rewrite bshape_comm in Hs'. rewrite Hs in Hs'. injection Hs' as E. exact E. }
    split.
    - intros k A A' Hk HA HA'. split; [apply (Hshape k k); assumption|]. intros idx.
      destruct (sdh_nd_entry NumR hankel1 hankel2 _ _ _ _ _ _ _ _ _ _ _ _ HD HA) as [_ Hat].
      destruct (sdh_nd_entry NumR hankel1 hankel2 _ _ _ _ _ _ _ _ _ _ _ _ HD' HA') as [_ Hat'].
      rewrite Hat, Hat'. destruct (spick_LL_TT_sym (nd_read inc idx) (nd_read out idx)) as [E1 E2].
      destruct Hk as [->| ->]; assumption.
    - intros A A' HA HA' H1 H2 H3 H4. split; [apply (Hshape "LT"%string "TL"%string); assumption|]. intros idx.
      destruct (sdh_nd_entry NumR hankel1 hankel2 _ _ _ _ _ _ _ _ _ _ _ _ HD HA) as [_ Hat].
      destruct (sdh_nd_entry NumR hankel1 hankel2 _ _ _ _ _ _ _ _ _ _ _ _ HD' HA') as [_ Hat'].
      rewrite Hat, Hat'. apply spick_reciprocal; assumption.
  Qed.

  (* the matrices of as_single_freq_matrices: symmetric (LL, TT), reciprocal (LT / TL transposed),
     and CIRCULANT: invariant under a cyclic shift of both indices — the hole looks the same after a
     rotation by a whole number of grid steps (rotate_matrix of C10 leaves its matrices unchanged) *)
  Section Matrices.
    Variables (rad vLk vTk : R) (mtk tfk : Z).
    Let kw := mkSdhKw rad vLk vTk mtk tfk.
    Variables (fq : R) (n : nat) (tc : list string) (D : dict (nd Cx)).
    Hypothesis HD : as_single_freq_matrices NumR (sdh_obj_call NumR hankel1 hankel2 kw) fq n tc = inr D.

    Lemma sdh_matrix_symmetric : forall k M, (k = "LL" \/ k = "TT")%string -> lookup k D = Some M ->
      forall j i, (j < n)%nat -> (i < n)%nat -> nd_at M [j; i] = nd_at M [i; j].
    Proof.
      intros k M Hk HM j i Hj Hi.
      destruct (sdh_single_entry NumR hankel1 hankel2 kw fq n tc D k M HD HM) as [_ Hat].
      rewrite (Hat j i Hj Hi), (Hat i j Hi Hj). cbn [kw sk_radius sk_vL sk_vT sk_min_terms sk_term_factor].
      unfold sdh_pick, pick. destruct Hk as [->| ->]; cbn [String.eqb Ascii.eqb Bool.eqb];
        [apply sdh_LL_sym | apply sdh_TT_sym].
    Qed.

    Lemma sdh_matrix_reciprocal : forall MLT MTL, lookup "LT" D = Some MLT -> lookup "TL" D = Some MTL ->
      vLk <> 0 -> vTk <> 0 -> fq <> 0 -> rad <> 0 ->
      forall j i, (j < n)%nat -> (i < n)%nat ->
        (vTk * vTk) *r nd_at MLT [j; i] = copp NumR ((vLk * vLk) *r nd_at MTL [i; j]).
    Proof.
      intros MLT MTL H1 H2 Hv1 Hv2 Hf Hr j i Hj Hi.
      destruct (sdh_single_entry NumR hankel1 hankel2 kw fq n tc D _ _ HD H1) as [_ Hat1].
      destruct (sdh_single_entry NumR hankel1 hankel2 kw fq n tc D _ _ HD H2) as [_ Hat2].
      rewrite (Hat1 j i Hj Hi), (Hat2 i j Hi Hj). cbn [kw sk_radius sk_vL sk_vT sk_min_terms sk_term_factor].
      unfold sdh_pick, pick. cbn [String.eqb Ascii.eqb Bool.eqb]. apply sdh_reciprocal; assumption.
    Qed.
  End Matrices.
End SdhReal.

Section SdhCirculant.
  Variables hankel1 hankel2 : Z -> R -> Cx.
  Lemma sdh_matrix_circulant : forall kw fq n tc D k M (s : nat),
    as_single_freq_matrices NumR (sdh_obj_call NumR hankel1 hankel2 kw) fq n tc = inr D ->
    lookup k D = Some M ->
    forall j i, (j < n)%nat -> (i < n)%nat ->
      nd_at M [((j + s) mod n)%nat; ((i + s) mod n)%nat] = nd_at M [j; i].
  Proof.
    intros kw fq n tc D k M s HD HM j i Hj Hi.
    destruct (sdh_single_entry NumR hankel1 hankel2 kw fq n tc D k M HD HM) as [_ Hat].
    assert (Hn : (0 < n)%nat) by lia.
    rewrite (Hat _ _ (Nat.mod_upper_bound (j + s) n ltac:(lia)) (Nat.mod_upper_bound (i + s) n ltac:(lia))).
    rewrite (Hat j i Hj Hi).
    assert (Hmod : forall x, Z.of_nat ((x + s) mod n) = ((Z.of_nat x + Z.of_nat s) mod Z.of_nat n)%Z).
    { intros x. rewrite Nat2Z.inj_mod, Nat2Z.inj_add. reflexivity. }
    rewrite !Hmod. cbn [npi NumR]. rewrite !angle_mod by lia.
    rewrite spick_periodic, spick_shift. reflexivity.
  Qed.
End SdhCirculant.

(* ------------------------------------------------------------------------------------ *)
(* 8. multi-frequency matrices of the hole and the crack (every numeric instance)         *)
(* ------------------------------------------------------------------------------------ *)
Section MultiObjects.
  Context {T : Type} (N : Num T).
  Variables hankel1 hankel2 : Z -> T -> @cx T.

  (* S[kf, j, i] = function(theta_i, theta_j) at frequencies[kf], with the Hankel values and the
     number of modal terms OF THAT FREQUENCY *)
  Lemma sdh_multi_entry : forall kw fs n tc Om k d,
    as_multi_freq_matrices N (c0 N) (sdh_obj_call N hankel1 hankel2 kw) fs n tc = inr (Some Om) ->
    requested tc k = true ->
    exists A, lookup k Om = Some A /\ nd_shape A = [List.length fs; n; n] /\
      forall kf j i, (kf < List.length fs)%nat -> (j < n)%nat -> (i < n)%nat ->
        nd_at A [kf; j; i]
        = sdh_pick N hankel1 hankel2 (nth kf fs d) (sk_radius kw) (sk_vL kw) (sk_vT kw)
            (sk_min_terms kw) (sk_term_factor kw) k
            (angle N (npi N) (Z.of_nat n) (Z.of_nat i)) (angle N (npi N) (Z.of_nat n) (Z.of_nat j)).
  Proof.
    intros kw fs n tc Om k d HO Hr.
    pose proof (as_multi_is_stack_nd N (c0 N) (sdh_obj_call N hankel1 hankel2 kw) fs n tc d) as H.
    rewrite HO in H. destruct H as [_ H]. destruct (H k Hr) as (A & HA & Hs & Hall).
    exists A. split; [exact HA|]. split; [exact Hs|]. intros kf j i Hk Hj Hi.
    destruct (Hall kf Hk) as (D & M & HD & HM & Hat). rewrite Hat.
    destruct (sdh_single_entry N hankel1 hankel2 kw _ n tc D k M HD HM) as [_ HM']. apply HM'; assumption.
  Qed.

  Lemma crack_multi_entry : forall (K : T -> crack_kernels) flag fs n tc Om k d,
    as_multi_freq_matrices N (c0 N) (crack_obj_call N K flag) fs n tc = inr (Some Om) ->
    requested tc k = true -> valid_key k = true ->
    exists A, lookup k Om = Some A /\ nd_shape A = [List.length fs; n; n] /\
      forall kf j i, (kf < List.length fs)%nat -> (j < n)%nat -> (i < n)%nat ->
        nd_at A [kf; j; i]
        = kern_pick (K (nth kf fs d)) k (angle N (npi N) (Z.of_nat n) (Z.of_nat i))
                                        (angle N (npi N) (Z.of_nat n) (Z.of_nat j)).
  Proof.
    intros K flag fs n tc Om k d HO Hr Hk.
    pose proof (as_multi_is_stack_nd N (c0 N) (crack_obj_call N K flag) fs n tc d) as H.
    rewrite HO in H. destruct H as [_ H]. destruct (H k Hr) as (A & HA & Hs & Hall).
    exists A. split; [exact HA|]. split; [exact Hs|]. intros kf j i Hkf Hj Hi.
    destruct (Hall kf Hkf) as (D & M & HD & HM & Hat). rewrite Hat.
    destruct (crack_single_entry N K flag _ n tc D k HD Hk) as (M' & HM' & _ & Hat').
    rewrite HM in HM'. injection HM' as <-. rewrite (Hat' j i Hj Hi).
    assert (Hu : crack_use k tc = true).
    { unfold crack_use, pick, use_incident_L, use_incident_T.
      destruct (valid_key_cases k Hk) as [E|[E|[E|E]]]; subst k; cbn [String.eqb Ascii.eqb Bool.eqb];
        rewrite Hr, ?orb_true_r; reflexivity. }
    rewrite Hu. reflexivity.
  Qed.

  (* a failed multi-frequency request leaves the flag False as well *)
  Lemma crack_flag_reset_multi : forall (K : T -> crack_kernels) f n,
    crack_step N K false (OpMulti [f] n ["XX"%string]) = (RMulti (inl EToCompute), false).
  Proof. reflexivity. Qed.
End MultiObjects.

(* ------------------------------------------------------------------------------------ *)
(* 9. over the reals: the crack matrices, the flag is observable, the number of modal terms *)
(* ------------------------------------------------------------------------------------ *)
Section CrackReal.
  Variable P : R -> crack_params (T:=R).       (* the parameters of the kernel at each frequency *)
  Let K := fun fq => crack_kernels_of NumR (P fq).
  Variables ax az : R -> Z -> Cx.              (* quadrature values of A_x, A_z at each frequency *)
  Variables (fq : R) (n : nat) (tc : list string) (D : dict (nd Cx)).
  Hypothesis Hx : exact_solve NumR (cp_nn (P fq)) (galerkin_matrix (Z.of_nat (cp_nn (P fq))) (ax fq)) (cp_solve_x (P fq)).
  Hypothesis Hz : exact_solve NumR (cp_nn (P fq)) (galerkin_matrix (Z.of_nat (cp_nn (P fq))) (az fq)) (cp_solve_z (P fq)).
  Variable flag : bool.
  Hypothesis HD : as_single_freq_matrices NumR (crack_obj_call NumR K flag) fq n tc = inr D.

  Lemma crack_matrix_symmetric : forall k M, (k = "LL" \/ k = "TT")%string -> lookup k D = Some M ->
    cp_vL (P fq) <> 0 -> cp_vT (P fq) <> 0 ->
    forall j i, (j < n)%nat -> (i < n)%nat -> nd_at M [j; i] = nd_at M [i; j].
  Proof.
    intros k M Hk HM HL HT j i Hj Hi.
    assert (Hv : valid_key k = true) by (destruct Hk as [->| ->]; reflexivity).
    destruct (crack_single_entry NumR K flag fq n tc D k HD Hv) as (M' & HM' & _ & Hat).
    rewrite HM in HM'. injection HM' as <-. rewrite (Hat j i Hj Hi), (Hat i j Hi Hj).
    destruct (crack_use k tc); [|reflexivity].
    unfold kern_pick, pick, K, crack_kernels_of. destruct Hk as [->| ->]; cbn [String.eqb Ascii.eqb Bool.eqb k_LL k_TT].
    - apply (crack_LL_sym (P fq) (ax fq) (az fq) Hx Hz); assumption.
    - apply (crack_TT_sym (P fq) (ax fq) (az fq) Hx Hz).
  Qed.

  Lemma crack_matrix_reciprocal : forall MLT MTL, lookup "LT" D = Some MLT -> lookup "TL" D = Some MTL ->
    In "LT"%string tc -> In "TL"%string tc ->
    0 < cp_vL (P fq) -> 0 < cp_vT (P fq) -> 0 < cp_frequency (P fq) ->
    forall j i, (j < n)%nat -> (i < n)%nat ->
      (cp_vT (P fq) * cp_vT (P fq)) *r nd_at MLT [j; i]
      = copp NumR ((cp_vL (P fq) * cp_vL (P fq)) *r nd_at MTL [i; j]).
  Proof.
    intros MLT MTL H1 H2 I1 I2 HL HT Hf j i Hj Hi.
    destruct (crack_single_entry NumR K flag fq n tc D "LT" HD eq_refl) as (M1 & HM1 & _ & Hat1).
    destruct (crack_single_entry NumR K flag fq n tc D "TL" HD eq_refl) as (M2 & HM2 & _ & Hat2).
    rewrite H1 in HM1. injection HM1 as <-. rewrite H2 in HM2. injection HM2 as <-.
    rewrite (Hat1 j i Hj Hi), (Hat2 i j Hi Hj).
    rewrite (crack_use_requested tc "LT" eq_refl I1), (crack_use_requested tc "TL" eq_refl I2).
    unfold kern_pick, pick, K, crack_kernels_of. cbn [String.eqb Ascii.eqb Bool.eqb k_LT k_TL].
    apply (crack_reciprocal (P fq) (ax fq) (az fq) Hx Hz); assumption.
  Qed.
End CrackReal.

(* the flag is observable, and the witness of the repaired defect: a kernel that returns its two
   angles, inc = [[0], [1]], out = [[0], [0]].  After the failed request OpSingle 1 4 ["XX"] the plain
   call answers D' (general driver, what a fresh object answers); before the repair /repo 3989d85 the
   flag stayed True and the call answered D (optimised driver), which differs at [1, 0] *)
Lemma crack_failed_request_witness :
  exists (K : R -> crack_kernels (T:=R)) (inc out : nd R) (D D' : dict (nd Cx)) (A A' : nd Cx),
    crack_run NumR K false [OpSingle 1 4%nat ["XX"%string]; OpCall inc out 1 scat_keys]
      = ([RDict (inl EToCompute); RDict (inr D')], false) /\     (* the failed request, then the call *)
    crack_obj_call NumR K crack_init_flag inc out 1 scat_keys = inr D' /\   (* the same call on a fresh object *)
    crack_obj_call NumR K true inc out 1 scat_keys = inr D /\         (* what an object with the flag True answers *)
    lookup "LL" D = Some A /\ lookup "LL" D' = Some A' /\ nd_at A [1; 0]%nat <> nd_at A' [1; 0]%nat.
Proof.
  set (kk := fun a b : R => (a, b)).
  set (K := fun _ : R => mkKern kk kk kk kk).
  set (inc := mkNd [2; 1]%nat (fun idx => INR (hd 0%nat idx))).
  set (out := mkNd [2; 1]%nat (fun _ : list nat => 0)).
  destruct (crack_2d_scat_nd NumR (K 1) inc out true scat_keys) as [e|D] eqn:E; [discriminate E|].
  destruct (crack_2d_scat_nd NumR (K 1) inc out false scat_keys) as [e|D'] eqn:E'; [discriminate E'|].
  destruct (crack_nd_entry NumR (K 1) inc out true scat_keys D E) as (fs & Hb & _ & _ & Hall).
  destruct (crack_nd_entry NumR (K 1) inc out false scat_keys D' E') as (fs' & Hb' & _ & _ & Hall').
  cbn in Hb, Hb'. injection Hb as <-. injection Hb' as <-.
  destruct (Hall "LL"%string eq_refl) as (A & HA & _ & Hat).
  destruct (Hall' "LL"%string eq_refl) as (A' & HA' & _ & Hat').
  exists K, inc, out, D, D', A, A'.
  split; [rewrite (crack_flag_reset NumR K 1 4%nat inc out 1 scat_keys), E'; reflexivity|].
  split; [exact E'|]. split; [exact E|].
  split; [exact HA|]. split; [exact HA'|].
  assert (Hin : in_shape [1; 0]%nat [2; 1]%nat) by (repeat constructor; lia).
  rewrite (Hat _ Hin), (Hat' _ Hin). cbn. intros Heq. injection Heq as Heq. lra.
Qed.

Section Maxn.
  (* maxn = max([int(min_terms), math.ceil(term_factor * alpha), math.ceil(term_factor * beta)]) *)
  Lemma nceil_R : forall x, nceil NumR x = Zceil x.
  Proof. reflexivity. Qed.

  Lemma sdh_maxn_R : forall f r vL vT mt tf,
    sdh_maxn NumR f r vL vT mt tf
    = Z.max mt (Z.max (Zceil (IZR tf * sdh_alpha NumR f r vL)) (Zceil (IZR tf * sdh_beta NumR f r vT))).
  Proof. reflexivity. Qed.

  (* maxn is the LEAST integer that is at least min_terms, term_factor * alpha and term_factor * beta *)
  Lemma sdh_maxn_bounds : forall f r vL vT mt tf,
    (mt <= sdh_maxn NumR f r vL vT mt tf)%Z /\
    IZR tf * sdh_alpha NumR f r vL <= IZR (sdh_maxn NumR f r vL vT mt tf) /\
    IZR tf * sdh_beta NumR f r vT <= IZR (sdh_maxn NumR f r vL vT mt tf).
  Proof.
    intros f r vL vT mt tf. rewrite sdh_maxn_R.
    set (A := IZR tf * sdh_alpha NumR f r vL). set (B := IZR tf * sdh_beta NumR f r vT).
    pose proof (Zceil_ub A) as HA. pose proof (Zceil_ub B) as HB.
    split; [lia|]. split.
    - apply Rle_trans with (1 := HA). apply IZR_le. lia.
    - apply Rle_trans with (1 := HB). apply IZR_le. lia.
  Qed.

  Lemma sdh_maxn_least : forall f r vL vT mt tf m,
    (mt <= m)%Z -> IZR tf * sdh_alpha NumR f r vL <= IZR m -> IZR tf * sdh_beta NumR f r vT <= IZR m ->
    (sdh_maxn NumR f r vL vT mt tf <= m)%Z.
  Proof.
    intros f r vL vT mt tf m H1 H2 H3. rewrite sdh_maxn_R.
    apply Zceil_glb in H2. apply Zceil_glb in H3. lia.
  Qed.

  (* monotone: a larger hole / a higher frequency / more requested terms never DECREASE the number
     of modal terms *)
  Lemma sdh_maxn_monotone : forall f r vL vT mt tf f' r' mt',
    (0 <= tf)%Z -> 0 < vL -> 0 < vT -> 0 <= f <= f' -> 0 <= r <= r' -> (mt <= mt')%Z ->
    (sdh_maxn NumR f r vL vT mt tf <= sdh_maxn NumR f' r' vL vT mt' tf)%Z.
  Proof.
    intros f r vL vT mt tf f' r' mt' Htf HL HT Hf Hr Hmt.
    destruct (sdh_maxn_bounds f' r' vL vT mt' tf) as (B1 & B2 & B3).
    assert (Hpi := PI_RGT_0). apply IZR_le in Htf.
    assert (Hfr : f * r <= f' * r') by nra.
    apply sdh_maxn_least; [lia| |].
    - apply Rle_trans with (2 := B2). apply Rmult_le_compat_l; [exact Htf|].
      unfold sdh_alpha, sdh_kl, two_pi. cbn [nmul ndiv nofZ npi NumR].
      replace (2 * PI * f / vL * r) with ((2 * PI / vL) * (f * r)) by (field; lra).
      replace (2 * PI * f' / vL * r') with ((2 * PI / vL) * (f' * r')) by (field; lra).
      apply Rmult_le_compat_l; [|exact Hfr]. apply Rlt_le, Rdiv_lt_0_compat; lra.
    - apply Rle_trans with (2 := B3). apply Rmult_le_compat_l; [exact Htf|].
      unfold sdh_beta, sdh_kt, two_pi. cbn [nmul ndiv nofZ npi NumR].
      replace (2 * PI * f / vT * r) with ((2 * PI / vT) * (f * r)) by (field; lra).
      replace (2 * PI * f' / vT * r') with ((2 * PI / vT) * (f' * r')) by (field; lra).
      apply Rmult_le_compat_l; [|exact Hfr]. apply Rlt_le, Rdiv_lt_0_compat; lra.
  Qed.

  (* for a material with v_T <= v_L the transverse wavenumber decides *)
  Lemma sdh_maxn_beta_decides : forall f r vL vT mt tf,
    (0 <= tf)%Z -> 0 < vT <= vL -> 0 <= f -> 0 <= r ->
    sdh_maxn NumR f r vL vT mt tf = Z.max mt (Zceil (IZR tf * sdh_beta NumR f r vT)).
  Proof.
    intros f r vL vT mt tf Htf Hv Hf Hr. rewrite sdh_maxn_R.
    assert (Hab : IZR tf * sdh_alpha NumR f r vL <= IZR tf * sdh_beta NumR f r vT).
    { apply IZR_le in Htf. apply Rmult_le_compat_l; [exact Htf|]. assert (Hpi := PI_RGT_0).
      unfold sdh_alpha, sdh_beta, sdh_kl, sdh_kt, two_pi. cbn [nmul ndiv nofZ npi NumR].
      apply Rmult_le_compat_r; [exact Hr|]. unfold Rdiv. apply Rmult_le_compat_l; [nra|].
      apply Rinv_le_contravar; lra. }
    apply Zceil_le in Hab. lia.
  Qed.

  (* the modal range is never empty (no IndexError) when min_terms >= 0, or when the physical
     parameters are non-negative *)
  Lemma sdh_maxn_nonneg : forall f r vL vT mt tf,
    (0 <= mt)%Z \/ ((0 <= tf)%Z /\ 0 < vL /\ 0 <= f /\ 0 <= r) -> (0 <= sdh_maxn NumR f r vL vT mt tf)%Z.
  Proof.
    intros f r vL vT mt tf [H|(Htf & HL & Hf & Hr)].
    - destruct (sdh_maxn_bounds f r vL vT mt tf) as (B1 & _). lia.
    - destruct (sdh_maxn_bounds f r vL vT mt tf) as (_ & B2 & _).
      assert (H0 : 0 <= IZR tf * sdh_alpha NumR f r vL).
      { apply IZR_le in Htf. apply Rmult_le_pos; [exact Htf|]. assert (Hpi := PI_RGT_0).
        unfold sdh_alpha, sdh_kl, two_pi. cbn [nmul ndiv nofZ npi NumR].
        apply Rmult_le_pos; [|exact Hr]. apply Rmult_le_pos; [nra|]. apply Rlt_le, Rinv_0_lt_compat. exact HL. }
      apply le_IZR. lra.
  Qed.
End Maxn.

(* integer-typed angles over the reals: same phase as the converted floats, hence same values *)
Lemma sdh_phi_typed_R : forall inc out : ang (T:=R),
  sdh_phi_typed NumR inc out = sdh_phi NumR (ang_float NumR inc) (ang_float NumR out).
Proof. intros inc out. apply sdh_phi_typed_float. intros x y. apply minus_IZR. Qed.

(* ------------------------------------------------------------------------------------ *)
(* 10. mirror symmetry of the crack: S(-a, -b) = S(a, b) for LL, TT and -S(a, b) for LT, TL *)
(*     (exact solver, symmetric Toeplitz matrices, mesh symmetric about the crack centre)  *)
(* ------------------------------------------------------------------------------------ *)
Lemma csum_peel_front : forall (g : Z -> Cx) n,
  csum_upto NumR g (S n) = g 0%Z +c csum_upto NumR (fun m => g (m + 1)%Z) n.
Proof.
  intros g n. induction n as [|n IH].
  - cbn [csum_upto Z.of_nat]. cx_ring.
  - change (csum_upto NumR g (S (S n))) with (csum_upto NumR g (S n) +c g (Z.of_nat (S n))).
    rewrite IH. cbn [csum_upto]. rewrite <- cadd_assoc. f_equal. f_equal. f_equal. lia.
Qed.

Lemma csum_reverse : forall (g : Z -> Cx) n,
  csum_upto NumR (fun m => g (Z.of_nat n - 1 - m)%Z) n = csum_upto NumR g n.
Proof.
  intros g n. revert g. induction n as [|n IH]; intros g; [reflexivity|].
  rewrite (csum_peel_front g n). cbn [csum_upto].
  replace (Z.of_nat (S n) - 1 - Z.of_nat n)%Z with 0%Z by lia.
  rewrite cadd_comm. f_equal. rewrite <- (IH (fun m => g (m + 1)%Z)).
  apply csum_ext. intros k Hk. f_equal. lia.
Qed.

Section CrackMirror.
  Variable p : crack_params (T:=R).
  Variables ax az : Z -> Cx.
  Let n := cp_nn p.
  Let J := fun m : Z => (Z.of_nat n - 1 - m)%Z.
  Hypothesis Hx : exact_solve NumR n (galerkin_matrix (Z.of_nat n) ax) (cp_solve_x p).
  Hypothesis Hz : exact_solve NumR n (galerkin_matrix (Z.of_nat n) az) (cp_solve_z p).
  (* the nodes are placed symmetrically about the centre of the crack *)
  Hypothesis Hmesh : forall m : Z, cp_x p (J m) = - cp_x p m.

  Section OneSolver.
    Variables (a : Z -> Cx) (solve : (Z -> Cx) -> (Z -> Cx)).
    Hypothesis Hs : exact_solve NumR n (galerkin_matrix (Z.of_nat n) a) solve.
    Let B := fun u v : Z -> Cx => cdot NumR n (solve u) v.

    Lemma B_sym : forall u v, B u v = B v u.
    Proof. intros u v. apply (bilinear_symmetric n _ _ (gal_sym p a) Hs). Qed.

    Lemma B_ext_r : forall u v v', (forall k, (k < n)%nat -> v (Z.of_nat k) = v' (Z.of_nat k)) -> B u v = B u v'.
    Proof. intros u v v' H. apply cdot_ext_r. exact H. Qed.

    Lemma B_ext_l : forall u u' v, (forall k, (k < n)%nat -> u (Z.of_nat k) = u' (Z.of_nat k)) -> B u v = B u' v.
    Proof. intros u u' v H. rewrite (B_sym u v), (B_sym u' v). apply B_ext_r. exact H. Qed.

    Lemma B_scale : forall (ca cb : R) u v u' v',
      (forall k, (k < n)%nat -> u' (Z.of_nat k) = ca *r u (Z.of_nat k)) ->
      (forall k, (k < n)%nat -> v' (Z.of_nat k) = cb *r v (Z.of_nat k)) ->
      B u' v' = (ca * cb) *r B u v.
    Proof.
      intros ca cb u v u' v' Hu Hv.
      rewrite (B_ext_r u' v' (fun m => cb *r v m)) by exact Hv.
      unfold B at 1. rewrite cdot_scale_r. fold (B u' v). rewrite (B_sym u' v).
      rewrite (B_ext_r v u' (fun m => ca *r u m)) by exact Hu.
      unfold B at 1. rewrite cdot_scale_r. fold (B v u). rewrite (B_sym v u), rscale_rscale.
      f_equal. ring.
    Qed.

    (* reversing both vectors leaves u^T A^-1 v unchanged: A is symmetric Toeplitz, J A J = A *)
    Lemma B_reverse : forall u v, B (fun m => u (J m)) (fun m => v (J m)) = B u v.
    Proof.
      intros u v. set (u' := fun m => u (J m)). set (x := solve u'). set (y := solve v).
      assert (Hxs : forall i, (0 <= i < Z.of_nat n)%Z -> matvec NumR n (galerkin_matrix (Z.of_nat n) a) x i = u' i)
        by (intros; apply Hs; assumption).
      assert (Hys : forall i, (0 <= i < Z.of_nat n)%Z -> matvec NumR n (galerkin_matrix (Z.of_nat n) a) y i = v i)
        by (intros; apply Hs; assumption).
      rewrite (B_sym u v). unfold B. fold x y. unfold cdot.
      transitivity (csum_upto NumR (fun i => csum_upto NumR
                      (fun j => x i *c (galerkin_matrix (Z.of_nat n) a (J i) j *c y j)) n) n).
      { apply csum_ext. intros k Hk. unfold J at 1. rewrite <- Hys by (unfold J; lia).
        unfold matvec. symmetry. apply csum_cmul_l. }
      rewrite csum_switch.
      transitivity (csum_upto NumR (fun j => y j *c u' (J j)) n).
      { apply csum_ext. intros k Hk. rewrite <- Hxs by (unfold J; lia). unfold matvec.
        rewrite <- csum_cmul_l. apply csum_ext. intros l Hl.
        rewrite !galerkin_toeplitz by (unfold J; lia).
        replace (Z.abs (J (Z.of_nat l) - Z.of_nat k)) with (Z.abs (J (Z.of_nat k) - Z.of_nat l)) by (unfold J; lia).
        cx_ring. }
      apply csum_ext. intros k Hk. unfold u', J. f_equal. f_equal. lia.
    Qed.

    Lemma B_scale_reverse : forall (ca cb : R) u v u' v',
      (forall k, (k < n)%nat -> u' (Z.of_nat k) = ca *r u (J (Z.of_nat k))) ->
      (forall k, (k < n)%nat -> v' (Z.of_nat k) = cb *r v (J (Z.of_nat k))) ->
      B u' v' = (ca * cb) *r B u v.
    Proof.
      intros ca cb u v u' v' Hu Hv. rewrite <- (B_reverse u v).
      apply (B_scale ca cb (fun m => u (J m)) (fun m => v (J m))); assumption.
    Qed.
  End OneSolver.

  Lemma basis_function_even : forall k, basis_function NumR (- k) = basis_function NumR k.
  Proof.
    intros k. unfold basis_function. rewrite !nabs_R, Rabs_Ropp. cbn [nleb nmul nadd nsub ndiv nofZ ncos nsin NumR].
    destruct (Raux.Rle_bool_spec (Rabs k) (1 / 10)) as [H|H]; [ring|].
    assert (Hk : k <> 0). { intros E. subst k. rewrite Rabs_R0 in H. lra. }
    rewrite cos_neg, sin_neg. field. exact Hk.
  Qed.

  (* the right-hand side of the incident wave at the mirrored angle is the reversed vector *)
  Lemma b_inc_mirror : forall k phi m, b_inc NumR p k (- phi) m = b_inc NumR p k phi (J m).
  Proof.
    intros k phi m. unfold b_inc, sv0. cbn [nmul nopp nsin NumR]. rewrite Hmesh, sin_neg.
    f_equal.
    - unfold cis. cbn [ncos nsin NumR]. f_equal; f_equal; ring.
    - rewrite <- basis_function_even. f_equal. ring.
  Qed.

  Lemma r_mirror : forall phi,
    rx_L NumR (- phi) = - rx_L NumR phi /\ rz_L NumR p (- phi) = rz_L NumR p phi /\
    rx_T NumR (- phi) = rx_T NumR phi /\ rz_T NumR (- phi) = - rz_T NumR phi.
  Proof.
    intros phi. unfold rx_L, rz_L, rx_T, rz_T, sv0, sv1. cbn [nmul nopp nadd nsub ndiv nofZ nsin ncos NumR].
    rewrite sin_neg, cos_neg. repeat split; ring.
  Qed.

  (* a bilinear quantity of two incident-wave vectors, at the mirrored angles and at the angles *)
  Lemma D_mirror : forall (a : Z -> Cx) solve, exact_solve NumR n (galerkin_matrix (Z.of_nat n) a) solve ->
    forall (ca cb : R) k1 k2 phi psi (u' v' : Z -> Cx),
      (forall m, u' m = ca *r b_inc NumR p k1 (- phi) m) -> (forall m, v' m = cb *r b_inc NumR p k2 (- psi) m) ->
      cdot NumR n (solve u') v' = (ca * cb) *r cdot NumR n (solve (b_inc NumR p k1 phi)) (b_inc NumR p k2 psi).
  Proof.
    intros a solve Hs ca cb k1 k2 phi psi u' v' Hu Hv.
    apply (B_scale_reverse a solve Hs ca cb (b_inc NumR p k1 phi) (b_inc NumR p k2 psi) u' v').
    - intros k _. rewrite Hu, b_inc_mirror. reflexivity.
    - intros k _. rewrite Hv, b_inc_mirror. reflexivity.
  Qed.

  Lemma D_plain : forall (a : Z -> Cx) solve, exact_solve NumR n (galerkin_matrix (Z.of_nat n) a) solve ->
    forall (ca cb : R) k1 k2 phi psi (u' v' : Z -> Cx),
      (forall m, u' m = ca *r b_inc NumR p k1 phi m) -> (forall m, v' m = cb *r b_inc NumR p k2 psi m) ->
      cdot NumR n (solve u') v' = (ca * cb) *r cdot NumR n (solve (b_inc NumR p k1 phi)) (b_inc NumR p k2 psi).
  Proof.
    intros a solve Hs ca cb k1 k2 phi psi u' v' Hu Hv.
    apply (B_scale a solve Hs ca cb (b_inc NumR p k1 phi) (b_inc NumR p k2 psi) u' v').
    - intros k _. apply Hu.
    - intros k _. apply Hv.
  Qed.

  (* the sum Bx + Bz that each of the four outputs is a multiple of *)
  Definition Dsum (ux uz vx vz : Z -> Cx) : Cx := Bx p ux vx +c Bz p uz vz.

  Lemma D_LL_mirror : forall a b,
    Dsum (bx_L NumR p (- a)) (bz_L NumR p (- a)) (bx_L NumR p (- b)) (bz_L NumR p (- b))
    = Dsum (bx_L NumR p a) (bz_L NumR p a) (bx_L NumR p b) (bz_L NumR p b).
  Proof.
    intros a b. unfold Dsum, Bx, Bz. fold n.
    destruct (r_mirror a) as (A1 & A2 & _ & _). destruct (r_mirror b) as (B1 & B2 & _ & _).
    rewrite (D_mirror ax _ Hx (rx_L NumR (- a)) (rx_L NumR (- b)) (xi1 NumR p) (xi1 NumR p) a b) by reflexivity.
    rewrite (D_mirror az _ Hz (rz_L NumR p (- a)) (rz_L NumR p (- b)) (xi1 NumR p) (xi1 NumR p) a b) by reflexivity.
    rewrite (D_plain ax _ Hx (rx_L NumR a) (rx_L NumR b) (xi1 NumR p) (xi1 NumR p) a b (bx_L NumR p a) (bx_L NumR p b)) by reflexivity.
    rewrite (D_plain az _ Hz (rz_L NumR p a) (rz_L NumR p b) (xi1 NumR p) (xi1 NumR p) a b (bz_L NumR p a) (bz_L NumR p b)) by reflexivity.
    rewrite A1, A2, B1, B2. f_equal; f_equal; ring.
  Qed.

  Lemma D_TT_mirror : forall a b,
    Dsum (bx_T NumR p (- a)) (bz_T NumR p (- a)) (bx_T NumR p (- b)) (bz_T NumR p (- b))
    = Dsum (bx_T NumR p a) (bz_T NumR p a) (bx_T NumR p b) (bz_T NumR p b).
  Proof.
    intros a b. unfold Dsum, Bx, Bz. fold n.
    destruct (r_mirror a) as (_ & _ & A1 & A2). destruct (r_mirror b) as (_ & _ & B1 & B2).
    rewrite (D_mirror ax _ Hx (rx_T NumR (- a)) (rx_T NumR (- b)) (xi2 NumR p) (xi2 NumR p) a b) by reflexivity.
    rewrite (D_mirror az _ Hz (rz_T NumR (- a)) (rz_T NumR (- b)) (xi2 NumR p) (xi2 NumR p) a b) by reflexivity.
    rewrite (D_plain ax _ Hx (rx_T NumR a) (rx_T NumR b) (xi2 NumR p) (xi2 NumR p) a b (bx_T NumR p a) (bx_T NumR p b)) by reflexivity.
    rewrite (D_plain az _ Hz (rz_T NumR a) (rz_T NumR b) (xi2 NumR p) (xi2 NumR p) a b (bz_T NumR p a) (bz_T NumR p b)) by reflexivity.
    rewrite A1, A2, B1, B2. f_equal; f_equal; ring.
  Qed.

  Lemma D_LT_mirror : forall a b,
    Dsum (bx_L NumR p (- a)) (bz_L NumR p (- a)) (bx_T NumR p (- b)) (bz_T NumR p (- b))
    = (-1) *r Dsum (bx_L NumR p a) (bz_L NumR p a) (bx_T NumR p b) (bz_T NumR p b).
  Proof.
    intros a b. unfold Dsum, Bx, Bz. fold n.
    destruct (r_mirror a) as (A1 & A2 & _ & _). destruct (r_mirror b) as (_ & _ & B1 & B2).
    rewrite (D_mirror ax _ Hx (rx_L NumR (- a)) (rx_T NumR (- b)) (xi1 NumR p) (xi2 NumR p) a b) by reflexivity.
    rewrite (D_mirror az _ Hz (rz_L NumR p (- a)) (rz_T NumR (- b)) (xi1 NumR p) (xi2 NumR p) a b) by reflexivity.
    rewrite (D_plain ax _ Hx (rx_L NumR a) (rx_T NumR b) (xi1 NumR p) (xi2 NumR p) a b (bx_L NumR p a) (bx_T NumR p b)) by reflexivity.
    rewrite (D_plain az _ Hz (rz_L NumR p a) (rz_T NumR b) (xi1 NumR p) (xi2 NumR p) a b (bz_L NumR p a) (bz_T NumR p b)) by reflexivity.
    rewrite A1, A2, B1, B2. rewrite rscale_add, !rscale_rscale. f_equal; f_equal; ring.
  Qed.

  Lemma D_TL_mirror : forall a b,
    Dsum (bx_T NumR p (- a)) (bz_T NumR p (- a)) (bx_L NumR p (- b)) (bz_L NumR p (- b))
    = (-1) *r Dsum (bx_T NumR p a) (bz_T NumR p a) (bx_L NumR p b) (bz_L NumR p b).
  Proof.
    intros a b. unfold Dsum, Bx, Bz. fold n.
    destruct (r_mirror a) as (_ & _ & A1 & A2). destruct (r_mirror b) as (B1 & B2 & _ & _).
    rewrite (D_mirror ax _ Hx (rx_T NumR (- a)) (rx_L NumR (- b)) (xi2 NumR p) (xi1 NumR p) a b) by reflexivity.
    rewrite (D_mirror az _ Hz (rz_T NumR (- a)) (rz_L NumR p (- b)) (xi2 NumR p) (xi1 NumR p) a b) by reflexivity.
    rewrite (D_plain ax _ Hx (rx_T NumR a) (rx_L NumR b) (xi2 NumR p) (xi1 NumR p) a b (bx_T NumR p a) (bx_L NumR p b)) by reflexivity.
    rewrite (D_plain az _ Hz (rz_T NumR a) (rz_L NumR p b) (xi2 NumR p) (xi1 NumR p) a b (bz_T NumR p a) (bz_L NumR p b)) by reflexivity.
    rewrite A1, A2, B1, B2. rewrite rscale_add, !rscale_rscale. f_equal; f_equal; ring.
  Qed.

  Lemma KL_neg : forall c D, KL p c ((-1) *r D) = (-1) *r KL p c D.
  Proof. intros c D. unfold KL. rewrite !cdivr_rscale. cx_ring. Qed.
  Lemma KT_neg : forall c D, KT p c ((-1) *r D) = (-1) *r KT p c D.
  Proof. intros c D. unfold KT. rewrite !cdivr_rscale, !cmulr_rscale. cx_ring. Qed.

  (* MIRROR SYMMETRY of the crack-centre scatterer *)
  Lemma crack_mirror : forall a b, cp_vL p <> 0 -> cp_vT p <> 0 ->
    crack_LL NumR p (- a) (- b) = crack_LL NumR p a b /\
    crack_TT NumR p (- a) (- b) = crack_TT NumR p a b /\
    crack_LT NumR p (- a) (- b) = (-1) *r crack_LT NumR p a b /\
    crack_TL NumR p (- a) (- b) = (-1) *r crack_TL NumR p a b.
  Proof.
    intros a b HL HT. rewrite !crack_LL_form, !crack_TL_form by assumption. rewrite !crack_TT_form, !crack_LT_form.
    fold (Dsum (bx_L NumR p (- a)) (bz_L NumR p (- a)) (bx_L NumR p (- b)) (bz_L NumR p (- b))).
    fold (Dsum (bx_T NumR p (- a)) (bz_T NumR p (- a)) (bx_T NumR p (- b)) (bz_T NumR p (- b))).
    fold (Dsum (bx_L NumR p (- a)) (bz_L NumR p (- a)) (bx_T NumR p (- b)) (bz_T NumR p (- b))).
    fold (Dsum (bx_T NumR p (- a)) (bz_T NumR p (- a)) (bx_L NumR p (- b)) (bz_L NumR p (- b))).
    rewrite D_LL_mirror, D_TT_mirror, D_LT_mirror, D_TL_mirror. rewrite KL_neg, KT_neg.
    repeat split; try reflexivity. unfold Dsum.
    generalize (KL p (a_T NumR p) (Bx p (bx_T NumR p a) (bx_L NumR p b) +c Bz p (bz_T NumR p a) (bz_L NumR p b))).
    intros X. cx_ring.
  Qed.
End CrackMirror.

(* the mesh of crack_2d_scat IS symmetric about the centre: x_nodes[N-1-m] = - x_nodes[m] *)
Lemma crack_x_nodes_symmetric : forall L (nn m : Z), IZR nn + 2 * magic_p NumR <> 0 ->
  crack_x_nodes NumR L nn (nn - 1 - m) = - crack_x_nodes NumR L nn m.
Proof.
  intros L nn m H. unfold crack_x_nodes, crack_h_nodes. cbn [nmul nadd nsub ndiv nofZ NumR].
  rewrite !minus_IZR. field. exact H.
Qed.
