(* Proofs/ScatMatrixProofs.v — lemmas about Model/ScatMatrix.v (C10). *)
From Coq Require Import ZArith List Bool Lia Reals Lra.
From Flocq Require Import Core.Raux.
From Arim Require Import Base.Num Base.NumR Model.ScatMatrix.
Local Open Scope R_scope.

Section Proofs.
  Variable P : R.
  Hypothesis HP : 0 < P.
  Variable n : Z.
  Hypothesis Hn : (1 <= n)%Z.

  Let D := dtheta NumR P n.

  Lemma n_pos : 0 < IZR n. Proof. apply IZR_lt. lia. Qed.

  Lemma D_eq : D = 2 * P / IZR n. Proof. reflexivity. Qed.

  Lemma D_pos : 0 < D.
  Proof. rewrite D_eq. pose proof n_pos. apply Rdiv_lt_0_compat; lra. Qed.

  Lemma D_n : D * IZR n = 2 * P.
  Proof. rewrite D_eq. pose proof n_pos. field. lra. Qed.

  Lemma angle_eq k : angle NumR P n k = - P + IZR k * D.
  Proof. reflexivity. Qed.

  (* position, in grid steps from -P, of the angle angle(k) + s*D *)
  Lemma pos_of k s : (angle NumR P n k + s * D + P) / D = IZR k + s.
  Proof. rewrite angle_eq. pose proof D_pos. field. lra. Qed.

  Lemma floor_of k s : 0 <= s < 1 -> theta_floor NumR P n (angle NumR P n k + s * D) = k.
  Proof.
    intros Hs. unfold theta_floor. cbn [NumR nadd ndiv nfloor]. fold D. rewrite pos_of.
    apply Zfloor_imp. rewrite plus_IZR. simpl. lra.
  Qed.

  Lemma frac_of k s : 0 <= s < 1 -> theta_frac NumR P n (angle NumR P n k + s * D) = s.
  Proof.
    intros Hs. unfold theta_frac. rewrite floor_of by assumption.
    cbn [NumR nadd nsub nmul ndiv nofZ]. fold D. rewrite angle_eq. pose proof D_pos. field. lra.
  Qed.

  Lemma idx_of k s : 0 <= s < 1 -> theta_idx NumR P n (angle NumR P n k + s * D) = (k mod n)%Z.
  Proof. intros Hs. unfold theta_idx. rewrite floor_of by assumption. reflexivity. Qed.

  Lemma idx_range theta : (0 <= theta_idx NumR P n theta < n)%Z.
  Proof. unfold theta_idx. apply Z.mod_pos_bound. lia. Qed.

  Lemma idx_plus1_mod i : (0 <= i < n)%Z -> idx_plus1 n i = ((i + 1) mod n)%Z.
  Proof.
    intros Hi. unfold idx_plus1. destruct (Z.eqb_spec i (n - 1)) as [E|E].
    - subst i. replace (n - 1 + 1)%Z with n by ring. rewrite Z.mod_same by lia. reflexivity.
    - rewrite Z.mod_small by lia. reflexivity.
  Qed.

  (* 2 pi periodicity of index and fraction *)
  Lemma floor_period theta k :
    theta_floor NumR P n (theta + 2 * P * IZR k) = (theta_floor NumR P n theta + k * n)%Z.
  Proof.
    unfold theta_floor. cbn [NumR nadd ndiv nfloor]. fold D.
    pose proof D_pos as HD. pose proof D_n as HDn.
    assert (E : (theta + 2 * P * IZR k + P) / D = (theta + P) / D + IZR (k * n)).
    { rewrite mult_IZR. rewrite <- HDn. field. lra. }
    rewrite E. apply Zfloor_imp.
    pose proof (Zfloor_lb ((theta + P) / D)). pose proof (Zfloor_ub ((theta + P) / D)).
    rewrite !plus_IZR. simpl. lra.
  Qed.

  Lemma idx_period theta k :
    theta_idx NumR P n (theta + 2 * P * IZR k) = theta_idx NumR P n theta.
  Proof. unfold theta_idx. rewrite floor_period. apply Z.mod_add. lia. Qed.

  Lemma frac_period theta k :
    theta_frac NumR P n (theta + 2 * P * IZR k) = theta_frac NumR P n theta.
  Proof.
    unfold theta_frac. rewrite floor_period. cbn [NumR nadd nsub nmul ndiv nofZ]. fold D.
    pose proof D_pos as HD. pose proof D_n as HDn.
    rewrite plus_IZR, mult_IZR.
    replace (theta + 2 * P * IZR k + P - D * (IZR (theta_floor NumR P n theta) + IZR k * IZR n))
      with (theta + P - D * IZR (theta_floor NumR P n theta)) by (rewrite <- HDn; ring).
    reflexivity.
  Qed.

  Lemma frac_range theta : 0 <= theta_frac NumR P n theta < 1.
  Proof.
    unfold theta_frac, theta_floor. cbn [NumR nadd nsub nmul ndiv nofZ nfloor]. fold D.
    pose proof D_pos as HD.
    pose proof (Zfloor_lb ((theta + P) / D)) as Hl. pose proof (Zfloor_ub ((theta + P) / D)) as Hu.
    set (x := (theta + P) / D) in *. set (f := IZR (Zfloor x)) in *.
    assert (E : (theta + P - D * f) / D = x - f) by (unfold x; field; lra).
    rewrite E. lra.
  Qed.

  Variable M : Z -> Z -> R.

  Definition bilinear (sw se nw ne s t : R) : R :=
    (sw + (se - sw) * s) + ((nw + (ne - nw) * s) - (sw + (se - sw) * s)) * t.

  Lemma interp_bilinear_R i j s t : (0 <= i < n)%Z -> (0 <= j < n)%Z -> 0 <= s < 1 -> 0 <= t < 1 ->
    interp NumR P n M (angle NumR P n i + s * D) (angle NumR P n j + t * D)
    = bilinear (M j i) (M j ((i + 1) mod n)%Z) (M ((j + 1) mod n)%Z i) (M ((j + 1) mod n)%Z ((i + 1) mod n)%Z) s t.
  Proof.
    intros Hi Hj Hs Ht. unfold interp.
    rewrite !idx_of, !frac_of by assumption.
    rewrite (Z.mod_small i n), (Z.mod_small j n) by lia.
    rewrite !idx_plus1_mod by assumption.
    cbn [NumR nadd nsub nmul]. reflexivity.
  Qed.

  Lemma interp_at_nodes_R i j : (0 <= i < n)%Z -> (0 <= j < n)%Z ->
    interp NumR P n M (angle NumR P n i) (angle NumR P n j) = M j i.
  Proof.
    intros Hi Hj.
    replace (angle NumR P n i) with (angle NumR P n i + 0 * D) by ring.
    replace (angle NumR P n j) with (angle NumR P n j + 0 * D) by ring.
    rewrite interp_bilinear_R by (try assumption; lra). unfold bilinear. ring.
  Qed.

  Lemma interp_periodic_R a b k l :
    interp NumR P n M (a + 2 * P * IZR k) (b + 2 * P * IZR l) = interp NumR P n M a b.
  Proof. unfold interp. rewrite !idx_period, !frac_period. reflexivity. Qed.

  (* the seam: +P is the same point as -P (= angle 0) *)
  Lemma interp_seam_R b : interp NumR P n M P b = interp NumR P n M (- P) b.
  Proof.
    replace P with (- P + 2 * P * IZR 1) at 2 by (simpl; ring).
    replace b with (b + 2 * P * IZR 0) at 1 by (simpl; ring).
    apply interp_periodic_R.
  Qed.

  (* continuity across the seam: just below +P the value interpolates between the last
     column and the first one *)
  Lemma interp_wraps_R j s t : (0 <= j < n)%Z -> 0 <= s < 1 -> 0 <= t < 1 ->
    interp NumR P n M (angle NumR P n (n - 1) + s * D) (angle NumR P n j + t * D)
    = bilinear (M j (n - 1)%Z) (M j 0%Z) (M ((j + 1) mod n)%Z (n - 1)%Z) (M ((j + 1) mod n)%Z 0%Z) s t.
  Proof.
    intros Hj Hs Ht. rewrite interp_bilinear_R by (try assumption; lia).
    replace (n - 1 + 1)%Z with n by ring. rewrite Z.mod_same by lia. reflexivity.
  Qed.

  (* matrix layout: entry [j, i] holds f(incident angle i, scattered angle j) *)
  Lemma matrix_layout_R (f : R -> R -> R) i j :
    matrix_of NumR P f n j i = f (- P + 2 * P * IZR i / IZR n) (- P + 2 * P * IZR j / IZR n).
  Proof.
    unfold matrix_of. rewrite !angle_eq, D_eq. pose proof n_pos.
    f_equal; field; lra.
  Qed.

  (* rotation by k grid steps = shifting both indices *)
  Lemma shift_floor theta k :
    theta_floor NumR P n (theta - IZR k * D) = (theta_floor NumR P n theta - k)%Z.
  Proof.
    unfold theta_floor. cbn [NumR nadd ndiv nfloor]. fold D. pose proof D_pos as HD.
    assert (E : (theta - IZR k * D + P) / D = (theta + P) / D - IZR k) by (field; lra).
    rewrite E. apply Zfloor_imp.
    pose proof (Zfloor_lb ((theta + P) / D)). pose proof (Zfloor_ub ((theta + P) / D)).
    rewrite plus_IZR, minus_IZR. simpl. lra.
  Qed.

  Lemma shift_frac theta k :
    theta_frac NumR P n (theta - IZR k * D) = theta_frac NumR P n theta.
  Proof.
    unfold theta_frac. rewrite shift_floor. cbn [NumR nadd nsub nmul ndiv nofZ]. fold D.
    rewrite minus_IZR. f_equal. ring.
  Qed.

  Lemma plus1_shift i k : (0 <= i < n)%Z ->
    ((idx_plus1 n i - k) mod n = idx_plus1 n ((i - k) mod n))%Z.
  Proof.
    intros Hi. rewrite idx_plus1_mod by assumption.
    rewrite idx_plus1_mod by (apply Z.mod_pos_bound; lia).
    rewrite Zminus_mod_idemp_l, Zplus_mod_idemp_l. f_equal. ring.
  Qed.

  Lemma rotate_commutes_R a b k :
    interp NumR P n (shift_matrix n k M) a b = interp NumR P n M (a - IZR k * D) (b - IZR k * D).
  Proof.
    unfold interp. rewrite !shift_frac. unfold theta_idx. rewrite !shift_floor.
    unfold shift_matrix.
    pose proof (Z.mod_pos_bound (theta_floor NumR P n a) n ltac:(lia)) as Ha.
    pose proof (Z.mod_pos_bound (theta_floor NumR P n b) n ltac:(lia)) as Hb.
    rewrite !plus1_shift by assumption.
    rewrite !Zminus_mod_idemp_l. reflexivity.
  Qed.
End Proofs.

(* linear interpolation in frequency reproduces the data at the sampled frequencies and
   is the straight line in between / beyond *)
Lemma lerp_nodes f0 f1 v0 v1 : f0 <> f1 ->
  lerp NumR f0 f1 v0 v1 f0 = v0 /\ lerp NumR f0 f1 v0 v1 f1 = v1.
Proof.
  intros H. unfold lerp. cbn [NumR nadd nsub nmul ndiv]. split; field; lra.
Qed.

Lemma lerp_affine f0 f1 v0 v1 f : f0 <> f1 ->
  lerp NumR f0 f1 v0 v1 f = ((f1 - f) * v0 + (f - f0) * v1) / (f1 - f0).
Proof. intros H. unfold lerp. cbn [NumR nadd nsub nmul ndiv]. field. lra. Qed.
