(* Proofs/RayGeomGlueRealProofs.v — real-number lemmas about Model/RayGeomGlue.v (C05):
   rigid motions and translations of a whole set-up leave the 15 leg quantities of every ray
   unchanged (the two gathers move with the set-up). *)
From Coq Require Import List ZArith Bool Arith Lia Reals Lra.
From Arim Require Import Base.Num Base.NumR Model.Vec3 Model.RayGeom Model.RayGeomGlue
                         Proofs.Vec3Proofs Proofs.RayGeomProofs Proofs.RayGeomRealProofs Proofs.RayGeomGlueProofs.
Import ListNotations.

(* the 17-tuple with its two gathers replaced *)
Definition with_gathers {A B C3 C4 C5 C6 C7 C8 C9 C10 C11 C12 C13 C14 C15 C16 C17 : Type} (a : A) (b : B)
  (tup : A * B * C3 * C4 * C5 * C6 * C7 * C8 * C9 * C10 * C11 * C12 * C13 * C14 * C15 * C16 * C17) :=
  let '(_, _, x3, x4, x5, x6, x7, x8, x9, x10, x11, x12, x13, x14, x15, x16, x17) := tup in
  (a, b, x3, x4, x5, x6, x7, x8, x9, x10, x11, x12, x13, x14, x15, x16, x17).

Section MovedMethods.
  Variable Q : mat3 R.
  Variable t : vec3 R.
  Hypothesis HQ : cols_orthonormal NumR Q.

  Lemma mv_difference s e :
    vsub NumR (mv_point NumR Q t s) (mv_point NumR Q t e) = mvec NumR Q (vsub NumR s e).
  Proof. unfold mv_point. rewrite vsub_vadd_same. symmetry. apply mvec_sub. Qed.

  Lemma mv_norm s e :
    norm2_acc NumR (vsub NumR (mv_point NumR Q t s) (mv_point NumR Q t e)) = norm2_acc NumR (vsub NumR s e).
  Proof. rewrite mv_difference, !norm2_acc_vnorm. unfold vnorm. rewrite mvec_norm2 by exact HQ. reflexivity. Qed.

  Lemma mv_local s e B :
    from_gcs NumR (mv_point NumR Q t s) (mv_frame NumR Q B) (mv_point NumR Q t e) = from_gcs NumR s B e.
  Proof.
    unfold from_gcs, mv_frame. rewrite mv_difference, mvec_mmul.
    rewrite <- mtvec_is_mvec_trans. rewrite mtvec_mvec by exact HQ. reflexivity.
  Qed.

  Variable nif : nat.
  Variables lp lp' : Z -> res (vec3 R).
  Variables lo lo' : Z -> res (mat3 R).
  Variables finc fout : nat -> pyval.
  Hypothesis Hlp : forall idx, lp' idx = rmap (mv_point NumR Q t) (lp idx).
  Hypothesis Hlo : forall idx, lo' idx = rmap (mv_frame NumR Q) (lo idx).

  Lemma moved_m_inc_leg_size idx : m_inc_leg_size NumR nif lp' idx = m_inc_leg_size NumR nif lp idx.
  Proof.
    unfold m_inc_leg_size. rewrite !Hlp.
    destruct (lp (idx - 1)) as [s| | |]; cbn [rmap rbind]; try reflexivity.
    destruct (lp idx) as [e| | |]; cbn [rmap rbind]; try reflexivity.
    rewrite mv_norm. reflexivity.
  Qed.

  Lemma moved_m_leg_local other here : m_leg_local NumR lp' lo' other here = m_leg_local NumR lp lo other here.
  Proof.
    unfold m_leg_local. rewrite !Hlp, Hlo.
    destruct (lp other) as [s| | |]; cbn [rmap rbind]; try reflexivity.
    destruct (lp here) as [e| | |]; cbn [rmap rbind]; try reflexivity.
    destruct (lo here) as [B| | |]; cbn [rmap rbind]; try reflexivity.
    rewrite mv_local. reflexivity.
  Qed.

  Lemma moved_m_all idx :
    m_all NumR nif lp' lo' finc fout idx =
    with_gathers (rmap (mv_point NumR Q t) (lp idx)) (rmap (mv_frame NumR Q) (lo idx)) (m_all NumR nif lp lo finc fout idx).
  Proof.
    assert (Hic : m_inc_leg_cartesian NumR nif lp' lo' idx = m_inc_leg_cartesian NumR nif lp lo idx).
    { unfold m_inc_leg_cartesian. rewrite moved_m_leg_local. reflexivity. }
    assert (Hoc : m_out_leg_cartesian NumR nif lp' lo' idx = m_out_leg_cartesian NumR nif lp lo idx).
    { unfold m_out_leg_cartesian. rewrite moved_m_leg_local. reflexivity. }
    unfold m_all, with_gathers, m_inc_angle, m_out_angle, m_signed_inc_angle, m_signed_out_angle, m_inc_leg_azimuth,
      m_out_leg_azimuth, m_conventional_inc_angle, m_conventional_out_angle, m_inc_leg_polar, m_out_leg_polar,
      m_inc_leg_radius, m_out_leg_radius.
    rewrite Hic, Hoc, moved_m_inc_leg_size, Hlp, Hlo. reflexivity.
  Qed.
End MovedMethods.

(* ---- on the objects ------------------------------------------------------------------------------- *)
Section MovedObjects.
  Variable Q : mat3 R.
  Variable t : vec3 R.
  Hypothesis HQ : cols_orthonormal NumR Q.
  Variable ifs : list (interface (T:=R)).
  Variable col : list Z.
  Local Notation ifs' := (map (mv_interface NumR Q t) ifs).

  Lemma moved_gatherZ {X} (field : interface (T:=R) -> list X) (h : X -> X) idx :
    (forall f, field (mv_interface NumR Q t f) = map h (field f)) ->
    gatherZ ifs' col field idx = rmap h (gatherZ ifs col field idx).
  Proof.
    intros Hf. unfold gatherZ. rewrite map_length.
    destruct (resolve (length ifs) idx) as [a|]; [|reflexivity].
    rewrite nth_error_map. destruct (nth_error ifs a) as [f|]; [|reflexivity]. cbn [option_map of_opt rbind rmap].
    destruct (resolve (length col) idx) as [b|]; [|reflexivity]. cbn [of_opt rbind].
    destruct (nth_error col b) as [z|]; [|reflexivity]. cbn [of_opt rbind].
    rewrite Hf, map_length. destruct (resolve (length (field f)) z) as [p|]; [|reflexivity]. cbn [of_opt rbind].
    rewrite nth_error_map. destruct (nth_error (field f) p); reflexivity.
  Qed.

  (* all points p -> Q.p + t, all frames B -> B.Q^T: leg_points and the frames move along, the
     other 15 answers are unchanged *)
  Lemma o_all_rigid_motion idx :
    o_all NumR ifs' col idx =
    with_gathers (rmap (mv_point NumR Q t) (o_leg_points ifs col idx)) (rmap (mv_frame NumR Q) (o_orientations ifs col idx))
                 (o_all NumR ifs col idx).
  Proof.
    unfold o_all. rewrite map_length.
    rewrite <- (moved_m_all Q t HQ (length ifs) (o_leg_points ifs col) (o_leg_points ifs' col)
                 (o_orientations ifs col) (o_orientations ifs' col) (o_flag ifs i_inc) (o_flag ifs i_out)).
    - apply m_all_ext; try reflexivity.
      + intros a _. unfold o_flag. rewrite nth_error_map. destruct (nth_error ifs a); reflexivity.
      + intros a _. unfold o_flag. rewrite nth_error_map. destruct (nth_error ifs a); reflexivity.
    - intros i. unfold o_leg_points. apply moved_gatherZ. reflexivity.
    - intros i. unfold o_orientations. apply moved_gatherZ. reflexivity.
  Qed.
End MovedObjects.

(* ---- translation = rigid motion with the identity ------------------------------------------------- *)
Lemma mid3_cols_orthonormal : cols_orthonormal NumR (mid3 NumR).
Proof. v3_start. v3_split; ring. Qed.

Lemma mv_point_id t p : mv_point NumR (mid3 NumR) t p = vadd NumR p t.
Proof. unfold mv_point. v3_start. v3_split; ring. Qed.

Lemma mv_frame_id B : mv_frame NumR (mid3 NumR) B = B.
Proof. unfold mv_frame. v3_start. v3_split; ring. Qed.

Lemma mv_interface_identity t (f : interface (T:=R)) :
  mv_interface NumR (mid3 NumR) t f = translate_interface NumR t f.
Proof.
  unfold mv_interface, translate_interface. f_equal.
  - f_equal. apply map_ext. intros p. apply mv_point_id.
  - rewrite <- (map_id (i_orient f)) at 2. apply map_ext. intros B. apply mv_frame_id.
Qed.

Lemma o_all_translation t (ifs : list (interface (T:=R))) col idx :
  o_all NumR (map (translate_interface NumR t) ifs) col idx =
  with_gathers (rmap (fun p => vadd NumR p t) (o_leg_points ifs col idx)) (o_orientations ifs col idx)
               (o_all NumR ifs col idx).
Proof.
  rewrite <- (map_ext _ _ (mv_interface_identity t)).
  rewrite (o_all_rigid_motion (mid3 NumR) t mid3_cols_orthonormal).
  f_equal.
  - destruct (o_leg_points ifs col idx) as [p| | |]; cbn [rmap rbind]; try reflexivity.
    f_equal. apply mv_point_id.
  - destruct (o_orientations ifs col idx) as [B| | |]; cbn [rmap rbind]; try reflexivity.
    f_equal. apply mv_frame_id.
Qed.

(* ---- the theorems of Props/C05.v read on the objects (two instances of the transfer) ---------- *)
Lemma o_leg_size_is_distance (ifs : list (interface (T:=R))) col :
  length col = length ifs -> Forall interface_wf ifs ->
  forall idx a s e, resolve (length ifs) idx = Some (S a) ->
  ray_point (map to_iface ifs) (normalise ifs col) a = Some s ->
  ray_point (map to_iface ifs) (normalise ifs col) (S a) = Some e ->
  o_inc_leg_size NumR ifs col idx = Val (euclid s e).
Proof.
  intros Hl Hwf idx a s e Hr Hs He.
  pose proof (o_all_refines NumR ifs col Hl Hwf idx) as H. unfold o_all, m_all, core_all in H.
  assert (Hl0 : length (normalise ifs col) = length (map to_iface ifs)) by (rewrite normalise_length, map_length; exact Hl).
  assert (Hr' : resolve (length (map to_iface ifs)) idx = Some (S a)) by (rewrite map_length; exact Hr).
  pose proof (leg_size_is_distance_R (map to_iface ifs) (normalise ifs col) Hl0 idx a s e Hr' Hs He) as HL.
  unfold o_inc_leg_size. rewrite <- HL. congruence.
Qed.

Lemma o_polar_range (ifs : list (interface (T:=R))) col idx theta :
  (o_inc_leg_polar NumR ifs col idx = Val theta -> (0 <= theta <= PI)%R) /\
  (o_out_leg_polar NumR ifs col idx = Val theta -> (0 <= theta <= PI)%R).
Proof.
  split.
  - unfold o_inc_leg_polar, m_inc_leg_polar, m_inc_leg_radius.
    destruct (m_inc_leg_cartesian NumR (length ifs) (o_leg_points ifs col) (o_orientations ifs col) idx) as [c| | |];
      cbn [rmap rbind]; try discriminate.
    intros H. injection H as <-. apply sph_theta_range.
  - unfold o_out_leg_polar, m_out_leg_polar, m_out_leg_radius.
    destruct (m_out_leg_cartesian NumR (length ifs) (o_leg_points ifs col) (o_orientations ifs col) idx) as [c| | |];
      cbn [rmap rbind]; try discriminate.
    intros H. injection H as <-. apply sph_theta_range.
Qed.
