(* Proofs/DasGlueRealProofs.v — Model/DasGlue.v over the reals (C02): a call that returns a mean image
   returns das_spec; every kernel (geomed and Huber included) is invariant under a reordering of the
   timetraces; normalisation (division by numtimetraces). *)
From Coq Require Import Ascii String.
From Coq Require Import List Reals Lra Lia ZArith Bool Permutation.
From Flocq Require Import Core.Raux.
From Arim Require Import Base.Num Base.NumR Model.Das Model.Robust Model.DasGlue
     Proofs.DasProofs Proofs.RobustProofs Proofs.DasGlueProofs.
Import ListNotations.
Local Open Scope R_scope.

(* ==========================================================================
   1. the robust solvers do not depend on the order of the data *)
Lemma fold_left_comm_perm {A B} (f : A -> B -> A) :
  (forall a x y, f (f a x) y = f (f a y) x) ->
  forall l l', Permutation l l' -> forall a, fold_left f l a = fold_left f l' a.
Proof.
  intros Hc l l' HP. induction HP as [|x l l' _ IH|x y l|l1 l2 l3 _ IH1 _ IH2]; intros a0; cbn [fold_left].
  - reflexivity.
  - apply IH.
  - now rewrite Hc.
  - now rewrite IH1.
Qed.

Ltac tuple_eq := repeat match goal with |- (_, _) = (_, _) => f_equal end.

Lemma geomed_f_perm data data' z : Permutation data data' -> geomed_f NumR data z = geomed_f NumR data' z.
Proof.
  intros HP. unfold geomed_f. apply fold_left_comm_perm; [|exact HP].
  intros a x y. numr. ring.
Qed.

Lemma grad_hess_perm data data' z : Permutation data data' -> grad_hess NumR data z = grad_hess NumR data' z.
Proof.
  intros HP. unfold grad_hess. apply fold_left_comm_perm; [|exact HP].
  intros [[[[gx gy] a11] a12] a22] x y. unfold grad_hess_step. numr. tuple_eq; ring.
Qed.

Lemma gradf_and_inv_hessf_perm data data' z : Permutation data data' ->
  gradf_and_inv_hessf NumR data z = gradf_and_inv_hessf NumR data' z.
Proof. intros HP. unfold gradf_and_inv_hessf. now rewrite (grad_hess_perm data data' z HP). Qed.

Lemma backtrack_perm fuel data data' x g p rho c fval alpha : Permutation data data' ->
  backtrack NumR fuel data x g p rho c fval alpha = backtrack NumR fuel data' x g p rho c fval alpha.
Proof.
  intros HP. revert alpha. induction fuel as [|fuel IH]; intros alpha; cbn [backtrack]; [reflexivity|].
  rewrite (geomed_f_perm data data' _ HP). destruct (nltb NumR _ _); [apply IH|reflexivity].
Qed.

Lemma geomed_step_perm data data' rho c xk : Permutation data data' ->
  geomed_step NumR data rho c xk = geomed_step NumR data' rho c xk.
Proof.
  intros HP. unfold geomed_step, backtracking_line_search.
  rewrite (gradf_and_inv_hessf_perm data data' xk HP).
  destruct (gradf_and_inv_hessf NumR data' xk) as [[[[gx gy] i11] i12] i22].
  now rewrite (geomed_f_perm data data' xk HP), (backtrack_perm 1000 data data' _ _ _ _ _ _ _ HP).
Qed.

Lemma geomed_loop_perm fuel data data' xtol rho c : Permutation data data' ->
  forall xk l1 k, geomed_loop NumR fuel data xtol rho c xk l1 k = geomed_loop NumR fuel data' xtol rho c xk l1 k.
Proof.
  intros HP. induction fuel as [|fuel IH]; intros xk l1 k; cbn [geomed_loop]; [reflexivity|].
  destruct (nltb NumR xtol l1); [|reflexivity].
  rewrite (geomed_step_perm data data' rho c xk HP).
  destruct (geomed_step NumR data' rho c xk) as [[xk' l1']|]; [apply IH|reflexivity].
Qed.

Lemma geomed_perm data data' xtol maxiter c rho : Permutation data data' ->
  geomed NumR data xtol maxiter c rho = geomed NumR data' xtol maxiter c rho.
Proof. intros HP. unfold geomed. now apply geomed_loop_perm. Qed.

Lemma huber_sums_perm data data' tau z : Permutation data data' ->
  huber_sums NumR data tau z = huber_sums NumR data' tau z.
Proof.
  intros HP. unfold huber_sums. apply fold_left_comm_perm; [|exact HP].
  intros [[sw x] y] d1 d2. numr. tuple_eq; ring.
Qed.

Lemma huber_loop_perm fuel data data' tau xtol : Permutation data data' ->
  forall zk l1 k, huber_loop NumR fuel data tau xtol zk l1 k = huber_loop NumR fuel data' tau xtol zk l1 k.
Proof.
  intros HP. induction fuel as [|fuel IH]; intros zk l1 k; cbn [huber_loop]; [reflexivity|].
  destruct (nltb NumR xtol l1); [|reflexivity].
  unfold huber_iter. rewrite (huber_sums_perm data data' tau zk HP). apply IH.
Qed.

Lemma huber_perm data data' tau xtol maxiter : Permutation data data' ->
  huber_m_estimate NumR data tau xtol maxiter = huber_m_estimate NumR data' tau xtol maxiter.
Proof. intros HP. unfold huber_m_estimate. now apply huber_loop_perm. Qed.

(* ==========================================================================
   2. list facts *)
Lemma forallb_perm {A} (f : A -> bool) l l' : Permutation l l' -> forallb f l = forallb f l'.
Proof.
  induction 1 as [|x l l' _ IH|x y l|l1 l2 l3 _ IH1 _ IH2]; cbn [forallb].
  - reflexivity.
  - now rewrite IH.
  - destruct (f x), (f y); reflexivity.
  - now rewrite IH1.
Qed.

Lemma forallb_ext' {A} (f g : A -> bool) l : (forall x, f x = g x) -> forallb f l = forallb g l.
Proof. intros H. induction l as [|x l IH]; cbn [forallb]; [reflexivity|]. now rewrite H, IH. Qed.

Lemma map_fst_combine {A B} (l : list A) (l' : list B) : length l' = length l -> map fst (combine l l') = l.
Proof.
  revert l'. induction l as [|x l IH]; intros [|y l'] H; try discriminate; cbn [combine map fst]; [reflexivity|].
  f_equal. apply IH. now injection H.
Qed.

Lemma combine_map_l {A A' B} (f : A -> A') (l : list A) (l' : list B) :
  combine (map f l) l' = map (fun p => (f (fst p), snd p)) (combine l l').
Proof.
  revert l'. induction l as [|x l IH]; intros [|y l']; cbn [map combine fst snd]; try reflexivity.
  now rewrite IH.
Qed.

(* ==========================================================================
   3. the call over the reals *)
(* the weight applied to each timetrace: 1 without weights, the broadcast value otherwise *)
Definition applied_weights (w : option (list R)) (n : nat) : list R :=
  eff_weights NumR (effective_weights NumR w n) n.

Lemma applied_weights_closed w n :
  applied_weights w n = match w with
                        | None => repeat 1 n
                        | Some ws => if (length ws =? n)%nat then ws else repeat (hd 0 ws) n
                        end.
Proof.
  unfold applied_weights, effective_weights, eff_weights. destruct w as [ws|]; [|reflexivity].
  destruct (length ws =? n)%nat; reflexivity.
Qed.

Lemma applied_weights_length w n : length (applied_weights w n) = n.
Proof.
  rewrite applied_weights_closed. destruct w as [ws|]; [|apply repeat_length].
  destruct (Nat.eqb_spec (length ws) n); [assumption|apply repeat_length].
Qed.

Definition with_amp_of (k : ctl) : bool := match k_amp k with AmpTxRx => true | _ => false end.

Local Opaque geomed huber_m_estimate.

Section RealCall.
  Context {D : Type} (V : Data R D) (L : DataLaws V) (view2 : D -> R * R).

  Lemma effective_weights_fit {D'} w (ss : list (scan D')) :
    weights_ok (effective_weights NumR w (length ss)) ss = true.
  Proof.
    unfold weights_ok, effective_weights. destruct w as [ws|]; [|reflexivity].
    destruct (length ws =? length ss)%nat eqn:E; [exact E|]. rewrite repeat_length. apply Nat.eqb_refl.
  Qed.

  Lemma apply_weights_wscan {D'} (V' : Data R D') (L' : DataLaws V') w (ss : list (scan D')) :
    apply_weights NumR V' w ss = map (wscan V') (combine ss (applied_weights w (length ss))).
  Proof.
    pose proof (apply_weights_eq NumR V' w ss) as H.
    rewrite (weigh_timetraces_eff V' L'), effective_weights_fit in H. now injection H.
  Qed.

  (* ---- a returned mean image IS the definition ------------------------------------------ *)
  Lemma das_call_mean_is_spec k xtol c rho ns dt t0 fill interp aggr w rows ss result out g img :
    das_call NumR V view2 k xtol c rho ns dt t0 fill interp aggr w rows ss result = OMean out g img ->
    img = das_spec NumR V (scheme_of interp) (with_amp_of k) ns dt t0 fill
                   (effective_weights NumR w (length ss)) rows ss.
  Proof.
    intros H. apply das_call_mean_is_kernel in H. destruct H as (Hm & Hl & Hk).
    unfold mean_image, with_amp_of in *. destruct (k_amp k); [| |contradiction].
    - rewrite (das_amp_spec_gen V L), effective_weights_fit in Hm.
      destruct (scheme_of interp) as [| |a]; [| |now contradiction (Hl eq_refl a)]; now injection Hm.
    - rewrite (das_noamp_spec_gen V L), effective_weights_fit in Hm. now injection Hm.
  Qed.

  (* ---- reordering of the timetraces ------------------------------------------------------ *)
  Lemma accumulate_perm (term : scan D -> D) l l' : Permutation l l' ->
    accumulate NumR V term l = accumulate NumR V term l'.
  Proof.
    intros HP. unfold accumulate. rewrite !(fold_add_dsum0 V L), (Permutation_length HP).
    f_equal. apply (dsum_perm V L). now apply Permutation_map.
  Qed.

  Lemma mean_pixel_perm kn a ns dt t0 fill wss wss' r : Permutation wss wss' ->
    mean_pixel NumR V kn a ns dt t0 fill wss r = mean_pixel NumR V kn a ns dt t0 fill wss' r.
  Proof. intros HP. unfold mean_pixel. destruct kn; try reflexivity; now apply accumulate_perm. Qed.

  Lemma robust_pixel_perm kn a tau xtol c rho ns dt t0 fill wss wss' r : Permutation wss wss' ->
    robust_pixel NumR kn a tau xtol c rho ns dt t0 fill wss r
    = robust_pixel NumR kn a tau xtol c rho ns dt t0 fill wss' r.
  Proof.
    intros HP. unfold robust_pixel. destruct kn; [reflexivity|reflexivity|reflexivity|reflexivity|reflexivity| | |].
    - rewrite !median_nearest_samples_eq. apply (f_equal res_point). apply geomed_perm. now apply Permutation_map.
    - rewrite !median_lanczos_samples_eq. apply (f_equal res_point). apply geomed_perm. now apply Permutation_map.
    - rewrite !huber_lanczos_samples_eq. apply (f_equal res_point). apply huber_perm. now apply Permutation_map.
  Qed.

  Lemma das_call_permutation k xtol c rho ns dt t0 fill interp aggr w w' rows ss ss' result :
    Permutation (combine ss (applied_weights w (length ss))) (combine ss' (applied_weights w' (length ss'))) ->
    option_map (@length R) w = option_map (@length R) w' ->
    das_call NumR V view2 k xtol c rho ns dt t0 fill interp aggr w rows ss result
    = das_call NumR V view2 k xtol c rho ns dt t0 fill interp aggr w' rows ss' result.
  Proof.
    intros HP Hw.
    assert (Hlen : length ss = length ss').
    { apply Permutation_length in HP. rewrite !combine_length, !applied_weights_length, !Nat.min_id in HP. exact HP. }
    assert (Hss : Permutation ss ss').
    { apply (Permutation_map fst) in HP.
      now rewrite !map_fst_combine in HP by apply applied_weights_length. }
    rewrite !das_call_nf.
    assert (Hd : describe k ns interp aggr w rows ss result = describe k ns interp aggr w' rows ss' result).
    { unfold describe. rewrite Hlen. destruct w as [ws|], w' as [ws'|]; try discriminate Hw; [|reflexivity].
      cbn [option_map] in *. injection Hw as ->. reflexivity. }
    rewrite Hd. destruct (plan _) as [e|u|kn out given]; try reflexivity.
    assert (Hi : indices_ok (is_amp_kernel kn) rows ss = indices_ok (is_amp_kernel kn) rows ss').
    { unfold indices_ok. apply forallb_ext'. intros r. now apply forallb_perm. }
    rewrite Hi. destruct (negb _); [reflexivity|].
    unfold kernel_out. destruct (is_robust kn).
    - f_equal. apply map_ext. intros r. apply robust_pixel_perm.
      rewrite !(apply_weights_wscan _ DataCplx_laws), !map_length, !combine_map_l.
      apply Permutation_map. now apply Permutation_map.
    - f_equal. apply map_ext. intros r. apply mean_pixel_perm.
      rewrite !(apply_weights_wscan V L). now apply Permutation_map.
  Qed.
End RealCall.

(* ==========================================================================
   4. normalisation: the division by numtimetraces *)
Section Normalisation.
  Context {D : Type} (V : Data R D) (L : DataLaws V).

  Lemma dsum_repeat (v : D) n : dsum V (repeat v n) = dscale V (IZR (Z.of_nat n)) v.
  Proof.
    induction n as [|n IH].
    - cbn [repeat dsum fold_right Z.of_nat]. symmetry. apply (dl_scale_zero V L).
    - cbn [repeat dsum fold_right]. fold (dsum V (repeat v n)). rewrite IH, Nat2Z.inj_succ, succ_IZR.
      rewrite (Rplus_comm _ 1), (dl_scale_plus V L), (dl_scale_1 V L). reflexivity.
  Qed.

  Lemma map_const_repeat {A B} (f : A -> B) (v : B) l : (forall x, In x l -> f x = v) -> map f l = repeat v (length l).
  Proof.
    induction l as [|x l IH]; intros H; cbn [map length repeat]; [reflexivity|].
    rewrite (H x (or_introl eq_refl)), IH; [reflexivity|]. intros y Hy. apply H. now right.
  Qed.

  (* every summand equal to v: the pixel is v (N >= 1 timetraces) *)
  Lemma das_spec_point_const sc b ns dt t0 fill w ss r v :
    ss <> [] -> weights_ok w ss = true ->
    (forall sw, In sw (combine ss (eff_weights NumR w (length ss))) -> spec_term NumR V sc b ns dt t0 fill r sw = v) ->
    das_spec_point NumR V sc b ns dt t0 fill w ss r = v.
  Proof.
    intros Hne Hw Hall. unfold das_spec_point.
    rewrite (map_const_repeat _ v _ Hall), dsum_repeat, combine_length, (eff_weights_length w ss Hw), Nat.min_id.
    rewrite (dl_scale_scale V L). numr.
    assert (Hn : IZR (Z.of_nat (length ss)) <> 0).
    { destruct ss; [congruence|]. apply not_0_IZR. cbn [length]. lia. }
    replace (1 / IZR (Z.of_nat (length ss)) * IZR (Z.of_nat (length ss))) with 1 by (field; exact Hn).
    apply (dl_scale_1 V L).
  Qed.

  (* every lookup outside the recorded window: the pixel is the bare fill value, with or without
     amplitudes and weights *)
  Lemma das_spec_point_all_outside sc b ns dt t0 fill w ss r :
    ss <> [] -> weights_ok w ss = true ->
    (forall s, In s ss -> in_window NumR sc ns (position NumR dt t0 r s) = false) ->
    das_spec_point NumR V sc b ns dt t0 fill w ss r = fill.
  Proof.
    intros Hne Hw Hout. apply das_spec_point_const; try assumption.
    intros [s wk] Hin. apply in_combine_l in Hin. unfold spec_term. cbn [fst snd]. now rewrite (Hout s Hin).
  Qed.

  Lemma nth_repeat_lt {A} (c d : A) i n : (i < n)%nat -> nth i (repeat c n) d = c.
  Proof. revert i. induction n as [|n IH]; intros [|i] H; cbn [repeat nth]; try lia; [reflexivity|apply IH; lia]. Qed.

  Lemma sample_const (c : D) ns i : (0 <= i < ns)%Z -> sample V (repeat c (Z.to_nat ns)) i = c.
  Proof. intros H. unfold sample. apply nth_repeat_lt. lia. Qed.

  (* nearest / linear reading of a constant timetrace inside the window: the constant *)
  Lemma interp_const sc ns (c : D) l : (forall a, sc <> Lanczos a) ->
    in_window NumR sc ns l = true -> interp NumR V sc ns (repeat c (Z.to_nat ns)) l = c.
  Proof.
    intros Hsc Hin. destruct sc as [| |a]; [| |now contradiction (Hsc a)]; cbn [in_window interp] in *.
    - apply andb_true_iff in Hin. destruct Hin as [H0 H1]. apply Z.leb_le in H0. apply Z.ltb_lt in H1.
      apply sample_const. lia.
    - revert Hin. numr. intros Hin. apply andb_true_iff in Hin. destruct Hin as [H0 H1].
      destruct (Rle_bool_spec 0 l) as [H0'|]; [|discriminate].
      destruct (Rlt_bool_spec l (IZR (ns - 1))) as [H1'|]; [|discriminate].
      assert (Hf0 : (0 <= Zfloor l)%Z) by (apply Zfloor_lub; exact H0').
      assert (Hf1 : (Zfloor l < ns - 1)%Z) by (apply lt_IZR; pose proof (Zfloor_lb l); lra).
      rewrite !sample_const by lia. rewrite <- (dl_scale_plus V L).
      replace (1 - (l - IZR (Zfloor l)) + (l - IZR (Zfloor l))) with 1 by ring. apply (dl_scale_1 V L).
  Qed.

  (* unit DC gain: constant timetraces, no weights, no amplitudes, every lookup inside the window *)
  Lemma das_spec_point_dc_gain sc ns dt t0 fill ss r (c : D) :
    ss <> [] -> (forall a, sc <> Lanczos a) ->
    (forall s, In s ss -> s_x s = repeat c (Z.to_nat ns) /\ in_window NumR sc ns (position NumR dt t0 r s) = true) ->
    das_spec_point NumR V sc false ns dt t0 fill None ss r = c.
  Proof.
    intros Hne Hsc Hall. apply das_spec_point_const; try assumption; [reflexivity|].
    intros [s wk] Hin. pose proof (in_combine_l _ _ _ _ Hin) as Hs. apply in_combine_r in Hin.
    cbn [eff_weights] in Hin. apply repeat_spec in Hin. subst wk.
    destruct (Hall s Hs) as [Hx Hw]. unfold spec_term. cbn [fst snd]. rewrite Hw, Hx, (interp_const sc ns c _ Hsc Hw).
    numr. apply (dl_scale_1 V L).
  Qed.
End Normalisation.

Section NormalisationCall.
  Context {D : Type} (V : Data R D) (L : DataLaws V) (view2 : D -> R * R).

  Lemma das_spec_map_const sc b ns dt t0 fill w rows ss v :
    (forall r, In r rows -> das_spec_point NumR V sc b ns dt t0 fill w ss r = v) ->
    das_spec NumR V sc b ns dt t0 fill w rows ss = map (fun _ => v) rows.
  Proof. intros H. unfold das_spec. apply map_ext_in. exact H. Qed.

  (* through the dispatcher: a focal law wholly outside the recorded window gives the fill value everywhere *)
  Lemma das_call_all_outside k xtol c rho ns dt t0 fill interp aggr w rows ss result out g img :
    das_call NumR V view2 k xtol c rho ns dt t0 fill interp aggr w rows ss result = OMean out g img ->
    ss <> [] ->
    (forall r s, In r rows -> In s ss -> in_window NumR (scheme_of interp) ns (position NumR dt t0 r s) = false) ->
    img = map (fun _ => fill) rows.
  Proof.
    intros H Hne Hout. rewrite (das_call_mean_is_spec V L view2 _ _ _ _ _ _ _ _ _ _ _ _ _ _ _ _ _ H).
    apply das_spec_map_const. intros r Hr. apply (das_spec_point_all_outside V L); try assumption.
    - apply effective_weights_fit.
    - intros s Hs. now apply Hout.
  Qed.

  (* ... and constant timetraces (no weights, no amplitudes, every lookup inside) give the constant *)
  Lemma das_call_dc_gain k xtol c rho ns dt t0 fill interp aggr rows ss result out g img (v : D) :
    das_call NumR V view2 k xtol c rho ns dt t0 fill interp aggr None rows ss result = OMean out g img ->
    ss <> [] -> k_amp k = AmpNone -> (forall a, scheme_of interp <> Lanczos a) ->
    (forall r s, In r rows -> In s ss ->
       s_x s = repeat v (Z.to_nat ns) /\ in_window NumR (scheme_of interp) ns (position NumR dt t0 r s) = true) ->
    img = map (fun _ => v) rows.
  Proof.
    intros H Hne Hk Hsc Hall. rewrite (das_call_mean_is_spec V L view2 _ _ _ _ _ _ _ _ _ _ _ _ _ _ _ _ _ H).
    unfold with_amp_of. rewrite Hk. cbn [effective_weights].
    apply das_spec_map_const. intros r Hr. apply (das_spec_point_dc_gain V L); try assumption.
    intros s Hs. now apply Hall.
  Qed.
End NormalisationCall.
