(* Proofs/CacheProofs.v — lemmas about Model/Cache.v (C14). Axiom-free. *)
From Coq Require Import ZArith List Bool Lia.
From Arim Require Import Model.Cache.
Import ListNotations.
Open Scope Z_scope.

(* ------------------------------------------------------------------ *)
(* lists                                                               *)
Lemma upd_length {A} (l : list A) i x : length (upd l i x) = length l.
Proof. revert i; induction l as [|y l IH]; intros [|i]; cbn; auto. Qed.

Lemma nth_error_upd_same {A} (l : list A) i x y :
  nth_error l i = Some y -> nth_error (upd l i x) i = Some x.
Proof. revert i; induction l as [|z l IH]; intros [|i]; cbn; try discriminate; auto. Qed.

Lemma nth_error_upd_other {A} (l : list A) i j x :
  i <> j -> nth_error (upd l i x) j = nth_error l j.
Proof.
  revert i j; induction l as [|z l IH]; intros [|i] [|j] Hne; cbn; auto; try congruence.
Qed.

Lemma nth_error_seq_map n k :
  (k < n)%nat -> nth_error (map Z.of_nat (seq 0 n)) k = Some (Z.of_nat k).
Proof.
  intros Hk. rewrite nth_error_map.
  replace (nth_error (seq 0 n) k) with (Some (0 + k)%nat); [reflexivity|].
  symmetry. rewrite nth_error_nth' with (d := O) by (rewrite seq_length; lia).
  rewrite seq_nth by lia. reflexivity.
Qed.

Lemma nth_error_combine {A B} (l1 : list A) (l2 : list B) k x y :
  nth_error l1 k = Some x -> nth_error l2 k = Some y -> nth_error (combine l1 l2) k = Some (x, y).
Proof.
  revert l2 k; induction l1 as [|a l1 IH]; intros [|b l2] [|k]; cbn; try discriminate.
  - intros [= ->] [= ->]. reflexivity.
  - apply IH.
Qed.

(* ------------------------------------------------------------------ *)
(* keys                                                                *)
Lemma meth_code_inj a b : meth_code a = meth_code b -> a = b.
Proof. destruct a, b; cbn; intros H; try reflexivity; discriminate. Qed.

Lemma key_eqb_eq a b : key_eqb a b = true <-> a = b.
Proof.
  destruct a as [m i], b as [m' i']. unfold key_eqb, meth_eqb. cbn [fst snd].
  rewrite andb_true_iff, !Z.eqb_eq. split.
  - intros [H1 H2]. apply meth_code_inj in H1. congruence.
  - intros [= -> ->]. auto.
Qed.

Lemma key_eqb_refl a : key_eqb a a = true.
Proof. apply key_eqb_eq. reflexivity. Qed.

Lemma key_eqb_neq a b : key_eqb a b = false <-> a <> b.
Proof.
  split.
  - intros H E. apply key_eqb_eq in E. congruence.
  - intros H. destruct (key_eqb a b) eqn:E; auto. apply key_eqb_eq in E. contradiction.
Qed.

Lemma mem_key_In k l : mem_key k l = true <-> In k l.
Proof.
  unfold mem_key. rewrite existsb_exists. split.
  - intros (x & Hin & E). apply key_eqb_eq in E. subst. auto.
  - intros H. exists k. split; auto. apply key_eqb_refl.
Qed.

Lemma lookup_In k c v : lookup k c = Some v -> In (k, v) c.
Proof.
  induction c as [|[k' v'] c IH]; cbn; [discriminate|].
  destruct (key_eqb k k') eqn:E.
  - intros [= ->]. apply key_eqb_eq in E. subst. auto.
  - auto.
Qed.

Lemma lookup_filter_true k c (p : key -> bool) :
  p k = true -> lookup k (filter (fun kv => p (fst kv)) c) = lookup k c.
Proof.
  intros Hp. induction c as [|[k' v'] c IH]; cbn; auto.
  destruct (key_eqb k k') eqn:E.
  - apply key_eqb_eq in E. subst k'. rewrite Hp. cbn. rewrite key_eqb_refl. reflexivity.
  - destruct (p k'); cbn; [rewrite E|]; auto.
Qed.

Lemma lookup_filter_false k c (p : key -> bool) :
  p k = false -> lookup k (filter (fun kv => p (fst kv)) c) = None.
Proof.
  intros Hp. induction c as [|[k' v'] c IH]; cbn; auto.
  destruct (p k') eqn:E'; cbn; auto.
  destruct (key_eqb k k') eqn:E; auto.
  apply key_eqb_eq in E. subst. congruence.
Qed.

(* ------------------------------------------------------------------ *)
Section Proofs.
  Variable ifs : list iface.
  Variable use_cache : bool.

  Local Notation numif := (numif ifs).
  Local Notation resolved := (resolved ifs).
  Local Notation resolve := (resolve ifs).
  Local Notation spec := (spec ifs).
  Local Notation spec_at := (spec_at ifs).
  Local Notation call := (call ifs use_cache).
  Local Notation wrapper := (wrapper ifs use_cache).

  (* ---- Python indexing of the three sequences = the formula `resolved` ---- *)
  Lemma indices_length : length (indices ifs) = length ifs.
  Proof. unfold indices. rewrite map_length, seq_length. reflexivity. Qed.

  Lemma resolved_range raw a : resolved raw = Some a -> 0 <= a < numif.
  Proof.
    unfold Cache.resolved. destruct ((0 <=? raw) && (raw <? numif)) eqn:E1.
    - intros [= <-]. apply andb_true_iff in E1. lia.
    - destruct ((- numif <=? raw) && (raw <? 0)) eqn:E2; [|discriminate].
      intros [= <-]. apply andb_true_iff in E2. lia.
  Qed.

  Lemma resolve_eq raw : resolve raw = resolved raw.
  Proof.
    unfold Cache.resolve, Cache.resolved, py_get. rewrite indices_length.
    fold numif. unfold Cache.numif.
    destruct ((0 <=? raw) && (raw <? Z.of_nat (length ifs))) eqn:E1.
    - apply andb_true_iff in E1. unfold indices. rewrite nth_error_seq_map by lia.
      f_equal. lia.
    - destruct ((- Z.of_nat (length ifs) <=? raw) && (raw <? 0)) eqn:E2; [|reflexivity].
      apply andb_true_iff in E2. unfold indices. rewrite nth_error_seq_map by lia.
      f_equal. lia.
  Qed.

  Lemma rays_row_eq raw : rays_row ifs raw = resolved raw.
  Proof. apply resolve_eq. Qed.

  Lemma get_iface_eq raw a :
    resolved raw = Some a ->
    exists i, nth_error ifs (Z.to_nat a) = Some i /\ get_iface ifs raw = Some (a, i).
  Proof.
    intros Hr. pose proof (resolved_range _ _ Hr) as Ha. unfold Cache.numif in Ha.
    destruct (nth_error ifs (Z.to_nat a)) as [i|] eqn:Ei.
    2:{ apply nth_error_None in Ei. lia. }
    exists i. split; [reflexivity|].
    assert (Hidx : nth_error (indices ifs) (Z.to_nat a) = Some a).
    { unfold indices. rewrite nth_error_seq_map by lia. f_equal. lia. }
    pose proof (nth_error_combine _ _ _ _ _ Hidx Ei) as Hc.
    unfold get_iface, py_get. rewrite combine_length, indices_length, Nat.min_id.
    revert Hr. unfold Cache.resolved, Cache.numif.
    destruct ((0 <=? raw) && (raw <? Z.of_nat (length ifs))) eqn:E1.
    - intros [= ->]. exact Hc.
    - destruct ((- Z.of_nat (length ifs) <=? raw) && (raw <? 0)) eqn:E2; [|discriminate].
      intros [= <-]. exact Hc.
  Qed.

  Lemma get_iface_none raw : resolved raw = None -> get_iface ifs raw = None.
  Proof.
    unfold get_iface, py_get, Cache.resolved, Cache.numif.
    rewrite combine_length, indices_length, Nat.min_id.
    destruct ((0 <=? raw) && (raw <? Z.of_nat (length ifs))); [discriminate|].
    destruct ((- Z.of_nat (length ifs) <=? raw) && (raw <? 0)); [discriminate|]. reflexivity.
  Qed.

  Lemma resolved_pred raw a : resolved raw = Some a -> a <> 0 -> resolved (raw - 1) = Some (a - 1).
  Proof.
    unfold Cache.resolved. intros H Hne.
    destruct ((0 <=? raw) && (raw <? numif)) eqn:E1.
    - injection H as <-. apply andb_true_iff in E1.
      replace ((0 <=? raw - 1) && (raw - 1 <? numif)) with true; [reflexivity|].
      symmetry. apply andb_true_iff. lia.
    - destruct ((- numif <=? raw) && (raw <? 0)) eqn:E2; [|discriminate].
      injection H as <-. apply andb_true_iff in E2.
      replace ((0 <=? raw - 1) && (raw - 1 <? numif)) with false.
      2:{ symmetry. apply andb_false_iff. lia. }
      replace ((- numif <=? raw - 1) && (raw - 1 <? 0)) with true.
      2:{ symmetry. apply andb_true_iff. lia. }
      f_equal. lia.
  Qed.

  Lemma resolved_succ raw a :
    resolved raw = Some a -> a <> numif - 1 -> resolved (raw + 1) = Some (a + 1).
  Proof.
    unfold Cache.resolved. intros H Hne.
    destruct ((0 <=? raw) && (raw <? numif)) eqn:E1.
    - injection H as <-. apply andb_true_iff in E1.
      replace ((0 <=? raw + 1) && (raw + 1 <? numif)) with true; [reflexivity|].
      symmetry. apply andb_true_iff. lia.
    - destruct ((- numif <=? raw) && (raw <? 0)) eqn:E2; [|discriminate].
      injection H as <-. apply andb_true_iff in E2.
      replace ((0 <=? raw + 1) && (raw + 1 <? numif)) with false.
      2:{ symmetry. apply andb_false_iff. lia. }
      replace ((- numif <=? raw + 1) && (raw + 1 <? 0)) with true.
      2:{ symmetry. apply andb_true_iff. lia. }
      f_equal. lia.
  Qed.

  Lemma resolved_idem raw a : resolved raw = Some a -> resolved a = Some a.
  Proof.
    intros H. pose proof (resolved_range _ _ H) as Ha. unfold Cache.resolved.
    replace ((0 <=? a) && (a <? numif)) with true; [reflexivity|].
    symmetry. apply andb_true_iff. lia.
  Qed.

  (* ---------------------------------------------------------------- *)
  (* heap: read-only objects never change                               *)
  Definition frozen (H : heap) (h : nat) (t : term) : Prop :=
    nth_error H h = Some {| o_val := t; o_w := false |}.
  (* every existing object is kept unchanged (frame) *)
  Definition heap_le (H H' : heap) : Prop :=
    forall h o, nth_error H h = Some o -> nth_error H' h = Some o.
  (* read-only objects are kept unchanged *)
  Definition fr_le (H H' : heap) : Prop := forall h t, frozen H h t -> frozen H' h t.

  Lemma heap_le_refl H : heap_le H H.
  Proof. intros h t Hf; exact Hf. Qed.
  Lemma heap_le_trans H1 H2 H3 : heap_le H1 H2 -> heap_le H2 H3 -> heap_le H1 H3.
  Proof. intros A B h t Hf. auto. Qed.
  Lemma heap_le_fr H H' : heap_le H H' -> fr_le H H'.
  Proof. intros A h t Hf. apply A. exact Hf. Qed.

  Lemma heap_le_len H H' : heap_le H H' -> (length H <= length H')%nat.
  Proof.
    intros A. destruct (le_lt_dec (length H) (length H')) as [|Hlt]; auto.
    destruct (nth_error H (length H')) as [o|] eqn:E.
    - apply A in E. assert (nth_error H' (length H') <> None) by congruence.
      apply nth_error_Some in H0. lia.
    - apply nth_error_None in E. lia.
  Qed.

  Lemma heap_le_app H o : heap_le H (H ++ [o]).
  Proof.
    intros h t Hf. rewrite nth_error_app1; auto.
    apply nth_error_Some. congruence.
  Qed.

  (* writing into an object that did not exist in H0 *)
  Lemma heap_le_upd_new H0 H h o' :
    heap_le H0 H -> (length H0 <= h)%nat -> heap_le H0 (upd H h o').
  Proof.
    intros A Hh h' o Hn. assert (h' < length H0)%nat by (apply nth_error_Some; congruence).
    rewrite nth_error_upd_other by lia. auto.
  Qed.

  Lemma fr_le_set_ro H h o :
    nth_error H h = Some o -> fr_le H (upd H h {| o_val := o_val o; o_w := false |}).
  Proof.
    intros Hn h' t Hf. unfold frozen in *. destruct (Nat.eq_dec h h') as [->|Hne].
    - rewrite Hn in Hf. injection Hf as ->. cbn.
      erewrite nth_error_upd_same; eauto.
    - rewrite nth_error_upd_other; auto.
  Qed.

  (* a value represents an observation *)
  Definition val_ok (H : heap) (v : pyval) (o : obs) : Prop :=
    match o with
    | ONone => v = PNone
    | OVal t false => exists h, v = PRef h /\ frozen H h t
    | _ => False
    end.
  (* same, but the object may still be writeable (inside a method body) *)
  Definition val_weak (n0 : nat) (H : heap) (v : pyval) (o : obs) : Prop :=
    match o with
    | ONone => v = PNone
    | OVal t false => exists h w, v = PRef h /\ nth_error H h = Some {| o_val := t; o_w := w |}
                                  /\ (w = true -> (n0 <= h)%nat)
    | _ => False
    end.

  Lemma val_ok_le H H' v o : fr_le H H' -> val_ok H v o -> val_ok H' v o.
  Proof.
    intros Hle. destruct o as [t [|]| | | | |]; cbn; auto.
    intros (h & -> & Hf). eauto.
  Qed.

  Lemma val_ok_weak n0 H v o : val_ok H v o -> val_weak n0 H v o.
  Proof.
    destruct o as [t [|]| | | | |]; cbn; auto. intros (h & -> & Hf).
    exists h, false. repeat split; auto. discriminate.
  Qed.

  Definition res_ok (H : heap) (o : obs) (r : res pyval) : Prop :=
    match o with
    | OErr e => r = Err e
    | _ => exists v, r = Ok v /\ val_ok H v o
    end.
  Definition bres_ok (n0 : nat) (H : heap) (o : obs) (r : res pyval) : Prop :=
    match o with
    | OErr e => r = Err e
    | _ => exists v, r = Ok v /\ val_weak n0 H v o
    end.

  Lemma val_ok_res H v o : val_ok H v o -> res_ok H o (Ok v).
  Proof. destruct o as [t [|]| | | | |]; cbn; try contradiction; eauto. Qed.
  Lemma res_ok_bres n0 H o r : res_ok H o r -> bres_ok n0 H o r.
  Proof.
    destruct o as [t [|]| | | | |]; cbn; auto; intros (v & -> & Hv); try contradiction;
      exists v; split; auto.
    apply (val_ok_weak n0 H v (OVal t false)). exact Hv.
  Qed.

  (* ---------------------------------------------------------------- *)
  (* the invariant                                                      *)
  Definition entry_inv (H : heap) (kv : key * pyval) : Prop :=
    0 <= snd (fst kv) < numif /\ val_ok H (snd kv) (spec_at (fst (fst kv)) (snd (fst kv))).

  Definition inv (s : state) : Prop :=
    Forall (entry_inv (s_heap s)) (s_cache s) /\
    (use_cache = true -> forall k, In k (s_finals s) -> In k (keys_of s)).

  Lemma inv_empty : inv empty_state.
  Proof. split; [constructor | intros _ k []]. Qed.

  Lemma entry_inv_le H H' kv : fr_le H H' -> entry_inv H kv -> entry_inv H' kv.
  Proof. intros Hle [A B]. split; auto. eapply val_ok_le; eauto. Qed.

  (* only the heap changed, monotonically *)
  Lemma inv_heap s s' :
    inv s -> s_cache s' = s_cache s -> s_finals s' = s_finals s ->
    fr_le (s_heap s) (s_heap s') -> inv s'.
  Proof.
    intros [A B] Hc Hf Hle. unfold inv, keys_of in *. rewrite Hc, Hf. split; auto.
    eapply Forall_impl; [|exact A]. intros kv. apply entry_inv_le; auto.
  Qed.

  Lemma inv_add_final k s :
    inv s -> (use_cache = true -> In k (keys_of s)) -> inv (add_final k s).
  Proof.
    intros [A B] Hk. split; [exact A|]. intros Hu k' Hin. unfold add_final, keys_of in *. cbn in *.
    destruct (mem_key k (s_finals s)); auto.
    destruct Hin as [<-|Hin]; auto.
  Qed.

  Definition post (m : meth) (raw : Z) (s : state) (p : res pyval * state) : Prop :=
    inv (snd p) /\ heap_le (s_heap s) (s_heap (snd p)) /\
    res_ok (s_heap (snd p)) (spec m raw) (fst p).
  Definition good (f : Z -> bool -> M pyval) (m : meth) : Prop :=
    forall raw final s, inv s -> post m raw s (f raw final s).

  Definition bpost (m : meth) (raw : Z) (s : state) (p : res pyval * state) : Prop :=
    inv (snd p) /\ heap_le (s_heap s) (s_heap (snd p)) /\
    bres_ok (length (s_heap s)) (s_heap (snd p)) (spec m raw) (fst p).
  Definition bgood (body : Z -> M pyval) (m : meth) : Prop :=
    forall raw s, inv s -> resolved raw <> None -> bpost m raw s (body raw s).

  (* _to_readonly *)
  Lemma set_ro_ok H0 s v o :
    heap_le H0 (s_heap s) -> val_weak (length H0) (s_heap s) v o ->
    val_ok (s_heap (set_ro v s)) v o /\ fr_le (s_heap s) (s_heap (set_ro v s)) /\
    heap_le H0 (s_heap (set_ro v s)) /\
    s_cache (set_ro v s) = s_cache s /\ s_finals (set_ro v s) = s_finals s.
  Proof.
    intros Hle. destruct o as [t [|]| | | | |]; cbn; try contradiction.
    - intros (h & w & -> & Hn & Hw). cbn. rewrite Hn. cbn. repeat split.
      + exists h. split; auto. unfold frozen. erewrite nth_error_upd_same; eauto.
      + apply (fr_le_set_ro _ _ _ Hn).
      + destruct w.
        * apply heap_le_upd_new; auto.
        * intros h' o' Hn'. apply Hle in Hn'. destruct (Nat.eq_dec h h') as [->|Hne].
          -- rewrite Hn in Hn'. injection Hn' as <-. erewrite nth_error_upd_same; eauto.
          -- rewrite nth_error_upd_other; auto.
    - intros ->. cbn. repeat split; auto. intros h t Hf; exact Hf.
  Qed.

  Lemma inv_cache_set k v s :
    inv s -> 0 <= snd k < numif -> val_ok (s_heap s) v (spec_at (fst k) (snd k)) ->
    inv (cache_set use_cache k v s) /\ (use_cache = true -> In k (keys_of (cache_set use_cache k v s))).
  Proof.
    intros [A B] Hk Hv. unfold cache_set, inv, keys_of. destruct use_cache; cbn.
    - split; [split|]; auto.
      + constructor; [split; auto|].
        apply Forall_forall. intros kv Hin. apply filter_In in Hin. destruct Hin as [Hin _].
        rewrite Forall_forall in A. auto.
      + intros _ k' Hin. specialize (B eq_refl k' Hin). unfold keys_of in B.
        destruct (key_eqb k' k) eqn:E.
        * apply key_eqb_eq in E. subst. auto.
        * right. apply in_map_iff in B. destruct B as ([k2 v2] & E2 & Hin2). cbn in E2. subst k2.
          apply in_map_iff. exists (k', v2). split; auto. apply filter_In. split; auto.
          cbn. rewrite E. reflexivity.
    - split; [split; auto|discriminate].
  Qed.

  Lemma wrapper_ok m body : bgood body m -> good (wrapper m body) m.
  Proof.
    intros Hb raw final s Hinv. unfold Cache.wrapper, post, Cache.spec. rewrite resolve_eq.
    destruct (resolved raw) as [a|] eqn:Hr.
    2:{ cbn. repeat split; try apply Hinv; apply heap_le_refl. }
    pose proof (resolved_range _ _ Hr) as Ha.
    destruct (cache_get use_cache (m, a) s) as [v|] eqn:Hc.
    - (* hit *)
      unfold cache_get in Hc. destruct use_cache eqn:Hu; [|discriminate].
      apply lookup_In in Hc. destruct Hinv as [A B].
      pose proof A as A'. rewrite Forall_forall in A'. destruct (A' _ Hc) as [_ Hv]. cbn in Hv.
      assert (Hk : In (m, a) (keys_of s)).
      { unfold keys_of. apply in_map_iff. exists ((m, a), v). auto. }
      assert (Hinv' : inv (if final then add_final (m, a) s else s)).
      { destruct final; [apply inv_add_final; [split; auto|auto]|split; auto]. }
      cbn. split; [exact Hinv'|]. split.
      + destruct final; apply heap_le_refl.
      + apply val_ok_res. destruct final; exact Hv.
    - (* miss *)
      assert (Hnn : resolved raw <> None) by congruence.
      specialize (Hb raw s Hinv Hnn). destruct (body raw s) as [[v|e] s1].
      + destruct Hb as (Hinv1 & Hle1 & Hres). cbn [fst snd] in *.
        unfold Cache.spec in Hres. rewrite Hr in Hres.
        assert (Hw : val_weak (length (s_heap s)) (s_heap s1) v (spec_at m a)).
        { destruct (spec_at m a) as [t [|]| | | | |]; cbn in Hres |- *;
            try discriminate; destruct Hres as (v' & [= <-] & Hv'); auto. }
        destruct (set_ro_ok (s_heap s) s1 v _ Hle1 Hw) as (Hv2 & Hfr2 & Hle2 & Hc2 & Hf2).
        pose proof (inv_heap s1 (set_ro v s1) Hinv1 Hc2 Hf2 Hfr2) as Hinv2.
        destruct (inv_cache_set (m, a) v (set_ro v s1) Hinv2 Ha Hv2) as (Hinv3 & Hk3).
        set (s3 := cache_set use_cache (m, a) v (set_ro v s1)) in *.
        assert (Hh3 : s_heap s3 = s_heap (set_ro v s1)).
        { unfold s3, cache_set. destruct use_cache; reflexivity. }
        assert (Hh4 : s_heap (if final then add_final (m, a) s3 else s3) = s_heap s3).
        { destruct final; reflexivity. }
        split; [destruct final; [apply inv_add_final|]; auto|].
        rewrite Hh4, Hh3. split.
        * exact Hle2.
        * apply val_ok_res. exact Hv2.
      + destruct Hb as (Hinv1 & Hle1 & Hres). cbn [fst snd] in *.
        unfold Cache.spec in Hres. rewrite Hr in Hres.
        split; [exact Hinv1|]. split; [exact Hle1|].
        destruct (spec_at m a) as [t w| | | | |]; cbn in Hres |- *; auto;
          destruct Hres as (v' & Hd & _); discriminate.
  Qed.

  (* ---------------------------------------------------------------- *)
  (* monad steps                                                        *)
  Lemma bind_lift_some {A B} (a : A) e (k : A -> M B) s : bind (lift (Some a) e) k s = k a s.
  Proof. reflexivity. Qed.
  Lemma bind_ret {A B} (a : A) (k : A -> M B) s : bind (ret a) k s = k a s.
  Proof. reflexivity. Qed.
  Lemma bind_deref {B} h o (k : term -> M B) s :
    nth_error (s_heap s) h = Some o -> bind (deref (PRef h)) k s = k (o_val o) s.
  Proof. intros Hn. unfold bind, deref. rewrite Hn. reflexivity. Qed.

  Lemma bind_copy {B} h o (k : pyval -> M B) s :
    nth_error (s_heap s) h = Some o ->
    bind (copy (PRef h)) k s =
    k (PRef (length (s_heap s)))
      {| s_cache := s_cache s; s_finals := s_finals s;
         s_heap := s_heap s ++ [{| o_val := o_val o; o_w := true |}] |}.
  Proof. intros Hn. unfold copy, bind, deref. rewrite Hn. reflexivity. Qed.
  Lemma bind_inplace_w {B} h o f (k : unit -> M B) s :
    nth_error (s_heap s) h = Some o -> o_w o = true ->
    bind (inplace (PRef h) f) k s =
    k tt {| s_cache := s_cache s; s_finals := s_finals s;
            s_heap := upd (s_heap s) h {| o_val := f (o_val o); o_w := true |} |}.
  Proof. intros Hn Hw. unfold bind, inplace. rewrite Hn, Hw. reflexivity. Qed.

  Lemma bind_good_sub {B} f m' raw' final (k : pyval -> M B) s (Q : res B * state -> Prop) :
    good f m' -> inv s ->
    (forall r s1, inv s1 -> heap_le (s_heap s) (s_heap s1) ->
                  res_ok (s_heap s1) (spec m' raw') r ->
                  Q (match r with Ok a => k a s1 | Err e => (Err e, s1) end)) ->
    Q (bind (f raw' final) k s).
  Proof.
    intros Hg Hinv HQ. unfold bind. specialize (Hg raw' final s Hinv).
    destruct (f raw' final s) as [r s1]. destruct Hg as (A & B' & C). cbn [fst snd] in *.
    specialize (HQ r s1 A B' C). destruct r; exact HQ.
  Qed.

  Lemma spec_resolved m raw a : resolved raw = Some a -> spec m raw = spec_at m a.
  Proof. intros H. unfold Cache.spec. rewrite H. reflexivity. Qed.

  Lemma res_ok_val H o t r : o = OVal t false -> res_ok H o r -> exists h, r = Ok (PRef h) /\ frozen H h t.
  Proof. intros ->. cbn. intros (v & -> & h & -> & Hf). eauto. Qed.
  Lemma res_ok_none H o r : o = ONone -> res_ok H o r -> r = Ok PNone.
  Proof. intros ->. cbn. intros (v & -> & ->). reflexivity. Qed.

  Lemma alloc_bpost m raw s0 s t :
    inv s -> heap_le (s_heap s0) (s_heap s) -> spec m raw = OVal t false ->
    bpost m raw s0 (alloc t s).
  Proof.
    intros Hinv Hle Hs. unfold bpost. rewrite Hs. unfold alloc. cbn [fst snd s_heap].
    split; [|split].
    - eapply inv_heap; eauto. cbn. apply heap_le_fr, heap_le_app.
    - eapply heap_le_trans; eauto. apply heap_le_app.
    - cbn. exists (PRef (length (s_heap s))). split; auto.
      exists (length (s_heap s)), true. split; auto. split.
      + rewrite nth_error_app2 by lia. rewrite Nat.sub_diag. reflexivity.
      + intros _. apply heap_le_len. exact Hle.
  Qed.

  Lemma ret_none_bpost m raw s0 s :
    inv s -> heap_le (s_heap s0) (s_heap s) -> spec m raw = ONone -> bpost m raw s0 (ret PNone s).
  Proof.
    intros Hinv Hle Hs. unfold bpost. rewrite Hs. unfold ret. cbn [fst snd]. split; [|split]; auto.
    cbn. eauto.
  Qed.

  Lemma err_bpost m raw s0 s e :
    inv s -> heap_le (s_heap s0) (s_heap s) -> spec m raw = OErr e ->
    bpost m raw s0 (@Err pyval e, s).
  Proof. intros Hinv Hle Hs. unfold bpost. rewrite Hs. cbn [fst snd]. split; [|split]; auto. reflexivity. Qed.

  (* a body that returns the answer of another method unchanged *)
  Lemma post_bpost m m' raw raw' s0 s p :
    heap_le (s_heap s0) (s_heap s) -> spec m raw = spec m' raw' -> post m' raw' s p -> bpost m raw s0 p.
  Proof.
    intros Hle Hs (A & B' & C). split; auto. split; [eapply heap_le_trans; eauto|].
    rewrite Hs. apply res_ok_bres. exact C.
  Qed.

  (* ---------------------------------------------------------------- *)
  (* level 0                                                            *)
  Lemma leg_points_ok : good (leg_points ifs use_cache) MLegPoints.
  Proof.
    apply wrapper_ok. intros raw s Hinv Hnn.
    destruct (resolved raw) as [a|] eqn:Hr; [|congruence].
    destruct (get_iface_eq raw a Hr) as (i & _ & Hgi).
    unfold body_leg_points. rewrite Hgi, rays_row_eq, Hr, !bind_lift_some. cbn [fst].
    apply alloc_bpost; auto using heap_le_refl. rewrite (spec_resolved _ _ _ Hr). reflexivity.
  Qed.

  Lemma orient_ok : good (orient ifs use_cache) MOrient.
  Proof.
    apply wrapper_ok. intros raw s Hinv Hnn.
    destruct (resolved raw) as [a|] eqn:Hr; [|congruence].
    destruct (get_iface_eq raw a Hr) as (i & _ & Hgi).
    unfold body_orient. rewrite Hgi, rays_row_eq, Hr, !bind_lift_some. cbn [fst].
    apply alloc_bpost; auto using heap_le_refl. rewrite (spec_resolved _ _ _ Hr). reflexivity.
  Qed.

  (* call a proved method whose answer is an array, then read it *)
  Lemma sub_val {B} f m' raw' a' t final (k : pyval -> M B) s (Q : res B * state -> Prop) :
    good f m' -> inv s -> resolved raw' = Some a' -> spec_at m' a' = OVal t false ->
    (forall h s1, inv s1 -> heap_le (s_heap s) (s_heap s1) -> frozen (s_heap s1) h t ->
                  Q (k (PRef h) s1)) ->
    Q (bind (f raw' final) k s).
  Proof.
    intros Hg Hinv Hr Hs HQ. apply (bind_good_sub f m' raw' final k s Q Hg Hinv).
    intros r s1 Hinv1 Hle1 Hres. rewrite (spec_resolved _ _ _ Hr) in Hres.
    destruct (res_ok_val _ _ _ _ Hs Hres) as (h & -> & Hf). auto.
  Qed.

  (* ---------------------------------------------------------------- *)
  (* level 1                                                            *)
  Lemma inc_leg_size_ok : good (inc_leg_size ifs use_cache) MIncLegSize.
  Proof.
    apply wrapper_ok. intros raw s Hinv Hnn.
    destruct (resolved raw) as [a|] eqn:Hr; [|congruence].
    unfold body_inc_leg_size. rewrite resolve_eq, Hr, bind_lift_some.
    destruct (a =? 0) eqn:E0.
    - apply ret_none_bpost; auto using heap_le_refl.
      rewrite (spec_resolved _ _ _ Hr). cbn. rewrite E0. reflexivity.
    - apply Z.eqb_neq in E0. pose proof (resolved_pred _ _ Hr E0) as Hp.
      apply (sub_val _ MLegPoints (raw - 1) (a - 1) (pts (a - 1))); auto using leg_points_ok.
      intros h1 s1 Hinv1 Hle1 Hf1. rewrite (bind_deref _ _ _ _ Hf1). cbn [o_val].
      apply (sub_val _ MLegPoints raw a (pts a)); auto using leg_points_ok.
      intros h2 s2 Hinv2 Hle2 Hf2. rewrite (bind_deref _ _ _ _ Hf2). cbn [o_val].
      apply alloc_bpost; auto.
      + eapply heap_le_trans; eauto.
      + rewrite (spec_resolved _ _ _ Hr). cbn. apply Z.eqb_neq in E0. rewrite E0. reflexivity.
  Qed.

  Lemma inc_leg_cart_ok : good (inc_leg_cart ifs use_cache) MIncLegCart.
  Proof.
    apply wrapper_ok. intros raw s Hinv Hnn.
    destruct (resolved raw) as [a|] eqn:Hr; [|congruence].
    unfold body_inc_leg_cart. rewrite resolve_eq, Hr, bind_lift_some.
    destruct (a =? 0) eqn:E0.
    - apply ret_none_bpost; auto using heap_le_refl.
      rewrite (spec_resolved _ _ _ Hr). cbn. rewrite E0. reflexivity.
    - apply Z.eqb_neq in E0. pose proof (resolved_pred _ _ Hr E0) as Hp.
      apply (sub_val _ MLegPoints (raw - 1) (a - 1) (pts (a - 1))); auto using leg_points_ok.
      intros h1 s1 Hinv1 Hle1 Hf1. rewrite (bind_deref _ _ _ _ Hf1). cbn [o_val].
      apply (sub_val _ MLegPoints raw a (pts a)); auto using leg_points_ok.
      intros h2 s2 Hinv2 Hle2 Hf2. rewrite (bind_deref _ _ _ _ Hf2). cbn [o_val].
      apply (sub_val _ MOrient raw a (ori a)); auto using orient_ok.
      intros h3 s3 Hinv3 Hle3 Hf3. rewrite (bind_deref _ _ _ _ Hf3). cbn [o_val].
      apply alloc_bpost; auto.
      + eapply heap_le_trans; eauto. eapply heap_le_trans; eauto.
      + rewrite (spec_resolved _ _ _ Hr). cbn. apply Z.eqb_neq in E0. rewrite E0. reflexivity.
  Qed.

  Lemma out_leg_cart_ok : good (out_leg_cart ifs use_cache) MOutLegCart.
  Proof.
    apply wrapper_ok. intros raw s Hinv Hnn.
    destruct (resolved raw) as [a|] eqn:Hr; [|congruence].
    unfold body_out_leg_cart. rewrite resolve_eq, Hr, bind_lift_some.
    destruct (a =? numif - 1) eqn:E0.
    - apply ret_none_bpost; auto using heap_le_refl.
      rewrite (spec_resolved _ _ _ Hr). cbn. rewrite E0. reflexivity.
    - apply Z.eqb_neq in E0. pose proof (resolved_succ _ _ Hr E0) as Hp.
      apply (sub_val _ MLegPoints raw a (pts a)); auto using leg_points_ok.
      intros h1 s1 Hinv1 Hle1 Hf1. rewrite (bind_deref _ _ _ _ Hf1). cbn [o_val].
      apply (sub_val _ MLegPoints (raw + 1) (a + 1) (pts (a + 1))); auto using leg_points_ok.
      intros h2 s2 Hinv2 Hle2 Hf2. rewrite (bind_deref _ _ _ _ Hf2). cbn [o_val].
      apply (sub_val _ MOrient raw a (ori a)); auto using orient_ok.
      intros h3 s3 Hinv3 Hle3 Hf3. rewrite (bind_deref _ _ _ _ Hf3). cbn [o_val].
      apply alloc_bpost; auto.
      + eapply heap_le_trans; eauto. eapply heap_le_trans; eauto.
      + rewrite (spec_resolved _ _ _ Hr). cbn. apply Z.eqb_neq in E0. rewrite E0. reflexivity.
  Qed.

  (* ---------------------------------------------------------------- *)
  (* levels 2..4: generic in the side (inc / out)                       *)
  Definition cart_like (mc : meth) : Prop :=
    forall a, spec_at mc a = ONone \/ exists c, spec_at mc a = OVal c false.

  Lemma body_unary_ok (F : term -> term) body cart mc m :
    (forall raw, body raw = (c <- cart raw false ;;
                             match c with
                             | PNone => ret PNone
                             | _ => tc <- deref c ;; alloc (F tc)
                             end)) ->
    good cart mc -> cart_like mc ->
    (forall a, spec_at mc a = ONone -> spec_at m a = ONone) ->
    (forall a c, spec_at mc a = OVal c false -> spec_at m a = OVal (F c) false) ->
    bgood body m.
  Proof.
    intros Hbody Hg Hshape Hn Hv raw s Hinv Hnn.
    destruct (resolved raw) as [a|] eqn:Hr; [|congruence].
    rewrite Hbody.
    destruct (Hshape a) as [E|(c & E)].
    - apply (bind_good_sub cart mc raw false _ s _ Hg Hinv). intros r s1 Hinv1 Hle1 Hres.
      rewrite (spec_resolved _ _ _ Hr) in Hres. rewrite (res_ok_none _ _ _ E Hres).
      apply ret_none_bpost; auto. rewrite (spec_resolved _ _ _ Hr). auto.
    - apply (sub_val cart mc raw a c); auto. intros h s1 Hinv1 Hle1 Hf1. cbv beta iota.
      rewrite (bind_deref _ _ _ _ Hf1). apply alloc_bpost; auto.
      rewrite (spec_resolved _ _ _ Hr). auto.
  Qed.

  Lemma body_polar_ok cart radius mc mr m :
    good cart mc -> good radius mr -> cart_like mc ->
    (forall a c, spec_at mc a = OVal c false -> spec_at mr a = OVal (TSphR c) false) ->
    (forall a, spec_at mc a = ONone -> spec_at m a = ONone) ->
    (forall a c, spec_at mc a = OVal c false -> spec_at m a = OVal (t_polar c) false) ->
    bgood (body_polar cart radius) m.
  Proof.
    intros Hg Hgr Hshape Hr' Hn Hv raw s Hinv Hnn.
    destruct (resolved raw) as [a|] eqn:Hr; [|congruence].
    unfold body_polar.
    destruct (Hshape a) as [E|(c & E)].
    - apply (bind_good_sub cart mc raw false _ s _ Hg Hinv). intros r s1 Hinv1 Hle1 Hres.
      rewrite (spec_resolved _ _ _ Hr) in Hres. rewrite (res_ok_none _ _ _ E Hres).
      apply ret_none_bpost; auto. rewrite (spec_resolved _ _ _ Hr). auto.
    - apply (sub_val cart mc raw a c); auto. intros h1 s1 Hinv1 Hle1 Hf1. cbv beta iota.
      apply (sub_val radius mr raw a (TSphR c)); auto. intros h2 s2 Hinv2 Hle2 Hf2.
      rewrite (bind_deref _ _ _ _ (Hle2 _ _ Hf1)). rewrite (bind_deref _ _ _ _ Hf2). cbn [o_val].
      apply alloc_bpost; auto.
      + eapply heap_le_trans; eauto.
      + rewrite (spec_resolved _ _ _ Hr). rewrite (Hv _ _ E). reflexivity.
  Qed.

  Lemma body_angle_ok polar mp m :
    good polar mp -> (forall a, spec_at m a = spec_at mp a) -> bgood (body_angle polar) m.
  Proof.
    intros Hg He raw s Hinv Hnn. unfold body_angle.
    destruct (resolved raw) as [a|] eqn:Hr; [|congruence].
    eapply post_bpost; [apply heap_le_refl| |apply Hg; auto].
    rewrite !(spec_resolved _ _ _ Hr). auto.
  Qed.

  Lemma body_signed_ok azimuth polar maz mp m :
    good azimuth maz -> good polar mp -> cart_like maz ->
    (forall a, spec_at maz a = ONone -> spec_at m a = ONone) ->
    (forall a z, spec_at maz a = OVal z false ->
                 exists p, spec_at mp a = OVal p false /\ spec_at m a = OVal (TSigned p z) false) ->
    bgood (body_signed azimuth polar) m.
  Proof.
    intros Hg Hgp Hshape Hn Hv raw s Hinv Hnn.
    destruct (resolved raw) as [a|] eqn:Hr; [|congruence].
    unfold body_signed.
    destruct (Hshape a) as [E|(z & E)].
    - apply (bind_good_sub azimuth maz raw false _ s _ Hg Hinv). intros r s1 Hinv1 Hle1 Hres.
      rewrite (spec_resolved _ _ _ Hr) in Hres. rewrite (res_ok_none _ _ _ E Hres).
      apply ret_none_bpost; auto. rewrite (spec_resolved _ _ _ Hr). auto.
    - destruct (Hv _ _ E) as (p & Ep & Em).
      apply (sub_val azimuth maz raw a z); auto. intros h1 s1 Hinv1 Hle1 Hf1. cbv beta iota.
      apply (sub_val polar mp raw a p); auto. intros h2 s2 Hinv2 Hle2 Hf2.
      rewrite (bind_deref _ _ _ _ Hf2). rewrite (bind_deref _ _ _ _ (Hle2 _ _ Hf1)). cbn [o_val].
      apply alloc_bpost; auto.
      + eapply heap_le_trans; eauto.
      + rewrite (spec_resolved _ _ _ Hr). exact Em.
  Qed.

  Lemma conv_tail_ok m mp flag polar raw a c s0 s :
    good polar mp -> inv s -> heap_le (s_heap s0) (s_heap s) -> resolved raw = Some a ->
    spec_at mp a = OVal (t_polar c) false -> spec m raw = spec_conv flag c ->
    bpost m raw s0 (conv_tail flag polar raw s).
  Proof.
    intros Hg Hinv Hle Hr Hp Hs. unfold conv_tail. destruct flag as [[|]|].
    - (* normals on the ray side: the polar object itself *)
      eapply post_bpost; [exact Hle| |apply Hg; exact Hinv].
      rewrite Hs, (spec_resolved _ _ _ Hr), Hp. reflexivity.
    - (* copy, then pi - theta in place *)
      apply (sub_val polar mp raw a (t_polar c)); auto. intros h s1 Hinv1 Hle1 Hf1.
      cbv beta. rewrite (bind_copy _ _ _ _ Hf1). cbn [o_val].
      erewrite bind_inplace_w;
        [| cbn [s_heap]; rewrite nth_error_app2 by lia; rewrite Nat.sub_diag; reflexivity | reflexivity].
      cbn [s_heap s_cache s_finals o_val].
      unfold ret. unfold bpost. rewrite Hs. cbn [fst snd s_heap spec_conv].
      set (o1 := {| o_val := t_polar c; o_w := true |}).
      set (o2 := {| o_val := TPiMinus (t_polar c); o_w := true |}).
      assert (Hn : nth_error (s_heap s1 ++ [o1]) (length (s_heap s1)) = Some o1).
      { rewrite nth_error_app2 by lia. rewrite Nat.sub_diag. reflexivity. }
      assert (Hle2 : heap_le (s_heap s1) (upd (s_heap s1 ++ [o1]) (length (s_heap s1)) o2)).
      { apply heap_le_upd_new; [apply heap_le_app|lia]. }
      assert (Hle3 : heap_le (s_heap s0) (s_heap s1)) by (eapply heap_le_trans; eauto).
      split; [|split].
      + eapply inv_heap; [exact Hinv1| | |]; auto. apply heap_le_fr. exact Hle2.
      + eapply heap_le_trans; eauto.
      + cbn. exists (PRef (length (s_heap s1))). split; auto.
        exists (length (s_heap s1)), true. split; auto. split.
        * eapply nth_error_upd_same; eauto.
        * intros _. apply heap_le_len. exact Hle3.
    - apply err_bpost; auto.
  Qed.

  (* ---- instances ---- *)
  Ltac spec_case := intros a; unfold Cache.spec_at; cbv zeta;
    try destruct (a =? 0); try destruct (a =? numif - 1); eauto; try discriminate.
  Ltac spec_rel := intros a c; unfold Cache.spec_at; cbv zeta;
    try destruct (a =? 0); try destruct (a =? numif - 1); try discriminate;
    intros [= <-]; eauto.

  Lemma inc_cart_like : cart_like MIncLegCart. Proof. spec_case. Qed.
  Lemma out_cart_like : cart_like MOutLegCart. Proof. spec_case. Qed.
  Lemma inc_az_like : cart_like MIncLegAzimuth. Proof. spec_case. Qed.
  Lemma out_az_like : cart_like MOutLegAzimuth. Proof. spec_case. Qed.

  Lemma inc_leg_radius_ok : good (inc_leg_radius ifs use_cache) MIncLegRadius.
  Proof.
    apply wrapper_ok.
    apply (body_unary_ok TSphR _ (inc_leg_cart ifs use_cache) MIncLegCart);
      [reflexivity|exact inc_leg_cart_ok|exact inc_cart_like|spec_case|spec_rel].
  Qed.
  Lemma out_leg_radius_ok : good (out_leg_radius ifs use_cache) MOutLegRadius.
  Proof.
    apply wrapper_ok.
    apply (body_unary_ok TSphR _ (out_leg_cart ifs use_cache) MOutLegCart);
      [reflexivity|exact out_leg_cart_ok|exact out_cart_like|spec_case|spec_rel].
  Qed.
  Lemma inc_leg_azimuth_ok : good (inc_leg_azimuth ifs use_cache) MIncLegAzimuth.
  Proof.
    apply wrapper_ok.
    apply (body_unary_ok TSphPhi _ (inc_leg_cart ifs use_cache) MIncLegCart);
      [reflexivity|exact inc_leg_cart_ok|exact inc_cart_like|spec_case|spec_rel].
  Qed.
  Lemma out_leg_azimuth_ok : good (out_leg_azimuth ifs use_cache) MOutLegAzimuth.
  Proof.
    apply wrapper_ok.
    apply (body_unary_ok TSphPhi _ (out_leg_cart ifs use_cache) MOutLegCart);
      [reflexivity|exact out_leg_cart_ok|exact out_cart_like|spec_case|spec_rel].
  Qed.
  Lemma inc_leg_polar_ok : good (inc_leg_polar ifs use_cache) MIncLegPolar.
  Proof.
    apply wrapper_ok.
    apply (body_polar_ok _ _ MIncLegCart MIncLegRadius);
      [exact inc_leg_cart_ok|exact inc_leg_radius_ok|exact inc_cart_like|spec_rel|spec_case|spec_rel].
  Qed.
  Lemma out_leg_polar_ok : good (out_leg_polar ifs use_cache) MOutLegPolar.
  Proof.
    apply wrapper_ok.
    apply (body_polar_ok _ _ MOutLegCart MOutLegRadius);
      [exact out_leg_cart_ok|exact out_leg_radius_ok|exact out_cart_like|spec_rel|spec_case|spec_rel].
  Qed.
  Lemma inc_angle_ok : good (inc_angle ifs use_cache) MIncAngle.
  Proof. apply wrapper_ok. apply (body_angle_ok _ MIncLegPolar); [exact inc_leg_polar_ok|reflexivity]. Qed.
  Lemma out_angle_ok : good (out_angle ifs use_cache) MOutAngle.
  Proof. apply wrapper_ok. apply (body_angle_ok _ MOutLegPolar); [exact out_leg_polar_ok|reflexivity]. Qed.
  Lemma signed_inc_ok : good (signed_inc ifs use_cache) MSignedInc.
  Proof.
    apply wrapper_ok.
    apply (body_signed_ok _ _ MIncLegAzimuth MIncLegPolar);
      [exact inc_leg_azimuth_ok|exact inc_leg_polar_ok|exact inc_az_like|spec_case|spec_rel].
  Qed.
  Lemma signed_out_ok : good (signed_out ifs use_cache) MSignedOut.
  Proof.
    apply wrapper_ok.
    apply (body_signed_ok _ _ MOutLegAzimuth MOutLegPolar);
      [exact out_leg_azimuth_ok|exact out_leg_polar_ok|exact out_az_like|spec_case|spec_rel].
  Qed.

  Lemma conv_inc_ok : good (conv_inc ifs use_cache) MConvInc.
  Proof.
    apply wrapper_ok. intros raw s Hinv Hnn.
    destruct (resolved raw) as [a|] eqn:Hr; [|congruence].
    unfold body_conv_inc. rewrite resolve_eq, Hr, bind_lift_some.
    destruct (a =? 0) eqn:E0.
    - apply ret_none_bpost; auto using heap_le_refl.
      rewrite (spec_resolved _ _ _ Hr). cbn. rewrite E0. reflexivity.
    - destruct (get_iface_eq raw a Hr) as (i & Hi & Hgi). rewrite Hgi, bind_lift_some. cbn [snd].
      apply (conv_tail_ok _ MIncLegPolar _ _ raw a (t_inc_cart a));
        auto using heap_le_refl, inc_leg_polar_ok.
      + unfold Cache.spec_at. cbv zeta. rewrite E0. reflexivity.
      + rewrite (spec_resolved _ _ _ Hr). unfold Cache.spec_at, flag_inc. cbv zeta.
        rewrite E0, Hi. reflexivity.
  Qed.

  Lemma conv_out_ok : good (conv_out ifs use_cache) MConvOut.
  Proof.
    apply wrapper_ok. intros raw s Hinv Hnn.
    destruct (resolved raw) as [a|] eqn:Hr; [|congruence].
    unfold body_conv_out. rewrite resolve_eq, Hr, bind_lift_some.
    destruct (a =? numif - 1) eqn:E0.
    - apply ret_none_bpost; auto using heap_le_refl.
      rewrite (spec_resolved _ _ _ Hr). cbn. rewrite E0. reflexivity.
    - destruct (get_iface_eq raw a Hr) as (i & Hi & Hgi). rewrite Hgi, bind_lift_some. cbn [snd].
      apply (conv_tail_ok _ MOutLegPolar _ _ raw a (t_out_cart a));
        auto using heap_le_refl, out_leg_polar_ok.
      + unfold Cache.spec_at. cbv zeta. rewrite E0. reflexivity.
      + rewrite (spec_resolved _ _ _ Hr). unfold Cache.spec_at, flag_out. cbv zeta.
        rewrite E0, Hi. reflexivity.
  Qed.

  Theorem call_ok m : good (call m) m.
  Proof.
    destruct m; cbn [Cache.call];
      auto using leg_points_ok, orient_ok, inc_leg_size_ok, inc_leg_cart_ok, inc_leg_radius_ok,
        inc_leg_polar_ok, inc_leg_azimuth_ok, inc_angle_ok, signed_inc_ok, conv_inc_ok,
        out_leg_cart_ok, out_leg_radius_ok, out_leg_polar_ok, out_leg_azimuth_ok, out_angle_ok,
        signed_out_ok, conv_out_ok.
  Qed.

  (* ---------------------------------------------------------------- *)
  (* clients                                                            *)
  Lemma fr_le_upd_writeable H h o o' :
    nth_error H h = Some o -> o_w o = true -> fr_le H (upd H h o').
  Proof.
    intros Hn Hw h' t Hf. unfold frozen in *. destruct (Nat.eq_dec h h') as [->|Hne].
    - rewrite Hn in Hf. injection Hf as ->. discriminate.
    - rewrite nth_error_upd_other; auto.
  Qed.

  Lemma call_deref {B} f m raw final (k : term -> M B) s (Q : res B * state -> Prop) :
    good f m -> inv s ->
    (forall s1, inv s1 -> heap_le (s_heap s) (s_heap s1) ->
                match obs_term (spec m raw) with
                | Ok t => Q (k t s1)
                | Err e => Q (Err e, s1)
                end) ->
    Q (bind (f raw final) (fun v => bind (deref v) k) s).
  Proof.
    intros Hg Hinv HQ. apply (bind_good_sub f m raw final _ s Q Hg Hinv).
    intros r s1 Hinv1 Hle1 Hres. specialize (HQ s1 Hinv1 Hle1).
    destruct (spec m raw) as [t [|]| |e| | |]; cbn in Hres, HQ;
      try (destruct Hres as (v & _ & []); fail).
    - destruct Hres as (v & -> & h & -> & Hf). rewrite (bind_deref _ _ _ _ Hf). exact HQ.
    - destruct Hres as (v & -> & ->). exact HQ.
    - subst r. exact HQ.
  Qed.

  Lemma call_copy {B} f m raw final (k : pyval -> M B) s (Q : res B * state -> Prop) :
    good f m -> inv s ->
    (forall s1, inv s1 -> heap_le (s_heap s) (s_heap s1) ->
                match obs_term (spec m raw) with
                | Ok t => Q (k (PRef (length (s_heap s1)))
                               {| s_cache := s_cache s1; s_finals := s_finals s1;
                                  s_heap := s_heap s1 ++ [{| o_val := t; o_w := true |}] |})
                | Err e => Q (Err e, s1)
                end) ->
    Q (bind (f raw final) (fun v => bind (copy v) k) s).
  Proof.
    intros Hg Hinv HQ. apply (bind_good_sub f m raw final _ s Q Hg Hinv).
    intros r s1 Hinv1 Hle1 Hres. specialize (HQ s1 Hinv1 Hle1).
    destruct (spec m raw) as [t [|]| |e| | |]; cbn in Hres, HQ;
      try (destruct Hres as (v & _ & []); fail).
    - destruct Hres as (v & -> & h & -> & Hf). rewrite (bind_copy _ _ _ _ Hf). exact HQ.
    - destruct Hres as (v & -> & ->). exact HQ.
    - subst r. exact HQ.
  Qed.

  Definition cpost {A} (s : state) (expected : res A) (p : res A * state) : Prop :=
    inv (snd p) /\ heap_le (s_heap s) (s_heap (snd p)) /\ fst p = expected.

  Lemma client_angles_ok ks : forall s0 s,
    inv s -> heap_le (s_heap s0) (s_heap s) ->
    cpost s0 (spec_angles ifs ks) (client_angles ifs use_cache ks s).
  Proof.
    induction ks as [|k ks IH]; intros s0 s Hinv Hle.
    - cbn. (split; [|split]; auto).
    - cbn [client_angles spec_angles].
      apply (call_deref _ MConvInc k true _ s _ conv_inc_ok Hinv).
      intros s1 Hinv1 Hle1.
      assert (Hle01 : heap_le (s_heap s0) (s_heap s1)) by (eapply heap_le_trans; eauto).
      destruct (obs_term (spec MConvInc k)) as [t|e].
      + specialize (IH s0 s1 Hinv1 Hle01). unfold bind.
        destruct (client_angles ifs use_cache ks s1) as [[ts|e] s2];
          destruct IH as (A & B' & C); cbn [fst snd] in *; rewrite <- C; cbn; (split; [|split]; auto).
      + (split; [|split]; auto).
  Qed.

  Definition acc_post (s0 : state) (ha : nat) (r : res term) (p : res unit * state) : Prop :=
    inv (snd p) /\ heap_le (s_heap s0) (s_heap (snd p)) /\
    match r with
    | Ok t => fst p = Ok tt /\ nth_error (s_heap (snd p)) ha = Some {| o_val := t; o_w := true |}
    | Err e => fst p = Err e
    end.

  Lemma client_acc_ok ks : forall s0 s ha tacc,
    inv s -> heap_le (s_heap s0) (s_heap s) ->
    nth_error (s_heap s) ha = Some {| o_val := tacc; o_w := true |} ->
    (length (s_heap s0) <= ha)%nat ->
    acc_post s0 ha (spec_acc ifs tacc ks) (client_acc ifs use_cache (PRef ha) ks s).
  Proof.
    induction ks as [|k ks IH]; intros s0 s ha tacc Hinv Hle Hacc Hha.
    - cbn. (split; [|split]; auto).
    - cbn [client_acc spec_acc].
      apply (call_deref _ MIncLegSize k true _ s _ inc_leg_size_ok Hinv).
      intros s1 Hinv1 Hle1.
      assert (Hle01 : heap_le (s_heap s0) (s_heap s1)) by (eapply heap_le_trans; eauto).
      destruct (obs_term (spec MIncLegSize k)) as [t|e].
      + pose proof (Hle1 _ _ Hacc) as Hacc1.
        rewrite (bind_inplace_w _ _ _ _ _ Hacc1 eq_refl). cbn [o_val].
        set (o2 := {| o_val := TIadd tacc t; o_w := true |}).
        set (s2 := {| s_cache := s_cache s1; s_finals := s_finals s1;
                      s_heap := upd (s_heap s1) ha o2 |}).
        assert (Hinv2 : inv s2).
        { eapply inv_heap; [exact Hinv1| | |]; auto. cbn.
          eapply fr_le_upd_writeable; eauto. }
        assert (Hle2 : heap_le (s_heap s0) (s_heap s2)).
        { cbn. apply heap_le_upd_new; auto. }
        assert (Hacc2 : nth_error (s_heap s2) ha = Some o2).
        { cbn. eapply nth_error_upd_same; eauto. }
        exact (IH s0 s2 ha (TIadd tacc t) Hinv2 Hle2 Hacc2 Hha).
      + unfold acc_post. cbn. (split; [|split]; auto).
  Qed.

  Lemma client_beam_ok angles first rest s :
    inv s ->
    cpost s (spec_beam ifs angles first rest) (client_beam ifs use_cache angles first rest s).
  Proof.
    intros Hinv. unfold client_beam, spec_beam.
    pose proof (client_angles_ok angles s s Hinv (heap_le_refl _)) as Ha.
    unfold bind at 1. destruct (client_angles ifs use_cache angles s) as [[ts|e] s1];
      destruct Ha as (Hinv1 & Hle1 & C); cbn [fst snd] in *; rewrite <- C.
    2:{ (split; [|split]; auto). }
    apply (call_copy _ MIncLegSize first true _ s1 _ inc_leg_size_ok Hinv1).
    intros s2 Hinv2 Hle2.
    assert (Hle02 : heap_le (s_heap s) (s_heap s2)) by (eapply heap_le_trans; eauto).
    destruct (obs_term (spec MIncLegSize first)) as [t0|e].
    2:{ (split; [|split]; auto). }
    set (s3 := {| s_cache := s_cache s2; s_finals := s_finals s2;
                  s_heap := s_heap s2 ++ [{| o_val := t0; o_w := true |}] |}).
    assert (Hinv3 : inv s3).
    { eapply inv_heap; [exact Hinv2| | |]; auto. cbn. apply heap_le_fr, heap_le_app. }
    assert (Hle3 : heap_le (s_heap s) (s_heap s3)).
    { eapply heap_le_trans; eauto. cbn. apply heap_le_app. }
    assert (Hacc : nth_error (s_heap s3) (length (s_heap s2)) = Some {| o_val := t0; o_w := true |}).
    { cbn. rewrite nth_error_app2 by lia. rewrite Nat.sub_diag. reflexivity. }
    assert (Hha : (length (s_heap s) <= length (s_heap s2))%nat) by (apply heap_le_len; auto).
    pose proof (client_acc_ok rest s s3 _ _ Hinv3 Hle3 Hacc Hha) as Hc. unfold acc_post in Hc.
    unfold bind at 1.
    destruct (client_acc ifs use_cache (PRef (length (s_heap s2))) rest s3) as [r4 s4].
    destruct Hc as (Hinv4 & Hle4 & C4). cbn [fst snd] in *.
    destruct (spec_acc ifs t0 rest) as [t|e].
    - destruct C4 as (-> & Hn4). rewrite (bind_deref _ _ _ _ Hn4). cbn. (split; [|split]; auto).
    - subst r4. (split; [|split]; auto).
  Qed.

  Lemma client_ok c s :
    inv s ->
    let p := client ifs use_cache c s in
    inv (snd p) /\ heap_le (s_heap s) (s_heap (snd p)) /\
    spec_client ifs c = match fst p with Ok ts => OClient ts | Err e => OErr e end.
  Proof.
    intros Hinv. unfold client, spec_client. cbv zeta.
    destruct (c =? 0); [|destruct (c =? 1)].
    - destruct (client_beam_ok (zrange 1 (Z.to_nat (numif - 1 - 1))) 1
                  (zrange 2 (Z.to_nat (numif - 1 - 1))) s Hinv) as (A & B' & C).
      (split; [|split]; auto). rewrite C. reflexivity.
    - destruct (client_beam_ok (rev (zrange 1 (Z.to_nat (numif - 1 - 1)))) (numif - 1)
                  (rev (zrange 1 (Z.to_nat (numif - 1 - 1)))) s Hinv) as (A & B' & C).
      (split; [|split]; auto). rewrite C. reflexivity.
    - destruct (client_angles_ok (zrange 1 (Z.to_nat (numif - 1 - 1))) s s Hinv (heap_le_refl _))
        as (A & B' & C).
      (split; [|split]; auto). rewrite C. reflexivity.
  Qed.

  (* ---------------------------------------------------------------- *)
  (* histories                                                          *)
  Local Notation run_query := (run_query ifs use_cache).
  Local Notation run_pre := (run_pre ifs use_cache).
  Local Notation step := (step ifs use_cache).
  Local Notation run_from := (run_from ifs use_cache).

  (* an entry of the trace: its observation is what its answer shows in the heap, and
     a returned object is read-only *)
  Definition entry_ok (H : heap) (e : entry) : Prop :=
    match e_ans e with
    | AVal h => exists t, frozen H h t /\ e_obs e = OVal t false
    | ANone => e_obs e = ONone
    | AErr x => e_obs e = OErr x
    | AUnit => e_obs e = OUnit
    | AClient ts => e_obs e = OClient ts
    | ASkip => e_obs e = OSkip
    end.

  Lemma entry_ok_le H H' e : fr_le H H' -> entry_ok H e -> entry_ok H' e.
  Proof.
    intros Hle. unfold entry_ok. destruct (e_ans e); auto.
    intros (t & Hf & Ho). eauto.
  Qed.

  Definition entries_ok (s : state) (es : list entry) : Prop :=
    Forall (entry_ok (s_heap s)) es /\ Forall (fun e => inv (e_state e)) es.

  Lemma entries_ok_le s s' es :
    heap_le (s_heap s) (s_heap s') -> entries_ok s es -> entries_ok s' es.
  Proof.
    intros Hle [A B]. split; auto. eapply Forall_impl; [|exact A].
    intros e. apply entry_ok_le. apply heap_le_fr. exact Hle.
  Qed.

  Lemma mk_entry_simple a s :
    inv s -> match a with AVal _ => False | _ => True end -> entries_ok s [mk_entry a s].
  Proof.
    intros Hinv Ha. split; constructor; auto. unfold entry_ok, mk_entry. cbn.
    destruct a; try contradiction; reflexivity.
  Qed.

  Lemma run_query_ok m raw final s :
    inv s ->
    let p := run_query (m, raw, final) s in
    inv (snd p) /\ heap_le (s_heap s) (s_heap (snd p)) /\
    e_obs (fst p) = spec m raw /\ entries_ok (snd p) [fst p] /\
    is_error (e_ans (fst p)) = obs_is_error (spec m raw).
  Proof.
    intros Hinv. unfold Cache.run_query. cbv zeta.
    pose proof (call_ok m raw final s Hinv) as Hc.
    destruct (call m raw final s) as [r s1]. destruct Hc as (Hinv1 & Hle1 & Hres). cbn [fst snd] in *.
    split; [exact Hinv1|]. split; [exact Hle1|].
    destruct (spec m raw) as [t [|]| |e| | |]; cbn in Hres;
      try (destruct Hres as (v & _ & []); fail).
    - destruct Hres as (v & -> & h & -> & Hf). cbn. unfold frozen in Hf. rewrite Hf. cbn.
      split; auto. split; auto. split; constructor; auto.
      unfold entry_ok. cbn. rewrite Hf. exists t. split; auto.
    - destruct Hres as (v & -> & ->). cbn. split; auto. split; auto.
      apply mk_entry_simple; auto.
    - subst r. cbn. split; auto. split; auto. apply (mk_entry_simple (AErr e)); auto.
  Qed.

  Lemma inv_clear_inter s : inv s -> inv (clear_inter s).
  Proof.
    intros [A B]. split.
    - unfold clear_inter. cbn. apply Forall_forall. intros kv Hin. apply filter_In in Hin.
      rewrite Forall_forall in A. apply A. tauto.
    - intros Hu k Hin. unfold clear_inter, keys_of in *. cbn in *.
      specialize (B Hu k Hin). apply in_map_iff in B. destruct B as ([k' v] & E & Hin'). cbn in E. subst k'.
      apply in_map_iff. exists (k, v). split; auto. apply filter_In. split; auto.
      cbn. apply mem_key_In. exact Hin.
  Qed.

  Lemma inv_clear_all s : inv s -> inv (clear_all s).
  Proof. intros _. split; [constructor|intros _ k []]. Qed.

  Lemma run_pre_ok qs : forall s,
    inv s ->
    let p := run_pre qs s in
    inv (snd p) /\ heap_le (s_heap s) (s_heap (snd p)) /\
    map e_obs (fst p) = spec_pre ifs qs /\ entries_ok (snd p) (fst p).
  Proof.
    induction qs as [|[[m raw] final] qs IH]; intros s Hinv; cbv zeta.
    - cbn. pose proof (inv_clear_inter s Hinv) as Hc.
      split; [exact Hc|]. split; [apply heap_le_refl|]. split; [reflexivity|].
      apply (mk_entry_simple AUnit); auto.
    - cbn [Cache.run_pre spec_pre].
      pose proof (run_query_ok m raw final s Hinv) as Hq. cbv zeta in Hq.
      destruct (run_query (m, raw, final) s) as [e s1].
      destruct Hq as (Hinv1 & Hle1 & Ho & He & Herr). cbn [fst snd] in *.
      rewrite Herr. destruct (obs_is_error (spec m raw)).
      + cbn. rewrite Ho. split; [exact Hinv1|]. split; [exact Hle1|]. split; [reflexivity|exact He].
      + specialize (IH s1 Hinv1). cbv zeta in IH. destruct (run_pre qs s1) as [es s2].
        destruct IH as (Hinv2 & Hle2 & Hos & Hes). cbn [fst snd] in *.
        split; [exact Hinv2|]. split; [eapply heap_le_trans; eauto|].
        split; [cbn [map]; rewrite Ho, Hos; reflexivity|].
        pose proof (entries_ok_le _ _ _ Hle2 He) as [A1 B1]. destruct Hes as [A2 B2].
        split; constructor; auto; inversion A1; inversion B1; auto.
  Qed.

  Definition step_post (tr : list entry) (s : state) (o : op) (p : list entry * state) : Prop :=
    inv (snd p) /\ heap_le (s_heap s) (s_heap (snd p)) /\
    map e_obs (fst p) = spec_step ifs (map e_obs tr) o /\ entries_ok (snd p) (fst p).

  Lemma step_ok tr s o : inv s -> entries_ok s tr -> step_post tr s o (step tr s o).
  Proof.
    intros Hinv Htr. unfold step_post. destruct o as [m raw final| | |qs|c|i]; cbn [Cache.step spec_step].
    - pose proof (run_query_ok m raw final s Hinv) as Hq. cbv zeta in Hq.
      destruct (run_query (m, raw, final) s) as [e s1].
      destruct Hq as (Hinv1 & Hle1 & Ho & He & _). cbn [fst snd map] in *.
      rewrite Ho. split; [exact Hinv1|]. split; [exact Hle1|]. split; [reflexivity|exact He].
    - pose proof (inv_clear_inter s Hinv) as Hc. cbn.
      split; [exact Hc|]. split; [apply heap_le_refl|]. split; [reflexivity|].
      apply (mk_entry_simple AUnit); auto.
    - pose proof (inv_clear_all s Hinv) as Hc. cbn.
      split; [exact Hc|]. split; [apply heap_le_refl|]. split; [reflexivity|].
      apply (mk_entry_simple AUnit); auto.
    - exact (run_pre_ok qs s Hinv).
    - pose proof (client_ok c s Hinv) as Hc. cbv zeta in Hc.
      destruct (client ifs use_cache c s) as [[ts|e] s1]; destruct Hc as (Hinv1 & Hle1 & Hs);
        cbn [fst snd map] in *; rewrite Hs.
      + split; auto. split; auto. split; auto. apply (mk_entry_simple (AClient ts)); auto.
      + split; auto. split; auto. split; auto. apply (mk_entry_simple (AErr e)); auto.
    - rewrite nth_error_map.
      destruct (nth_error tr i) as [[a ob st]|] eqn:En; cbn [option_map].
      2:{ cbn. split; auto. split; [apply heap_le_refl|]. split; auto.
          apply (mk_entry_simple ASkip); auto. }
      destruct Htr as [A B]. rewrite Forall_forall in A.
      pose proof (A _ (nth_error_In _ _ En)) as Ha. unfold entry_ok in Ha. cbn [e_ans e_obs] in *.
      destruct a as [h| | | | |]; try subst ob;
        try (cbn; split; auto; split; [apply heap_le_refl|]; split; auto;
             apply (mk_entry_simple ASkip); auto; fail).
      destruct Ha as (t & Hf & ->). unfold inplace. unfold frozen in Hf. rewrite Hf. cbn [o_w].
      cbn. split; auto. split; [apply heap_le_refl|]. split; auto.
      apply (mk_entry_simple (AErr EReadOnly)); auto.
  Qed.

  Lemma run_from_ok ops : forall tr s,
    inv s -> entries_ok s tr ->
    let p := run_from tr s ops in
    inv (snd p) /\ entries_ok (snd p) (fst p) /\
    map e_obs (fst p) = spec_run_from ifs (map e_obs tr) ops.
  Proof.
    induction ops as [|o ops IH]; intros tr s Hinv Htr; cbv zeta.
    - cbn. auto.
    - cbn [Cache.run_from spec_run_from].
      pose proof (step_ok tr s o Hinv Htr) as Hs. unfold step_post in Hs.
      destruct (step tr s o) as [es s1]. destruct Hs as (Hinv1 & Hle1 & Ho & Hes). cbn [fst snd] in *.
      assert (Htr1 : entries_ok s1 (tr ++ es)).
      { pose proof (entries_ok_le _ _ _ Hle1 Htr) as [A1 B1]. destruct Hes as [A2 B2].
        split; apply Forall_app; auto. }
      specialize (IH (tr ++ es) s1 Hinv1 Htr1). cbv zeta in IH.
      rewrite map_app, Ho in IH. exact IH.
  Qed.

  Theorem run_ok ops :
    let p := run ifs use_cache ops in
    inv (snd p) /\ entries_ok (snd p) (fst p) /\ map e_obs (fst p) = spec_run ifs ops.
  Proof.
    apply (run_from_ok ops [] empty_state inv_empty). split; constructor.
  Qed.

  (* ---------------------------------------------------------------- *)
  (* negative and non-negative spellings of an index: identical runs   *)
  Definition respects (f : Z -> bool -> M pyval) : Prop :=
    forall x y fin s, resolved x = resolved y -> f x fin s = f y fin s.

  Lemma bind_ext {A B} (c c' : M A) (k k' : A -> M B) s :
    c s = c' s -> (forall a s1, k a s1 = k' a s1) -> bind c k s = bind c' k' s.
  Proof. intros Hc Hk. unfold bind. rewrite Hc. destruct (c' s) as [[a|e] s1]; auto. Qed.

  Lemma wrapper_respects m body :
    (forall x y a s, resolved x = Some a -> resolved y = Some a -> body x s = body y s) ->
    respects (wrapper m body).
  Proof.
    intros Hb x y fin s Hxy. unfold Cache.wrapper. rewrite !resolve_eq, <- Hxy.
    destruct (resolved x) as [a|] eqn:Hr; auto.
    destruct (cache_get use_cache (m, a) s); auto.
    rewrite (Hb x y a s Hr); auto.
  Qed.

  Lemma get_iface_respects x y a :
    resolved x = Some a -> resolved y = Some a -> get_iface ifs x = get_iface ifs y.
  Proof.
    intros Hx Hy. destruct (get_iface_eq x a Hx) as (i & Hi & ->).
    destruct (get_iface_eq y a Hy) as (i' & Hi' & ->). congruence.
  Qed.

  Lemma leg_points_respects : respects (leg_points ifs use_cache).
  Proof.
    apply wrapper_respects. intros x y a s Hx Hy. unfold body_leg_points.
    rewrite (get_iface_respects x y a Hx Hy), !rays_row_eq, Hx, Hy. reflexivity.
  Qed.
  Lemma orient_respects : respects (orient ifs use_cache).
  Proof.
    apply wrapper_respects. intros x y a s Hx Hy. unfold body_orient.
    rewrite (get_iface_respects x y a Hx Hy), !rays_row_eq, Hx, Hy. reflexivity.
  Qed.

  Ltac ext_step := apply bind_ext; [|intros ? ?].

  Lemma inc_leg_size_respects : respects (inc_leg_size ifs use_cache).
  Proof.
    apply wrapper_respects. intros x y a s Hx Hy. unfold body_inc_leg_size.
    rewrite !resolve_eq, Hx, Hy, !bind_lift_some. destruct (a =? 0) eqn:E0; auto.
    apply Z.eqb_neq in E0.
    ext_step. { apply leg_points_respects. rewrite (resolved_pred _ _ Hx E0), (resolved_pred _ _ Hy E0). reflexivity. }
    ext_step; [reflexivity|].
    ext_step. { apply leg_points_respects. congruence. }
    reflexivity.
  Qed.

  Lemma inc_leg_cart_respects : respects (inc_leg_cart ifs use_cache).
  Proof.
    apply wrapper_respects. intros x y a s Hx Hy. unfold body_inc_leg_cart.
    rewrite !resolve_eq, Hx, Hy, !bind_lift_some. destruct (a =? 0) eqn:E0; auto.
    apply Z.eqb_neq in E0.
    ext_step. { apply leg_points_respects. rewrite (resolved_pred _ _ Hx E0), (resolved_pred _ _ Hy E0). reflexivity. }
    ext_step; [reflexivity|].
    ext_step. { apply leg_points_respects. congruence. }
    ext_step; [reflexivity|].
    ext_step. { apply orient_respects. congruence. }
    reflexivity.
  Qed.

  Lemma out_leg_cart_respects : respects (out_leg_cart ifs use_cache).
  Proof.
    apply wrapper_respects. intros x y a s Hx Hy. unfold body_out_leg_cart.
    rewrite !resolve_eq, Hx, Hy, !bind_lift_some. destruct (a =? numif - 1) eqn:E0; auto.
    apply Z.eqb_neq in E0.
    ext_step. { apply leg_points_respects. congruence. }
    ext_step; [reflexivity|].
    ext_step. { apply leg_points_respects. rewrite (resolved_succ _ _ Hx E0), (resolved_succ _ _ Hy E0). reflexivity. }
    ext_step; [reflexivity|].
    ext_step. { apply orient_respects. congruence. }
    reflexivity.
  Qed.

  Lemma body_radius_respects cart x y s :
    respects cart -> resolved x = resolved y -> body_radius cart x s = body_radius cart y s.
  Proof. intros Hc Hxy. unfold body_radius. ext_step; [apply Hc; auto|reflexivity]. Qed.
  Lemma body_azimuth_respects cart x y s :
    respects cart -> resolved x = resolved y -> body_azimuth cart x s = body_azimuth cart y s.
  Proof. intros Hc Hxy. unfold body_azimuth. ext_step; [apply Hc; auto|reflexivity]. Qed.
  Lemma body_polar_respects cart radius x y s :
    respects cart -> respects radius -> resolved x = resolved y ->
    body_polar cart radius x s = body_polar cart radius y s.
  Proof.
    intros Hc Hr Hxy. unfold body_polar. ext_step; [apply Hc; auto|].
    destruct a; auto. ext_step; [apply Hr; auto|reflexivity].
  Qed.
  Lemma body_signed_respects azimuth polar x y s :
    respects azimuth -> respects polar -> resolved x = resolved y ->
    body_signed azimuth polar x s = body_signed azimuth polar y s.
  Proof.
    intros Hc Hr Hxy. unfold body_signed. ext_step; [apply Hc; auto|].
    destruct a; auto. ext_step; [apply Hr; auto|reflexivity].
  Qed.
  Lemma conv_tail_respects flag polar x y s :
    respects polar -> resolved x = resolved y -> conv_tail flag polar x s = conv_tail flag polar y s.
  Proof.
    intros Hp Hxy. unfold conv_tail. destruct flag as [[|]|]; auto.
    ext_step; [apply Hp; auto|reflexivity].
  Qed.


  Lemma inc_leg_radius_respects : respects (inc_leg_radius ifs use_cache).
  Proof. apply wrapper_respects; intros x y a s Hx Hy. apply body_radius_respects; [apply inc_leg_cart_respects|congruence]. Qed.
  Lemma out_leg_radius_respects : respects (out_leg_radius ifs use_cache).
  Proof. apply wrapper_respects; intros x y a s Hx Hy. apply body_radius_respects; [apply out_leg_cart_respects|congruence]. Qed.
  Lemma inc_leg_azimuth_respects : respects (inc_leg_azimuth ifs use_cache).
  Proof. apply wrapper_respects; intros x y a s Hx Hy. apply body_azimuth_respects; [apply inc_leg_cart_respects|congruence]. Qed.
  Lemma out_leg_azimuth_respects : respects (out_leg_azimuth ifs use_cache).
  Proof. apply wrapper_respects; intros x y a s Hx Hy. apply body_azimuth_respects; [apply out_leg_cart_respects|congruence]. Qed.
  Lemma inc_leg_polar_respects : respects (inc_leg_polar ifs use_cache).
  Proof.
    apply wrapper_respects; intros x y a s Hx Hy.
    apply body_polar_respects; [apply inc_leg_cart_respects|apply inc_leg_radius_respects|congruence].
  Qed.
  Lemma out_leg_polar_respects : respects (out_leg_polar ifs use_cache).
  Proof.
    apply wrapper_respects; intros x y a s Hx Hy.
    apply body_polar_respects; [apply out_leg_cart_respects|apply out_leg_radius_respects|congruence].
  Qed.
  Lemma inc_angle_respects : respects (inc_angle ifs use_cache).
  Proof.
    apply wrapper_respects; intros x y a s Hx Hy. unfold body_angle.
    apply inc_leg_polar_respects. congruence.
  Qed.
  Lemma out_angle_respects : respects (out_angle ifs use_cache).
  Proof.
    apply wrapper_respects; intros x y a s Hx Hy. unfold body_angle.
    apply out_leg_polar_respects. congruence.
  Qed.
  Lemma signed_inc_respects : respects (signed_inc ifs use_cache).
  Proof.
    apply wrapper_respects; intros x y a s Hx Hy.
    apply body_signed_respects; [apply inc_leg_azimuth_respects|apply inc_leg_polar_respects|congruence].
  Qed.
  Lemma signed_out_respects : respects (signed_out ifs use_cache).
  Proof.
    apply wrapper_respects; intros x y a s Hx Hy.
    apply body_signed_respects; [apply out_leg_azimuth_respects|apply out_leg_polar_respects|congruence].
  Qed.
  Lemma conv_inc_respects : respects (conv_inc ifs use_cache).
  Proof.
    apply wrapper_respects. intros x y a s Hx Hy. unfold body_conv_inc.
    rewrite !resolve_eq, Hx, Hy, !bind_lift_some. destruct (a =? 0); auto.
    rewrite (get_iface_respects x y a Hx Hy). ext_step; [reflexivity|].
    apply conv_tail_respects; [apply inc_leg_polar_respects|congruence].
  Qed.
  Lemma conv_out_respects : respects (conv_out ifs use_cache).
  Proof.
    apply wrapper_respects. intros x y a s Hx Hy. unfold body_conv_out.
    rewrite !resolve_eq, Hx, Hy, !bind_lift_some. destruct (a =? numif - 1); auto.
    rewrite (get_iface_respects x y a Hx Hy). ext_step; [reflexivity|].
    apply conv_tail_respects; [apply out_leg_polar_respects|congruence].
  Qed.

  Theorem call_respects m : respects (call m).
  Proof.
    destruct m; cbn [Cache.call];
      auto using leg_points_respects, orient_respects, inc_leg_size_respects, inc_leg_cart_respects,
        inc_leg_radius_respects, inc_leg_polar_respects, inc_leg_azimuth_respects, inc_angle_respects,
        signed_inc_respects, conv_inc_respects, out_leg_cart_respects, out_leg_radius_respects,
        out_leg_polar_respects, out_leg_azimuth_respects, out_angle_respects, signed_out_respects,
        conv_out_respects.
  Qed.

  Lemma resolved_norm raw : resolved (norm_idx ifs raw) = resolved raw.
  Proof.
    unfold norm_idx. destruct (resolved raw) as [a|] eqn:Hr; auto.
    apply (resolved_idem _ _ Hr).
  Qed.

  Lemma run_query_norm m raw f s :
    run_query (m, norm_idx ifs raw, f) s = run_query (m, raw, f) s.
  Proof.
    unfold Cache.run_query. rewrite (call_respects m _ raw f s (resolved_norm raw)). reflexivity.
  Qed.

  Lemma run_pre_norm qs : forall s,
    run_pre (map (fun q => let '(m, raw, f) := q in (m, norm_idx ifs raw, f)) qs) s = run_pre qs s.
  Proof.
    induction qs as [|[[m raw] f] qs IH]; intros s; auto.
    cbn [map Cache.run_pre]. rewrite run_query_norm.
    destruct (run_query (m, raw, f) s) as [e s1]. destruct (is_error (e_ans e)); auto.
    rewrite IH. reflexivity.
  Qed.

  Lemma step_norm tr s o : step tr s (norm_op ifs o) = step tr s o.
  Proof.
    destruct o as [m raw f| | |qs|c|i]; cbn [norm_op Cache.step]; auto.
    - rewrite run_query_norm. reflexivity.
    - apply run_pre_norm.
  Qed.

  Theorem run_norm ops : run ifs use_cache (map (norm_op ifs) ops) = run ifs use_cache ops.
  Proof.
    unfold run. generalize (@nil entry) empty_state.
    induction ops as [|o ops IH]; intros tr s; auto.
    cbn [map Cache.run_from]. rewrite step_norm. destruct (step tr s o) as [es s1]. apply IH.
  Qed.

  (* ---------------------------------------------------------------- *)
  (* clear_intermediate_results                                         *)
  Lemma clear_inter_final k s :
    mem_key k (s_finals s) = true ->
    lookup k (s_cache (clear_inter s)) = lookup k (s_cache s).
  Proof. intros H. unfold clear_inter. cbn. apply (lookup_filter_true k _ (fun k => mem_key k (s_finals s))). exact H. Qed.

  Lemma clear_inter_nonfinal k s :
    mem_key k (s_finals s) = false -> lookup k (s_cache (clear_inter s)) = None.
  Proof. intros H. unfold clear_inter. cbn. apply (lookup_filter_false k _ (fun k => mem_key k (s_finals s))). exact H. Qed.

End Proofs.

(* ------------------------------------------------------------------ *)
(* statements in terms of the model only                                *)

(* a cached value is the read-only object holding the fresh answer for its key *)
Definition cached_value_ok (ifs : list iface) (s : state) (k : key) (v : pyval) : Prop :=
  0 <= snd k < numif ifs /\
  match v with
  | PNone => spec_at ifs (fst k) (snd k) = ONone
  | PRef h => exists t, nth_error (s_heap s) h = Some {| o_val := t; o_w := false |} /\
                        spec_at ifs (fst k) (snd k) = OVal t false
  end.

Definition state_ok (ifs : list iface) (uc : bool) (s : state) : Prop :=
  (forall k v, lookup k (s_cache s) = Some v -> cached_value_ok ifs s k v) /\
  (uc = true -> forall k, In k (s_finals s) -> In k (keys_of s)).

Lemma inv_state_ok ifs uc s : inv ifs uc s -> state_ok ifs uc s.
Proof.
  intros [A B]. split; auto. intros k v Hl. apply lookup_In in Hl.
  rewrite Forall_forall in A. destruct (A _ Hl) as [Hr Hv]. cbn [fst snd] in *.
  split; auto. unfold val_ok in Hv.
  destruct (spec_at ifs (fst k) (snd k)) as [t [|]| | | | |]; try contradiction.
  - destruct Hv as (h & -> & Hf). exists t. split; auto.
  - subst v. reflexivity.
Qed.

Theorem cache_inv_all ifs uc ops :
  state_ok ifs uc (snd (run ifs uc ops)) /\
  Forall (fun e => state_ok ifs uc (e_state e)) (fst (run ifs uc ops)).
Proof.
  destruct (run_ok ifs uc ops) as (A & [B1 B2] & C). split.
  - apply inv_state_ok. exact A.
  - eapply Forall_impl; [|exact B2]. intros e. apply inv_state_ok.
Qed.

Theorem transparent_all ifs uc ops : map e_obs (fst (run ifs uc ops)) = spec_run ifs ops.
Proof. apply run_ok. Qed.

Theorem cached_equals_uncached_all ifs ops :
  map e_obs (fst (run ifs true ops)) = map e_obs (fst (run ifs false ops)).
Proof. rewrite !transparent_all. reflexivity. Qed.

Theorem fresh_uncached_is_spec ifs m raw f :
  map e_obs (fst (run ifs false [Query m raw f])) = [spec ifs m raw].
Proof. rewrite transparent_all. reflexivity. Qed.

Theorem answers_readonly_all ifs uc ops e t w :
  In e (fst (run ifs uc ops)) -> e_obs e = OVal t w -> w = false.
Proof.
  intros Hin Ho. destruct (run_ok ifs uc ops) as (_ & [B1 _] & _).
  rewrite Forall_forall in B1. specialize (B1 e Hin). unfold entry_ok in B1.
  destruct (e_ans e); try congruence.
  destruct B1 as (t' & _ & Ho'). congruence.
Qed.

Theorem mutate_fails_all ifs uc ops i e h :
  nth_error (fst (run ifs uc ops)) i = Some e -> e_ans e = AVal h ->
  step ifs uc (fst (run ifs uc ops)) (snd (run ifs uc ops)) (Mutate i)
  = ([mk_entry (AErr EReadOnly) (snd (run ifs uc ops))], snd (run ifs uc ops)).
Proof.
  intros Hn Ha. destruct (run_ok ifs uc ops) as (_ & [B1 _] & _).
  rewrite Forall_forall in B1. specialize (B1 e (nth_error_In _ _ Hn)). unfold entry_ok in B1.
  rewrite Ha in B1. destruct B1 as (t & Hf & _).
  cbn [step]. rewrite Hn. destruct e as [a ob st]. cbn [e_ans] in Ha. subst a.
  unfold inplace. unfold frozen in Hf. rewrite Hf. reflexivity.
Qed.

Theorem neg_index_runs ifs uc ops : run ifs uc (map (norm_op ifs) ops) = run ifs uc ops.
Proof. apply run_norm. Qed.

Lemma resolved_shift ifs raw :
  - numif ifs <= raw < 0 -> resolved ifs raw = resolved ifs (raw + numif ifs).
Proof.
  intros H. unfold resolved.
  replace ((0 <=? raw) && (raw <? numif ifs)) with false by (symmetry; apply andb_false_iff; lia).
  replace ((- numif ifs <=? raw) && (raw <? 0)) with true by (symmetry; apply andb_true_iff; lia).
  replace ((0 <=? raw + numif ifs) && (raw + numif ifs <? numif ifs)) with true
    by (symmetry; apply andb_true_iff; lia).
  reflexivity.
Qed.

Theorem neg_index_call ifs uc m raw f s :
  - numif ifs <= raw < 0 ->
  call ifs uc m raw f s = call ifs uc m (raw + numif ifs) f s /\
  spec ifs m raw = spec ifs m (raw + numif ifs).
Proof.
  intros H. pose proof (resolved_shift ifs raw H) as Hr. split.
  - apply call_respects. exact Hr.
  - unfold spec. rewrite Hr. reflexivity.
Qed.

Theorem clear_keeps_finals_all s k :
  s_finals (clear_inter s) = s_finals s /\ s_heap (clear_inter s) = s_heap s /\
  (mem_key k (s_finals s) = true -> lookup k (s_cache (clear_inter s)) = lookup k (s_cache s)) /\
  (mem_key k (s_finals s) = false -> lookup k (s_cache (clear_inter s)) = None).
Proof.
  split; [reflexivity|]. split; [reflexivity|]. split.
  - apply clear_inter_final.
  - apply clear_inter_nonfinal.
Qed.
