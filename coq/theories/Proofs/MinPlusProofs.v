(* Proofs/MinPlusProofs.v — lemmas about Model/MinPlus.v (C01, C13). Axiom-free.

   The order on costs is an ABSTRACT total preorder given by a boolean `leb`;
   the code's `<` is `ltb a b = negb (leb b a)`.  Nothing else is assumed (IEEE
   non-NaN doubles with <= and < satisfy exactly these laws), so the statements
   are not "up to rounding". *)
From Coq Require Import Arith List Bool Lia.
From Arim Require Import Model.MinPlus.
Import ListNotations.

(* ---------- generic list / table facts ---------------------------------- *)
Lemma firstn_map' {A B} (f : A -> B) n l : firstn n (map f l) = map f (firstn n l).
Proof. revert l; induction n as [|n IH]; intros [|x l]; simpl; auto. now rewrite IH. Qed.

Lemma skipn_map' {A B} (f : A -> B) n l : skipn n (map f l) = map f (skipn n l).
Proof. revert l; induction n as [|n IH]; intros [|x l]; simpl; auto. Qed.

Lemma slice_map {A B} (f : A -> B) a b l : slice a b (map f l) = map f (slice a b l).
Proof. unfold slice. now rewrite skipn_map', firstn_map'. Qed.

Lemma nth_error_map' {A B} (f : A -> B) l k :
  nth_error (map f l) k = option_map f (nth_error l k).
Proof. revert k; induction l as [|x l IH]; intros [|k]; simpl; auto. Qed.

Lemma nth_error_seq a n k : k < n -> nth_error (seq a n) k = Some (a + k).
Proof.
  revert a k; induction n as [|n IH]; intros a k H; [lia|].
  destruct k as [|k]; simpl; [f_equal; lia|]. rewrite IH by lia. f_equal; lia.
Qed.

Lemma get2_tab {A} n m (f : nat -> nat -> A) i j :
  i < n -> j < m -> get2 (tab n m f) i j = Some (f i j).
Proof.
  intros Hi Hj. unfold get2, tab.
  rewrite nth_error_map', nth_error_seq by exact Hi. simpl.
  rewrite nth_error_map', nth_error_seq by exact Hj. reflexivity.
Qed.

Lemma get2_tab_inv {A} n m (f : nat -> nat -> A) i j x :
  get2 (tab n m f) i j = Some x -> i < n /\ j < m /\ x = f i j.
Proof.
  intros H. unfold get2 in H.
  destruct (nth_error (tab n m f) i) as [row|] eqn:E; [|discriminate].
  assert (Hi : i < n).
  { assert (Hl : i < length (tab n m f)) by (apply nth_error_Some; congruence).
    unfold tab in Hl. now rewrite map_length, seq_length in Hl. }
  unfold tab in E. rewrite nth_error_map', nth_error_seq in E by exact Hi. simpl in E.
  injection E as <-.
  assert (Hj : j < m).
  { assert (Hl : j < length (map (fun j0 => f i j0) (seq 0 m))) by (apply nth_error_Some; congruence).
    now rewrite map_length, seq_length in Hl. }
  rewrite nth_error_map', nth_error_seq in H by exact Hj. simpl in H.
  injection H as <-. auto.
Qed.

Lemma tab_ext {A} n m (f g : nat -> nat -> A) :
  (forall i j, i < n -> j < m -> f i j = g i j) -> tab n m f = tab n m g.
Proof.
  intros H. unfold tab. apply map_ext_in. intros i Hi. apply in_seq in Hi.
  apply map_ext_in. intros j Hj. apply in_seq in Hj. apply H; lia.
Qed.

Lemma tab_length {A} n m (f : nat -> nat -> A) : length (tab n m f) = n.
Proof. unfold tab. now rewrite map_length, seq_length. Qed.

Lemma tab_row_length {A} n m (f : nat -> nat -> A) row : In row (tab n m f) -> length row = m.
Proof.
  unfold tab. intros H. apply in_map_iff in H as (i & <- & _). now rewrite map_length, seq_length.
Qed.

(* ---------- the kernel --------------------------------------------------- *)
Section MinPlusProofs.
  Variable T : Type.
  Variable leb ltb : T -> T -> bool.
  Variable add : T -> T -> T.
  Hypothesis leb_refl : forall a, leb a a = true.
  Hypothesis leb_trans : forall a b c, leb a b = true -> leb b c = true -> leb a c = true.
  Hypothesis leb_total : forall a b, leb a b = true \/ leb b a = true.
  Hypothesis ltb_leb : forall a b, ltb a b = negb (leb b a).

  Lemma mp_scan_zip k0 r c acc :
    mp_scan ltb add k0 r c acc = scan_list ltb k0 (zip_add add r c) acc.
  Proof.
    revert k0 c acc; induction r as [|x r IH]; intros k0 [|y c] acc; simpl; auto.
  Qed.

  Lemma scan_list_app k0 l1 l2 acc :
    scan_list ltb k0 (l1 ++ l2) acc = scan_list ltb (k0 + length l1) l2 (scan_list ltb k0 l1 acc).
  Proof.
    revert k0 acc; induction l1 as [|x l1 IH]; intros k0 acc; simpl.
    - now rewrite Nat.add_0_r.
    - rewrite IH. f_equal. lia.
  Qed.

  (* what the accumulator knows after having seen the candidates l *)
  Definition best_of (l : list T) (res : option (T * nat)) : Prop :=
    match res with
    | None => l = []
    | Some (b, kb) =>
        nth_error l kb = Some b
        /\ (forall k x, nth_error l k = Some x -> leb b x = true)
        /\ (forall k x, k < kb -> nth_error l k = Some x -> ltb b x = true)
    end.

  Lemma best_of_step l res x :
    best_of l res -> best_of (l ++ [x]) (mp_step ltb res (length l) x).
  Proof.
    intros H. destruct res as [[b kb]|]; simpl in *.
    - destruct H as (Hat & Hle & Hlt).
      assert (Hkb : kb < length l) by (apply nth_error_Some; congruence).
      destruct (ltb x b) eqn:E; simpl.
      + (* strictly better: take it *)
        assert (Hxb : leb b x = false) by (rewrite ltb_leb in E; now destruct (leb b x)).
        assert (Hxb' : leb x b = true) by (destruct (leb_total x b); congruence).
        repeat split.
        * rewrite nth_error_app2, Nat.sub_diag by lia. reflexivity.
        * intros k y Hy. destruct (Nat.lt_ge_cases k (length l)) as [Hk|Hk].
          -- rewrite nth_error_app1 in Hy by exact Hk. eapply leb_trans; [exact Hxb'|]. eapply Hle; eauto.
          -- rewrite nth_error_app2 in Hy by exact Hk.
             destruct (k - length l) as [|d]; simpl in Hy; [injection Hy as <-; apply leb_refl|].
             destruct d; discriminate.
        * intros k y Hk Hy. rewrite nth_error_app1 in Hy by exact Hk.
          rewrite ltb_leb. destruct (leb y x) eqn:Eyx; auto. exfalso.
          assert (leb b x = true) by (eapply leb_trans; [eapply Hle; eauto | exact Eyx]). congruence.
      + (* not strictly better: keep the earlier one *)
        assert (Hbx : leb b x = true) by (rewrite ltb_leb in E; now destruct (leb b x)).
        repeat split.
        * rewrite nth_error_app1 by exact Hkb. exact Hat.
        * intros k y Hy. destruct (Nat.lt_ge_cases k (length l)) as [Hk|Hk].
          -- rewrite nth_error_app1 in Hy by exact Hk. eapply Hle; eauto.
          -- rewrite nth_error_app2 in Hy by exact Hk.
             destruct (k - length l) as [|d]; simpl in Hy; [injection Hy as <-; exact Hbx|].
             destruct d; discriminate.
        * intros k y Hk Hy. rewrite nth_error_app1 in Hy by lia. eapply Hlt; eauto.
    - subst l. simpl. repeat split.
      + intros [|[|k]] y Hy; simpl in Hy; try discriminate. injection Hy as <-. apply leb_refl.
      + intros k y Hk; lia.
  Qed.

  Lemma scan_list_best l : best_of l (scan_list ltb 0 l None).
  Proof.
    induction l as [|x l IH] using rev_ind; simpl; auto.
    rewrite scan_list_app. simpl. apply best_of_step. exact IH.
  Qed.

  (* minplus_spec / minplus_first for one cell: candidates are zip_add r c *)
  Lemma minplus_cell_best r c : best_of (zip_add add r c) (minplus_cell ltb add r c).
  Proof. unfold minplus_cell. rewrite mp_scan_zip. apply scan_list_best. Qed.

  Lemma zip_add_nth r c k x y :
    nth_error r k = Some x -> nth_error c k = Some y -> nth_error (zip_add add r c) k = Some (add x y).
  Proof.
    revert c k; induction r as [|a r IH]; intros [|b c] [|k]; simpl; try discriminate; auto.
    - intros [= <-] [= <-]. reflexivity.
  Qed.

  Lemma zip_add_nth_inv r c k z :
    nth_error (zip_add add r c) k = Some z ->
    exists x y, nth_error r k = Some x /\ nth_error c k = Some y /\ z = add x y.
  Proof.
    revert c k; induction r as [|a r IH]; intros [|b c] [|k]; simpl; try discriminate; auto.
    - intros [= <-]. eauto.
  Qed.

  Lemma zip_add_length r c : length (zip_add add r c) = Nat.min (length r) (length c).
  Proof. revert c; induction r as [|a r IH]; intros [|b c]; simpl; auto. Qed.

  (* the cell is None (left at (inf, -1)) only when there is no candidate *)
  Lemma minplus_cell_some r c :
    r <> [] -> c <> [] -> exists b kb, minplus_cell ltb add r c = Some (b, kb).
  Proof.
    intros Hr Hc. pose proof (minplus_cell_best r c) as H.
    destruct (minplus_cell ltb add r c) as [[b kb]|]; [eauto|].
    simpl in H. destruct r, c; simpl in H; congruence.
  Qed.

  (* full statement for one cell, in terms of the two tables' entries *)
  Lemma minplus_cell_spec r c b kb :
    minplus_cell ltb add r c = Some (b, kb) ->
    (exists x y, nth_error r kb = Some x /\ nth_error c kb = Some y /\ b = add x y)
    /\ (forall k x y, nth_error r k = Some x -> nth_error c k = Some y -> leb b (add x y) = true)
    /\ (forall k x y, k < kb -> nth_error r k = Some x -> nth_error c k = Some y -> ltb b (add x y) = true).
  Proof.
    intros E. pose proof (minplus_cell_best r c) as H. rewrite E in H. simpl in H.
    destruct H as (Hat & Hle & Hlt). repeat split.
    - apply zip_add_nth_inv in Hat. exact Hat.
    - intros k x y Hx Hy. eapply Hle. eapply zip_add_nth; eauto.
    - intros k x y Hk Hx Hy. eapply Hlt; [exact Hk|]. eapply zip_add_nth; eauto.
  Qed.

  (* ---------- whole tables -------------------------------------------- *)
  Lemma get2_minplus t1 t2c i j r c :
    nth_error t1 i = Some r -> nth_error t2c j = Some c ->
    get2 (minplus ltb add t1 t2c) i j = Some (minplus_cell ltb add r c).
  Proof.
    intros Hr Hc. unfold get2, minplus. rewrite nth_error_map', Hr. simpl.
    rewrite nth_error_map', Hc. reflexivity.
  Qed.

  (* the kernel applied to rows a..b-1 of time_1 and columns c..d-1 of time_2 is the
     block [a:b, c:d] of the kernel applied to the whole tables (what one task of
     find_minimum_times computes; C13 shows the blocks partition the output) *)
  Lemma minplus_tile_lemma t1 t2c a b c d :
    minplus ltb add (slice a b t1) (slice c d t2c) = block a b c d (minplus ltb add t1 t2c).
  Proof.
    unfold block, minplus. rewrite slice_map, map_map. apply map_ext. intros r.
    now rewrite slice_map.
  Qed.

  (* on tables given by entry functions *)
  Lemma minplus_tab n m p (f : nat -> nat -> T) (g : nat -> nat -> T) :
    minplus ltb add (tab n m f) (tab p m g)
    = tab n p (fun i j => scan_list ltb 0 (map (fun k => add (f i k) (g j k)) (seq 0 m)) None).
  Proof.
    unfold minplus, tab. rewrite map_map. apply map_ext. intros i.
    rewrite map_map. apply map_ext. intros j.
    unfold minplus_cell. rewrite mp_scan_zip. f_equal.
    generalize (seq 0 m) as l. induction l as [|k l IH]; simpl; auto. now rewrite IH.
  Qed.
End MinPlusProofs.

(* ---------- the hypotheses on the cost type, bundled ----------------------- *)
Definition total_preorder {T} (leb ltb : T -> T -> bool) : Prop :=
  (forall a, leb a a = true)
  /\ (forall a b c, leb a b = true -> leb b c = true -> leb a c = true)
  /\ (forall a b, leb a b = true \/ leb b a = true)
  /\ (forall a b, ltb a b = negb (leb b a)).        (* the code's `<` is "not >=" *)

Definition monotone_add {T} (leb : T -> T -> bool) (add : T -> T -> T) : Prop :=
  forall a b c, leb a b = true -> leb (add a c) (add b c) = true.

Lemma minplus_spec_lemma T (leb ltb : T -> T -> bool) (add : T -> T -> T) :
  total_preorder leb ltb ->
  forall (t1 t2c : list (list T)) i j r c,
    nth_error t1 i = Some r -> nth_error t2c j = Some c -> r <> [] -> c <> [] ->
    exists b kb,
      get2 (minplus ltb add t1 t2c) i j = Some (Some (b, kb))
      /\ (exists x y, nth_error r kb = Some x /\ nth_error c kb = Some y /\ b = add x y)
      /\ (forall k x y, nth_error r k = Some x -> nth_error c k = Some y -> leb b (add x y) = true)
      /\ (forall k x y, k < kb -> nth_error r k = Some x -> nth_error c k = Some y -> ltb b (add x y) = true).
Proof.
  intros (H1 & H2 & H3 & H4) t1 t2c i j r c Hr Hc Hr0 Hc0.
  destruct (minplus_cell_some T leb ltb add H1 H2 H3 H4 r c Hr0 Hc0) as (b & kb & E).
  exists b, kb. rewrite (get2_minplus T ltb add t1 t2c i j r c Hr Hc), E. split; [reflexivity|].
  exact (minplus_cell_spec T leb ltb add H1 H2 H3 H4 r c b kb E).
Qed.

(* a cell is left at (inf, -1) exactly when there is no candidate *)
Lemma minplus_empty_lemma T (ltb : T -> T -> bool) (add : T -> T -> T) (r c : list T) :
  r = [] \/ c = [] -> minplus_cell ltb add r c = None.
Proof. intros [-> | ->]; [reflexivity|]. destruct r; reflexivity. Qed.

Lemma minplus_first_lemma T (leb ltb : T -> T -> bool) (add : T -> T -> T) :
  total_preorder leb ltb ->
  forall (t1 t2c : list (list T)) i j r c b kb,
    nth_error t1 i = Some r -> nth_error t2c j = Some c ->
    get2 (minplus ltb add t1 t2c) i j = Some (Some (b, kb)) ->
    forall k x y, k < kb -> nth_error r k = Some x -> nth_error c k = Some y -> ltb b (add x y) = true.
Proof.
  intros (H1 & H2 & H3 & H4) t1 t2c i j r c b kb Hr Hc E.
  rewrite (get2_minplus T ltb add t1 t2c i j r c Hr Hc) in E. injection E as E.
  exact (proj2 (proj2 (minplus_cell_spec T leb ltb add H1 H2 H3 H4 r c b kb E))).
Qed.
