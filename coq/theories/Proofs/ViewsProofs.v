(* Proofs/ViewsProofs.v — lemmas about Model/Views.v (C18). Axiom-free. *)
From Coq Require Import Arith List Bool ZArith Lia Permutation Sorting.Sorted.
From Arim Require Import Base.ListX Model.Views.
Import ListNotations.

(* ================================================================== *)
(* generic list facts                                                  *)
(* ================================================================== *)
Lemma nodup_app_intro {A} (l1 l2 : list A) :
  NoDup l1 -> NoDup l2 -> (forall x, In x l1 -> ~ In x l2) -> NoDup (l1 ++ l2).
Proof.
  induction l1 as [|a l1 IH]; intros H1 H2 Hd; simpl; auto.
  inversion H1 as [|? ? Hna Hnd]; subst. constructor.
  - rewrite in_app_iff. intros [H|H]; [contradiction|]. apply (Hd a); simpl; auto.
  - apply IH; auto. intros x Hx. apply Hd. simpl; auto.
Qed.

Lemma nodup_list_prod {A B} (l : list A) (l' : list B) :
  NoDup l -> NoDup l' -> NoDup (list_prod l l').
Proof.
  induction l as [|a l IH]; intros H H'; simpl; [constructor|].
  inversion H as [|? ? Hna Hnd]; subst. apply nodup_app_intro.
  - apply FinFun.Injective_map_NoDup; auto. intros x y E. congruence.
  - auto.
  - intros [x y] Hin Hin2. apply in_map_iff in Hin as (y' & E & _). inversion E; subst.
    apply in_prod_iff in Hin2 as [Hx _]. contradiction.
Qed.

Lemma subseq_refl {A} (l : list A) : subseq l l.
Proof. induction l; [apply subseq_nil | apply subseq_keep; auto]. Qed.

Lemma subseq_In {A} (u l : list A) x : subseq u l -> In x u -> In x l.
Proof. induction 1; simpl; intros Hx; auto. destruct Hx; auto. Qed.

Lemma subseq_Forall {A} (P : A -> Prop) (u l : list A) : subseq u l -> Forall P l -> Forall P u.
Proof.
  induction 1; intros HF; auto; inversion HF; subst; auto.
Qed.

Lemma subseq_sorted {A} (R : A -> A -> Prop) (u l : list A) :
  subseq u l -> StronglySorted R l -> StronglySorted R u.
Proof.
  induction 1; intros HS; auto.
  - apply StronglySorted_inv in HS as [HS _]. auto.
  - apply StronglySorted_inv in HS as [HS HF]. constructor; auto.
    eapply subseq_Forall; eauto.
Qed.

Lemma subseq_NoDup {A} (u l : list A) : subseq u l -> NoDup l -> NoDup u.
Proof.
  induction 1; intros HN; auto; inversion HN; subst; auto.
  constructor; auto. intro Hx. eapply subseq_In in Hx; eauto.
Qed.

(* the decomposition of a duplicate-free list around an element is unique *)
Lemma split_unique {A} (v : A) l1 l2 l1' l2' :
  l1 ++ v :: l2 = l1' ++ v :: l2' -> ~ In v l1 -> ~ In v l1' -> l1 = l1' /\ l2 = l2'.
Proof.
  revert l1'. induction l1 as [|a l1 IH]; intros [|a' l1'] E H1 H1'; simpl in *.
  - inversion E; auto.
  - inversion E; subst. exfalso. apply H1'; auto.
  - inversion E; subst. exfalso. apply H1; auto.
  - inversion E; subst. destruct (IH l1' H2) as [-> ->]; auto.
Qed.

(* ================================================================== *)
(* comparisons                                                         *)
(* ================================================================== *)
Record good_cmp {A} (cmp : A -> A -> comparison) : Prop := {
  gc_eq : forall a b, cmp a b = Eq <-> a = b;
  gc_sym : forall a b, cmp b a = CompOpp (cmp a b);
  gc_trans : forall a b c, cmp a b = Lt -> cmp b c = Lt -> cmp a c = Lt }.

Lemma good_nat : good_cmp Nat.compare.
Proof.
  split.
  - apply Nat.compare_eq_iff.
  - intros a b. apply Nat.compare_antisym.
  - intros a b c. rewrite !Nat.compare_lt_iff. lia.
Qed.

Lemma good_mode : good_cmp mode_cmp.
Proof.
  split.
  - intros [] []; simpl; split; congruence.
  - intros [] []; reflexivity.
  - intros [] [] []; simpl; congruence.
Qed.

Lemma good_pair {A B} (ca : A -> A -> comparison) (cb : B -> B -> comparison) :
  good_cmp ca -> good_cmp cb -> good_cmp (pair_cmp ca cb).
Proof.
  intros [ea sa ta] [eb sb tb]. split.
  - intros [a1 b1] [a2 b2]. unfold pair_cmp; simpl.
    destruct (ca a1 a2) eqn:E; simpl.
    + apply ea in E. subst. rewrite eb. split; [intros ->; auto | intros H; inversion H; auto].
    + split; [discriminate|]. intros H; inversion H; subst.
      assert (ca a2 a2 = Eq) by (apply ea; auto). congruence.
    + split; [discriminate|]. intros H; inversion H; subst.
      assert (ca a2 a2 = Eq) by (apply ea; auto). congruence.
  - intros [a1 b1] [a2 b2]. unfold pair_cmp; simpl. rewrite (sa a1 a2), (sb b1 b2).
    destruct (ca a1 a2); reflexivity.
  - intros [a1 b1] [a2 b2] [a3 b3]. unfold pair_cmp; simpl.
    destruct (ca a1 a2) eqn:E12; simpl; try discriminate.
    + apply ea in E12. subst a2. destruct (ca a1 a3); simpl; auto. apply tb.
    + intros _. destruct (ca a2 a3) eqn:E23; simpl; try discriminate.
      * apply ea in E23. subst a3. rewrite E12. auto.
      * rewrite (ta _ _ _ E12 E23). auto.
Qed.

Lemma good_list {A} (c : A -> A -> comparison) : good_cmp c -> good_cmp (list_cmp c).
Proof.
  intros [e s t]. split.
  - induction a as [|x a IH]; intros [|y b]; simpl; try (split; congruence).
    destruct (c x y) eqn:E; simpl.
    + apply e in E. subst. rewrite IH. split; [intros ->; auto | intros H; inversion H; auto].
    + split; [discriminate|]. intros H; inversion H; subst.
      assert (c y y = Eq) by (apply e; auto). congruence.
    + split; [discriminate|]. intros H; inversion H; subst.
      assert (c y y = Eq) by (apply e; auto). congruence.
  - induction a as [|x a IH]; intros [|y b]; simpl; auto.
    rewrite (s x y), IH. destruct (c x y); reflexivity.
  - induction a as [|x a IH]; intros [|y b] [|z d]; simpl; try discriminate; auto.
    destruct (c x y) eqn:E12; simpl; try discriminate.
    + apply e in E12. subst y. destruct (c x z); simpl; auto. apply IH.
    + intros _. destruct (c y z) eqn:E23; simpl; try discriminate.
      * apply e in E23. subst z. rewrite E12. auto.
      * rewrite (t _ _ _ E12 E23). auto.
Qed.

Lemma good_word : good_cmp word_cmp.
Proof. apply good_list, good_mode. Qed.

Lemma good_key : good_cmp key_cmp.
Proof.
  unfold key_cmp. repeat apply good_pair; auto using good_nat, good_word.
Qed.

Lemma key_inj a b : key a = key b -> a = b.
Proof. destruct a, b. unfold key. intros H. inversion H. reflexivity. Qed.

Lemma good_view : good_cmp view_cmp.
Proof.
  destruct good_key as [e s t]. unfold view_cmp. split.
  - intros a b. rewrite e. split; [apply key_inj | intros ->; auto].
  - intros; apply s.
  - intros a b c. apply t.
Qed.

(* word_cmp decides the lexicographic order *)
Lemma word_cmp_lt a b : word_cmp a b = Lt <-> word_lt a b.
Proof.
  unfold word_cmp. revert b. induction a as [|x a IH]; intros [|y b]; simpl.
  - split; [discriminate | inversion 1].
  - split; [constructor | auto].
  - split; [discriminate | inversion 1].
  - destruct x, y; simpl.
    + rewrite IH. split; [constructor; auto | inversion 1; auto].
    + split; [constructor | auto].
    + split; [discriminate | inversion 1].
    + rewrite IH. split; [constructor; auto | inversion 1; auto].
Qed.

Lemma word_cmp_eq a b : word_cmp a b = Eq <-> a = b.
Proof. apply (gc_eq _ good_word). Qed.

(* view_cmp = Lt is exactly the documented order *)
Lemma view_cmp_doc a b : view_cmp a b = Lt <-> doc_lt a b.
Proof.
  destruct a as [tx1 rx1], b as [tx2 rx2].
  unfold view_cmp, key, key_cmp, pair_cmp, doc_lt; cbn [fst snd].
  pose proof (word_cmp_lt tx1 tx2) as Ht. pose proof (word_cmp_eq tx1 tx2) as Ht'.
  pose proof (word_cmp_lt rx1 rx2) as Hr.
  destruct (Nat.compare_spec (length tx1 + length rx1) (length tx2 + length rx2)) as [E1|E1|E1];
    cbn [then_cmp]; [| split; [lia | auto] | split; [discriminate | lia]].
  destruct (Nat.compare_spec (Nat.max (length tx1) (length rx1)) (Nat.max (length tx2) (length rx2)))
    as [E2|E2|E2]; cbn [then_cmp]; [| split; [lia | auto] | split; [discriminate | lia]].
  destruct (Nat.compare_spec (length rx1) (length rx2)) as [E3|E3|E3];
    cbn [then_cmp]; [| split; [lia | auto] | split; [discriminate | lia]].
  destruct (Nat.compare_spec (length tx1) (length tx2)) as [E4|E4|E4];
    cbn [then_cmp]; [| split; [lia | auto] | split; [discriminate | lia]].
  destruct (word_cmp tx1 tx2) eqn:Ew; cbn [then_cmp].
  - assert (tx1 = tx2) by (apply Ht'; auto). subst tx2. rewrite Hr.
    split.
    + intros H. do 4 (right; split; [auto|]). right. auto.
    + intros [H|[_ [H|[_ [H|[_ [H|[_ [H|[_ H]]]]]]]]]]; try lia; auto.
      apply Ht in H. congruence.
  - split; [intros _ | auto]. do 4 (right; split; [auto|]). left. apply Ht; auto.
  - split; [discriminate|].
    intros [H|[_ [H|[_ [H|[_ [H|[_ [H|[H _]]]]]]]]]]; try lia.
    + apply Ht in H. congruence.
    + apply Ht' in H. congruence.
Qed.

(* ================================================================== *)
(* the sort                                                            *)
(* ================================================================== *)
Definition view_le (a b : viewname) : Prop := view_cmp a b <> Gt.

Lemma view_le_trans a b c : view_le a b -> view_le b c -> view_le a c.
Proof.
  destruct good_view as [e s t]. unfold view_le. intros H1 H2.
  destruct (view_cmp a b) eqn:E1; try congruence.
  - apply e in E1. subst. auto.
  - destruct (view_cmp b c) eqn:E2; try congruence.
    + apply e in E2. subst. congruence.
    + rewrite (t _ _ _ E1 E2). discriminate.
Qed.

Lemma insert_perm x l : Permutation (insert_view x l) (x :: l).
Proof.
  induction l as [|y l IH]; simpl; auto.
  destruct (view_ltb y x); auto.
  rewrite IH. apply perm_swap.
Qed.

Lemma sort_perm l : Permutation (sort_views l) l.
Proof.
  induction l as [|x l IH]; simpl; auto.
  rewrite insert_perm. auto.
Qed.

Lemma insert_sorted x l : StronglySorted view_le l -> StronglySorted view_le (insert_view x l).
Proof.
  induction l as [|y l IH]; simpl; intros HS.
  - constructor; auto.
  - apply StronglySorted_inv in HS as [HS HF].
    unfold view_ltb. destruct (view_cmp y x) eqn:E.
    + (* equal keys: x goes before y *)
      assert (Hxy : view_le x y).
      { unfold view_le. rewrite (gc_sym _ good_view y x), E. discriminate. }
      constructor; [constructor; auto|]. constructor; auto.
      eapply Forall_impl; [|exact HF]. intros z Hz. eapply view_le_trans; eauto.
    + constructor; auto.
      eapply Permutation_Forall; [symmetry; apply insert_perm|].
      constructor; auto. unfold view_le. rewrite E. discriminate.
    + assert (Hxy : view_le x y).
      { unfold view_le. rewrite (gc_sym _ good_view y x), E. discriminate. }
      constructor; [constructor; auto|]. constructor; auto.
      eapply Forall_impl; [|exact HF]. intros z Hz. eapply view_le_trans; eauto.
Qed.

Lemma sort_sorted l : StronglySorted view_le (sort_views l).
Proof.
  induction l as [|x l IH]; simpl; [constructor|]. apply insert_sorted; auto.
Qed.

Lemma sorted_strict l : StronglySorted view_le l -> NoDup l -> StronglySorted doc_lt l.
Proof.
  induction 1 as [|a l HS IH HF]; intros HN; [constructor|].
  inversion HN as [|? ? Hna Hnd]; subst. constructor; auto.
  rewrite Forall_forall in *. intros z Hz. apply view_cmp_doc.
  specialize (HF z Hz). unfold view_le in HF.
  destruct (view_cmp a z) eqn:E; try congruence.
  apply (gc_eq _ good_view) in E. subst. contradiction.
Qed.

(* doc_lt is a strict order *)
Lemma doc_lt_irrefl a : ~ doc_lt a a.
Proof.
  rewrite <- view_cmp_doc. assert (view_cmp a a = Eq) by (apply (gc_eq _ good_view); auto). congruence.
Qed.

Lemma doc_lt_trans a b c : doc_lt a b -> doc_lt b c -> doc_lt a c.
Proof. rewrite <- !view_cmp_doc. apply (gc_trans _ good_view). Qed.

Lemma doc_lt_total a b : doc_lt a b \/ a = b \/ doc_lt b a.
Proof.
  rewrite <- !view_cmp_doc. rewrite (gc_sym _ good_view a b).
  destruct (view_cmp a b) eqn:E; simpl; auto.
  apply (gc_eq _ good_view) in E. auto.
Qed.

(* ================================================================== *)
(* filter_unique_views                                                 *)
(* ================================================================== *)
Lemma mode_eqb_eq a b : mode_eqb a b = true <-> a = b.
Proof. destruct a, b; simpl; split; congruence. Qed.

Lemma word_eqb_eq a b : word_eqb a b = true <-> a = b.
Proof.
  unfold word_eqb. revert b. induction a as [|x a IH]; intros [|y b]; simpl; try (split; congruence).
  rewrite andb_true_iff, mode_eqb_eq, IH. split; [intros [-> ->]; auto | intros H; inversion H; auto].
Qed.

Lemma view_eqb_eq a b : view_eqb a b = true <-> a = b.
Proof.
  destruct a, b. unfold view_eqb; simpl. rewrite andb_true_iff, !word_eqb_eq.
  split; [intros [-> ->]; auto | intros H; inversion H; auto].
Qed.

Lemma memv_In v s : memv v s = true <-> In v s.
Proof.
  induction s as [|x s IH]; simpl; [split; [discriminate | tauto]|].
  rewrite orb_true_iff, view_eqb_eq, IH. split; intros [H|H]; auto.
Qed.

Lemma recip_involutive_l v : recip (recip v) = v.
Proof. destruct v as [tx rx]. unfold recip; simpl. rewrite !rev_involutive. reflexivity. Qed.

Lemma filter_from_subseq seen l : subseq (filter_unique_from seen l) l.
Proof.
  revert seen. induction l as [|v l IH]; intros seen; simpl; [apply subseq_nil|].
  destruct (memv (recip v) seen); [apply subseq_skip | apply subseq_keep]; auto.
Qed.

(* main invariant: with `seen` disjoint from the duplicate-free l, v is kept iff it
   occurs in l, its reciprocal has not been kept before l and does not precede it in l *)
Lemma filter_from_spec l : forall seen v,
  NoDup l -> (forall x, In x seen -> ~ In x l) ->
  (In v (filter_unique_from seen l) <->
   exists l1 l2, l = l1 ++ v :: l2 /\ ~ In (recip v) seen /\ ~ In (recip v) l1).
Proof.
  induction l as [|a l IH]; intros seen v HN Hd; simpl.
  - split; [tauto|]. intros ([|? ?] & l2 & E & _); discriminate.
  - inversion HN as [|? ? Hna Hnd]; subst.
    destruct (memv (recip a) seen) eqn:Em.
    + apply memv_In in Em.
      rewrite (IH seen v Hnd) by (intros x Hx Hin; apply (Hd x Hx); simpl; auto).
      split.
      * intros (l1 & l2 & -> & Hs & H1). exists (a :: l1), l2. repeat split; auto.
        simpl. intros [E|E]; [|contradiction].
        (* recip v = a: then v = recip a is in seen, but v is in l *)
        apply (Hd v).
        -- rewrite <- (recip_involutive_l v), <- E. exact Em.
        -- simpl. right. apply in_or_app. simpl. auto.
      * intros ([|b l1] & l2 & E & Hs & H1); simpl in E; inversion E; subst.
        -- contradiction.
        -- exists l1, l2. repeat split; auto. intro Hin. apply H1. simpl; auto.
    + assert (Hnm : ~ In (recip a) seen) by (rewrite <- memv_In; congruence).
      simpl. rewrite (IH (a :: seen) v Hnd).
      2:{ intros x [<-|Hx] Hin; [contradiction|]. apply (Hd x Hx). simpl; auto. }
      split.
      * intros [<-|(l1 & l2 & -> & Hs & H1)].
        -- exists [], l. repeat split; auto.
        -- exists (a :: l1), l2. repeat split; auto.
           ++ intro Hin. apply Hs. simpl; auto.
           ++ simpl. intros [E|E]; [|contradiction]. apply Hs. simpl; auto.
      * intros ([|b l1] & l2 & E & Hs & H1); simpl in E; inversion E; subst; auto.
        right. exists l1, l2. repeat split; auto.
        -- simpl. intros [E'|E']; [|contradiction]. apply H1. simpl; auto.
        -- intro Hin. apply H1. simpl; auto.
Qed.

Lemma filter_first_of_class l v : NoDup l ->
  (In v (filter_unique_views l) <-> first_of_class l v).
Proof.
  intros HN. unfold filter_unique_views, first_of_class.
  rewrite (filter_from_spec l [] v HN) by (intros x []).
  split.
  - intros (l1 & l2 & -> & _ & H1). exists l1, l2. repeat split; auto.
    intro Hin. apply NoDup_remove_2 in HN. apply HN. apply in_or_app; auto.
  - intros (l1 & l2 & -> & _ & H1). exists l1, l2. repeat split; auto.
Qed.

Lemma filter_keeps_alone l v : NoDup l -> In v l -> ~ In (recip v) l -> In v (filter_unique_views l).
Proof.
  intros HN Hv Hr. apply filter_first_of_class; auto.
  apply in_split in Hv as (l1 & l2 & ->). exists l1, l2. repeat split; auto.
  - intro Hin. apply NoDup_remove_2 in HN. apply HN. apply in_or_app; auto.
  - intro Hin. apply Hr. apply in_or_app; auto.
Qed.

Lemma filter_at_least_one l v : NoDup l -> In v l ->
  In v (filter_unique_views l) \/ In (recip v) (filter_unique_views l).
Proof.
  intros HN Hv. apply in_split in Hv as (l1 & l2 & ->).
  assert (Hv1 : ~ In v l1).
  { intro Hin. apply NoDup_remove_2 in HN. apply HN. apply in_or_app; auto. }
  destruct (in_dec (fun a b => Bool.reflect_dec _ _ (iff_reflect _ _ (iff_sym (view_eqb_eq a b))))
                   (recip v) l1) as [Hin|Hnin].
  - right. apply filter_first_of_class; auto.
    (* first occurrence of recip v in l1 *)
    clear HN. induction l1 as [|a l1 IH]; [destruct Hin|].
    destruct (view_eqb a (recip v)) eqn:Ea.
    + apply view_eqb_eq in Ea. subst a. exists [], (l1 ++ v :: l2). repeat split; auto.
    + assert (Ha : a <> recip v) by (rewrite <- view_eqb_eq; congruence).
      destruct Hin as [Hin|Hin]; [contradiction|].
      destruct IH as (m1 & m2 & E & H1 & H2); auto.
      { intro H. apply Hv1. simpl; auto. }
      exists (a :: m1), m2. simpl. rewrite E. repeat split; auto.
      * simpl. intros [H|H]; auto.
      * simpl. rewrite recip_involutive_l in *. intros [H|H]; auto.
        subst a. apply Hv1. simpl; auto.
  - left. apply filter_first_of_class; auto. exists l1, l2. repeat split; auto.
Qed.

Lemma filter_at_most_one l v : NoDup l ->
  In v (filter_unique_views l) -> In (recip v) (filter_unique_views l) -> v = recip v.
Proof.
  intros HN H1 H2.
  apply filter_first_of_class in H1 as (a1 & a2 & E1 & Ha & Hb); auto.
  apply filter_first_of_class in H2 as (b1 & b2 & E2 & Hc & Hd); auto.
  rewrite recip_involutive_l in Hd.
  destruct (view_eqb v (recip v)) eqn:Ev; [apply view_eqb_eq in Ev; auto|].
  assert (Hne : v <> recip v) by (rewrite <- view_eqb_eq; congruence).
  exfalso.
  (* recip v occurs in l = a1 ++ v :: a2, not in a1, not v: so in a2; symmetric for v *)
  assert (Hr : In (recip v) a2).
  { assert (Hin : In (recip v) l) by (rewrite E2; apply in_or_app; simpl; auto).
    rewrite E1 in Hin. apply in_app_or in Hin as [Hin|[Hin|Hin]]; auto; contradiction. }
  apply in_split in Hr as (c1 & c2 & ->).
  (* l = a1 ++ v :: c1 ++ recip v :: c2 = b1 ++ recip v :: b2, with recip v not in b1 *)
  assert (E : (a1 ++ v :: c1) ++ recip v :: c2 = b1 ++ recip v :: b2).
  { rewrite <- E2, E1, <- app_assoc. reflexivity. }
  assert (Hn1 : ~ In (recip v) (a1 ++ v :: c1)).
  { intro Hin. apply in_app_or in Hin as [Hin|[Hin|Hin]]; auto.
    (* recip v twice in l *)
    rewrite E1 in HN. apply NoDup_remove_1 in HN.
    apply in_split in Hin as (d1 & d2 & ->).
    rewrite <- !app_assoc in HN. simpl in HN. rewrite app_assoc in HN.
    apply NoDup_remove_2 in HN. apply HN. rewrite !in_app_iff. simpl. auto 6. }
  destruct (split_unique (recip v) (a1 ++ v :: c1) c2 b1 b2 E Hn1 Hc) as [Eb _].
  apply Hd. rewrite <- Eb. apply in_or_app. simpl. auto.
Qed.

Lemma filter_subseq l : subseq (filter_unique_views l) l.
Proof. apply filter_from_subseq. Qed.

(* ================================================================== *)
(* make_viewnames                                                      *)
(* ================================================================== *)
Lemma viewnames_perm names : Permutation (make_viewnames names false) (list_prod names names).
Proof. unfold make_viewnames, make_viewnames_gen, all_pairs. apply sort_perm. Qed.

Lemma viewnames_NoDup names : NoDup names -> NoDup (make_viewnames names false).
Proof.
  intros HN. eapply Permutation_NoDup; [symmetry; apply viewnames_perm|].
  apply nodup_list_prod; auto.
Qed.

Lemma viewnames_In names tx rx :
  In (tx, rx) (make_viewnames names false) <-> In tx names /\ In rx names.
Proof.
  rewrite <- in_prod_iff. split; apply Permutation_in; [|symmetry]; apply viewnames_perm.
Qed.

Lemma viewnames_length names : length (make_viewnames names false) = length names * length names.
Proof. rewrite (Permutation_length (viewnames_perm names)). apply prod_length. Qed.

Lemma viewnames_sorted_strict names : NoDup names ->
  StronglySorted doc_lt (make_viewnames names false).
Proof.
  intros HN. apply sorted_strict; [|apply viewnames_NoDup; auto].
  unfold make_viewnames, make_viewnames_gen. apply sort_sorted.
Qed.

Lemma viewnames_unique_eq names :
  make_viewnames names true = filter_unique_views (make_viewnames names false).
Proof. reflexivity. Qed.

Lemma viewnames_uo_In names uo tx rx :
  In (tx, rx) (make_viewnames names uo) -> In tx names /\ In rx names.
Proof.
  destruct uo; [|apply viewnames_In].
  rewrite viewnames_unique_eq. intros H. apply viewnames_In.
  eapply subseq_In; [apply filter_subseq|exact H].
Qed.

(* reversal-closed name sets: the set of views is closed under recip *)
Lemma viewnames_closed names v : (forall w, In w names -> In (rev w) names) ->
  In v (make_viewnames names false) -> In (recip v) (make_viewnames names false).
Proof.
  intros Hc. destruct v as [tx rx]. unfold recip; cbn [fst snd]. rewrite !viewnames_In.
  intros [H1 H2]. auto.
Qed.

(* ================================================================== *)
(* paths                                                               *)
(* ================================================================== *)
Lemma paths_wired_in_range s r : (r = 0 \/ r = 1 \/ r = 2)%Z -> make_paths s r = spec_paths s r.
Proof.
  intros [->|[->| ->]]; destruct s as [bw|fw bw um];
    try destruct fw; destruct bw; try destruct um; vm_compute; reflexivity.
Qed.

Lemma paths_wired_all s r : make_paths s r = spec_paths s r.
Proof.
  destruct (Z_lt_ge_dec r 0) as [Hneg|Hnn]; [|destruct (Z_le_gt_dec r 2) as [Hle|Hgt]].
  - assert (E1 : (r >? 2)%Z = false) by lia. assert (E2 : (r <? 0)%Z = true) by lia.
    unfold spec_paths. rewrite E1, E2.
    destruct s as [bw|fw bw um]; try destruct fw; destruct bw; try destruct um;
      cbn [make_paths make_interfaces_imm make_interfaces_contact make_backwall_refl_contact new_iface bind];
      unfold make_paths_imm, make_paths_contact; rewrite E1, E2; reflexivity.
  - apply paths_wired_in_range. lia.
  - assert (E1 : (r >? 2)%Z = true) by lia.
    unfold spec_paths. rewrite E1.
    destruct s as [bw|fw bw um]; try destruct fw; destruct bw; try destruct um;
      cbn [make_paths make_interfaces_imm make_interfaces_contact make_backwall_refl_contact new_iface bind];
      unfold make_paths_imm, make_paths_contact; rewrite E1; reflexivity.
Qed.

Definition block_prefix (s : Setup) : list Mode :=
  match s with Immersion _ => [L] | Contact _ _ _ => [] end.

Lemma spec_path_modes s w : p_modes (spec_path s w) = block_prefix s ++ w.
Proof. destruct s; reflexivity. Qed.

Lemma spec_paths_ok s r paths : spec_paths s r = inl paths ->
  paths = map (fun w => (w, spec_path s w)) (spec_names (Z.to_nat r)).
Proof.
  unfold spec_paths. destruct (r >? 2)%Z; [discriminate|]. destruct (r <? 0)%Z; [discriminate|].
  destruct s as [bw|fw bw um].
  - destruct ((r >=? 1)%Z && negb bw); [discriminate|]. intros H; inversion H; auto.
  - destruct (((r >=? 1)%Z && negb bw) || ((r >=? 2)%Z && negb fw)); [discriminate|].
    intros H; inversion H; auto.
Qed.

Lemma plookup_map_some (f : word -> Path) names w p :
  plookup w (map (fun w => (w, f w)) names) = Some p -> p = f w /\ In w names.
Proof.
  induction names as [|k names IH]; simpl; [discriminate|].
  destruct (word_eqb w k) eqn:E.
  - apply word_eqb_eq in E. subst k. intros H; inversion H; auto.
  - intros H. destruct (IH H); auto.
Qed.

Lemma plookup_In paths w : plookup w paths <> None <-> In w (map fst paths).
Proof.
  induction paths as [|[k p] paths IH]; simpl; [tauto|].
  destruct (word_eqb w k) eqn:E.
  - apply word_eqb_eq in E. subst. split; auto. discriminate.
  - assert (w <> k) by (rewrite <- word_eqb_eq; congruence).
    rewrite IH. split; auto. intros [H'|H']; auto. congruence.
Qed.

(* ================================================================== *)
(* views                                                               *)
(* ================================================================== *)
Lemma build_views_spec paths vns vs : build_views paths vns = inl vs ->
  map fst vs = vns /\
  forall X Y v, In ((X, Y), v) vs ->
    plookup X paths = Some (v_tx v) /\ plookup (rev Y) paths = Some (v_rx v) /\ v_name v = (X, Y).
Proof.
  revert vs. induction vns as [|[tx rx] t IH]; intros vs; simpl.
  - intros H; inversion H; subst. split; auto. intros ? ? ? [].
  - destruct (plookup tx paths) as [ptx|] eqn:E1; [|discriminate].
    destruct (plookup (rev rx) paths) as [prx|] eqn:E2; [|discriminate].
    destruct (build_views paths t) as [vs'|] eqn:E3; [|discriminate].
    intros H; inversion H; subst. destruct (IH vs' eq_refl) as [Hn Hw].
    split; [simpl; congruence|].
    intros X Y v [Hin|Hin]; [inversion Hin; subst; simpl; auto | eauto].
Qed.

Lemma build_views_total paths vns :
  (forall X Y, In (X, Y) vns -> plookup X paths <> None /\ plookup (rev Y) paths <> None) ->
  exists vs, build_views paths vns = inl vs.
Proof.
  induction vns as [|[tx rx] t IH]; intros H; simpl; [eauto|].
  destruct (H tx rx (or_introl eq_refl)) as [H1 H2].
  destruct (plookup tx paths); [|congruence]. destruct (plookup (rev rx) paths); [|congruence].
  destruct IH as [vs ->]; [intros; apply H; simpl; auto|]. eauto.
Qed.

Lemma build_views_fails paths vns X Y :
  In (X, Y) vns -> (plookup X paths = None \/ plookup (rev Y) paths = None) ->
  build_views paths vns = inr ErrKey.
Proof.
  induction vns as [|[tx rx] t IH]; intros Hin Hn; simpl; [destruct Hin|].
  destruct (plookup tx paths) eqn:E1; auto. destruct (plookup (rev rx) paths) eqn:E2; auto.
  destruct Hin as [Hin|Hin]; [inversion Hin; subst; destruct Hn; congruence|].
  rewrite (IH Hin Hn). reflexivity.
Qed.

Lemma views_from_paths_spec paths uo vs : make_views_from_paths paths uo = inl vs ->
  map fst vs = make_viewnames (map fst paths) uo /\
  forall X Y v, In ((X, Y), v) vs ->
    plookup X paths = Some (v_tx v) /\ plookup (rev Y) paths = Some (v_rx v) /\ v_name v = (X, Y).
Proof. apply build_views_spec. Qed.

Lemma views_from_paths_total paths uo :
  (forall w, In w (map fst paths) -> In (rev w) (map fst paths)) ->
  exists vs, make_views_from_paths paths uo = inl vs.
Proof.
  intros Hc. apply build_views_total. intros X Y Hin.
  apply viewnames_uo_In in Hin as [H1 H2]. rewrite !plookup_In. auto.
Qed.

(* a name whose reversal is missing makes the construction fail (KeyError), also
   with unique_only since (w, w) is always kept *)
Lemma views_from_paths_open paths uo w :
  NoDup (map fst paths) -> In w (map fst paths) -> ~ In (rev w) (map fst paths) ->
  make_views_from_paths paths uo = inr ErrKey.
Proof.
  intros HN Hw Hr. apply (build_views_fails paths _ w w).
  - assert (Hin : In (w, w) (make_viewnames (map fst paths) false)) by (apply viewnames_In; auto).
    destruct uo; auto. rewrite viewnames_unique_eq.
    apply filter_keeps_alone; auto using viewnames_NoDup.
    unfold recip; cbn [fst snd]. rewrite viewnames_In. tauto.
  - right. destruct (plookup (rev w) paths) eqn:E; auto.
    exfalso. apply Hr. apply plookup_In. congruence.
Qed.

Lemma last_opt_app {A} (pre w : list A) : w <> [] -> last_opt (pre ++ w) = last_opt w.
Proof.
  intros Hw. induction pre as [|a pre IH]; simpl; auto.
  destruct (pre ++ w) eqn:E; auto. apply app_eq_nil in E as [_ ->]. congruence.
Qed.

Lemma last_opt_last {A} (w : list A) d : w <> [] -> last_opt w = Some (last w d).
Proof.
  induction w as [|a w IH]; [congruence|]. intros _. destruct w as [|b w]; simpl; auto.
  apply IH. discriminate.
Qed.

Lemma last_opt_snoc {A} (l : list A) x : last_opt (l ++ [x]) = Some x.
Proof. rewrite last_opt_app by discriminate. reflexivity. Qed.

Lemma last_opt_rev {A} (w : list A) d : w <> [] -> last_opt (rev w) = Some (hd d w).
Proof. destruct w as [|a w]; [congruence|]. intros _. simpl. apply last_opt_snoc. Qed.

(* scat_key of a view whose two paths carry their names as their last block legs *)
Lemma scat_key_wired v X Y pre1 pre2 :
  X <> [] -> Y <> [] ->
  p_modes (v_tx v) = pre1 ++ X -> p_modes (v_rx v) = pre2 ++ rev Y ->
  scat_key v = Some (last X L, hd L Y).
Proof.
  intros HX HY E1 E2. unfold scat_key. rewrite E1, E2.
  rewrite (last_opt_app pre1 X HX), (last_opt_last X L HX).
  rewrite last_opt_app by (destruct Y; [congruence | simpl; intro H; apply app_eq_nil in H as [_ H]; discriminate]).
  rewrite (last_opt_rev Y L HY). reflexivity.
Qed.

Lemma spec_names_nonempty r w : In w (spec_names r) -> w <> [].
Proof.
  unfold spec_names. rewrite in_flat_map. intros (n & Hn & Hw).
  apply in_seq in Hn. destruct n; [lia|]. simpl in Hw.
  rewrite in_app_iff in Hw. destruct Hw as [Hw|Hw].
  - apply in_map_iff in Hw as (? & <- & _). discriminate.
  - rewrite app_nil_r in Hw. apply in_map_iff in Hw as (? & <- & _). discriminate.
Qed.

(* the views of every configuration *)
Lemma view_wiring_setups s r uo views : make_views s r uo = inl views ->
  map fst views = make_viewnames (spec_names (Z.to_nat r)) uo /\
  forall X Y v, In ((X, Y), v) views ->
    In X (spec_names (Z.to_nat r)) /\ In Y (spec_names (Z.to_nat r)) /\
    v_name v = (X, Y) /\
    v_tx v = spec_path s X /\ v_rx v = spec_path s (rev Y) /\
    p_modes (v_tx v) = block_prefix s ++ X /\ p_modes (v_rx v) = block_prefix s ++ rev Y /\
    scat_key v = Some (last X L, hd L Y).
Proof.
  unfold make_views. rewrite paths_wired_all.
  destruct (spec_paths s r) as [paths|e] eqn:E; [|discriminate]. cbn [bind].
  apply spec_paths_ok in E. subst paths. intros H.
  apply views_from_paths_spec in H as [Hn Hw].
  rewrite map_map in Hn. cbn [fst] in Hn. rewrite map_id in Hn. split; auto.
  intros X Y v Hin. destruct (Hw X Y v Hin) as (H1 & H2 & H3).
  apply plookup_map_some in H1 as [H1 HX]. apply plookup_map_some in H2 as [H2 HY].
  assert (HYn : In Y (spec_names (Z.to_nat r))).
  { assert (Hv : In (X, Y) (map fst views)) by (apply in_map_iff; exists ((X, Y), v); auto).
    rewrite Hn in Hv. apply viewnames_uo_In in Hv. tauto. }
  repeat split; auto.
  - rewrite H1. apply spec_path_modes.
  - rewrite H2. apply spec_path_modes.
  - apply (scat_key_wired v X Y (block_prefix s) (block_prefix s)).
    + eapply spec_names_nonempty; eauto.
    + eapply spec_names_nonempty; eauto.
    + rewrite H1. apply spec_path_modes.
    + rewrite H2. apply spec_path_modes.
Qed.

(* ================================================================== *)
(* reversal                                                            *)
(* ================================================================== *)
Lemma iface_reverse_invol i j : iface_reverse i = inl j -> iface_reverse j = inl i.
Proof.
  destruct i as [p k tr ag inc out].
  destruct k as [[]|]; destruct tr as [[]|]; destruct ag as [[]|]; cbn; intros H; inversion H; reflexivity.
Qed.

Lemma mapM_app {A B} (f : A -> res B) l1 l2 m1 m2 :
  mapM f l1 = inl m1 -> mapM f l2 = inl m2 -> mapM f (l1 ++ l2) = inl (m1 ++ m2).
Proof.
  revert m1. induction l1 as [|x l1 IH]; intros m1; simpl.
  - intros H; inversion H; subst. auto.
  - destruct (f x) as [y|]; [|discriminate]. destruct (mapM f l1) as [ys|] eqn:E; [|discriminate].
    intros H H2; inversion H; subst. rewrite (IH ys eq_refl H2). reflexivity.
Qed.

Lemma mapM_length {A B} (f : A -> res B) l m : mapM f l = inl m -> length m = length l.
Proof.
  revert m. induction l as [|x l IH]; intros m; simpl.
  - intros H; inversion H; auto.
  - destruct (f x); [|discriminate]. destruct (mapM f l) eqn:E; [|discriminate].
    intros H; inversion H; subst. simpl. rewrite (IH _ eq_refl). reflexivity.
Qed.

Lemma mapM_iface_rev l m : mapM iface_reverse l = inl m -> mapM iface_reverse (rev m) = inl (rev l).
Proof.
  revert m. induction l as [|x l IH]; intros m; simpl.
  - intros H; inversion H; subst. reflexivity.
  - destruct (iface_reverse x) as [y|] eqn:Ex; [|discriminate].
    destruct (mapM iface_reverse l) as [ys|] eqn:E; [|discriminate].
    intros H; inversion H; subst. simpl. apply mapM_app; auto.
    simpl. rewrite (iface_reverse_invol x y Ex). reflexivity.
Qed.

Lemma transpose_invol {A} (m : mat A) : transpose (transpose m) = m.
Proof. destruct m. reflexivity. Qed.

Lemma rays_reverse_invol r : rays_reverse (rays_reverse r) = r.
Proof.
  destruct r as [t i f]. unfold rays_reverse; simpl.
  rewrite transpose_invol, map_rev, !rev_involutive, map_map.
  f_equal. rewrite <- (map_id i) at 2. apply map_ext. intros; apply transpose_invol.
Qed.

(* x[k, i, j] == y[d-1-k, j, i] on the full index arrays *)
Lemma rays_reverse_indices_eq r :
  rays_indices (rays_reverse r) = rev (map transpose (rays_indices r)).
Proof.
  destruct r as [t i f]. unfold rays_indices, rays_reverse; simpl.
  rewrite map_app, rev_app_distr. simpl. reflexivity.
Qed.

Lemma path_reverse_invol p q : path_reverse p = inl q -> path_reverse q = inl p.
Proof.
  destruct p as [ifs mats modes name rays]. unfold path_reverse; cbn [p_interfaces p_materials p_modes p_name p_rays].
  destruct (mapM iface_reverse ifs) as [ri|] eqn:E; [|discriminate].
  unfold new_path. rewrite !rev_length.
  destruct ((2 <=? length ri) && (length mats =? length ri - 1) && (length modes =? length ri - 1)) eqn:C;
    [|discriminate].
  intros H; inversion H; subst; clear H. cbn [p_interfaces p_materials p_modes p_name p_rays].
  rewrite (mapM_iface_rev _ _ E). rewrite !rev_involutive, !rev_length.
  rewrite <- (mapM_length _ _ _ E), C. cbn [p_interfaces p_materials p_modes p_name p_rays].
  destruct rays as [r|]; cbn [option_map]; [rewrite rays_reverse_invol|]; reflexivity.
Qed.

(* every path of every configuration can be reversed *)
Lemma config_paths_reversible s r paths : make_paths s r = inl paths ->
  forall w p, In (w, p) paths -> exists q, path_reverse p = inl q.
Proof.
  rewrite paths_wired_all. intros E. apply spec_paths_ok in E. subst paths.
  intros w0 p Hin. apply in_map_iff in Hin as (w' & Ew & Hw). inversion Ew; subst w0 p; clear Ew.
  unfold path_reverse.
  assert (Hgen : forall s w, exists ri, mapM iface_reverse (p_interfaces (spec_path s w)) = inl ri
                                   /\ length ri = length (p_interfaces (spec_path s w))).
  { clear. intros s w.
    assert (Hw : forall ks, exists ri, mapM iface_reverse (map (spec_wall s) ks) = inl ri /\ length ri = length ks).
    { induction ks as [|k ks [ri [IH IL]]]; simpl; [eauto|].
      rewrite IH. unfold spec_wall.
      destruct s as [bw|fw bw um]; [|destruct (Nat.odd k && um)]; cbn; eexists; split; try reflexivity; simpl; congruence. }
    destruct (Hw (seq 1 (length w - 1))) as [rw [Erw Lrw]].
    destruct s as [bw|fw bw um]; cbn [spec_path p_interfaces app].
    - cbn [mapM iface_reverse spec_probe spec_front_trans i_kind i_tr i_points i_against i_inc i_out new_iface kind_reverse].
      assert (Eg : mapM iface_reverse [spec_grid] = inl [mkIface PGrid None None None None (Some true)]) by reflexivity.
      rewrite (mapM_app _ _ _ _ _ Erw Eg). eexists; split; [reflexivity|].
      simpl. rewrite !app_length, map_length. simpl. lia.
    - cbn [mapM iface_reverse spec_probe i_kind i_tr i_points i_against i_inc i_out new_iface].
      assert (Eg : mapM iface_reverse [spec_grid] = inl [mkIface PGrid None None None None (Some true)]) by reflexivity.
      rewrite (mapM_app _ _ _ _ _ Erw Eg). eexists; split; [reflexivity|].
      simpl. rewrite !app_length, map_length. simpl. lia. }
  destruct (Hgen s w') as [ri [Eri Lri]]. rewrite Eri.
  unfold new_path. rewrite !rev_length, Lri.
  assert (C : (2 <=? length (p_interfaces (spec_path s w')))
              && (length (p_materials (spec_path s w')) =? length (p_interfaces (spec_path s w')) - 1)
              && (length (p_modes (spec_path s w')) =? length (p_interfaces (spec_path s w')) - 1) = true).
  { assert (Hne : w' <> []) by (eapply spec_names_nonempty; eauto).
    destruct w' as [|m w']; [congruence|].
    destruct s; cbn [spec_path p_interfaces p_materials p_modes];
      simpl length; rewrite ?app_length, ?map_length, ?seq_length, ?repeat_length; simpl length;
      rewrite !andb_true_iff, Nat.leb_le, !Nat.eqb_eq; lia. }
  rewrite C. eauto.
Qed.

Lemma paths_names_modes s r paths : make_paths s r = inl paths ->
  map fst paths = spec_names (Z.to_nat r) /\
  forall w p, In (w, p) paths ->
    In w (spec_names (Z.to_nat r)) /\ p = spec_path s w /\
    p_modes p = block_prefix s ++ w /\ p_name p = w.
Proof.
  rewrite paths_wired_all. intros E. apply spec_paths_ok in E. subst paths. split.
  - rewrite map_map. cbn [fst]. apply map_id.
  - intros w0 p Hin. apply in_map_iff in Hin as (w' & Ew & Hw). inversion Ew; subst w0 p; clear Ew.
    repeat split; auto; destruct s; reflexivity.
Qed.

(* exactly one member of every class, for duplicate-free lists closed under recip *)
Lemma filter_exactly_one l v : NoDup l -> In v l ->
  (In v (filter_unique_views l) /\ (v = recip v \/ ~ In (recip v) (filter_unique_views l)))
  \/ (~ In v (filter_unique_views l) /\ In (recip v) (filter_unique_views l)).
Proof.
  intros HN Hv.
  assert (Hdec : forall x, In x (filter_unique_views l) \/ ~ In x (filter_unique_views l)).
  { intros x. destruct (memv x (filter_unique_views l)) eqn:E.
    - left. apply memv_In; auto.
    - right. rewrite <- memv_In. congruence. }
  destruct (Hdec v) as [H1|H1].
  - left. split; auto. destruct (Hdec (recip v)) as [H2|H2]; auto.
    left. eapply filter_at_most_one; eauto.
  - right. split; auto. destruct (filter_at_least_one l v HN Hv); tauto.
Qed.

(* ================================================================== *)
(* counting the unique views                                           *)
(* ================================================================== *)
Lemma filter_split_length {A} (f : A -> bool) l :
  length (filter f l) + length (filter (fun x => negb (f x)) l) = length l.
Proof. induction l as [|a l IH]; simpl; auto. destruct (f a); simpl; lia. Qed.

Lemma same_elements_length {A} (l1 l2 : list A) :
  NoDup l1 -> NoDup l2 -> (forall x, In x l1 <-> In x l2) -> length l1 = length l2.
Proof. intros H1 H2 H. apply Permutation_length. apply NoDup_Permutation; auto. Qed.

Lemma recip_inj a b : recip a = recip b -> a = b.
Proof. intros H. rewrite <- (recip_involutive_l a), H. apply recip_involutive_l. Qed.

Lemma self_recip_eq v : self_recip v = true <-> v = recip v.
Proof. apply view_eqb_eq. Qed.

Lemma filter_unique_count l : NoDup l -> (forall v, In v l -> In (recip v) l) ->
  2 * length (filter_unique_views l) = length l + length (filter self_recip l).
Proof.
  intros HN Hc. set (u := filter_unique_views l).
  assert (HNu : NoDup u) by (eapply subseq_NoDup; [apply filter_subseq|auto]).
  assert (Hul : forall v, In v u -> In v l) by (intros v; apply subseq_In, filter_subseq).
  set (inu := fun v => memv v u).
  set (d := filter (fun v => negb (inu v)) l).
  set (uns := filter (fun v => negb (self_recip v)) u).
  assert (E1 : length (filter inu l) = length u).
  { apply same_elements_length; auto using NoDup_filter.
    intros x. rewrite filter_In. unfold inu. rewrite memv_In. split; [tauto | auto]. }
  assert (E2 : length (map recip d) = length uns).
  { apply same_elements_length.
    - apply FinFun.Injective_map_NoDup; [intros a b; apply recip_inj | apply NoDup_filter; auto].
    - apply NoDup_filter; auto.
    - intros w. rewrite in_map_iff. unfold d, uns. split.
      + intros (v & <- & Hv). apply filter_In in Hv as [Hvl Hvu].
        apply negb_true_iff in Hvu. unfold inu in Hvu.
        assert (Hnu : ~ In v u) by (rewrite <- memv_In; congruence).
        apply filter_In. split.
        * destruct (filter_at_least_one l v HN Hvl); tauto.
        * apply negb_true_iff. destruct (self_recip (recip v)) eqn:Es; auto.
          apply self_recip_eq in Es. rewrite recip_involutive_l in Es.
          exfalso. apply Hnu. rewrite <- Es. destruct (filter_at_least_one l v HN Hvl); tauto.
      + intros Hw. apply filter_In in Hw as [Hwu Hws]. apply negb_true_iff in Hws.
        exists (recip w). split; [apply recip_involutive_l|].
        apply filter_In. split; [auto|].
        apply negb_true_iff. unfold inu. destruct (memv (recip w) u) eqn:Em; auto.
        apply memv_In in Em. assert (Hs : w = recip w) by (apply (filter_at_most_one l w HN Hwu Em)).
        apply self_recip_eq in Hs. congruence. }
  assert (E3 : length (filter self_recip u) = length (filter self_recip l)).
  { apply same_elements_length; auto using NoDup_filter.
    intros x. rewrite !filter_In. split; intros [H1 H2]; split; auto.
    apply self_recip_eq in H2. destruct (filter_at_least_one l x HN H1) as [H|H]; auto.
    rewrite <- H2 in H. auto. }
  pose proof (filter_split_length inu l) as P1.
  pose proof (filter_split_length self_recip u) as P2.
  rewrite map_length in E2. fold d in P1. fold uns in P2. lia.
Qed.

Lemma viewnames_self_count names : NoDup names -> (forall w, In w names -> In (rev w) names) ->
  length (filter self_recip (make_viewnames names false)) = length names.
Proof.
  intros HN Hc. rewrite <- (map_length (fun w => (w, rev w)) names).
  apply same_elements_length.
  - apply NoDup_filter, viewnames_NoDup; auto.
  - apply FinFun.Injective_map_NoDup; auto. intros a b H; inversion H; auto.
  - intros [tx rx]. rewrite filter_In, in_map_iff, viewnames_In, self_recip_eq. unfold recip; cbn [fst snd].
    split.
    + intros [[H1 H2] E]. injection E as E1 E2. exists tx. split; auto. f_equal.
      rewrite E1. apply rev_involutive.
    + intros (w & E & Hw). inversion E; subst. rewrite rev_involutive. auto.
Qed.

Lemma unique_views_count_l names : NoDup names -> (forall w, In w names -> In (rev w) names) ->
  2 * length (make_viewnames names true) = length names * (length names + 1).
Proof.
  intros HN Hc. rewrite viewnames_unique_eq, filter_unique_count.
  - rewrite viewnames_self_count, viewnames_length; auto.
    rewrite Nat.mul_add_distr_l, Nat.mul_1_r. reflexivity.
  - apply viewnames_NoDup; auto.
  - intros v. apply viewnames_closed; auto.
Qed.

(* ================================================================== *)
(* what the reversed objects are                                       *)
(* ================================================================== *)
Lemma iface_reverse_spec i j : iface_reverse i = inl j ->
  i_points j = i_points i /\ i_tr j = i_tr i /\ i_against j = i_against i /\
  i_inc j = i_out i /\ i_out j = i_inc i /\
  i_kind j = match i_tr i with
             | Some Transmission => option_map kind_reverse (i_kind i)
             | _ => i_kind i
             end.
Proof.
  destruct i as [p k tr ag inc out].
  destruct k as [[]|]; destruct tr as [[]|]; destruct ag as [[]|]; cbn; intros H; inversion H;
    repeat split; reflexivity.
Qed.

Lemma mapM_Forall2 {A B} (f : A -> res B) l m :
  mapM f l = inl m -> Forall2 (fun x y => f x = inl y) l m.
Proof.
  revert m. induction l as [|x l IH]; intros m; simpl.
  - intros H; inversion H; constructor.
  - destruct (f x) as [y|] eqn:Ex; [|discriminate]. destruct (mapM f l) as [ys|] eqn:E; [|discriminate].
    intros H; inversion H; subst. constructor; auto.
Qed.

Lemma path_reverse_spec p q : path_reverse p = inl q ->
  p_modes q = rev (p_modes p) /\ p_materials q = rev (p_materials p) /\ p_name q = p_name p /\
  p_rays q = option_map rays_reverse (p_rays p) /\
  exists ri, p_interfaces q = rev ri /\
             Forall2 (fun x y => iface_reverse x = inl y) (p_interfaces p) ri.
Proof.
  unfold path_reverse. destruct (mapM iface_reverse (p_interfaces p)) as [ri|] eqn:E; [|discriminate].
  unfold new_path.
  destruct ((2 <=? length (rev ri)) && (length (rev (p_materials p)) =? length (rev ri) - 1)
            && (length (rev (p_modes p)) =? length (rev ri) - 1)); [|discriminate].
  cbn [p_interfaces p_materials p_modes p_name p_rays].
  intros H; inversion H; subst; clear H. cbn [p_interfaces p_materials p_modes p_name p_rays].
  repeat split; auto. exists ri. split; auto. apply mapM_Forall2; auto.
Qed.
